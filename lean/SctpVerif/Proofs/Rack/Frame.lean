import SctpVerif.Model.Rack
/-!
Frame lemmas `(f s …).field = s.field` for every function of `Model/Rack.lean` that is a chain of record updates and
every field it does not assign (generated once by a script, kept by hand). All are `simp` lemmas.
-/
namespace Rack

/-- close a goal `(f s).x = s.x` where `f` is conditionals around record updates -/
macro "frame" : tactic => `(tactic| (repeat' (first | rfl | split | dsimp only)))

@[simp] theorem startRackTimer_cfg (s : St) (d : Int) : (startRackTimer s d).cfg = s.cfg := by
  unfold startRackTimer; frame

@[simp] theorem startRackTimer_now (s : St) (d : Int) : (startRackTimer s d).now = s.now := by
  unfold startRackTimer; frame

@[simp] theorem startRackTimer_q (s : St) (d : Int) : (startRackTimer s d).q = s.q := by
  unfold startRackTimer; frame

@[simp] theorem startRackTimer_cumAck (s : St) (d : Int) : (startRackTimer s d).cumAck = s.cumAck := by
  unfold startRackTimer; frame

@[simp] theorem startRackTimer_myNextTSN (s : St) (d : Int) : (startRackTimer s d).myNextTSN = s.myNextTSN := by
  unfold startRackTimer; frame

@[simp] theorem startRackTimer_minTSN2MeasureRTT (s : St) (d : Int) : (startRackTimer s d).minTSN2MeasureRTT = s.minTSN2MeasureRTT := by
  unfold startRackTimer; frame

@[simp] theorem startRackTimer_list (s : St) (d : Int) : (startRackTimer s d).list = s.list := by
  unfold startRackTimer; frame

@[simp] theorem startRackTimer_reoWnd (s : St) (d : Int) : (startRackTimer s d).reoWnd = s.reoWnd := by
  unfold startRackTimer; frame

@[simp] theorem startRackTimer_minRTT (s : St) (d : Int) : (startRackTimer s d).minRTT = s.minRTT := by
  unfold startRackTimer; frame

@[simp] theorem startRackTimer_minWnd (s : St) (d : Int) : (startRackTimer s d).minWnd = s.minWnd := by
  unfold startRackTimer; frame

@[simp] theorem startRackTimer_deliveredTime (s : St) (d : Int) : (startRackTimer s d).deliveredTime = s.deliveredTime := by
  unfold startRackTimer; frame

@[simp] theorem startRackTimer_hw (s : St) (d : Int) : (startRackTimer s d).hw = s.hw := by
  unfold startRackTimer; frame

@[simp] theorem startRackTimer_reorderingSeen (s : St) (d : Int) : (startRackTimer s d).reorderingSeen = s.reorderingSeen := by
  unfold startRackTimer; frame

@[simp] theorem startRackTimer_keepInflated (s : St) (d : Int) : (startRackTimer s d).keepInflated = s.keepInflated := by
  unfold startRackTimer; frame

@[simp] theorem startRackTimer_ptoDeadline (s : St) (d : Int) : (startRackTimer s d).ptoDeadline = s.ptoDeadline := by
  unfold startRackTimer; frame

@[simp] theorem startRackTimer_tlrActive (s : St) (d : Int) : (startRackTimer s d).tlrActive = s.tlrActive := by
  unfold startRackTimer; frame

@[simp] theorem startRackTimer_tlrFirstRTT (s : St) (d : Int) : (startRackTimer s d).tlrFirstRTT = s.tlrFirstRTT := by
  unfold startRackTimer; frame

@[simp] theorem startRackTimer_tlrHadAdditionalLoss (s : St) (d : Int) : (startRackTimer s d).tlrHadAdditionalLoss = s.tlrHadAdditionalLoss := by
  unfold startRackTimer; frame

@[simp] theorem startRackTimer_tlrEndTSN (s : St) (d : Int) : (startRackTimer s d).tlrEndTSN = s.tlrEndTSN := by
  unfold startRackTimer; frame

@[simp] theorem startRackTimer_tlrBurstFirst (s : St) (d : Int) : (startRackTimer s d).tlrBurstFirst = s.tlrBurstFirst := by
  unfold startRackTimer; frame

@[simp] theorem startRackTimer_tlrBurstLater (s : St) (d : Int) : (startRackTimer s d).tlrBurstLater = s.tlrBurstLater := by
  unfold startRackTimer; frame

@[simp] theorem startRackTimer_tlrGoodOps (s : St) (d : Int) : (startRackTimer s d).tlrGoodOps = s.tlrGoodOps := by
  unfold startRackTimer; frame

@[simp] theorem startRackTimer_tlrStartTime (s : St) (d : Int) : (startRackTimer s d).tlrStartTime = s.tlrStartTime := by
  unfold startRackTimer; frame

@[simp] theorem startRackTimer_hbProbes (s : St) (d : Int) : (startRackTimer s d).hbProbes = s.hbProbes := by
  unfold startRackTimer; frame

@[simp] theorem stopRackTimer_cfg (s : St) : (stopRackTimer s).cfg = s.cfg := by
  unfold stopRackTimer; frame

@[simp] theorem stopRackTimer_now (s : St) : (stopRackTimer s).now = s.now := by
  unfold stopRackTimer; frame

@[simp] theorem stopRackTimer_q (s : St) : (stopRackTimer s).q = s.q := by
  unfold stopRackTimer; frame

@[simp] theorem stopRackTimer_cumAck (s : St) : (stopRackTimer s).cumAck = s.cumAck := by
  unfold stopRackTimer; frame

@[simp] theorem stopRackTimer_myNextTSN (s : St) : (stopRackTimer s).myNextTSN = s.myNextTSN := by
  unfold stopRackTimer; frame

@[simp] theorem stopRackTimer_minTSN2MeasureRTT (s : St) : (stopRackTimer s).minTSN2MeasureRTT = s.minTSN2MeasureRTT := by
  unfold stopRackTimer; frame

@[simp] theorem stopRackTimer_list (s : St) : (stopRackTimer s).list = s.list := by
  unfold stopRackTimer; frame

@[simp] theorem stopRackTimer_reoWnd (s : St) : (stopRackTimer s).reoWnd = s.reoWnd := by
  unfold stopRackTimer; frame

@[simp] theorem stopRackTimer_minRTT (s : St) : (stopRackTimer s).minRTT = s.minRTT := by
  unfold stopRackTimer; frame

@[simp] theorem stopRackTimer_minWnd (s : St) : (stopRackTimer s).minWnd = s.minWnd := by
  unfold stopRackTimer; frame

@[simp] theorem stopRackTimer_deliveredTime (s : St) : (stopRackTimer s).deliveredTime = s.deliveredTime := by
  unfold stopRackTimer; frame

@[simp] theorem stopRackTimer_hw (s : St) : (stopRackTimer s).hw = s.hw := by
  unfold stopRackTimer; frame

@[simp] theorem stopRackTimer_reorderingSeen (s : St) : (stopRackTimer s).reorderingSeen = s.reorderingSeen := by
  unfold stopRackTimer; frame

@[simp] theorem stopRackTimer_keepInflated (s : St) : (stopRackTimer s).keepInflated = s.keepInflated := by
  unfold stopRackTimer; frame

@[simp] theorem stopRackTimer_ptoDeadline (s : St) : (stopRackTimer s).ptoDeadline = s.ptoDeadline := by
  unfold stopRackTimer; frame

@[simp] theorem stopRackTimer_tlrActive (s : St) : (stopRackTimer s).tlrActive = s.tlrActive := by
  unfold stopRackTimer; frame

@[simp] theorem stopRackTimer_tlrFirstRTT (s : St) : (stopRackTimer s).tlrFirstRTT = s.tlrFirstRTT := by
  unfold stopRackTimer; frame

@[simp] theorem stopRackTimer_tlrHadAdditionalLoss (s : St) : (stopRackTimer s).tlrHadAdditionalLoss = s.tlrHadAdditionalLoss := by
  unfold stopRackTimer; frame

@[simp] theorem stopRackTimer_tlrEndTSN (s : St) : (stopRackTimer s).tlrEndTSN = s.tlrEndTSN := by
  unfold stopRackTimer; frame

@[simp] theorem stopRackTimer_tlrBurstFirst (s : St) : (stopRackTimer s).tlrBurstFirst = s.tlrBurstFirst := by
  unfold stopRackTimer; frame

@[simp] theorem stopRackTimer_tlrBurstLater (s : St) : (stopRackTimer s).tlrBurstLater = s.tlrBurstLater := by
  unfold stopRackTimer; frame

@[simp] theorem stopRackTimer_tlrGoodOps (s : St) : (stopRackTimer s).tlrGoodOps = s.tlrGoodOps := by
  unfold stopRackTimer; frame

@[simp] theorem stopRackTimer_tlrStartTime (s : St) : (stopRackTimer s).tlrStartTime = s.tlrStartTime := by
  unfold stopRackTimer; frame

@[simp] theorem stopRackTimer_hbProbes (s : St) : (stopRackTimer s).hbProbes = s.hbProbes := by
  unfold stopRackTimer; frame

@[simp] theorem startPTOTimer_cfg (s : St) (d : Int) : (startPTOTimer s d).cfg = s.cfg := by
  unfold startPTOTimer; frame

@[simp] theorem startPTOTimer_now (s : St) (d : Int) : (startPTOTimer s d).now = s.now := by
  unfold startPTOTimer; frame

@[simp] theorem startPTOTimer_q (s : St) (d : Int) : (startPTOTimer s d).q = s.q := by
  unfold startPTOTimer; frame

@[simp] theorem startPTOTimer_cumAck (s : St) (d : Int) : (startPTOTimer s d).cumAck = s.cumAck := by
  unfold startPTOTimer; frame

@[simp] theorem startPTOTimer_myNextTSN (s : St) (d : Int) : (startPTOTimer s d).myNextTSN = s.myNextTSN := by
  unfold startPTOTimer; frame

@[simp] theorem startPTOTimer_minTSN2MeasureRTT (s : St) (d : Int) : (startPTOTimer s d).minTSN2MeasureRTT = s.minTSN2MeasureRTT := by
  unfold startPTOTimer; frame

@[simp] theorem startPTOTimer_list (s : St) (d : Int) : (startPTOTimer s d).list = s.list := by
  unfold startPTOTimer; frame

@[simp] theorem startPTOTimer_reoWnd (s : St) (d : Int) : (startPTOTimer s d).reoWnd = s.reoWnd := by
  unfold startPTOTimer; frame

@[simp] theorem startPTOTimer_minRTT (s : St) (d : Int) : (startPTOTimer s d).minRTT = s.minRTT := by
  unfold startPTOTimer; frame

@[simp] theorem startPTOTimer_minWnd (s : St) (d : Int) : (startPTOTimer s d).minWnd = s.minWnd := by
  unfold startPTOTimer; frame

@[simp] theorem startPTOTimer_deliveredTime (s : St) (d : Int) : (startPTOTimer s d).deliveredTime = s.deliveredTime := by
  unfold startPTOTimer; frame

@[simp] theorem startPTOTimer_hw (s : St) (d : Int) : (startPTOTimer s d).hw = s.hw := by
  unfold startPTOTimer; frame

@[simp] theorem startPTOTimer_reorderingSeen (s : St) (d : Int) : (startPTOTimer s d).reorderingSeen = s.reorderingSeen := by
  unfold startPTOTimer; frame

@[simp] theorem startPTOTimer_keepInflated (s : St) (d : Int) : (startPTOTimer s d).keepInflated = s.keepInflated := by
  unfold startPTOTimer; frame

@[simp] theorem startPTOTimer_rackDeadline (s : St) (d : Int) : (startPTOTimer s d).rackDeadline = s.rackDeadline := by
  unfold startPTOTimer; frame

@[simp] theorem startPTOTimer_tlrActive (s : St) (d : Int) : (startPTOTimer s d).tlrActive = s.tlrActive := by
  unfold startPTOTimer; frame

@[simp] theorem startPTOTimer_tlrFirstRTT (s : St) (d : Int) : (startPTOTimer s d).tlrFirstRTT = s.tlrFirstRTT := by
  unfold startPTOTimer; frame

@[simp] theorem startPTOTimer_tlrHadAdditionalLoss (s : St) (d : Int) : (startPTOTimer s d).tlrHadAdditionalLoss = s.tlrHadAdditionalLoss := by
  unfold startPTOTimer; frame

@[simp] theorem startPTOTimer_tlrEndTSN (s : St) (d : Int) : (startPTOTimer s d).tlrEndTSN = s.tlrEndTSN := by
  unfold startPTOTimer; frame

@[simp] theorem startPTOTimer_tlrBurstFirst (s : St) (d : Int) : (startPTOTimer s d).tlrBurstFirst = s.tlrBurstFirst := by
  unfold startPTOTimer; frame

@[simp] theorem startPTOTimer_tlrBurstLater (s : St) (d : Int) : (startPTOTimer s d).tlrBurstLater = s.tlrBurstLater := by
  unfold startPTOTimer; frame

@[simp] theorem startPTOTimer_tlrGoodOps (s : St) (d : Int) : (startPTOTimer s d).tlrGoodOps = s.tlrGoodOps := by
  unfold startPTOTimer; frame

@[simp] theorem startPTOTimer_tlrStartTime (s : St) (d : Int) : (startPTOTimer s d).tlrStartTime = s.tlrStartTime := by
  unfold startPTOTimer; frame

@[simp] theorem startPTOTimer_hbProbes (s : St) (d : Int) : (startPTOTimer s d).hbProbes = s.hbProbes := by
  unfold startPTOTimer; frame

@[simp] theorem stopPTOTimer_cfg (s : St) : (stopPTOTimer s).cfg = s.cfg := by
  unfold stopPTOTimer; frame

@[simp] theorem stopPTOTimer_now (s : St) : (stopPTOTimer s).now = s.now := by
  unfold stopPTOTimer; frame

@[simp] theorem stopPTOTimer_q (s : St) : (stopPTOTimer s).q = s.q := by
  unfold stopPTOTimer; frame

@[simp] theorem stopPTOTimer_cumAck (s : St) : (stopPTOTimer s).cumAck = s.cumAck := by
  unfold stopPTOTimer; frame

@[simp] theorem stopPTOTimer_myNextTSN (s : St) : (stopPTOTimer s).myNextTSN = s.myNextTSN := by
  unfold stopPTOTimer; frame

@[simp] theorem stopPTOTimer_minTSN2MeasureRTT (s : St) : (stopPTOTimer s).minTSN2MeasureRTT = s.minTSN2MeasureRTT := by
  unfold stopPTOTimer; frame

@[simp] theorem stopPTOTimer_list (s : St) : (stopPTOTimer s).list = s.list := by
  unfold stopPTOTimer; frame

@[simp] theorem stopPTOTimer_reoWnd (s : St) : (stopPTOTimer s).reoWnd = s.reoWnd := by
  unfold stopPTOTimer; frame

@[simp] theorem stopPTOTimer_minRTT (s : St) : (stopPTOTimer s).minRTT = s.minRTT := by
  unfold stopPTOTimer; frame

@[simp] theorem stopPTOTimer_minWnd (s : St) : (stopPTOTimer s).minWnd = s.minWnd := by
  unfold stopPTOTimer; frame

@[simp] theorem stopPTOTimer_deliveredTime (s : St) : (stopPTOTimer s).deliveredTime = s.deliveredTime := by
  unfold stopPTOTimer; frame

@[simp] theorem stopPTOTimer_hw (s : St) : (stopPTOTimer s).hw = s.hw := by
  unfold stopPTOTimer; frame

@[simp] theorem stopPTOTimer_reorderingSeen (s : St) : (stopPTOTimer s).reorderingSeen = s.reorderingSeen := by
  unfold stopPTOTimer; frame

@[simp] theorem stopPTOTimer_keepInflated (s : St) : (stopPTOTimer s).keepInflated = s.keepInflated := by
  unfold stopPTOTimer; frame

@[simp] theorem stopPTOTimer_rackDeadline (s : St) : (stopPTOTimer s).rackDeadline = s.rackDeadline := by
  unfold stopPTOTimer; frame

@[simp] theorem stopPTOTimer_tlrActive (s : St) : (stopPTOTimer s).tlrActive = s.tlrActive := by
  unfold stopPTOTimer; frame

@[simp] theorem stopPTOTimer_tlrFirstRTT (s : St) : (stopPTOTimer s).tlrFirstRTT = s.tlrFirstRTT := by
  unfold stopPTOTimer; frame

@[simp] theorem stopPTOTimer_tlrHadAdditionalLoss (s : St) : (stopPTOTimer s).tlrHadAdditionalLoss = s.tlrHadAdditionalLoss := by
  unfold stopPTOTimer; frame

@[simp] theorem stopPTOTimer_tlrEndTSN (s : St) : (stopPTOTimer s).tlrEndTSN = s.tlrEndTSN := by
  unfold stopPTOTimer; frame

@[simp] theorem stopPTOTimer_tlrBurstFirst (s : St) : (stopPTOTimer s).tlrBurstFirst = s.tlrBurstFirst := by
  unfold stopPTOTimer; frame

@[simp] theorem stopPTOTimer_tlrBurstLater (s : St) : (stopPTOTimer s).tlrBurstLater = s.tlrBurstLater := by
  unfold stopPTOTimer; frame

@[simp] theorem stopPTOTimer_tlrGoodOps (s : St) : (stopPTOTimer s).tlrGoodOps = s.tlrGoodOps := by
  unfold stopPTOTimer; frame

@[simp] theorem stopPTOTimer_tlrStartTime (s : St) : (stopPTOTimer s).tlrStartTime = s.tlrStartTime := by
  unfold stopPTOTimer; frame

@[simp] theorem stopPTOTimer_hbProbes (s : St) : (stopPTOTimer s).hbProbes = s.hbProbes := by
  unfold stopPTOTimer; frame

@[simp] theorem tlrUpdatePhase_cfg (s : St) (env : Env) (t : Int) : (tlrUpdatePhase s env t).cfg = s.cfg := by
  unfold tlrUpdatePhase; frame

@[simp] theorem tlrUpdatePhase_now (s : St) (env : Env) (t : Int) : (tlrUpdatePhase s env t).now = s.now := by
  unfold tlrUpdatePhase; frame

@[simp] theorem tlrUpdatePhase_q (s : St) (env : Env) (t : Int) : (tlrUpdatePhase s env t).q = s.q := by
  unfold tlrUpdatePhase; frame

@[simp] theorem tlrUpdatePhase_cumAck (s : St) (env : Env) (t : Int) : (tlrUpdatePhase s env t).cumAck = s.cumAck := by
  unfold tlrUpdatePhase; frame

@[simp] theorem tlrUpdatePhase_myNextTSN (s : St) (env : Env) (t : Int) : (tlrUpdatePhase s env t).myNextTSN = s.myNextTSN := by
  unfold tlrUpdatePhase; frame

@[simp] theorem tlrUpdatePhase_minTSN2MeasureRTT (s : St) (env : Env) (t : Int) : (tlrUpdatePhase s env t).minTSN2MeasureRTT = s.minTSN2MeasureRTT := by
  unfold tlrUpdatePhase; frame

@[simp] theorem tlrUpdatePhase_list (s : St) (env : Env) (t : Int) : (tlrUpdatePhase s env t).list = s.list := by
  unfold tlrUpdatePhase; frame

@[simp] theorem tlrUpdatePhase_reoWnd (s : St) (env : Env) (t : Int) : (tlrUpdatePhase s env t).reoWnd = s.reoWnd := by
  unfold tlrUpdatePhase; frame

@[simp] theorem tlrUpdatePhase_minRTT (s : St) (env : Env) (t : Int) : (tlrUpdatePhase s env t).minRTT = s.minRTT := by
  unfold tlrUpdatePhase; frame

@[simp] theorem tlrUpdatePhase_minWnd (s : St) (env : Env) (t : Int) : (tlrUpdatePhase s env t).minWnd = s.minWnd := by
  unfold tlrUpdatePhase; frame

@[simp] theorem tlrUpdatePhase_deliveredTime (s : St) (env : Env) (t : Int) : (tlrUpdatePhase s env t).deliveredTime = s.deliveredTime := by
  unfold tlrUpdatePhase; frame

@[simp] theorem tlrUpdatePhase_hw (s : St) (env : Env) (t : Int) : (tlrUpdatePhase s env t).hw = s.hw := by
  unfold tlrUpdatePhase; frame

@[simp] theorem tlrUpdatePhase_reorderingSeen (s : St) (env : Env) (t : Int) : (tlrUpdatePhase s env t).reorderingSeen = s.reorderingSeen := by
  unfold tlrUpdatePhase; frame

@[simp] theorem tlrUpdatePhase_keepInflated (s : St) (env : Env) (t : Int) : (tlrUpdatePhase s env t).keepInflated = s.keepInflated := by
  unfold tlrUpdatePhase; frame

@[simp] theorem tlrUpdatePhase_rackDeadline (s : St) (env : Env) (t : Int) : (tlrUpdatePhase s env t).rackDeadline = s.rackDeadline := by
  unfold tlrUpdatePhase; frame

@[simp] theorem tlrUpdatePhase_ptoDeadline (s : St) (env : Env) (t : Int) : (tlrUpdatePhase s env t).ptoDeadline = s.ptoDeadline := by
  unfold tlrUpdatePhase; frame

@[simp] theorem tlrUpdatePhase_tlrActive (s : St) (env : Env) (t : Int) : (tlrUpdatePhase s env t).tlrActive = s.tlrActive := by
  unfold tlrUpdatePhase; frame

@[simp] theorem tlrUpdatePhase_tlrHadAdditionalLoss (s : St) (env : Env) (t : Int) : (tlrUpdatePhase s env t).tlrHadAdditionalLoss = s.tlrHadAdditionalLoss := by
  unfold tlrUpdatePhase; frame

@[simp] theorem tlrUpdatePhase_tlrEndTSN (s : St) (env : Env) (t : Int) : (tlrUpdatePhase s env t).tlrEndTSN = s.tlrEndTSN := by
  unfold tlrUpdatePhase; frame

@[simp] theorem tlrUpdatePhase_tlrBurstFirst (s : St) (env : Env) (t : Int) : (tlrUpdatePhase s env t).tlrBurstFirst = s.tlrBurstFirst := by
  unfold tlrUpdatePhase; frame

@[simp] theorem tlrUpdatePhase_tlrBurstLater (s : St) (env : Env) (t : Int) : (tlrUpdatePhase s env t).tlrBurstLater = s.tlrBurstLater := by
  unfold tlrUpdatePhase; frame

@[simp] theorem tlrUpdatePhase_tlrGoodOps (s : St) (env : Env) (t : Int) : (tlrUpdatePhase s env t).tlrGoodOps = s.tlrGoodOps := by
  unfold tlrUpdatePhase; frame

@[simp] theorem tlrUpdatePhase_tlrStartTime (s : St) (env : Env) (t : Int) : (tlrUpdatePhase s env t).tlrStartTime = s.tlrStartTime := by
  unfold tlrUpdatePhase; frame

@[simp] theorem tlrUpdatePhase_hbProbes (s : St) (env : Env) (t : Int) : (tlrUpdatePhase s env t).hbProbes = s.hbProbes := by
  unfold tlrUpdatePhase; frame

@[simp] theorem tlrBegin_cfg (s : St) : (tlrBegin s).cfg = s.cfg := by
  unfold tlrBegin; frame

@[simp] theorem tlrBegin_now (s : St) : (tlrBegin s).now = s.now := by
  unfold tlrBegin; frame

@[simp] theorem tlrBegin_q (s : St) : (tlrBegin s).q = s.q := by
  unfold tlrBegin; frame

@[simp] theorem tlrBegin_cumAck (s : St) : (tlrBegin s).cumAck = s.cumAck := by
  unfold tlrBegin; frame

@[simp] theorem tlrBegin_myNextTSN (s : St) : (tlrBegin s).myNextTSN = s.myNextTSN := by
  unfold tlrBegin; frame

@[simp] theorem tlrBegin_minTSN2MeasureRTT (s : St) : (tlrBegin s).minTSN2MeasureRTT = s.minTSN2MeasureRTT := by
  unfold tlrBegin; frame

@[simp] theorem tlrBegin_list (s : St) : (tlrBegin s).list = s.list := by
  unfold tlrBegin; frame

@[simp] theorem tlrBegin_reoWnd (s : St) : (tlrBegin s).reoWnd = s.reoWnd := by
  unfold tlrBegin; frame

@[simp] theorem tlrBegin_minRTT (s : St) : (tlrBegin s).minRTT = s.minRTT := by
  unfold tlrBegin; frame

@[simp] theorem tlrBegin_minWnd (s : St) : (tlrBegin s).minWnd = s.minWnd := by
  unfold tlrBegin; frame

@[simp] theorem tlrBegin_deliveredTime (s : St) : (tlrBegin s).deliveredTime = s.deliveredTime := by
  unfold tlrBegin; frame

@[simp] theorem tlrBegin_hw (s : St) : (tlrBegin s).hw = s.hw := by
  unfold tlrBegin; frame

@[simp] theorem tlrBegin_reorderingSeen (s : St) : (tlrBegin s).reorderingSeen = s.reorderingSeen := by
  unfold tlrBegin; frame

@[simp] theorem tlrBegin_keepInflated (s : St) : (tlrBegin s).keepInflated = s.keepInflated := by
  unfold tlrBegin; frame

@[simp] theorem tlrBegin_rackDeadline (s : St) : (tlrBegin s).rackDeadline = s.rackDeadline := by
  unfold tlrBegin; frame

@[simp] theorem tlrBegin_ptoDeadline (s : St) : (tlrBegin s).ptoDeadline = s.ptoDeadline := by
  unfold tlrBegin; frame

@[simp] theorem tlrBegin_tlrBurstFirst (s : St) : (tlrBegin s).tlrBurstFirst = s.tlrBurstFirst := by
  unfold tlrBegin; frame

@[simp] theorem tlrBegin_tlrBurstLater (s : St) : (tlrBegin s).tlrBurstLater = s.tlrBurstLater := by
  unfold tlrBegin; frame

@[simp] theorem tlrBegin_tlrGoodOps (s : St) : (tlrBegin s).tlrGoodOps = s.tlrGoodOps := by
  unfold tlrBegin; frame

@[simp] theorem tlrBegin_hbProbes (s : St) : (tlrBegin s).hbProbes = s.hbProbes := by
  unfold tlrBegin; frame

@[simp] theorem tlrMaybeFinish_cfg (s : St) (p : Bool) : (tlrMaybeFinish s p).cfg = s.cfg := by
  unfold tlrMaybeFinish tlrEnd tlrScore tlrLeaveFirst; frame

@[simp] theorem tlrMaybeFinish_now (s : St) (p : Bool) : (tlrMaybeFinish s p).now = s.now := by
  unfold tlrMaybeFinish tlrEnd tlrScore tlrLeaveFirst; frame

@[simp] theorem tlrMaybeFinish_q (s : St) (p : Bool) : (tlrMaybeFinish s p).q = s.q := by
  unfold tlrMaybeFinish tlrEnd tlrScore tlrLeaveFirst; frame

@[simp] theorem tlrMaybeFinish_cumAck (s : St) (p : Bool) : (tlrMaybeFinish s p).cumAck = s.cumAck := by
  unfold tlrMaybeFinish tlrEnd tlrScore tlrLeaveFirst; frame

@[simp] theorem tlrMaybeFinish_myNextTSN (s : St) (p : Bool) : (tlrMaybeFinish s p).myNextTSN = s.myNextTSN := by
  unfold tlrMaybeFinish tlrEnd tlrScore tlrLeaveFirst; frame

@[simp] theorem tlrMaybeFinish_minTSN2MeasureRTT (s : St) (p : Bool) : (tlrMaybeFinish s p).minTSN2MeasureRTT = s.minTSN2MeasureRTT := by
  unfold tlrMaybeFinish tlrEnd tlrScore tlrLeaveFirst; frame

@[simp] theorem tlrMaybeFinish_list (s : St) (p : Bool) : (tlrMaybeFinish s p).list = s.list := by
  unfold tlrMaybeFinish tlrEnd tlrScore tlrLeaveFirst; frame

@[simp] theorem tlrMaybeFinish_reoWnd (s : St) (p : Bool) : (tlrMaybeFinish s p).reoWnd = s.reoWnd := by
  unfold tlrMaybeFinish tlrEnd tlrScore tlrLeaveFirst; frame

@[simp] theorem tlrMaybeFinish_minRTT (s : St) (p : Bool) : (tlrMaybeFinish s p).minRTT = s.minRTT := by
  unfold tlrMaybeFinish tlrEnd tlrScore tlrLeaveFirst; frame

@[simp] theorem tlrMaybeFinish_minWnd (s : St) (p : Bool) : (tlrMaybeFinish s p).minWnd = s.minWnd := by
  unfold tlrMaybeFinish tlrEnd tlrScore tlrLeaveFirst; frame

@[simp] theorem tlrMaybeFinish_deliveredTime (s : St) (p : Bool) : (tlrMaybeFinish s p).deliveredTime = s.deliveredTime := by
  unfold tlrMaybeFinish tlrEnd tlrScore tlrLeaveFirst; frame

@[simp] theorem tlrMaybeFinish_hw (s : St) (p : Bool) : (tlrMaybeFinish s p).hw = s.hw := by
  unfold tlrMaybeFinish tlrEnd tlrScore tlrLeaveFirst; frame

@[simp] theorem tlrMaybeFinish_reorderingSeen (s : St) (p : Bool) : (tlrMaybeFinish s p).reorderingSeen = s.reorderingSeen := by
  unfold tlrMaybeFinish tlrEnd tlrScore tlrLeaveFirst; frame

@[simp] theorem tlrMaybeFinish_keepInflated (s : St) (p : Bool) : (tlrMaybeFinish s p).keepInflated = s.keepInflated := by
  unfold tlrMaybeFinish tlrEnd tlrScore tlrLeaveFirst; frame

@[simp] theorem tlrMaybeFinish_rackDeadline (s : St) (p : Bool) : (tlrMaybeFinish s p).rackDeadline = s.rackDeadline := by
  unfold tlrMaybeFinish tlrEnd tlrScore tlrLeaveFirst; frame

@[simp] theorem tlrMaybeFinish_ptoDeadline (s : St) (p : Bool) : (tlrMaybeFinish s p).ptoDeadline = s.ptoDeadline := by
  unfold tlrMaybeFinish tlrEnd tlrScore tlrLeaveFirst; frame

@[simp] theorem tlrMaybeFinish_tlrStartTime (s : St) (p : Bool) : (tlrMaybeFinish s p).tlrStartTime = s.tlrStartTime := by
  unfold tlrMaybeFinish tlrEnd tlrScore tlrLeaveFirst; frame

@[simp] theorem tlrMaybeFinish_hbProbes (s : St) (p : Bool) : (tlrMaybeFinish s p).hbProbes = s.hbProbes := by
  unfold tlrMaybeFinish tlrEnd tlrScore tlrLeaveFirst; frame

@[simp] theorem rackDelivered_cfg (s : St) (f : Bool) (nt : Int) (ntsn : BitVec 32) : (rackDelivered s f nt ntsn).cfg = s.cfg := by
  unfold rackDelivered rackNewer rackHw; frame

@[simp] theorem rackDelivered_now (s : St) (f : Bool) (nt : Int) (ntsn : BitVec 32) : (rackDelivered s f nt ntsn).now = s.now := by
  unfold rackDelivered rackNewer rackHw; frame

@[simp] theorem rackDelivered_q (s : St) (f : Bool) (nt : Int) (ntsn : BitVec 32) : (rackDelivered s f nt ntsn).q = s.q := by
  unfold rackDelivered rackNewer rackHw; frame

@[simp] theorem rackDelivered_cumAck (s : St) (f : Bool) (nt : Int) (ntsn : BitVec 32) : (rackDelivered s f nt ntsn).cumAck = s.cumAck := by
  unfold rackDelivered rackNewer rackHw; frame

@[simp] theorem rackDelivered_myNextTSN (s : St) (f : Bool) (nt : Int) (ntsn : BitVec 32) : (rackDelivered s f nt ntsn).myNextTSN = s.myNextTSN := by
  unfold rackDelivered rackNewer rackHw; frame

@[simp] theorem rackDelivered_minTSN2MeasureRTT (s : St) (f : Bool) (nt : Int) (ntsn : BitVec 32) : (rackDelivered s f nt ntsn).minTSN2MeasureRTT = s.minTSN2MeasureRTT := by
  unfold rackDelivered rackNewer rackHw; frame

@[simp] theorem rackDelivered_list (s : St) (f : Bool) (nt : Int) (ntsn : BitVec 32) : (rackDelivered s f nt ntsn).list = s.list := by
  unfold rackDelivered rackNewer rackHw; frame

@[simp] theorem rackDelivered_reoWnd (s : St) (f : Bool) (nt : Int) (ntsn : BitVec 32) : (rackDelivered s f nt ntsn).reoWnd = s.reoWnd := by
  unfold rackDelivered rackNewer rackHw; frame

@[simp] theorem rackDelivered_minRTT (s : St) (f : Bool) (nt : Int) (ntsn : BitVec 32) : (rackDelivered s f nt ntsn).minRTT = s.minRTT := by
  unfold rackDelivered rackNewer rackHw; frame

@[simp] theorem rackDelivered_minWnd (s : St) (f : Bool) (nt : Int) (ntsn : BitVec 32) : (rackDelivered s f nt ntsn).minWnd = s.minWnd := by
  unfold rackDelivered rackNewer rackHw; frame

@[simp] theorem rackDelivered_keepInflated (s : St) (f : Bool) (nt : Int) (ntsn : BitVec 32) : (rackDelivered s f nt ntsn).keepInflated = s.keepInflated := by
  unfold rackDelivered rackNewer rackHw; frame

@[simp] theorem rackDelivered_rackDeadline (s : St) (f : Bool) (nt : Int) (ntsn : BitVec 32) : (rackDelivered s f nt ntsn).rackDeadline = s.rackDeadline := by
  unfold rackDelivered rackNewer rackHw; frame

@[simp] theorem rackDelivered_ptoDeadline (s : St) (f : Bool) (nt : Int) (ntsn : BitVec 32) : (rackDelivered s f nt ntsn).ptoDeadline = s.ptoDeadline := by
  unfold rackDelivered rackNewer rackHw; frame

@[simp] theorem rackDelivered_tlrActive (s : St) (f : Bool) (nt : Int) (ntsn : BitVec 32) : (rackDelivered s f nt ntsn).tlrActive = s.tlrActive := by
  unfold rackDelivered rackNewer rackHw; frame

@[simp] theorem rackDelivered_tlrFirstRTT (s : St) (f : Bool) (nt : Int) (ntsn : BitVec 32) : (rackDelivered s f nt ntsn).tlrFirstRTT = s.tlrFirstRTT := by
  unfold rackDelivered rackNewer rackHw; frame

@[simp] theorem rackDelivered_tlrHadAdditionalLoss (s : St) (f : Bool) (nt : Int) (ntsn : BitVec 32) : (rackDelivered s f nt ntsn).tlrHadAdditionalLoss = s.tlrHadAdditionalLoss := by
  unfold rackDelivered rackNewer rackHw; frame

@[simp] theorem rackDelivered_tlrEndTSN (s : St) (f : Bool) (nt : Int) (ntsn : BitVec 32) : (rackDelivered s f nt ntsn).tlrEndTSN = s.tlrEndTSN := by
  unfold rackDelivered rackNewer rackHw; frame

@[simp] theorem rackDelivered_tlrBurstFirst (s : St) (f : Bool) (nt : Int) (ntsn : BitVec 32) : (rackDelivered s f nt ntsn).tlrBurstFirst = s.tlrBurstFirst := by
  unfold rackDelivered rackNewer rackHw; frame

@[simp] theorem rackDelivered_tlrBurstLater (s : St) (f : Bool) (nt : Int) (ntsn : BitVec 32) : (rackDelivered s f nt ntsn).tlrBurstLater = s.tlrBurstLater := by
  unfold rackDelivered rackNewer rackHw; frame

@[simp] theorem rackDelivered_tlrGoodOps (s : St) (f : Bool) (nt : Int) (ntsn : BitVec 32) : (rackDelivered s f nt ntsn).tlrGoodOps = s.tlrGoodOps := by
  unfold rackDelivered rackNewer rackHw; frame

@[simp] theorem rackDelivered_tlrStartTime (s : St) (f : Bool) (nt : Int) (ntsn : BitVec 32) : (rackDelivered s f nt ntsn).tlrStartTime = s.tlrStartTime := by
  unfold rackDelivered rackNewer rackHw; frame

@[simp] theorem rackDelivered_hbProbes (s : St) (f : Bool) (nt : Int) (ntsn : BitVec 32) : (rackDelivered s f nt ntsn).hbProbes = s.hbProbes := by
  unfold rackDelivered rackNewer rackHw; frame

@[simp] theorem reoMinRTT_cfg (s : St) : (reoMinRTT s).cfg = s.cfg := by
  unfold reoMinRTT; frame

@[simp] theorem reoMinRTT_now (s : St) : (reoMinRTT s).now = s.now := by
  unfold reoMinRTT; frame

@[simp] theorem reoMinRTT_q (s : St) : (reoMinRTT s).q = s.q := by
  unfold reoMinRTT; frame

@[simp] theorem reoMinRTT_cumAck (s : St) : (reoMinRTT s).cumAck = s.cumAck := by
  unfold reoMinRTT; frame

@[simp] theorem reoMinRTT_myNextTSN (s : St) : (reoMinRTT s).myNextTSN = s.myNextTSN := by
  unfold reoMinRTT; frame

@[simp] theorem reoMinRTT_minTSN2MeasureRTT (s : St) : (reoMinRTT s).minTSN2MeasureRTT = s.minTSN2MeasureRTT := by
  unfold reoMinRTT; frame

@[simp] theorem reoMinRTT_list (s : St) : (reoMinRTT s).list = s.list := by
  unfold reoMinRTT; frame

@[simp] theorem reoMinRTT_reoWnd (s : St) : (reoMinRTT s).reoWnd = s.reoWnd := by
  unfold reoMinRTT; frame

@[simp] theorem reoMinRTT_deliveredTime (s : St) : (reoMinRTT s).deliveredTime = s.deliveredTime := by
  unfold reoMinRTT; frame

@[simp] theorem reoMinRTT_hw (s : St) : (reoMinRTT s).hw = s.hw := by
  unfold reoMinRTT; frame

@[simp] theorem reoMinRTT_reorderingSeen (s : St) : (reoMinRTT s).reorderingSeen = s.reorderingSeen := by
  unfold reoMinRTT; frame

@[simp] theorem reoMinRTT_keepInflated (s : St) : (reoMinRTT s).keepInflated = s.keepInflated := by
  unfold reoMinRTT; frame

@[simp] theorem reoMinRTT_rackDeadline (s : St) : (reoMinRTT s).rackDeadline = s.rackDeadline := by
  unfold reoMinRTT; frame

@[simp] theorem reoMinRTT_ptoDeadline (s : St) : (reoMinRTT s).ptoDeadline = s.ptoDeadline := by
  unfold reoMinRTT; frame

@[simp] theorem reoMinRTT_tlrActive (s : St) : (reoMinRTT s).tlrActive = s.tlrActive := by
  unfold reoMinRTT; frame

@[simp] theorem reoMinRTT_tlrFirstRTT (s : St) : (reoMinRTT s).tlrFirstRTT = s.tlrFirstRTT := by
  unfold reoMinRTT; frame

@[simp] theorem reoMinRTT_tlrHadAdditionalLoss (s : St) : (reoMinRTT s).tlrHadAdditionalLoss = s.tlrHadAdditionalLoss := by
  unfold reoMinRTT; frame

@[simp] theorem reoMinRTT_tlrEndTSN (s : St) : (reoMinRTT s).tlrEndTSN = s.tlrEndTSN := by
  unfold reoMinRTT; frame

@[simp] theorem reoMinRTT_tlrBurstFirst (s : St) : (reoMinRTT s).tlrBurstFirst = s.tlrBurstFirst := by
  unfold reoMinRTT; frame

@[simp] theorem reoMinRTT_tlrBurstLater (s : St) : (reoMinRTT s).tlrBurstLater = s.tlrBurstLater := by
  unfold reoMinRTT; frame

@[simp] theorem reoMinRTT_tlrGoodOps (s : St) : (reoMinRTT s).tlrGoodOps = s.tlrGoodOps := by
  unfold reoMinRTT; frame

@[simp] theorem reoMinRTT_tlrStartTime (s : St) : (reoMinRTT s).tlrStartTime = s.tlrStartTime := by
  unfold reoMinRTT; frame

@[simp] theorem reoMinRTT_hbProbes (s : St) : (reoMinRTT s).hbProbes = s.hbProbes := by
  unfold reoMinRTT; frame

@[simp] theorem reoInit_cfg (s : St) (env : Env) : (reoInit s env).cfg = s.cfg := by
  unfold reoInit; frame

@[simp] theorem reoInit_now (s : St) (env : Env) : (reoInit s env).now = s.now := by
  unfold reoInit; frame

@[simp] theorem reoInit_q (s : St) (env : Env) : (reoInit s env).q = s.q := by
  unfold reoInit; frame

@[simp] theorem reoInit_cumAck (s : St) (env : Env) : (reoInit s env).cumAck = s.cumAck := by
  unfold reoInit; frame

@[simp] theorem reoInit_myNextTSN (s : St) (env : Env) : (reoInit s env).myNextTSN = s.myNextTSN := by
  unfold reoInit; frame

@[simp] theorem reoInit_minTSN2MeasureRTT (s : St) (env : Env) : (reoInit s env).minTSN2MeasureRTT = s.minTSN2MeasureRTT := by
  unfold reoInit; frame

@[simp] theorem reoInit_list (s : St) (env : Env) : (reoInit s env).list = s.list := by
  unfold reoInit; frame

@[simp] theorem reoInit_minRTT (s : St) (env : Env) : (reoInit s env).minRTT = s.minRTT := by
  unfold reoInit; frame

@[simp] theorem reoInit_minWnd (s : St) (env : Env) : (reoInit s env).minWnd = s.minWnd := by
  unfold reoInit; frame

@[simp] theorem reoInit_deliveredTime (s : St) (env : Env) : (reoInit s env).deliveredTime = s.deliveredTime := by
  unfold reoInit; frame

@[simp] theorem reoInit_hw (s : St) (env : Env) : (reoInit s env).hw = s.hw := by
  unfold reoInit; frame

@[simp] theorem reoInit_reorderingSeen (s : St) (env : Env) : (reoInit s env).reorderingSeen = s.reorderingSeen := by
  unfold reoInit; frame

@[simp] theorem reoInit_keepInflated (s : St) (env : Env) : (reoInit s env).keepInflated = s.keepInflated := by
  unfold reoInit; frame

@[simp] theorem reoInit_rackDeadline (s : St) (env : Env) : (reoInit s env).rackDeadline = s.rackDeadline := by
  unfold reoInit; frame

@[simp] theorem reoInit_ptoDeadline (s : St) (env : Env) : (reoInit s env).ptoDeadline = s.ptoDeadline := by
  unfold reoInit; frame

@[simp] theorem reoInit_tlrActive (s : St) (env : Env) : (reoInit s env).tlrActive = s.tlrActive := by
  unfold reoInit; frame

@[simp] theorem reoInit_tlrFirstRTT (s : St) (env : Env) : (reoInit s env).tlrFirstRTT = s.tlrFirstRTT := by
  unfold reoInit; frame

@[simp] theorem reoInit_tlrHadAdditionalLoss (s : St) (env : Env) : (reoInit s env).tlrHadAdditionalLoss = s.tlrHadAdditionalLoss := by
  unfold reoInit; frame

@[simp] theorem reoInit_tlrEndTSN (s : St) (env : Env) : (reoInit s env).tlrEndTSN = s.tlrEndTSN := by
  unfold reoInit; frame

@[simp] theorem reoInit_tlrBurstFirst (s : St) (env : Env) : (reoInit s env).tlrBurstFirst = s.tlrBurstFirst := by
  unfold reoInit; frame

@[simp] theorem reoInit_tlrBurstLater (s : St) (env : Env) : (reoInit s env).tlrBurstLater = s.tlrBurstLater := by
  unfold reoInit; frame

@[simp] theorem reoInit_tlrGoodOps (s : St) (env : Env) : (reoInit s env).tlrGoodOps = s.tlrGoodOps := by
  unfold reoInit; frame

@[simp] theorem reoInit_tlrStartTime (s : St) (env : Env) : (reoInit s env).tlrStartTime = s.tlrStartTime := by
  unfold reoInit; frame

@[simp] theorem reoInit_hbProbes (s : St) (env : Env) : (reoInit s env).hbProbes = s.hbProbes := by
  unfold reoInit; frame

@[simp] theorem reoInflate_cfg (s : St) (nd : Int) : (reoInflate s nd).cfg = s.cfg := by
  unfold reoInflate; frame

@[simp] theorem reoInflate_now (s : St) (nd : Int) : (reoInflate s nd).now = s.now := by
  unfold reoInflate; frame

@[simp] theorem reoInflate_q (s : St) (nd : Int) : (reoInflate s nd).q = s.q := by
  unfold reoInflate; frame

@[simp] theorem reoInflate_cumAck (s : St) (nd : Int) : (reoInflate s nd).cumAck = s.cumAck := by
  unfold reoInflate; frame

@[simp] theorem reoInflate_myNextTSN (s : St) (nd : Int) : (reoInflate s nd).myNextTSN = s.myNextTSN := by
  unfold reoInflate; frame

@[simp] theorem reoInflate_minTSN2MeasureRTT (s : St) (nd : Int) : (reoInflate s nd).minTSN2MeasureRTT = s.minTSN2MeasureRTT := by
  unfold reoInflate; frame

@[simp] theorem reoInflate_list (s : St) (nd : Int) : (reoInflate s nd).list = s.list := by
  unfold reoInflate; frame

@[simp] theorem reoInflate_minRTT (s : St) (nd : Int) : (reoInflate s nd).minRTT = s.minRTT := by
  unfold reoInflate; frame

@[simp] theorem reoInflate_minWnd (s : St) (nd : Int) : (reoInflate s nd).minWnd = s.minWnd := by
  unfold reoInflate; frame

@[simp] theorem reoInflate_deliveredTime (s : St) (nd : Int) : (reoInflate s nd).deliveredTime = s.deliveredTime := by
  unfold reoInflate; frame

@[simp] theorem reoInflate_hw (s : St) (nd : Int) : (reoInflate s nd).hw = s.hw := by
  unfold reoInflate; frame

@[simp] theorem reoInflate_reorderingSeen (s : St) (nd : Int) : (reoInflate s nd).reorderingSeen = s.reorderingSeen := by
  unfold reoInflate; frame

@[simp] theorem reoInflate_rackDeadline (s : St) (nd : Int) : (reoInflate s nd).rackDeadline = s.rackDeadline := by
  unfold reoInflate; frame

@[simp] theorem reoInflate_ptoDeadline (s : St) (nd : Int) : (reoInflate s nd).ptoDeadline = s.ptoDeadline := by
  unfold reoInflate; frame

@[simp] theorem reoInflate_tlrActive (s : St) (nd : Int) : (reoInflate s nd).tlrActive = s.tlrActive := by
  unfold reoInflate; frame

@[simp] theorem reoInflate_tlrFirstRTT (s : St) (nd : Int) : (reoInflate s nd).tlrFirstRTT = s.tlrFirstRTT := by
  unfold reoInflate; frame

@[simp] theorem reoInflate_tlrHadAdditionalLoss (s : St) (nd : Int) : (reoInflate s nd).tlrHadAdditionalLoss = s.tlrHadAdditionalLoss := by
  unfold reoInflate; frame

@[simp] theorem reoInflate_tlrEndTSN (s : St) (nd : Int) : (reoInflate s nd).tlrEndTSN = s.tlrEndTSN := by
  unfold reoInflate; frame

@[simp] theorem reoInflate_tlrBurstFirst (s : St) (nd : Int) : (reoInflate s nd).tlrBurstFirst = s.tlrBurstFirst := by
  unfold reoInflate; frame

@[simp] theorem reoInflate_tlrBurstLater (s : St) (nd : Int) : (reoInflate s nd).tlrBurstLater = s.tlrBurstLater := by
  unfold reoInflate; frame

@[simp] theorem reoInflate_tlrGoodOps (s : St) (nd : Int) : (reoInflate s nd).tlrGoodOps = s.tlrGoodOps := by
  unfold reoInflate; frame

@[simp] theorem reoInflate_tlrStartTime (s : St) (nd : Int) : (reoInflate s nd).tlrStartTime = s.tlrStartTime := by
  unfold reoInflate; frame

@[simp] theorem reoInflate_hbProbes (s : St) (nd : Int) : (reoInflate s nd).hbProbes = s.hbProbes := by
  unfold reoInflate; frame

@[simp] theorem reoKeep_cfg (s : St) (env : Env) : (reoKeep s env).cfg = s.cfg := by
  unfold reoKeep; frame

@[simp] theorem reoKeep_now (s : St) (env : Env) : (reoKeep s env).now = s.now := by
  unfold reoKeep; frame

@[simp] theorem reoKeep_q (s : St) (env : Env) : (reoKeep s env).q = s.q := by
  unfold reoKeep; frame

@[simp] theorem reoKeep_cumAck (s : St) (env : Env) : (reoKeep s env).cumAck = s.cumAck := by
  unfold reoKeep; frame

@[simp] theorem reoKeep_myNextTSN (s : St) (env : Env) : (reoKeep s env).myNextTSN = s.myNextTSN := by
  unfold reoKeep; frame

@[simp] theorem reoKeep_minTSN2MeasureRTT (s : St) (env : Env) : (reoKeep s env).minTSN2MeasureRTT = s.minTSN2MeasureRTT := by
  unfold reoKeep; frame

@[simp] theorem reoKeep_list (s : St) (env : Env) : (reoKeep s env).list = s.list := by
  unfold reoKeep; frame

@[simp] theorem reoKeep_minRTT (s : St) (env : Env) : (reoKeep s env).minRTT = s.minRTT := by
  unfold reoKeep; frame

@[simp] theorem reoKeep_minWnd (s : St) (env : Env) : (reoKeep s env).minWnd = s.minWnd := by
  unfold reoKeep; frame

@[simp] theorem reoKeep_deliveredTime (s : St) (env : Env) : (reoKeep s env).deliveredTime = s.deliveredTime := by
  unfold reoKeep; frame

@[simp] theorem reoKeep_hw (s : St) (env : Env) : (reoKeep s env).hw = s.hw := by
  unfold reoKeep; frame

@[simp] theorem reoKeep_reorderingSeen (s : St) (env : Env) : (reoKeep s env).reorderingSeen = s.reorderingSeen := by
  unfold reoKeep; frame

@[simp] theorem reoKeep_rackDeadline (s : St) (env : Env) : (reoKeep s env).rackDeadline = s.rackDeadline := by
  unfold reoKeep; frame

@[simp] theorem reoKeep_ptoDeadline (s : St) (env : Env) : (reoKeep s env).ptoDeadline = s.ptoDeadline := by
  unfold reoKeep; frame

@[simp] theorem reoKeep_tlrActive (s : St) (env : Env) : (reoKeep s env).tlrActive = s.tlrActive := by
  unfold reoKeep; frame

@[simp] theorem reoKeep_tlrFirstRTT (s : St) (env : Env) : (reoKeep s env).tlrFirstRTT = s.tlrFirstRTT := by
  unfold reoKeep; frame

@[simp] theorem reoKeep_tlrHadAdditionalLoss (s : St) (env : Env) : (reoKeep s env).tlrHadAdditionalLoss = s.tlrHadAdditionalLoss := by
  unfold reoKeep; frame

@[simp] theorem reoKeep_tlrEndTSN (s : St) (env : Env) : (reoKeep s env).tlrEndTSN = s.tlrEndTSN := by
  unfold reoKeep; frame

@[simp] theorem reoKeep_tlrBurstFirst (s : St) (env : Env) : (reoKeep s env).tlrBurstFirst = s.tlrBurstFirst := by
  unfold reoKeep; frame

@[simp] theorem reoKeep_tlrBurstLater (s : St) (env : Env) : (reoKeep s env).tlrBurstLater = s.tlrBurstLater := by
  unfold reoKeep; frame

@[simp] theorem reoKeep_tlrGoodOps (s : St) (env : Env) : (reoKeep s env).tlrGoodOps = s.tlrGoodOps := by
  unfold reoKeep; frame

@[simp] theorem reoKeep_tlrStartTime (s : St) (env : Env) : (reoKeep s env).tlrStartTime = s.tlrStartTime := by
  unfold reoKeep; frame

@[simp] theorem reoKeep_hbProbes (s : St) (env : Env) : (reoKeep s env).hbProbes = s.hbProbes := by
  unfold reoKeep; frame

@[simp] theorem reoClamp_cfg (s : St) (env : Env) : (reoClamp s env).cfg = s.cfg := by
  unfold reoClamp; frame

@[simp] theorem reoClamp_now (s : St) (env : Env) : (reoClamp s env).now = s.now := by
  unfold reoClamp; frame

@[simp] theorem reoClamp_q (s : St) (env : Env) : (reoClamp s env).q = s.q := by
  unfold reoClamp; frame

@[simp] theorem reoClamp_cumAck (s : St) (env : Env) : (reoClamp s env).cumAck = s.cumAck := by
  unfold reoClamp; frame

@[simp] theorem reoClamp_myNextTSN (s : St) (env : Env) : (reoClamp s env).myNextTSN = s.myNextTSN := by
  unfold reoClamp; frame

@[simp] theorem reoClamp_minTSN2MeasureRTT (s : St) (env : Env) : (reoClamp s env).minTSN2MeasureRTT = s.minTSN2MeasureRTT := by
  unfold reoClamp; frame

@[simp] theorem reoClamp_list (s : St) (env : Env) : (reoClamp s env).list = s.list := by
  unfold reoClamp; frame

@[simp] theorem reoClamp_minRTT (s : St) (env : Env) : (reoClamp s env).minRTT = s.minRTT := by
  unfold reoClamp; frame

@[simp] theorem reoClamp_minWnd (s : St) (env : Env) : (reoClamp s env).minWnd = s.minWnd := by
  unfold reoClamp; frame

@[simp] theorem reoClamp_deliveredTime (s : St) (env : Env) : (reoClamp s env).deliveredTime = s.deliveredTime := by
  unfold reoClamp; frame

@[simp] theorem reoClamp_hw (s : St) (env : Env) : (reoClamp s env).hw = s.hw := by
  unfold reoClamp; frame

@[simp] theorem reoClamp_reorderingSeen (s : St) (env : Env) : (reoClamp s env).reorderingSeen = s.reorderingSeen := by
  unfold reoClamp; frame

@[simp] theorem reoClamp_keepInflated (s : St) (env : Env) : (reoClamp s env).keepInflated = s.keepInflated := by
  unfold reoClamp; frame

@[simp] theorem reoClamp_rackDeadline (s : St) (env : Env) : (reoClamp s env).rackDeadline = s.rackDeadline := by
  unfold reoClamp; frame

@[simp] theorem reoClamp_ptoDeadline (s : St) (env : Env) : (reoClamp s env).ptoDeadline = s.ptoDeadline := by
  unfold reoClamp; frame

@[simp] theorem reoClamp_tlrActive (s : St) (env : Env) : (reoClamp s env).tlrActive = s.tlrActive := by
  unfold reoClamp; frame

@[simp] theorem reoClamp_tlrFirstRTT (s : St) (env : Env) : (reoClamp s env).tlrFirstRTT = s.tlrFirstRTT := by
  unfold reoClamp; frame

@[simp] theorem reoClamp_tlrHadAdditionalLoss (s : St) (env : Env) : (reoClamp s env).tlrHadAdditionalLoss = s.tlrHadAdditionalLoss := by
  unfold reoClamp; frame

@[simp] theorem reoClamp_tlrEndTSN (s : St) (env : Env) : (reoClamp s env).tlrEndTSN = s.tlrEndTSN := by
  unfold reoClamp; frame

@[simp] theorem reoClamp_tlrBurstFirst (s : St) (env : Env) : (reoClamp s env).tlrBurstFirst = s.tlrBurstFirst := by
  unfold reoClamp; frame

@[simp] theorem reoClamp_tlrBurstLater (s : St) (env : Env) : (reoClamp s env).tlrBurstLater = s.tlrBurstLater := by
  unfold reoClamp; frame

@[simp] theorem reoClamp_tlrGoodOps (s : St) (env : Env) : (reoClamp s env).tlrGoodOps = s.tlrGoodOps := by
  unfold reoClamp; frame

@[simp] theorem reoClamp_tlrStartTime (s : St) (env : Env) : (reoClamp s env).tlrStartTime = s.tlrStartTime := by
  unfold reoClamp; frame

@[simp] theorem reoClamp_hbProbes (s : St) (env : Env) : (reoClamp s env).hbProbes = s.hbProbes := by
  unfold reoClamp; frame

@[simp] theorem rackInsert_cfg (s : St) (t : BitVec 32) : (rackInsert s t).cfg = s.cfg := by
  unfold rackInsert; frame

@[simp] theorem rackInsert_now (s : St) (t : BitVec 32) : (rackInsert s t).now = s.now := by
  unfold rackInsert; frame

@[simp] theorem rackInsert_q (s : St) (t : BitVec 32) : (rackInsert s t).q = s.q := by
  unfold rackInsert; frame

@[simp] theorem rackInsert_cumAck (s : St) (t : BitVec 32) : (rackInsert s t).cumAck = s.cumAck := by
  unfold rackInsert; frame

@[simp] theorem rackInsert_myNextTSN (s : St) (t : BitVec 32) : (rackInsert s t).myNextTSN = s.myNextTSN := by
  unfold rackInsert; frame

@[simp] theorem rackInsert_minTSN2MeasureRTT (s : St) (t : BitVec 32) : (rackInsert s t).minTSN2MeasureRTT = s.minTSN2MeasureRTT := by
  unfold rackInsert; frame

@[simp] theorem rackInsert_reoWnd (s : St) (t : BitVec 32) : (rackInsert s t).reoWnd = s.reoWnd := by
  unfold rackInsert; frame

@[simp] theorem rackInsert_minRTT (s : St) (t : BitVec 32) : (rackInsert s t).minRTT = s.minRTT := by
  unfold rackInsert; frame

@[simp] theorem rackInsert_minWnd (s : St) (t : BitVec 32) : (rackInsert s t).minWnd = s.minWnd := by
  unfold rackInsert; frame

@[simp] theorem rackInsert_deliveredTime (s : St) (t : BitVec 32) : (rackInsert s t).deliveredTime = s.deliveredTime := by
  unfold rackInsert; frame

@[simp] theorem rackInsert_hw (s : St) (t : BitVec 32) : (rackInsert s t).hw = s.hw := by
  unfold rackInsert; frame

@[simp] theorem rackInsert_reorderingSeen (s : St) (t : BitVec 32) : (rackInsert s t).reorderingSeen = s.reorderingSeen := by
  unfold rackInsert; frame

@[simp] theorem rackInsert_keepInflated (s : St) (t : BitVec 32) : (rackInsert s t).keepInflated = s.keepInflated := by
  unfold rackInsert; frame

@[simp] theorem rackInsert_rackDeadline (s : St) (t : BitVec 32) : (rackInsert s t).rackDeadline = s.rackDeadline := by
  unfold rackInsert; frame

@[simp] theorem rackInsert_ptoDeadline (s : St) (t : BitVec 32) : (rackInsert s t).ptoDeadline = s.ptoDeadline := by
  unfold rackInsert; frame

@[simp] theorem rackInsert_tlrActive (s : St) (t : BitVec 32) : (rackInsert s t).tlrActive = s.tlrActive := by
  unfold rackInsert; frame

@[simp] theorem rackInsert_tlrFirstRTT (s : St) (t : BitVec 32) : (rackInsert s t).tlrFirstRTT = s.tlrFirstRTT := by
  unfold rackInsert; frame

@[simp] theorem rackInsert_tlrHadAdditionalLoss (s : St) (t : BitVec 32) : (rackInsert s t).tlrHadAdditionalLoss = s.tlrHadAdditionalLoss := by
  unfold rackInsert; frame

@[simp] theorem rackInsert_tlrEndTSN (s : St) (t : BitVec 32) : (rackInsert s t).tlrEndTSN = s.tlrEndTSN := by
  unfold rackInsert; frame

@[simp] theorem rackInsert_tlrBurstFirst (s : St) (t : BitVec 32) : (rackInsert s t).tlrBurstFirst = s.tlrBurstFirst := by
  unfold rackInsert; frame

@[simp] theorem rackInsert_tlrBurstLater (s : St) (t : BitVec 32) : (rackInsert s t).tlrBurstLater = s.tlrBurstLater := by
  unfold rackInsert; frame

@[simp] theorem rackInsert_tlrGoodOps (s : St) (t : BitVec 32) : (rackInsert s t).tlrGoodOps = s.tlrGoodOps := by
  unfold rackInsert; frame

@[simp] theorem rackInsert_tlrStartTime (s : St) (t : BitVec 32) : (rackInsert s t).tlrStartTime = s.tlrStartTime := by
  unfold rackInsert; frame

@[simp] theorem rackInsert_hbProbes (s : St) (t : BitVec 32) : (rackInsert s t).hbProbes = s.hbProbes := by
  unfold rackInsert; frame

@[simp] theorem rackRemove_cfg (s : St) (t : BitVec 32) : (rackRemove s t).cfg = s.cfg := by
  unfold rackRemove; frame

@[simp] theorem rackRemove_now (s : St) (t : BitVec 32) : (rackRemove s t).now = s.now := by
  unfold rackRemove; frame

@[simp] theorem rackRemove_q (s : St) (t : BitVec 32) : (rackRemove s t).q = s.q := by
  unfold rackRemove; frame

@[simp] theorem rackRemove_cumAck (s : St) (t : BitVec 32) : (rackRemove s t).cumAck = s.cumAck := by
  unfold rackRemove; frame

@[simp] theorem rackRemove_myNextTSN (s : St) (t : BitVec 32) : (rackRemove s t).myNextTSN = s.myNextTSN := by
  unfold rackRemove; frame

@[simp] theorem rackRemove_minTSN2MeasureRTT (s : St) (t : BitVec 32) : (rackRemove s t).minTSN2MeasureRTT = s.minTSN2MeasureRTT := by
  unfold rackRemove; frame

@[simp] theorem rackRemove_reoWnd (s : St) (t : BitVec 32) : (rackRemove s t).reoWnd = s.reoWnd := by
  unfold rackRemove; frame

@[simp] theorem rackRemove_minRTT (s : St) (t : BitVec 32) : (rackRemove s t).minRTT = s.minRTT := by
  unfold rackRemove; frame

@[simp] theorem rackRemove_minWnd (s : St) (t : BitVec 32) : (rackRemove s t).minWnd = s.minWnd := by
  unfold rackRemove; frame

@[simp] theorem rackRemove_deliveredTime (s : St) (t : BitVec 32) : (rackRemove s t).deliveredTime = s.deliveredTime := by
  unfold rackRemove; frame

@[simp] theorem rackRemove_hw (s : St) (t : BitVec 32) : (rackRemove s t).hw = s.hw := by
  unfold rackRemove; frame

@[simp] theorem rackRemove_reorderingSeen (s : St) (t : BitVec 32) : (rackRemove s t).reorderingSeen = s.reorderingSeen := by
  unfold rackRemove; frame

@[simp] theorem rackRemove_keepInflated (s : St) (t : BitVec 32) : (rackRemove s t).keepInflated = s.keepInflated := by
  unfold rackRemove; frame

@[simp] theorem rackRemove_rackDeadline (s : St) (t : BitVec 32) : (rackRemove s t).rackDeadline = s.rackDeadline := by
  unfold rackRemove; frame

@[simp] theorem rackRemove_ptoDeadline (s : St) (t : BitVec 32) : (rackRemove s t).ptoDeadline = s.ptoDeadline := by
  unfold rackRemove; frame

@[simp] theorem rackRemove_tlrActive (s : St) (t : BitVec 32) : (rackRemove s t).tlrActive = s.tlrActive := by
  unfold rackRemove; frame

@[simp] theorem rackRemove_tlrFirstRTT (s : St) (t : BitVec 32) : (rackRemove s t).tlrFirstRTT = s.tlrFirstRTT := by
  unfold rackRemove; frame

@[simp] theorem rackRemove_tlrHadAdditionalLoss (s : St) (t : BitVec 32) : (rackRemove s t).tlrHadAdditionalLoss = s.tlrHadAdditionalLoss := by
  unfold rackRemove; frame

@[simp] theorem rackRemove_tlrEndTSN (s : St) (t : BitVec 32) : (rackRemove s t).tlrEndTSN = s.tlrEndTSN := by
  unfold rackRemove; frame

@[simp] theorem rackRemove_tlrBurstFirst (s : St) (t : BitVec 32) : (rackRemove s t).tlrBurstFirst = s.tlrBurstFirst := by
  unfold rackRemove; frame

@[simp] theorem rackRemove_tlrBurstLater (s : St) (t : BitVec 32) : (rackRemove s t).tlrBurstLater = s.tlrBurstLater := by
  unfold rackRemove; frame

@[simp] theorem rackRemove_tlrGoodOps (s : St) (t : BitVec 32) : (rackRemove s t).tlrGoodOps = s.tlrGoodOps := by
  unfold rackRemove; frame

@[simp] theorem rackRemove_tlrStartTime (s : St) (t : BitVec 32) : (rackRemove s t).tlrStartTime = s.tlrStartTime := by
  unfold rackRemove; frame

@[simp] theorem rackRemove_hbProbes (s : St) (t : BitVec 32) : (rackRemove s t).hbProbes = s.hbProbes := by
  unfold rackRemove; frame

@[simp] theorem abandon_cfg (s : St) (ts : List (BitVec 32)) : (abandon s ts).cfg = s.cfg := by
  unfold abandon; frame

@[simp] theorem abandon_now (s : St) (ts : List (BitVec 32)) : (abandon s ts).now = s.now := by
  unfold abandon; frame

@[simp] theorem abandon_cumAck (s : St) (ts : List (BitVec 32)) : (abandon s ts).cumAck = s.cumAck := by
  unfold abandon; frame

@[simp] theorem abandon_myNextTSN (s : St) (ts : List (BitVec 32)) : (abandon s ts).myNextTSN = s.myNextTSN := by
  unfold abandon; frame

@[simp] theorem abandon_minTSN2MeasureRTT (s : St) (ts : List (BitVec 32)) : (abandon s ts).minTSN2MeasureRTT = s.minTSN2MeasureRTT := by
  unfold abandon; frame

@[simp] theorem abandon_list (s : St) (ts : List (BitVec 32)) : (abandon s ts).list = s.list := by
  unfold abandon; frame

@[simp] theorem abandon_reoWnd (s : St) (ts : List (BitVec 32)) : (abandon s ts).reoWnd = s.reoWnd := by
  unfold abandon; frame

@[simp] theorem abandon_minRTT (s : St) (ts : List (BitVec 32)) : (abandon s ts).minRTT = s.minRTT := by
  unfold abandon; frame

@[simp] theorem abandon_minWnd (s : St) (ts : List (BitVec 32)) : (abandon s ts).minWnd = s.minWnd := by
  unfold abandon; frame

@[simp] theorem abandon_deliveredTime (s : St) (ts : List (BitVec 32)) : (abandon s ts).deliveredTime = s.deliveredTime := by
  unfold abandon; frame

@[simp] theorem abandon_hw (s : St) (ts : List (BitVec 32)) : (abandon s ts).hw = s.hw := by
  unfold abandon; frame

@[simp] theorem abandon_reorderingSeen (s : St) (ts : List (BitVec 32)) : (abandon s ts).reorderingSeen = s.reorderingSeen := by
  unfold abandon; frame

@[simp] theorem abandon_keepInflated (s : St) (ts : List (BitVec 32)) : (abandon s ts).keepInflated = s.keepInflated := by
  unfold abandon; frame

@[simp] theorem abandon_rackDeadline (s : St) (ts : List (BitVec 32)) : (abandon s ts).rackDeadline = s.rackDeadline := by
  unfold abandon; frame

@[simp] theorem abandon_ptoDeadline (s : St) (ts : List (BitVec 32)) : (abandon s ts).ptoDeadline = s.ptoDeadline := by
  unfold abandon; frame

@[simp] theorem abandon_tlrActive (s : St) (ts : List (BitVec 32)) : (abandon s ts).tlrActive = s.tlrActive := by
  unfold abandon; frame

@[simp] theorem abandon_tlrFirstRTT (s : St) (ts : List (BitVec 32)) : (abandon s ts).tlrFirstRTT = s.tlrFirstRTT := by
  unfold abandon; frame

@[simp] theorem abandon_tlrHadAdditionalLoss (s : St) (ts : List (BitVec 32)) : (abandon s ts).tlrHadAdditionalLoss = s.tlrHadAdditionalLoss := by
  unfold abandon; frame

@[simp] theorem abandon_tlrEndTSN (s : St) (ts : List (BitVec 32)) : (abandon s ts).tlrEndTSN = s.tlrEndTSN := by
  unfold abandon; frame

@[simp] theorem abandon_tlrBurstFirst (s : St) (ts : List (BitVec 32)) : (abandon s ts).tlrBurstFirst = s.tlrBurstFirst := by
  unfold abandon; frame

@[simp] theorem abandon_tlrBurstLater (s : St) (ts : List (BitVec 32)) : (abandon s ts).tlrBurstLater = s.tlrBurstLater := by
  unfold abandon; frame

@[simp] theorem abandon_tlrGoodOps (s : St) (ts : List (BitVec 32)) : (abandon s ts).tlrGoodOps = s.tlrGoodOps := by
  unfold abandon; frame

@[simp] theorem abandon_tlrStartTime (s : St) (ts : List (BitVec 32)) : (abandon s ts).tlrStartTime = s.tlrStartTime := by
  unfold abandon; frame

@[simp] theorem abandon_hbProbes (s : St) (ts : List (BitVec 32)) : (abandon s ts).hbProbes = s.hbProbes := by
  unfold abandon; frame

@[simp] theorem t3_cfg (s : St) : (t3 s).cfg = s.cfg := by
  unfold t3; frame

@[simp] theorem t3_now (s : St) : (t3 s).now = s.now := by
  unfold t3; frame

@[simp] theorem t3_cumAck (s : St) : (t3 s).cumAck = s.cumAck := by
  unfold t3; frame

@[simp] theorem t3_myNextTSN (s : St) : (t3 s).myNextTSN = s.myNextTSN := by
  unfold t3; frame

@[simp] theorem t3_minTSN2MeasureRTT (s : St) : (t3 s).minTSN2MeasureRTT = s.minTSN2MeasureRTT := by
  unfold t3; frame

@[simp] theorem t3_list (s : St) : (t3 s).list = s.list := by
  unfold t3; frame

@[simp] theorem t3_reoWnd (s : St) : (t3 s).reoWnd = s.reoWnd := by
  unfold t3; frame

@[simp] theorem t3_minRTT (s : St) : (t3 s).minRTT = s.minRTT := by
  unfold t3; frame

@[simp] theorem t3_minWnd (s : St) : (t3 s).minWnd = s.minWnd := by
  unfold t3; frame

@[simp] theorem t3_deliveredTime (s : St) : (t3 s).deliveredTime = s.deliveredTime := by
  unfold t3; frame

@[simp] theorem t3_hw (s : St) : (t3 s).hw = s.hw := by
  unfold t3; frame

@[simp] theorem t3_reorderingSeen (s : St) : (t3 s).reorderingSeen = s.reorderingSeen := by
  unfold t3; frame

@[simp] theorem t3_keepInflated (s : St) : (t3 s).keepInflated = s.keepInflated := by
  unfold t3; frame

@[simp] theorem t3_rackDeadline (s : St) : (t3 s).rackDeadline = s.rackDeadline := by
  unfold t3; frame

@[simp] theorem t3_ptoDeadline (s : St) : (t3 s).ptoDeadline = s.ptoDeadline := by
  unfold t3; frame

@[simp] theorem t3_tlrActive (s : St) : (t3 s).tlrActive = s.tlrActive := by
  unfold t3; frame

@[simp] theorem t3_tlrFirstRTT (s : St) : (t3 s).tlrFirstRTT = s.tlrFirstRTT := by
  unfold t3; frame

@[simp] theorem t3_tlrHadAdditionalLoss (s : St) : (t3 s).tlrHadAdditionalLoss = s.tlrHadAdditionalLoss := by
  unfold t3; frame

@[simp] theorem t3_tlrEndTSN (s : St) : (t3 s).tlrEndTSN = s.tlrEndTSN := by
  unfold t3; frame

@[simp] theorem t3_tlrBurstFirst (s : St) : (t3 s).tlrBurstFirst = s.tlrBurstFirst := by
  unfold t3; frame

@[simp] theorem t3_tlrBurstLater (s : St) : (t3 s).tlrBurstLater = s.tlrBurstLater := by
  unfold t3; frame

@[simp] theorem t3_tlrGoodOps (s : St) : (t3 s).tlrGoodOps = s.tlrGoodOps := by
  unfold t3; frame

@[simp] theorem t3_tlrStartTime (s : St) : (t3 s).tlrStartTime = s.tlrStartTime := by
  unfold t3; frame

@[simp] theorem t3_hbProbes (s : St) : (t3 s).hbProbes = s.hbProbes := by
  unfold t3; frame

@[simp] theorem tlrApplyAdditionalLoss_cfg (s : St) (env : Env) (t : Int) : (tlrApplyAdditionalLoss s env t).cfg = s.cfg := by
  unfold tlrApplyAdditionalLoss; (repeat' (first | rfl | split | dsimp only)) <;> simp

@[simp] theorem tlrApplyAdditionalLoss_now (s : St) (env : Env) (t : Int) : (tlrApplyAdditionalLoss s env t).now = s.now := by
  unfold tlrApplyAdditionalLoss; (repeat' (first | rfl | split | dsimp only)) <;> simp

@[simp] theorem tlrApplyAdditionalLoss_q (s : St) (env : Env) (t : Int) : (tlrApplyAdditionalLoss s env t).q = s.q := by
  unfold tlrApplyAdditionalLoss; (repeat' (first | rfl | split | dsimp only)) <;> simp

@[simp] theorem tlrApplyAdditionalLoss_cumAck (s : St) (env : Env) (t : Int) : (tlrApplyAdditionalLoss s env t).cumAck = s.cumAck := by
  unfold tlrApplyAdditionalLoss; (repeat' (first | rfl | split | dsimp only)) <;> simp

@[simp] theorem tlrApplyAdditionalLoss_myNextTSN (s : St) (env : Env) (t : Int) : (tlrApplyAdditionalLoss s env t).myNextTSN = s.myNextTSN := by
  unfold tlrApplyAdditionalLoss; (repeat' (first | rfl | split | dsimp only)) <;> simp

@[simp] theorem tlrApplyAdditionalLoss_minTSN2MeasureRTT (s : St) (env : Env) (t : Int) : (tlrApplyAdditionalLoss s env t).minTSN2MeasureRTT = s.minTSN2MeasureRTT := by
  unfold tlrApplyAdditionalLoss; (repeat' (first | rfl | split | dsimp only)) <;> simp

@[simp] theorem tlrApplyAdditionalLoss_list (s : St) (env : Env) (t : Int) : (tlrApplyAdditionalLoss s env t).list = s.list := by
  unfold tlrApplyAdditionalLoss; (repeat' (first | rfl | split | dsimp only)) <;> simp

@[simp] theorem tlrApplyAdditionalLoss_reoWnd (s : St) (env : Env) (t : Int) : (tlrApplyAdditionalLoss s env t).reoWnd = s.reoWnd := by
  unfold tlrApplyAdditionalLoss; (repeat' (first | rfl | split | dsimp only)) <;> simp

@[simp] theorem tlrApplyAdditionalLoss_minRTT (s : St) (env : Env) (t : Int) : (tlrApplyAdditionalLoss s env t).minRTT = s.minRTT := by
  unfold tlrApplyAdditionalLoss; (repeat' (first | rfl | split | dsimp only)) <;> simp

@[simp] theorem tlrApplyAdditionalLoss_minWnd (s : St) (env : Env) (t : Int) : (tlrApplyAdditionalLoss s env t).minWnd = s.minWnd := by
  unfold tlrApplyAdditionalLoss; (repeat' (first | rfl | split | dsimp only)) <;> simp

@[simp] theorem tlrApplyAdditionalLoss_deliveredTime (s : St) (env : Env) (t : Int) : (tlrApplyAdditionalLoss s env t).deliveredTime = s.deliveredTime := by
  unfold tlrApplyAdditionalLoss; (repeat' (first | rfl | split | dsimp only)) <;> simp

@[simp] theorem tlrApplyAdditionalLoss_hw (s : St) (env : Env) (t : Int) : (tlrApplyAdditionalLoss s env t).hw = s.hw := by
  unfold tlrApplyAdditionalLoss; (repeat' (first | rfl | split | dsimp only)) <;> simp

@[simp] theorem tlrApplyAdditionalLoss_reorderingSeen (s : St) (env : Env) (t : Int) : (tlrApplyAdditionalLoss s env t).reorderingSeen = s.reorderingSeen := by
  unfold tlrApplyAdditionalLoss; (repeat' (first | rfl | split | dsimp only)) <;> simp

@[simp] theorem tlrApplyAdditionalLoss_keepInflated (s : St) (env : Env) (t : Int) : (tlrApplyAdditionalLoss s env t).keepInflated = s.keepInflated := by
  unfold tlrApplyAdditionalLoss; (repeat' (first | rfl | split | dsimp only)) <;> simp

@[simp] theorem tlrApplyAdditionalLoss_rackDeadline (s : St) (env : Env) (t : Int) : (tlrApplyAdditionalLoss s env t).rackDeadline = s.rackDeadline := by
  unfold tlrApplyAdditionalLoss; (repeat' (first | rfl | split | dsimp only)) <;> simp

@[simp] theorem tlrApplyAdditionalLoss_ptoDeadline (s : St) (env : Env) (t : Int) : (tlrApplyAdditionalLoss s env t).ptoDeadline = s.ptoDeadline := by
  unfold tlrApplyAdditionalLoss; (repeat' (first | rfl | split | dsimp only)) <;> simp

@[simp] theorem tlrApplyAdditionalLoss_tlrActive (s : St) (env : Env) (t : Int) : (tlrApplyAdditionalLoss s env t).tlrActive = s.tlrActive := by
  unfold tlrApplyAdditionalLoss; (repeat' (first | rfl | split | dsimp only)) <;> simp

@[simp] theorem tlrApplyAdditionalLoss_tlrEndTSN (s : St) (env : Env) (t : Int) : (tlrApplyAdditionalLoss s env t).tlrEndTSN = s.tlrEndTSN := by
  unfold tlrApplyAdditionalLoss; (repeat' (first | rfl | split | dsimp only)) <;> simp

@[simp] theorem tlrApplyAdditionalLoss_tlrStartTime (s : St) (env : Env) (t : Int) : (tlrApplyAdditionalLoss s env t).tlrStartTime = s.tlrStartTime := by
  unfold tlrApplyAdditionalLoss; (repeat' (first | rfl | split | dsimp only)) <;> simp

@[simp] theorem tlrApplyAdditionalLoss_hbProbes (s : St) (env : Env) (t : Int) : (tlrApplyAdditionalLoss s env t).hbProbes = s.hbProbes := by
  unfold tlrApplyAdditionalLoss; (repeat' (first | rfl | split | dsimp only)) <;> simp

@[simp] theorem tlrBudgetScaled_cfg (s : St) (env : Env) : ((tlrBudgetScaled s env).1).cfg = s.cfg := by
  unfold tlrBudgetScaled tlrCurrentBurstUnits; (repeat' (first | rfl | split | dsimp only)) <;> simp

@[simp] theorem tlrBudgetScaled_now (s : St) (env : Env) : ((tlrBudgetScaled s env).1).now = s.now := by
  unfold tlrBudgetScaled tlrCurrentBurstUnits; (repeat' (first | rfl | split | dsimp only)) <;> simp

@[simp] theorem tlrBudgetScaled_q (s : St) (env : Env) : ((tlrBudgetScaled s env).1).q = s.q := by
  unfold tlrBudgetScaled tlrCurrentBurstUnits; (repeat' (first | rfl | split | dsimp only)) <;> simp

@[simp] theorem tlrBudgetScaled_cumAck (s : St) (env : Env) : ((tlrBudgetScaled s env).1).cumAck = s.cumAck := by
  unfold tlrBudgetScaled tlrCurrentBurstUnits; (repeat' (first | rfl | split | dsimp only)) <;> simp

@[simp] theorem tlrBudgetScaled_myNextTSN (s : St) (env : Env) : ((tlrBudgetScaled s env).1).myNextTSN = s.myNextTSN := by
  unfold tlrBudgetScaled tlrCurrentBurstUnits; (repeat' (first | rfl | split | dsimp only)) <;> simp

@[simp] theorem tlrBudgetScaled_minTSN2MeasureRTT (s : St) (env : Env) : ((tlrBudgetScaled s env).1).minTSN2MeasureRTT = s.minTSN2MeasureRTT := by
  unfold tlrBudgetScaled tlrCurrentBurstUnits; (repeat' (first | rfl | split | dsimp only)) <;> simp

@[simp] theorem tlrBudgetScaled_list (s : St) (env : Env) : ((tlrBudgetScaled s env).1).list = s.list := by
  unfold tlrBudgetScaled tlrCurrentBurstUnits; (repeat' (first | rfl | split | dsimp only)) <;> simp

@[simp] theorem tlrBudgetScaled_reoWnd (s : St) (env : Env) : ((tlrBudgetScaled s env).1).reoWnd = s.reoWnd := by
  unfold tlrBudgetScaled tlrCurrentBurstUnits; (repeat' (first | rfl | split | dsimp only)) <;> simp

@[simp] theorem tlrBudgetScaled_minRTT (s : St) (env : Env) : ((tlrBudgetScaled s env).1).minRTT = s.minRTT := by
  unfold tlrBudgetScaled tlrCurrentBurstUnits; (repeat' (first | rfl | split | dsimp only)) <;> simp

@[simp] theorem tlrBudgetScaled_minWnd (s : St) (env : Env) : ((tlrBudgetScaled s env).1).minWnd = s.minWnd := by
  unfold tlrBudgetScaled tlrCurrentBurstUnits; (repeat' (first | rfl | split | dsimp only)) <;> simp

@[simp] theorem tlrBudgetScaled_deliveredTime (s : St) (env : Env) : ((tlrBudgetScaled s env).1).deliveredTime = s.deliveredTime := by
  unfold tlrBudgetScaled tlrCurrentBurstUnits; (repeat' (first | rfl | split | dsimp only)) <;> simp

@[simp] theorem tlrBudgetScaled_hw (s : St) (env : Env) : ((tlrBudgetScaled s env).1).hw = s.hw := by
  unfold tlrBudgetScaled tlrCurrentBurstUnits; (repeat' (first | rfl | split | dsimp only)) <;> simp

@[simp] theorem tlrBudgetScaled_reorderingSeen (s : St) (env : Env) : ((tlrBudgetScaled s env).1).reorderingSeen = s.reorderingSeen := by
  unfold tlrBudgetScaled tlrCurrentBurstUnits; (repeat' (first | rfl | split | dsimp only)) <;> simp

@[simp] theorem tlrBudgetScaled_keepInflated (s : St) (env : Env) : ((tlrBudgetScaled s env).1).keepInflated = s.keepInflated := by
  unfold tlrBudgetScaled tlrCurrentBurstUnits; (repeat' (first | rfl | split | dsimp only)) <;> simp

@[simp] theorem tlrBudgetScaled_rackDeadline (s : St) (env : Env) : ((tlrBudgetScaled s env).1).rackDeadline = s.rackDeadline := by
  unfold tlrBudgetScaled tlrCurrentBurstUnits; (repeat' (first | rfl | split | dsimp only)) <;> simp

@[simp] theorem tlrBudgetScaled_ptoDeadline (s : St) (env : Env) : ((tlrBudgetScaled s env).1).ptoDeadline = s.ptoDeadline := by
  unfold tlrBudgetScaled tlrCurrentBurstUnits; (repeat' (first | rfl | split | dsimp only)) <;> simp

@[simp] theorem tlrBudgetScaled_tlrActive (s : St) (env : Env) : ((tlrBudgetScaled s env).1).tlrActive = s.tlrActive := by
  unfold tlrBudgetScaled tlrCurrentBurstUnits; (repeat' (first | rfl | split | dsimp only)) <;> simp

@[simp] theorem tlrBudgetScaled_tlrHadAdditionalLoss (s : St) (env : Env) : ((tlrBudgetScaled s env).1).tlrHadAdditionalLoss = s.tlrHadAdditionalLoss := by
  unfold tlrBudgetScaled tlrCurrentBurstUnits; (repeat' (first | rfl | split | dsimp only)) <;> simp

@[simp] theorem tlrBudgetScaled_tlrEndTSN (s : St) (env : Env) : ((tlrBudgetScaled s env).1).tlrEndTSN = s.tlrEndTSN := by
  unfold tlrBudgetScaled tlrCurrentBurstUnits; (repeat' (first | rfl | split | dsimp only)) <;> simp

@[simp] theorem tlrBudgetScaled_tlrBurstFirst (s : St) (env : Env) : ((tlrBudgetScaled s env).1).tlrBurstFirst = s.tlrBurstFirst := by
  unfold tlrBudgetScaled tlrCurrentBurstUnits; (repeat' (first | rfl | split | dsimp only)) <;> simp

@[simp] theorem tlrBudgetScaled_tlrBurstLater (s : St) (env : Env) : ((tlrBudgetScaled s env).1).tlrBurstLater = s.tlrBurstLater := by
  unfold tlrBudgetScaled tlrCurrentBurstUnits; (repeat' (first | rfl | split | dsimp only)) <;> simp

@[simp] theorem tlrBudgetScaled_tlrGoodOps (s : St) (env : Env) : ((tlrBudgetScaled s env).1).tlrGoodOps = s.tlrGoodOps := by
  unfold tlrBudgetScaled tlrCurrentBurstUnits; (repeat' (first | rfl | split | dsimp only)) <;> simp

@[simp] theorem tlrBudgetScaled_tlrStartTime (s : St) (env : Env) : ((tlrBudgetScaled s env).1).tlrStartTime = s.tlrStartTime := by
  unfold tlrBudgetScaled tlrCurrentBurstUnits; (repeat' (first | rfl | split | dsimp only)) <;> simp

@[simp] theorem tlrBudgetScaled_hbProbes (s : St) (env : Env) : ((tlrBudgetScaled s env).1).hbProbes = s.hbProbes := by
  unfold tlrBudgetScaled tlrCurrentBurstUnits; (repeat' (first | rfl | split | dsimp only)) <;> simp

@[simp] theorem schedulePTOAfterSend_cfg (s : St) (env : Env) : (schedulePTOAfterSend s env).cfg = s.cfg := by
  unfold schedulePTOAfterSend; split <;> simp

@[simp] theorem schedulePTOAfterSend_now (s : St) (env : Env) : (schedulePTOAfterSend s env).now = s.now := by
  unfold schedulePTOAfterSend; split <;> simp

@[simp] theorem schedulePTOAfterSend_q (s : St) (env : Env) : (schedulePTOAfterSend s env).q = s.q := by
  unfold schedulePTOAfterSend; split <;> simp

@[simp] theorem schedulePTOAfterSend_cumAck (s : St) (env : Env) : (schedulePTOAfterSend s env).cumAck = s.cumAck := by
  unfold schedulePTOAfterSend; split <;> simp

@[simp] theorem schedulePTOAfterSend_myNextTSN (s : St) (env : Env) : (schedulePTOAfterSend s env).myNextTSN = s.myNextTSN := by
  unfold schedulePTOAfterSend; split <;> simp

@[simp] theorem schedulePTOAfterSend_minTSN2MeasureRTT (s : St) (env : Env) : (schedulePTOAfterSend s env).minTSN2MeasureRTT = s.minTSN2MeasureRTT := by
  unfold schedulePTOAfterSend; split <;> simp

@[simp] theorem schedulePTOAfterSend_list (s : St) (env : Env) : (schedulePTOAfterSend s env).list = s.list := by
  unfold schedulePTOAfterSend; split <;> simp

@[simp] theorem schedulePTOAfterSend_reoWnd (s : St) (env : Env) : (schedulePTOAfterSend s env).reoWnd = s.reoWnd := by
  unfold schedulePTOAfterSend; split <;> simp

@[simp] theorem schedulePTOAfterSend_minRTT (s : St) (env : Env) : (schedulePTOAfterSend s env).minRTT = s.minRTT := by
  unfold schedulePTOAfterSend; split <;> simp

@[simp] theorem schedulePTOAfterSend_minWnd (s : St) (env : Env) : (schedulePTOAfterSend s env).minWnd = s.minWnd := by
  unfold schedulePTOAfterSend; split <;> simp

@[simp] theorem schedulePTOAfterSend_deliveredTime (s : St) (env : Env) : (schedulePTOAfterSend s env).deliveredTime = s.deliveredTime := by
  unfold schedulePTOAfterSend; split <;> simp

@[simp] theorem schedulePTOAfterSend_hw (s : St) (env : Env) : (schedulePTOAfterSend s env).hw = s.hw := by
  unfold schedulePTOAfterSend; split <;> simp

@[simp] theorem schedulePTOAfterSend_reorderingSeen (s : St) (env : Env) : (schedulePTOAfterSend s env).reorderingSeen = s.reorderingSeen := by
  unfold schedulePTOAfterSend; split <;> simp

@[simp] theorem schedulePTOAfterSend_keepInflated (s : St) (env : Env) : (schedulePTOAfterSend s env).keepInflated = s.keepInflated := by
  unfold schedulePTOAfterSend; split <;> simp

@[simp] theorem schedulePTOAfterSend_rackDeadline (s : St) (env : Env) : (schedulePTOAfterSend s env).rackDeadline = s.rackDeadline := by
  unfold schedulePTOAfterSend; split <;> simp

@[simp] theorem schedulePTOAfterSend_tlrActive (s : St) (env : Env) : (schedulePTOAfterSend s env).tlrActive = s.tlrActive := by
  unfold schedulePTOAfterSend; split <;> simp

@[simp] theorem schedulePTOAfterSend_tlrFirstRTT (s : St) (env : Env) : (schedulePTOAfterSend s env).tlrFirstRTT = s.tlrFirstRTT := by
  unfold schedulePTOAfterSend; split <;> simp

@[simp] theorem schedulePTOAfterSend_tlrHadAdditionalLoss (s : St) (env : Env) : (schedulePTOAfterSend s env).tlrHadAdditionalLoss = s.tlrHadAdditionalLoss := by
  unfold schedulePTOAfterSend; split <;> simp

@[simp] theorem schedulePTOAfterSend_tlrEndTSN (s : St) (env : Env) : (schedulePTOAfterSend s env).tlrEndTSN = s.tlrEndTSN := by
  unfold schedulePTOAfterSend; split <;> simp

@[simp] theorem schedulePTOAfterSend_tlrBurstFirst (s : St) (env : Env) : (schedulePTOAfterSend s env).tlrBurstFirst = s.tlrBurstFirst := by
  unfold schedulePTOAfterSend; split <;> simp

@[simp] theorem schedulePTOAfterSend_tlrBurstLater (s : St) (env : Env) : (schedulePTOAfterSend s env).tlrBurstLater = s.tlrBurstLater := by
  unfold schedulePTOAfterSend; split <;> simp

@[simp] theorem schedulePTOAfterSend_tlrGoodOps (s : St) (env : Env) : (schedulePTOAfterSend s env).tlrGoodOps = s.tlrGoodOps := by
  unfold schedulePTOAfterSend; split <;> simp

@[simp] theorem schedulePTOAfterSend_tlrStartTime (s : St) (env : Env) : (schedulePTOAfterSend s env).tlrStartTime = s.tlrStartTime := by
  unfold schedulePTOAfterSend; split <;> simp

@[simp] theorem schedulePTOAfterSend_hbProbes (s : St) (env : Env) : (schedulePTOAfterSend s env).hbProbes = s.hbProbes := by
  unfold schedulePTOAfterSend; split <;> simp

@[simp] theorem schedulePTOAfterSack_cfg (s : St) (env : Env) : (schedulePTOAfterSack s env).cfg = s.cfg := by
  unfold schedulePTOAfterSack; split <;> simp

@[simp] theorem schedulePTOAfterSack_now (s : St) (env : Env) : (schedulePTOAfterSack s env).now = s.now := by
  unfold schedulePTOAfterSack; split <;> simp

@[simp] theorem schedulePTOAfterSack_q (s : St) (env : Env) : (schedulePTOAfterSack s env).q = s.q := by
  unfold schedulePTOAfterSack; split <;> simp

@[simp] theorem schedulePTOAfterSack_cumAck (s : St) (env : Env) : (schedulePTOAfterSack s env).cumAck = s.cumAck := by
  unfold schedulePTOAfterSack; split <;> simp

@[simp] theorem schedulePTOAfterSack_myNextTSN (s : St) (env : Env) : (schedulePTOAfterSack s env).myNextTSN = s.myNextTSN := by
  unfold schedulePTOAfterSack; split <;> simp

@[simp] theorem schedulePTOAfterSack_minTSN2MeasureRTT (s : St) (env : Env) : (schedulePTOAfterSack s env).minTSN2MeasureRTT = s.minTSN2MeasureRTT := by
  unfold schedulePTOAfterSack; split <;> simp

@[simp] theorem schedulePTOAfterSack_list (s : St) (env : Env) : (schedulePTOAfterSack s env).list = s.list := by
  unfold schedulePTOAfterSack; split <;> simp

@[simp] theorem schedulePTOAfterSack_reoWnd (s : St) (env : Env) : (schedulePTOAfterSack s env).reoWnd = s.reoWnd := by
  unfold schedulePTOAfterSack; split <;> simp

@[simp] theorem schedulePTOAfterSack_minRTT (s : St) (env : Env) : (schedulePTOAfterSack s env).minRTT = s.minRTT := by
  unfold schedulePTOAfterSack; split <;> simp

@[simp] theorem schedulePTOAfterSack_minWnd (s : St) (env : Env) : (schedulePTOAfterSack s env).minWnd = s.minWnd := by
  unfold schedulePTOAfterSack; split <;> simp

@[simp] theorem schedulePTOAfterSack_deliveredTime (s : St) (env : Env) : (schedulePTOAfterSack s env).deliveredTime = s.deliveredTime := by
  unfold schedulePTOAfterSack; split <;> simp

@[simp] theorem schedulePTOAfterSack_hw (s : St) (env : Env) : (schedulePTOAfterSack s env).hw = s.hw := by
  unfold schedulePTOAfterSack; split <;> simp

@[simp] theorem schedulePTOAfterSack_reorderingSeen (s : St) (env : Env) : (schedulePTOAfterSack s env).reorderingSeen = s.reorderingSeen := by
  unfold schedulePTOAfterSack; split <;> simp

@[simp] theorem schedulePTOAfterSack_keepInflated (s : St) (env : Env) : (schedulePTOAfterSack s env).keepInflated = s.keepInflated := by
  unfold schedulePTOAfterSack; split <;> simp

@[simp] theorem schedulePTOAfterSack_rackDeadline (s : St) (env : Env) : (schedulePTOAfterSack s env).rackDeadline = s.rackDeadline := by
  unfold schedulePTOAfterSack; split <;> simp

@[simp] theorem schedulePTOAfterSack_tlrActive (s : St) (env : Env) : (schedulePTOAfterSack s env).tlrActive = s.tlrActive := by
  unfold schedulePTOAfterSack; split <;> simp

@[simp] theorem schedulePTOAfterSack_tlrFirstRTT (s : St) (env : Env) : (schedulePTOAfterSack s env).tlrFirstRTT = s.tlrFirstRTT := by
  unfold schedulePTOAfterSack; split <;> simp

@[simp] theorem schedulePTOAfterSack_tlrHadAdditionalLoss (s : St) (env : Env) : (schedulePTOAfterSack s env).tlrHadAdditionalLoss = s.tlrHadAdditionalLoss := by
  unfold schedulePTOAfterSack; split <;> simp

@[simp] theorem schedulePTOAfterSack_tlrEndTSN (s : St) (env : Env) : (schedulePTOAfterSack s env).tlrEndTSN = s.tlrEndTSN := by
  unfold schedulePTOAfterSack; split <;> simp

@[simp] theorem schedulePTOAfterSack_tlrBurstFirst (s : St) (env : Env) : (schedulePTOAfterSack s env).tlrBurstFirst = s.tlrBurstFirst := by
  unfold schedulePTOAfterSack; split <;> simp

@[simp] theorem schedulePTOAfterSack_tlrBurstLater (s : St) (env : Env) : (schedulePTOAfterSack s env).tlrBurstLater = s.tlrBurstLater := by
  unfold schedulePTOAfterSack; split <;> simp

@[simp] theorem schedulePTOAfterSack_tlrGoodOps (s : St) (env : Env) : (schedulePTOAfterSack s env).tlrGoodOps = s.tlrGoodOps := by
  unfold schedulePTOAfterSack; split <;> simp

@[simp] theorem schedulePTOAfterSack_tlrStartTime (s : St) (env : Env) : (schedulePTOAfterSack s env).tlrStartTime = s.tlrStartTime := by
  unfold schedulePTOAfterSack; split <;> simp

@[simp] theorem schedulePTOAfterSack_hbProbes (s : St) (env : Env) : (schedulePTOAfterSack s env).hbProbes = s.hbProbes := by
  unfold schedulePTOAfterSack; split <;> simp

@[simp] theorem rackArm_cfg (s : St) : (rackArm s).cfg = s.cfg := by
  unfold rackArm; split <;> simp

@[simp] theorem rackArm_now (s : St) : (rackArm s).now = s.now := by
  unfold rackArm; split <;> simp

@[simp] theorem rackArm_q (s : St) : (rackArm s).q = s.q := by
  unfold rackArm; split <;> simp

@[simp] theorem rackArm_cumAck (s : St) : (rackArm s).cumAck = s.cumAck := by
  unfold rackArm; split <;> simp

@[simp] theorem rackArm_myNextTSN (s : St) : (rackArm s).myNextTSN = s.myNextTSN := by
  unfold rackArm; split <;> simp

@[simp] theorem rackArm_minTSN2MeasureRTT (s : St) : (rackArm s).minTSN2MeasureRTT = s.minTSN2MeasureRTT := by
  unfold rackArm; split <;> simp

@[simp] theorem rackArm_list (s : St) : (rackArm s).list = s.list := by
  unfold rackArm; split <;> simp

@[simp] theorem rackArm_reoWnd (s : St) : (rackArm s).reoWnd = s.reoWnd := by
  unfold rackArm; split <;> simp

@[simp] theorem rackArm_minRTT (s : St) : (rackArm s).minRTT = s.minRTT := by
  unfold rackArm; split <;> simp

@[simp] theorem rackArm_minWnd (s : St) : (rackArm s).minWnd = s.minWnd := by
  unfold rackArm; split <;> simp

@[simp] theorem rackArm_deliveredTime (s : St) : (rackArm s).deliveredTime = s.deliveredTime := by
  unfold rackArm; split <;> simp

@[simp] theorem rackArm_hw (s : St) : (rackArm s).hw = s.hw := by
  unfold rackArm; split <;> simp

@[simp] theorem rackArm_reorderingSeen (s : St) : (rackArm s).reorderingSeen = s.reorderingSeen := by
  unfold rackArm; split <;> simp

@[simp] theorem rackArm_keepInflated (s : St) : (rackArm s).keepInflated = s.keepInflated := by
  unfold rackArm; split <;> simp

@[simp] theorem rackArm_ptoDeadline (s : St) : (rackArm s).ptoDeadline = s.ptoDeadline := by
  unfold rackArm; split <;> simp

@[simp] theorem rackArm_tlrActive (s : St) : (rackArm s).tlrActive = s.tlrActive := by
  unfold rackArm; split <;> simp

@[simp] theorem rackArm_tlrFirstRTT (s : St) : (rackArm s).tlrFirstRTT = s.tlrFirstRTT := by
  unfold rackArm; split <;> simp

@[simp] theorem rackArm_tlrHadAdditionalLoss (s : St) : (rackArm s).tlrHadAdditionalLoss = s.tlrHadAdditionalLoss := by
  unfold rackArm; split <;> simp

@[simp] theorem rackArm_tlrEndTSN (s : St) : (rackArm s).tlrEndTSN = s.tlrEndTSN := by
  unfold rackArm; split <;> simp

@[simp] theorem rackArm_tlrBurstFirst (s : St) : (rackArm s).tlrBurstFirst = s.tlrBurstFirst := by
  unfold rackArm; split <;> simp

@[simp] theorem rackArm_tlrBurstLater (s : St) : (rackArm s).tlrBurstLater = s.tlrBurstLater := by
  unfold rackArm; split <;> simp

@[simp] theorem rackArm_tlrGoodOps (s : St) : (rackArm s).tlrGoodOps = s.tlrGoodOps := by
  unfold rackArm; split <;> simp

@[simp] theorem rackArm_tlrStartTime (s : St) : (rackArm s).tlrStartTime = s.tlrStartTime := by
  unfold rackArm; split <;> simp

@[simp] theorem rackArm_hbProbes (s : St) : (rackArm s).hbProbes = s.hbProbes := by
  unfold rackArm; split <;> simp

@[simp] theorem rackReoWnd_cfg (s : St) (env : Env) (nd : Int) : (rackReoWnd s env nd).cfg = s.cfg := by
  simp [rackReoWnd]

@[simp] theorem rackReoWnd_now (s : St) (env : Env) (nd : Int) : (rackReoWnd s env nd).now = s.now := by
  simp [rackReoWnd]

@[simp] theorem rackReoWnd_q (s : St) (env : Env) (nd : Int) : (rackReoWnd s env nd).q = s.q := by
  simp [rackReoWnd]

@[simp] theorem rackReoWnd_cumAck (s : St) (env : Env) (nd : Int) : (rackReoWnd s env nd).cumAck = s.cumAck := by
  simp [rackReoWnd]

@[simp] theorem rackReoWnd_myNextTSN (s : St) (env : Env) (nd : Int) : (rackReoWnd s env nd).myNextTSN = s.myNextTSN := by
  simp [rackReoWnd]

@[simp] theorem rackReoWnd_minTSN2MeasureRTT (s : St) (env : Env) (nd : Int) : (rackReoWnd s env nd).minTSN2MeasureRTT = s.minTSN2MeasureRTT := by
  simp [rackReoWnd]

@[simp] theorem rackReoWnd_list (s : St) (env : Env) (nd : Int) : (rackReoWnd s env nd).list = s.list := by
  simp [rackReoWnd]

@[simp] theorem rackReoWnd_deliveredTime (s : St) (env : Env) (nd : Int) : (rackReoWnd s env nd).deliveredTime = s.deliveredTime := by
  simp [rackReoWnd]

@[simp] theorem rackReoWnd_hw (s : St) (env : Env) (nd : Int) : (rackReoWnd s env nd).hw = s.hw := by
  simp [rackReoWnd]

@[simp] theorem rackReoWnd_reorderingSeen (s : St) (env : Env) (nd : Int) : (rackReoWnd s env nd).reorderingSeen = s.reorderingSeen := by
  simp [rackReoWnd]

@[simp] theorem rackReoWnd_rackDeadline (s : St) (env : Env) (nd : Int) : (rackReoWnd s env nd).rackDeadline = s.rackDeadline := by
  simp [rackReoWnd]

@[simp] theorem rackReoWnd_ptoDeadline (s : St) (env : Env) (nd : Int) : (rackReoWnd s env nd).ptoDeadline = s.ptoDeadline := by
  simp [rackReoWnd]

@[simp] theorem rackReoWnd_tlrActive (s : St) (env : Env) (nd : Int) : (rackReoWnd s env nd).tlrActive = s.tlrActive := by
  simp [rackReoWnd]

@[simp] theorem rackReoWnd_tlrFirstRTT (s : St) (env : Env) (nd : Int) : (rackReoWnd s env nd).tlrFirstRTT = s.tlrFirstRTT := by
  simp [rackReoWnd]

@[simp] theorem rackReoWnd_tlrHadAdditionalLoss (s : St) (env : Env) (nd : Int) : (rackReoWnd s env nd).tlrHadAdditionalLoss = s.tlrHadAdditionalLoss := by
  simp [rackReoWnd]

@[simp] theorem rackReoWnd_tlrEndTSN (s : St) (env : Env) (nd : Int) : (rackReoWnd s env nd).tlrEndTSN = s.tlrEndTSN := by
  simp [rackReoWnd]

@[simp] theorem rackReoWnd_tlrBurstFirst (s : St) (env : Env) (nd : Int) : (rackReoWnd s env nd).tlrBurstFirst = s.tlrBurstFirst := by
  simp [rackReoWnd]

@[simp] theorem rackReoWnd_tlrBurstLater (s : St) (env : Env) (nd : Int) : (rackReoWnd s env nd).tlrBurstLater = s.tlrBurstLater := by
  simp [rackReoWnd]

@[simp] theorem rackReoWnd_tlrGoodOps (s : St) (env : Env) (nd : Int) : (rackReoWnd s env nd).tlrGoodOps = s.tlrGoodOps := by
  simp [rackReoWnd]

@[simp] theorem rackReoWnd_tlrStartTime (s : St) (env : Env) (nd : Int) : (rackReoWnd s env nd).tlrStartTime = s.tlrStartTime := by
  simp [rackReoWnd]

@[simp] theorem rackReoWnd_hbProbes (s : St) (env : Env) (nd : Int) : (rackReoWnd s env nd).hbProbes = s.hbProbes := by
  simp [rackReoWnd]

@[simp] theorem afterWalk_cfg (s : St) (env : Env) (r : WalkOut) : (afterWalk s env r).cfg = s.cfg := by
  unfold afterWalk afterMarks; (repeat' (first | rfl | split | dsimp only)) <;> simp

@[simp] theorem afterWalk_now (s : St) (env : Env) (r : WalkOut) : (afterWalk s env r).now = s.now := by
  unfold afterWalk afterMarks; (repeat' (first | rfl | split | dsimp only)) <;> simp

@[simp] theorem afterWalk_cumAck (s : St) (env : Env) (r : WalkOut) : (afterWalk s env r).cumAck = s.cumAck := by
  unfold afterWalk afterMarks; (repeat' (first | rfl | split | dsimp only)) <;> simp

@[simp] theorem afterWalk_myNextTSN (s : St) (env : Env) (r : WalkOut) : (afterWalk s env r).myNextTSN = s.myNextTSN := by
  unfold afterWalk afterMarks; (repeat' (first | rfl | split | dsimp only)) <;> simp

@[simp] theorem afterWalk_minTSN2MeasureRTT (s : St) (env : Env) (r : WalkOut) : (afterWalk s env r).minTSN2MeasureRTT = s.minTSN2MeasureRTT := by
  unfold afterWalk afterMarks; (repeat' (first | rfl | split | dsimp only)) <;> simp

@[simp] theorem afterWalk_reoWnd (s : St) (env : Env) (r : WalkOut) : (afterWalk s env r).reoWnd = s.reoWnd := by
  unfold afterWalk afterMarks; (repeat' (first | rfl | split | dsimp only)) <;> simp

@[simp] theorem afterWalk_minRTT (s : St) (env : Env) (r : WalkOut) : (afterWalk s env r).minRTT = s.minRTT := by
  unfold afterWalk afterMarks; (repeat' (first | rfl | split | dsimp only)) <;> simp

@[simp] theorem afterWalk_minWnd (s : St) (env : Env) (r : WalkOut) : (afterWalk s env r).minWnd = s.minWnd := by
  unfold afterWalk afterMarks; (repeat' (first | rfl | split | dsimp only)) <;> simp

@[simp] theorem afterWalk_deliveredTime (s : St) (env : Env) (r : WalkOut) : (afterWalk s env r).deliveredTime = s.deliveredTime := by
  unfold afterWalk afterMarks; (repeat' (first | rfl | split | dsimp only)) <;> simp

@[simp] theorem afterWalk_hw (s : St) (env : Env) (r : WalkOut) : (afterWalk s env r).hw = s.hw := by
  unfold afterWalk afterMarks; (repeat' (first | rfl | split | dsimp only)) <;> simp

@[simp] theorem afterWalk_reorderingSeen (s : St) (env : Env) (r : WalkOut) : (afterWalk s env r).reorderingSeen = s.reorderingSeen := by
  unfold afterWalk afterMarks; (repeat' (first | rfl | split | dsimp only)) <;> simp

@[simp] theorem afterWalk_keepInflated (s : St) (env : Env) (r : WalkOut) : (afterWalk s env r).keepInflated = s.keepInflated := by
  unfold afterWalk afterMarks; (repeat' (first | rfl | split | dsimp only)) <;> simp

@[simp] theorem afterWalk_rackDeadline (s : St) (env : Env) (r : WalkOut) : (afterWalk s env r).rackDeadline = s.rackDeadline := by
  unfold afterWalk afterMarks; (repeat' (first | rfl | split | dsimp only)) <;> simp

@[simp] theorem afterWalk_ptoDeadline (s : St) (env : Env) (r : WalkOut) : (afterWalk s env r).ptoDeadline = s.ptoDeadline := by
  unfold afterWalk afterMarks; (repeat' (first | rfl | split | dsimp only)) <;> simp

@[simp] theorem afterWalk_tlrActive (s : St) (env : Env) (r : WalkOut) : (afterWalk s env r).tlrActive = s.tlrActive := by
  unfold afterWalk afterMarks; (repeat' (first | rfl | split | dsimp only)) <;> simp

@[simp] theorem afterWalk_tlrEndTSN (s : St) (env : Env) (r : WalkOut) : (afterWalk s env r).tlrEndTSN = s.tlrEndTSN := by
  unfold afterWalk afterMarks; (repeat' (first | rfl | split | dsimp only)) <;> simp

@[simp] theorem afterWalk_tlrStartTime (s : St) (env : Env) (r : WalkOut) : (afterWalk s env r).tlrStartTime = s.tlrStartTime := by
  unfold afterWalk afterMarks; (repeat' (first | rfl | split | dsimp only)) <;> simp

@[simp] theorem afterWalk_hbProbes (s : St) (env : Env) (r : WalkOut) : (afterWalk s env r).hbProbes = s.hbProbes := by
  unfold afterWalk afterMarks; (repeat' (first | rfl | split | dsimp only)) <;> simp

@[simp] theorem afterWalk_q (s : St) (env : Env) (r : WalkOut) : (afterWalk s env r).q = r.q := by
  unfold afterWalk afterMarks; (repeat' (first | rfl | split | dsimp only)) <;> simp

@[simp] theorem afterWalk_list (s : St) (env : Env) (r : WalkOut) : (afterWalk s env r).list = r.list := by
  unfold afterWalk afterMarks; (repeat' (first | rfl | split | dsimp only)) <;> simp

end Rack
