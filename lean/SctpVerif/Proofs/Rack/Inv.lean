import SctpVerif.Proofs.Rack.Reo
/-!
The invariant of the reachable states of `Model/Rack.lean` and what follows from it: the RACK list is in send-time
order, and after every operation NO entry of the list satisfies the loss test (`Quiet`) — which is why the RACK timer
callback, which re-evaluates the very same test with the very same window and delivered time, never marks anything.
-/
namespace Rack
open Gen

/-- the loss test of the marking loops, spelled out: chunk `t` is in the store, not acked, not abandoned, not flagged,
an original transmission, and sent more than `w` before `d` -/
def CandX (w d : Int) (q : List Chunk) (t : BitVec 32) : Prop :=
  ∃ c, find q t = some c ∧ c.acked = false ∧ c.abandoned = false ∧ c.retransmit = false ∧ ¬ c.nSent > 1 ∧ c.since + w < d

theorem cand_iff {f : WalkFns} (hf : StdFns f) (w d : Int) (q : List Chunk) (t : BitVec 32) :
    Cand f w d q t ↔ CandX w d q t := by
  unfold Cand CandX
  constructor
  · rintro ⟨c, hc, h1, h2, h3⟩
    rw [hf.dead] at h1; rw [hf.resent] at h2; rw [hf.tooNew] at h3
    simp only [Bool.or_eq_false_iff, decide_eq_false_iff_not, Bool.not_eq_eq_eq_not, Bool.not_false, decide_eq_true_eq] at h1 h2 h3
    exact ⟨c, hc, h1.1, h1.2, h2.1, h2.2, h3⟩
  · rintro ⟨c, hc, h1, h2, h3, h4, h5⟩
    refine ⟨c, hc, ?_, ?_, ?_⟩
    · rw [hf.dead]; simp [h1, h2]
    · rw [hf.resent]; simp only [h3, Bool.false_or, decide_eq_false_iff_not]; exact h4
    · rw [hf.tooNew]; simp [h5]

/-- everything of the invariant except `Quiet` -/
structure Inv0 (s : St) : Prop where
  sorted : s.list.Pairwise (fun t u => sinceOf s.q t ≤ sinceOf s.q u)
  listSub : ∀ t ∈ s.list, ∃ c ∈ s.q, c.tsn = t
  sinceLe : ∀ c ∈ s.q, c.since ≤ s.now
  delivLe : s.deliveredTime ≤ s.now
  reoNonneg : 0 ≤ s.reoWnd
  floorNonneg : 0 ≤ s.cfg.reoWndFloor
  nowNonneg : 0 ≤ s.now

/-- no entry of the RACK list satisfies the loss test -/
def Quiet (s : St) : Prop := s.deliveredTime = 0 ∨ ∀ t ∈ s.list, ¬ CandX s.reoWnd s.deliveredTime s.q t

def Inv (s : St) : Prop := Inv0 s ∧ Quiet s

/-- the invariant only looks at these fields -/
theorem Inv0.congr {s s' : St} (h : Inv0 s) (hl : s'.list = s.list) (hq : s'.q = s.q) (hn : s'.now = s.now)
    (hd : s'.deliveredTime = s.deliveredTime) (hr : s'.reoWnd = s.reoWnd) (hc : s'.cfg = s.cfg) : Inv0 s' := by
  constructor
  · rw [hl, hq]; exact h.sorted
  · rw [hl, hq]; exact h.listSub
  · rw [hq, hn]; exact h.sinceLe
  · rw [hd, hn]; exact h.delivLe
  · rw [hr]; exact h.reoNonneg
  · rw [hc]; exact h.floorNonneg
  · rw [hn]; exact h.nowNonneg

theorem Quiet.congr {s s' : St} (h : Quiet s) (hl : s'.list = s.list) (hq : s'.q = s.q)
    (hd : s'.deliveredTime = s.deliveredTime) (hr : s'.reoWnd = s.reoWnd) : Quiet s' := by
  unfold Quiet at *
  rw [hl, hq, hd, hr]; exact h

theorem Inv.congr {s s' : St} (h : Inv s) (hl : s'.list = s.list) (hq : s'.q = s.q) (hn : s'.now = s.now)
    (hd : s'.deliveredTime = s.deliveredTime) (hr : s'.reoWnd = s.reoWnd) (hc : s'.cfg = s.cfg) : Inv s' :=
  ⟨h.1.congr hl hq hn hd hr hc, h.2.congr hl hq hd hr⟩

/-! ## flag-only changes of the store -/

/-- `g` changes flags only, and only towards "not a candidate" -/
structure FlagOnly (g : Chunk → Chunk) : Prop where
  tsn : ∀ c, (g c).tsn = c.tsn
  since : ∀ c, (g c).since = c.since
  nSent : ∀ c, (g c).nSent = c.nSent
  acked : ∀ c, c.acked = true → (g c).acked = true
  abandoned : ∀ c, c.abandoned = true → (g c).abandoned = true
  retransmit : ∀ c, c.retransmit = true → (g c).retransmit = true ∨ (g c).acked = true

theorem sinceOf_map {g : Chunk → Chunk} (hg : FlagOnly g) (q : List Chunk) (t : BitVec 32) :
    sinceOf (q.map g) t = sinceOf q t := by
  unfold sinceOf
  rw [find_map_pres q t g hg.tsn]
  cases find q t with
  | none => rfl
  | some c => simp [hg.since]

theorem candX_map {g : Chunk → Chunk} (hg : FlagOnly g) (w d : Int) (q : List Chunk) (t : BitVec 32)
    (h : CandX w d (q.map g) t) : CandX w d q t := by
  obtain ⟨c', hc', h1, h2, h3, h4, h5⟩ := h
  rw [find_map_pres q t g hg.tsn] at hc'
  cases hq : find q t with
  | none => rw [hq] at hc'; cases hc'
  | some c =>
    rw [hq] at hc'
    simp only [Option.map_some, Option.some.injEq] at hc'
    subst hc'
    refine ⟨c, hq, ?_, ?_, ?_, ?_, ?_⟩
    · cases ha : c.acked
      · rfl
      · rw [hg.acked c ha] at h1; cases h1
    · cases ha : c.abandoned
      · rfl
      · rw [hg.abandoned c ha] at h2; cases h2
    · cases ha : c.retransmit
      · rfl
      · rcases hg.retransmit c ha with h | h
        · rw [h] at h3; cases h3
        · rw [h] at h1; cases h1
    · rw [hg.nSent] at h4; exact h4
    · rw [hg.since] at h5; exact h5

/-- a flag-only change of the store keeps the invariant -/
theorem Inv.map_q {s : St} (h : Inv s) {g : Chunk → Chunk} (hg : FlagOnly g) : Inv { s with q := s.q.map g } := by
  refine ⟨⟨?_, ?_, ?_, h.1.delivLe, h.1.reoNonneg, h.1.floorNonneg, h.1.nowNonneg⟩, ?_⟩
  · apply h.1.sorted.imp
    intro a b hab
    show sinceOf (s.q.map g) a ≤ sinceOf (s.q.map g) b
    rw [sinceOf_map hg, sinceOf_map hg]; exact hab
  · intro t ht
    obtain ⟨c, hc, hct⟩ := h.1.listSub t ht
    exact ⟨g c, List.mem_map_of_mem hc, by rw [hg.tsn]; exact hct⟩
  · intro c hc
    obtain ⟨c0, hc0, rfl⟩ := List.mem_map.mp hc
    show (g c0).since ≤ s.now
    rw [hg.since]; exact h.1.sinceLe c0 hc0
  · rcases h.2 with h0 | hq
    · exact Or.inl h0
    · exact Or.inr fun t ht hcand => hq t ht (candX_map hg _ _ _ _ hcand)

/-! ## the simple operations -/

theorem Inv.advance {s : St} (h : Inv s) (d : Nat) : Inv { s with now := s.now + (d : Int) } := by
  refine ⟨⟨h.1.sorted, h.1.listSub, ?_, ?_, h.1.reoNonneg, h.1.floorNonneg, ?_⟩, h.2⟩
  · intro c hc; have := h.1.sinceLe c hc; show c.since ≤ s.now + (d : Int); omega
  · have := h.1.delivLe; show s.deliveredTime ≤ s.now + (d : Int); omega
  · have := h.1.nowNonneg; show 0 ≤ s.now + (d : Int); omega

theorem flagOnly_abandon (ts : List (BitVec 32)) :
    FlagOnly (fun c => if ts.contains c.tsn then { c with abandoned := true } else c) := by
  constructor <;> intro c <;> (try intro h) <;> split <;> simp_all

theorem Inv.abandon {s : St} (h : Inv s) (ts : List (BitVec 32)) : Inv (abandon s ts) :=
  h.map_q (flagOnly_abandon ts)

theorem flagOnly_t3 : FlagOnly (fun c => if c.acked || c.abandoned then c else { c with retransmit := true }) := by
  constructor <;> intro c <;> (try intro h) <;> split <;> simp_all

theorem Inv.t3 {s : St} (h : Inv s) : Inv (t3 s) := h.map_q flagOnly_t3

theorem flagOnly_setRtxAt (t : BitVec 32) : FlagOnly (fun c => if c.tsn == t then setRtx c else c) := by
  constructor <;> intro c <;> (try intro h) <;> split <;> simp_all [setRtx]

theorem Inv.ptoAfterSend {s : St} (h : Inv s) (env : Env) : Inv (schedulePTOAfterSend s env) :=
  h.congr (by simp) (by simp) (by simp) (by simp) (by simp) (by simp)

theorem Inv.budget {s : St} (h : Inv s) (env : Env) : Inv (tlrBudgetScaled s env).1 :=
  h.congr (by simp) (by simp) (by simp) (by simp) (by simp) (by simp)

theorem Inv.ptoTlr {s : St} (h : Inv s) (env : Env) : Inv (ptoTlr s env) :=
  h.congr (by simp) (by simp) (by simp) (by simp) (by simp) (by simp)

theorem Inv.onPTOTimer {s : St} (h : Inv s) (env : Env) : Inv (onPTOTimer s env).1 := by
  by_cases hq : s.q = []
  · have : (Rack.onPTOTimer s env).1 = { stopPTOTimer s with hbProbes := s.hbProbes + 1 } := by
      simp [Rack.onPTOTimer, pto_idle, hq]
    rw [this]
    exact h.congr rfl rfl rfl rfl rfl rfl
  · rw [onPTOTimer_eq s env hq]
    split
    · exact h.ptoTlr env
    · split
      · exact h.ptoTlr env
      · split
        · exact h.ptoTlr env
        · next c _ _ =>
          have h1 := (h.ptoTlr env).map_q (flagOnly_setRtxAt c.tsn)
          have e : ({ Rack.ptoTlr s env with q := modify s.q c.tsn setRtx } : St) =
              { Rack.ptoTlr s env with q := (Rack.ptoTlr s env).q.map (fun c' => if c'.tsn == c.tsn then setRtx c' else c') } := by
            simp [modify]
          rw [e]; exact h1

/-- ✱ the RACK timer callback in a state that satisfies the invariant: it marks nothing and keeps the invariant -/
theorem Inv.onRackTimeout {s : St} (h : Inv s) (env : Env) :
    (onRackTimeout s env).2 = [] ∧ Inv (onRackTimeout s env).1 := by
  unfold Rack.onRackTimeout
  split
  · exact ⟨rfl, h⟩
  · next hd =>
    have hd' : s.deliveredTime ≠ 0 := by simpa [rackTimeout_noDelivered] using hd
    have hquiet : ∀ t ∈ s.list, ¬ Cand timeoutWalk s.reoWnd s.deliveredTime s.q t := by
      rcases h.2 with h0 | hq
      · exact absurd h0 hd'
      · intro t ht hc; exact hq t ht ((cand_iff timeoutWalk_std _ _ _ _).mp hc)
    have hw := walk_no_cand timeoutWalk s.reoWnd s.deliveredTime s.list s.q hquiet
    refine ⟨hw.1, ?_⟩
    have hsub := walk_list_sublist timeoutWalk s.reoWnd s.deliveredTime s.list s.q
    have e : afterWalk s env (walk timeoutWalk s.reoWnd s.deliveredTime s.list s.q) =
        { s with list := (walk timeoutWalk s.reoWnd s.deliveredTime s.list s.q).list } := by
      unfold afterWalk afterMarks
      rw [hw.1, hw.2]
      simp
    show Inv (afterWalk s env (walk timeoutWalk s.reoWnd s.deliveredTime s.list s.q))
    rw [e]
    refine ⟨⟨h.1.sorted.sublist hsub, fun t ht => h.1.listSub t (hsub.subset ht), h.1.sinceLe, h.1.delivLe, h.1.reoNonneg,
      h.1.floorNonneg, h.1.nowNonneg⟩, ?_⟩
    rcases h.2 with h0 | hq
    · exact Or.inl h0
    · exact Or.inr fun t ht => hq t (hsub.subset ht)

theorem Inv.timerFire {s : St} (h : Inv s) (env : Env) : Inv (timerFire s env).1 := by
  have hR : Inv (stopRackTimer s) := h.congr rfl rfl rfl rfl rfl rfl
  have hP : ∀ x : St, Inv x → Inv (stopPTOTimer x) := fun x hx => hx.congr rfl rfl rfl rfl rfl rfl
  unfold Rack.timerFire
  by_cases h1 : timerLoop_rackDue s.rackDeadline s.now = true <;> by_cases h2 : timerLoop_ptoDue s.ptoDeadline s.now = true <;>
    simp only [h1, h2, ↓reduceIte, Bool.false_eq_true]
  · exact ((hP _ hR).onRackTimeout env).2.onPTOTimer env
  · exact (hR.onRackTimeout env).2
  · exact (hP _ h).onPTOTimer env
  · exact h

/-! ## send and retransmission -/

theorem find_append_some {q l : List Chunk} {u : BitVec 32} {c : Chunk} (h : find q u = some c) : find (q ++ l) u = some c := by
  unfold find at *
  rw [List.find?_append, h]; rfl

theorem find_append_none {q : List Chunk} {u : BitVec 32} (n : Chunk) (h : find q u = none) :
    find (q ++ [n]) u = if n.tsn == u then some n else none := by
  unfold find at *
  rw [List.find?_append, h]
  simp [List.find?_cons]
  split <;> simp_all

theorem find_of_mem_tsn {q : List Chunk} {u : BitVec 32} (h : ∃ c ∈ q, c.tsn = u) : ∃ c, find q u = some c := by
  cases hf : find q u with
  | some c => exact ⟨c, rfl⟩
  | none =>
    obtain ⟨c, hc, hcu⟩ := h
    exact absurd hcu (find_none_iff.mp hf c hc)

/-- a chunk sent right now is not a candidate (the delivered time is never ahead of the clock, the window never negative) -/
theorem not_cand_now {s : St} (h : Inv0 s) (q : List Chunk) (t : BitVec 32) (hsince : ∀ c, find q t = some c → c.since = s.now) :
    ¬ CandX s.reoWnd s.deliveredTime q t := by
  rintro ⟨c, hc, _, _, _, _, h5⟩
  rw [hsince c hc] at h5
  have := h.delivLe; have := h.reoNonneg
  omega

/-- the list after `rackRemove t; rackInsert t` (or a first insert of a TSN not listed) -/
theorem list_remove_insert (s : St) (t : BitVec 32) : (rackInsert (rackRemove s t) t).list = s.list.filter (· != t) ++ [t] := by
  unfold rackInsert rackRemove
  have : ((s.list.filter (· != t)).contains t) = false := by
    simp [List.contains_eq_mem, List.mem_filter]
  simp

theorem filter_ne_sublist (l : List (BitVec 32)) (t : BitVec 32) : (l.filter (· != t)).Sublist l := List.filter_sublist

/-- the common part of `send` and `resend`: the store changed only at TSN `t`, whose chunks now carry `since = now`;
the list is the old one without `t`, then `t` (or not, when the chunk was abandoned on the spot) -/
theorem Inv.relist {s : St} (h : Inv s) (q' : List Chunk) (t : BitVec 32) (keep : Bool)
    (hsame : ∀ u, u ≠ t → u ∈ s.list → find q' u = find s.q u)
    (hnew : ∃ c, find q' t = some c) (hsince : ∀ c, find q' t = some c → c.since = s.now)
    (hle : ∀ c ∈ q', c.since ≤ s.now) (hmem : ∀ c ∈ s.q, ∃ c' ∈ q', c'.tsn = c.tsn) :
    Inv { s with q := q', list := if keep then s.list.filter (· != t) ++ [t] else s.list.filter (· != t) } := by
  have hsub := filter_ne_sublist s.list t
  have hmemf : ∀ u ∈ s.list.filter (· != t), u ≠ t ∧ u ∈ s.list := by
    intro u hu
    rw [List.mem_filter] at hu
    exact ⟨by simpa using hu.2, hu.1⟩
  have hsince_same : ∀ u ∈ s.list.filter (· != t), sinceOf q' u = sinceOf s.q u := by
    intro u hu
    unfold sinceOf
    rw [hsame u (hmemf u hu).1 (hmemf u hu).2]
  -- the filtered list, against the new store
  have hsorted1 : (s.list.filter (· != t)).Pairwise (fun a b => sinceOf q' a ≤ sinceOf q' b) := by
    have := h.1.sorted.sublist hsub
    refine this.imp_of_mem ?_
    intro a b ha hb hab
    rw [hsince_same a ha, hsince_same b hb]; exact hab
  have hsub1 : ∀ u ∈ s.list.filter (· != t), ∃ c ∈ q', c.tsn = u := by
    intro u hu
    obtain ⟨c, hc, hcu⟩ := h.1.listSub u (hmemf u hu).2
    obtain ⟨c', hc', hct⟩ := hmem c hc
    exact ⟨c', hc', by rw [hct, hcu]⟩
  have hquiet1 : s.deliveredTime = 0 ∨ ∀ u ∈ s.list.filter (· != t), ¬ CandX s.reoWnd s.deliveredTime q' u := by
    rcases h.2 with h0 | hq
    · exact Or.inl h0
    · right
      intro u hu hc
      apply hq u (hmemf u hu).2
      obtain ⟨c, hc, rest⟩ := hc
      rw [hsame u (hmemf u hu).1 (hmemf u hu).2] at hc
      exact ⟨c, hc, rest⟩
  have hsub_t : ∃ c ∈ q', c.tsn = t := by
    obtain ⟨c, hc⟩ := hnew
    exact ⟨c, find_some_mem hc, find_some_tsn hc⟩
  have hsince_t : sinceOf q' t = s.now := by
    obtain ⟨c, hc⟩ := hnew
    unfold sinceOf; rw [hc]; exact hsince c hc
  cases keep
  · refine ⟨⟨hsorted1, hsub1, hle, h.1.delivLe, h.1.reoNonneg, h.1.floorNonneg, h.1.nowNonneg⟩, hquiet1⟩
  · refine ⟨⟨?_, ?_, hle, h.1.delivLe, h.1.reoNonneg, h.1.floorNonneg, h.1.nowNonneg⟩, ?_⟩
    · show List.Pairwise _ (s.list.filter (· != t) ++ [t])
      rw [List.pairwise_append]
      refine ⟨hsorted1, List.pairwise_singleton _ _, ?_⟩
      intro a ha b hb
      simp only [List.mem_singleton] at hb
      subst hb
      rw [hsince_t, hsince_same a ha]
      obtain ⟨c, hc, hcu⟩ := h.1.listSub a (hmemf a ha).2
      obtain ⟨c0, hc0⟩ := find_of_mem_tsn ⟨c, hc, hcu⟩
      unfold sinceOf; rw [hc0]
      exact h.1.sinceLe c0 (find_some_mem hc0)
    · intro u hu
      show ∃ c ∈ q', c.tsn = u
      rcases List.mem_append.mp hu with hu | hu
      · exact hsub1 u hu
      · simp only [List.mem_singleton] at hu; subst hu; exact hsub_t
    · rcases hquiet1 with h0 | hq
      · exact Or.inl h0
      · right
        intro u hu
        show ¬ CandX s.reoWnd s.deliveredTime q' u
        rcases List.mem_append.mp hu with hu | hu
        · exact hq u hu
        · simp only [List.mem_singleton] at hu; subst hu
          exact not_cand_now h.1 q' u hsince

theorem filter_ne_of_not_mem (l : List (BitVec 32)) (t : BitVec 32) (h : t ∉ l) : l.filter (· != t) = l := by
  rw [List.filter_eq_self]
  intro a ha
  simp only [bne_iff_ne, ne_eq]
  intro hat; exact h (hat ▸ ha)

/-- a new chunk enters the in-flight queue; `hfresh`: its TSN names no chunk in flight (TSNs are handed out consecutively) -/
theorem Inv.send {s : St} (h : Inv s) (p : Bool) (hfresh : ∀ c ∈ s.q, c.tsn ≠ s.myNextTSN) : Inv (send s p) := by
  have hnl : s.myNextTSN ∉ s.list := by
    intro hm
    obtain ⟨c, hc, hct⟩ := h.1.listSub _ hm
    exact hfresh c hc hct
  have hnone : find s.q s.myNextTSN = none := find_none_iff.mpr hfresh
  let n : Chunk := { tsn := s.myNextTSN, since := s.now, nSent := 1 }
  have hI := h.relist (s.q ++ [n]) s.myNextTSN true
    (fun u _ hu => by
      obtain ⟨c, hc, hcu⟩ := h.1.listSub u hu
      obtain ⟨c0, hc0⟩ := find_of_mem_tsn ⟨c, hc, hcu⟩
      rw [hc0]; exact find_append_some hc0)
    ⟨n, by rw [find_append_none n hnone]; simp [n]⟩
    (fun c hc => by
      rw [find_append_none n hnone] at hc
      simp only [n, beq_self_eq_true, ↓reduceIte, Option.some.injEq] at hc
      rw [← hc])
    (fun c hc => by
      rcases List.mem_append.mp hc with hc | hc
      · exact h.1.sinceLe c hc
      · simp only [List.mem_singleton] at hc; subst hc; exact Int.le_refl _)
    (fun c hc => ⟨c, List.mem_append_left _ hc, rfl⟩)
  have hlist : (Rack.send s p).list = s.list.filter (· != s.myNextTSN) ++ [s.myNextTSN] := by
    unfold Rack.send
    cases p
    · simp only [Bool.false_eq_true, ↓reduceIte]
      unfold rackInsert pushChunk
      have : s.list.contains s.myNextTSN = false := by simpa using hnl
      simp only [this, Bool.false_eq_true, ↓reduceIte]
      rw [filter_ne_of_not_mem _ _ hnl]
    · simp only [↓reduceIte]
      have e : (rackInsert (pushChunk (rackRemove s s.myNextTSN)) s.myNextTSN).list =
          (rackInsert (rackRemove s s.myNextTSN) s.myNextTSN).list := by
        unfold rackInsert pushChunk; simp only []; split <;> rfl
      rw [e, list_remove_insert]
  have hq : (Rack.send s p).q = s.q ++ [n] := by
    unfold Rack.send
    cases p <;> simp [rackInsert_q, pushChunk, n]
  refine hI.congr ?_ ?_ ?_ ?_ ?_ ?_
  · rw [hlist]; rfl
  · rw [hq]
  · unfold Rack.send; cases p <;> simp [pushChunk]
  · unfold Rack.send; cases p <;> simp [pushChunk]
  · unfold Rack.send; cases p <;> simp [pushChunk]
  · unfold Rack.send; cases p <;> simp [pushChunk]

/-- a retransmission of a chunk that is in flight -/
theorem Inv.resend {s : St} (h : Inv s) (t : BitVec 32) (cf p : Bool) (hin : ∃ c ∈ s.q, c.tsn = t) : Inv (resend s t cf p) := by
  have hg : ∀ c, (retx s.now cf c).tsn = c.tsn := fun _ => rfl
  obtain ⟨c0, hc0⟩ := find_of_mem_tsn hin
  have hI := h.relist (modify s.q t (retx s.now cf)) t (!p)
    (fun u hu _ => by
      rw [find_modify _ _ _ _ hg]
      cases hf : find s.q u with
      | none => rfl
      | some c =>
        have : c.tsn ≠ t := by rw [find_some_tsn hf]; exact hu
        simp [this])
    ⟨retx s.now cf c0, by rw [find_modify _ _ _ _ hg, hc0]; simp [find_some_tsn hc0]⟩
    (fun c hc => by
      rw [find_modify _ _ _ _ hg, hc0] at hc
      simp only [Option.map_some, find_some_tsn hc0, beq_self_eq_true, ↓reduceIte, Option.some.injEq] at hc
      rw [← hc]; rfl)
    (fun c hc => by
      simp only [modify, List.mem_map] at hc
      obtain ⟨c1, hc1, rfl⟩ := hc
      split
      · exact Int.le_refl _
      · exact h.1.sinceLe c1 hc1)
    (fun c hc => ⟨_, List.mem_map_of_mem (f := fun c => if c.tsn == t then retx s.now cf c else c) hc, by split <;> rfl⟩)
  have hlist : (Rack.resend s t cf p).list = if (!p) = true then s.list.filter (· != t) ++ [t] else s.list.filter (· != t) := by
    unfold Rack.resend
    have e : (touch s t cf).list = s.list := rfl
    cases p
    · simp only [Bool.false_eq_true, ↓reduceIte, Bool.not_false, list_remove_insert, e]
    · simp only [↓reduceIte, Bool.not_true, Bool.false_eq_true]
      show ((rackInsert (rackRemove (touch s t cf) t) t).list.filter (· != t)) = _
      rw [list_remove_insert, e, List.filter_append, List.filter_filter]
      simp
  refine hI.congr ?_ ?_ ?_ ?_ ?_ ?_
  · rw [hlist]
  · unfold Rack.resend; cases p <;> simp [touch]
  · unfold Rack.resend; cases p <;> simp [touch]
  · unfold Rack.resend; cases p <;> simp [touch]
  · unfold Rack.resend; cases p <;> simp [touch]
  · unfold Rack.resend; cases p <;> simp [touch]

/-! ## the SACK -/

/-- what holds of the loop state `(q, s, a)` of `processSelectiveAck` (`s0` = the state the SACK started from) -/
structure AckInv (s0 : St) (q : List Chunk) (s : St) (a : AckAcc) : Prop where
  sorted : s.list.Pairwise (fun t u => sinceOf q t ≤ sinceOf q u)
  listSub : ∀ t ∈ s.list, ∃ c ∈ q, c.tsn = t
  sinceLe : ∀ c ∈ q, c.since ≤ s0.now
  newest : a.newestTime ≤ s0.now
  now : s.now = s0.now
  deliv : s.deliveredTime = s0.deliveredTime
  reo : s.reoWnd = s0.reoWnd
  cfg : s.cfg = s0.cfg

theorem ackOne_frame (gap : Bool) (s : St) (a : AckAcc) (c : Chunk) :
    (ackOne gap s a c).1.list = s.list ∧ (ackOne gap s a c).1.now = s.now ∧
    (ackOne gap s a c).1.deliveredTime = s.deliveredTime ∧ (ackOne gap s a c).1.reoWnd = s.reoWnd ∧
    (ackOne gap s a c).1.cfg = s.cfg ∧
    ((ackOne gap s a c).2.newestTime = a.newestTime ∨ (ackOne gap s a c).2.newestTime = c.since) := by
  unfold ackOne ackSample ackNewest
  dsimp only
  refine ⟨?_, ?_, ?_, ?_, ?_, ?_⟩ <;> (repeat' split) <;> simp

theorem AckInv.ackOne {s0 : St} {q : List Chunk} {s : St} {a : AckAcc} (h : AckInv s0 q s a) (gap : Bool) (c : Chunk)
    (hc : c ∈ q) : AckInv s0 q (ackOne gap s a c).1 (ackOne gap s a c).2 := by
  obtain ⟨e1, e2, e3, e4, e5, e6⟩ := ackOne_frame gap s a c
  refine ⟨by rw [e1]; exact h.sorted, by rw [e1]; exact h.listSub, h.sinceLe, ?_, by rw [e2]; exact h.now,
    by rw [e3]; exact h.deliv, by rw [e4]; exact h.reo, by rw [e5]; exact h.cfg⟩
  rcases e6 with e | e
  · rw [e]; exact h.newest
  · rw [e]; exact h.sinceLe c hc

theorem AckInv.remove {s0 : St} {q : List Chunk} {s : St} {a : AckAcc} (h : AckInv s0 q s a) (t : BitVec 32) :
    AckInv s0 q (rackRemove s t) a :=
  ⟨h.sorted.sublist (filter_ne_sublist _ _), fun u hu => h.listSub u ((filter_ne_sublist _ _).subset hu), h.sinceLe, h.newest,
   h.now, h.deliv, h.reo, h.cfg⟩

/-- dropping the front chunk of the store once its TSN has left the list -/
theorem AckInv.pop {s0 : St} {c : Chunk} {q : List Chunk} {s : St} {a : AckAcc} (h : AckInv s0 (c :: q) s a)
    (hnot : c.tsn ∉ s.list) : AckInv s0 q s a := by
  have hfind : ∀ u ∈ s.list, find (c :: q) u = find q u := by
    intro u hu
    rw [find_cons]
    have : c.tsn ≠ u := fun e => hnot (e ▸ hu)
    simp [this]
  refine ⟨?_, ?_, fun x hx => h.sinceLe x (List.mem_cons_of_mem _ hx), h.newest, h.now, h.deliv, h.reo, h.cfg⟩
  · refine h.sorted.imp_of_mem ?_
    intro a b ha hb hab
    unfold sinceOf at hab ⊢
    rw [hfind a ha, hfind b hb] at hab; exact hab
  · intro u hu
    obtain ⟨x, hx, hxu⟩ := h.listSub u hu
    rcases List.mem_cons.mp hx with rfl | hx
    · exact absurd (hxu ▸ hu) hnot
    · exact ⟨x, hx, hxu⟩

theorem not_mem_rackRemove (s : St) (t : BitVec 32) : t ∉ (rackRemove s t).list := by
  simp [rackRemove, List.mem_filter]

theorem popCum_inv (s0 : St) : ∀ (q : List Chunk) (idx cum : BitVec 32) (s : St) (a : AckAcc),
    AckInv s0 q s a → ∀ r, popCum q idx cum s a = some r → AckInv s0 r.1 r.2.1 r.2.2 := by
  intro q
  induction q with
  | nil =>
    intro idx cum s a h r hr
    simp only [popCum] at hr
    split at hr
    · cases hr
    · cases hr; exact h
  | cons c q ih =>
    intro idx cum s a h r hr
    simp only [popCum] at hr
    split at hr
    · split at hr
      · have h1 := h.remove c.tsn
        have hnot := not_mem_rackRemove s c.tsn
        by_cases ha : c.acked = true
        · simp only [ha, Bool.not_true, Bool.false_eq_true, ↓reduceIte] at hr
          exact ih _ _ _ _ (h1.pop hnot) r hr
        · simp only [ha, Bool.not_false, ↓reduceIte] at hr
          have h2 := h1.ackOne false c List.mem_cons_self
          have hnot2 : c.tsn ∉ (ackOne false (rackRemove s c.tsn) a c).1.list := by
            rw [(ackOne_frame false _ a c).1]; exact hnot
          exact ih _ _ _ _ (h2.pop hnot2) r hr
      · cases hr
    · cases hr; exact h

theorem get_mem {q : List Chunk} {t : BitVec 32} {c : Chunk} (h : get q t = some c) : c ∈ q := by
  unfold get at h
  cases q with
  | nil => cases h
  | cons f r =>
    simp only at h
    split at h
    · cases h
    · exact List.mem_of_getElem? h

theorem flagOnly_ackAt (t : BitVec 32) :
    FlagOnly (fun c => if c.tsn == t then { c with acked := true, retransmit := false } else c) := by
  constructor <;> intro c <;> (try intro h) <;> split <;> simp_all

theorem AckInv.mapq {s0 : St} {q : List Chunk} {s : St} {a : AckAcc} (h : AckInv s0 q s a) {g : Chunk → Chunk} (hg : FlagOnly g) :
    AckInv s0 (q.map g) s a := by
  refine ⟨?_, ?_, ?_, h.newest, h.now, h.deliv, h.reo, h.cfg⟩
  · apply h.sorted.imp
    intro x y hxy
    rw [sinceOf_map hg, sinceOf_map hg]; exact hxy
  · intro t ht
    obtain ⟨c, hc, hct⟩ := h.listSub t ht
    exact ⟨g c, List.mem_map_of_mem hc, by rw [hg.tsn]; exact hct⟩
  · intro c hc
    obtain ⟨c0, hc0, rfl⟩ := List.mem_map.mp hc
    rw [hg.since]; exact h.sinceLe c0 hc0

theorem gapOne_inv (s0 : St) (q : List Chunk) (s : St) (a : AckAcc) (t : BitVec 32) (h : AckInv s0 q s a) :
    ∀ r, gapOne q s a t = some r → AckInv s0 r.1 r.2.1 r.2.2 := by
  intro r hr
  unfold gapOne at hr
  cases hg : get q t with
  | none => rw [hg] at hr; cases hr
  | some c =>
    rw [hg] at hr
    simp only at hr
    have hc := get_mem hg
    split at hr
    · cases hr
      exact ((h.remove c.tsn).ackOne true c hc).mapq (flagOnly_ackAt c.tsn)
    · cases hr
      exact h.remove c.tsn

theorem gapAll_inv (s0 : St) : ∀ (ts : List (BitVec 32)) (q : List Chunk) (s : St) (a : AckAcc),
    AckInv s0 q s a → ∀ r, gapAll ts q s a = some r → AckInv s0 r.1 r.2.1 r.2.2 := by
  intro ts
  induction ts with
  | nil => intro q s a h r hr; simp only [gapAll] at hr; cases hr; exact h
  | cons t ts ih =>
    intro q s a h r hr
    simp only [gapAll] at hr
    cases hg : gapOne q s a t with
    | none => rw [hg] at hr; cases hr
    | some r1 =>
      rw [hg] at hr
      exact ih _ _ _ (gapOne_inv s0 q s a t h r1 hg) r hr

/-- after `processSelectiveAck` and the cumulative-point update: everything of the invariant but `Quiet`, and the
newest delivered send time is not ahead of the clock -/
theorem ackPhase_inv {s : St} (h : Inv0 s) (cum : BitVec 32) (gaps : List (BitVec 32)) (r : St × AckAcc × Bool)
    (hr : ackPhase s cum gaps = some r) : Inv0 r.1 ∧ r.2.1.newestTime ≤ r.1.now ∧ r.1.now = s.now ∧ r.1.cfg = s.cfg := by
  unfold ackPhase at hr
  have h0 : AckInv s s.q s {} := ⟨h.sorted, h.listSub, h.sinceLe, h.nowNonneg, rfl, rfl, rfl, rfl⟩
  cases hp : popCum s.q (s.cumAck + 1) cum s {} with
  | none => rw [hp] at hr; cases hr
  | some r1 =>
    rw [hp] at hr
    simp only at hr
    have h1 := popCum_inv s _ _ _ _ _ h0 r1 hp
    cases hg : gapAll gaps r1.1 r1.2.1 r1.2.2 with
    | none => rw [hg] at hr; cases hr
    | some r2 =>
      rw [hg] at hr
      simp only [Option.some.injEq] at hr
      have h2 := gapAll_inv s _ _ _ _ h1 r2 hg
      subst hr
      have core : ∀ x : St, x.list = r2.2.1.list → x.q = r2.1 → x.now = r2.2.1.now → x.deliveredTime = r2.2.1.deliveredTime →
          x.reoWnd = r2.2.1.reoWnd → x.cfg = r2.2.1.cfg → Inv0 x ∧ r2.2.2.newestTime ≤ x.now ∧ x.now = s.now ∧ x.cfg = s.cfg := by
        intro x e1 e2 e3 e4 e5 e6
        refine ⟨⟨by rw [e1, e2]; exact h2.sorted, by rw [e1, e2]; exact h2.listSub, by rw [e2, e3, h2.now]; exact h2.sinceLe,
          by rw [e4, e3, h2.deliv, h2.now]; exact h.delivLe, by rw [e5, h2.reo]; exact h.reoNonneg,
          by rw [e6, h2.cfg]; exact h.floorNonneg, by rw [e3, h2.now]; exact h.nowNonneg⟩,
          by rw [e3, h2.now]; exact h2.newest, by rw [e3, h2.now], by rw [e6, h2.cfg]⟩
      unfold ackFinish
      split
      · split
        · exact core _ rfl rfl rfl rfl rfl rfl
        · exact core _ rfl rfl rfl rfl rfl rfl
      · exact core _ rfl rfl rfl rfl rfl rfl

theorem iter_tlr_frame (env : Env) : ∀ (n : Nat) (s : St),
    let r := iter (fun s => if s.tlrActive then tlrApplyAdditionalLoss s env s.now else s) n s
    r.list = s.list ∧ r.q = s.q ∧ r.now = s.now ∧ r.deliveredTime = s.deliveredTime ∧ r.reoWnd = s.reoWnd ∧ r.cfg = s.cfg := by
  intro n
  induction n with
  | zero => intro s; exact ⟨rfl, rfl, rfl, rfl, rfl, rfl⟩
  | succ n ih =>
    intro s
    simp only [iter]
    have h := ih (if s.tlrActive then tlrApplyAdditionalLoss s env s.now else s)
    obtain ⟨h1, h2, h3, h4, h5, h6⟩ := h
    refine ⟨?_, ?_, ?_, ?_, ?_, ?_⟩
    · rw [h1]; split <;> simp
    · rw [h2]; split <;> simp
    · rw [h3]; split <;> simp
    · rw [h4]; split <;> simp
    · rw [h5]; split <;> simp
    · rw [h6]; split <;> simp

/-- the marking step of `onRackAfterSACK` establishes `Quiet` from the send-time order -/
theorem Inv0.rackMark {s : St} (h : Inv0 s) (env : Env) : Inv (rackMark s env).1 := by
  unfold Rack.rackMark
  split
  · next hd =>
    have hd' : s.deliveredTime ≠ 0 := by simpa [rack_haveDelivered] using hd
    let r := walk sackWalk s.reoWnd s.deliveredTime s.list s.q
    have hsub : r.list.Sublist s.list := walk_list_sublist _ _ _ _ _
    have hfields := walk_q_fields sackWalk s.reoWnd s.deliveredTime s.list s.q
    show Inv (afterWalk s env r)
    refine ⟨⟨?_, ?_, ?_, ?_, ?_, ?_, ?_⟩, ?_⟩
    · simp only [afterWalk_list, afterWalk_q]
      refine (h.sorted.sublist hsub).imp ?_
      intro a b hab
      rw [sinceOf_walk, sinceOf_walk]; exact hab
    · simp only [afterWalk_list, afterWalk_q]
      intro t ht
      obtain ⟨c, hc, hct⟩ := h.listSub t (hsub.subset ht)
      have : (c.tsn, c.since, c.nSent, c.acked, c.abandoned) ∈ r.q.map (fun c => (c.tsn, c.since, c.nSent, c.acked, c.abandoned)) := by
        rw [hfields]; exact List.mem_map_of_mem hc
      obtain ⟨c', hc', he⟩ := List.mem_map.mp this
      exact ⟨c', hc', by simp only [Prod.mk.injEq] at he; rw [he.1, hct]⟩
    · simp only [afterWalk_q, afterWalk_now]
      intro c' hc'
      have : (c'.tsn, c'.since, c'.nSent, c'.acked, c'.abandoned) ∈ s.q.map (fun c => (c.tsn, c.since, c.nSent, c.acked, c.abandoned)) := by
        rw [← hfields]; exact List.mem_map_of_mem hc'
      obtain ⟨c, hc, he⟩ := List.mem_map.mp this
      simp only [Prod.mk.injEq] at he
      rw [← he.2.1]; exact h.sinceLe c hc
    · simp only [afterWalk_deliveredTime, afterWalk_now]; exact h.delivLe
    · simp only [afterWalk_reoWnd]; exact h.reoNonneg
    · simp only [afterWalk_cfg]; exact h.floorNonneg
    · simp only [afterWalk_now]; exact h.nowNonneg
    · right
      simp only [afterWalk_list, afterWalk_q, afterWalk_reoWnd, afterWalk_deliveredTime]
      intro t ht hc
      exact walk_quiet sackWalk sackWalk_std s.reoWnd s.deliveredTime s.list s.q h.sorted t ht
        ((cand_iff sackWalk_std _ _ _ _).mpr hc)
  · next hd =>
    have hd' : s.deliveredTime = 0 := by simpa [rack_haveDelivered] using hd
    exact ⟨h, Or.inl hd'⟩

/-- `onRackAfterSACK` from a state with `Inv0`, a newest-delivered time not ahead of the clock and a sane SRTT reading -/
theorem Inv0.onRackAfterSACK {s : St} (h : Inv0 s) (env : Env) (he : EnvOK env) (found : Bool) (nt : Int) (ntsn : BitVec 32)
    (nd : Int) (hnt : nt ≤ s.now) : Inv (onRackAfterSACK s env found nt ntsn nd).1 := by
  rw [onRackAfterSACK_eq]
  have hb : Inv0 (beforeMark s env found nt ntsn nd) := by
    unfold beforeMark
    have hdt : (rackDelivered s found nt ntsn).deliveredTime ≤ s.now := by
      unfold rackDelivered rackNewer
      have := h.delivLe
      have ehw : (rackHw s ntsn).deliveredTime = s.deliveredTime := by unfold rackHw; split <;> rfl
      cases found
      · simpa using this
      · simp only [↓reduceIte]
        split
        · exact hnt
        · rw [ehw]; exact this
    have hbounds := rackReoWnd_bounds (rackDelivered s found nt ntsn) env nd he (by simpa using h.floorNonneg) (by simpa using h.reoNonneg)
    refine ⟨?_, ?_, ?_, ?_, hbounds.1, ?_, ?_⟩
    · simpa using h.sorted
    · simpa using h.listSub
    · simpa using h.sinceLe
    · simpa using hdt
    · simpa using h.floorNonneg
    · simpa using h.nowNonneg
  have hm := hb.rackMark env
  exact hm.congr (by simp) (by simp) (by simp) (by simp) (by simp) (by simp)

/-- ✱ a SACK keeps the invariant (it does not even need `Quiet` beforehand: the marking loop re-establishes it) -/
theorem Inv0.sack {s : St} (h : Inv0 s) (env : Env) (he : EnvOK env) (cum : BitVec 32) (gaps : List (BitVec 32)) (nd : Int) (nm : Nat)
    (r : St × List (BitVec 32)) (hr : sack s env cum gaps nd nm = some r) : Inv r.1 := by
  unfold Rack.sack at hr
  cases hp : ackPhase s cum gaps with
  | none => rw [hp] at hr; cases hr
  | some p =>
    rw [hp] at hr
    simp only [Option.some.injEq] at hr
    subst hr
    obtain ⟨h1, h2, _, _⟩ := ackPhase_inv h cum gaps p hp
    unfold afterAck
    dsimp only
    obtain ⟨f1, f2, f3, f4, f5, f6⟩ := iter_tlr_frame env nm p.1
    have h3 : Inv0 (iter (fun s => if s.tlrActive then tlrApplyAdditionalLoss s env s.now else s) nm p.1) := h1.congr f1 f2 f3 f4 f5 f6
    have h4 := h3.onRackAfterSACK env he p.2.1.found p.2.1.newestTime p.2.1.newestTSN nd (by rw [f3]; exact h2)
    exact h4.congr (by simp) (by simp) (by simp) (by simp) (by simp) (by simp)

/-! ## all operations, all runs -/

/-- what the environment guarantees about an operation -/
def OpOK (s : St) : Op → Prop
  | .send _ => ∀ c ∈ s.q, c.tsn ≠ s.myNextTSN            -- TSNs are handed out consecutively: the next one is not in flight
  | .resend t _ _ => ∃ c ∈ s.q, c.tsn = t                 -- only chunks in flight are retransmitted
  | .sack env _ _ _ _ => EnvOK env                         -- a valid SRTT reading is not negative
  | _ => True

theorem Inv.step {s : St} (h : Inv s) (op : Op) (hok : OpOK s op) : Inv (step s op) := by
  cases op with
  | advance d => exact h.advance d
  | send p => exact h.send p hok
  | resend t c p => exact h.resend t c p hok
  | abandon ts => exact h.abandon ts
  | ptoAfterSend env => exact h.ptoAfterSend env
  | budget env => exact h.budget env
  | sack env cum gaps nd nm =>
    simp only [Rack.step]
    cases hs : Rack.sack s env cum gaps nd nm with
    | none => exact h
    | some r => exact h.1.sack env hok cum gaps nd nm r hs
  | t3 => exact h.t3
  | timerFire env => exact h.timerFire env
  | rackTimeout env => exact (h.onRackTimeout env).2
  | ptoTimeout env => exact h.onPTOTimer env

/-- every operation of the list is admissible in the state it is applied to -/
def RunOK : St → List Op → Prop
  | _, [] => True
  | s, op :: ops => OpOK s op ∧ RunOK (Rack.step s op) ops

theorem Inv.run {s : St} (h : Inv s) : ∀ (ops : List Op), RunOK s ops → Inv (run s ops) := by
  intro ops
  induction ops generalizing s with
  | nil => intro _; exact h
  | cons op ops ih => intro hok; exact ih (h.step op hok.1) hok.2

theorem Inv.init (cfg : Cfg) (tsn : BitVec 32) (now : Int) (hn : 0 ≤ now) (hf : 0 ≤ cfg.reoWndFloor) : Inv (init cfg tsn now) := by
  refine ⟨⟨List.Pairwise.nil, ?_, ?_, hn, Int.le_refl 0, hf, hn⟩, Or.inl rfl⟩
  · intro t ht; cases ht
  · intro c hc; cases hc

end Rack
