import SctpVerif.Proofs.Rack.Marks
/-!
The TLR burst units stay within the bounds the code intends, through every operation.
-/
namespace Rack
open Gen

/-- first-RTT burst within [min, default] = [8, 16] quarter-MTUs, later-RTT burst within [5, 8] -/
def UnitsOK (s : St) : Prop :=
  tlrLoss_firstMin ≤ s.tlrBurstFirst ∧ s.tlrBurstFirst ≤ tlrFinish_firstDefault ∧
  tlrLoss_laterMin ≤ s.tlrBurstLater ∧ s.tlrBurstLater ≤ tlrFinish_laterDefault

theorem UnitsOK.congr {s s' : St} (h : UnitsOK s) (h1 : s'.tlrBurstFirst = s.tlrBurstFirst) (h2 : s'.tlrBurstLater = s.tlrBurstLater) :
    UnitsOK s' := by
  unfold UnitsOK at *; rw [h1, h2]; exact h

theorem UnitsOK.tlrApply {s : St} (h : UnitsOK s) (env : Env) (t : Int) : UnitsOK (tlrApplyAdditionalLoss s env t) := by
  unfold UnitsOK at *
  unfold tlrApplyAdditionalLoss tlrLoss_firstStepped tlrLoss_firstBelowMin tlrLoss_laterStepped tlrLoss_laterBelowMin
  simp only [tlrLoss_firstMin, tlrFinish_firstDefault, tlrLoss_laterMin, tlrFinish_laterDefault] at *
  split
  · exact h
  · simp only [tlrUpdatePhase_tlrBurstFirst, tlrUpdatePhase_tlrBurstLater]
    split <;> (split <;> simp_all <;> omega)

theorem UnitsOK.tlrMaybeFinish {s : St} (h : UnitsOK s) (p : Bool) : UnitsOK (tlrMaybeFinish s p) := by
  unfold UnitsOK at *
  unfold Rack.tlrMaybeFinish tlrEnd tlrScore tlrLeaveFirst
  simp only [tlrLoss_firstMin, tlrFinish_firstDefault, tlrLoss_laterMin, tlrFinish_laterDefault] at *
  (repeat' split) <;> simp_all

theorem UnitsOK.afterMarks {s : St} (h : UnitsOK s) (env : Env) (m : Bool) : UnitsOK (afterMarks s env m) := by
  unfold Rack.afterMarks; split
  · exact h.tlrApply env _
  · exact h

theorem UnitsOK.afterWalk {s : St} (h : UnitsOK s) (env : Env) (r : WalkOut) : UnitsOK (afterWalk s env r) := by
  unfold Rack.afterWalk
  have h' : UnitsOK { s with list := r.list, q := r.q } := h
  exact h'.afterMarks env _

theorem UnitsOK.ptoTlr {s : St} (h : UnitsOK s) (env : Env) : UnitsOK (ptoTlr s env) := by
  unfold Rack.ptoTlr; split
  · exact h.congr (by simp) (by simp)
  · exact h.tlrApply env _

theorem UnitsOK.onPTOTimer {s : St} (h : UnitsOK s) (env : Env) : UnitsOK (onPTOTimer s env).1 := by
  by_cases hq : s.q = []
  · have : (Rack.onPTOTimer s env).1 = { stopPTOTimer s with hbProbes := s.hbProbes + 1 } := by
      simp [Rack.onPTOTimer, pto_idle, hq]
    rw [this]; exact h
  · rw [onPTOTimer_eq s env hq]
    (repeat' split) <;> first | exact h.ptoTlr env | exact (h.ptoTlr env).congr rfl rfl

theorem UnitsOK.onRackTimeout {s : St} (h : UnitsOK s) (env : Env) : UnitsOK (onRackTimeout s env).1 := by
  unfold Rack.onRackTimeout; split
  · exact h
  · exact h.afterWalk env _

theorem UnitsOK.rackMark {s : St} (h : UnitsOK s) (env : Env) : UnitsOK (rackMark s env).1 := by
  unfold Rack.rackMark; split
  · exact h.afterWalk env _
  · exact h

theorem UnitsOK.onRackAfterSACK {s : St} (h : UnitsOK s) (env : Env) (f : Bool) (nt : Int) (ntsn : BitVec 32) (nd : Int) :
    UnitsOK (onRackAfterSACK s env f nt ntsn nd).1 := by
  rw [onRackAfterSACK_eq]
  have h1 : UnitsOK (beforeMark s env f nt ntsn nd) := h.congr (by simp [beforeMark]) (by simp [beforeMark])
  exact (h1.rackMark env).congr (by simp) (by simp)

/-- a projection of the state that the list bookkeeping and the RTT sampling leave alone -/
structure AckFrame {α : Type} (π : St → α) : Prop where
  remove : ∀ s t, π (rackRemove s t) = π s
  sample : ∀ gap s a c, π (ackOne gap s a c).1 = π s

theorem popCum_frame {α : Type} {π : St → α} (hπ : AckFrame π) : ∀ (q : List Chunk) (idx cum : BitVec 32) (s : St) (a : AckAcc) r,
    popCum q idx cum s a = some r → π r.2.1 = π s := by
  intro q
  induction q with
  | nil => intro idx cum s a r hr; simp only [popCum] at hr; split at hr <;> cases hr; rfl
  | cons c q ih =>
    intro idx cum s a r hr
    simp only [popCum] at hr
    split at hr
    · split at hr
      · by_cases ha : c.acked = true
        · simp only [ha, Bool.not_true, Bool.false_eq_true, ↓reduceIte] at hr
          rw [ih _ _ _ _ r hr, hπ.remove]
        · simp only [ha, Bool.not_false, ↓reduceIte] at hr
          rw [ih _ _ _ _ r hr, hπ.sample, hπ.remove]
      · cases hr
    · cases hr; rfl

theorem gapAll_frame {α : Type} {π : St → α} (hπ : AckFrame π) : ∀ (ts : List (BitVec 32)) (q : List Chunk) (s : St) (a : AckAcc) r,
    gapAll ts q s a = some r → π r.2.1 = π s := by
  intro ts
  induction ts with
  | nil => intro q s a r hr; simp only [gapAll] at hr; cases hr; rfl
  | cons t ts ih =>
    intro q s a r hr
    simp only [gapAll] at hr
    cases hg : gapOne q s a t with
    | none => rw [hg] at hr; cases hr
    | some r1 =>
      rw [hg] at hr
      rw [ih _ _ _ r hr]
      unfold gapOne at hg
      split at hg
      · cases hg
      · split at hg
        · cases hg; rw [hπ.sample, hπ.remove]
        · cases hg; exact hπ.remove _ _

theorem ackFrame_units : AckFrame (fun s => (s.tlrBurstFirst, s.tlrBurstLater)) := by
  constructor
  · intro s t; rfl
  · intro gap s a c
    unfold ackOne ackSample
    dsimp only
    split <;> (split <;> rfl)

theorem ackPhase_units (s : St) (cum : BitVec 32) (gaps : List (BitVec 32)) (r : St × AckAcc × Bool)
    (hr : ackPhase s cum gaps = some r) : r.1.tlrBurstFirst = s.tlrBurstFirst ∧ r.1.tlrBurstLater = s.tlrBurstLater := by
  unfold ackPhase at hr
  cases hp : popCum s.q (s.cumAck + 1) cum s {} with
  | none => rw [hp] at hr; cases hr
  | some r1 =>
    rw [hp] at hr
    simp only at hr
    have h1 := popCum_frame ackFrame_units _ _ _ _ _ r1 hp
    cases hg : gapAll gaps r1.1 r1.2.1 r1.2.2 with
    | none => rw [hg] at hr; cases hr
    | some r2 =>
      rw [hg] at hr
      simp only [Option.some.injEq] at hr
      have h2 := gapAll_frame ackFrame_units _ _ _ _ r2 hg
      subst hr
      have e : ∀ x : St, (x.tlrBurstFirst, x.tlrBurstLater) = (r2.2.1.tlrBurstFirst, r2.2.1.tlrBurstLater) →
          x.tlrBurstFirst = s.tlrBurstFirst ∧ x.tlrBurstLater = s.tlrBurstLater := by
        intro x hx
        have := hx.trans (h2.trans h1)
        simp only [Prod.mk.injEq] at this
        exact this
      unfold ackFinish
      split
      · split <;> exact e _ rfl
      · exact e _ rfl

theorem UnitsOK.iter {env : Env} : ∀ (n : Nat) {s : St}, UnitsOK s →
    UnitsOK (iter (fun s => if s.tlrActive then tlrApplyAdditionalLoss s env s.now else s) n s) := by
  intro n
  induction n with
  | zero => intro s h; exact h
  | succ n ih =>
    intro s h
    simp only [Rack.iter]
    apply ih
    split
    · exact h.tlrApply env _
    · exact h

theorem UnitsOK.sack {s : St} (h : UnitsOK s) (env : Env) (cum : BitVec 32) (gaps : List (BitVec 32)) (nd : Int) (nm : Nat)
    (r : St × List (BitVec 32)) (hr : sack s env cum gaps nd nm = some r) : UnitsOK r.1 := by
  unfold Rack.sack at hr
  cases hp : ackPhase s cum gaps with
  | none => rw [hp] at hr; cases hr
  | some p =>
    rw [hp] at hr
    simp only [Option.some.injEq] at hr
    subst hr
    obtain ⟨e1, e2⟩ := ackPhase_units s cum gaps p hp
    unfold afterAck
    dsimp only
    exact ((UnitsOK.iter nm (h.congr e1 e2)).onRackAfterSACK env _ _ _ _).tlrMaybeFinish _

theorem UnitsOK.timerFire {s : St} (h : UnitsOK s) (env : Env) : UnitsOK (timerFire s env).1 := by
  unfold Rack.timerFire
  by_cases h1 : timerLoop_rackDue s.rackDeadline s.now = true <;> by_cases h2 : timerLoop_ptoDue s.ptoDeadline s.now = true <;>
    simp only [h1, h2, ↓reduceIte, Bool.false_eq_true]
  · exact (UnitsOK.onRackTimeout (s := stopPTOTimer (stopRackTimer s)) h env).onPTOTimer env
  · exact UnitsOK.onRackTimeout (s := stopRackTimer s) h env
  · exact UnitsOK.onPTOTimer (s := stopPTOTimer s) h env
  · exact h

theorem UnitsOK.step {s : St} (h : UnitsOK s) (op : Op) : UnitsOK (step s op) := by
  cases op with
  | advance d => exact h
  | send p => exact h.congr (by simp only [Rack.step]; unfold Rack.send; cases p <;> simp [pushChunk]) (by simp only [Rack.step]; unfold Rack.send; cases p <;> simp [pushChunk])
  | resend t c p => exact h.congr (by simp only [Rack.step]; unfold Rack.resend; cases p <;> simp [touch]) (by simp only [Rack.step]; unfold Rack.resend; cases p <;> simp [touch])
  | abandon ts => exact h
  | ptoAfterSend env => exact h.congr (by simp [Rack.step]) (by simp [Rack.step])
  | budget env => exact h.congr (by simp [Rack.step]) (by simp [Rack.step])
  | sack env cum gaps nd nm =>
    simp only [Rack.step]
    cases hs : Rack.sack s env cum gaps nd nm with
    | none => exact h
    | some r => exact h.sack env cum gaps nd nm r hs
  | t3 => exact h
  | timerFire env => exact h.timerFire env
  | rackTimeout env => exact h.onRackTimeout env
  | ptoTimeout env => exact h.onPTOTimer env

theorem UnitsOK.run : ∀ (ops : List Op) {s : St}, UnitsOK s → UnitsOK (run s ops) := by
  intro ops
  induction ops with
  | nil => intro s h; exact h
  | cons op ops ih => intro s h; exact ih (h.step op)

theorem UnitsOK.init (cfg : Cfg) (tsn : BitVec 32) (now : Int) : UnitsOK (init cfg tsn now) := by
  show tlrLoss_firstMin ≤ init_tlrFirst ∧ init_tlrFirst ≤ tlrFinish_firstDefault ∧ tlrLoss_laterMin ≤ init_tlrLater ∧ init_tlrLater ≤ tlrFinish_laterDefault
  decide

end Rack
