import SctpVerif.Model.Rack
import SctpVerif.Model.Sender
/-!
Lemmas about the TLR burst budget: `tlrAllowSendLocked` as a machine over one gather's requests, the burst units,
the end of an episode.
-/
namespace Rack
open Gen

/-- `tlrAllowSendLocked`, spelled out (the proof unfolds the generated sites: a changed operator shows here) -/
theorem tlrAllow_eq (active : Bool) (b : Int × Bool) (est : Int) :
    tlrAllow active b est =
      if !active then (true, b)
      else if est ≤ 0 then (true, b)
      else if b.2 && decide (b.1 < est * 4) then (false, b)
      else (true, (if b.1 - est * 4 < 0 then 0 else b.1 - est * 4, true)) := by
  unfold tlrAllow tlrAllow_inactive tlrAllow_free tlrAllow_need tlrAllow_refuses tlrAllow_spent tlrAllow_clamps
  cases active
  · simp
  · by_cases h1 : est ≤ 0
    · simp [h1]
    · by_cases h2 : b.1 < est * 4 <;> by_cases h3 : b.1 - est * 4 < 0 <;> cases hb : b.2 <;> simp [h1, h2, h3]

/-- the model of C10 (`Sender.tlrAllow`, state `(active, budget, consumed)`) is this function -/
theorem tlrAllow_sender (active : Bool) (bud : Int) (con : Bool) (est : Int) :
    Sender.tlrAllow (active, bud, con) est =
      ((tlrAllow active (bud, con) est).1, (active, (tlrAllow active (bud, con) est).2.1, (tlrAllow active (bud, con) est).2.2)) := by
  rw [tlrAllow_eq]
  simp only [Sender.tlrAllow, tlrUnitsPerMTU]
  cases active
  · simp
  · by_cases h1 : est ≤ 0
    · simp [h1]
    · by_cases h2 : bud < est * 4 <;> cases con <;> simp [h1, h2] <;>
        (by_cases h3 : bud - est * 4 < 0 <;> simp [h3])

/-- bytes (estimates) of the requests one gather got admitted: those with a positive estimate answered `true` -/
def admitted (active : Bool) : Int × Bool → List Int → List Int
  | _, [] => []
  | b, e :: es =>
    let r := tlrAllow active b e
    if r.1 && decide (0 < e) then e :: admitted active r.2 es else admitted active r.2 es

/-- the same list read off the answers of `tlrAllowRun` -/
theorem admitted_eq_run (active : Bool) : ∀ (b : Int × Bool) (es : List Int),
    admitted active b es = ((es.zip (tlrAllowRun active b es).1).filter (fun p => p.2 && decide (0 < p.1))).map (·.1) := by
  intro b es
  induction es generalizing b with
  | nil => simp [admitted, tlrAllowRun]
  | cons e es ih =>
    simp only [admitted, tlrAllowRun, List.zip_cons_cons, List.filter_cons]
    split
    · rw [List.map_cons, ih]
    · exact ih _

/-- once something was sent in this gather, everything admitted afterwards fits the remaining budget -/
theorem admitted_consumed (es : List Int) : ∀ (bud : Int), 0 ≤ bud →
    4 * (admitted true (bud, true) es).sum ≤ bud := by
  induction es with
  | nil => intro bud h; simp [admitted]; omega
  | cons e es ih =>
    intro bud h
    simp only [admitted, tlrAllow_eq]
    by_cases h1 : e ≤ 0
    · have : ¬ (0 < e) := by omega
      simp only [Bool.not_true, Bool.false_eq_true, ↓reduceIte, h1, this, decide_false, Bool.and_false]
      exact ih bud h
    · simp only [Bool.not_true, Bool.false_eq_true, ↓reduceIte, h1, Bool.true_and, decide_eq_true_eq]
      by_cases h2 : bud < e * 4
      · simp only [h2, ↓reduceIte, Bool.false_and, Bool.false_eq_true]
        exact ih bud h
      · have h3 : ¬ (bud - e * 4 < 0) := by omega
        have h4 : 0 < e := by omega
        simp only [h2, ↓reduceIte, h3, h4, decide_true, Bool.and_self, List.sum_cons]
        have := ih (bud - e * 4) (by omega)
        omega

/-- one gather under an active TLR episode: the admitted estimates add up to at most the burst budget, or to the first
admitted request alone when that one exceeds the budget (`consumed` lets the first send of a burst through) -/
theorem admitted_fresh (es : List Int) : ∀ (bud : Int), 0 ≤ bud →
    4 * (admitted true (bud, false) es).sum ≤ max bud (4 * (admitted true (bud, false) es).headD 0) := by
  induction es with
  | nil => intro bud h; simp [admitted]; omega
  | cons e es ih =>
    intro bud h
    simp only [admitted, tlrAllow_eq]
    by_cases h1 : e ≤ 0
    · have : ¬ (0 < e) := by omega
      simp only [Bool.not_true, Bool.false_eq_true, ↓reduceIte, h1, this, decide_false, Bool.and_false]
      exact ih bud h
    · have h4 : 0 < e := by omega
      simp only [Bool.not_true, Bool.false_eq_true, ↓reduceIte, h1, Bool.false_and, h4, decide_true, Bool.and_self,
        List.sum_cons, List.headD_cons]
      by_cases h3 : bud - e * 4 < 0
      · simp only [h3, ↓reduceIte]
        have := admitted_consumed es 0 (by omega)
        omega
      · simp only [h3, ↓reduceIte]
        have := admitted_consumed es (bud - e * 4) (by omega)
        omega

/-- a request that is not positive, and every request outside an episode, is admitted and costs nothing -/
theorem tlrAllow_free_cases (active : Bool) (b : Int × Bool) (est : Int) (h : active = false ∨ est ≤ 0) :
    tlrAllow active b est = (true, b) := by
  rw [tlrAllow_eq]
  rcases h with h | h
  · simp [h]
  · cases active <;> simp [h]

/-- the first request of a gather is never refused -/
theorem tlrAllow_first (active : Bool) (bud : Int) (est : Int) : (tlrAllow active (bud, false) est).1 = true := by
  rw [tlrAllow_eq]
  cases active <;> simp
  split <;> simp

end Rack
