import SctpVerif.Proofs.Rack.Marks
import SctpVerif.Proofs.Sna
/-!
Shift invariance of the RACK / PTO / TLR model: adding a constant `k` to every TSN of the state and of the inputs
commutes with every function, and outputs (marked TSNs) are shifted by `k`. `tlrEndTSN` is a TSN only during an episode
(`tlrMaybeFinishLocked` resets it to the literal 0), so it is shifted only while `tlrActive`.
-/
namespace Rack
open Gen

def shC (k : BitVec 32) (c : Chunk) : Chunk := { c with tsn := c.tsn + k }

/-- `k` during a TLR episode, 0 otherwise (not an `if`: the case-splitting tactics below leave it alone) -/
def actK (b : Bool) (k : BitVec 32) : BitVec 32 := cond b k 0

@[simp] theorem actK_true (k : BitVec 32) : actK true k = k := rfl
@[simp] theorem actK_false (k : BitVec 32) : actK false k = 0 := rfl

def shSt (k : BitVec 32) (s : St) : St :=
  { s with q := s.q.map (shC k), cumAck := s.cumAck + k, myNextTSN := s.myNextTSN + k, minTSN2MeasureRTT := s.minTSN2MeasureRTT + k,
           list := s.list.map (· + k), hw := s.hw + k, tlrEndTSN := s.tlrEndTSN + actK s.tlrActive k }

@[simp] theorem shSt_cfg (k : BitVec 32) (s : St) : (shSt k s).cfg = s.cfg := rfl
@[simp] theorem shSt_now (k : BitVec 32) (s : St) : (shSt k s).now = s.now := rfl
@[simp] theorem shSt_q (k : BitVec 32) (s : St) : (shSt k s).q = s.q.map (shC k) := rfl
@[simp] theorem shSt_cumAck (k : BitVec 32) (s : St) : (shSt k s).cumAck = s.cumAck + k := rfl
@[simp] theorem shSt_myNextTSN (k : BitVec 32) (s : St) : (shSt k s).myNextTSN = s.myNextTSN + k := rfl
@[simp] theorem shSt_minTSN2MeasureRTT (k : BitVec 32) (s : St) : (shSt k s).minTSN2MeasureRTT = s.minTSN2MeasureRTT + k := rfl
@[simp] theorem shSt_list (k : BitVec 32) (s : St) : (shSt k s).list = s.list.map (· + k) := rfl
@[simp] theorem shSt_reoWnd (k : BitVec 32) (s : St) : (shSt k s).reoWnd = s.reoWnd := rfl
@[simp] theorem shSt_minRTT (k : BitVec 32) (s : St) : (shSt k s).minRTT = s.minRTT := rfl
@[simp] theorem shSt_minWnd (k : BitVec 32) (s : St) : (shSt k s).minWnd = s.minWnd := rfl
@[simp] theorem shSt_deliveredTime (k : BitVec 32) (s : St) : (shSt k s).deliveredTime = s.deliveredTime := rfl
@[simp] theorem shSt_hw (k : BitVec 32) (s : St) : (shSt k s).hw = s.hw + k := rfl
@[simp] theorem shSt_reorderingSeen (k : BitVec 32) (s : St) : (shSt k s).reorderingSeen = s.reorderingSeen := rfl
@[simp] theorem shSt_keepInflated (k : BitVec 32) (s : St) : (shSt k s).keepInflated = s.keepInflated := rfl
@[simp] theorem shSt_rackDeadline (k : BitVec 32) (s : St) : (shSt k s).rackDeadline = s.rackDeadline := rfl
@[simp] theorem shSt_ptoDeadline (k : BitVec 32) (s : St) : (shSt k s).ptoDeadline = s.ptoDeadline := rfl
@[simp] theorem shSt_tlrActive (k : BitVec 32) (s : St) : (shSt k s).tlrActive = s.tlrActive := rfl
@[simp] theorem shSt_tlrFirstRTT (k : BitVec 32) (s : St) : (shSt k s).tlrFirstRTT = s.tlrFirstRTT := rfl
@[simp] theorem shSt_tlrHadAdditionalLoss (k : BitVec 32) (s : St) : (shSt k s).tlrHadAdditionalLoss = s.tlrHadAdditionalLoss := rfl
@[simp] theorem shSt_tlrEndTSN (k : BitVec 32) (s : St) : (shSt k s).tlrEndTSN = s.tlrEndTSN + actK s.tlrActive k := rfl
@[simp] theorem shSt_tlrBurstFirst (k : BitVec 32) (s : St) : (shSt k s).tlrBurstFirst = s.tlrBurstFirst := rfl
@[simp] theorem shSt_tlrBurstLater (k : BitVec 32) (s : St) : (shSt k s).tlrBurstLater = s.tlrBurstLater := rfl
@[simp] theorem shSt_tlrGoodOps (k : BitVec 32) (s : St) : (shSt k s).tlrGoodOps = s.tlrGoodOps := rfl
@[simp] theorem shSt_tlrStartTime (k : BitVec 32) (s : St) : (shSt k s).tlrStartTime = s.tlrStartTime := rfl
@[simp] theorem shSt_hbProbes (k : BitVec 32) (s : St) : (shSt k s).hbProbes = s.hbProbes := rfl

@[simp] theorem shC_tsn (k : BitVec 32) (c : Chunk) : (shC k c).tsn = c.tsn + k := rfl
@[simp] theorem shC_since (k : BitVec 32) (c : Chunk) : (shC k c).since = c.since := rfl
@[simp] theorem shC_nSent (k : BitVec 32) (c : Chunk) : (shC k c).nSent = c.nSent := rfl
@[simp] theorem shC_acked (k : BitVec 32) (c : Chunk) : (shC k c).acked = c.acked := rfl
@[simp] theorem shC_abandoned (k : BitVec 32) (c : Chunk) : (shC k c).abandoned = c.abandoned := rfl
@[simp] theorem shC_retransmit (k : BitVec 32) (c : Chunk) : (shC k c).retransmit = c.retransmit := rfl

theorem C16shift (a b k : BitVec 32) : sna32LT (a + k) (b + k) = sna32LT a b := by
  rw [Bool.eq_iff_iff, Sna.lt32_iff, Sna.lt32_iff, Sna.sub_shift32]

theorem C16shiftGTE (a b k : BitVec 32) : sna32GTE (a + k) (b + k) = sna32GTE a b := by
  rw [Bool.eq_iff_iff, Sna.gte32_iff, Sna.gte32_iff, Sna.sub_shift32]

theorem C16shiftLTE (a b k : BitVec 32) : sna32LTE (a + k) (b + k) = sna32LTE a b := by
  rw [Bool.eq_iff_iff, Sna.lte32_iff, Sna.lte32_iff, Sna.sub_shift32]

theorem add_right_beq (a b k : BitVec 32) : (a + k == b + k) = (a == b) := by
  rw [Bool.eq_iff_iff]; simp only [beq_iff_eq]; constructor <;> intro h <;> bv_omega

theorem add_right_inj' (a b k : BitVec 32) : a + k = b + k ↔ a = b := by
  constructor <;> intro h <;> bv_omega

/-! ## the store -/

theorem find_shift (k : BitVec 32) (q : List Chunk) (t : BitVec 32) :
    find (q.map (shC k)) (t + k) = (find q t).map (shC k) := by
  induction q with
  | nil => simp [find]
  | cons c q ih =>
    simp only [List.map_cons, find_cons, shC_tsn, add_right_beq]
    by_cases h : (c.tsn == t) = true
    · rw [if_pos h, if_pos h, Option.map_some]
    · rw [if_neg h, if_neg h]; exact ih

theorem modify_shift (k : BitVec 32) (q : List Chunk) (t : BitVec 32) (g : Chunk → Chunk)
    (hg : ∀ c, g (shC k c) = shC k (g c)) :
    modify (q.map (shC k)) (t + k) g = (modify q t g).map (shC k) := by
  simp only [modify, List.map_map]
  apply List.map_congr_left
  intro c _
  simp only [Function.comp, shC_tsn, add_right_beq]
  split
  · exact hg c
  · rfl

theorem get_shift (k : BitVec 32) (q : List Chunk) (t : BitVec 32) :
    get (q.map (shC k)) (t + k) = (get q t).map (shC k) := by
  cases q with
  | nil => simp [get]
  | cons f r =>
    simp only [get, List.map_cons, shC_tsn, Sna.sub_shift32, List.length_cons, List.length_map]
    split
    · rfl
    · rw [← List.map_cons, List.getElem?_map]

theorem scanFrom_shift (k : BitVec 32) (q : List Chunk) (t : BitVec 32) :
    scanFrom (q.map (shC k)) (t + k) = (scanFrom q t).map (shC k) := by
  cases q with
  | nil => simp [scanFrom]
  | cons f r =>
    simp only [scanFrom, List.map_cons, shC_tsn, Sna.sub_shift32]
    rw [← List.map_cons, List.map_drop]

theorem contains_shift (k : BitVec 32) (l : List (BitVec 32)) (t : BitVec 32) :
    (l.map (· + k)).contains (t + k) = l.contains t := by
  induction l with
  | nil => simp
  | cons a l ih =>
    simp only [List.map_cons, List.contains_cons, ih]
    rw [show (t + k == a + k) = (t == a) from add_right_beq t a k]

theorem filter_ne_shift (k : BitVec 32) (l : List (BitVec 32)) (t : BitVec 32) :
    (l.map (· + k)).filter (· != t + k) = (l.filter (· != t)).map (· + k) := by
  rw [List.filter_map]
  congr 1
  apply List.filter_congr
  intro x _
  simp only [Function.comp, bne, add_right_beq]

/-! ## list, timers, TLR -/

/-- rewrite the projections of a shifted state -/
macro "shproj" : tactic => `(tactic| simp only [shSt_cfg, shSt_now, shSt_q, shSt_cumAck, shSt_myNextTSN, shSt_minTSN2MeasureRTT, shSt_list, shSt_reoWnd, shSt_minRTT, shSt_minWnd, shSt_deliveredTime, shSt_hw, shSt_reorderingSeen, shSt_keepInflated, shSt_rackDeadline, shSt_ptoDeadline, shSt_tlrActive, shSt_tlrFirstRTT, shSt_tlrHadAdditionalLoss, shSt_tlrEndTSN, shSt_tlrBurstFirst, shSt_tlrBurstLater, shSt_tlrGoodOps, shSt_tlrStartTime, shSt_hbProbes, List.length_map, List.isEmpty_map])

/-- `f (shSt k s) = shSt k (f s)` for a function that is conditionals over record updates and reads no TSN -/
macro "shcomm" k:term : tactic => `(tactic| (shproj; (try simp only [apply_ite (shSt $k)]); rfl))

theorem rackInsert_shift (k : BitVec 32) (s : St) (t : BitVec 32) :
    rackInsert (shSt k s) (t + k) = shSt k (rackInsert s t) := by
  unfold rackInsert
  simp only [shSt_list, contains_shift]
  split
  · rfl
  · simp [shSt]

theorem rackRemove_shift (k : BitVec 32) (s : St) (t : BitVec 32) :
    rackRemove (shSt k s) (t + k) = shSt k (rackRemove s t) := by
  unfold rackRemove
  simp only [shSt_list, filter_ne_shift]
  simp [shSt]

theorem startRackTimer_shift (k : BitVec 32) (s : St) (d : Int) : startRackTimer (shSt k s) d = shSt k (startRackTimer s d) := by
  unfold startRackTimer; shcomm k
theorem stopRackTimer_shift (k : BitVec 32) (s : St) : stopRackTimer (shSt k s) = shSt k (stopRackTimer s) := rfl
theorem startPTOTimer_shift (k : BitVec 32) (s : St) (d : Int) : startPTOTimer (shSt k s) d = shSt k (startPTOTimer s d) := by
  unfold startPTOTimer; shcomm k
theorem stopPTOTimer_shift (k : BitVec 32) (s : St) : stopPTOTimer (shSt k s) = shSt k (stopPTOTimer s) := rfl

theorem tlrUpdatePhase_shift (k : BitVec 32) (s : St) (env : Env) (t : Int) :
    tlrUpdatePhase (shSt k s) env t = shSt k (tlrUpdatePhase s env t) := by
  unfold tlrUpdatePhase; shcomm k

theorem tlrApplyAdditionalLoss_shift (k : BitVec 32) (s : St) (env : Env) (t : Int) :
    tlrApplyAdditionalLoss (shSt k s) env t = shSt k (tlrApplyAdditionalLoss s env t) := by
  unfold tlrApplyAdditionalLoss
  rw [tlrUpdatePhase_shift]
  dsimp only
  simp only [apply_ite (shSt k)]
  rfl

theorem tlrBudgetScaled_shift (k : BitVec 32) (s : St) (env : Env) :
    tlrBudgetScaled (shSt k s) env = (shSt k (tlrBudgetScaled s env).1, (tlrBudgetScaled s env).2) := by
  unfold tlrBudgetScaled tlrCurrentBurstUnits
  rw [tlrUpdatePhase_shift]
  shproj
  by_cases h : s.tlrActive = true
  · simp [h]
  · simp [h]

theorem schedulePTOAfterSend_shift (k : BitVec 32) (s : St) (env : Env) :
    schedulePTOAfterSend (shSt k s) env = shSt k (schedulePTOAfterSend s env) := by
  unfold schedulePTOAfterSend
  shproj
  split
  · rfl
  · exact startPTOTimer_shift _ _ _

theorem schedulePTOAfterSack_shift (k : BitVec 32) (s : St) (env : Env) :
    schedulePTOAfterSack (shSt k s) env = shSt k (schedulePTOAfterSack s env) := by
  unfold schedulePTOAfterSack
  shproj
  split
  · rfl
  · exact startPTOTimer_shift _ _ _

theorem reoMinRTT_shift (k : BitVec 32) (s : St) : reoMinRTT (shSt k s) = shSt k (reoMinRTT s) := rfl

theorem reoInit_shift (k : BitVec 32) (s : St) (env : Env) : reoInit (shSt k s) env = shSt k (reoInit s env) := by
  unfold reoInit reoBase; shcomm k

theorem reoInflate_shift (k : BitVec 32) (s : St) (nd : Int) : reoInflate (shSt k s) nd = shSt k (reoInflate s nd) := by
  unfold reoInflate; shcomm k

theorem reoKeep_shift (k : BitVec 32) (s : St) (env : Env) : reoKeep (shSt k s) env = shSt k (reoKeep s env) := by
  unfold reoKeep; dsimp only; shcomm k

theorem reoClamp_shift (k : BitVec 32) (s : St) (env : Env) : reoClamp (shSt k s) env = shSt k (reoClamp s env) := by
  unfold reoClamp; shcomm k

theorem rackReoWnd_shift (k : BitVec 32) (s : St) (env : Env) (nd : Int) :
    rackReoWnd (shSt k s) env nd = shSt k (rackReoWnd s env nd) := by
  unfold rackReoWnd
  rw [reoMinRTT_shift, reoInit_shift, reoInflate_shift, reoKeep_shift, reoClamp_shift]

theorem rackArm_shift (k : BitVec 32) (s : St) : rackArm (shSt k s) = shSt k (rackArm s) := by
  unfold rackArm
  shproj
  split
  · exact startRackTimer_shift _ _ _
  · rfl

theorem rackHw_shift (k : BitVec 32) (s : St) (t : BitVec 32) : rackHw (shSt k s) (t + k) = shSt k (rackHw s t) := by
  unfold rackHw rack_hwAdvances
  simp only [shSt_hw, C16shift, apply_ite (shSt k)]
  rfl

theorem rackNewer_shift (k : BitVec 32) (s : St) (nt : Int) : rackNewer (shSt k s) nt = shSt k (rackNewer s nt) := by
  unfold rackNewer; shcomm k

theorem rackDelivered_shift (k : BitVec 32) (s : St) (f : Bool) (nt : Int) (t : BitVec 32) :
    rackDelivered (shSt k s) f nt (t + k) = shSt k (rackDelivered s f nt t) := by
  unfold rackDelivered
  rw [rackHw_shift, rackNewer_shift]
  cases f <;> rfl

/-! ## TLR episode begin / end -/

theorem tlr_scanTSN_shift (c i k : BitVec 32) : tlr_scanTSN (c + k) i = tlr_scanTSN c i + k := by
  unfold tlr_scanTSN; bv_omega

theorem pto_scanTSN_shift (c i k : BitVec 32) : pto_scanTSN (c + k) i = pto_scanTSN c i + k := by
  unfold pto_scanTSN; bv_omega

theorem tlrHighestOutstanding_shift (k : BitVec 32) (s : St) :
    tlrHighestOutstanding (shSt k s) = (tlrHighestOutstanding s).map (· + k) := by
  unfold tlrHighestOutstanding
  simp only [shSt_q, shSt_cumAck, tlr_scanTSN_shift, scanFrom_shift, List.length_map]
  split <;> simp

theorem tlrBegin_shift (k : BitVec 32) (s : St) : tlrBegin (shSt k s) = shSt k (tlrBegin s) := by
  unfold tlrBegin
  rw [tlrHighestOutstanding_shift]
  cases h : tlrHighestOutstanding s <;> simp [shSt]

theorem tlrLeaveFirst_shift (k : BitVec 32) (s : St) (p : Bool) : tlrLeaveFirst (shSt k s) p = shSt k (tlrLeaveFirst s p) := by
  unfold tlrLeaveFirst; shcomm k

theorem tlrScore_shift (k : BitVec 32) (s : St) : tlrScore (shSt k s) = shSt k (tlrScore s) := by
  unfold tlrScore; shcomm k

theorem tlrEnd_shift (k : BitVec 32) (s : St) : tlrEnd (shSt k s) = shSt k (tlrEnd s) := by
  unfold tlrEnd
  rw [tlrScore_shift]
  simp [shSt]

theorem tlrMaybeFinish_shift (k : BitVec 32) (s : St) (p : Bool) :
    tlrMaybeFinish (shSt k s) p = shSt k (tlrMaybeFinish s p) := by
  unfold tlrMaybeFinish tlrFinish_done
  rw [tlrLeaveFirst_shift, tlrEnd_shift]
  by_cases ha : s.tlrActive = true
  · simp only [shSt_tlrActive, ha, Bool.not_true, Bool.false_eq_true, ↓reduceIte, shSt_cumAck, shSt_tlrEndTSN, actK_true,
      C16shiftGTE, apply_ite (shSt k)]
  · have ha' : s.tlrActive = false := by simpa using ha
    simp [ha']

/-! ## the marking walk and its callers -/

theorem setRtx_shC (k : BitVec 32) (c : Chunk) : setRtx (shC k c) = shC k (setRtx c) := rfl

def shOut (k : BitVec 32) (r : WalkOut) : WalkOut :=
  { list := r.list.map (· + k), q := r.q.map (shC k), marks := r.marks.map (· + k) }

theorem walk_shift (f : WalkFns) (w d : Int) (k : BitVec 32) :
    ∀ (l : List (BitVec 32)) (q : List Chunk),
      walk f w d (l.map (· + k)) (q.map (shC k)) = shOut k (walk f w d l q) := by
  intro l
  induction l with
  | nil => intro q; simp [walk, shOut]
  | cons t rest ih =>
    intro q
    rw [List.map_cons, walk_eq, walk_eq, find_shift]
    cases hf : find q t with
    | none => simp only [Option.map_none]; exact ih q
    | some c =>
      simp only [Option.map_some, shC_acked, shC_abandoned, shC_retransmit, shC_nSent, shC_since]
      by_cases h1 : f.skipDead c.acked c.abandoned = true
      · simp only [h1, ↓reduceIte]; exact ih q
      · simp only [h1, Bool.false_eq_true, ↓reduceIte]
        by_cases h2 : f.skipResent c.retransmit c.nSent = true
        · simp only [h2, ↓reduceIte, ih q]; rfl
        · simp only [h2, Bool.false_eq_true, ↓reduceIte]
          by_cases h3 : f.tooNew c.since w d = true
          · simp only [h3, ↓reduceIte]; simp [shOut]
          · simp only [h3, Bool.false_eq_true, ↓reduceIte]
            rw [modify_shift k q t setRtx (setRtx_shC k), ih]
            rfl

theorem afterMarks_shift (k : BitVec 32) (s : St) (env : Env) (m : Bool) :
    afterMarks (shSt k s) env m = shSt k (afterMarks s env m) := by
  unfold afterMarks
  simp only [shSt_tlrActive, shSt_now, tlrApplyAdditionalLoss_shift, apply_ite (shSt k)]

theorem afterWalk_shift (k : BitVec 32) (s : St) (env : Env) (r : WalkOut) :
    afterWalk (shSt k s) env (shOut k r) = shSt k (afterWalk s env r) := by
  unfold afterWalk
  have e : ({ shSt k s with list := (shOut k r).list, q := (shOut k r).q } : St) = shSt k { s with list := r.list, q := r.q } := rfl
  rw [e, afterMarks_shift]
  simp [shOut]

theorem rackMark_shift (k : BitVec 32) (s : St) (env : Env) :
    rackMark (shSt k s) env = (shSt k (rackMark s env).1, (rackMark s env).2.map (· + k)) := by
  unfold rackMark
  simp only [shSt_deliveredTime, shSt_reoWnd, shSt_list, shSt_q, walk_shift, afterWalk_shift]
  split <;> simp [shOut]

theorem onRackTimeout_shift (k : BitVec 32) (s : St) (env : Env) :
    onRackTimeout (shSt k s) env = (shSt k (onRackTimeout s env).1, (onRackTimeout s env).2.map (· + k)) := by
  unfold onRackTimeout
  simp only [shSt_deliveredTime, shSt_reoWnd, shSt_list, shSt_q, walk_shift, afterWalk_shift]
  split <;> simp [shOut]

theorem onRackAfterSACK_shift (k : BitVec 32) (s : St) (env : Env) (f : Bool) (nt : Int) (t : BitVec 32) (nd : Int) :
    onRackAfterSACK (shSt k s) env f nt (t + k) nd =
      (shSt k (onRackAfterSACK s env f nt t nd).1, (onRackAfterSACK s env f nt t nd).2.map (· + k)) := by
  unfold onRackAfterSACK
  simp only [rackDelivered_shift, rackReoWnd_shift, rackMark_shift, rackArm_shift, schedulePTOAfterSack_shift]

/-! ## PTO -/

theorem ptoTlr_shift (k : BitVec 32) (s : St) (env : Env) : ptoTlr (shSt k s) env = shSt k (ptoTlr s env) := by
  unfold ptoTlr
  simp only [shSt_tlrActive, shSt_now, tlrBegin_shift, tlrApplyAdditionalLoss_shift, apply_ite (shSt k)]

theorem ptoLatest_shift (k : BitVec 32) (s : St) : ptoLatest (shSt k s) = (ptoLatest s).map (shC k) := by
  unfold ptoLatest
  simp only [shSt_q, shSt_cumAck, pto_scanTSN_shift, scanFrom_shift]
  rw [List.filter_map]
  have : ((fun c => !pto_skipDead c.acked c.abandoned) ∘ shC k) = (fun c => !pto_skipDead c.acked c.abandoned) := by
    funext c; rfl
  rw [this, List.getLast?_map]

theorem onPTOTimer_shift (k : BitVec 32) (s : St) (env : Env) :
    onPTOTimer (shSt k s) env = (shSt k (onPTOTimer s env).1, (onPTOTimer s env).2.map (· + k)) := by
  by_cases hq : s.q = []
  · simp [onPTOTimer, pto_idle, hq, shSt, stopPTOTimer]
  · have hq' : (shSt k s).q ≠ [] := by simpa using hq
    rw [onPTOTimer_eq _ env hq', onPTOTimer_eq s env hq, ptoLatest_shift, ptoTlr_shift]
    split
    · rfl
    · cases h : ptoLatest s with
      | none => rfl
      | some c =>
        simp only [Option.map_some, shC_retransmit, shC_tsn, shSt_q]
        by_cases hr : c.retransmit = true
        · simp only [hr, ↓reduceIte, List.map_nil]
        · simp only [hr, Bool.false_eq_true, ↓reduceIte]
          rw [modify_shift k s.q c.tsn setRtx (setRtx_shC k)]
          rfl

/-! ## the SACK -/

/-- `newestTSN` is a TSN only once something was found -/
def shAcc (k : BitVec 32) (a : AckAcc) : AckAcc := { a with newestTSN := a.newestTSN + actK a.found k }

theorem ackSample_shift (k : BitVec 32) (gap : Bool) (s : St) (a : AckAcc) (c : Chunk) :
    ackSample gap (shSt k s) (shAcc k a) (shC k c) = (shSt k (ackSample gap s a c).1, shAcc k (ackSample gap s a c).2) := by
  unfold ackSample psa_gapMeasurable psa_cumMeasurable
  simp only [shSt_minTSN2MeasureRTT, shC_tsn, C16shiftGTE, shC_nSent, shC_since, shSt_now, shSt_myNextTSN, shSt_cfg, shSt_minWnd]
  split <;> (split <;> rfl)

theorem ackNewest_shift (k : BitVec 32) (gap : Bool) (a : AckAcc) (c : Chunk) :
    ackNewest gap (shAcc k a) (shC k c) = shAcc k (ackNewest gap a c) := by
  unfold ackNewest
  simp only [shC_since, shC_tsn]
  have e : (shAcc k a).newestTime = a.newestTime := rfl
  rw [e]
  split <;> (split <;> simp [shAcc])

theorem ackOne_shift (k : BitVec 32) (gap : Bool) (s : St) (a : AckAcc) (c : Chunk) :
    ackOne gap (shSt k s) (shAcc k a) (shC k c) = (shSt k (ackOne gap s a c).1, shAcc k (ackOne gap s a c).2) := by
  unfold ackOne
  simp only [ackSample_shift, ackNewest_shift]

theorem popCum_shift (k : BitVec 32) :
    ∀ (q : List Chunk) (idx cum : BitVec 32) (s : St) (a : AckAcc),
      popCum (q.map (shC k)) (idx + k) (cum + k) (shSt k s) (shAcc k a) =
        (popCum q idx cum s a).map fun r => (r.1.map (shC k), shSt k r.2.1, shAcc k r.2.2) := by
  intro q
  induction q with
  | nil =>
    intro idx cum s a
    simp only [List.map_nil, popCum, C16shiftLTE]
    split <;> rfl
  | cons c q ih =>
    intro idx cum s a
    simp only [List.map_cons, popCum, C16shiftLTE, shC_tsn, add_right_beq, shC_acked]
    split
    · split
      · have e : idx + k + 1 = idx + 1 + k := by bv_omega
        rw [e, rackRemove_shift]
        by_cases ha : c.acked = true
        · simp only [ha, Bool.not_true, Bool.false_eq_true, ↓reduceIte]
          exact ih _ _ _ _
        · simp only [ha, Bool.not_false, ↓reduceIte, ackOne_shift]
          exact ih _ _ _ _
      · rfl
    · rfl

theorem gapOne_shift (k : BitVec 32) (q : List Chunk) (s : St) (a : AckAcc) (t : BitVec 32) :
    gapOne (q.map (shC k)) (shSt k s) (shAcc k a) (t + k) =
      (gapOne q s a t).map fun r => (r.1.map (shC k), shSt k r.2.1, shAcc k r.2.2) := by
  unfold gapOne
  rw [get_shift]
  cases get q t with
  | none => rfl
  | some c =>
    simp only [Option.map_some, shC_tsn, rackRemove_shift, shC_acked]
    by_cases ha : c.acked = true
    · simp only [ha, Bool.not_true, Bool.false_eq_true, ↓reduceIte, Option.map_some]
    · simp only [ha, Bool.not_false, ↓reduceIte, ackOne_shift, Option.map_some]
      rw [modify_shift k q c.tsn (fun c => { c with acked := true, retransmit := false }) (fun c => rfl)]

theorem gapAll_shift (k : BitVec 32) :
    ∀ (ts : List (BitVec 32)) (q : List Chunk) (s : St) (a : AckAcc),
      gapAll (ts.map (· + k)) (q.map (shC k)) (shSt k s) (shAcc k a) =
        (gapAll ts q s a).map fun r => (r.1.map (shC k), shSt k r.2.1, shAcc k r.2.2) := by
  intro ts
  induction ts with
  | nil => intro q s a; rfl
  | cons t ts ih =>
    intro q s a
    simp only [List.map_cons, gapAll, gapOne_shift]
    cases gapOne q s a t with
    | none => rfl
    | some r => simp only [Option.map_some]; exact ih _ _ _

theorem shAcc_default (k : BitVec 32) : shAcc k ({} : AckAcc) = {} := by simp [shAcc]

theorem ackFinish_shift (k : BitVec 32) (old cum : BitVec 32) (q : List Chunk) (s : St) :
    ackFinish (old + k) (cum + k) (q.map (shC k)) (shSt k s) = (shSt k (ackFinish old cum q s).1, (ackFinish old cum q s).2) := by
  unfold ackFinish
  simp only [C16shift, List.length_map]
  have e3 : ({ shSt k s with q := q.map (shC k), cumAck := cum + k } : St) = shSt k { s with q := q, cumAck := cum } := rfl
  have e2 : ({ shSt k s with q := q.map (shC k) } : St) = shSt k { s with q := q } := rfl
  rw [e3, e2]
  split
  · split <;> rfl
  · rfl

theorem ackPhase_shift (k : BitVec 32) (s : St) (cum : BitVec 32) (gaps : List (BitVec 32)) :
    ackPhase (shSt k s) (cum + k) (gaps.map (· + k)) =
      (ackPhase s cum gaps).map fun r => (shSt k r.1, shAcc k r.2.1, r.2.2) := by
  unfold ackPhase
  have e : (shSt k s).cumAck + 1 = s.cumAck + 1 + k := by simp only [shSt_cumAck]; bv_omega
  have hp := popCum_shift k s.q (s.cumAck + 1) cum s {}
  rw [shAcc_default] at hp
  rw [e, shSt_q, hp]
  cases popCum s.q (s.cumAck + 1) cum s {} with
  | none => rfl
  | some r1 =>
    simp only [Option.map_some, gapAll_shift]
    cases gapAll gaps r1.1 r1.2.1 r1.2.2 with
    | none => rfl
    | some r2 =>
      simp only [Option.map_some, shSt_cumAck, ackFinish_shift]

theorem iter_shift (k : BitVec 32) (f : St → St) (hf : ∀ s, f (shSt k s) = shSt k (f s)) :
    ∀ (n : Nat) (s : St), iter f n (shSt k s) = shSt k (iter f n s) := by
  intro n
  induction n with
  | zero => intro s; rfl
  | succ n ih => intro s; simp only [iter, hf, ih]

theorem afterAck_shift (k : BitVec 32) (s : St) (env : Env) (a : AckAcc) (adv : Bool) (nd : Int) (nm : Nat) :
    afterAck (shSt k s) env (shAcc k a) adv nd nm =
      (shSt k (afterAck s env a adv nd nm).1, (afterAck s env a adv nd nm).2.map (· + k)) := by
  unfold afterAck
  rw [iter_shift k _ (fun s => by simp only [shSt_tlrActive, shSt_now, tlrApplyAdditionalLoss_shift, apply_ite (shSt k)])]
  have e : ∀ x : St, onRackAfterSACK (shSt k x) env (shAcc k a).found (shAcc k a).newestTime (shAcc k a).newestTSN nd =
      (shSt k (onRackAfterSACK x env a.found a.newestTime a.newestTSN nd).1, (onRackAfterSACK x env a.found a.newestTime a.newestTSN nd).2.map (· + k)) := by
    intro x
    cases hf : a.found
    · -- nothing found: the TSN argument is not looked at
      have : ∀ (y : St) (t t' : BitVec 32), onRackAfterSACK y env false a.newestTime t nd = onRackAfterSACK y env false a.newestTime t' nd := by
        intro y t t'; simp [onRackAfterSACK, rackDelivered]
      simp only [shAcc, hf]
      rw [this (shSt k x) _ (a.newestTSN + k), onRackAfterSACK_shift]
    · simp only [shAcc, hf, actK_true]
      exact onRackAfterSACK_shift _ _ _ _ _ _ _
  dsimp only
  rw [e]
  simp only [tlrMaybeFinish_shift, shAcc]

theorem sack_shift (k : BitVec 32) (s : St) (env : Env) (cum : BitVec 32) (gaps : List (BitVec 32)) (nd : Int) (nm : Nat) :
    sack (shSt k s) env (cum + k) (gaps.map (· + k)) nd nm =
      (sack s env cum gaps nd nm).map fun r => (shSt k r.1, r.2.map (· + k)) := by
  unfold sack
  rw [ackPhase_shift]
  cases ackPhase s cum gaps with
  | none => rfl
  | some r => simp only [Option.map_some, afterAck_shift]

/-! ## environment operations, the step function -/

theorem pushChunk_shift (k : BitVec 32) (s : St) : pushChunk (shSt k s) = shSt k (pushChunk s) := by
  unfold pushChunk
  have e : s.myNextTSN + k + 1 = s.myNextTSN + 1 + k := by bv_omega
  simp only [shSt_myNextTSN, shSt_q, shSt_now, e]
  simp [shSt, shC]

theorem send_shift (k : BitVec 32) (s : St) (p : Bool) : send (shSt k s) p = shSt k (send s p) := by
  unfold send
  simp only [shSt_myNextTSN, rackRemove_shift]
  cases p
  · simp only [Bool.false_eq_true, ↓reduceIte, pushChunk_shift, rackInsert_shift]
  · simp only [↓reduceIte, pushChunk_shift, rackInsert_shift]

theorem touch_shift (k : BitVec 32) (s : St) (t : BitVec 32) (c : Bool) : touch (shSt k s) (t + k) c = shSt k (touch s t c) := by
  unfold touch
  simp only [shSt_q, shSt_now]
  rw [modify_shift k s.q t (retx s.now c) (fun _ => rfl)]
  rfl

theorem resend_shift (k : BitVec 32) (s : St) (t : BitVec 32) (c p : Bool) :
    resend (shSt k s) (t + k) c p = shSt k (resend s t c p) := by
  unfold resend
  simp only [touch_shift, rackRemove_shift, rackInsert_shift, apply_ite (shSt k)]

theorem abandon_shift (k : BitVec 32) (s : St) (ts : List (BitVec 32)) :
    abandon (shSt k s) (ts.map (· + k)) = shSt k (abandon s ts) := by
  unfold abandon
  simp only [shSt_q, List.map_map]
  have : (List.map ((fun c => if (ts.map (· + k)).contains c.tsn then { c with abandoned := true } else c) ∘ shC k) s.q) =
      List.map (shC k ∘ fun c => if ts.contains c.tsn then { c with abandoned := true } else c) s.q := by
    apply List.map_congr_left
    intro c _
    simp only [Function.comp, shC_tsn, contains_shift]
    split <;> rfl
  rw [this, ← List.map_map]
  rfl

theorem t3_shift (k : BitVec 32) (s : St) : t3 (shSt k s) = shSt k (t3 s) := by
  unfold t3
  simp only [shSt_q, List.map_map]
  have : (List.map ((fun c => if c.acked || c.abandoned then c else { c with retransmit := true }) ∘ shC k) s.q) =
      List.map (shC k ∘ fun c => if c.acked || c.abandoned then c else { c with retransmit := true }) s.q := by
    apply List.map_congr_left
    intro c _
    simp only [Function.comp, shC_acked, shC_abandoned]
    by_cases h : (c.acked || c.abandoned) = true
    · simp only [h, ↓reduceIte]
    · simp only [h, Bool.false_eq_true, ↓reduceIte]; rfl
  rw [this, ← List.map_map]
  rfl

theorem timerFire_shift (k : BitVec 32) (s : St) (env : Env) :
    timerFire (shSt k s) env = (shSt k (timerFire s env).1, (timerFire s env).2.map (· + k)) := by
  unfold timerFire
  simp only [shSt_rackDeadline, shSt_ptoDeadline, shSt_now, stopRackTimer_shift]
  by_cases h1 : timerLoop_rackDue s.rackDeadline s.now = true <;> by_cases h2 : timerLoop_ptoDue s.ptoDeadline s.now = true <;>
    simp only [h1, h2, ↓reduceIte, Bool.false_eq_true, stopPTOTimer_shift, onRackTimeout_shift, onPTOTimer_shift, List.map_append,
      List.map_nil, List.append_nil, List.nil_append]

/-- the operation with every TSN it carries shifted -/
def shOp (k : BitVec 32) : Op → Op
  | .resend t c p => .resend (t + k) c p
  | .abandon ts => .abandon (ts.map (· + k))
  | .sack env cum gaps nd nm => .sack env (cum + k) (gaps.map (· + k)) nd nm
  | op => op

theorem step_shift (k : BitVec 32) (s : St) (op : Op) : step (shSt k s) (shOp k op) = shSt k (step s op) := by
  cases op with
  | advance d => rfl
  | send p => exact send_shift k s p
  | resend t c p => exact resend_shift k s t c p
  | abandon ts => exact abandon_shift k s ts
  | ptoAfterSend env => exact schedulePTOAfterSend_shift k s env
  | budget env => simp only [shOp, step, tlrBudgetScaled_shift]
  | sack env cum gaps nd nm =>
    simp only [shOp, step, sack_shift]
    cases sack s env cum gaps nd nm <;> rfl
  | t3 => exact t3_shift k s
  | timerFire env => simp only [shOp, step, timerFire_shift]
  | rackTimeout env => simp only [shOp, step, onRackTimeout_shift]
  | ptoTimeout env => simp only [shOp, step, onPTOTimer_shift]

theorem run_shift (k : BitVec 32) : ∀ (ops : List Op) (s : St), run (shSt k s) (ops.map (shOp k)) = shSt k (run s ops) := by
  intro ops
  induction ops with
  | nil => intro s; rfl
  | cons op ops ih => intro s; simp only [List.map_cons, run, step_shift, ih]

theorem init_shift (k : BitVec 32) (cfg : Cfg) (tsn : BitVec 32) (now : Int) :
    init cfg (tsn + k) now = shSt k (init cfg tsn now) := by
  unfold init init_rackHighWatermark
  have e1 : tsn + k - 1 = tsn - 1 + k := by bv_omega
  have e2 : tsn + k - 1#32 = tsn - 1#32 + k := by bv_omega
  simp [shSt, e2]

end Rack
