import SctpVerif.Model.Timer
/-!
Invariants of the timer automata of `Model/Timer.lean` (C19, DESIGN Appendix C / E5).
Core only (`omega`, `bv_omega`, `simp`).
-/
namespace TimerProofs
open Timer

/-! ## `uint8` bookkeeping -/

theorem bv8_succ (p : BitVec 8) (h : p.toNat < 255) : (p + 1).toNat = p.toNat + 1 := by bv_omega
theorem bv8_pred (p : BitVec 8) (h : 1 ≤ p.toNat) : (p - 1).toNat = p.toNat - 1 := by bv_omega
theorem bv8_pred_zero (p : BitVec 8) (h : 1 ≤ p.toNat) : p - 1 = 0 ↔ p.toNat = 1 := by
  constructor <;> intro h' <;> bv_omega

/-- number the `pending` counter is supposed to hold -/
def live (g : GoTimer) : Nat := (if g.armed.isSome then 1 else 0) + g.spawned.length

@[simp] theorem stop_armed (g : GoTimer) : g.stop.1.armed = none := rfl
@[simp] theorem stop_spawned (g : GoTimer) : g.stop.1.spawned = g.spawned := rfl
theorem stop_ret (g : GoTimer) : g.stop.2 = g.armed.isSome := rfl

/-! ## rtxTimer -/

variable {tid k : Nat}

/-- a trace in which fewer than 255 fired callbacks are ever waiting for the mutex at once
(`pending` is a `uint8`) -/
def RtxSys.Tame (s : RtxSys) : List Op → Prop
  | [] => True
  | o :: os => s.g.spawned.length < 255 ∧ RtxSys.Tame (s.step o).1 os

instance RtxSys.decTame : (s : RtxSys) → (os : List Op) → Decidable (RtxSys.Tame s os)
  | _, [] => isTrue trivial
  | s, o :: os =>
    have := RtxSys.decTame (s.step o).1 os
    inferInstanceAs (Decidable (s.g.spawned.length < 255 ∧ RtxSys.Tame (s.step o).1 os))

structure RInv (tid k : Nat) (s : RtxSys) : Prop where
  cid : s.t.id = tid
  ck : s.t.maxRetrans = k
  cnt : s.t.pending.toNat = live s.g
  armedStarted : s.g.armed.isSome → s.t.state = .started
  armedTag : ∀ d tag, s.g.armed = some (d, tag) → tag = s.epoch
  acct : s.t.state = .started → s.t.nRtos + (if s.g.armed.isSome then 0 else 1) = s.fires

theorem rinv_new (tid k : Nat) : RInv tid k (RtxSys.new tid k) := by
  constructor <;> simp [RtxSys.new, live]

theorem rinv_start (s : RtxSys) (ivl : Nat → Int) (h : RInv tid k s) (hb : s.g.spawned.length < 255) :
    RInv tid k (s.start ivl).1 := by
  unfold RtxSys.start
  split
  · exact h
  · rename_i hst
    have hst : s.t.state = .stopped := by simpa using hst
    have hna : s.g.armed.isSome = false := by
      cases ha : s.g.armed.isSome
      · rfl
      · have := h.armedStarted ha; rw [hst] at this; cases this
    have hp : s.t.pending.toNat = s.g.spawned.length := by rw [h.cnt, live, hna]; simp
    constructor
    · exact h.cid
    · exact h.ck
    · simp only [GoTimer.reset, live, Option.isSome_some, if_true]
      rw [bv8_succ _ (by omega)]; omega
    · intro _; rfl
    · intro d tag hx; simp only [GoTimer.reset, Option.some.injEq, Prod.mk.injEq] at hx; exact hx.2.symm
    · intro _; simp [GoTimer.reset]

theorem rinv_stop (s : RtxSys) (h : RInv tid k s) : RInv tid k s.stop := by
  unfold RtxSys.stop
  split
  · rename_i hst
    constructor
    · exact h.cid
    · exact h.ck
    · have hc := h.cnt
      simp only [live, stop_armed, stop_spawned] at hc ⊢
      by_cases ha : s.g.stop.2 = true
      · rw [if_pos ha]; rw [stop_ret] at ha; rw [if_pos ha] at hc
        rw [bv8_pred _ (by omega)]; simp; omega
      · rw [if_neg ha]; rw [stop_ret] at ha; rw [if_neg ha] at hc
        simpa using hc
    · intro hx; simp at hx
    · intro d tag hx; simp at hx
    · intro hx; simp at hx
  · exact h

theorem rinv_close (s : RtxSys) (h : RInv tid k s) : RInv tid k s.close := by
  unfold RtxSys.close
  split
  · rename_i hst
    constructor
    · exact h.cid
    · exact h.ck
    · have hc := h.cnt
      simp only [live, stop_armed, stop_spawned] at hc ⊢
      by_cases ha : s.g.stop.2 = true
      · rw [if_pos ha]; rw [stop_ret] at ha; rw [if_pos ha] at hc
        rw [bv8_pred _ (by omega)]; simp; omega
      · rw [if_neg ha]; rw [stop_ret] at ha; rw [if_neg ha] at hc
        simpa using hc
    · intro hx; simp at hx
    · intro d tag hx; simp at hx
    · intro hx; simp at hx
  · rename_i hst
    have hna : s.g.armed.isSome = false := by
      cases ha : s.g.armed.isSome
      · rfl
      · exact absurd (h.armedStarted ha) hst
    constructor
    · exact h.cid
    · exact h.ck
    · exact h.cnt
    · intro hx; rw [hna] at hx; cases hx
    · exact h.armedTag
    · intro hx; simp at hx

theorem rinv_fire (s : RtxSys) (h : RInv tid k s) : RInv tid k s.fire := by
  unfold RtxSys.fire
  split
  · rename_i ha
    obtain ⟨⟨d, tag⟩, hx⟩ := Option.isSome_iff_exists.mp ha
    have hst := h.armedStarted ha
    simp only [GoTimer.fire, hx]
    constructor
    · exact h.cid
    · exact h.ck
    · have hc := h.cnt
      simp only [live, ha, if_true] at hc
      simp [live]; omega
    · intro hx; simp at hx
    · intro d tag hx; simp at hx
    · intro _
      have := h.acct hst
      simp only [ha, if_true] at this
      simp; omega
  · exact h


/-- the decrement `timeout()` starts with, on a state from which callback `i` was just taken -/
theorem pending_pred (s : RtxSys) (h : RInv tid k s) (hi : 0 < s.g.spawned.length) :
    (s.t.pending - 1).toNat = live s.g - 1 ∧ 1 ≤ live s.g := by
  have hc := h.cnt
  have : 1 ≤ live s.g := by unfold live; omega
  exact ⟨by rw [bv8_pred _ (by omega)]; omega, this⟩

/-- a callback reaches the observer exactly when the timer is started and it is the last
outstanding callback of an unarmed runtime timer -/
theorem run_delivers_iff (s : RtxSys) (i : Nat) (h : RInv tid k s) (hi : i < s.g.spawned.length) :
    (s.run i).2.isSome ↔ (s.t.state = .started ∧ s.g.armed = none ∧ s.g.spawned.length = 1) := by
  have hpos : 0 < s.g.spawned.length := by omega
  obtain ⟨hp, hl⟩ := pending_pred s h hpos
  have hz : s.t.pending - 1 = 0 ↔ live s.g = 1 := by
    rw [bv8_pred_zero _ (by rw [h.cnt]; exact hl), h.cnt]
  unfold RtxSys.run RtxSys.timeout
  simp only [hi, if_true]
  constructor
  · intro hd
    split at hd
    · rename_i hc
      obtain ⟨h0, hst⟩ := hc
      have h1 := hz.mp h0
      unfold live at h1
      refine ⟨hst, ?_, ?_⟩
      · cases ha : s.g.armed with
        | none => rfl
        | some x => simp only [ha, Option.isSome_some, if_true] at h1; omega
      · by_cases ha : s.g.armed.isSome = true
        · rw [if_pos ha] at h1; omega
        · rw [if_neg ha] at h1; omega
    · simp at hd
  · rintro ⟨hst, ha, hl1⟩
    have h0 : s.t.pending - 1 = 0 := hz.mpr (by unfold live; simp [ha, hl1])
    rw [if_pos ⟨h0, hst⟩]
    split <;> simp

theorem rinv_run (s : RtxSys) (i : Nat) (h : RInv tid k s) : RInv tid k (s.run i).1 := by
  by_cases hi : i < s.g.spawned.length
  · have hpos : 0 < s.g.spawned.length := by omega
    obtain ⟨hp, hl⟩ := pending_pred s h hpos
    have hz : s.t.pending - 1 = 0 ↔ live s.g = 1 := by
      rw [bv8_pred_zero _ (by rw [h.cnt]; exact hl), h.cnt]
    have hlen : (s.g.spawned.eraseIdx i).length = s.g.spawned.length - 1 := List.length_eraseIdx_of_lt hi
    unfold RtxSys.run RtxSys.timeout
    simp only [hi, if_true]
    split
    · rename_i hc
      obtain ⟨h0, hst⟩ := hc
      have h1 := hz.mp h0
      have hna : s.g.armed = none := by
        unfold live at h1
        cases ha : s.g.armed with
        | none => rfl
        | some x => simp only [ha, Option.isSome_some, if_true] at h1; omega
      have hl1 : s.g.spawned.length = 1 := by unfold live at h1; simp [hna] at h1; exact h1
      have hacct := h.acct hst
      simp only [hna, Option.isSome_none, Bool.false_eq_true, if_false] at hacct
      split
      · constructor
        · exact h.cid
        · exact h.ck
        · simp only [GoTimer.reset, live, Option.isSome_some, if_true, hlen, hl1, h0]; rfl
        · intro _; exact hst
        · intro d tag hx; simp only [GoTimer.reset, Option.some.injEq, Prod.mk.injEq] at hx; exact hx.2.symm
        · intro _; simp only [GoTimer.reset, Option.isSome_some, if_true]; omega
      · constructor
        · exact h.cid
        · exact h.ck
        · simp only [live, hna, hlen, hl1, h0]; rfl
        · intro hx; simp [hna] at hx
        · intro d tag hx; simp [hna] at hx
        · intro hx; simp at hx
    · constructor
      · exact h.cid
      · exact h.ck
      · simp only [live, hlen]; rw [hp]; unfold live; omega
      · exact h.armedStarted
      · exact h.armedTag
      · exact h.acct
  · unfold RtxSys.run; simp only [hi, if_false]; exact h

theorem rinv_step (s : RtxSys) (o : Op) (h : RInv tid k s) (hb : s.g.spawned.length < 255) :
    RInv tid k (s.step o).1 := by
  cases o with
  | start ivl => exact rinv_start s ivl h hb
  | stop => exact rinv_stop s h
  | close => exact rinv_close s h
  | fire => exact rinv_fire s h
  | run i => exact rinv_run s i h
  | tick d => exact ⟨h.cid, h.ck, h.cnt, h.armedStarted, h.armedTag, h.acct⟩

theorem exec_fst_cons (s : RtxSys) (o : Op) (os : List Op) :
    (s.exec (o :: os)).1 = ((s.step o).1.exec os).1 := by simp [RtxSys.exec]

theorem rinv_exec (s : RtxSys) (os : List Op) (h : RInv tid k s) (ht : RtxSys.Tame s os) :
    RInv tid k (s.exec os).1 := by
  induction os generalizing s with
  | nil => exact h
  | cons o os ih => rw [exec_fst_cons]; exact ih _ (rinv_step s o h ht.1) ht.2


/-! ### which callback, and the retry budget -/

/-- the constructor arguments never change (no tameness needed) -/
theorem const_step (s : RtxSys) (o : Op) : (s.step o).1.t.id = s.t.id ∧ (s.step o).1.t.maxRetrans = s.t.maxRetrans := by
  cases o with
  | start ivl => simp only [RtxSys.step, RtxSys.start]; split <;> simp
  | stop => simp only [RtxSys.step, RtxSys.stop]; split <;> simp
  | close => simp only [RtxSys.step, RtxSys.close]; split <;> simp
  | fire => simp only [RtxSys.step, RtxSys.fire]; split <;> simp
  | run i =>
    simp only [RtxSys.step, RtxSys.run, RtxSys.timeout]
    split
    · split
      · split <;> simp
      · simp
    · simp
  | tick d => simp [RtxSys.step]

/-- the event a single `timeout()` can produce, from the code alone -/
theorem timeout_event (s : RtxSys) (e : Ev) (h : s.timeout.2 = some e) :
    (e = .timeout s.t.id (s.t.nRtos + 1) ∧ (s.t.maxRetrans = 0 ∨ s.t.nRtos + 1 ≤ s.t.maxRetrans)) ∨
    (e = .failure s.t.id ∧ s.t.maxRetrans ≠ 0 ∧ s.t.maxRetrans < s.t.nRtos + 1) := by
  simp only [RtxSys.timeout] at h
  split at h
  · split at h
    · rename_i hb; left; simp at h; exact ⟨h.symm, hb⟩
    · rename_i hb; right; simp at h
      refine ⟨h.symm, ?_, ?_⟩ <;> omega
  · simp at h

theorem run_event (s : RtxSys) (i : Nat) (e : Ev) (h : (s.run i).2 = some e) :
    (e = .timeout s.t.id (s.t.nRtos + 1) ∧ (s.t.maxRetrans = 0 ∨ s.t.nRtos + 1 ≤ s.t.maxRetrans)) ∨
    (e = .failure s.t.id ∧ s.t.maxRetrans ≠ 0 ∧ s.t.maxRetrans < s.t.nRtos + 1) := by
  unfold RtxSys.run at h
  split at h
  · exact timeout_event { s with g := { s.g with spawned := s.g.spawned.eraseIdx i } } e h
  · simp at h

theorem step_events (s : RtxSys) (o : Op) (e : Ev) (h : e ∈ (s.step o).2) : ∃ i, (s.run i).2 = some e := by
  cases o with
  | run i =>
    simp only [RtxSys.step] at h
    refine ⟨i, ?_⟩
    cases hr : (s.run i).2 with
    | none => simp [hr] at h
    | some e' => simp [hr] at h; rw [h]
  | _ => simp [RtxSys.step] at h

theorem exec_snd_cons (s : RtxSys) (o : Op) (os : List Op) :
    (s.exec (o :: os)).2 = (s.step o).2 ++ ((s.step o).1.exec os).2 := by simp [RtxSys.exec]

/-- a started timer with a budget has not used it up (no tameness needed) -/
def Budget (s : RtxSys) : Prop := s.t.maxRetrans ≠ 0 → s.t.state = .started → s.t.nRtos ≤ s.t.maxRetrans

theorem budget_new (tid k : Nat) : Budget (RtxSys.new tid k) := by
  intro _ h; simp [RtxSys.new] at h

theorem budget_step (s : RtxSys) (o : Op) (b : Budget s) : Budget (s.step o).1 := by
  cases o with
  | start ivl =>
    simp only [RtxSys.step, RtxSys.start]
    split
    · exact b
    · intro _ _; simp
  | stop =>
    simp only [RtxSys.step, RtxSys.stop]
    split
    · intro _ hx; simp at hx
    · exact b
  | close => simp only [RtxSys.step, RtxSys.close]; split <;> (intro _ hx; simp at hx)
  | fire => simp only [RtxSys.step, RtxSys.fire]; split <;> exact b
  | tick d => exact b
  | run i =>
    simp only [RtxSys.step, RtxSys.run, RtxSys.timeout]
    split
    · split
      · split
        · rename_i hb
          intro hk _
          simp only at hk ⊢
          rcases hb with hb | hb
          · exact absurd hb hk
          · exact hb
        · intro _ hx; simp at hx
      · exact b
    · exact b

theorem budget_exec (s : RtxSys) (os : List Op) (b : Budget s) : Budget (s.exec os).1 := by
  induction os generalizing s with
  | nil => exact b
  | cons o os ih => rw [exec_fst_cons]; exact ih _ (budget_step s o b)

/-- with `maxRetrans = 0` no interleaving whatsoever reports failure -/
theorem no_failure_of_zero (s : RtxSys) (os : List Op) (hk : s.t.maxRetrans = 0) :
    ∀ e ∈ (s.exec os).2, ∀ x, e ≠ .failure x := by
  induction os generalizing s with
  | nil => intro e he; simp [RtxSys.exec] at he
  | cons o os ih =>
    intro e he x hx
    rw [exec_snd_cons, List.mem_append] at he
    rcases he with he | he
    · obtain ⟨i, hi⟩ := step_events s o e he
      rcases run_event s i e hi with ⟨h1, _⟩ | ⟨_, h2, _⟩
      · rw [h1] at hx; cases hx
      · exact h2 hk
    · exact ih _ (by rw [(const_step s o).2]; exact hk) e he x hx


/-- what `run` leaves alone / changes, branch by branch -/
theorem run_frame (s : RtxSys) (i : Nat) (hi : i < s.g.spawned.length) :
    (s.run i).1.g.spawned = s.g.spawned.eraseIdx i ∧ (s.run i).1.epoch = s.epoch ∧
    ((s.run i).2 = none → (s.run i).1.t.state = s.t.state ∧ (s.run i).1.g.armed = s.g.armed) ∧
    ((s.run i).2.isSome → (s.run i).1.g.armed.isSome ∨ (s.run i).1.t.state = .stopped) := by
  simp only [RtxSys.run, hi, if_true, RtxSys.timeout]
  split
  · split
    · simp [GoTimer.reset]
    · simp
  · simp

/-- a started timer always has an expiry on its way: the runtime timer is armed or a fired
callback is still outstanding -/
def Alive (s : RtxSys) : Prop := s.t.state = .started → 1 ≤ live s.g

theorem alive_step (s : RtxSys) (o : Op) (h : RInv tid k s) (a : Alive s) : Alive (s.step o).1 := by
  cases o with
  | start ivl =>
    simp only [RtxSys.step, RtxSys.start]
    split
    · exact a
    · intro _; simp [live, GoTimer.reset]
  | stop =>
    simp only [RtxSys.step, RtxSys.stop]
    split
    · intro hx; simp at hx
    · exact a
  | close => simp only [RtxSys.step, RtxSys.close]; split <;> (intro hx; simp at hx)
  | fire =>
    simp only [RtxSys.step, RtxSys.fire]
    split
    · rename_i ha
      obtain ⟨⟨d, tag⟩, hx⟩ := Option.isSome_iff_exists.mp ha
      intro _; simp [live, GoTimer.fire, hx]
    · exact a
  | tick d => exact a
  | run i =>
    simp only [RtxSys.step]
    by_cases hi : i < s.g.spawned.length
    · obtain ⟨e3, _, hnone, hsome⟩ := run_frame s i hi
      have hd := run_delivers_iff s i h hi
      have hlen : (s.g.spawned.eraseIdx i).length = s.g.spawned.length - 1 := List.length_eraseIdx_of_lt hi
      intro hst
      cases hr : (s.run i).2 with
      | some e =>
        rcases hsome (by rw [hr]; rfl) with hx | hx
        · unfold live; rw [if_pos hx]; omega
        · rw [hx] at hst; cases hst
      | none =>
        obtain ⟨e1, e2⟩ := hnone hr
        rw [e1] at hst
        have hnd : ¬ (s.t.state = .started ∧ s.g.armed = none ∧ s.g.spawned.length = 1) := by
          intro hx; have := hd.mpr hx; rw [hr] at this; simp at this
        unfold live; rw [e2, e3, hlen]
        by_cases ha : s.g.armed.isSome = true
        · rw [if_pos ha]; omega
        · rw [if_neg ha]
          have hna : s.g.armed = none := by
            cases hx : s.g.armed with
            | none => rfl
            | some x => rw [hx] at ha; simp at ha
          have : s.g.spawned.length ≠ 1 := fun hl => hnd ⟨hst, hna, hl⟩
          omega
    · simp only [RtxSys.run, hi, if_false]; exact a

theorem alive_exec (s : RtxSys) (os : List Op) (h : RInv tid k s) (a : Alive s) (ht : RtxSys.Tame s os) :
    Alive (s.exec os).1 := by
  induction os generalizing s with
  | nil => exact a
  | cons o os ih => rw [exec_fst_cons]; exact ih _ (rinv_step s o h ht.1) (alive_step s o h a) ht.2

/-! ### callbacks that run in the order they were spawned -/

/-- every `run` takes the oldest outstanding callback -/
def Fifo (ops : List Op) : Prop := ∀ o ∈ ops, ∀ i, o = Op.run i → i = 0

structure FInv (s : RtxSys) : Prop where
  le : ∀ t ∈ s.g.spawned, t ≤ s.epoch
  armedLt : s.g.armed.isSome → ∀ t ∈ s.g.spawned, t < s.epoch
  due : s.t.state = .started → s.g.armed = none →
    ∃ init, s.g.spawned = init ++ [s.epoch] ∧ ∀ t ∈ init, t < s.epoch

theorem finv_new (tid k : Nat) : FInv (RtxSys.new tid k) := by
  constructor <;> simp [RtxSys.new]

theorem finv_step (s : RtxSys) (o : Op) (h : RInv tid k s) (f : FInv s) (hf : ∀ i, o = Op.run i → i = 0) :
    FInv (s.step o).1 := by
  cases o with
  | start ivl =>
    simp only [RtxSys.step, RtxSys.start]
    split
    · exact f
    · constructor
      · intro t ht; have := f.le t ht; simp; omega
      · intro _ t ht; have := f.le t ht; simp; omega
      · intro _ hx; simp [GoTimer.reset] at hx
  | stop =>
    simp only [RtxSys.step, RtxSys.stop]
    split
    · constructor
      · exact f.le
      · intro hx; simp at hx
      · intro hx; simp at hx
    · exact f
  | close =>
    simp only [RtxSys.step, RtxSys.close]
    split
    · constructor
      · exact f.le
      · intro hx; simp at hx
      · intro hx; simp at hx
    · constructor
      · exact f.le
      · exact f.armedLt
      · intro hx; simp at hx
  | fire =>
    simp only [RtxSys.step, RtxSys.fire]
    split
    · rename_i ha
      obtain ⟨⟨d, tag⟩, hx⟩ := Option.isSome_iff_exists.mp ha
      have htag := h.armedTag d tag hx
      subst htag
      simp only [GoTimer.fire, hx]
      constructor
      · intro t ht
        simp only [List.mem_append, List.mem_singleton] at ht
        rcases ht with ht | ht
        · exact f.le t ht
        · rw [ht]; exact Nat.le_refl _
      · intro hx; simp at hx
      · intro _ _; exact ⟨s.g.spawned, rfl, f.armedLt ha⟩
    · exact f
  | tick d => exact ⟨f.le, f.armedLt, f.due⟩
  | run i =>
    have hi0 : i = 0 := hf i rfl
    subst hi0
    by_cases hi : 0 < s.g.spawned.length
    · have hd := run_delivers_iff s 0 h hi
      obtain ⟨e3, e4, hnone, hsome⟩ := run_frame s 0 hi
      simp only [RtxSys.step]
      obtain ⟨hd0, tl, hsp⟩ : ∃ hd0 tl, s.g.spawned = hd0 :: tl := by
        cases hs : s.g.spawned with
        | nil => simp [hs] at hi
        | cons a b => exact ⟨a, b, rfl⟩
      rw [hsp, List.eraseIdx_cons_zero] at e3
      have hsub : ∀ t ∈ tl, t ∈ s.g.spawned := fun t ht => by rw [hsp]; exact List.mem_cons_of_mem _ ht
      by_cases hdel : (s.run 0).2.isSome
      · obtain ⟨hst, hna, hl1⟩ := hd.mp hdel
        have htl : tl = [] := by rw [hsp] at hl1; simpa using hl1
        constructor
        · intro t ht; rw [e3, htl] at ht; simp at ht
        · intro _ t ht; rw [e3, htl] at ht; simp at ht
        · intro hst' hna'
          rcases hsome hdel with hx | hx
          · rw [hna'] at hx; simp at hx
          · rw [hx] at hst'; cases hst'
      · have hnd : ¬ (s.t.state = .started ∧ s.g.armed = none ∧ s.g.spawned.length = 1) := fun hx => hdel (hd.mpr hx)
        have hn : (s.run 0).2 = none := by
          cases hr : (s.run 0).2 with
          | none => rfl
          | some e => rw [hr] at hdel; simp at hdel
        obtain ⟨e1, e2⟩ := hnone hn
        constructor
        · intro t ht; rw [e3] at ht; rw [e4]; exact f.le t (hsub t ht)
        · intro ha t ht; rw [e3] at ht; rw [e2] at ha; rw [e4]
          exact f.armedLt ha t (hsub t ht)
        · intro hst hna
          rw [e1] at hst; rw [e2] at hna; rw [e3, e4]
          obtain ⟨init, hinit, hlt⟩ := f.due hst hna
          cases init with
          | nil =>
            exfalso; apply hnd
            exact ⟨hst, hna, by rw [hinit]; simp⟩
          | cons a init' =>
            rw [hsp] at hinit
            simp only [List.cons_append, List.cons.injEq] at hinit
            exact ⟨init', hinit.2, fun t ht => hlt t (List.mem_cons_of_mem _ ht)⟩
    · simp only [RtxSys.step, RtxSys.run, hi, if_false]; exact ⟨f.le, f.armedLt, f.due⟩

theorem finv_exec (s : RtxSys) (os : List Op) (h : RInv tid k s) (f : FInv s)
    (ht : RtxSys.Tame s os) (hf : Fifo os) : FInv (s.exec os).1 := by
  induction os generalizing s with
  | nil => exact f
  | cons o os ih =>
    rw [exec_fst_cons]
    exact ih _ (rinv_step s o h ht.1) (finv_step s o h f (fun i hi => hf o (List.mem_cons_self ..) i hi))
      ht.2 (fun o' ho' => hf o' (List.mem_cons_of_mem _ ho'))

/-- in-order execution: the oldest callback reaches the observer iff the timer is started and
that callback stems from an arming made by (or after) the latest `start` -/
theorem fifo_delivers_iff (s : RtxSys) (h : RInv tid k s) (f : FInv s) (hi : 0 < s.g.spawned.length) :
    (s.run 0).2.isSome ↔ (s.t.state = .started ∧ s.g.spawned.head? = some s.epoch) := by
  rw [run_delivers_iff s 0 h hi]
  constructor
  · rintro ⟨hst, hna, hl1⟩
    obtain ⟨init, hinit, _⟩ := f.due hst hna
    refine ⟨hst, ?_⟩
    cases init with
    | nil => rw [hinit]; rfl
    | cons a b => rw [hinit] at hl1; simp at hl1
  · rintro ⟨hst, hhd⟩
    have hna : s.g.armed = none := by
      cases ha : s.g.armed with
      | none => rfl
      | some x =>
        exfalso
        have hlt := f.armedLt (by rw [ha]; rfl)
        cases hs : s.g.spawned with
        | nil => simp [hs] at hi
        | cons a b =>
          rw [hs] at hhd; simp at hhd
          have := hlt a (by rw [hs]; exact List.mem_cons_self ..)
          omega
    obtain ⟨init, hinit, hlt⟩ := f.due hst hna
    refine ⟨hst, hna, ?_⟩
    cases init with
    | nil => rw [hinit]; rfl
    | cons a b =>
      exfalso
      rw [hinit] at hhd; simp at hhd
      have := hlt a (List.mem_cons_self ..)
      omega

end TimerProofs
