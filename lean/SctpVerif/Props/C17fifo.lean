import SctpVerif.Proofs.NetSys.SelPendQ
/-!
# C17 — the message policy with ordered chunks only is ONE first-in-first-out queue

Property theorems only; about the L0 model `PendQ` of pending_queue.go (tied to the Go code by `TestVerifPendQ`), like
`Props/C17.lean`. It is the PendQ-side justification of the hypothesis `SelFifo` of `C01.C01_netsys_prefix_fifo`
(`Props/C01sel.lean`).

**What links the two worlds.** In `Model/Sender.lean` the pending queue is the list `pending` in PUSH order
(`pushPending` appends the fragments `packetize` made; `popPend` erases the index `peek` named), and the index `peek`
returns is the oracle `sel`. Here the queue is `PQ.contents` (for the message policy: the unordered queue followed by the
ordered queue), and `C17_ordered_only_fifo` says: if only ordered chunks are ever pushed (what `Stream.packetize` produces
on ordered streams: `unordered = ppi != DCEP && s.unordered`), then pushes = pops ++ contents in push order, and every
`peek` / `pop` is handed `contents.head?` — the OLDEST queued chunk, which in a list kept in push order is index 0.
So the real queue's answer, expressed as an index into `Sender.St.pending`, is `0` every time: `SelFifo`.

**The composition.** `Model/NetSysQ.lean` puts the two models together: the message policy `MsgPol` runs next to the sender
state, is pushed every chunk a write queues, and a gather's selection list is what draining it hands out, each chunk looked
up by identity in the pending list. `C01.C01_netsysq_selfifo` / `C01_netsysq_prefix` / `C01_netsysq_no_queue_error`
(`Props/C01sel.lean`) are about that composed model (their proofs use the invariant `QI` of `Proofs/NetSys/SelQ.lean`, the
step-by-step form of the theorem below).

**What is still not a theorem.** That the REAL queue and the real pending-order bookkeeping behave as the models say.
`PendQ` is tied to pending_queue.go by `TestVerifPendQ`; the oracle values are tied by the `as` correspondence harness:
`go/harness/assoc_test.go` keeps a white-box shadow of the real queue in push order and logs, per gather, the shadow
indices of the chunks the REAL `pendingQueue` handed out (`as ora … sel=`); the driver replays them through
`Sender.gather` (DIFF on any disagreement in the packets) and the predicate `[C01,C17]` of `Driver/Assoc.lean` checks on
the implementation's own log that in a non-interleaved sequence whose streams are all ordered every logged index is 0.
-/
namespace C17
open PendQ

variable {α : Type} [Num α]

/-- **Ordered-only traffic under the message policy is globally FIFO.** Take any scheduler factory and any list of
push / peek / pop operations on a fresh queue (no `setInterleaving`: the message policy) in which every pushed chunk is
ordered. Then (i) the chunks pushed so far are the chunks popped so far, in the same order, followed by the queue
contents — pops come out in PUSH order across all streams; (ii) the next `peek` returns the oldest queued chunk (nil
iff the queue is empty); (iii) the next `pop` (as the association does it: peek, then pop what was peeked) is handed the
oldest queued chunk. Since `ops` is arbitrary, (ii) and (iii) hold at every point of every run. No hypothesis on how
messages are fragmented (B / E flags arbitrary). -/
theorem C17_ordered_only_fifo (f : Factory) (ops : List Op) (hops : ∀ o ∈ ops, o.basic = true)
    (hord : ∀ c ∈ pushesOf ((PQ.new f : PQ α).run ops).2, c.unordered = false) :
    let r := (PQ.new f : PQ α).run ops
    pushesOf r.2 = popsOf r.2 ++ r.1.contents ∧
    (r.1.step .peek).2 = .peeked (.chunk r.1.contents.head?) ∧
    ∃ res, (r.1.step .pop).2 = .popped r.1.contents.head? res :=
  ordered_only_fifo f ops hops hord

/-- **… expressed as an index: 0.** Let `pend` be ANY list kept in push order whose image under a view `v` is the queue
contents (the list `Sender.St.pending` of the sender model with `v` = the scheduler-visible fields of a chunk; the harness'
white-box shadow of the real queue). Under the hypotheses of `C17_ordered_only_fifo` the chunk the next `peek` returns
and the chunk the next `pop` is handed are the view of `pend[0]` — the selection oracle of the sender model is index 0. -/
theorem C17_ordered_only_index_zero {β : Type} (f : Factory) (ops : List Op) (hops : ∀ o ∈ ops, o.basic = true)
    (hord : ∀ c ∈ pushesOf ((PQ.new f : PQ α).run ops).2, c.unordered = false)
    (pend : List β) (v : β → Chunk) (hv : pend.map v = ((PQ.new f : PQ α).run ops).1.contents) :
    let r := (PQ.new f : PQ α).run ops
    (r.1.step .peek).2 = .peeked (.chunk (pend[0]?.map v)) ∧
    ∃ res, (r.1.step .pop).2 = .popped (pend[0]?.map v) res := by
  obtain ⟨_, h2, h3⟩ := ordered_only_fifo f ops hops hord
  have hh : ((PQ.new f : PQ α).run ops).1.contents.head? = pend[0]?.map v := by
    rw [← hv, List.head?_map, List.head?_eq_getElem?]
  rw [hh] at h2 h3
  exact ⟨h2, h3⟩

/-! ## tests by evaluation and non-vacuity (`decide` on a concrete run — a test, not a theorem) -/

-- two ordered streams, a fragmented message on each, pops in between, a stale peek
private def exOrd : List Op :=
  [.push ⟨0, 1, false, true, false, 5⟩, .push ⟨1, 1, false, false, true, 3⟩, .pop, .peek,
   .push ⟨2, 2, false, true, false, 4⟩, .push ⟨3, 2, false, false, true, 4⟩, .pop, .pop]

example : popsOf ((PQ.new .none : PQ Rat).run exOrd).2 =
      [⟨0, 1, false, true, false, 5⟩, ⟨1, 1, false, false, true, 3⟩, ⟨2, 2, false, true, false, 4⟩] ∧
    ((PQ.new .none : PQ Rat).run exOrd).1.contents = [⟨3, 2, false, false, true, 4⟩] := by decide

-- non-vacuity: the hypotheses hold for this run
example : ∃ res, ((((PQ.new .none : PQ Rat).run exOrd).1.step .pop).2 = .popped (some ⟨3, 2, false, false, true, 4⟩) res) := by
  have h := (C17_ordered_only_fifo (α := Rat) .none exOrd (by decide) (by decide)).2.2
  have hc : ((PQ.new .none : PQ Rat).run exOrd).1.contents.head? = some ⟨3, 2, false, false, true, 4⟩ := by decide
  rw [hc] at h
  exact h

-- test: with an unordered chunk queued the policy is NOT globally FIFO (the unordered message overtakes)
example : popsOf ((PQ.new .none : PQ Rat).run
    [.push ⟨0, 1, false, true, true, 5⟩, .push ⟨1, 2, true, true, true, 3⟩, .pop]).2 = [⟨1, 2, true, true, true, 3⟩] := by decide

end C17
