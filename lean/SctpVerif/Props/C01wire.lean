import SctpVerif.Proofs.Sender
/-!
# C01 / C06 (sender half) — what goes on the wire is what the application wrote

Property theorems only, about the L0 sender model `Model/Sender.lean` (tied to association.go / stream.go by the direct-drive
correspondence: every `as` line of the real Association is replayed through it).

C01 says every message is delivered "intact"; C06 says every message handed to the reader is "byte-for-byte one of the
messages written on that stream with its identifier … never … a splice of several messages". The receiver-side theorems
(`C01_reasm_ordered`, `C11`) assume that the chunks arriving are fragments of the written messages. This file proves that
assumption for the sender, for ALL runs: whatever happens between writing and sending (window stalls, zero-window probes,
T3 expiries, RACK / PTO marks, fast retransmissions, SACKs with arbitrary contents, partial-reliability abandonment),
every DATA / I-DATA chunk that any `gather` puts on the wire

* is a faithful copy of a chunk created by an accepted `write` of that run: same stream, message identity, PPI, U/B/E flags,
  SSN, MID, FSN and payload length (`Chunk.frag`, `len`); only its TSN and its transmission bookkeeping were added;
* is not a chunk the peer has already acknowledged (`acked = false`: acknowledged chunks have released their payload —
  `markAsAcked` sets `userData = nil` — so retransmitting one would put an EMPTY fragment of the message on the wire).

and the chunks a write creates are exactly the fragments of ONE message: consecutive FSNs from 0, `B` on the first, `E` on
the last, lengths between 1 and the payload limit that sum to the message length, one SSN / MID, one message identity.

The payload BYTES are not in this model (only lengths): that a chunk's bytes are the corresponding slice of the written
buffer is a fact about `packetize` copying slices, observed by the end-to-end runs (`P_C01` compares content hashes).
-/
namespace C01
open Gen Sender SenderProofs

/-- **Faithful wire.** Every chunk any gather of any run puts on the wire is an un-acknowledged, faithful copy of a chunk
created by an accepted write of that run. ALL configurations, initial TSNs and windows, ALL operation lists
(`openS / unreg / setEstablished / write / gather / sack / t3 / tick` with arbitrary SACK contents and oracle values). -/
theorem C01_wire_faithful (cfg : Cfg) (tsn peerRwnd : BitVec 32) (ops : List Op) :
    ∀ e ∈ wire (init cfg tsn peerRwnd) ops,
      e.acked = false ∧ ∃ w ∈ written (init cfg tsn peerRwnd) ops, Chunk.frag e = Chunk.frag w ∧ e.len = w.len := by
  intro e he
  have := run_wire (W := []) (init cfg tsn peerRwnd) ops (init_wire cfg tsn peerRwnd) e he
  simpa [Emitted] using this

/-- the same from ANY state whose queues are already faithful (e.g. any reachable one): later operations cannot corrupt
a queued chunk -/
theorem C01_wire_faithful_from (W : List Chunk) (s : St) (hw : WireInv W s) (ops : List Op) :
    ∀ e ∈ wire s ops, e.acked = false ∧ ∃ w ∈ W ++ written s ops, Chunk.frag e = Chunk.frag w ∧ e.len = w.len :=
  fun e he => run_wire s ops hw e he

/-- **An acknowledged chunk is never flagged for retransmission** in any reachable state (T3 marking, RACK / PTO marks
and fast retransmit all skip it), and every queued chunk is a copy of a written one. -/
theorem C01_acked_never_marked (cfg : Cfg) (tsn peerRwnd : BitVec 32) (ops : List Op) :
    ∀ c ∈ (run (init cfg tsn peerRwnd) ops).inflight, c.acked = true → c.retransmit = false := by
  have key : ∀ (ops : List Op) (W : List Chunk) (s : St), WireInv W s → ∃ W', WireInv W' (run s ops) := by
    intro ops
    induction ops with
    | nil => intro W s h; exact ⟨W, h⟩
    | cons op ops ih => intro W s h; exact ih _ _ (step_wire s op h).1
  obtain ⟨W', h⟩ := key ops [] _ (init_wire cfg tsn peerRwnd)
  exact fun c hc => (h.inf c hc).2

/-- **A write creates the fragments of exactly one message.** For every state and every accepted write (`writeChunks`
non-empty), the i-th chunk carries FSN `i`, `B` iff `i = 0`, `E` iff it is the last, the write's message identity, one
SSN and MID, the PPI, and `unordered` only if the stream is unordered and the PPI is not DCEP (C06: data-channel control
messages are always ordered); the lengths are between 1 and the payload limit and sum to the message length. -/
theorem C01_write_fragments (s : St) (si : BitVec 16) (ppi : BitVec 32) (len : Nat) (st : Stream)
    (hs : s.streams si = some st) (hne : writeChunks s si ppi len ≠ []) :
    let p := packetize s.cfg st si s.nextMsg ppi len
    writeChunks s si ppi len = p.chunks ∧
    sumLen p.chunks = len ∧
    (∀ c ∈ p.chunks, 0 < c.len ∧ c.len ≤ s.cfg.maxPayload.toNat) ∧
    (∀ i c, p.chunks[i]? = some c →
      c.si = si ∧ c.msg = s.nextMsg ∧ c.ppi = ppi ∧
      c.unordered = (ppi != BitVec.ofNat 32 PayloadTypeWebRTCDCEP && st.unordered) ∧
      c.fsn = BitVec.ofNat 32 i ∧ c.bfrag = (i == 0) ∧ c.efrag = (i + 1 == p.chunks.length) ∧
      c.ssn = (p.chunks.headD c).ssn ∧ c.mid = (p.chunks.headD c).mid) := by
  intro p
  have hwc : writeChunks s si ppi len = p.chunks ∧ s.cfg.maxPayload ≠ 0 := by
    unfold writeChunks at hne ⊢
    simp only [hs] at hne ⊢
    split at hne
    · exact absurd rfl hne
    · split at hne
      · exact absurd rfl hne
      · rename_i h1 h2
        split at hne
        · exact absurd rfl hne
        · rename_i h3
          split at hne
          · rename_i h4; simp only [h1, h2, h3, h4, if_false, if_true]; exact ⟨rfl, h3⟩
          · exact absurd rfl hne
  obtain ⟨hw, hmp⟩ := hwc
  obtain ⟨_, _, _, hsum, _, hlen, _⟩ := packetize_spec s.cfg st si s.nextMsg ppi len hmp
  refine ⟨hw, hsum, fun c hc => ⟨(hlen c hc).1, (hlen c hc).2.1⟩, ?_⟩
  intro i c hic
  have hlenEq : p.chunks.length = (fragSizes s.cfg.maxPayload.toNat len).length := by
    simp only [p, packetize]; exact (mkChunks_spec _ _ _ _ _ _ _ _ _).2.2.1
  have hg := mkChunks_get _ _ _ _ _ _ _ _ _ i c (by simpa only [p, packetize] using hic)
  obtain ⟨g1, g2, g3, g4, g5, g6, g7, g8, g9, _⟩ := hg
  have hhead : ∀ h0, p.chunks[0]? = some h0 → h0.ssn = c.ssn ∧ h0.mid = c.mid := by
    intro h0 hh
    have := mkChunks_get _ _ _ _ _ _ _ _ _ 0 h0 (by simpa only [p, packetize] using hh)
    exact ⟨this.2.2.2.2.1.trans g5.symm, this.2.2.2.2.2.1.trans g6.symm⟩
  refine ⟨g1, g2, g3, g4, by simpa using g7, by simpa using g8, by rw [hlenEq]; exact g9, ?_, ?_⟩
  · cases hq : p.chunks with
    | nil => rfl
    | cons h0 r => simp only [List.headD_cons]; exact ((hhead h0 (by simp [hq])).1).symm
  · cases hq : p.chunks with
    | nil => rfl
    | cons h0 r => simp only [List.headD_cons]; exact ((hhead h0 (by simp [hq])).2).symm

/-- **Message identity.** Two chunks created by the writes of a run that carry the same message identity were created by
the same write: same stream, PPI, ordering flag, SSN and MID; with the same FSN they are the same chunk. Together with
`C01_wire_faithful`: the chunks on the wire that carry identity `m` are copies of the fragments of exactly one written
message — no gather can splice fragments of two messages under one (stream, SSN / MID). -/
theorem C01_message_identity (cfg : Cfg) (tsn peerRwnd : BitVec 32) (ops : List Op) :
    ∀ a ∈ written (init cfg tsn peerRwnd) ops, ∀ b ∈ written (init cfg tsn peerRwnd) ops, a.msg = b.msg →
      a.si = b.si ∧ a.ppi = b.ppi ∧ a.unordered = b.unordered ∧ a.ssn = b.ssn ∧ a.mid = b.mid ∧ (a.fsn = b.fsn → a = b) :=
  written_same_msg _ ops

-- non-vacuity (tests, by evaluation): a 2500-byte message is written, sent as 3 fragments, the first one is lost and
-- retransmitted after T3; the wire then carries 4 chunks, all of message 0, FSNs 0,1,2,0.
private def cfg0 : Cfg := { mtu := 1200, maxPayload := 1168 }
private def ops0 : List Op :=
  [.openS 1 false 0 0 0, .write 1 53 2500, .gather freeOracle [0, 0, 0], .sack 100 65536 [(2, 3)] [], .t3, .gather freeOracle []]
example : (wire (init cfg0 101 65536) ops0).map (fun c => (c.tsn, c.msg, c.fsn, c.len, c.bfrag, c.efrag)) =
    [(101#32, 0, 0#32, 1168, true, false), (102#32, 0, 1#32, 1168, false, false), (103#32, 0, 2#32, 164, false, true),
     (101#32, 0, 0#32, 1168, true, false)] := by decide
example : (written (init cfg0 101 65536) ops0).map (·.len) = [1168, 1168, 164] := by decide
example : writeChunks (run (init cfg0 101 65536) [.openS 1 false 0 0 0]) 1 53 2500 ≠ [] := by decide

end C01
