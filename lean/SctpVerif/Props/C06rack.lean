import SctpVerif.Proofs.Rack.Marks
/-!
# C06 / C07 — loss recovery never touches an acknowledged or abandoned chunk (RACK, RACK timer, PTO, TLR)

Property theorems only, on `Model/Rack.lean`. A chunk whose message was abandoned (partial reliability) or that the
peer has acknowledged must never be flagged for retransmission again: a flagged chunk is put on the wire by the next
`getDataPacketsToRetransmit` without any further test of `abandoned()`. The four places that set the flag are
`onRackAfterSACK`, `onRackTimeoutLocked`, `onPTOTimerLocked` (and `timerLoop`, which calls the last two); TLR only
gates sending and selects nothing but the TSN that ends the episode.

`Rack.Outstanding q t`: in the store `q` the TSN `t` names a chunk that is neither acked nor abandoned.
`Rack.flagged q m`: `q` with the retransmit flag set on the chunks whose TSN is in `m`, nothing else changed.
-/
namespace C06
open Rack Gen

/-- ✱ Every marking path flags only chunks that are neither acknowledged nor abandoned, and changes NOTHING else in the
chunk store — for every state, every environment reading and every SACK summary:
`onRackAfterSACK`, the RACK timer callback, the PTO callback, and `timerLoop` firing both. -/
theorem C06_rack_skips_abandoned (s : St) (env : Env) (found : Bool) (nt : Int) (ntsn : BitVec 32) (nd : Int) :
    -- RACK on a SACK
    ((onRackAfterSACK s env found nt ntsn nd).1.q = flagged s.q (onRackAfterSACK s env found nt ntsn nd).2 ∧
      ∀ t ∈ (onRackAfterSACK s env found nt ntsn nd).2, Outstanding s.q t) ∧
    -- RACK timer
    ((onRackTimeout s env).1.q = flagged s.q (onRackTimeout s env).2 ∧ ∀ t ∈ (onRackTimeout s env).2, Outstanding s.q t) ∧
    -- PTO: at most one chunk, and it is in the store, unacknowledged, not abandoned
    ((onPTOTimer s env).2 = [] ∧ (onPTOTimer s env).1.q = s.q ∨
      ∃ c ∈ s.q, c.acked = false ∧ c.abandoned = false ∧ (onPTOTimer s env).2 = [c.tsn] ∧
        (onPTOTimer s env).1.q = flagged s.q [c.tsn]) := by
  refine ⟨⟨onRackAfterSACK_q _ _ _ _ _ _, fun t ht => ?_⟩, ⟨onRackTimeout_q _ _, fun t ht => ?_⟩, ?_⟩
  · exact (onRackAfterSACK_marks _ _ _ _ _ _ t ht).2.1.outstanding sackWalk_std
  · exact (onRackTimeout_marks _ _ t ht).2.1.outstanding timeoutWalk_std
  · by_cases hq : s.q = []
    · left; exact onPTOTimer_idle s env hq
    · rw [onPTOTimer_eq s env hq]
      by_cases hp : 0 < env.pendingSize
      · left; simp [hp]
      · simp only [hp, ↓reduceIte]
        cases hl : ptoLatest s with
        | none => left; simp
        | some c =>
          have hs := ptoLatest_spec s c hl
          cases hr : c.retransmit
          · right
            refine ⟨c, hs.1, hs.2.1, hs.2.2, ?_, ?_⟩
            · simp only [hr, Bool.false_eq_true, ↓reduceIte]
            · simp only [hr, Bool.false_eq_true, ↓reduceIte, modify_setRtx_eq_flagged]
          · left; simp [hr]

/-- with distinct TSNs in the in-flight queue (they are consecutive in the code) this reads: an acknowledged or abandoned
chunk comes out of every marking path exactly as it went in -/
theorem C06_rack_dead_chunks_untouched (s : St) (env : Env) (found : Bool) (nt : Int) (ntsn : BitVec 32) (nd : Int)
    (hnd : (s.q.map (·.tsn)).Nodup) (c : Chunk) (hc : c ∈ s.q) (hdead : c.acked = true ∨ c.abandoned = true) :
    c ∈ (onRackAfterSACK s env found nt ntsn nd).1.q ∧ c ∈ (onRackTimeout s env).1.q ∧ c ∈ (onPTOTimer s env).1.q := by
  -- `find` returns the chunk itself when TSNs are distinct
  have hfind : find s.q c.tsn = some c := by
    have : ∀ (q : List Chunk), (q.map (·.tsn)).Nodup → c ∈ q → find q c.tsn = some c := by
      intro q
      induction q with
      | nil => intro _ h; cases h
      | cons x q ih =>
        intro hn hm
        rw [find_cons]
        rw [List.map_cons, List.nodup_cons] at hn
        rcases List.mem_cons.mp hm with rfl | hm
        · simp
        · have : x.tsn ≠ c.tsn := fun h => hn.1 (h ▸ List.mem_map_of_mem hm)
          simp only [beq_iff_eq, this, ↓reduceIte]
          exact ih hn.2 hm
    exact this s.q hnd hc
  have notOut : ¬ Outstanding s.q c.tsn := by
    rintro ⟨c', hc', ha, hb⟩
    rw [hfind] at hc'; cases hc'
    rcases hdead with h | h <;> simp_all
  have keep : ∀ m : List (BitVec 32), (∀ t ∈ m, Outstanding s.q t) → c ∈ flagged s.q m := by
    intro m hm
    unfold flagged
    refine List.mem_map.mpr ⟨c, hc, ?_⟩
    have : c.tsn ∉ m := fun h => notOut (hm _ h)
    simp [this]
  have h := C06_rack_skips_abandoned s env found nt ntsn nd
  refine ⟨?_, ?_, ?_⟩
  · rw [h.1.1]; exact keep _ h.1.2
  · rw [h.2.1.1]; exact keep _ h.2.1.2
  · rcases h.2.2 with ⟨_, hq⟩ | ⟨c', hc', ha, hb, _, hq⟩
    · rw [hq]; exact hc
    · rw [hq]
      apply keep
      intro t ht
      simp only [List.mem_singleton] at ht
      subst ht
      have hf' : find s.q c'.tsn = some c' := by
        have : ∀ (q : List Chunk), (q.map (·.tsn)).Nodup → c' ∈ q → find q c'.tsn = some c' := by
          intro q
          induction q with
          | nil => intro _ h; cases h
          | cons x q ih =>
            intro hn hm
            rw [find_cons]
            rw [List.map_cons, List.nodup_cons] at hn
            rcases List.mem_cons.mp hm with rfl | hm
            · simp
            · have : x.tsn ≠ c'.tsn := fun h => hn.1 (h ▸ List.mem_map_of_mem hm)
              simp only [beq_iff_eq, this, ↓reduceIte]
              exact ih hn.2 hm
        exact this s.q hnd hc'
      exact ⟨c', hf', ha, hb⟩

/-- the SACK as a whole (`processSelectiveAck` bookkeeping, `onRackAfterSACK`, `tlrMaybeFinishLocked`): every TSN it
reports as marked names a chunk that is outstanding in the queue as the SACK left it -/
theorem C06_rack_sack_marks_outstanding (s : St) (env : Env) (cum : BitVec 32) (gaps : List (BitVec 32)) (nd : Int) (nm : Nat)
    (s' : St) (marks : List (BitVec 32)) (h : sack s env cum gaps nd nm = some (s', marks)) :
    ∀ t ∈ marks, Outstanding s'.q t := by
  unfold sack at h
  split at h
  · cases h
  · next r _ =>
    simp only [Option.some.injEq, afterAck] at h
    intro t ht
    have hq := congrArg (·.1.q) h
    have hm := congrArg (·.2) h
    simp only [tlrMaybeFinish_q] at hq hm
    subst hm
    rw [← hq, onRackAfterSACK_q, outstanding_flagged]
    exact (onRackAfterSACK_marks _ _ _ _ _ _ t ht).2.1.outstanding sackWalk_std

/-- T3 (`markAllToRetrasmit`), the remaining writer of the flag, skips them too -/
theorem C06_t3_skips_abandoned (s : St) (c : Chunk) (hc : c ∈ s.q) (hdead : c.acked = true ∨ c.abandoned = true) :
    c ∈ (t3 s).q := by
  unfold t3
  refine List.mem_map.mpr ⟨c, hc, ?_⟩
  rcases hdead with h | h <;> simp [h]

-- non-vacuity: a SACK-time walk over an abandoned and a live chunk, both overdue: only the live one is marked
example :
    (onRackAfterSACK { (default : St) with now := 100, deliveredTime := 50, list := [1, 2], q := [({ tsn := 1, since := 10, abandoned := true } : Chunk), ({ tsn := 2, since := 10 } : Chunk)] } {} false 0 0 0).2 = [2] := by decide

-- the hypothesis of C06_rack_dead_chunks_untouched (distinct TSNs) holds for queues the code builds
example : (([({ tsn := 1, since := 10, abandoned := true } : Chunk), ({ tsn := 2, since := 10 } : Chunk)]).map (·.tsn)).Nodup := by decide

end C06
