import SctpVerif.Proofs.Reset.Perf
/-!
# C16 — sequence-number wrap-around is invisible: the performed-reset bookkeeping (D10 fix)

`Rs.PerfSet` is `performedResetRSNs` / `newestPerformedReset` with `rememberPerformedReset` exactly as in
association.go (uint32, `Gen.sna32LT`, trimming). The harness drives the real method in bulk (`rs remember`) and the
driver compares every call with this model.
-/
namespace C16
open Rs

/-- The bookkeeping commutes with adding a constant to every request sequence number — for ALL call sequences (not
only consecutive numbers) and ALL constants, starting from the zero-value state (nil map, watermark 0) on both sides:
the set is the shifted set, the watermark is the shifted watermark as soon as anything was remembered (the first call
sets it whatever its old value was — a watermark that "starts at 0" would break this), and every query gets the same
answer. Nothing depends on absolute values, in particular not on where the 2^32 wrap falls. -/
theorem C16_performed_set_shift_invariant (d : BitVec 32) (rs : List (BitVec 32)) :
    (({} : PerfSet).run (rs.map (· + d))).set = (({} : PerfSet).run rs).set.map (· + d) ∧
    (rs ≠ [] → (({} : PerfSet).run (rs.map (· + d))).newest = (({} : PerfSet).run rs).newest + d) ∧
    ∀ q, (({} : PerfSet).run (rs.map (· + d))).has (q + d) = (({} : PerfSet).run rs).has q := by
  have h0 : ShiftRel d ({} : PerfSet) ({} : PerfSet) := ⟨rfl, fun h => absurd rfl h⟩
  have hrel := run_shiftRel d rs _ _ h0
  refine ⟨hrel.1, ?_, ?_⟩
  · intro hne
    rcases List.eq_nil_or_concat rs with rfl | ⟨init, r, rfl⟩
    · exact absurd rfl hne
    · have hi := run_shiftRel d init _ _ h0
      have := (remember_shiftRel d _ _ r hi).2
      simp only [PerfSet.run, List.concat_eq_append, List.map_append, List.map_cons, List.map_nil, List.foldl_append, List.foldl_cons, List.foldl_nil] at this ⊢
      exact this.symm
  · intro q
    unfold PerfSet.has
    rw [hrel.1, contains_map_add]

/-- non-vacuity / sample (a test, not the theorem): three numbers across the wrap, shifted by 2^31 -/
example : (({} : PerfSet).run ([0xFFFFFFFE#32, 0xFFFFFFFF#32, 0#32].map (· + 0x80000000#32))).newest = 0x80000000#32 := by decide

end C16
