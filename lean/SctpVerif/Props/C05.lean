import SctpVerif.Proofs.RecvQ
/-!
# C05 — selective acknowledgements tell the truth

Property theorems only; definitions and lemmas are in `Proofs/RecvQ/*.lean`.

All theorems are about the L0 model `RecvQ` of receive_payload_queue.go (tied to the Go struct by
the differential runs of `./check`), with the translator-generated `Gen.sna32*`,
`Gen.tsnBitmaskWords`, `Gen.getMaxTSNOffset`. They hold for **every** op list, every cumulative
point (all 2^32, windows straddling the wrap included) and every bitmap `new m` can build.

Vocabulary (Proofs/RecvQ/History.lean):
* `Op` — `init c | push t | pop force | adv c` (the bare queue operations, in any order) and
  `data t store | fwd c | sack` (what `handleData`, `handleForwardTSN` and
  `createSelectiveAckChunk` do with the queue, pop loop included).
* `run (start m c) ops` — the state after `newReceivePayloadQueue(m)`, `init(c)`, then `ops`,
  instrumented with the ghost history `h`: `c0` the cumulative point of the last `init`, `A`
  how far the cumulative point has moved since (a natural number, so nothing is lost when the
  32-bit space wraps), `acc k` / `skp k` — the TSN `c0 + k` was accepted (`push` returned
  true) / explicitly skipped by the peer (FORWARD-TSN up to it, or a forced pop).
* `heldAt q d` — offset `d ≥ 1` from the cumulative point is in the abstract set of the queue.
* `gapsNat q` — the gap blocks before truncation to the 16-bit wire fields; `gaps q` (the model
  of `getGapAckBlocks`) is `gapsNat q` truncated, and equal to it when `maxOff < 2^16`, which
  holds for every queue the association builds (`C05_assoc_window`).
-/
namespace C05
open Gen Sna RecvQ

/-! ## the ring -/

/-- With a power-of-two word count (at most 2^26) the bitmap index is injective on every window
of `64·W` consecutive TSNs, wherever the window lies — also across 2^32−1 → 0. -/
theorem C05_ring_injective (k : Nat) (hk : k ≤ 26) (c d1 d2 : BitVec 32)
    (h1 : d1.toNat < 64 * 2^k) (h2 : d2.toNat < 64 * 2^k)
    (h : pos (2^k) (c + d1) = pos (2^k) (c + d2)) : d1 = d2 :=
  pos_inj_off (pow2_dvd hk) c d1 d2 h1 h2 h

-- non-vacuity: two offsets in a window that straddles the wrap
example : (2000#32).toNat < 64 * 2^8 ∧ (2100#32).toNat < 64 * 2^8 ∧
    pos (2^8) (4294965243#32 + 2000#32) ≠ pos (2^8) (4294965243#32 + 2100#32) := by decide

/-- every bitmap `newReceivePayloadQueue` builds is such a ring and is large enough for the
(rounded) admission bound. -/
theorem C05_ring_new (m : BitVec 32) :
    ∃ k, k ≤ 26 ∧ (new m).W = 2^k ∧ (new m).bits.size = 64 * 2^k ∧ (new m).maxOff.toNat ≤ 64 * 2^k := by
  obtain ⟨k, hk, hW⟩ := new_size m
  have r := new_ring m
  exact ⟨k, hk, hW, hW ▸ r.hsz, hW ▸ r.hmax⟩

/-- documentation of the defect that was fixed (D4): with the former default of 132 words the
index is NOT injective on a window that straddles the wrap — TSNs 2^32−2043 and 2053 are 4096
apart (the window is 8448) and share a bit, because 64·132 does not divide 2^32.
(A `decide`d witness, i.e. a test of one instance, not a universally quantified statement.) -/
theorem C05_ring_witness_132 :
    pos 132 4294965253#32 = pos 132 2053#32 ∧ (2053#32 - 4294965253#32).toNat = 4096 ∧
    4096 < 64 * 132 ∧ ¬ (64 * 132 ∣ 2^32) := by decide

/-- the association's sizing: `getMaxTSNOffset` never exceeds 40000, so the hypotheses
`maxOff < 2^16` (gap blocks fit the wire format) and `maxOff < 2^31` below hold for every queue
the association creates (`newReceivePayloadQueue(getMaxTSNOffset(maxReceiveBufferSize))`). -/
theorem C05_assoc_window (rb : BitVec 32) :
    (new (getMaxTSNOffset rb)).maxOff.toNat ≤ 40000 ∧ (new (getMaxTSNOffset rb)).maxOff.toNat < 2^16 := by
  have := round_le _ (getMaxTSNOffset_le rb)
  exact ⟨this, Nat.lt_of_le_of_lt this (by decide)⟩

/-! ## refinement: the bitmap queue is a cumulative point plus a set of offsets -/

/-- **Refinement invariant.** In every reachable state the representation invariant holds and
the queue *is* `(cum, {d | heldAt q d})`: `hasChunk` is membership, offsets lie in
`[1, maxTSNOffset]`, set bits and offsets are in bijection through the ring index, `chunkSize`
is the number of set bits, and `tailTSN` is `cum + max offsets` (`= cum` when empty). -/
theorem C05_refines_set (m c : BitVec 32) (ops : List Op) :
    ∀ q, q = (run (start m c) ops).q →
    Inv q ∧
    (∀ t, hasChunk q t = true ↔ heldAt q (t - q.cum).toNat) ∧
    (∀ d, heldAt q d → 1 ≤ d ∧ d ≤ q.maxOff.toNat ∧ d ≤ 2^31) ∧
    (∀ i, getBit q.bits i = true ↔ ∃ d, heldAt q d ∧ pos q.W (q.cum + BitVec.ofNat 32 d) = i) ∧
    (∀ d d', heldAt q d → heldAt q d' →
        pos q.W (q.cum + BitVec.ofNat 32 d) = pos q.W (q.cum + BitVec.ofNat 32 d') → d = d') ∧
    q.size = (cnt q.bits : Int) ∧
    (q.size = 0 → q.tail = q.cum ∧ ∀ d, ¬ heldAt q d) ∧
    (q.size ≠ 0 → heldAt q (q.tail - q.cum).toNat ∧ ∀ d, heldAt q d → d ≤ (q.tail - q.cum).toNat) ∧
    q.maxOff = (new m).maxOff := by
  intro q hq
  have g := run_ginv (start_ginv m c) ops
  have I : Inv q := hq ▸ g.inv
  refine ⟨I, ?_, ?_, bit_iff_heldAt I, fun d d' => heldAt_inj I, I.hcnt, ?_, ?_, ?_⟩
  · intro t; rw [hasChunk_iff I, held_iff_heldAt]
  · intro d h; have := heldAt_le I h; exact ⟨h.1, this.1, this.2⟩
  · intro hs; exact ⟨I.ht0 hs, fun d h => heldAt_size I h hs⟩
  · intro hs; exact ⟨heldAt_tail I hs, fun d h => h.2.1⟩
  · rw [hq, run_maxOff, start_maxOff]

/-- **Refinement of the operations** (for any state satisfying the invariant, hence for every
reachable one): each queue operation acts on `(cum, offsets)` as the set specification says,
and re-establishes the invariant.
`data t`: accepted iff `1 ≤ d ≤ maxTSNOffset ∧ d ∉ offsets` for `d = t − cum`, then `d` is added;
`pop`: succeeds iff `1 ∈ offsets`, then `cum+1` and every offset moves down by one;
`advance c`: no-op unless `cum <s c`, then `cum = c`, offsets `≤ c − cum` dropped, rest re-based. -/
theorem C05_refines_set_ops {q : Q} (I : Inv q) :
    (∀ t, canPush q t = (push q t).2) ∧
    (∀ t, (push q t).2 = true ↔ (admissible q t ∧ ¬ heldAt q (t - q.cum).toNat)) ∧
    (q.maxOff.toNat < 2^31 → ∀ t, admissible q t ↔ (1 ≤ (t - q.cum).toNat ∧ (t - q.cum).toNat ≤ q.maxOff.toNat)) ∧
    (∀ t, (push q t).1.cum = q.cum) ∧
    (∀ t, (push q t).2 = true → ∀ d, heldAt (push q t).1 d ↔ (heldAt q d ∨ d = (t - q.cum).toNat)) ∧
    (∀ t, (push q t).2 = false → ∀ d, heldAt (push q t).1 d ↔ heldAt q d) ∧
    (∀ f, (pop q f).2 = true ↔ heldAt q 1) ∧
    (∀ f, ((pop q f).2 = true ∨ f = true) →
        (pop q f).1.cum = q.cum + 1 ∧ ∀ d, 1 ≤ d → (heldAt (pop q f).1 d ↔ heldAt q (d + 1))) ∧
    ((pop q false).2 = false → (pop q false).1 = q) ∧
    (∀ c, sna32LT q.cum c = true →
        (advance q c).cum = c ∧ ∀ d, 1 ≤ d → (heldAt (advance q c) d ↔ heldAt q (d + (c - q.cum).toNat))) ∧
    (∀ c, sna32LT q.cum c = false → advance q c = q) ∧
    (∀ t, Inv (push q t).1) ∧ (∀ f, Inv (pop q f).1) ∧ (∀ c, Inv (advance q c)) ∧ (∀ c, Inv (init q c)) := by
  refine ⟨fun t => canPush_eq_push t, ?_, fun hm t => admissible_small hm t, push_cum q, ?_, ?_, ?_, ?_, ?_,
    ?_, ?_, push_inv I, pop_inv I, advance_inv I, init_inv I.toRing⟩
  · intro t; rw [push_accept_iff I, held_iff_heldAt]
  · intro t hr d; exact push_heldAt I t hr d
  · intro t hr d
    rcases push_reject t hr with h | h <;> rw [h] <;> exact Iff.rfl
  · intro f; rw [pop_ok, hasChunk_iff I, held_iff_heldAt, off_one]
  · intro f hf
    rw [pop_state]
    by_cases hc : hasChunk q (q.cum + 1) = true
    · rw [hc]; exact ⟨rfl, popped_heldAt I ((hasChunk_iff I _).mp hc)⟩
    · have hnh := mt (hasChunk_iff I _).mpr hc
      have hf' : f = true := by
        rcases hf with h | h
        · rw [pop_ok] at h; exact absurd h hc
        · exact h
      rw [Bool.eq_false_iff.mpr hc, hf']
      exact ⟨rfl, forced_heldAt I hnh⟩
  · intro h; rw [pop_ok] at h; rw [pop_state, h]; rfl
  · intro c' hl
    exact ⟨by rw [advance_cum, hl]; rfl, advance_heldAt I c' hl⟩
  · intro c' hl; rw [advance_state, hl]; rfl

-- non-vacuity of `Inv`: the state after `new 8448; init 4294965243` and any run from it
example : Inv (run (start 8448#32 4294965243#32) [.data 4294965245#32 true, .fwd 7#32, .sack]).q :=
  (run_ginv (start_ginv _ _) _).inv

/-! ## soundness (S1, S2) -/

/-- **S1 + S2.** After any op list: the cumulative point is `c0 + A`; every TSN it has moved
over since `init` (index `1 ≤ k ≤ A`) was accepted or explicitly skipped (S1); every gap block
names only accepted TSNs, blocks are well-formed, sorted, disjoint and non-adjacent (S2) —
for the untruncated blocks always, and for the emitted 16-bit blocks when `maxOff < 2^16`. -/
theorem C05_sound (m c : BitVec 32) (ops : List Op) :
    ∀ s, s = run (start m c) ops →
    s.q.cum = s.h.c0 + BitVec.ofNat 32 s.h.A ∧
    (∀ k, 1 ≤ k → k ≤ s.h.A → s.h.acc k ∨ s.h.skp k) ∧
    (∀ p ∈ gapsNat s.q, 1 ≤ p.1 ∧ p.1 ≤ p.2 ∧ ∀ j, p.1 ≤ j → j ≤ p.2 → s.h.acc (s.h.A + j)) ∧
    (gapsNat s.q).Pairwise (fun a b => a.2 + 1 < b.1) ∧
    ((new m).maxOff.toNat < 2^16 →
      gaps s.q = (gapsNat s.q).map trunc16 ∧
      (∀ b ∈ gaps s.q, 1 ≤ b.1.toNat ∧ b.1.toNat ≤ b.2.toNat ∧
          ∀ j, b.1.toNat ≤ j → j ≤ b.2.toNat → s.h.acc (s.h.A + j)) ∧
      (gaps s.q).Pairwise (fun a b => a.2.toNat + 1 < b.1.toNat)) := by
  intro s hs
  have g : GInv s := hs ▸ run_ginv (start_ginv m c) ops
  obtain ⟨n1, _, n3, _⟩ := gapsNat_spec g.inv
  refine ⟨g.hcum, g.hS1, ?_, n3, ?_⟩
  · intro p hp
    obtain ⟨a, b, _, d⟩ := n1 p hp
    exact ⟨a, b, fun j j1 j2 => (g.hacc j (by omega)).mpr (d j j1 j2)⟩
  · intro hm
    have hm' : s.q.maxOff.toNat < 2^16 := by rw [hs, run_maxOff, start_maxOff]; exact hm
    obtain ⟨w1, _, w3, _⟩ := gaps_spec g.inv hm'
    refine ⟨gaps_eq g.inv, ?_, w3⟩
    intro b hb
    obtain ⟨a, b', _, d⟩ := w1 b hb
    exact ⟨a, b', fun j j1 j2 => (g.hacc j (by omega)).mpr (d j j1 j2)⟩

/-- the same at the level of 32-bit TSNs: whatever the cumulative point has covered since
`init`, and whatever a gap block names, is an accepted or skipped TSN. -/
theorem C05_sound_tsn (m c : BitVec 32) (ops : List Op) :
    ∀ s, s = run (start m c) ops →
    (∀ k, 1 ≤ k → k ≤ s.h.A →
        AcceptedTSN s (s.h.c0 + BitVec.ofNat 32 k) ∨ SkippedTSN s (s.h.c0 + BitVec.ofNat 32 k)) ∧
    (s.h.A < 2^32 → ∀ t : BitVec 32, 1 ≤ (t - s.h.c0).toNat → (t - s.h.c0).toNat ≤ s.h.A →
        AcceptedTSN s t ∨ SkippedTSN s t) ∧
    ((new m).maxOff.toNat < 2^16 → ∀ b ∈ gaps s.q, ∀ j, b.1.toNat ≤ j → j ≤ b.2.toNat →
        AcceptedTSN s (s.q.cum + BitVec.ofNat 32 j)) := by
  intro s hs
  obtain ⟨hcum, h1, _, _, h5⟩ := C05_sound m c ops s hs
  have hk : ∀ k, 1 ≤ k → k ≤ s.h.A →
      AcceptedTSN s (s.h.c0 + BitVec.ofNat 32 k) ∨ SkippedTSN s (s.h.c0 + BitVec.ofNat 32 k) := by
    intro k k1 k2
    rcases h1 k k1 k2 with h | h
    · exact Or.inl ⟨k, h, rfl⟩
    · exact Or.inr ⟨k, h, rfl⟩
  refine ⟨hk, ?_, ?_⟩
  · intro _ t t1 t2
    have := hk _ t1 t2
    rwa [add_off] at this
  · intro hm b hb j j1 j2
    obtain ⟨_, h, _⟩ := h5 hm
    refine ⟨s.h.A + j, (h b hb).2.2 j j1 j2, ?_⟩
    rw [hcum, BitVec.add_assoc, ← BitVec.ofNat_add]

-- non-vacuity: a run across the wrap in which a TSN is accepted above the cumulative point
-- and reported in a block (`new 8448; init 2^32-2053; data 2^32-2051`)
example : (run (start 8448#32 4294965243#32) [.data 4294965245#32 true]).h.acc 2 := by
  have h := (popLoopS_sets (sPush (start 8448#32 4294965243#32) 4294965245#32).q.size.toNat
    (sPush (start 8448#32 4294965243#32) 4294965245#32)).1
  have hc : canPush (start 8448#32 4294965243#32).q 4294965245#32 = true := by decide
  simp only [run, List.foldl, step, sData, popAllS, hc, Bool.and_true, ite_true]
  rw [h]
  exact Or.inr ⟨by decide, by decide⟩
example : (new 8448#32).maxOff.toNat < 2^16 := by decide
-- test on a 64-bit ring across the wrap: two blocks, TSNs 2^32-4 and 1 seen from cum = 2^32-6
set_option maxRecDepth 100000 in
example : gaps (run (start 64#32 4294967290#32) [.data 4294967292#32 true, .data 1#32 true]).q
    = [(2#16, 2#16), (7#16, 7#16)] := by decide

/-! ## monotonicity (S3) -/

/-- **S3.** No operation other than `init` moves the cumulative point backwards: the origin
`c0` is kept, the clock `A` does not decrease, the new cumulative point is the old one plus the
increment, the ghost sets only grow; the increment is `< 2^31` for each bare queue operation and
`≤ max (2^31−1) maxOff` for `data`/`fwd`; hence, for `maxOff < 2^31` (always the case in the
association), the old point is `≤` the new one in serial-number order and never `>`. -/
theorem C05_monotone (m c : BitVec 32) (ops : List Op) (op : Op) (hop : ∀ c', op ≠ .init c') :
    ∀ s s', s = run (start m c) ops → s' = run (start m c) (ops ++ [op]) →
    s'.h.c0 = s.h.c0 ∧ s.h.A ≤ s'.h.A ∧
    s'.q.cum = s.q.cum + BitVec.ofNat 32 (s'.h.A - s.h.A) ∧
    s'.h.A - s.h.A ≤ max (2^31 - 1) (new m).maxOff.toNat ∧
    (∀ k, s.h.acc k → s'.h.acc k) ∧ (∀ k, s.h.skp k → s'.h.skp k) ∧
    ((new m).maxOff.toNat < 2^31 →
      (s'.q.cum - s.q.cum).toNat = s'.h.A - s.h.A ∧
      sna32LTE s.q.cum s'.q.cum = true ∧ sna32LT s'.q.cum s.q.cum = false) := by
  intro s s' hs hs'
  have g : GInv s := hs ▸ run_ginv (start_ginv m c) ops
  have hstep : s' = step s op := by rw [hs', hs, run_snoc]
  have g' : GInv s' := hstep ▸ step_ginv g op
  have f := step_fwd g op hop
  rw [← hstep] at f
  have hmo : s.q.maxOff = (new m).maxOff := by rw [hs, run_maxOff, start_maxOff]
  have hcum : s'.q.cum = s.q.cum + BitVec.ofNat 32 (s'.h.A - s.h.A) := by
    rw [g'.hcum, g.hcum, f.c0, BitVec.add_assoc, ← BitVec.ofNat_add]
    have := f.mono
    rw [show s.h.A + (s'.h.A - s.h.A) = s'.h.A by omega]
  obtain ⟨ma, ms⟩ := step_sets_mono s op hop
  rw [← hstep] at ma ms
  refine ⟨f.c0, f.mono, hcum, hmo ▸ f.bnd, ma, ms, ?_⟩
  intro hm
  have hb := f.bnd
  rw [hmo] at hb
  have hd : (s'.q.cum - s.q.cum).toNat = s'.h.A - s.h.A := by
    rw [hcum, off_ofNat _ _ (by omega)]
  refine ⟨hd, ?_, ?_⟩
  · rw [lte32_iff]; omega
  · rw [← Bool.not_eq_true, lt32_iff]
    have e : (s.q.cum - s'.q.cum).toNat = (2^32 - (s'.q.cum - s.q.cum).toNat) % 2^32 := by bv_omega
    omega

-- non-vacuity: the hypothesis on `op` is satisfiable
example : ∀ c', Op.data 5#32 true ≠ .init c' := by intro c' h; cases h

/-- each bare queue operation moves the cumulative point forward by less than 2^31, whatever the
window size. -/
theorem C05_monotone_prim (m c : BitVec 32) (ops : List Op) :
    ∀ s, s = run (start m c) ops →
    (∀ t, (step s (.push t)).q.cum = s.q.cum) ∧
    (∀ f, ((step s (.pop f)).q.cum - s.q.cum).toNat ≤ 1) ∧
    (∀ c', ((step s (.adv c')).q.cum - s.q.cum).toNat < 2^31 ∧
           sna32LTE s.q.cum (step s (.adv c')).q.cum = true) := by
  intro s _
  refine ⟨fun t => push_cum _ _, fun f => pop_delta _ _, fun c' => ?_⟩
  have := advance_delta s.q c'
  exact ⟨this, by rw [lte32_iff]; exact this⟩

/-! ## completeness (S4) -/

/-- **S4.** Every TSN accepted so far is reported: it is at or below the cumulative point, or it
lies inside a gap block (and the blocks are maximal: the offsets just before and just after a
block are not accepted TSNs). -/
theorem C05_complete (m c : BitVec 32) (ops : List Op) :
    ∀ s, s = run (start m c) ops →
    (∀ k, s.h.acc k → k ≤ s.h.A ∨ ∃ p ∈ gapsNat s.q, p.1 ≤ k - s.h.A ∧ k - s.h.A ≤ p.2) ∧
    (∀ p ∈ gapsNat s.q, (2 ≤ p.1 → ¬ s.h.acc (s.h.A + (p.1 - 1))) ∧ ¬ s.h.acc (s.h.A + (p.2 + 1))) ∧
    ((new m).maxOff.toNat < 2^16 →
      (∀ k, s.h.acc k → k ≤ s.h.A ∨ ∃ b ∈ gaps s.q, b.1.toNat ≤ k - s.h.A ∧ k - s.h.A ≤ b.2.toNat) ∧
      (∀ b ∈ gaps s.q, (2 ≤ b.1.toNat → ¬ s.h.acc (s.h.A + (b.1.toNat - 1))) ∧
                        ¬ s.h.acc (s.h.A + (b.2.toNat + 1)))) := by
  intro s hs
  have g : GInv s := hs ▸ run_ginv (start_ginv m c) ops
  obtain ⟨_, n2, _, n4⟩ := gapsNat_spec g.inv
  refine ⟨?_, ?_, ?_⟩
  · intro k hk
    by_cases hle : k ≤ s.h.A
    · exact Or.inl hle
    · right
      have := (g.hacc (k - s.h.A) (by omega)).mp (by rw [show s.h.A + (k - s.h.A) = k by omega]; exact hk)
      exact n2 _ this
  · intro p hp
    obtain ⟨a, b⟩ := n4 p hp
    exact ⟨fun h2 h => a ((g.hacc _ (by omega)).mp h), fun h => b ((g.hacc _ (by omega)).mp h)⟩
  · intro hm
    have hm' : s.q.maxOff.toNat < 2^16 := by rw [hs, run_maxOff, start_maxOff]; exact hm
    obtain ⟨_, w2, _, w4⟩ := gaps_spec g.inv hm'
    constructor
    · intro k hk
      by_cases hle : k ≤ s.h.A
      · exact Or.inl hle
      · right
        have := (g.hacc (k - s.h.A) (by omega)).mp (by rw [show s.h.A + (k - s.h.A) = k by omega]; exact hk)
        exact w2 _ this
    · intro b hb
      obtain ⟨a, b'⟩ := w4 b hb
      exact ⟨fun h2 h => a ((g.hacc _ (by omega)).mp h), fun h => b' ((g.hacc _ (by omega)).mp h)⟩

/-- In the states in which the association builds a SACK (only `init`/`data`/`fwd`/`sack` were
issued, so the pop loop has run after every change) the queue is pop-normalised: `pop(false)`
fails, the TSN right after the cumulative point is not an accepted one, and every gap block
starts at offset 2 or later. -/
theorem C05_pop_normalised (m c : BitVec 32) (ops : List Op) (ha : ∀ op ∈ ops, assocOp op) :
    ∀ s, s = run (start m c) ops →
    (pop s.q false).2 = false ∧ ¬ s.h.acc (s.h.A + 1) ∧
    (∀ p ∈ gapsNat s.q, 2 ≤ p.1) ∧
    ((new m).maxOff.toNat < 2^16 → ∀ b ∈ gaps s.q, 2 ≤ b.1.toNat) := by
  intro s hs
  have g : GInv s := hs ▸ run_ginv (start_ginv m c) ops
  have hn : Normalised s.q := hs ▸ run_normalised (start_ginv m c) (start_normalised m c) ops ha
  have hn1 := (normalised_iff g.inv).mp hn
  have hst := gapsNat_start g.inv hn1
  refine ⟨by rw [pop_ok]; exact hn, fun h => hn1 ((g.hacc 1 (by omega)).mp h), hst, ?_⟩
  intro hm
  have hm' : s.q.maxOff.toNat < 2^16 := by rw [hs, run_maxOff, start_maxOff]; exact hm
  have hdt : dtail s.q < 2^16 := by have := g.inv.hb.1; omega
  rw [gaps_eq g.inv]
  intro b hb
  obtain ⟨p, hp, rfl⟩ := List.mem_map.mp hb
  obtain ⟨a1, a2, a3, _⟩ := (gapsNat_spec g.inv).1 p hp
  rw [(trunc16_toNat (p := p) (by omega) (by omega)).1]
  exact hst p hp

-- non-vacuity: an association-level op list
example : ∀ op ∈ [Op.init 7#32, .data 9#32 true, .fwd 12#32, .sack], assocOp op := by
  intro op h; simp at h; rcases h with rfl | rfl | rfl | rfl <;> trivial

/-! ## shift invariance (the C16 obligation of this component) -/

/-- Running the same ops with every TSN shifted by `k` (from a queue initialised at `c + k`)
gives the shifted state — same `chunkSize`, same window, the bitmap the same ring read at shifted
TSNs — and exactly the same observable results: the same booleans from `hasChunk`, `canPush`,
`push`, `pop`, the same gap blocks, and the shifted last-TSN and duplicate list. The position
of the 2^32 wrap is therefore invisible. -/
theorem C05_shift_invariant (m c k : BitVec 32) (ops : List Op) :
    ∀ s s', s = run (start m c) ops → s' = run (start m (c + k)) (ops.map (shiftOp k)) →
    Shift k s.q s'.q ∧ gaps s'.q = gaps s.q ∧
    (∀ t, hasChunk s'.q (t + k) = hasChunk s.q t ∧ canPush s'.q (t + k) = canPush s.q t ∧
          (push s'.q (t + k)).2 = (push s.q t).2) ∧
    (∀ f, (pop s'.q f).2 = (pop s.q f).2) ∧
    lastTSN s'.q = (lastTSN s.q).map (· + k) ∧
    (popDuplicates s'.q).2 = (popDuplicates s.q).2.map (· + k) := by
  intro s s' hs hs'
  have g : GInv s := hs ▸ run_ginv (start_ginv m c) ops
  have h : Shift k s.q s'.q := by
    rw [hs, hs']; exact shift_run ops (start_ginv m c) (shift_start m c k)
  refine ⟨h, shift_gaps h, fun t => ⟨shift_hasChunk h t, shift_canPush h t, (shift_push g.inv.toRing h t).1⟩,
    fun f => (shift_pop g.inv.toRing h f).1, ?_, h.dups⟩
  simp only [lastTSN, h.size, h.tail]
  split <;> rfl

-- non-vacuity / test: a run across the wrap and the same run shifted by 2^31+5 report the same blocks
set_option maxRecDepth 100000 in
example : gaps (run (start 64#32 (4294967290#32 + 2147483653#32))
      ([Op.data 4294967292#32 true, .data 1#32 true].map (shiftOp 2147483653#32))).q
    = [(2#16, 2#16), (7#16, 7#16)] := by decide

end C05
