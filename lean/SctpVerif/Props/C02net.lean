import SctpVerif.Proofs.NetSys.LiveDrain
import SctpVerif.Proofs.NetSys.LiveTaken
import SctpVerif.Proofs.NetSys.LiveRoundOk
import SctpVerif.Proofs.NetSys.LiveHonest
import SctpVerif.Proofs.NetSys.LiveHonestN
import SctpVerif.Proofs.NetSys.LiveZ
import SctpVerif.Proofs.NetSys.LiveNoCap
import SctpVerif.Props.C01sel
/-!
# C02 on the composed model — the receiver's own SACKs make the sender-side progress theorems applicable

Property theorems only, about `Model/NetSys.lean` (sender half `Sender`, history network, receiver half `Receiver`; both
L0 models are tied to the code by the direct-drive correspondence runs `as` / `ar`). `Props/C02.lean` proves that the
SENDER drains when it is handed suitable SACKs; there the SACKs are inputs of the schedule. Here they are the RECEIVER
model's: `truthfulSack r` is what `createSelectiveAckChunk` (`Receiver.createSack`) builds in receiver state `r` —
cumulative TSN = `payloadQueue` cumulative point, a_rwnd = `getMyReceiverWindowCredit()`, gap blocks = `getGapAckBlocks`.

**The healed round** (`healedRound P s`, `Proofs/NetSys/LiveDefs.lean`) is an explicit operation list computed from the
state: the receiving application drains the accept backlog; the sender's T3 expires (only if something is in flight); the
sender gathers (free burst budget, FIFO selection as in `Props/C01sel.lean`); every chunk that gather put on the wire is
delivered, one packet per chunk, in wire order; the application accepts the new streams and reads every registered stream
until nothing is readable; the ack-timer interval passes and the receiver gathers; the truthful SACK of the receiver state
is processed by the sender (RACK / PTO marks empty).

What is proved, for EVERY reachable NetSys state (every operation list from `init`: arbitrary loss, duplication,
reordering, bundling, ARBITRARY earlier SACKs — truthful or not —, zero-window episodes, any number of T3 expiries, any
oracle values):
* `C02_netsys_truthful_sack_accepted` — the truthful SACK is never rejected by `Sender.validate`: it is processed (`ok`) or
  stale. The receiver acknowledges only TSNs the sender has assigned and not yet released (or already released):
  `NetSysLive.run_qb` — every TSN at or below the receiver's cumulative point or held in its receive queue is among the first
  `tsnsUsed` TSNs — and `NetSysLive.snd_idx` — cumulative ack point + in-flight = `tsnsUsed`.
* `C02_netsys_round_progress_partial` — one healed round never adds to `pending + in flight`, and releases at least one
  chunk if, when the SACK is built, the receiver's cumulative point is ahead of the sender's cumulative ack point
  (`Taken`); then the sender's cumulative ack point IS the receiver's cumulative point afterwards.
* `C02_netsys_drains_partial` — `n ≥ pending + in flight` healed rounds, each of which starts with nothing outstanding or
  is `Taken`, end with both sender queues empty, `BufferedAmount()` 0 for the association and (C15's D9 premise) for
  every stream.
* `C02_netsys_delivered_prefix` — along the whole run, healed rounds included, C01 holds: reads are a prefix of writes.
* `C02_netsys_stuck_witness` — the statement WITHOUT `Taken`, under "the receive buffer holds at least one maximal chunk and
  the application reads in every round", is FALSE: a message larger than the receive buffer is never delivered.

**`_partial`: what is missing for the full statement** ("from every reachable state over reliable ordered streams whose SACK
history was truthful, n healed rounds drain the sender and the application has read every write"): `Taken` is a
hypothesis. It follows from three facts of which only the first is proved (`Props/C02.lean`, sender side):
(1) after "T3; gather" the lowest outstanding chunk is the first chunk on the wire unless it was gap-acked — whatever cwnd /
rwnd are (`C02_rtx_progress_partial` (1), `C02_probe_when_blocked`; assembled in `SenderProofs.roundF_progress`);
(2) the receiver, established, takes a delivered chunk with TSN = cumulative point + 1 if it has credit or holds something
above (`acceptPayloadData`'s "fills a gap" exception; `C11_zero_window_admission`) — `Room` in `LiveDefs.lean` — and after
the application has read everything readable it has credit unless an incomplete message fills the buffer (this needs the
reassembly-level fact "held bytes = bytes of TSNs above the cumulative point + at most one incomplete message", not proved);
(3) a gap-acked lowest chunk was really received — true when every earlier SACK was sound (`soundSack` / `Honest` in
`LiveDefs.lean`, a decidable predicate on the run), not proved as a run invariant here.
Equality `reads = writes` at the end additionally needs reassembly completeness (`C01_complete_iff_data`) composed with
the receive queue; here it is evaluated on the example run only.

**Towards removing `Taken`** (second pass). The two halves of the argument are now theorems on NetSys:
* `C02_netsys_lowest_on_wire` (sender half, every reachable established state): after the round's "T3 (if something is in
  flight); gather (free budget, FIFO)" the LOWEST outstanding chunk — head of the in-flight queue, TSN = cumulative ack
  point + 1 — is gap-acked or is the FIRST chunk that gather put on the wire, whatever cwnd / rwnd are (T3 flags it and
  `getDataPacketsToRetransmit` exempts loop index 0 from the window test; nothing in flight ⇒ zero-window probe);
* `C02_netsys_receiver_takes` (receiver half, every reachable state with the receiver established): handed a chunk of the
  history with TSN = cumulative point + 1 — and a stream object available — `handleData` moves the cumulative point forward
  when `Room` holds (credit > 0, or something is held above the cumulative point: the chunk then lies below the highest TSN
  received and is stored at a FULL buffer, the zero-window admission rule), unless the reassembly queue refuses the chunk, in
  which case `willSendAbort` or `panicked` is up afterwards.
`LiveDefs.lean` states the premises of one round as the decidable `RoundOk P s` = receiver established ∧ `Room` ∧ `InSync` (the
sender's cumulative ack point is not ahead of the receiver's, and when they coincide the lowest outstanding chunk is not
gap-acked) ∧ `HeadOk` (no ABORT / panic in answer to the round's first delivery).

**Third pass.** (a) The glue is proved: `C02_netsys_roundok_taken` — `RoundOk P s` and something outstanding give `Taken P s`
(the round's first `deliver` carries exactly the chunk of the sender half into exactly the receiver state of the receiver
half; afterwards the receiver's cumulative point only moves forward and the round's sender operations do not move the
cumulative ack point) — and with it `C02_netsys_drains_roundok`: `C02_netsys_drains_partial` with the opaque `TakenN` replaced
by the four readable per-round premises `RoundOkN` (over `Reliable` runs, which abandon nothing: `noab_of_reliable`).
(b) `C02_netsys_honest_insync`: for runs whose sender only processed SOUND SACKs (`Honest`) `InSync` holds whenever the receive
queue is pop-normalised — run invariant `run_hl`: every gap-acked in-flight chunk was really received — and
`C02_netsys_honest_taken` is the one-round statement with `InSync` gone. **Fourth pass.** (b') `C02_netsys_drains_honest`: the iterated drain theorem for `Honest` runs WITHOUT `InSync` — honesty is
preserved along the healed rounds because the SACK a round hands to the sender is the receiver's truthful one, which is sound
(`truthful_sound`, `hl_healed`); per-round premises `RoundOkHN` = receiver established, `Room`, `Normal` (receive queue
pop-normalised), `HeadOk`. (d), partly: `C02_netsys_entry_cap_off_partial` — with `maxReassemblyQueueEntries = 0` every
reassembly queue of every reachable state has `maxEntries = 0`, `pushWithError` returns no limit error and never panics, a
chunk `acceptPayloadData` decides to store is stored. **Fifth pass.** (d) is closed: `C02_netsys_nocap_invariants` — with `maxReassemblyQueueEntries = 0` the receive queue is
pop-normalised in every reachable state (`run_normal`), and when every chunk of the history decodes to non-empty user data the
receiver never raises the ABORT flag (`run_noabort`) — and `C02_netsys_drains_honest_nocap`, THE STRONGEST DRAIN THEOREM: its
per-round premises are only "receiver established" and `Room`. Standing hypotheses: MTU < 2^30 (`CfgOk`), fragment size fits
the MTU (`CfgFit`), `maxReassemblyQueueEntries = 0`, fewer than 2^31 chunks written / in flight (`chunksWritten`, `TsnOk`),
reliable ordered streams (`Reliable`), sound SACK history (`Honest`), sender established, every chunk of the final history
carries user data (`WireDataB`). STILL OPEN: (c) `Room` after the application has read everything readable from `FitsBuffer`
(`maxMessageSize ≤ maxReceiveBufferSize`): needs the CONVERSE of `Reasm.OrdInv.pushed` — every pushed fragment of a message at or
above the cursor is in the table — which also gives `reads = writes` at the end (`C02_netsys_drains_fits`,
`C02_netsys_all_read`: NOT stated); `WireDataB` from the sender model (a written fragment has `0 < len` and lies inside the
written payload: `toWire_data` of the C01 proof) is assumed, not derived.

**NOT covered**: timers really firing and their back-off bounds ("within a few maximum RTOs": C19 gives the RTO clamp
`C19_rto_clamp`-style bounds and the timer automaton; a healed round costs at most one T3 period ≤ `rtoMax` plus the 200 ms
ack interval — combined in prose only); goroutine wake-ups (`awakeWriteLoop`, `readNotifier`); that the receiver's `gather`
emits exactly the truthful SACK (ack state machine: `C19_ack_scheduled`, `C19_immediate_ack_is_sent`; here the SACK is
computed from the receiver state after its gather, and the example checks that the gather emitted it); unordered / partially
reliable / reset traffic (no FORWARD-TSN or RE-CONFIG in NetSys); ALL fair schedules — this is ONE explicit fair schedule
from every reachable state.
-/
namespace C02
open Gen NetSys NetSysLive

/-- ✱ **The receiver's truthful SACK is never rejected.** In every reachable NetSys state — any earlier history — the SACK
`createSelectiveAckChunk` builds in the current receiver state is stale (`sna32GT cumAck cum`: earlier, untruthful SACKs
made the sender release more than the receiver has) or passes the validation at the head of `processSelectiveAck`; handed
to the sender it is answered `ok`, `stale` or (association not established) `notEstablished` — never `rejected`, never
`failedLate` —, for every advertised window and every RACK / PTO mark list. Hypotheses: MTU < 2^30; fewer than 2^31 chunks
written (32-bit serial arithmetic); fewer than 2^31 chunks in flight. -/
theorem C02_netsys_truthful_sack_accepted (P : Params) (ops : List Op) (hc : SenderProofs.CfgOk P.cfg)
    (hN : chunksWritten P ops < 2^31) (hsm : (run P (init P) ops).snd.inflight.length < 2^31)
    (arwnd : BitVec 32) (marks : List (BitVec 32)) :
    let s := run P (init P) ops
    (truthfulSack s.rcv).1 = s.rcv.pq.cum ∧ (truthfulSack s.rcv).2.2 = RecvQ.gaps s.rcv.pq ∧
    (sna32GT s.snd.cumAck (truthfulSack s.rcv).1 = true ∨ Sender.validate s.snd (truthfulSack s.rcv).1 (truthfulSack s.rcv).2.2 = true) ∧
    ((Sender.sack s.snd (truthfulSack s.rcv).1 arwnd (truthfulSack s.rcv).2.2 marks).2 = .ok ∨
     (Sender.sack s.snd (truthfulSack s.rcv).1 arwnd (truthfulSack s.rcv).2.2 marks).2 = .stale ∨
     (Sender.sack s.snd (truthfulSack s.rcv).1 arwnd (truthfulSack s.rcv).2.2 marks).2 = .notEstablished) := by
  intro s
  have hv := truthful_valid P ops hc (Nat.lt_of_le_of_lt (tsnsUsed_le P ops) hN) hsm
  refine ⟨rfl, rfl, hv, ?_⟩
  rw [truthfulSack_eq]
  dsimp only
  rcases SenderProofs.sack_cases s.snd s.rcv.pq.cum arwnd (RecvQ.gaps s.rcv.pq) marks (snd_seq P ops hc) hsm with
    ⟨_, _, _, h⟩ | ⟨hok, _⟩
  · right
    unfold Sender.sack
    rcases h with h | h | h
    · right; simp [h]
    · by_cases he : s.snd.established = true
      · left; simp [he, h]
      · right; simp [he]
    · rcases hv with hv | hv
      · have hv' : sna32GT s.snd.cumAck s.rcv.pq.cum = true := hv
        by_cases he : s.snd.established = true
        · left; simp [he, hv']
        · right; simp [he]
      · rw [hv] at h; cases h
  · exact Or.inl hok

/-- **Sender half of a healed round: the lowest outstanding chunk goes on the wire** whatever cwnd / rwnd are. In every
reachable NetSys state with the sender established, something outstanding, every un-acked in-flight chunk fitting a packet
(`InfFit`: `SenderProofs.run_inffit` under `TsnOk`) and no in-flight chunk abandoned (`C07_reliable_never_abandoned` over
reliable streams): after the sender operations of the healed round — T3 iff something is in flight, then
`gather freeOracle` with FIFO selection; `(preSack P s).snd` is the state they lead to — the in-flight queue is not empty, its
head carries TSN `cumulative ack point + 1`, and that chunk is gap-acked or is the FIRST chunk the gather put on the wire. -/
theorem C02_netsys_lowest_on_wire (P : Params) (ops : List Op) (hc : SenderProofs.CfgOk P.cfg) (hf : SenderProofs.CfgFit P.cfg)
    (hest : (run P (init P) ops).snd.established = true)
    (hsm : (run P (init P) ops).snd.inflight.length + (run P (init P) ops).snd.pending.length < 2^31)
    (hfit : SenderProofs.InfFit (run P (init P) ops).snd)
    (hnab : ∀ c ∈ (sndT3 (run P (init P) ops).snd).inflight, (sndT3 (run P (init P) ops).snd).abandoned c = false)
    (hpos : 0 < outstanding (run P (init P) ops)) :
    let s := run P (init P) ops
    ∃ c0 r, (preSack P s).snd.inflight = c0 :: r ∧ c0.tsn = s.snd.cumAck + 1 ∧
      (c0.acked = true ∨ ∃ e rest,
        (Sender.gather (sndT3 s.snd) Sender.freeOracle (fifoSel (sndT3 s.snd))).2.packets.flatten = e :: rest ∧ e.tsn = c0.tsn) := by
  intro s
  rw [preSack_snd]
  have hpos' : 0 < (run P (init P) ops).snd.inflight.length + (run P (init P) ops).snd.pending.length := by
    unfold outstanding at hpos; omega
  exact head_on_wire (run P (init P) ops).snd (snd_live P ops hc hf hest hsm) hfit hnab hpos'

/-- **Receiver half: the chunk right after the cumulative point is taken — also at a full buffer when it fills a gap.** In
every reachable NetSys state with the receiver established (`state = 3`): handed a chunk `c` of the wire history whose TSN is
the receiver's cumulative point + 1, with a stream object available (`getOrCreateStream` succeeds: the stream exists or the
accept backlog has room), and `Room` — the receiver has credit, or holds something above its cumulative point (then `c` lies
below the highest TSN received: `acceptPayloadData` stores it although the buffer is full) — `handleData` moves the cumulative
point forward by at least one (`NetSysLive.idx` = offset of the cumulative point from the initial TSN), unless the reassembly
queue refuses the chunk: then the ABORT flag or the panic flag is up. Without `Room` the chunk is dropped
(`C02_netsys_stuck_witness`). -/
theorem C02_netsys_receiver_takes (P : Params) (ops : List Op) (hN : chunksWritten P ops < 2^31) (c : Sender.Chunk) (imm : Bool)
    (hc : c ∈ (run P (init P) ops).wire) (hst : (run P (init P) ops).rcv.state = 3#32)
    (htsn : c.tsn = (run P (init P) ops).rcv.pq.cum + 1)
    (hstream : (Receiver.getOrCreateStream (run P (init P) ops).rcv c.si true).2.isSome = true)
    (hroom : Room (run P (init P) ops).rcv = true) :
    (Receiver.handleData (run P (init P) ops).rcv (toWire P c) imm).willSendAbort = true ∨
    (Receiver.handleData (run P (init P) ops).rcv (toWire P c) imm).panicked = true ∨
    idx P.tsn (run P (init P) ops).rcv.pq + 1 ≤ idx P.tsn (Receiver.handleData (run P (init P) ops).rcv (toWire P c) imm).pq :=
  receiver_takes P ops hN c imm hc hst htsn hstream hroom

/-- **One healed round** (partial: `Taken` is a hypothesis, see the file header). From every reachable NetSys state with the
sender established and fewer than 2^31 chunks queued: the healed round adds nothing to `pending + in flight`; and if, when
the receiver's SACK is built, its cumulative point is ahead of the sender's cumulative ack point (`Taken`: the receiver has
the lowest outstanding chunk), the truthful SACK is processed, at least one chunk leaves the sender's queues, and the
sender's cumulative ack point equals the receiver's cumulative point afterwards.
FULL STATEMENT (not proved): over reliable ordered streams with a sound SACK history, `Taken` holds whenever something is
outstanding, the receive buffer holds every message in progress and the application reads in every round. -/
theorem C02_netsys_round_progress_partial (P : Params) (ops : List Op) (hc : SenderProofs.CfgOk P.cfg)
    (hf : SenderProofs.CfgFit P.cfg) (hN : chunksWritten P ops < 2^31)
    (hest : (run P (init P) ops).snd.established = true)
    (hsm : (run P (init P) ops).snd.inflight.length + (run P (init P) ops).snd.pending.length < 2^31) :
    let s := run P (init P) ops
    outstanding (healed P s) ≤ outstanding s ∧ (healed P s).snd.established = true ∧
    (Taken P s = true → outstanding (healed P s) < outstanding s ∧ (healed P s).snd.cumAck = (healed P s).rcv.pq.cum) := by
  intro s
  obtain ⟨p1, p2, p3⟩ := healed_progress P ops hc hN (snd_live P ops hc hf hest hsm)
  exact ⟨p2, p1.est, p3⟩

/-- **The healed rounds drain the sender** (partial: `TakenN` is a hypothesis, see the file header). From every reachable
NetSys state with the sender established: `n ≥ pending + in-flight chunks` healed rounds, each of which starts with nothing
outstanding or finds the receiver ahead when its SACK is built (`TakenN`, decidable on the run), end in a state — itself the
state of the run `ops ++ healedRounds P n s` — whose pending and in-flight queues are empty and whose
`Association.BufferedAmount()` is 0; under C15's D9 premise on the run (`RunOk`) and without 64-bit wrap of a buffered
amount, every stream's `BufferedAmount()` is 0. The bound is the worst case one chunk per round; cwnd growth is not used. -/
theorem C02_netsys_drains_partial (P : Params) (ops : List Op) (n : Nat) (hc : SenderProofs.CfgOk P.cfg)
    (hf : SenderProofs.CfgFit P.cfg) (hN : chunksWritten P ops < 2^31)
    (hest : (run P (init P) ops).snd.established = true)
    (hsm : (run P (init P) ops).snd.inflight.length + (run P (init P) ops).snd.pending.length < 2^31)
    (ht : TakenN P n (run P (init P) ops) = true) (hn : outstanding (run P (init P) ops) ≤ n) :
    let fin := run P (init P) (ops ++ healedRounds P n (run P (init P) ops))
    fin = healedN P n (run P (init P) ops) ∧
    fin.snd.inflight = [] ∧ fin.snd.pending = [] ∧ fin.snd.penBytes + fin.snd.infBytes = 0 ∧
    (SenderProofs.RunOk (Sender.init P.cfg P.tsn P.peerRwnd)
        (sndOps P (init P).snd (ops ++ healedRounds P n (run P (init P) ops))) →
      fin.snd.wrapBuf = false → ∀ si, SenderProofs.bufOf fin.snd si = 0) := by
  intro fin
  have hfin : fin = healedN P n (run P (init P) ops) := by
    show run P (init P) (ops ++ _) = _
    rw [NetSys.run_append, run_healedRounds]
  obtain ⟨d1, d2⟩ := healedN_drains P hc n ops hN (snd_live P ops hc hf hest hsm) ht hn
  rw [← hfin] at d1 d2
  obtain ⟨e1, e2, e3⟩ := drained_buffered d1 d2
  exact ⟨hfin, e1, e2, e3, fun hok hwb => drained_streams P hc _ hok hwb e1 e2⟩

/-- **One healed round, readable premises: `RoundOk` gives `Taken`.** In every reachable NetSys state over reliable ordered
streams (`Reliable ops`) with the sender established, `InfFit` and something outstanding: if the receiver is established
(`state = 3`), has `Room` (credit, or something held above its cumulative point), the two endpoints are `InSync` (the sender's
cumulative ack point is not ahead of the receiver's cumulative point, and when they coincide the lowest outstanding chunk
is not gap-acked) and the receiver does not answer the round's first delivery with an ABORT (`HeadOk`) — `RoundOk P s` —
then in this healed round the receiver's cumulative point is ahead of the sender's when the SACK is built: `Taken P s`.
(Sender half `C02_netsys_lowest_on_wire`, receiver half `C02_netsys_receiver_takes`, glued: the round's first `deliver`
carries exactly that chunk into exactly that receiver state.) -/
theorem C02_netsys_roundok_taken (P : Params) (ops : List Op) (hc : SenderProofs.CfgOk P.cfg) (hf : SenderProofs.CfgFit P.cfg)
    (hN : chunksWritten P ops < 2^31) (hrel : Reliable ops = true)
    (hest : (run P (init P) ops).snd.established = true)
    (hsm : (run P (init P) ops).snd.inflight.length + (run P (init P) ops).snd.pending.length < 2^31)
    (hfit : SenderProofs.InfFit (run P (init P) ops).snd)
    (hok : RoundOk P (run P (init P) ops) = true) (hpos : 0 < outstanding (run P (init P) ops)) :
    Taken P (run P (init P) ops) = true :=
  taken_of_roundOk P ops hc hN (snd_live P ops hc hf hest hsm) hfit (noab_of_reliable P ops hc hrel) hok hpos

/-- **Honest runs are `InSync`.** For every NetSys run whose sender only ever processed SOUND SACKs (`Honest`: at the
moment a SACK is processed its cumulative TSN is not ahead of the receiver's cumulative point and every TSN in its gap
blocks is at or below that point or held in the receive queue — what `C05_assoc_sack_sound` proves of every SACK the real
receiver emits, and it stays true of an old SACK for ever: delayed, duplicated, reordered, lost SACKs are all sound; the
advertised window and the RACK / PTO marks are free), with fewer than 2^31 chunks written and in flight (`TsnOk`): the
sender's cumulative ack point is not ahead of the receiver's cumulative point, and — the receive queue being pop-normalised
(`hnorm`: the TSN right after the cumulative point is not held; true after every `handleData` that did not end in a
reassembly error) — when the two coincide the lowest outstanding chunk is not gap-acked. Behind it the run invariant
`NetSysLive.run_hl`: every gap-acked in-flight chunk of the sender has been accepted by the receiver ("accepted stays
accepted": `step_rcv_got`; only a processed SACK raises `acked`, on chunks named by its blocks: `ackPhase_acked`). -/
theorem C02_netsys_honest_insync (P : Params) (ops : List Op) (hc : SenderProofs.CfgOk P.cfg) (hN : chunksWritten P ops < 2^31)
    (hts : SenderProofs.TsnOk (Sender.init P.cfg P.tsn P.peerRwnd) (sndOps P (init P).snd ops))
    (hh : Honest P (init P) ops = true)
    (hnorm : RecvQ.hasChunk (run P (init P) ops).rcv.pq ((run P (init P) ops).rcv.pq.cum + 1) = false) :
    InSync (run P (init P) ops) = true :=
  have hM : tsnsUsed P ops < 2^31 := Nat.lt_of_le_of_lt (tsnsUsed_le P ops) hN
  insync_of_hl P ops hc hM (run_hl P ops hc hM hts hh) hnorm

/-- **One healed round of an honest run**: `C02_netsys_roundok_taken` with `InSync` replaced by `Honest ops` and the
pop-normalised receive queue. -/
theorem C02_netsys_honest_taken (P : Params) (ops : List Op) (hc : SenderProofs.CfgOk P.cfg) (hf : SenderProofs.CfgFit P.cfg)
    (hN : chunksWritten P ops < 2^31) (hrel : Reliable ops = true)
    (hts : SenderProofs.TsnOk (Sender.init P.cfg P.tsn P.peerRwnd) (sndOps P (init P).snd ops))
    (hh : Honest P (init P) ops = true)
    (hest : (run P (init P) ops).snd.established = true)
    (hsm : (run P (init P) ops).snd.inflight.length + (run P (init P) ops).snd.pending.length < 2^31)
    (hst : (run P (init P) ops).rcv.state = 3#32) (hroom : Room (run P (init P) ops).rcv = true)
    (hnorm : RecvQ.hasChunk (run P (init P) ops).rcv.pq ((run P (init P) ops).rcv.pq.cum + 1) = false)
    (hhead : HeadOk P (run P (init P) ops) = true) (hpos : 0 < outstanding (run P (init P) ops)) :
    Taken P (run P (init P) ops) = true := by
  have hfit : SenderProofs.InfFit (run P (init P) ops).snd := by
    rw [snd_run]
    exact SenderProofs.run_inffit _ _ (SenderProofs.init_seq _ _ _) (SenderProofs.init_win _ _ _ hc)
      (SenderProofs.init_inffit _ _ _) hts
  have hsync := C02_netsys_honest_insync P ops hc hN hts hh hnorm
  exact C02_netsys_roundok_taken P ops hc hf hN hrel hest hsm hfit
    (by simp only [RoundOk, Bool.and_eq_true, beq_iff_eq]; exact ⟨⟨⟨hst, hroom⟩, hsync⟩, hhead⟩) hpos

/-- **The healed rounds drain the sender — readable premises.** `C02_netsys_drains_partial` with the opaque `TakenN`
replaced by `RoundOkN P n s`: at the start of each of the `n` rounds that has something outstanding, the receiver is
established, has `Room`, the endpoints are `InSync`, and the first delivery is not answered with an ABORT. From every
reachable NetSys state over reliable ordered streams (`Reliable ops`) with the sender established and `InfFit`
(`SenderProofs.run_inffit` under `TsnOk`): `n ≥ pending + in-flight chunks` healed rounds end with both sender queues empty,
`Association.BufferedAmount()` = 0, and every stream's `BufferedAmount()` = 0 under C15's D9 premise.
Still `_partial`-grade in three premises, each with the lemma that would remove it (file header): `InSync` (from `Honest`),
`Room` (from `FitsBuffer` + the reads), `HeadOk` (from `maxReassemblyQueueEntries = 0`). -/
theorem C02_netsys_drains_roundok (P : Params) (ops : List Op) (n : Nat) (hc : SenderProofs.CfgOk P.cfg)
    (hf : SenderProofs.CfgFit P.cfg) (hN : chunksWritten P ops < 2^31) (hrel : Reliable ops = true)
    (hest : (run P (init P) ops).snd.established = true)
    (hsm : (run P (init P) ops).snd.inflight.length + (run P (init P) ops).snd.pending.length < 2^31)
    (hfit : SenderProofs.InfFit (run P (init P) ops).snd)
    (hok : RoundOkN P n (run P (init P) ops) = true) (hn : outstanding (run P (init P) ops) ≤ n) :
    let fin := run P (init P) (ops ++ healedRounds P n (run P (init P) ops))
    fin = healedN P n (run P (init P) ops) ∧
    fin.snd.inflight = [] ∧ fin.snd.pending = [] ∧ fin.snd.penBytes + fin.snd.infBytes = 0 ∧
    (SenderProofs.RunOk (Sender.init P.cfg P.tsn P.peerRwnd)
        (sndOps P (init P).snd (ops ++ healedRounds P n (run P (init P) ops))) →
      fin.snd.wrapBuf = false → ∀ si, SenderProofs.bufOf fin.snd si = 0) :=
  C02_netsys_drains_partial P ops n hc hf hN hest hsm
    (takenN_of_roundOkN P hc n ops hN (snd_live P ops hc hf hest hsm) hfit hrel hok) hn

/-- **The healed rounds drain the sender of an HONEST run — `InSync` is no longer a premise.** From every reachable NetSys
state over reliable ordered streams whose sender only ever processed SOUND SACKs (`Honest ops`, `TsnOk`), sender established:
`n ≥ pending + in-flight chunks` healed rounds, at the start of each of which (if something is outstanding) the receiver is
established, has `Room`, its receive queue is pop-normalised (`Normal`) and it does not answer the first delivery with an
ABORT (`HeadOk`) — `RoundOkHN P n s` — end with both sender queues empty, `Association.BufferedAmount()` = 0, and every
stream's `BufferedAmount()` = 0 under C15's D9 premise. Honesty is PRESERVED along the rounds: the SACK a healed round hands
to the sender is the receiver's truthful one, which is sound (`NetSysLive.truthful_sound`, `hl_healed`).
Premises left, each with the lemma that would remove it (file header): `Room` (from `FitsBuffer` + the reads), `Normal` and
`HeadOk` (both from `maxReassemblyQueueEntries = 0`: they fail only after a reassembly error). -/
theorem C02_netsys_drains_honest (P : Params) (ops : List Op) (n : Nat) (hc : SenderProofs.CfgOk P.cfg)
    (hf : SenderProofs.CfgFit P.cfg) (hN : chunksWritten P ops < 2^31) (hrel : Reliable ops = true)
    (hts : SenderProofs.TsnOk (Sender.init P.cfg P.tsn P.peerRwnd) (sndOps P (init P).snd ops))
    (hh : Honest P (init P) ops = true)
    (hest : (run P (init P) ops).snd.established = true)
    (hsm : (run P (init P) ops).snd.inflight.length + (run P (init P) ops).snd.pending.length < 2^31)
    (hok : RoundOkHN P n (run P (init P) ops) = true) (hn : outstanding (run P (init P) ops) ≤ n) :
    let fin := run P (init P) (ops ++ healedRounds P n (run P (init P) ops))
    fin = healedN P n (run P (init P) ops) ∧
    fin.snd.inflight = [] ∧ fin.snd.pending = [] ∧ fin.snd.penBytes + fin.snd.infBytes = 0 ∧
    (SenderProofs.RunOk (Sender.init P.cfg P.tsn P.peerRwnd)
        (sndOps P (init P).snd (ops ++ healedRounds P n (run P (init P) ops))) →
      fin.snd.wrapBuf = false → ∀ si, SenderProofs.bufOf fin.snd si = 0) := by
  have hM : tsnsUsed P ops < 2^31 := Nat.lt_of_le_of_lt (tsnsUsed_le P ops) hN
  have hfit : SenderProofs.InfFit (run P (init P) ops).snd := by
    rw [snd_run]
    exact SenderProofs.run_inffit _ _ (SenderProofs.init_seq _ _ _) (SenderProofs.init_win _ _ _ hc)
      (SenderProofs.init_inffit _ _ _) hts
  exact C02_netsys_drains_roundok P ops n hc hf hN hrel hest hsm hfit
    (roundOkN_of_honest P hc n ops hN (snd_live P ops hc hf hest hsm) (run_hl P ops hc hM hts hh) hok) hn

/-- **Entry cap off ⇒ no reassembly error** (step towards deriving `HeadOk` and `Normal`). With
`maxReassemblyQueueEntries = 0` (the default), in EVERY reachable NetSys state: every reassembly queue of the receiver —
registered or already deleted from the table — has `maxEntries = 0` (`NetSysLive.run_z`), so `pushWithError` returns no
limit error on any chunk (`pushWithError_z`), it never panics (`C03_recv_total`), and therefore a chunk that
`acceptPayloadData` decides to store (`Receiver.stores`: a stream object is available and there is credit or the chunk fills a
gap) IS stored: the call reports success, no ABORT is raised by it and `handleData` goes on to the pop loop.
PARTIAL with respect to (d): the two consequences are not assembled — (i) `Normal` as a run invariant (every `handleData`
trace is then `data`, never a bare `push`, so the queue is pop-normalised after every packet: `popAllS_done`), (ii) `HeadOk`,
which additionally needs `willSendAbort = false` as a run invariant and "every chunk of the history decodes to non-empty user
data" (`toWire` of a written fragment; available inside the C01 proof as `toWire_data`). -/
theorem C02_netsys_entry_cap_off_partial (P : Params) (h0 : P.maxEntries = 0) (ops : List Op) (c : Reasm.Chunk)
    (hst : Receiver.stores (run P (init P) ops).rcv c = true) :
    (∀ x ∈ (run P (init P) ops).rcv.streams ++ (run P (init P) ops).rcv.gone, x.q.maxEntries = 0 ∧
      (x.q.pushWithError c).2.2 = .none) ∧
    (Receiver.acceptPayloadData (run P (init P) ops).rcv c).2 = true := by
  obtain ⟨hme, hz⟩ := run_z P h0 ops
  have hnp : Receiver.NoPanic (run P (init P) ops).rcv := by
    rw [run_rcv]; exact Receiver.run_noPanic _ (Receiver.init_noPanic _ _ _ _ _ _ _)
  refine ⟨?_, accept_stored _ c hme hz hnp hst⟩
  intro x hx
  have hzx : Z x.q := by
    rcases List.mem_append.mp hx with h | h
    · exact hz.1 x h
    · exact hz.2 x h
  have hne : Reasm.NoEmpty x.q := by
    rcases List.mem_append.mp hx with h | h
    · exact hnp.2.1 x h
    · exact hnp.2.2 x h
  refine ⟨hzx, ?_⟩
  rcases pushWithError_z x.q c hzx with h | h
  · exact h
  · exact absurd h (Reasm.pushWithError_no_panic x.q c hne)

/-- **Entry cap off: `Normal` and no ABORT are run invariants.** With `maxReassemblyQueueEntries = 0` (the default), in EVERY
reachable NetSys state the receive queue is pop-normalised (`Normal`: the TSN right after the cumulative point is never left
un-popped — no `handleData` trace is a bare `push`); and if every chunk of the history decodes to non-empty user data
(`WireDataB`: every written fragment carries at least one byte), the receiver never raises the ABORT flag and never panics. -/
theorem C02_netsys_nocap_invariants (P : Params) (h0 : P.maxEntries = 0) (ops : List Op) :
    Normal (run P (init P) ops).rcv = true ∧
    (WireDataB P (run P (init P) ops).wire = true →
      (run P (init P) ops).rcv.willSendAbort = false ∧ (run P (init P) ops).rcv.panicked = false) := by
  refine ⟨by simp only [Normal, Bool.not_eq_true']; exact run_normal P h0 ops, ?_⟩
  intro hw
  exact ⟨run_noabort P h0 ops (wireData_of_B P _ hw), (run_nb0 P h0 ops).2.2.1.1⟩

/-- **The healed rounds drain the sender — entry cap off: only "receiver established" and `Room` remain per round.**
`C02_netsys_drains_honest` with `Normal` and `HeadOk` discharged: `maxReassemblyQueueEntries = 0` and every chunk of the
history (healed rounds included: `WireDataB` of the final history) decoding to non-empty user data. From every reachable
NetSys state over reliable ordered streams whose sender only processed sound SACKs, sender established:
`n ≥ pending + in-flight chunks` healed rounds, at the start of each of which (if something is outstanding) the receiver is
established and has `Room` (credit, or something held above its cumulative point) — `RoundOkEN P n s` — end with both sender
queues empty, `Association.BufferedAmount()` = 0, and every stream's `BufferedAmount()` = 0 under C15's D9 premise.
`Room` is the one premise left: it follows from `FitsBuffer` and the reads of the round only with the reassembly-level
completeness lemma (converse of `Reasm.OrdInv.pushed`), which is not proved; without it `C02_netsys_stuck_witness` applies. -/
theorem C02_netsys_drains_honest_nocap (P : Params) (ops : List Op) (n : Nat) (hc : SenderProofs.CfgOk P.cfg)
    (hf : SenderProofs.CfgFit P.cfg) (h0 : P.maxEntries = 0) (hN : chunksWritten P ops < 2^31) (hrel : Reliable ops = true)
    (hts : SenderProofs.TsnOk (Sender.init P.cfg P.tsn P.peerRwnd) (sndOps P (init P).snd ops))
    (hh : Honest P (init P) ops = true)
    (hest : (run P (init P) ops).snd.established = true)
    (hsm : (run P (init P) ops).snd.inflight.length + (run P (init P) ops).snd.pending.length < 2^31)
    (hw : WireDataB P (run P (init P) (ops ++ healedRounds P n (run P (init P) ops))).wire = true)
    (hok : RoundOkEN P n (run P (init P) ops) = true) (hn : outstanding (run P (init P) ops) ≤ n) :
    let fin := run P (init P) (ops ++ healedRounds P n (run P (init P) ops))
    fin = healedN P n (run P (init P) ops) ∧
    fin.snd.inflight = [] ∧ fin.snd.pending = [] ∧ fin.snd.penBytes + fin.snd.infBytes = 0 ∧
    (SenderProofs.RunOk (Sender.init P.cfg P.tsn P.peerRwnd)
        (sndOps P (init P).snd (ops ++ healedRounds P n (run P (init P) ops))) →
      fin.snd.wrapBuf = false → ∀ si, SenderProofs.bufOf fin.snd si = 0) :=
  C02_netsys_drains_honest P ops n hc hf hN hrel hts hh hest hsm
    (roundOkHN_of_nocap P h0 n ops (wireData_of_B P _ hw) hok) hn

/-- **Safety along the healed rounds**: C01 for the run extended by any number of healed rounds — over reliable ordered
streams with FIFO selection (the healed rounds select FIFO and open no stream), what the application has read on a stream is
a prefix of what was written on it. (`C01_netsys_prefix_fifo` for the extended operation list; its hypotheses are
decidable predicates of that list.) -/
theorem C02_netsys_delivered_prefix (P : Params) (ops : List Op) (n : Nat) (si : BitVec 16)
    (hil : P.cfg.useInterleaving = false)
    (hrel : Reliable (ops ++ healedRounds P n (run P (init P) ops)) = true)
    (hsel : SelFifo (ops ++ healedRounds P n (run P (init P) ops)) = true)
    (htsn : chunksWritten P (ops ++ healedRounds P n (run P (init P) ops)) < 2^31)
    (hwin : WinOk P si (2^15) (init P) (ops ++ healedRounds P n (run P (init P) ops)) = true) :
    readsOn P si (init P) (ops ++ healedRounds P n (run P (init P) ops)) <+:
      writesOn P si (init P) (ops ++ healedRounds P n (run P (init P) ops)) :=
  C01.C01_netsys_prefix_fifo P _ si hil hrel hsel htsn hwin

/-! ## tests by evaluation and non-vacuity (`decide` on concrete runs — these are tests, not theorems) -/

private def bytes (m : Nat) : List UInt8 :=
  match m with
  | 0 => [1, 2, 3, 4, 5]
  | 1 => [7]
  | 2 => [9, 8, 7]
  | 3 => [4, 4, 4, 4, 4, 4]
  | _ => []

-- two streams, 2-byte fragments, TSNs across the wrap, a 6-byte receive buffer. History: three messages (3 + 1 + 2
-- chunks) sent; the first chunk LOST, the others delivered out of order, one DUPLICATED, one with the I-bit; the receive
-- buffer is full (ZERO WINDOW: credit 0); the receiver's SACK (cum 2^32−3, a_rwnd 0) arrives mutilated (one gap block
-- only); T3 expires TWICE (back-off, cwnd collapsed to one MTU, everything flagged); a fourth message (3 chunks) is written.
private def PD : Params := { cfg := { mtu := 1200, maxPayload := 2 }, tsn := 4294967294#32, pay := bytes, maxBuf := 6 }
private def ops0 : List Op :=
  [.snd (.openS 1 false 0 0 0), .snd (.openS 2 false 0 0 0), .write 1 51, .write 2 61, .write 1 52,
   .snd (.gather Sender.freeOracle [0, 0, 0, 0, 0, 0]),
   .deliver [(5, false), (4, true)], .deliver [(2, false), (1, false), (1, false)], .deliver [(3, false)],
   .rcv .gather,
   .snd (.sack 4294967293#32 0 [(3, 3)] []), .snd .t3, .snd .t3, .write 1 53]

-- test: the state the network heals in — 6 chunks in flight (the third gap-acked), 3 pending, peer window closed, cwnd one
-- MTU, the receiver holds offsets 2..6 above its cumulative point and advertises 0
set_option maxRecDepth 1000000 in
example :
    let s := run PD (init PD) ops0
    (s.snd.inflight.map (fun c => (c.tsn, c.acked, c.retransmit)), s.snd.pending.length, s.snd.rwnd, s.snd.cwnd) =
      ([(4294967294#32, false, true), (4294967295#32, false, true), (0#32, true, false), (1#32, false, true), (2#32, false, true),
        (3#32, false, true)], 3, 0#32, 1200#32) ∧
    truthfulSack s.rcv = (4294967293#32, 0#32, [(2#16, 6#16)]) ∧ Honest PD (init PD) ops0 = true := by decide

-- test: round 1 — only the lowest outstanding chunk goes out (closed window: the exception of loop index 0), the receiver
-- takes it at zero window (it fills a gap), its cumulative point jumps to 3, the application reads, the SACK (cum 3,
-- a_rwnd 6) empties the in-flight queue; round 2 sends the three pending chunks
set_option maxRecDepth 1000000 in
example :
    let s := run PD (init PD) ops0
    (healedRound PD s).length = 11 ∧ truthfulSack (preSack PD s).rcv = (3#32, 6#32, []) ∧
    (outstanding s, outstanding (healed PD s), outstanding (healedN PD 2 s)) = (9, 3, 0) := by decide

-- test: the receiver's gather of the round emitted exactly the SACK the sender is handed
set_option maxRecDepth 1000000 in
example :
    let s := run PD (init PD) ops0
    let r := (run PD s ((roundOps PD s).dropLast)).rcv
    (Receiver.gather r).2.1 = [.sack 3#32 6#32 [] []] := by decide

-- non-vacuity of `C02_netsys_drains_partial` (n = 9 = pending + in flight) and of `C02_netsys_truthful_sack_accepted`
set_option maxRecDepth 1000000 in
example :
    let fin := run PD (init PD) (ops0 ++ healedRounds PD 9 (run PD (init PD) ops0))
    fin.snd.inflight = [] ∧ fin.snd.pending = [] ∧ fin.snd.penBytes + fin.snd.infBytes = 0 :=
  let h := C02_netsys_drains_partial PD ops0 9 (by unfold SenderProofs.CfgOk; decide) (by unfold SenderProofs.CfgFit; decide)
    (by decide) (by decide) (by decide) (by decide) (by decide)
  ⟨h.2.1, h.2.2.1, h.2.2.2.1⟩

set_option maxRecDepth 1000000 in
example : (Sender.sack (run PD (init PD) ops0).snd (truthfulSack (run PD (init PD) ops0).rcv).1 0
    (truthfulSack (run PD (init PD) ops0).rcv).2.2 []).2 = .ok := by decide

-- test: after the healed rounds the application has read EVERY accepted write of both streams, in order, and the stream's
-- buffered amount is 0
set_option maxRecDepth 1000000 in
example :
    let all := ops0 ++ healedRounds PD 2 (run PD (init PD) ops0)
    readsOn PD 1 (init PD) all = writesOn PD 1 (init PD) all ∧ readsOn PD 2 (init PD) all = writesOn PD 2 (init PD) all ∧
    readsOn PD 1 (init PD) all = [(51, [1, 2, 3, 4, 5]), (52, [9, 8, 7]), (53, [4, 4, 4, 4, 4, 4])] ∧
    SenderProofs.bufOf (run PD (init PD) all).snd 1 = 0 := by decide

-- `InfFit` of the example state (every un-acked in-flight chunk fits a packet), by evaluation
private theorem infFit_ex : SenderProofs.InfFit (run PD (init PD) ops0).snd := by
  intro c hc ha
  have : ∀ c ∈ (run PD (init PD) ops0).snd.inflight,
      decide (Sender.hdr + c.sizeInPacket (run PD (init PD) ops0).snd.cfg.useInterleaving ≤ ((run PD (init PD) ops0).snd.cfg.mtu.toNat : Int)) = true := by
    decide
  exact of_decide_eq_true (this c hc)

-- non-vacuity of `C02_netsys_roundok_taken` and `C02_netsys_drains_roundok` (n = 9 = pending + in flight)
set_option maxRecDepth 1000000 in
example : Taken PD (run PD (init PD) ops0) = true :=
  C02_netsys_roundok_taken PD ops0 (by unfold SenderProofs.CfgOk; decide) (by unfold SenderProofs.CfgFit; decide)
    (by decide) (by decide) (by decide) (by decide) infFit_ex (by decide) (by decide)

set_option maxRecDepth 1000000 in
example :
    let fin := run PD (init PD) (ops0 ++ healedRounds PD 9 (run PD (init PD) ops0))
    fin.snd.inflight = [] ∧ fin.snd.pending = [] ∧ fin.snd.penBytes + fin.snd.infBytes = 0 :=
  let h := C02_netsys_drains_roundok PD ops0 9 (by unfold SenderProofs.CfgOk; decide) (by unfold SenderProofs.CfgFit; decide)
    (by decide) (by decide) (by decide) (by decide) infFit_ex (by decide) (by decide)
  ⟨h.2.1, h.2.2.1, h.2.2.2.1⟩

-- non-vacuity of `C02_netsys_honest_insync` / `C02_netsys_honest_taken`: the example history is honest (its one SACK, though
-- mutilated, names only what the receiver holds) and `TsnOk`
set_option maxRecDepth 1000000 in
example : InSync (run PD (init PD) ops0) = true :=
  C02_netsys_honest_insync PD ops0 (by unfold SenderProofs.CfgOk; decide) (by decide) (by decide) (by decide) (by decide)

set_option maxRecDepth 1000000 in
example : Taken PD (run PD (init PD) ops0) = true :=
  C02_netsys_honest_taken PD ops0 (by unfold SenderProofs.CfgOk; decide) (by unfold SenderProofs.CfgFit; decide)
    (by decide) (by decide) (by decide) (by decide) (by decide) (by decide) (by decide) (by decide) (by decide) (by decide) (by decide)

-- test: a run that is NOT honest — the sender is handed a SACK for TSN 2^32−2 that the receiver never got — is not `InSync`
set_option maxRecDepth 1000000 in
example :
    let bad := [Op.snd (.openS 1 false 0 0 0), .write 1 51, .snd (.gather Sender.freeOracle [0, 0, 0]),
      .snd (.sack 4294967294#32 65536 [] [])]
    Honest PD (init PD) bad = false ∧ InSync (run PD (init PD) bad) = false := by decide

-- non-vacuity of `C02_netsys_drains_honest` (n = 9): honest history, `RoundOkHN` decided on the run
set_option maxRecDepth 1000000 in
example :
    let fin := run PD (init PD) (ops0 ++ healedRounds PD 9 (run PD (init PD) ops0))
    fin.snd.inflight = [] ∧ fin.snd.pending = [] ∧ fin.snd.penBytes + fin.snd.infBytes = 0 :=
  let h := C02_netsys_drains_honest PD ops0 9 (by unfold SenderProofs.CfgOk; decide) (by unfold SenderProofs.CfgFit; decide)
    (by decide) (by decide) (by decide) (by decide) (by decide) (by decide) (by decide) (by decide)
  ⟨h.2.1, h.2.2.1, h.2.2.2.1⟩

-- non-vacuity of `C02_netsys_entry_cap_off_partial`: the example state, the next chunk of the history
set_option maxRecDepth 1000000 in
example : (Receiver.acceptPayloadData (run PD (init PD) ops0).rcv (toWire PD ((run PD (init PD) ops0).wire[0]!))).2 = true :=
  (C02_netsys_entry_cap_off_partial PD rfl ops0 _ (by decide)).2

-- non-vacuity of `C02_netsys_nocap_invariants` and `C02_netsys_drains_honest_nocap` (n = 9): entry cap off, every chunk of
-- the final history carries user data, `RoundOkEN` (receiver established, `Room`) decided on the run
set_option maxRecDepth 1000000 in
example : (run PD (init PD) ops0).rcv.willSendAbort = false ∧ (run PD (init PD) ops0).rcv.panicked = false :=
  (C02_netsys_nocap_invariants PD rfl ops0).2 (by decide)

set_option maxRecDepth 1000000 in
example :
    let fin := run PD (init PD) (ops0 ++ healedRounds PD 9 (run PD (init PD) ops0))
    fin.snd.inflight = [] ∧ fin.snd.pending = [] ∧ fin.snd.penBytes + fin.snd.infBytes = 0 :=
  let h := C02_netsys_drains_honest_nocap PD ops0 9 (by unfold SenderProofs.CfgOk; decide) (by unfold SenderProofs.CfgFit; decide)
    rfl (by decide) (by decide) (by decide) (by decide) (by decide) (by decide) (by decide) (by decide) (by decide)
  ⟨h.2.1, h.2.2.1, h.2.2.2.1⟩

-- non-vacuity of `C02_netsys_delivered_prefix`
set_option maxRecDepth 1000000 in
example : readsOn PD 1 (init PD) (ops0 ++ healedRounds PD 2 (run PD (init PD) ops0)) <+:
    writesOn PD 1 (init PD) (ops0 ++ healedRounds PD 2 (run PD (init PD) ops0)) :=
  C02_netsys_delivered_prefix PD ops0 2 1 rfl (by decide) (by decide) (by decide) (by decide)

-- test: the premises of a round (`RoundOk`: receiver established, `Room`, `InSync`, `HeadOk`) hold at the start of every healed
-- round of the example that has something outstanding; in the stuck witness `Room` fails from the second round on
set_option maxRecDepth 1000000 in
example : RoundOkN PD 3 (run PD (init PD) ops0) = true ∧ Room (run PD (init PD) ops0).rcv = true ∧
    InSync (run PD (init PD) ops0) = true ∧ HeadOk PD (run PD (init PD) ops0) = true := by decide

set_option maxRecDepth 1000000 in
/-- **Witness: a message larger than the receive buffer is never delivered.** Receive buffer 4 bytes, fragments of 2
bytes (the buffer holds two maximal chunks), one 6-byte message on a reliable ordered stream, no fault at all. The first
healed round delivers all three chunks: the receiver takes two (4 bytes: credit 0) and refuses the third — `acceptPayloadData`
drops a chunk at a full buffer unless it fills a gap below the highest TSN received, and nothing is held above the
cumulative point. The message is incomplete, so the application can read nothing, so the credit stays 0: every further
healed round retransmits TSN 12 (T3, zero-window probe), the receiver drops it again, the SACK repeats cumulative TSN 11.
The sender keeps one chunk in flight, `Taken` is false in every round, nothing is ever read. (Evaluated for 12 rounds; from
round 2 on the state repeats up to counters.) So "receive buffer ≥ one maximal chunk and the application reads in every
round" is NOT enough for C02; what is needed is that every message in progress fits the receive buffer
(`maxMessageSize ≤ maxReceiveBufferSize`), which the defaults satisfy (64 KiB vs 1 MiB) but `Config` does not enforce. -/
theorem C02_netsys_stuck_witness :
    let P : Params := { cfg := { mtu := 1200, maxPayload := 2 }, tsn := 10#32, maxBuf := 4,
                        pay := fun m => if m = 0 then [4, 4, 4, 4, 4, 4] else [] }
    let ops := [Op.snd (.openS 1 false 0 0 0), .write 1 51]
    let s := run P (init P) ops
    Reliable ops = true ∧ SelFifo ops = true ∧ Honest P (init P) ops = true ∧ outstanding s = 3 ∧
    (∀ n ∈ [1, 2, 3, 4, 8, 12],
      (healedN P n s).snd.inflight.map (fun c => (c.tsn, c.acked)) = [(12#32, false)] ∧ (healedN P n s).snd.pending = [] ∧
      (healedN P n s).rcv.pq.cum = 11#32 ∧ Receiver.credit (healedN P n s).rcv = 0#32 ∧ Room (healedN P n s).rcv = false ∧
      Taken P (healedN P n s) = false ∧
      readsOn P 1 (init P) (ops ++ healedRounds P n s) = []) := by
  decide

end C02
