import SctpVerif.Proofs.StreamApi
/-!
# C06 (API-visible half) — DCEP is always reliable and ordered; retransmission policies bound the transmissions

Property theorems only. They are about the L0 models `Sender` (`Model/Sender.lean`: `checkPartialReliabilityStatus`,
`abandoned()` = marked ∧ all fragments in flight, the three retransmission paths of a gather, T3 / RACK / PTO marking) and
`Sapi` (`Model/StreamApi.lean`: `WriteSCTP` … on top of it), tied to the code by the direct-drive harnesses
(`TestVerifAssocSender`, `TestVerifStreamAPI`: per-chunk `nSent`, abandoned flags, DATA packets and FORWARD-TSN of every
gather are compared) and by regenerated expression sites: `Gen.checkPR_*` (the abandonment decision), `Gen.abandoned_*`,
and the `abandoned()` tests of every marking / retransmission path (`C06_abandon_decision`, `C06_abandoned_skipped`).

Quantification: all states / arguments for the decision theorems; ALL operation lists of the stream-API model (`Sapi.Op`:
writes on any stream, gathers with arbitrary budget / selection oracles, SACKs with arbitrary contents, T3, clock ticks
with arbitrary RACK / PTO marks, state changes, closes, reads) for the bounds, from any state satisfying the stated
invariant (it holds when the stream has just been opened with the policy).

The receive-side half of C06 (at most once, intact, subsequence) is not in this file (Reasm / receiver work).

Findings the theorems make precise: **D14** (known): `abandoned()` needs all fragments in flight, so for fragmented
messages the bounds hold only for the last fragment — `C06_rexmit_bound_fragmented_partial`, `C06_D14_witness`.
**D21** (found on the tree before 6ddfdda, now fixed there): `getDataPacketsToRetransmit` did not look at `abandoned()`; a
chunk that carried a T3 mark, was fast-retransmitted first and became abandoned by that transmission was sent once more —
under a lifetime policy a SECOND transmission after expiry. With the fix every retransmission path skips abandoned chunks
(`C06_abandoned_skipped`), an abandoned() message is never transmitted again (`C06_abandoned_never_retransmitted`), and
the lifetime bound holds at full strength for unfragmented messages (`C06_timed_bound`); the old witness is now a
regression guard (`C06_D21_fixed`, corpus/C06/sapi_d21_timed_second_late_transmission.ops).
-/
namespace C06
open Gen Sapi SapiProofs SenderProofs

/-- **DCEP is sent ordered and is never abandoned** (full strength), for any reliability parameters of the stream:
(1) `packetize` clears the U flag for PPI = DCEP whatever the stream's `unordered` setting, on every fragment;
(2) `checkPartialReliabilityStatus` never marks a DCEP chunk, whatever the policy, the transmission count, the clock;
(3) so an accepted `write` with PPI = DCEP queues ordered chunks only. -/
theorem C06_dcep_reliable_ordered :
    (∀ (cfg : Sender.Cfg) (st : Sender.Stream) (si : BitVec 16) (msg len : Nat),
      (Sender.packetize cfg st si msg dcep len).unordered = false ∧
      ∀ c ∈ (Sender.packetize cfg st si msg dcep len).chunks, c.unordered = false ∧ c.ppi = dcep) ∧
    (∀ (s : Sender.St) (ab : List Nat) (c : Sender.Chunk), c.ppi = dcep → Sender.checkPR s ab c = ab) ∧
    (∀ (s : St) (si : BitVec 16) (len : Nat) (dl : Option Nat) (n : Nat), (write s si dcep len dl).2 = .ok n → n ≠ 0 →
      ∃ cs, (write s si dcep len dl).1.snd.pending = s.snd.pending ++ cs ∧ ∀ c ∈ cs, c.unordered = false ∧ c.ppi = dcep) := by
  refine ⟨?_, ?_, ?_⟩
  · intro cfg st si msg len
    have hu : (Sender.packetize cfg st si msg dcep len).unordered = false := by simp [Sender.packetize, dcep]
    refine ⟨hu, ?_⟩
    intro c hc
    have hm := mkChunks_static si msg dcep _ _ _ _ 0 true c (by simpa [Sender.packetize] using hc)
    exact ⟨by rw [hm.1]; simp [dcep], hm.2.1⟩
  · intro s ab c hp
    simp only [Sender.checkPR]
    split
    · rfl
    · have : (c.ppi == BitVec.ofNat 32 PayloadTypeWebRTCDCEP) = true := by rw [hp]; simp [dcep]
      simp [this]
  · intro s si len dl n hr hn
    obtain ⟨st, cs, u, _, _, h3, _, _, h6, h7, _⟩ := write_ok_shape s si dcep len dl n hr hn
    refine ⟨cs, h3, ?_⟩
    intro c hc
    obtain ⟨i, hi⟩ := List.getElem?_of_mem hc
    obtain ⟨_, a2, a3, _⟩ := h6 i c hi
    exact ⟨by rw [a3, h7]; simp [dcep], a2⟩

/-- non-vacuity: a DCEP message on an unordered stream with retransmission limit 0 is queued ordered, sent, lost three
times over (T3, T3, fast retransmission marks) and never abandoned; an ordinary message on the same stream is -/
example :
    let s := run (init { mtu := 1200, maxPayload := 1172 } false 1000 1048576)
      [.openS 1 true 1 0, .write 1 50 20 none, .write 1 53 30 none, .gather Sender.freeOracle [0, 0] none, .t3,
       .gather Sender.freeOracle [] none, .t3, .gather Sender.freeOracle [] none]
    s.snd.inflight.map (fun c => (c.ppi.toNat, c.unordered, c.nSent.toNat, s.snd.abandoned c)) = [(50, false, 3, false), (53, true, 1, true)] := by
  decide

/-- **The abandonment decision is the code's.** `Sender.checkPR` (the model of `checkPartialReliabilityStatus`, with the
`firstSent` of the D19 fix) written with the conditions the translator regenerates from the source on every run: not
enabled → nothing; DCEP → nothing; stream not in the table → nothing; retransmission limit: `nSent >= value`; lifetime:
`elapsed (ms since the FIRST transmission) >= value`; and `abandoned()` = marked ∧ all fragments in flight, read through
the head fragment. A changed comparison or a dropped exemption in /repo changes these definitions and breaks this theorem. -/
theorem C06_abandon_decision (s : Sender.St) (ab ai : List Nat) (c : Sender.Chunk) :
    Sender.checkPR s ab c =
      (if checkPR_disabled s.cfg.prEnabled then ab
       else if checkPR_isDCEP c.ppi then ab
       else match s.streams c.si with
         | none => ab
         | some st =>
           if !st.registered then ab
           else if checkPR_isRexmit st.relType then (if checkPR_rexmitExhausted c.nSent st.relVal then c.msg :: ab else ab)
           else if checkPR_isTimed st.relType then
             (if checkPR_timedExpired ((s.now - c.firstSent : Nat) : Int) st.relVal then c.msg :: ab else ab)
           else ab) ∧
    Sender.isAbandoned ab ai c = abandoned_viaHead (ab.contains c.msg) (ai.contains c.msg) ∧
    Sender.isAbandoned ab ai c = abandoned_self (ab.contains c.msg) (ai.contains c.msg) := by
  refine ⟨?_, rfl, rfl⟩
  simp only [Sender.checkPR, checkPR_disabled, checkPR_isDCEP, checkPR_isRexmit, checkPR_isTimed, checkPR_rexmitExhausted,
    checkPR_timedExpired, PayloadTypeWebRTCDCEP, ReliabilityTypeRexmit, ReliabilityTypeTimed]
  simp only [decide_eq_true_eq, Int.ofNat_le, ge_iff_le]
  cases s.streams c.si <;> rfl

/-- **Every path that marks or picks a chunk for retransmission, and the advance of the peer ack point, test `abandoned()`
as the code does** (regenerated sites): T3 marking (`markAllToRetrasmit`), miss indications (`processFastRetransmission`),
the fast-retransmission gather, RACK after a SACK, the RACK timer and PTO (oracle marks of the model: applied to chunks
that are neither acked nor abandoned), the two loops that advance `advancedPeerTSNAckPoint`, and (since the D21 fix) the T3-retransmission gather
`getDataPacketsToRetransmit`: a marked chunk that is abandoned() is passed over. -/
theorem C06_abandoned_skipped (s : Sender.St) (c : Sender.Chunk) (marks : List (BitVec 32)) :
    (∀ {B : Type} (allow : B → Int → Bool × B) (awnd : BitVec 32) (i : Int) (a : Sender.LoopAcc B), c.retransmit = true →
      rtx_skipsAbandoned (Sender.isAbandoned a.aband s.allInflightMsgs c) = true → Sender.rtxDecide s allow awnd i a c = .skip) ∧
    (Sender.markAllToRetransmit s = s.inflight.map fun c => if markAll_skips c.acked (s.abandoned c) then c else { c with retransmit := true }) ∧
    ((!c.acked && !s.abandoned c && decide (c.missIndicator < 3)) = miss_eligible c.acked (s.abandoned c) c.missIndicator) ∧
    ((c.acked || Sender.isAbandoned s.abandonedMsgs s.allInflightMsgs c) = fastRtx_skipsDone c.acked (s.abandoned c)) ∧
    ((Sender.applyMarks s marks).inflight = s.inflight.map fun c =>
        if marks.contains c.tsn && !rackSack_skips c.acked (s.abandoned c) then { c with retransmit := true } else c) ∧
    (rackSack_skips c.acked (s.abandoned c) = rackTimeout_skips c.acked (s.abandoned c) ∧
     rackSack_skips c.acked (s.abandoned c) = pto_skips c.acked (s.abandoned c)) ∧
    ((!s.abandoned c) = advanceSack_stops (s.abandoned c) ∧ (!s.abandoned c) = advanceT3_stops (s.abandoned c)) := by
  refine ⟨?_, rfl, rfl, rfl, ?_, ⟨rfl, rfl⟩, ⟨rfl, rfl⟩⟩
  · intro B allow awnd i a hr ha
    simp only [rtx_skipsAbandoned] at ha
    simp [Sender.rtxDecide, hr, ha]
  simp only [Sender.applyMarks, rackSack_skips]
  congr 1
  funext x
  cases marks.contains x.tsn <;> cases x.acked <;> cases s.abandoned x <;> rfl

/-! ### the bounds along runs -/

/-- the invariant behind the bounds holds when the stream has just been opened with the policy -/
theorem C06_invariant_initial (cfg : Sender.Cfg) (bw : Bool) (tsn rw : BitVec 32) (hc : CfgOk cfg) (hpr : cfg.prEnabled = true)
    (σ : BitVec 16) (u : Bool) (v : BitVec 32) :
    RInv (KRex σ v) Unmarked (RexCtx σ v) (step (init cfg bw tsn rw) (.openS σ u (BitVec.ofNat 8 ReliabilityTypeRexmit) v)) ∧
    RInv (KTimed σ v) (fun _ => True) (TimedCtx σ v) (step (init cfg bw tsn rw) (.openS σ u (BitVec.ofNat 8 ReliabilityTypeTimed) v)) := by
  have hopen : ∀ rt, (step (init cfg bw tsn rw) (.openS σ u rt v)).snd = Sender.openStream (Sender.init cfg tsn rw) σ u rt v 0 := by
    intro rt
    have : ¬ openRefused (init cfg bw tsn rw).state = true := by simp [init, openRefused, established, shutdownAckSent, shutdownPending, shutdownReceived, shutdownSent, closed]
    exact (open_frame (init cfg bw tsn rw) σ u rt v this).2.2
  have hw : ∀ rt, (step (init cfg bw tsn rw) (.openS σ u rt v)).waiters = [] := by
    intro rt
    have : ¬ openRefused (init cfg bw tsn rw).state = true := by simp [init, openRefused, established, shutdownAckSent, shutdownPending, shutdownReceived, shutdownSent, closed]
    exact (open_frame (init cfg bw tsn rw) σ u rt v this).1
  have hpol : ∀ rt : Nat, Policy (Sender.openStream (Sender.init cfg tsn rw) σ u (BitVec.ofNat 8 rt) v 0) σ rt v := by
    intro rt
    exact ⟨hpr, { unordered := u, relType := BitVec.ofNat 8 rt, relVal := v, threshold := 0, hasCb := true },
      by simp [Sender.openStream, Sender.setStream, Sender.init], rfl, rfl, rfl⟩
  refine ⟨⟨⟨by rw [hopen]; exact hc, by rw [hopen]; exact hpol _⟩, ?_, ?_, ?_⟩, ⟨⟨by rw [hopen]; exact hc, by rw [hopen]; exact hpol _⟩, ?_, ?_, ?_⟩⟩
  · rw [hopen]; intro c hc'; simp [Sender.openStream, Sender.setStream, Sender.init] at hc'
  · rw [hopen]; intro c hc'; simp [Sender.openStream, Sender.setStream, Sender.init] at hc'
  · rw [hw]; intro w hw'; cases hw'
  · rw [hopen]; intro c hc'; simp [Sender.openStream, Sender.setStream, Sender.init] at hc'
  · rw [hopen]; intro c hc'; simp [Sender.openStream, Sender.setStream, Sender.init] at hc'
  · rw [hw]; intro w hw'; cases hw'

/-- **Retransmission limit N: at most N+1 transmissions** (full strength for unfragmented messages; in general for the
last fragment of every message). Stream `σ` under a retransmission limit `N` with FORWARD-TSN negotiated; any run that
does not re-open or re-configure `σ` (everything else is allowed, on `σ` and on other streams). Then in every reachable
state every in-flight chunk of `σ` that is an ending fragment (E flag: in particular every unfragmented message) and
not DCEP has `nSent ≤ max 1 N ≤ N+1`, and every such chunk that ANY gather puts on the wire — new DATA, T3-path
retransmission, fast retransmission — carries `nSent ≤ max 1 N`. `nSent` is the transmission ordinal: 1 when the chunk is
moved to in-flight, `+1` by `rtxUpd` / `fastUpd` for every later appearance in a packet (the record in the packet is the
updated chunk). (The code's test is `nSent >= N`: the chunk is abandoned when its N-th transmission is made, one
transmission earlier than the statement allows; N = 0 behaves like N = 1.) -/
theorem C06_rexmit_bound (σ : BitVec 16) (N : BitVec 32) (s : St) (h : RInv (KRex σ N) Unmarked (RexCtx σ N) s)
    (ops : List Op) (hops : ∀ op ∈ ops, Keeps σ op) :
    (∀ c ∈ (run s ops).snd.inflight, c.si = σ → c.ppi ≠ dcep → c.efrag = true →
      c.nSent.toNat ≤ max 1 N.toNat ∧ c.nSent.toNat ≤ N.toNat + 1) ∧
    (∀ orc sel woke, ∀ p ∈ (gather (run s ops) orc sel woke).2.out.packets, ∀ e ∈ p,
      e.si = σ → e.ppi ≠ dcep → e.efrag = true → e.nSent.toNat ≤ max 1 N.toNat ∧ e.nSent.toNat ≤ N.toNat + 1) := by
  have hr := run_rinv (rex_hyp σ N) s h ops hops
  have key : ∀ ab ai (c : Sender.Chunk), KRex σ N ab ai c → c.si = σ → c.ppi ≠ dcep → c.efrag = true →
      c.nSent.toNat ≤ max 1 N.toNat ∧ c.nSent.toNat ≤ N.toNat + 1 := by
    intro ab ai c hk hsi hp he
    obtain ⟨_, k2, _⟩ := hk hsi hp
    have := k2 he
    exact ⟨this, by omega⟩
  exact ⟨fun c hc => key _ _ c (hr.inf c hc),
    fun orc sel woke p hp e he => key _ _ e (gather_emits (rex_hyp σ N) _ hr orc sel woke p hp e he)⟩

/-- non-vacuity, and the bound `max 1 N` is met: limit 2, unfragmented messages; T3 marks 1000 and 1001, the closed window
lets only 1000 out, three gap reports fast-retransmit 1001 (2nd transmission: limit reached, abandoned). The T3 mark it
still carries no longer sends it a 3rd time (D21 fix); nothing more, whatever is tried (T3 again, RACK marks) -/
example :
    let s := run (init { mtu := 1200, maxPayload := 1172 } false 1000 1048576)
      [.openS 1 false 1 2, .write 1 53 1100 none, .write 1 53 1100 none, .write 1 53 1100 none,
       .gather Sender.freeOracle [0, 0, 0] none, .t3,
       .sack 999 1500 [(3, 3)] [], .sack 999 1500 [(3, 3)] [], .sack 999 1500 [(3, 3)] [],
       .gather Sender.freeOracle [] none, .sack 1000 1048576 [(2, 2)] [], .gather Sender.freeOracle [] none,
       .t3, .gather Sender.freeOracle [] none, .tick 5000 2 [1001], .gather Sender.freeOracle [] none]
    s.snd.inflight.map (fun c => (c.tsn.toNat, c.nSent.toNat, s.snd.abandoned c)) = [(1001, 2, true), (1002, 1, false)] := by decide

/-- **Fragmented messages: what the code really guarantees** (partial: D14).
FULL STATEMENT (false for this implementation, `C06_D14_witness`): under a retransmission limit N every chunk is put on
the wire at most N+1 times.
PROVED, for every fragment of every message of `σ` (not DCEP), in every reachable state and for every chunk any gather
emits: once a fragment has been transmitted N times its message is MARKED abandoned (`_abandoned` on the head: the
decision is taken at every transmission, independent of fragmentation) — but `abandoned()` additionally needs the last
fragment to have left the pending queue, and until then T3 / RACK / fast retransmission keep sending the marked
fragments. The N+1 bound is proved for the ending fragment (`C06_rexmit_bound`); from the moment the message is
abandoned() no fragment is transmitted again (`C06_abandoned_never_retransmitted`).
MISSING for the full statement: nothing provable — the code retransmits fragments of a marked message while its tail is
still pending (design choice, known finding D14). -/
theorem C06_rexmit_bound_fragmented_partial (σ : BitVec 16) (N : BitVec 32) (s : St) (h : RInv (KRex σ N) Unmarked (RexCtx σ N) s)
    (ops : List Op) (hops : ∀ op ∈ ops, Keeps σ op) :
    (∀ c ∈ (run s ops).snd.inflight, c.si = σ → c.ppi ≠ dcep → N.toNat ≤ c.nSent.toNat → c.msg ∈ (run s ops).snd.abandonedMsgs) ∧
    (∀ orc sel woke, ∀ p ∈ (gather (run s ops) orc sel woke).2.out.packets, ∀ e ∈ p,
      e.si = σ → e.ppi ≠ dcep → N.toNat ≤ e.nSent.toNat → e.msg ∈ (Sender.gather (run s ops).snd orc sel).1.abandonedMsgs) := by
  have hr := run_rinv (rex_hyp σ N) s h ops hops
  have key : ∀ ab ai (c : Sender.Chunk), KRex σ N ab ai c → c.si = σ → c.ppi ≠ dcep → N.toNat ≤ c.nSent.toNat → c.msg ∈ ab := by
    intro ab ai c hk hsi hp hn
    obtain ⟨k1, _, _⟩ := hk hsi hp
    by_cases hm : c.msg ∈ ab
    · exact hm
    · have := k1 hm; rw [BitVec.lt_def] at this; omega
  exact ⟨fun c hc => key _ _ c (hr.inf c hc),
    fun orc sel woke p hp e he => key _ _ e (gather_emits (rex_hyp σ N) _ hr orc sel woke p hp e he)⟩

/-- the witness of D14 on the model (the implementation does the same: corpus/C06/known/d14_rexmit_limit_fragmented.ops):
limit 0, a 2-fragment message, the zero window lets only the first fragment out; T3: it is sent a second time (2 > N+1 = 1)
although its message is marked, because the tail is still pending -/
theorem C06_D14_witness :
    let s := run (init { mtu := 1200, maxPayload := 1168 } false 100 0)
      [.openS 1 false 1 0, .write 1 53 2000 none, .gather Sender.freeOracle [0, 0] none, .t3, .gather Sender.freeOracle [0] none]
    s.snd.inflight.map (fun c => (c.nSent.toNat, c.efrag, s.snd.abandonedMsgs.contains c.msg, s.snd.abandoned c)) = [(2, false, true, false)] ∧
    s.snd.pending.length = 1 := by decide

/-- **Once a message is abandoned() it is never transmitted again** (all policies, fragmented or not; holds since the
D21 fix). Take any state in which message `m` is abandoned() (marked and all its fragments in flight: none of its chunks
is pending or held by a parked call), and let `B` be a snapshot of the transmission counts of its in-flight chunks
(indexed by TSN). Then after ANY operation list every in-flight chunk of `m` still has `nSent ≤ B tsn` — the counter every
appearance on the wire increments never moves again — and every chunk of `m` a gather would put on the wire has
`nSent ≤ B tsn` as well (so it is not a new transmission: a transmission stamps `old nSent + 1`). -/
theorem C06_abandoned_never_retransmitted (m : Nat) (B : BitVec 32 → Nat) (s : St) (hc : CfgOk s.snd.cfg) (hm : m < s.snd.nextMsg)
    (hab : m ∈ s.snd.abandonedMsgs) (hai : m ∈ s.snd.allInflightMsgs)
    (hB : ∀ c ∈ s.snd.inflight, c.msg = m → c.nSent.toNat ≤ B c.tsn)
    (hpen : ∀ c ∈ s.snd.pending, c.msg ≠ m) (hwait : ∀ w ∈ s.waiters, ∀ c ∈ w.chunks, c.msg ≠ m) (ops : List Op) :
    (∀ c ∈ (run s ops).snd.inflight, c.msg = m → c.nSent.toNat ≤ B c.tsn) ∧
    (∀ orc sel woke, ∀ p ∈ (gather (run s ops) orc sel woke).2.out.packets, ∀ e ∈ p, e.msg = m → e.nSent.toNat ≤ B e.tsn) := by
  have h0 : RInv (Frozen m B) (fun c => c.msg ≠ m) (FrozenCtx m) s :=
    ⟨⟨hc, hm⟩, fun c hc' hcm => ⟨⟨hab, hai⟩, hB c hc' hcm⟩, hpen, hwait⟩
  have hr := run_rinv (frozen_hyp m B) s h0 ops (fun _ _ => trivial)
  exact ⟨fun c hc' hcm => (hr.inf c hc' hcm).2,
    fun orc sel woke p hp e he hem => (gather_emits (frozen_hyp m B) _ hr orc sel woke p hp e he hem).2⟩

/-- non-vacuity: the hypotheses hold for message 1 (TSN 1001) in the D21 scenario after its fast retransmission (marked, all in
flight, transmitted twice): it stays at two transmissions -/
example :
    let s1 := run (init { mtu := 1200, maxPayload := 1172 } false 1000 1048576)
      [.openS 1 false 2 50, .write 1 53 1100 none, .write 1 53 1100 none, .write 1 53 1100 none,
       .gather Sender.freeOracle [0, 0, 0] none, .tick 100 0 [], .t3,
       .sack 999 1500 [(3, 3)] [], .sack 999 1500 [(3, 3)] [], .sack 999 1500 [(3, 3)] [],
       .gather Sender.freeOracle [] none]
    (1 < s1.snd.nextMsg ∧ 1 ∈ s1.snd.abandonedMsgs ∧ 1 ∈ s1.snd.allInflightMsgs) ∧
    s1.snd.inflight.all (fun c => c.msg != 1 || decide (c.nSent.toNat ≤ 2)) = true ∧ s1.snd.pending.all (fun c => c.msg != 1) = true ∧
    s1.waiters = [] := by decide

/-- **Lifetime L: once it has expired at most one further transmission** (full strength for unfragmented messages; in
general for the last fragment of every message). Stream `σ` under a lifetime of `L` ms with FORWARD-TSN negotiated; any
run that does not re-open or re-configure `σ`. For every in-flight chunk of `σ` (not DCEP) in every reachable state, and
every chunk any gather puts on the wire: if its LAST transmission (`since`) happened `L` ms or more after its FIRST
(`firstSent`: D19 fix) then its message is marked abandoned, and if the chunk is an ending fragment the message is also
flagged all-in-flight — it is abandoned(). By `C06_abandoned_never_retransmitted` it is then never transmitted again: the
transmission that finds the lifetime expired is the last one. (Non-final fragments of a fragmented message: marked but not
abandoned() while the tail is pending — the D14 class.) -/
theorem C06_timed_bound (σ : BitVec 16) (L : BitVec 32) (s : St) (h : RInv (KTimed σ L) (fun _ => True) (TimedCtx σ L) s)
    (ops : List Op) (hops : ∀ op ∈ ops, Keeps σ op) :
    (∀ c ∈ (run s ops).snd.inflight, c.si = σ → c.ppi ≠ dcep → L.toNat ≤ c.since - c.firstSent →
      c.msg ∈ (run s ops).snd.abandonedMsgs ∧ (c.efrag = true → (run s ops).snd.abandoned c = true)) ∧
    (∀ orc sel woke, ∀ p ∈ (gather (run s ops) orc sel woke).2.out.packets, ∀ e ∈ p,
      e.si = σ → e.ppi ≠ dcep → L.toNat ≤ e.since - e.firstSent →
        e.msg ∈ (Sender.gather (run s ops).snd orc sel).1.abandonedMsgs ∧
        (e.efrag = true → (Sender.gather (run s ops).snd orc sel).1.abandoned e = true)) := by
  have hr := run_rinv (timed_hyp σ L) s h ops hops
  have key : ∀ ab ai (c : Sender.Chunk), KTimed σ L ab ai c → c.si = σ → c.ppi ≠ dcep → L.toNat ≤ c.since - c.firstSent →
      c.msg ∈ ab ∧ (c.efrag = true → Sender.isAbandoned ab ai c = true) := by
    intro ab ai c hk hsi hp hn
    obtain ⟨k1, k2⟩ := hk hsi hp
    have hm : c.msg ∈ ab := by
      by_cases hm : c.msg ∈ ab
      · exact hm
      · have := k1 hm; omega
    exact ⟨hm, fun he => isAbandoned_true hm (k2 he)⟩
  exact ⟨fun c hc => key _ _ c (hr.inf c hc),
    fun orc sel woke p hp e he => key _ _ e (gather_emits (timed_hyp σ L) _ hr orc sel woke p hp e he)⟩

/-- the D21 scenario on the model of the FIXED tree (the implementation does the same:
corpus/C06/sapi_d21_timed_second_late_transmission.ops): lifetime 50 ms, three unfragmented messages sent at t = 0; at
t = 100 ms T3 marks 1000 and 1001; the closed window lets only 1000 out; three gap reports fast-retransmit 1001 (the one
transmission after expiry: abandoned() now, the T3 mark stays); the next gather puts NO DATA on the wire, only the
FORWARD-TSN up to 1001. Before 6ddfdda it sent 1001 a third time. -/
theorem C06_D21_fixed :
    let s1 := run (init { mtu := 1200, maxPayload := 1172 } false 1000 1048576)
      [.openS 1 false 2 50, .write 1 53 1100 none, .write 1 53 1100 none, .write 1 53 1100 none,
       .gather Sender.freeOracle [0, 0, 0] none, .tick 100 0 [], .t3,
       .sack 999 1500 [(3, 3)] [], .sack 999 1500 [(3, 3)] [], .sack 999 1500 [(3, 3)] [],
       .gather Sender.freeOracle [] none]
    let g := gather (run s1 [.sack 1000 1048576 [(2, 2)] []]) Sender.freeOracle [] none
    (s1.snd.inflight.filter (·.tsn == 1001)).map (fun c => (c.nSent.toNat, c.retransmit, c.since, c.firstSent, s1.snd.abandoned c)) =
      [(2, true, 100, 0, true)] ∧
    g.2.out.packets = [] ∧ g.2.fwd == .fwd 1001 [(1, 1)] ∧
    (g.1.snd.inflight.filter (·.tsn == 1001)).map (fun c => c.nSent.toNat) = [2] := by decide

end C06
