import SctpVerif.Proofs.Sender
/-!
# C02 — no permanent stall (SENDER SIDE: the mechanisms that make a stall impossible, and the drain argument)

Property theorems only, about the L0 model `Sender` (`Model/Sender.lean`: hand-written mirror of the send / acknowledgement
paths of association.go, tied to the code by the direct-drive correspondence runs: every `as` line of the real
`Association` is replayed through it and compared; its window tests and formulas are `Gen.*` definitions regenerated from
the code on every run).

What the theorems say — the liveness building blocks of the sender half, each for ALL configurations with `MTU < 2^30`
(`CfgOk`), ALL operation lists from `init` (arbitrary earlier loss, duplication, reordering of SACKs, zero-window episodes,
congestion collapse, any number of T3 expiries), ALL oracle values:
* T3 has no precondition and no retry limit and flags everything outstanding (`C02_t3_marks_all`);
* a flagged chunk at the head of the queue is retransmitted whatever cwnd and rwnd are (`C02_rtx_progress_partial`; the
  literal "lowest flagged chunk, always" is false — `C02_rtx_lowest_not_first_witness` — and the theorem says what holds);
* with nothing in flight a gather admits a chunk whatever cwnd and rwnd are — the zero-window probe (`C02_probe_when_blocked`);
* a SACK whose cumulative TSN covers the lowest outstanding chunk removes it (`C02_ack_progress`), and empty queues mean
  zero buffered bytes;
* no reachable state is a dead end: the schedule "gather, then a SACK that acknowledges everything in flight" drains both
  queues in at most `pending chunks + 1` rounds ≤ `pending bytes + 1` rounds (`C02_drains_fault_free`,
  `C02_recovers_after_blackout`). The bound is the worst case "one chunk per round" (congestion window at its minimum of one
  MTU, or a closed peer window): it does not use cwnd growth, so it is linear in the queued chunks, i.e. at most
  ⌈bytes / fragment size⌉ + messages + 1 rounds, each round costing at most one retransmission timeout in the
  implementation (C19 bounds that by `rtoMax`).

* and the same with a peer whose answers are earned (`C02_recovers_faithful`): every round starts with a T3 expiry, and the
  SACK covers only what that peer — which keeps nothing beyond its cumulative point except what it gap-acked — can have:
  gap-acked before, skipped by the FORWARD-TSN of this gather, or put on the wire by this gather.

What they do NOT cover (still exploration level: the e2e `transfer` scenarios and their predicate `P_C02`): that timers
really fire and the writer goroutine really runs (Go scheduling, `awakeWriteLoop`), the RECEIVER half (that the peer
accepts the probe / the gap-filling chunk at zero window and answers with such a SACK), the composition over a network that
"eventually stops misbehaving", and the wall-clock bound. In the drain theorems the peer's answer is an INPUT of the
schedule (a full cumulative SACK), not something derived from a receiver model.

Premises: `CfgFit` — the fragment size is at most `maxPayloadSizeForMTU(MTU)` (as `createAssociation` sets it), so every
fragment fits a packet (C10); `PickOk` — `pendingQueue.peek` returns a chunk of the queue when the queue is not empty;
`inflight + pending < 2^31` chunks (serial-number arithmetic).
-/
namespace C02
open Gen Sender SenderProofs

private theorem live (cfg : Cfg) (tsn peerRwnd : BitVec 32) (hc : CfgOk cfg) (hf : CfgFit cfg) (ops : List Op)
    (hest : (run (init cfg tsn peerRwnd) ops).established = true)
    (hsm : (run (init cfg tsn peerRwnd) ops).inflight.length + (run (init cfg tsn peerRwnd) ops).pending.length < 2^31) :
    Live (run (init cfg tsn peerRwnd) ops) :=
  ⟨run_seq _ ops (init_seq cfg tsn peerRwnd) (init_win cfg tsn peerRwnd hc),
   (run_win _ ops (init_win cfg tsn peerRwnd hc)).1,
   run_core _ ops (init_books cfg tsn peerRwnd).core (init_win cfg tsn peerRwnd hc),
   run_pendfit _ ops (init_win cfg tsn peerRwnd hc) hf (init_pendfit cfg tsn peerRwnd),
   by rw [run_cfg _ ops hc]; exact hf, hest, hsm⟩

/-- **T3 never gives up and flags everything.** `onRetransmissionTimeout(T3)` is a total function of the state — it has no
precondition (it does not even look at the association state) and there is no retry counter in it — and after ANY number
`n + 1` of consecutive expiries, from ANY state, every in-flight chunk that is neither acked nor abandoned carries the
`retransmit` flag. -/
theorem C02_t3_marks_all (s : St) (n : Nat) :
    ∀ c ∈ (iter t3 (n + 1) s).inflight, c.acked = false → (iter t3 (n + 1) s).abandoned c = false → c.retransmit = true := by
  rw [iter_succ']
  exact t3_marks_all _

/-- non-vacuity: three chunks in flight, the middle one gap-acked, the last one of an abandoned message; after 12 T3
expiries exactly the first is flagged (the back-off has no end in the model, as in the code: `noMaxRetrans`) -/
example :
    let s := run (init { mtu := 1200, maxPayload := 1172 } 100 65536)
      [.openS 1 false 0 0 0, .openS 2 false 1 0 0, .write 1 53 10, .write 1 53 20, .write 2 53 30, .gather freeOracle [0, 0, 0],
       .sack 99 65536 [(2, 2)] []]
    (iter t3 12 s).inflight.map (fun c => (c.tsn, c.acked, (iter t3 12 s).abandoned c, c.retransmit)) =
      [(100#32, false, false, true), (101#32, true, false, false), (102#32, false, true, false)] := by decide

/-
FULL STATEMENT (as asked for): "in any reachable state whose in-flight queue contains a flagged chunk, a gather puts at
least the LOWEST flagged chunk on the wire, whatever cwnd and rwnd are."  FALSE when the lowest flagged chunk is not the
EARLIEST OUTSTANDING chunk: `getDataPacketsToRetransmit` grants the window exception only to loop index 0, i.e. to the chunk
right after the cumulative ack point. If that chunk is abandoned (or was gap-acked) it is not flagged, the lowest flagged
chunk sits behind it, and with a closed peer window it is NOT sent (`C02_rtx_lowest_not_first_witness`; the implementation
agrees: corpus/C02/rtx_lowest_flagged_behind_abandoned.ops). This is not a stall: the abandoned chunk in front is skipped by
the FORWARD-TSN of the same gather (C07), the peer's answer moves the cumulative point, and then the flagged chunk IS the
earliest one (second half of the witness). What holds is the theorem below.
-/

/-- **The lowest flagged chunk is retransmitted** (partial: see above). In every reachable established state without
window overflow, if `c` is the lowest flagged chunk of the in-flight queue, is not abandoned (a chunk is never abandoned when it
is flagged; one whose message was abandoned afterwards is skipped and left to the FORWARD-TSN: C07), fits the MTU (C10 proves it
for every fragment) and the burst budget allows a first chunk, then the first retransmission packet of a gather starts with `c` —
(1) whatever cwnd and rwnd are (rwnd = 0, cwnd at its minimum) when `c` is the earliest outstanding chunk, and
(2) wherever it is in the queue when it fits `min(cwnd, rwnd)`. -/
theorem C02_rtx_progress_partial (cfg : Cfg) (tsn peerRwnd : BitVec 32) (hc : CfgOk cfg) (ops : List Op) (orc : Oracle) (sel : List Nat)
    (pre : List Chunk) (c : Chunk) (post : List Chunk)
    (hest : (run (init cfg tsn peerRwnd) ops).established = true) (hw : (run (init cfg tsn peerRwnd) ops).wrapWin = false)
    (hq : (run (init cfg tsn peerRwnd) ops).inflight = pre ++ c :: post) (hpre : ∀ x ∈ pre, x.retransmit = false) (hcf : c.retransmit = true)
    (hnab : (run (init cfg tsn peerRwnd) ops).abandoned c = false)
    (hfit : hdr + c.sizeInPacket cfg.useInterleaving ≤ (cfg.mtu.toNat : Int))
    (hal : (orc.allow orc.b (c.sizeInPacket cfg.useInterleaving + hdr)).1 = true)
    (hwin : pre = [] ∨ c.len ≤ min (run (init cfg tsn peerRwnd) ops).cwnd.toNat (run (init cfg tsn peerRwnd) ops).rwnd.toNat) :
    ∃ p rest, (gather (run (init cfg tsn peerRwnd) ops) orc sel).2.rtx = (rtxUpd (run (init cfg tsn peerRwnd) ops) c :: p) :: rest := by
  have hs := run_seq _ ops (init_seq cfg tsn peerRwnd) (init_win cfg tsn peerRwnd hc)
  have hwi := (run_win _ ops (init_win cfg tsn peerRwnd hc)).1
  have hcfg : (run (init cfg tsn peerRwnd) ops).cfg = cfg := run_cfg _ ops hc
  generalize run (init cfg tsn peerRwnd) ops = s at *
  have hfloor := hwi.floor hw
  rw [hcfg] at hfloor
  have hlen : (c.len : Int) ≤ c.sizeInPacket cfg.useInterleaving := len_le_sizeInPacket _ c
  have hlm : c.len ≤ cfg.mtu.toNat := by
    have : (0 : Int) ≤ hdr := by decide
    omega
  have hwin' : (pre = [] ∧ s.rwnd.toNat < c.len) ∨ c.len ≤ (min32 s.cwnd s.rwnd).toNat := by
    rw [min32_toNat]
    rcases hwin with h | h
    · by_cases hr : s.rwnd.toNat < c.len
      · exact Or.inl ⟨h, hr⟩
      · right; omega
    · exact Or.inr h
  obtain ⟨tl, htl⟩ := gatherRtx_lowest s orc hs pre c post hq hpre hcf hnab hwin' (by rw [hcfg]; exact hfit) (by rw [hcfg]; exact hal)
  have hg : (gather s orc sel).2.rtx = bundle s.cfg.mtu s.cfg.useInterleaving (gatherRtx s orc).2.1 [] hdr := by
    unfold gather
    simp only [hest, Bool.not_true, Bool.false_eq_true, if_false]
  rw [hg, htl, hcfg]
  exact bundle_head cfg.mtu cfg.useInterleaving (rtxUpd s c) tl (by rw [sip_congr _ _ _ (show (rtxUpd s c).len = c.len from rfl)]; exact hfit)

/-- non-vacuity of (1): after T3 (cwnd back to one MTU) and a SACK that closes the peer window (a_rwnd = 0), the earliest
outstanding chunk is retransmitted all the same -/
example :
    let s := run (init { mtu := 1200, maxPayload := 1172 } 100 65536)
      [.openS 1 false 0 0 0, .write 1 53 3000, .gather freeOracle [0, 0, 0], .t3, .sack 99 0 [] []]
    (s.rwnd, s.cwnd, s.inflight.map (·.retransmit), (gather s freeOracle []).2.rtx.map (fun p => p.map (fun c => (c.tsn, c.nSent)))) =
      (0#32, 1200#32, [true, true, true], [[(100#32, 2#32)]]) := by decide

/-- **Witness against the literal statement.** TSN 100 belongs to an abandoned message (stream 2, no retransmission), TSN 101
is reliable and flagged by T3, the peer window is closed: the retransmission gather sends NOTHING (101 is not at loop index
0), but the same gather emits the FORWARD-TSN for 100; once the peer has answered it (cumulative TSN 100) the flagged chunk
is the earliest outstanding one and goes out as the probe. -/
theorem C02_rtx_lowest_not_first_witness :
    let s := run (init { mtu := 1200, maxPayload := 1172 } 100 65536)
      [.openS 1 false 0 0 0, .openS 2 false 1 0 0, .write 2 53 10, .write 1 53 30, .gather freeOracle [0, 0], .t3, .sack 99 0 [] []]
    s.inflight.map (fun c => (c.tsn, c.retransmit, s.abandoned c)) = [(100#32, false, true), (101#32, true, false)] ∧ s.rwnd = 0#32 ∧
    (gather s freeOracle []).2.rtx = [] ∧ ((gather s freeOracle []).2.fwd == some (.fwd 100 [(2, 0)])) = true ∧
    (gather (sack (gather s freeOracle []).1 100 0 [] []).1 freeOracle []).2.rtx.map (fun p => p.map (fun c => (c.tsn, c.nSent))) = [[(101#32, 2#32)]] := by
  decide

/-- **The zero-window probe.** In every reachable established state with nothing in flight and a non-empty pending queue, a
gather admits at least one chunk — whatever cwnd and rwnd are — provided `peek` hands out a chunk (`sel` starts with a valid
index `i`) and the burst budget allows a first chunk. If the chunk does not pass the window tests of the code (in
particular for EVERY rwnd smaller than the chunk, 0 included: `dataLen > a.RWND()`), exactly that one chunk goes out, flagged
as the probe. -/
theorem C02_probe_when_blocked (cfg : Cfg) (tsn peerRwnd : BitVec 32) (hc : CfgOk cfg) (hf : CfgFit cfg) (ops : List Op)
    (orc : Oracle) (i : Nat) (rest : List Nat)
    (hest : (run (init cfg tsn peerRwnd) ops).established = true) (hin : (run (init cfg tsn peerRwnd) ops).inflight = [])
    (hi : i < (run (init cfg tsn peerRwnd) ops).pending.length)
    (hal : (orc.allow orc.b (((run (init cfg tsn peerRwnd) ops).pending[i]).sizeInPacket cfg.useInterleaving + hdr)).1 = true) :
    (gather (run (init cfg tsn peerRwnd) ops) orc (i :: rest)).2.admits ≠ [] ∧
    (gather (run (init cfg tsn peerRwnd) ops) orc (i :: rest)).1.pending.length < (run (init cfg tsn peerRwnd) ops).pending.length ∧
    ((run (init cfg tsn peerRwnd) ops).rwnd.toNat < ((run (init cfg tsn peerRwnd) ops).pending[i]).len →
      ∃ x, (gather (run (init cfg tsn peerRwnd) ops) orc (i :: rest)).2.admits = [x] ∧ x.probe = true ∧
        x.chunk.tsn = (run (init cfg tsn peerRwnd) ops).myNextTSN ∧ x.chunk.len = ((run (init cfg tsn peerRwnd) ops).pending[i]).len) := by
  have hcore := run_core _ ops (init_books cfg tsn peerRwnd).core (init_win cfg tsn peerRwnd hc)
  have hfit := run_pendfit _ ops (init_win cfg tsn peerRwnd hc) hf (init_pendfit cfg tsn peerRwnd)
  have hcfg : (run (init cfg tsn peerRwnd) ops).cfg = cfg := run_cfg _ ops hc
  generalize run (init cfg tsn peerRwnd) ops = s at *
  have hmem : s.pending[i] ∈ s.pending := List.getElem_mem hi
  obtain ⟨l0, lfit⟩ := hfit _ hmem
  have l1 := (hcore.penSmall _ hmem).1
  have hpen : s.penChunks > 0 := by
    rw [hcore.penN]
    have : 0 < s.pending.length := by omega
    omega
  have hpk := peek_of_pick s (i :: rest) i rest rfl hi
  obtain ⟨g1, g2, g3⟩ := gather_progress s orc (i :: rest) i s.pending[i] hest hin hpen hpk l0 l1 lfit (by rw [hcfg]; exact hal)
  refine ⟨g2, g1, ?_⟩
  intro hr
  have hex : popPending_exceedsRwnd (BitVec.ofNat 32 s.pending[i].len) s.rwnd = true := by
    simp only [popPending_exceedsRwnd, decide_eq_true_eq, gt_iff_lt, BitVec.lt_def, BitVec.toNat_ofNat]
    rw [Nat.mod_eq_of_lt l1]; exact hr
  refine ⟨_, g3 (Or.inr hex), rfl, ?_, ?_⟩
  · simp [mkAdmit, admitProbe, move, popPend, chargeProbe]
  · simp [mkAdmit, admitProbe, move, popPend, chargeProbe]

/-- non-vacuity: a_rwnd = 300 from the handshake, a 1168-byte fragment at the head of the queue (0 < rwnd < chunk): it goes
out as the probe; with a_rwnd = 0 likewise -/
example :
    let s := run (init { mtu := 1200, maxPayload := 1168 } 100 300) [.openS 1 false 0 0 0, .write 1 53 2000]
    let s0 := run (init { mtu := 1200, maxPayload := 1168 } 100 0) [.openS 1 false 0 0 0, .write 1 53 2000]
    CfgFit { mtu := 1200, maxPayload := 1168 } ∧
    (gather s freeOracle [0, 0]).2.admits.map (fun x => (x.probe, x.chunk.tsn, x.chunk.len)) = [(true, 100#32, 1168)] ∧
    (gather s0 freeOracle [0, 0]).2.admits.map (fun x => (x.probe, x.chunk.tsn, x.chunk.len)) = [(true, 100#32, 1168)] := by
  refine ⟨by unfold CfgFit; decide, by decide, by decide⟩

/-- **A cumulative SACK makes progress.** In every reachable established state, a SACK that passes the validation and whose
cumulative TSN is ahead of the cumulative ack point (it covers at least the lowest outstanding chunk) is accepted, removes
`k ≥ 1` chunks from the front of the in-flight queue, moves the cumulative ack point by `k` and lowers the byte counter of
the in-flight queue by at least the bytes those chunks held. And whenever both queues are empty the association's
`BufferedAmount()` is zero and (under the D9 premise `RunOk` of C15) so is every stream's. -/
theorem C02_ack_progress (cfg : Cfg) (tsn peerRwnd : BitVec 32) (hc : CfgOk cfg) (ops : List Op) (hok : TsnOk (init cfg tsn peerRwnd) ops) :
    (∀ cum arwnd gaps marks, (run (init cfg tsn peerRwnd) ops).established = true →
      sna32LT (run (init cfg tsn peerRwnd) ops).cumAck cum = true → validate (run (init cfg tsn peerRwnd) ops) cum gaps = true →
      (sack (run (init cfg tsn peerRwnd) ops) cum arwnd gaps marks).2 = .ok ∧
      ∃ k, 1 ≤ k ∧
        (sack (run (init cfg tsn peerRwnd) ops) cum arwnd gaps marks).1.inflight.length + k = (run (init cfg tsn peerRwnd) ops).inflight.length ∧
        (sack (run (init cfg tsn peerRwnd) ops) cum arwnd gaps marks).1.cumAck = (run (init cfg tsn peerRwnd) ops).cumAck + BitVec.ofNat 32 k ∧
        (sack (run (init cfg tsn peerRwnd) ops) cum arwnd gaps marks).1.infBytes + (sumLen ((run (init cfg tsn peerRwnd) ops).inflight.take k) : Int) ≤
          (run (init cfg tsn peerRwnd) ops).infBytes) ∧
    ((run (init cfg tsn peerRwnd) ops).inflight = [] → (run (init cfg tsn peerRwnd) ops).pending = [] →
      (run (init cfg tsn peerRwnd) ops).penBytes + (run (init cfg tsn peerRwnd) ops).infBytes = 0 ∧
      (RunOk (init cfg tsn peerRwnd) ops → (run (init cfg tsn peerRwnd) ops).wrapBuf = false → ∀ si, bufOf (run (init cfg tsn peerRwnd) ops) si = 0)) := by
  have hs := run_seq _ ops (init_seq cfg tsn peerRwnd) (init_win cfg tsn peerRwnd hc)
  have hwi := (run_win _ ops (init_win cfg tsn peerRwnd hc)).1
  have hcore := run_core _ ops (init_books cfg tsn peerRwnd).core (init_win cfg tsn peerRwnd hc)
  refine ⟨fun cum arwnd gaps marks he hlt hv => sack_ack_progress _ cum arwnd gaps marks hs hok.last hwi.cfgOk hcore he hlt hv, ?_⟩
  intro h1 h2
  refine ⟨by rw [hcore.pen, hcore.inf, h1, h2]; simp [sumLen], ?_⟩
  intro hrun hwb si
  have hb := (run_books _ ops (fun _ => init_books cfg tsn peerRwnd) (init_win cfg tsn peerRwnd hc) hrun).1 hwb
  rw [hb.streams si, outstanding, h1, h2]
  simp [bytesOf]

/-- non-vacuity: three chunks in flight; a SACK for the first two (and a gap block for the third): two chunks leave the
queue, 2344 bytes leave the counter with them (and the gap-acked chunk releases its 656) -/
example :
    let ops := [Op.openS 1 false 0 0 0, .write 1 53 3000, .gather freeOracle [0, 0, 0]]
    let s := run (init { mtu := 1200, maxPayload := 1172 } 100 65536) ops
    TsnOk (init { mtu := 1200, maxPayload := 1172 } 100 65536) ops ∧ sna32LT s.cumAck 101 = true ∧ validate s 101 [(1, 1)] = true ∧
    (s.infBytes, (sack s 101 65536 [(1, 1)] []).1.infBytes, (sack s 101 65536 [(1, 1)] []).1.inflight.length) = (3000, 0, 1) := by decide

/-- the schedule of the drain theorems: `n` rounds of "gather (free burst budget, `pick` = what `peek` returns), then a SACK
that acknowledges everything in flight and advertises `arwnd`" as a list of model operations -/
abbrev drain (pick : St → List Nat) (arwnd : BitVec 32) (n : Nat) (s : St) : List Op := drainOps pick arwnd n s

private theorem drained (cfg : Cfg) (tsn peerRwnd : BitVec 32) (hc : CfgOk cfg) (hf : CfgFit cfg) (ops : List Op)
    (pick : St → List Nat) (hp : PickOk pick) (arwnd : BitVec 32) (n : Nat)
    (hest : (run (init cfg tsn peerRwnd) ops).established = true)
    (hsm : (run (init cfg tsn peerRwnd) ops).inflight.length + (run (init cfg tsn peerRwnd) ops).pending.length < 2^31)
    (hn : (run (init cfg tsn peerRwnd) ops).pending.length + 1 ≤ n) :
    (run (init cfg tsn peerRwnd) (ops ++ drain pick arwnd n (run (init cfg tsn peerRwnd) ops))).inflight = [] ∧
    (run (init cfg tsn peerRwnd) (ops ++ drain pick arwnd n (run (init cfg tsn peerRwnd) ops))).pending = [] ∧
    (run (init cfg tsn peerRwnd) (ops ++ drain pick arwnd n (run (init cfg tsn peerRwnd) ops))).penBytes +
      (run (init cfg tsn peerRwnd) (ops ++ drain pick arwnd n (run (init cfg tsn peerRwnd) ops))).infBytes = 0 ∧
    (RunOk (init cfg tsn peerRwnd) ops →
      (run (init cfg tsn peerRwnd) (ops ++ drain pick arwnd n (run (init cfg tsn peerRwnd) ops))).wrapBuf = false →
      ∀ si, bufOf (run (init cfg tsn peerRwnd) (ops ++ drain pick arwnd n (run (init cfg tsn peerRwnd) ops))) si = 0) := by
  have hl := live cfg tsn peerRwnd hc hf ops hest hsm
  obtain ⟨d1, d2, d3⟩ := rounds_drain pick arwnd hp n _ hl hn
  have hrun : run (init cfg tsn peerRwnd) (ops ++ drain pick arwnd n (run (init cfg tsn peerRwnd) ops)) =
      rounds pick arwnd n (run (init cfg tsn peerRwnd) ops) := by
    rw [run_append]; exact run_drainOps pick arwnd n _
  refine ⟨by rw [hrun]; exact d2, by rw [hrun]; exact d3, by rw [hrun, d1.core.pen, d1.core.inf, d2, d3]; simp [sumLen], ?_⟩
  intro hok hwb si
  have hok' : RunOk (init cfg tsn peerRwnd) (ops ++ drain pick arwnd n (run (init cfg tsn peerRwnd) ops)) :=
    runOk_append hok (runOk_drainOps pick arwnd n _)
  have hb := (run_books _ _ (fun _ => init_books cfg tsn peerRwnd) (init_win cfg tsn peerRwnd hc) hok').1 hwb
  rw [hb.streams si, outstanding, hrun, d2, d3]
  simp [bytesOf]

/-- **Fault-free drain** — for ALL message counts and sizes, indeed after ANY operation list `ops` (in particular `open`
followed by any number of writes of any sizes): if the association is established and fewer than 2^31 chunks are queued,
then `n ≥ pending chunks + 1` rounds of "gather; SACK acknowledging everything in flight" (whatever window `arwnd` that
SACK advertises — 0 included — and whatever chunk `peek` picks) leave both queues empty, `Association.BufferedAmount()` = 0
and (under C15's D9 premise) every stream's buffered amount 0. `pending chunks ≤ pending bytes`, so `pending bytes + 1`
rounds always suffice. -/
theorem C02_drains_fault_free (cfg : Cfg) (tsn peerRwnd : BitVec 32) (hc : CfgOk cfg) (hf : CfgFit cfg) (ops : List Op)
    (pick : St → List Nat) (hp : PickOk pick) (arwnd : BitVec 32) (n : Nat)
    (hest : (run (init cfg tsn peerRwnd) ops).established = true)
    (hsm : (run (init cfg tsn peerRwnd) ops).inflight.length + (run (init cfg tsn peerRwnd) ops).pending.length < 2^31)
    (hn : (run (init cfg tsn peerRwnd) ops).pending.length + 1 ≤ n) :
    ((run (init cfg tsn peerRwnd) (ops ++ drain pick arwnd n (run (init cfg tsn peerRwnd) ops))).inflight = [] ∧
     (run (init cfg tsn peerRwnd) (ops ++ drain pick arwnd n (run (init cfg tsn peerRwnd) ops))).pending = [] ∧
     (run (init cfg tsn peerRwnd) (ops ++ drain pick arwnd n (run (init cfg tsn peerRwnd) ops))).penBytes +
       (run (init cfg tsn peerRwnd) (ops ++ drain pick arwnd n (run (init cfg tsn peerRwnd) ops))).infBytes = 0 ∧
     (RunOk (init cfg tsn peerRwnd) ops →
       (run (init cfg tsn peerRwnd) (ops ++ drain pick arwnd n (run (init cfg tsn peerRwnd) ops))).wrapBuf = false →
       ∀ si, bufOf (run (init cfg tsn peerRwnd) (ops ++ drain pick arwnd n (run (init cfg tsn peerRwnd) ops))) si = 0)) ∧
    ((run (init cfg tsn peerRwnd) ops).pending.length : Int) ≤ (run (init cfg tsn peerRwnd) ops).penBytes := by
  refine ⟨drained cfg tsn peerRwnd hc hf ops pick hp arwnd n hest hsm hn, ?_⟩
  have hl := live cfg tsn peerRwnd hc hf ops hest hsm
  rw [hl.core.pen]
  exact Int.ofNat_le.mpr (pending_le_bytes _ hl.fit)

/-- non-vacuity: three messages (3000, 1, 2500 bytes = 7 chunks) written into a CLOSED peer window (a_rwnd = 0 from the
handshake and in every SACK): 8 rounds drain them, one probe per round (`pickHead_ok`: "the oldest chunk" is a valid `peek`) -/
example :
    let cfg : Cfg := { mtu := 1200, maxPayload := 1172 }
    let ops := [Op.openS 1 false 0 0 0, .write 1 53 3000, .write 1 53 1, .write 1 53 2500]
    let s := run (init cfg 100 0) ops
    let fin := run (init cfg 100 0) (ops ++ drain (fun s => List.replicate s.pending.length 0) 0 8 s)
    (s.pending.length, s.penBytes, fin.pending.length, fin.inflight.length, fin.penBytes + fin.infBytes, bufOf fin 1, fin.cumAck) =
      (7, 5501, 0, 0, 0, 0, 106#32) := by decide

/-- **No reachable state is a dead end** (recovery after a blackout). From ANY reachable established state — whatever loss,
duplication, reordering of SACKs, zero-window episodes, congestion collapse and T3 expiries produced it — the schedule
"T3 expires; then rounds of gather + full cumulative SACK" drains everything within `pending chunks + 1` rounds. -/
theorem C02_recovers_after_blackout (cfg : Cfg) (tsn peerRwnd : BitVec 32) (hc : CfgOk cfg) (hf : CfgFit cfg) (ops : List Op)
    (pick : St → List Nat) (hp : PickOk pick) (arwnd : BitVec 32) (n : Nat)
    (hest : (run (init cfg tsn peerRwnd) ops).established = true)
    (hsm : (run (init cfg tsn peerRwnd) ops).inflight.length + (run (init cfg tsn peerRwnd) ops).pending.length < 2^31)
    (hn : (run (init cfg tsn peerRwnd) ops).pending.length + 1 ≤ n) :
    (run (init cfg tsn peerRwnd) (ops ++ .t3 :: drain pick arwnd n (t3 (run (init cfg tsn peerRwnd) ops)))).inflight = [] ∧
    (run (init cfg tsn peerRwnd) (ops ++ .t3 :: drain pick arwnd n (t3 (run (init cfg tsn peerRwnd) ops)))).pending = [] ∧
    (run (init cfg tsn peerRwnd) (ops ++ .t3 :: drain pick arwnd n (t3 (run (init cfg tsn peerRwnd) ops)))).penBytes +
      (run (init cfg tsn peerRwnd) (ops ++ .t3 :: drain pick arwnd n (t3 (run (init cfg tsn peerRwnd) ops)))).infBytes = 0 := by
  have hl := live_t3 (live cfg tsn peerRwnd hc hf ops hest hsm)
  have hpe : (t3 (run (init cfg tsn peerRwnd) ops)).pending = (run (init cfg tsn peerRwnd) ops).pending := (t3_ident _).2.1
  obtain ⟨d1, d2, d3⟩ := rounds_drain pick arwnd hp n _ hl (by rw [hpe]; exact hn)
  have hrun : run (init cfg tsn peerRwnd) (ops ++ .t3 :: drain pick arwnd n (t3 (run (init cfg tsn peerRwnd) ops))) =
      rounds pick arwnd n (t3 (run (init cfg tsn peerRwnd) ops)) := by
    rw [run_append]
    show run (t3 (run (init cfg tsn peerRwnd) ops)) _ = _
    exact run_drainOps pick arwnd n _
  exact ⟨by rw [hrun]; exact d2, by rw [hrun]; exact d3, by rw [hrun, d1.core.pen, d1.core.inf, d2, d3]; simp [sumLen]⟩

/-- non-vacuity: 5000 bytes written, three chunks sent (initial cwnd), the third gap-acked three times, two T3 expiries (cwnd
collapsed to one MTU), peer window closed by the last SACK, 2000 more bytes written: 3 chunks in flight, 4 pending; T3 and
`pending + 1 = 5` rounds later nothing is left -/
example :
    let cfg : Cfg := { mtu := 1200, maxPayload := 1172 }
    let ops := [Op.openS 1 false 0 0 0, .write 1 53 5000, .gather freeOracle [0, 0, 0, 0, 0],
      .sack 99 65536 [(3, 3)] [], .sack 99 65536 [(3, 3)] [], .sack 99 65536 [(3, 3)] [], .t3, .t3, .sack 99 0 [] [], .write 1 53 2000]
    let s := run (init cfg 100 65536) ops
    let fin := run (init cfg 100 65536) (ops ++ .t3 :: drain (fun s => List.replicate s.pending.length 0) 65536 5 (t3 s))
    (s.inflight.length, s.pending.length, s.cwnd, s.rwnd) = (3, 4, 1200#32, 0#32) ∧
    (fin.inflight.length, fin.pending.length, fin.penBytes + fin.infBytes, bufOf fin 1) = (0, 0, 0, 0) := by decide

/-- **Recovery against a forgetful peer** — the drain argument with a peer's answer that is *earned*. Schedule of one round
(`recoverOps`): a T3 expiry; one gather; a SACK whose cumulative TSN covers exactly the longest prefix of the in-flight queue
the peer can have: chunks it had gap-acked before, chunks the FORWARD-TSN of this gather tells it to skip, chunks this gather
put on the wire (`reach` / `faithfulCum`) — a peer that keeps NOTHING else beyond its cumulative point, so whatever was sent
above a hole is lost again and must be retransmitted. From ANY reachable established state (partial reliability negotiated,
`TsnOk`), for any window the SACKs advertise (0 included) and any `peek` choice, `n ≥ in-flight + pending chunks` such rounds
leave both queues empty and `BufferedAmount()` = 0. Every round makes progress because: T3 flags the earliest outstanding
chunk unless it is acked or abandoned (`C02_t3_marks_all`); flagged, it is retransmitted whatever the windows are
(`C02_rtx_progress_partial`, cwnd ≥ MTU right after T3); abandoned, the FORWARD-TSN that skips it is sent again after every
T3 (`C07_skip_maximal`, `C07_forward_flag`); with nothing in flight the probe goes out (`C02_probe_when_blocked`); and the
SACK pops what it covers (`C02_ack_progress`). -/
theorem C02_recovers_faithful (cfg : Cfg) (tsn peerRwnd : BitVec 32) (hc : CfgOk cfg) (hf : CfgFit cfg) (hpr : cfg.prEnabled = true)
    (ops : List Op) (hok : TsnOk (init cfg tsn peerRwnd) ops) (pick : St → List Nat) (hp : PickOk pick) (arwnd : BitVec 32) (n : Nat)
    (hest : (run (init cfg tsn peerRwnd) ops).established = true)
    (hsm : (run (init cfg tsn peerRwnd) ops).inflight.length + (run (init cfg tsn peerRwnd) ops).pending.length < 2^31)
    (hn : (run (init cfg tsn peerRwnd) ops).inflight.length + (run (init cfg tsn peerRwnd) ops).pending.length ≤ n) :
    (run (init cfg tsn peerRwnd) (ops ++ recoverOps pick arwnd n (run (init cfg tsn peerRwnd) ops))).inflight = [] ∧
    (run (init cfg tsn peerRwnd) (ops ++ recoverOps pick arwnd n (run (init cfg tsn peerRwnd) ops))).pending = [] ∧
    (run (init cfg tsn peerRwnd) (ops ++ recoverOps pick arwnd n (run (init cfg tsn peerRwnd) ops))).penBytes +
      (run (init cfg tsn peerRwnd) (ops ++ recoverOps pick arwnd n (run (init cfg tsn peerRwnd) ops))).infBytes = 0 := by
  have hl := live cfg tsn peerRwnd hc hf ops hest hsm
  have hrec : Rec (run (init cfg tsn peerRwnd) ops) :=
    ⟨hl, run_adv _ ops (init_seq cfg tsn peerRwnd) (init_win cfg tsn peerRwnd hc) hpr (init_adv cfg tsn peerRwnd) hok,
     run_inffit _ ops (init_seq cfg tsn peerRwnd) (init_win cfg tsn peerRwnd hc) (init_inffit cfg tsn peerRwnd) hok,
     by rw [run_cfg _ ops hc]; exact hpr⟩
  obtain ⟨d1, d2, d3⟩ := roundsF_drain pick arwnd hp n _ hrec hn
  have hrun : run (init cfg tsn peerRwnd) (ops ++ recoverOps pick arwnd n (run (init cfg tsn peerRwnd) ops)) =
      roundsF pick arwnd n (run (init cfg tsn peerRwnd) ops) := by
    rw [run_append]; exact run_recoverOps pick arwnd n _
  exact ⟨by rw [hrun]; exact d2, by rw [hrun]; exact d3, by rw [hrun, d1.live.core.pen, d1.live.core.inf, d2, d3]; simp [sumLen]⟩

/-- non-vacuity: an abandoned message (TSN 100), three reliable chunks (101..103) of which the last was gap-acked, one more
message pending, peer window closed; nothing else ever reached the peer. Round 1: only the FORWARD-TSN for 100 (101 is flagged
but not at loop index 0 and the window is closed) → cumulative TSN 100; round 2: 101 goes out as the probe → 101; round 3: 102
retransmitted, 103 was gap-acked → 103; round 4: the pending chunk → 104. `in-flight + pending = 5` rounds are allowed. -/
example :
    let cfg : Cfg := { mtu := 1200, maxPayload := 1172 }
    let ops := [Op.openS 1 false 0 0 0, .openS 2 false 1 0 0, .write 2 53 10, .write 1 53 3000, .gather freeOracle [0, 0, 0, 0],
      .sack 99 0 [(4, 4)] [], .write 1 53 50]
    let s := run (init cfg 100 65536) ops
    let pick := fun (s : St) => List.replicate s.pending.length 0
    TsnOk (init cfg 100 65536) ops ∧ (s.inflight.length, s.pending.length, s.rwnd) = (4, 1, 0#32) ∧
    (roundsF pick 0 1 s).cumAck = 100#32 ∧ (roundsF pick 0 2 s).cumAck = 101#32 ∧ (roundsF pick 0 3 s).cumAck = 103#32 ∧
    (roundsF pick 0 4 s).cumAck = 104#32 ∧
    ((run (init cfg 100 65536) (ops ++ recoverOps pick 0 5 s)).inflight.length,
     (run (init cfg 100 65536) (ops ++ recoverOps pick 0 5 s)).pending.length) = (0, 0) := by decide

end C02
