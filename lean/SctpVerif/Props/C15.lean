import SctpVerif.Proofs.Sender
import SctpVerif.Gen.Facts
/-!
# C15 — buffered-amount accounting is exact; the low-threshold callback fires per downward crossing

Property theorems only, about the L0 model `Sender` (`Model/Sender.lean`, tied to association.go / payload_queue.go /
stream.go by the direct-drive correspondence runs) and about regenerated definitions and facts:
`Gen.release_underflows`, `Gen.release_crossesLow` (the two tests of `Stream.onBufferReleased`, translated from the code on
every run), `Gen.lockPaths` and `Gen.onBufferReleasedSites` (control-flow paths of `onBufferReleased` with their lock
operations; the statements around its only call site).

Quantification: ALL operation lists (writes, gathers with arbitrary oracles, SACKs with arbitrary contents, T3, clock
ticks, stream open / drop, leaving and re-entering the established state) from the initial state of any configuration
with `MTU < 2^30`.

* `bufOf s si` = `Stream.BufferedAmount()` of the Stream object for `si`; `outstanding s si` = user bytes of `si` in
  pending ∪ in-flight chunks (a gap-acked chunk holds none: its payload is emptied when it is acked, so each byte is
  released once). "Newly acknowledged (or skipped as abandoned)": abandoned chunks are released when the peer's
  cumulative ack passes them (its answer to FORWARD-TSN) — the same SACK path.
* `RunOk` is the hypothesis deviation D9 forces (hence `_partial`): the association drops a stream from its table
  (peer reset) only when nothing of it is outstanding, and nobody writes to a dropped stream before it is opened again.
  `C15_D9_witness` shows the statement false without it.
* `wrapBuf` is a ghost flag raised if a uint64 `bufferedAmount` addition wrapped (≥ 2^64 bytes buffered on one stream).
-/
namespace C15
open Gen Sender SenderProofs

private theorem booksAt (cfg : Cfg) (tsn peerRwnd : BitVec 32) (hc : CfgOk cfg) (ops : List Op)
    (hok : RunOk (init cfg tsn peerRwnd) ops) (hw : (run (init cfg tsn peerRwnd) ops).wrapBuf = false) :
    Books (run (init cfg tsn peerRwnd) ops) :=
  (run_books _ ops (fun _ => init_books cfg tsn peerRwnd) (init_win cfg tsn peerRwnd hc) hok).1 hw

/-- **Per-stream figure** (partial: D9). While streams stay registered as long as they have data outstanding, every
stream's buffered amount equals the user bytes of its chunks in pending ∪ in flight that are not yet acknowledged. -/
theorem C15_stream_exact_partial (cfg : Cfg) (tsn peerRwnd : BitVec 32) (hc : CfgOk cfg) (ops : List Op)
    (hok : RunOk (init cfg tsn peerRwnd) ops) (hw : (run (init cfg tsn peerRwnd) ops).wrapBuf = false) (si : BitVec 16) :
    bufOf (run (init cfg tsn peerRwnd) ops) si = outstanding (run (init cfg tsn peerRwnd) ops) si :=
  (booksAt cfg tsn peerRwnd hc ops hok hw).streams si

/-- the witness of D9 on the model (the implementation does the same: corpus/C15/known/d9_write_after_peer_reset.ops):
drop the stream, write 17 bytes, send, acknowledge — 17 bytes stay "buffered" with nothing outstanding -/
theorem C15_D9_witness :
    let s := run (init { mtu := 1200, maxPayload := 1172 } 100 65536)
      [.openS 1 false 0 0 0, .unreg 1, .write 1 53 17, .gather freeOracle [0], .sack 100 65536 [] []]
    bufOf s 1 = 17 ∧ outstanding s 1 = 0 ∧ s.wrapBuf = false := by decide

/-- non-vacuity: gap-ack then cumulative ack of a fragmented message, each byte released once -/
example :
    let ops := [Op.openS 1 false 0 0 0, .write 1 53 3000, .gather freeOracle [0, 0, 0], .sack 99 65536 [(2, 3)] [], .sack 100 65536 [] []]
    RunOk (init { mtu := 1200, maxPayload := 1172 } 100 65536) ops ∧
    (bufOf (run (init { mtu := 1200, maxPayload := 1172 } 100 65536) (ops.take 3)) 1,
     bufOf (run (init { mtu := 1200, maxPayload := 1172 } 100 65536) (ops.take 4)) 1,
     bufOf (run (init { mtu := 1200, maxPayload := 1172 } 100 65536) ops) 1) = (3000, 1172, 0) := by
  refine ⟨?_, by decide⟩
  simp only [RunOk, OpOk]
  decide

/-- **Association figure** (full strength: no hypothesis on streams, no overflow flag). In every reachable state
`Association.BufferedAmount()` = `pendingQueue.getNumBytes() + inflightQueue.getNumBytes()` is exactly the user bytes
held by the pending chunks plus those held by the in-flight chunks, and the chunk counter of the pending queue is exact. -/
theorem C15_assoc_exact (cfg : Cfg) (tsn peerRwnd : BitVec 32) (hc : CfgOk cfg) (ops : List Op) :
    (run (init cfg tsn peerRwnd) ops).penBytes + (run (init cfg tsn peerRwnd) ops).infBytes =
      (sumLen (run (init cfg tsn peerRwnd) ops).pending : Int) + (sumLen (run (init cfg tsn peerRwnd) ops).inflight : Int) ∧
    (run (init cfg tsn peerRwnd) ops).penChunks = ((run (init cfg tsn peerRwnd) ops).pending.length : Int) ∧
    (∀ c ∈ (run (init cfg tsn peerRwnd) ops).inflight, c.acked = true → c.len = 0) := by
  have h := run_core _ ops (init_books cfg tsn peerRwnd).core (init_win cfg tsn peerRwnd hc)
  exact ⟨by rw [h.pen, h.inf], h.penN, h.ackedEmpty⟩

/-- **No underflow** (partial: D9). `onBufferReleased` never takes its "released more than is buffered" branch. -/
theorem C15_no_underflow_partial (cfg : Cfg) (tsn peerRwnd : BitVec 32) (hc : CfgOk cfg) (ops : List Op)
    (hok : RunOk (init cfg tsn peerRwnd) ops) (hw : (run (init cfg tsn peerRwnd) ops).wrapBuf = false) :
    (run (init cfg tsn peerRwnd) ops).clamped = false :=
  (booksAt cfg tsn peerRwnd hc ops hok hw).noClamp

/-- without the hypothesis the branch is reachable: drop the stream while 100 bytes are in flight, open it again (a new
Stream object with buffered amount 0), acknowledge — the release of 100 bytes meets a buffered amount of 0 -/
theorem C15_underflow_witness :
    (run (init { mtu := 1200, maxPayload := 1172 } 100 65536)
      [.openS 1 false 0 0 0, .write 1 53 100, .gather freeOracle [0], .unreg 1, .openS 1 false 0 0 0, .sack 100 65536 [] []]).clamped = true := by
  decide

/-- **Zero iff idle** (partial: D9). A stream's buffered amount is zero exactly when none of its chunks in pending ∪
in flight holds user bytes; likewise the association figure. -/
theorem C15_zero_iff_idle_partial (cfg : Cfg) (tsn peerRwnd : BitVec 32) (hc : CfgOk cfg) (ops : List Op)
    (hok : RunOk (init cfg tsn peerRwnd) ops) (hw : (run (init cfg tsn peerRwnd) ops).wrapBuf = false) (si : BitVec 16) :
    (bufOf (run (init cfg tsn peerRwnd) ops) si = 0 ↔
      ∀ c ∈ (run (init cfg tsn peerRwnd) ops).pending ++ (run (init cfg tsn peerRwnd) ops).inflight, c.si = si → c.len = 0) ∧
    ((run (init cfg tsn peerRwnd) ops).penBytes + (run (init cfg tsn peerRwnd) ops).infBytes = 0 ↔
      ∀ c ∈ (run (init cfg tsn peerRwnd) ops).pending ++ (run (init cfg tsn peerRwnd) ops).inflight, c.len = 0) := by
  have hb := booksAt cfg tsn peerRwnd hc ops hok hw
  refine ⟨?_, ?_⟩
  · rw [hb.streams si, outstanding, ← bytesOf_append]
    exact bytesOf_zero_iff si _
  · rw [hb.pen, hb.inf]
    have := sumLen_zero_iff ((run (init cfg tsn peerRwnd) ops).pending ++ (run (init cfg tsn peerRwnd) ops).inflight)
    rw [sumLen_append] at this
    constructor
    · intro h; exact this.mp (by omega)
    · intro h; have := this.mpr h; omega

/-- **A SACK is applied completely or not at all.** In every reachable state the in-flight queue is TSN-contiguous from
the cumulative ack point up to `myNextTSN`; therefore a SACK that is not stale and passes the validation at the head of
`processSelectiveAck` runs both of its loops (cumulative pops, gap marks) to the end: the two error returns that sit
AFTER the first modification of the queue (`ErrInflightQueueTSNPop`, `ErrTSNRequestNotExist`) are unreachable. Every
other SACK (association not established, stale, rejected by the validation) leaves the state untouched by definition
of `sack`. So bytes are released for exactly the chunks a SACK names, never for a prefix of them. -/
theorem C15_sack_atomic (cfg : Cfg) (tsn peerRwnd : BitVec 32) (hc : CfgOk cfg) (ops : List Op)
    (cum : BitVec 32) (gaps : List (BitVec 16 × BitVec 16))
    (hstale : sna32GT (run (init cfg tsn peerRwnd) ops).cumAck cum = false)
    (hval : validate (run (init cfg tsn peerRwnd) ops) cum gaps = true) :
    (ackPhase (run (init cfg tsn peerRwnd) ops) cum gaps).isSome = true ∧
    Seq (run (init cfg tsn peerRwnd) ops) := by
  have hs := run_seq _ ops (init_seq cfg tsn peerRwnd) (init_win cfg tsn peerRwnd hc)
  obtain ⟨r, hr, _⟩ := ackPhase_total _ cum gaps hs hstale hval
  exact ⟨by rw [hr]; rfl, hs⟩

/-- non-vacuity: a SACK with a gap block inside the queue is validated and applied; one naming a TSN never sent is rejected -/
example :
    let s := run (init { mtu := 1200, maxPayload := 1172 } 4294967295 65536) [.openS 1 false 0 0 0, .write 1 53 3000, .gather freeOracle [0, 0, 0]]
    (sna32GT s.cumAck 4294967295, validate s 4294967295 [(1, 2)], (sack s 4294967295 65536 [(1, 2)] []).2,
     validate s 0 [(3, 3)], (sack s 0 65536 [(3, 3)] []).2) = (false, true, .ok, false, .rejected) := by decide

/-- **Rollback.** A write that fails because the association is not established leaves the stream exactly as it was —
buffered amount, stream sequence number, both message-identifier counters — and queues nothing. -/
theorem C15_rollback_exact (s : St) (si : BitVec 16) (ppi : BitVec 32) (len : Nat) (h : s.established = false) :
    (write s si ppi len).1.streams = s.streams ∧ (write s si ppi len).1.pending = s.pending ∧
    (write s si ppi len).1.penBytes = s.penBytes ∧ (write s si ppi len).1.penChunks = s.penChunks ∧ (write s si ppi len).2.1 = 0 :=
  write_rollback s si ppi len h

example :
    let s := run (init { mtu := 1200, maxPayload := 1172, useInterleaving := true } 100 65536) [.openS 1 true 0 0 0, .setEstablished false]
    (write s 1 53 5000).2.2 = .notEstablished ∧ ((write s 1 53 5000).1.streams 1) = s.streams 1 := by decide

/-- **Callback = downward crossings.** For a stream whose object, threshold and callback stay in place over the run
(no `openS` on it): the number of callback invocations grows by exactly the number of downward crossings of the threshold
(above before, at or below after) in the sequence of buffered amounts observed after each operation. Holds with or
without D9. One release per stream and SACK: the per-stream amounts of a SACK are summed first (`sack_streams`). -/
theorem C15_callback_crossings (cfg : Cfg) (tsn peerRwnd : BitVec 32) (hc : CfgOk cfg) (pre ops : List Op)
    (si : BitVec 16) (th : BitVec 64) (hwt : Watched (run (init cfg tsn peerRwnd) pre) si th)
    (hops : ∀ op ∈ ops, ∀ u rt rv th', op ≠ .openS si u rt rv th')
    (hw : (run (run (init cfg tsn peerRwnd) pre) ops).wrapBuf = false) :
    cbOf (run (run (init cfg tsn peerRwnd) pre) ops) si =
      cbOf (run (init cfg tsn peerRwnd) pre) si + crossings th.toNat (traj si (run (init cfg tsn peerRwnd) pre) ops) :=
  run_cb _ ops si th hwt (run_win _ pre (init_win cfg tsn peerRwnd hc)).1 hops hw

/-- non-vacuity: threshold 1000; 3000 bytes written; the first SACK releases 1172 (1828 left: no crossing), the second
the rest (0 left: one crossing, one callback) -/
example :
    let s0 := run (init { mtu := 1200, maxPayload := 1172 } 100 65536) [.openS 1 false 0 0 1000]
    let ops := [Op.write 1 53 3000, .gather freeOracle [0, 0, 0], .sack 100 65536 [] [], .sack 102 65536 [] []]
    (traj 1 s0 ops, crossings 1000 (traj 1 s0 ops), cbOf (run s0 ops) 1) = ([0, 3000, 3000, 1828, 0], 1, 1) := by decide

/-! ### the callback runs without internal locks (decided on regenerated facts) -/

/-- lock depth along a path: every callback (`dyncall`) at depth 0, no unlock of a lock not held, nothing held at the end -/
def pathOk : Nat → List (String × String) → Bool
  | d, [] => d == 0
  | d, (k, _) :: r =>
    if k == "Lock" || k == "RLock" then pathOk (d + 1) r
    else if k == "Unlock" || k == "RUnlock" then d != 0 && pathOk (d - 1) r
    else if k == "dyncall" then d == 0 && pathOk d r
    else pathOk d r

/-- the crossing test (an `if`) is evaluated while the lock is held, and the callback comes right after the unlock -/
def testThenUnlockThenCall : List (String × String) → Bool
  | (k1, _) :: (k2, x2) :: (k3, x3) :: (k4, x4) :: r =>
    (k1 == "if" && k2 == "assign" && x2 == x4 && k3 == "Unlock" && x3 == "s.lock" && k4 == "dyncall") ||
      testThenUnlockThenCall ((k2, x2) :: (k3, x3) :: (k4, x4) :: r)
  | _ => false

/-- **Callback unlocked.** On every control-flow path of `Stream.onBufferReleased` (regenerated from the source) the
user callback is invoked with no lock of the function held: `s.lock` is taken, the crossing test is evaluated under it,
the handler is copied, the lock is released, then the handler is called; every path ends with nothing held. Its only
caller (`processAcknowledgement`) releases the association lock around the call. -/
theorem C15_callback_unlocked :
    (∃ paths, Gen.lockPaths.lookup "Stream.onBufferReleased" = some paths ∧
      paths.all (pathOk 0) = true ∧
      (paths.filter (fun p => p.any (fun e => e.1 == "dyncall"))).all testThenUnlockThenCall = true ∧
      (paths.any (fun p => p.any (fun e => e.1 == "dyncall"))) = true) ∧
    Gen.onBufferReleasedSites = [("Association.processAcknowledgement", "a.lock.Unlock()", "s.onBufferReleased(nBytesAcked)", "a.lock.Lock()")] := by
  refine ⟨⟨_, rfl, ?_, ?_, ?_⟩, ?_⟩ <;> decide

end C15
