import SctpVerif.Proofs.Receiver.Total
/-!
# C03 — no inbound packet can crash or corrupt the receive half (association level)

Property theorems only, about the L0 model `Model/Receiver.lean` (tied to association.go / stream.go by the
correspondence run `TestVerifAssocReceiver`: every op replayed through the model, every packet run under
`recover()`; hostile generator: TSNs anywhere in the number space, duplicates, zero-length DATA, wrong chunk
kinds, FORWARD-TSNs behind / far beyond the cumulative point, unknown streams, > 16 unaccepted streams, raw
mutated packets). Where Go would panic the model sets `panicked` (never totalised): the only such places in
the receive half are the two empty-slice accesses inside `reassemblyQueue.pushWithError`.
-/
namespace C03
open Gen Receiver

/-- ✱ no op list — any packets with any chunks in any order, any reads, gathers, clock ticks, state changes —
drives the receive half into a panic outcome, from any configuration. -/
theorem C03_recv_total (maxBuf maxEntries : BitVec 32) (il f g : Bool) (am : Int) (t : BitVec 32) (ops : List Op) :
    (run (init maxBuf maxEntries il f g am t) ops).panicked = false :=
  (run_noPanic ops (init_noPanic maxBuf maxEntries il f g am t)).1

/-- the reason: in every reachable state no reassembly queue holds an empty ordered chunk set, and from such a
queue `pushWithError` takes no panic branch, whatever the chunk. -/
theorem C03_reasm_push_total (maxBuf maxEntries : BitVec 32) (il f g : Bool) (am : Int) (t : BitVec 32) (ops : List Op)
    (c : Reasm.Chunk) :
    ∀ x ∈ (run (init maxBuf maxEntries il f g am t) ops).streams ++ (run (init maxBuf maxEntries il f g am t) ops).gone,
      (x.q.pushWithError c).2.2 ≠ .panic := by
  intro x hx
  have h := (run_noPanic ops (init_noPanic maxBuf maxEntries il f g am t)).2
  rcases List.mem_append.mp hx with hx | hx
  · exact Reasm.pushWithError_no_panic _ _ (h.1 x hx)
  · exact Reasm.pushWithError_no_panic _ _ (h.2 x hx)

/-- ✱ a FORWARD-TSN whose new cumulative TSN is at or behind the cumulative point (serially) changes NOTHING
of the transfer state — receive queue, stream table, reassembly queues, accept queue, control queue, pending
resets, ABORT flag — in any association state; it only forces an acknowledgement: after the packet the ack
state is `immediate` and the ack timer is stopped. -/
theorem C03_stale_fwdtsn_noop (s : St) (newCum : TSN) (es : List (BitVec 16 × BitVec 16))
    (hil : s.il = false) (hf : s.useFwd = true) (hst : sna32LTE newCum s.pq.cum = true) :
    packet s [.fwd newCum es] =
      { s with ackState := ackStateImmediate, timer := s.timer.stop, immTrig := false, delTrig := false } := by
  simp [packet, handleChunk, handleFwd, hil, hf, fwd_stale, hst, staleFwd, chunksStart, chunksEnd]

/-- the same for I-FORWARD-TSN -/
theorem C03_stale_ifwdtsn_noop (s : St) (newCum : TSN) (es : List (BitVec 16 × Bool × BitVec 32))
    (hf : s.useIFwd = true) (hst : sna32LTE newCum s.pq.cum = true) :
    packet s [.ifwd newCum es] =
      { s with ackState := ackStateImmediate, timer := s.timer.stop, immTrig := false, delTrig := false } := by
  simp [packet, handleChunk, handleIFwd, hf, ifwd_stale, hst, staleFwd, chunksStart, chunksEnd]

/-- … and the acknowledgement is sent by the next `gather` (in a state that sends SACKs, no ABORT pending). -/
theorem C03_stale_fwdtsn_acked (s : St) (newCum : TSN) (es : List (BitVec 16 × BitVec 16))
    (hil : s.il = false) (hf : s.useFwd = true) (hst : sna32LTE newCum s.pq.cum = true)
    (hab : s.willSendAbort = false) (hs : s.state = 3#32) :
    ∃ arw, Out.sack s.pq.cum arw (RecvQ.gaps s.pq) s.pq.dups ∈ (gather (packet s [.fwd newCum es])).2.1 := by
  rw [C03_stale_fwdtsn_noop s newCum es hil hf hst]
  refine ⟨credit s, ?_⟩
  simp [gather, hab, hs, sack_pending, ackStateImmediate, createSack, credit, RecvQ.popDuplicates]

/-- ✱ a DATA / I-DATA chunk without user data is answered with an ABORT and nothing else happens: the chunk's
`check()` fails before any handler runs, in every association state. -/
theorem C03_zero_length_abort (s : St) (c : Reasm.Chunk) (imm : Bool) (h : c.userData = []) :
    handleChunk s (.data c imm) = { s with willSendAbort := true } := by
  simp [handleChunk, h, abortPV]

/-- DATA in a state that does not receive data (anything but ESTABLISHED, SHUTDOWN-PENDING, SHUTDOWN-SENT,
or with SHUTDOWN-COMPLETE pending) is ignored: the state is unchanged. -/
theorem C03_data_ignored_outside_receive_states (s : St) (c : Reasm.Chunk) (imm : Bool) (hne : c.userData ≠ [])
    (hst : data_canHandle s.scp s.state = false) : handleChunk s (.data c imm) = s := by
  simp [handleChunk, hne, handleData, hst]

-- non-vacuity: the hypotheses are satisfiable (a fresh association, stale FORWARD-TSN; closed state)
example : sna32LTE 5#32 (init 65536 0 false true false 0 10#32).pq.cum = true := by decide
example : data_canHandle false 0#32 = false := by decide

end C03
