import SctpVerif.Gen.Facts
import SctpVerif.Gen.Consts
/-!
# C08 — state guards of the code, pinned

`Gen.stateTests` is REGENERATED from /repo on every run by the translator (`go/extract/facts_state.go`): per function,
every comparison of the association state with a state constant, every `case` over state constants and every `setState`
call, in source order. This file pins that list for the shutdown sequence (Shutdown API, SHUTDOWN / SHUTDOWN-ACK / SHUTDOWN-COMPLETE handlers, the writer's state switch, T2 expiry, OpenStream refusal).
The hand-written L0 models mirror exactly these guards; the correspondence harnesses compare behaviour. A change of a guard
in the code breaks this obligation at once (a syntactic tie: a harmless rewrite breaks it too — then the expectation here is
to be updated after checking the models), and the harness jobs of C08 look for a concrete failing input.
-/
namespace C08

theorem C08_state_guards_pinned :
    Gen.stateTests.filter (fun p => ["Association.OpenStream", "Association.Shutdown", "Association.advanceShutdownAfterDataDrain", "Association.close", "Association.finishShutdownHandling", "Association.gatherOutbound", "Association.gatherOutboundPriorityPackets", "Association.handleShutdown", "Association.handleShutdownAck", "Association.handleShutdownComplete", "Association.onShutdownTimeout", "entersShutdownReceived", "isShutdownHandleState"].contains p.1) =
    [("Association.OpenStream", ["case shutdownAckSent,shutdownPending,shutdownReceived,shutdownSent,closed"]),
     ("Association.Shutdown", ["state != established", "setState shutdownPending", "setState shutdownSent"]),
     ("Association.advanceShutdownAfterDataDrain", ["case shutdownPending", "setState shutdownSent", "case shutdownReceived", "setState shutdownAckSent"]),
     ("Association.close", ["setState closed"]),
     ("Association.finishShutdownHandling", ["case established,shutdownPending,shutdownReceived", "setState shutdownReceived", "setState shutdownAckSent"]),
     ("Association.gatherOutbound", ["case established", "case shutdownPending,shutdownReceived", "case shutdownSent", "case shutdownAckSent"]),
     ("Association.gatherOutboundPriorityPackets", ["a.getState() == shutdownAckSent", "a.getState() == shutdownSent"]),
     ("Association.handleShutdown", ["state == shutdownAckSent", "state == shutdownSent", "setState shutdownAckSent", "setState shutdownReceived", "setState state"]),
     ("Association.handleShutdownAck", ["state == shutdownSent", "state == shutdownAckSent"]),
     ("Association.handleShutdownComplete", ["state == shutdownAckSent"]),
     ("Association.onShutdownTimeout", ["case shutdownSent", "case shutdownAckSent"]),
     ("entersShutdownReceived", ["state == established", "state == shutdownPending"]),
     ("isShutdownHandleState", ["case established,shutdownPending,shutdownReceived,shutdownSent"])] := by decide

/-- **T2-shutdown has no retry limit** (regenerated timer-creation fact): SHUTDOWN / SHUTDOWN-ACK are retransmitted until answered, so any finite number of losses of the shutdown chunks is survived (`C08_recovers_from_single_losses` proves one loss per chunk on the model; the timer automaton theorems of C19 give the rest). -/
theorem C08_t2_never_gives_up :
    ("timerT2Shutdown", "noMaxRetrans") ∈ Gen.rtxTimerSites ∧ Gen.noMaxRetrans = 0 := by decide

end C08
