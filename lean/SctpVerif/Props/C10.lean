import SctpVerif.Proofs.Sender
/-!
# C10 — the sender honours cwnd, peer rwnd and MTU

Property theorems only. They are about the L0 model `Sender` (`Model/Sender.lean`: a hand-written mirror of the send
and acknowledgement paths of association.go / payload_queue.go / stream.go, tied to the code by the direct-drive
correspondence runs: every `as` line of the harness is replayed through it and compared) and about definitions the
translator REGENERATES from /repo on every run:

* `Gen.popPending_exceedsCwnd`, `Gen.popPending_exceedsRwnd`, `Gen.popPending_rwndAfterSend`, `Gen.popPending_probe…`,
  `Gen.*_packetFull`, `Gen.*_firstTooBig`, `Gen.bundle_packetFull` — the window / MTU tests of
  `popPendingDataChunksToSend`, `getDataPacketsToRetransmit`, the fast-retransmit gather and `bundleDataChunksIntoPackets`;
* `Gen.sack_windowFull`, `Gen.sack_rwndArg` — the rwnd update of `handleSack`;
* `Gen.t3_ssthresh`, `Gen.t3_cwndArg`, `Gen.fastRecovery_ssthresh`, `Gen.fastRecovery_cwndArg`, `Gen.cumAck_*`,
  `Gen.initialCwnd`, `Gen.Association_setCWND` — congestion control;
* `Gen.getPadding`, `Gen.chunkPayloadData_chunkSize[InPacket]`, `Gen.maxPayloadSizeForMTU`, `Gen.commonHeaderSize` — sizes.

Quantification: ALL operation lists (`openS / unreg / setEstablished / write / gather / sack / t3 / tick`, with arbitrary
SACK contents) from the initial state of ANY configuration with `MTU < 2^30` (`CfgOk`: `4·MTU` fits a uint32), and
ALL oracle values: the burst-budget machine of a gather (`Oracle`: any state type, any answers), the pending-queue
selection (`sel`), the RACK/PTO loss marks, the number of T3 expiries of a `tick`.

`wrapWin` is a ghost flag of the model, raised (and never lowered: `run_win`) when a uint32 window computation leaves the
range in which it equals the natural-number one: ≥ 2^32 bytes in flight, or `cwnd + increment ≥ 2^32`. The theorems that
read windows as natural numbers assume it is still down at the end of the run (DESIGN §4 overflow hypotheses).

"Cut" (C10_loss_response) is formalised as the RFC 4960 §7.2.3 formula, not as "never larger than before" (which is
false by design below 4·MTU). Loss signals here are the T3 expiry and the third miss indication outside fast recovery;
RACK / PTO marks only flag chunks for retransmission in this implementation (they are oracle inputs and do not touch cwnd).
-/
namespace C10
open Gen Sender SenderProofs

/-- the initial state of a configuration satisfies the window invariants -/
private theorem reach (cfg : Cfg) (tsn peerRwnd : BitVec 32) (hc : CfgOk cfg) (ops : List Op) :
    WinInv (run (init cfg tsn peerRwnd) ops) := (run_win _ ops (init_win cfg tsn peerRwnd hc)).1

/-- **Admission of new DATA.** In every reachable state, every chunk a `gather` moves from pending to in flight was
admitted with `in-flight bytes before + len ≤ cwnd` and `len ≤ rwnd` (values at that moment), or it is the zero-window
probe: the only chunk of that gather, taken with an empty in-flight queue. The `admits` are exactly the chunks appended to
the in-flight queue, in order. -/
theorem C10_admission (cfg : Cfg) (tsn peerRwnd : BitVec 32) (hc : CfgOk cfg) (ops : List Op) (orc : Oracle) (sel : List Nat)
    (hw : (gather (run (init cfg tsn peerRwnd) ops) orc sel).1.wrapWin = false) :
    (∀ x ∈ (gather (run (init cfg tsn peerRwnd) ops) orc sel).2.admits,
      (x.probe = false ∧ 0 < x.chunk.len ∧ x.infBefore + (x.chunk.len : Int) ≤ (x.cwnd.toNat : Int) ∧ x.chunk.len ≤ x.rwndBefore.toNat) ∨
      (x.probe = true ∧ (gather (run (init cfg tsn peerRwnd) ops) orc sel).2.admits = [x] ∧ x.nInflightBefore = 0)) ∧
    (gather (run (init cfg tsn peerRwnd) ops) orc sel).1.inflight.map Chunk.core =
      (run (init cfg tsn peerRwnd) ops).inflight.map Chunk.core ++
        ((gather (run (init cfg tsn peerRwnd) ops) orc sel).2.admits.map (·.chunk)).map Chunk.core := by
  refine ⟨?_, gather_inflight _ orc sel⟩
  intro x hx
  rcases ((gather_spec _ orc sel (reach cfg tsn peerRwnd hc ops).rw).2.2.2.2.1 hw).2 x hx with h | h
  · exact Or.inl ⟨h.1, h.2.1, h.2.2.1, h.2.2.2.1⟩
  · exact Or.inr h

/-- non-vacuity: a gather that admits two chunks under the rule, and one that sends a lone probe into a zero window -/
example :
    let s := run (init { mtu := 1200, maxPayload := 1168 } 100 65536) [.openS 1 false 0 0 0, .write 1 53 2000]
    ((gather s freeOracle [0, 0]).2.admits.map (fun x => (x.probe, x.chunk.len, x.infBefore))) = [(false, 1168, 0), (false, 832, 1168)] ∧
    (gather s freeOracle [0, 0]).1.wrapWin = false := by decide
example :
    let s := run (init { mtu := 1200, maxPayload := 1168 } 100 0) [.openS 1 false 0 0 0, .write 1 53 2000]
    ((gather s freeOracle [0, 0]).2.admits.map (fun x => (x.probe, x.chunk.len, x.nInflightBefore))) = [(true, 1168, 0)] := by decide

/-- **Peer window invariant.** In every reachable state `rwnd + in-flight bytes ≤ max (last advertised a_rwnd) (in-flight bytes)`:
the sender's view of the peer window never exceeds what the peer last advertised minus what is outstanding. -/
theorem C10_rwnd_invariant (cfg : Cfg) (tsn peerRwnd : BitVec 32) (hc : CfgOk cfg) (ops : List Op)
    (hw : (run (init cfg tsn peerRwnd) ops).wrapWin = false) :
    ((run (init cfg tsn peerRwnd) ops).rwnd.toNat : Int) + (run (init cfg tsn peerRwnd) ops).infBytes ≤
      max ((run (init cfg tsn peerRwnd) ops).lastArwnd.toNat : Int) (run (init cfg tsn peerRwnd) ops).infBytes :=
  (reach cfg tsn peerRwnd hc ops).rw hw

/-- Consequence: after any send that is not the probe, the bytes in flight are within the window the peer last
advertised (the probe itself is charged against rwnd, so nothing is sent on top of it). -/
theorem C10_rwnd_after_send (cfg : Cfg) (tsn peerRwnd : BitVec 32) (hc : CfgOk cfg) (ops : List Op) (orc : Oracle) (sel : List Nat)
    (hw : (gather (run (init cfg tsn peerRwnd) ops) orc sel).1.wrapWin = false) :
    ∀ x ∈ (gather (run (init cfg tsn peerRwnd) ops) orc sel).2.admits, x.probe = false →
      x.infBefore + (x.chunk.len : Int) ≤ ((run (init cfg tsn peerRwnd) ops).lastArwnd.toNat : Int) := by
  intro x hx hp
  rcases ((gather_spec _ orc sel (reach cfg tsn peerRwnd hc ops).rw).2.2.2.2.1 hw).2 x hx with h | h
  · exact h.2.2.2.2
  · rw [h.1] at hp; cases hp

/-- non-vacuity (the D17 scenario, after the fix): a_rwnd = 300, a 1168-byte probe goes out, nothing on top of it -/
example :
    let s := run (init { mtu := 1200, maxPayload := 1168, useInterleaving := true } 100 300)
      [.openS 1 false 0 0 0, .write 1 53 1168, .write 1 53 128, .gather freeOracle [0, 0]]
    (s.inflight.map (·.len), s.rwnd, (gather s freeOracle [0]).2.admits.length, s.wrapWin) = ([1168], 0#32, 0, false) := by decide

/-- **MTU.** Whatever the state and the oracles, every packet a gather builds — retransmissions, new DATA, fast
retransmissions — is non-empty and its marshalled length (`packet.marshal`: 12-byte common header, every chunk padded
to 4) is at most the MTU. -/
theorem C10_mtu_bound (s : St) (orc : Oracle) (sel : List Nat) :
    ∀ p ∈ (gather s orc sel).2.packets, p ≠ [] ∧ marshalLen s.cfg.useInterleaving p ≤ (s.cfg.mtu.toNat : Int) :=
  gather_packets_fit s orc sel

/-- non-vacuity: 2000 bytes on a 1200-byte MTU leave as two packets of 1196 and 860 bytes -/
example :
    let s := run (init { mtu := 1200, maxPayload := 1168 } 100 65536) [.openS 1 false 0 0 0, .write 1 53 2000]
    ((gather s freeOracle [0, 0]).2.packets.map (marshalLen false)) = [1196, 860] := by decide

/-- **Retransmission window.** Whatever the state and the oracles, the user bytes `getDataPacketsToRetransmit` puts
back on the wire in one gather are at most `min(cwnd, rwnd)`, or that gather retransmits exactly one chunk (the probe of
the earliest outstanding chunk, allowed when the peer window is smaller than it). -/
theorem C10_retransmit_window (s : St) (orc : Oracle) :
    (sumLen (gatherRtx s orc).2.1 : Int) ≤ ((min32 s.cwnd s.rwnd).toNat : Int) ∨ (gatherRtx s orc).2.1.length = 1 :=
  gatherRtx_window s orc

/-- non-vacuity: after a T3 expiry (cwnd back to one MTU) only the first of three outstanding chunks is retransmitted -/
example :
    let s := run (init { mtu := 1200, maxPayload := 1172 } 100 65536)
      [.openS 1 false 0 0 0, .write 1 53 3000, .gather freeOracle [0, 0, 0], .t3]
    ((gatherRtx s freeOracle).2.1.map (·.len), (min32 s.cwnd s.rwnd).toNat) = ([1172], 1200) := by decide

/-- **Fragments.** The exact arithmetic the sender relies on, on the generated size functions: a chunk with at most
`maxPayloadSizeForMTU(mtu, interleaving)` user bytes, padded, fits behind the 12-byte common header in one MTU;
and every chunk an accepted write queues carries between 1 and `maxPayloadSize` bytes (larger messages are
fragmented), the fragments adding up to the message. -/
theorem C10_fragment_bound (mtu : BitVec 32) (il : Bool) (len : Nat)
    (hmp : maxPayloadSizeForMTU mtu il ≠ 0) (hlen : len ≤ (maxPayloadSizeForMTU mtu il).toNat) :
    ((commonHeaderSize : Int) + chunkPayloadData_chunkSizeInPacket (p_userData_len := (len : Int)) (p_iData := il) (p_typ := 0#8)
      ≤ (mtu.toNat : Int)) ∧
    (∀ (cfg : Cfg) (st : Stream) (si : BitVec 16) (msg : Nat) (ppi : BitVec 32) (n : Nat), cfg.maxPayload ≠ 0 →
      sumLen (packetize cfg st si msg ppi n).chunks = n ∧
      ∀ c ∈ (packetize cfg st si msg ppi n).chunks, 0 < c.len ∧ c.len ≤ cfg.maxPayload.toNat) :=
  ⟨fragment_fits mtu il len hmp hlen,
   fun cfg st si msg ppi n h => ⟨(packetize_spec cfg st si msg ppi n h).2.2.2.1,
     fun c hc => ⟨((packetize_spec cfg st si msg ppi n h).2.2.2.2.2.1 c hc).1, ((packetize_spec cfg st si msg ppi n h).2.2.2.2.2.1 c hc).2.1⟩⟩⟩

example : maxPayloadSizeForMTU 1200 false ≠ 0 ∧ (1168 : Nat) ≤ (maxPayloadSizeForMTU 1200 false).toNat := by decide
example : ((packetize { mtu := 1200, maxPayload := 1168 } {} 1 0 53 2500).chunks.map (·.len)) = [1168, 1168, 164] := by decide

/-- **Congestion window floor.** In every reachable state the congestion window is at least one MTU. -/
theorem C10_cwnd_floor (cfg : Cfg) (tsn peerRwnd : BitVec 32) (hc : CfgOk cfg) (ops : List Op)
    (hw : (run (init cfg tsn peerRwnd) ops).wrapWin = false) :
    cfg.mtu.toNat ≤ (run (init cfg tsn peerRwnd) ops).cwnd.toNat := by
  have h := (reach cfg tsn peerRwnd hc ops).floor hw
  have hcfg : (run (init cfg tsn peerRwnd) ops).cfg = cfg := run_cfg _ ops hc
  rw [hcfg] at h; exact h

example : CfgOk { mtu := 1200, maxPayload := 1168 } := by unfold CfgOk; decide
example :
    let s := run (init { mtu := 1200, maxPayload := 1168 } 100 65536)
      [.openS 1 false 0 0 0, .write 1 53 5000, .gather freeOracle [0, 0, 0, 0, 0], .t3, .t3]
    (s.cwnd, s.ssthresh, s.wrapWin) = (1200#32, 4800#32, false) := by decide

/-- **Loss response** ("cut" = the RFC 4960 §7.2.3 formula).
(1) A T3 expiry sets `ssthresh = max(cwnd/2, 4·MTU)` and `cwnd = max(MTU, MinCwnd)`.
(2) When `processFastRetransmission` takes the sender into fast recovery (third miss indication of a chunk), it sets
`ssthresh = max(cwnd/2, 4·MTU)` from the cwnd of that moment and `cwnd = max(ssthresh, MinCwnd)`, and arms the fast
retransmission; while already in fast recovery it changes neither. Hence after either signal `cwnd ≤ max(cwnd_before, 4·MTU, MinCwnd)`. -/
theorem C10_loss_response (s : St) (hc : CfgOk s.cfg) :
    ((t3 s).ssthresh.toNat = max (s.cwnd.toNat / 2) (4 * s.cfg.mtu.toNat) ∧
     (t3 s).cwnd.toNat = max s.cfg.mtu.toNat s.cfg.minCwnd.toNat) ∧
    (∀ cum gaps htna adv, s.inFastRecovery = false → (fastRetransCheck s cum gaps htna adv).1.inFastRecovery = true →
      (fastRetransCheck s cum gaps htna adv).1.ssthresh.toNat = max (s.cwnd.toNat / 2) (4 * s.cfg.mtu.toNat) ∧
      (fastRetransCheck s cum gaps htna adv).1.cwnd.toNat = max (max (s.cwnd.toNat / 2) (4 * s.cfg.mtu.toNat)) s.cfg.minCwnd.toNat ∧
      (fastRetransCheck s cum gaps htna adv).1.willRetransmitFast = true) ∧
    (∀ cum gaps htna adv, s.inFastRecovery = true →
      (fastRetransCheck s cum gaps htna adv).1.cwnd = s.cwnd ∧ (fastRetransCheck s cum gaps htna adv).1.ssthresh = s.ssthresh) := by
  obtain ⟨_, t2, t3'⟩ := t3_frame s
  obtain ⟨f1, f2⟩ := ssthresh_formula s.cwnd s.cfg.mtu hc
  refine ⟨⟨by rw [t3', f1], by rw [t2, setCwnd_eq]; rfl⟩, ?_, ?_⟩
  · intro cum gaps htna adv h0 h1
    obtain ⟨a, b, c⟩ := (fastRetransCheck_loss s cum gaps htna adv).2.1 h0 h1
    refine ⟨by rw [a, f2], ?_, c⟩
    rw [b, setCwnd_eq]; simp only [fastRecovery_cwndArg]; rw [f2]
  · intro cum gaps htna adv h1
    exact (fastRetransCheck_loss s cum gaps htna adv).1 h1

/-- non-vacuity: three SACKs reporting the same hole take the sender into fast recovery with the formula's values
(cwnd 4380 → ssthresh = cwnd = 4·1200) -/
example :
    let s := run (init { mtu := 1200, maxPayload := 1168 } 100 65536)
      [.openS 1 false 0 0 0, .write 1 53 4000, .gather freeOracle [0, 0, 0, 0],
       .sack 99 65536 [(2, 2)] [], .sack 99 65536 [(2, 3)] [], .sack 99 65536 [(2, 4)] []]
    (s.inFastRecovery, s.ssthresh, s.cwnd, s.willRetransmitFast) = (true, 4800#32, 4800#32, true) := by decide

end C10
