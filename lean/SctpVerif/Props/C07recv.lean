import SctpVerif.Proofs.Receiver.Forward
/-!
# C07, receive side — the skip a FORWARD-TSN announces for a stream is never lost

Property theorems only, about the L0 model `Model/Receiver.lean` of the receive half (tied to association.go by
`TestVerifAssocReceiver`: every op replayed through the model; the generator fills the accept backlog with more than
16 unaccepted streams, sends a FORWARD-TSN / I-FORWARD-TSN naming further streams, accepts, and repeats it; the
executable predicate tagged `[C07]` checks on the real association that after a FORWARD-TSN that moved the
cumulative point every stream it names is registered, and that a dropped one changed nothing).

Background (deviation D23, fixed in /repo 349533d): a stream the chunk names may have to be created (the skipped
message was the first on it); with a full accept backlog it cannot be. Before the fix the chunk was taken anyway and
that stream's skip was lost: ordered delivery on it never started. Now `handleForwardTSN` / `handleIForwardTSN`
first make sure every named stream exists (`ensureStreams`) and otherwise drop the WHOLE chunk, so the peer
retransmits it.

`Grown s s'`: `s'` is `s` with fresh, empty stream objects appended to the table (accept queue and object counters
accordingly) — receive queue, ack state, timer, triggers, control queue, deleted objects, pending resets, ABORT flag
and association state untouched. `pastSSN q n` / `pastMID q m`: the stream's delivery cursor is serially after `n` / `m`.
-/
namespace C07
open Gen Receiver

/-- ✱ FORWARD-TSN (enabled, ahead of the cumulative point) is taken completely or not at all.
*Not at all*: if some named stream can neither be found nor created, the handler returns the state it met, up to
the streams it created before the failing one — no cumulative advance, no purge, no acknowledgement scheduled.
*Completely*: otherwise the handler is `handlePeerLastTSNAndAcknowledgement` run on a state `s1` in which the
cumulative point has been advanced to the new value, EVERY named stream is registered, and (one entry per stream, as
`createForwardTSN` builds them) each named stream's cursor is past the skipped sequence number. With no reset
request pending the acknowledgement step keeps the stream table, so this is the state after the chunk. -/
theorem C07_forward_needs_stream (s : St) (c : TSN) (es : List (BitVec 16 × BitVec 16))
    (hil : s.il = false) (hf : s.useFwd = true) (hns : fwd_stale c s.pq.cum = false) :
    let e := ensureStreams s (es.map (·.1))
    Grown s e.1 ∧
    (e.2 = false → handleFwd s c es = e.1) ∧
    (e.2 = true → ∃ s1, handleFwd s c es = ackStep s1 false ∧ s1.pq = RecvQ.advance s.pq c ∧
      (∀ p ∈ es, (getS s1.streams p.1).isSome) ∧
      ((es.map (·.1)).Nodup → ∀ p ∈ es, ∃ x, getS s1.streams p.1 = some x ∧ pastSSN x.q p.2) ∧
      (s.resetReqs = [] → (ackStep s1 false).streams = s1.streams)) := by
  intro e
  have hg : Grown s e.1 := ensureStreams_grown _ s
  have hpq : e.1.pq = s.pq := ensureStreams_pq _ s
  have hunf : handleFwd s c es = if !e.2 then e.1 else
      ackStep { es.foldl fwdEntry { e.1 with pq := RecvQ.advance e.1.pq c } with
        streams := (es.foldl fwdEntry { e.1 with pq := RecvQ.advance e.1.pq c }).streams.map
          (fun x => { x with q := x.q.forwardTSNForUnordered c }) } false := by
    unfold handleFwd
    simp only [hil, Bool.false_eq_true, if_false, hf, Bool.not_true, hns]
    rfl
  refine ⟨hg, ?_, ?_⟩
  · intro h2; rw [hunf, h2]; rfl
  · intro h2
    rw [hunf, h2]
    simp only [Bool.not_true, Bool.false_eq_true, if_false]
    let s0 : St := { e.1 with pq := RecvQ.advance e.1.pq c }
    have hreg0 : ∀ p ∈ es, (getS s0.streams p.1).isSome := fun p hp =>
      ensureStreams_ok _ s h2 p.1 (List.mem_map_of_mem hp)
    have hfold := foldl_fwdEntry_gstep es s0 hreg0
    obtain ⟨g1, _, g3⟩ := gstep_spec (·.1) (fun (e : BitVec 16 × BitVec 16) q => q.forwardTSNForOrdered e.2) es s0
    rw [← hfold] at g1 g3
    have hgsi : ∀ y : Stream, ({ y with q := y.q.forwardTSNForUnordered c } : Stream).si = y.si := fun _ => rfl
    refine ⟨_, rfl, ?_, ?_, ?_, ?_⟩
    · show (es.foldl fwdEntry s0).pq = _
      rw [foldl_fwdEntry_pq]; show RecvQ.advance e.1.pq c = _; rw [hpq]
    · intro p hp
      show (getS ((es.foldl fwdEntry s0).streams.map _) p.1).isSome
      rw [getS_map _ _ hgsi]
      have := g1 p.1 (hreg0 p hp)
      cases hx : getS (es.foldl fwdEntry s0).streams p.1 with
      | some x => rfl
      | none => rw [hx] at this; simp at this
    · intro hnd p hp
      have hq := g3 hnd p hp
      show ∃ x, getS ((es.foldl fwdEntry s0).streams.map _) p.1 = some x ∧ _
      rw [getS_map _ _ hgsi]
      have h0 := hreg0 p hp
      cases hx0 : getS s0.streams p.1 with
      | none => rw [hx0] at h0; simp at h0
      | some x0 =>
        rw [hx0] at hq
        cases hx : getS (es.foldl fwdEntry s0).streams p.1 with
        | none => rw [hx] at hq; simp at hq
        | some x =>
          rw [hx] at hq
          simp only [Option.map_some, Option.some.injEq] at hq
          refine ⟨_, rfl, ?_⟩
          show pastSSN (x.q.forwardTSNForUnordered c) p.2
          unfold pastSSN
          rw [fwdU_nextSSN, hq]
          exact fwdO_past x0.q p.2
    · intro hr
      let gU : Stream → Stream := fun x => { x with q := x.q.forwardTSNForUnordered c }
      have hrr : ({ es.foldl fwdEntry s0 with streams := (es.foldl fwdEntry s0).streams.map gU } : St).resetReqs = [] := by
        show (es.foldl fwdEntry s0).resetReqs = []
        have hc := congrArg (fun t => t.2.2.1) hg.1
        have h1 : (es.foldl fwdEntry s0).resetReqs = s0.resetReqs := by
          rw [hfold]
          exact congrArg (fun t => t.2.2.1) (gstep_core _ _ es s0)
        rw [h1]; show e.1.resetReqs = []; rw [show e.1.resetReqs = s.resetReqs from hc]; exact hr
      have := ackStep_tbl _ false hrr
      exact congrArg (fun t => t.1) this

/-- ✱ the same for I-FORWARD-TSN (negotiated, ahead of the cumulative point): dropped whole when a named stream
cannot be created; otherwise the cumulative point is advanced, every named stream is registered and, for ordered
entries (one entry per stream), the stream's cursor is past the skipped message identifier. -/
theorem C07_iforward_needs_stream (s : St) (c : TSN) (es : List (BitVec 16 × Bool × BitVec 32))
    (hf : s.useIFwd = true) (hns : ifwd_stale c s.pq.cum = false) :
    let e := ensureStreams s (es.map (·.1))
    Grown s e.1 ∧
    (e.2 = false → handleIFwd s c es = e.1) ∧
    (e.2 = true → ∃ s1, handleIFwd s c es = ackStep s1 false ∧ s1.pq = RecvQ.advance s.pq c ∧
      (∀ p ∈ es, (getS s1.streams p.1).isSome) ∧
      ((es.map (·.1)).Nodup → ∀ p ∈ es, p.2.1 = false → ∃ x, getS s1.streams p.1 = some x ∧ pastMID x.q p.2.2) ∧
      (s.resetReqs = [] → (ackStep s1 false).streams = s1.streams)) := by
  intro e
  have hg : Grown s e.1 := ensureStreams_grown _ s
  have hpq : e.1.pq = s.pq := ensureStreams_pq _ s
  have hunf : handleIFwd s c es = if !e.2 then e.1 else
      ackStep (es.foldl ifwdEntry { e.1 with pq := RecvQ.advance e.1.pq c }) false := by
    unfold handleIFwd
    simp only [hf, Bool.not_true, Bool.false_eq_true, if_false, hns]
    rfl
  refine ⟨hg, ?_, ?_⟩
  · intro h2; rw [hunf, h2]; rfl
  · intro h2
    rw [hunf, h2]
    simp only [Bool.not_true, Bool.false_eq_true, if_false]
    let s0 : St := { e.1 with pq := RecvQ.advance e.1.pq c }
    have hreg0 : ∀ p ∈ es, (getS s0.streams p.1).isSome := fun p hp =>
      ensureStreams_ok _ s h2 p.1 (List.mem_map_of_mem hp)
    have hfold := foldl_ifwdEntry_gstep es s0 hreg0
    obtain ⟨g1, _, g3⟩ := gstep_spec (·.1) (fun (e : BitVec 16 × Bool × BitVec 32) q =>
      if e.2.1 then q.forwardTSNForUnorderedMID e.2.2 else q.forwardTSNForOrderedMID e.2.2) es s0
    rw [← hfold] at g1 g3
    refine ⟨_, rfl, ?_, ?_, ?_, ?_⟩
    · show (es.foldl ifwdEntry s0).pq = _
      rw [foldl_ifwdEntry_pq]; show RecvQ.advance e.1.pq c = _; rw [hpq]
    · intro p hp; exact g1 p.1 (hreg0 p hp)
    · intro hnd p hp ho
      have hq := g3 hnd p hp
      have h0 := hreg0 p hp
      cases hx0 : getS s0.streams p.1 with
      | none => rw [hx0] at h0; simp at h0
      | some x0 =>
        rw [hx0] at hq
        cases hx : getS (es.foldl ifwdEntry s0).streams p.1 with
        | none => rw [hx] at hq; simp at hq
        | some x =>
          rw [hx] at hq
          simp only [Option.map_some, Option.some.injEq, ho, Bool.false_eq_true, if_false] at hq
          exact ⟨x, rfl, by rw [hq]; exact fwdOM_past x0.q p.2.2⟩
    · intro hr
      have hrr : (es.foldl ifwdEntry s0).resetReqs = [] := by
        have hc := congrArg (fun t => t.2.2.1) hg.1
        have h1 : (es.foldl ifwdEntry s0).resetReqs = s0.resetReqs := by
          rw [hfold]
          exact congrArg (fun t => t.2.2.1) (gstep_core _ _ es s0)
        rw [h1]; show e.1.resetReqs = []; rw [show e.1.resetReqs = s.resetReqs from hc]; exact hr
      have := ackStep_tbl _ false hrr
      exact congrArg (fun t => t.1) this

/-- the pre-check fails exactly for want of room in the accept queue: when it fails, the accept backlog of the
returned state is full (`acceptChSize` = 16 objects waiting for `AcceptStream`). -/
theorem C07_forward_dropped_only_when_backlog_full (s : St) (ids : List (BitVec 16)) (h : (ensureStreams s ids).2 = false) :
    (ensureStreams s ids).1.acceptQ.length ≥ acceptChSize := by
  induction ids generalizing s with
  | nil => simp [ensureStreams] at h
  | cons i ids ih =>
    simp only [ensureStreams] at h ⊢
    split at h
    · exact ih s h
    · split at h
      · rename_i hc; rw [if_pos hc]; exact ih _ h
      · rename_i hc
        rw [if_neg hc]
        unfold createStream at hc ⊢
        simp only [if_true] at hc ⊢
        split
        · rename_i hlt; rw [if_pos hlt] at hc; simp at hc
        · rename_i hlt; dsimp only; omega

-- non-vacuity (tests, by evaluation): 16 unaccepted streams; a FORWARD-TSN naming stream 300 is dropped (cumulative
-- point unchanged, stream 300 not registered); after one `accept` the same chunk is taken: the cumulative point moves
-- and stream 300 is registered with its cursor past SSN 4 (an ordered message with SSN 5 is then the next one read)
private def dk (t si : Nat) : Reasm.Chunk :=
  { tsn := BitVec.ofNat 32 t, si := BitVec.ofNat 16 si, ssn := 0, bf := true, ef := true, ppi := 51, userData := [7] }
private def full : St := run (init 65536 0 false true false 0 1000#32) ((List.range 16).map fun i => Op.data (dk (1001 + i) (201 + i)))
set_option maxRecDepth 1000000 in
example : full.acceptQ.length = 16 ∧ (ensureStreams full [300]).2 = false ∧
    (handleFwd full 1000#32 [(300, 4)]).pq.cum = 999#32 ∧ (getS (handleFwd full 1000#32 [(300, 4)]).streams 300).isSome = false := by
  decide
set_option maxRecDepth 1000000 in
example : let s := (accept full).1
    (ensureStreams s [300]).2 = true ∧ (handleFwd s 1000#32 [(300, 4)]).pq.cum = 1016#32 ∧
    ((getS (handleFwd s 1000#32 [(300, 4)]).streams 300).map (·.q.nextSSN)) = some 5#16 := by
  decide

/-! ### D24 (known finding): a forward entry of an incarnation that is already reset acts on the next one

A decided run of the model (replayed on the real code: `corpus/C01/known/d24_forward_tsn_after_reset.ops`). Stream 4:
SSN 0 delivered and read, SSN 1 (TSN 1001) abandoned; reset request (last TSN 1001) deferred, FORWARD-TSN 1001 [4/1] taken,
the retransmitted request performed: stream 4 is gone. The sender's next FORWARD-TSN still lists 4/1 (its cumulative ack
lags): taken, stream 4 is re-created as a NEW object `(4, 1)` whose cursor is 2. SSN 0 and SSN 1 of the new incarnation are
then acknowledged (cumulative point 1003, 1004) and not kept (no byte held, nothing readable); SSN 2 is delivered. -/
private def dm (t si ssn : Nat) : Reasm.Chunk :=
  { tsn := BitVec.ofNat 32 t, si := BitVec.ofNat 16 si, ssn := BitVec.ofNat 16 ssn, bf := true, ef := true, ppi := 51, userData := [7] }
private def rst : Op := .pkt [.reset { rsn := 77#32, lastTSN := 1001#32, ids := [4#16] }]
/-- up to the performed reset -/
private def d24a : St :=
  run (init 1500 0 false true false 0 1000#32) [Op.data (dm 1000 4 0), .accept, .read (4#16, 0) 65536, rst, Op.fwd 1001#32 [(4, 1)], rst]
/-- the late FORWARD-TSN -/
private def d24b : St := step d24a (Op.fwd 1002#32 [(4, 1), (1, 0)])

set_option maxRecDepth 1000000 in
theorem C07_forward_after_reset_witness :
    -- the reset of the first incarnation has been performed: stream 4 is not in the table
    d24a.performed.contains 77#32 = true ∧ (getS d24a.streams 4#16).isSome = false ∧ d24a.pq.cum = 1001#32 ∧
    -- the FORWARD-TSN is taken and re-creates stream 4 as a new object with its cursor past the entry
    d24b.pq.cum = 1002#32 ∧ ((getS d24b.streams 4#16).map fun x => (x.inc, x.q.nextSSN)) = some (1, 2#16) ∧
    -- SSN 0 and SSN 1 of the new incarnation: acknowledged, not kept
    (let s := step d24b (Op.data (dm 1003 4 0))
     s.pq.cum = 1003#32 ∧ heldRegistered s = 0 ∧ (read s (4#16, 1) 65536).2 = .block ∧
     (let s' := step s (Op.data (dm 1004 4 1))
      s'.pq.cum = 1004#32 ∧ heldRegistered s' = 0 ∧ (read s' (4#16, 1) 65536).2 = .block ∧
      -- SSN 2 is the first one delivered
      (let s'' := step s' (Op.data (dm 1005 4 2))
       s''.pq.cum = 1005#32 ∧ heldRegistered s'' = 1))) := by
  decide

end C07
