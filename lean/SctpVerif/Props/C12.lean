import SctpVerif.Proofs.Codec
/-!
# C12 — wire codec fidelity

Property theorems only, about the L0 model of packet.go / chunkheader.go / chunk_*.go / param*.go /
error_cause*.go (Model/Codec.lean; tied to the code by the `TestVerifCodec` differential runs).
`crc` is an arbitrary function throughout; `Codec.dec`/`Codec.enc` are the instances with CRC32c.

* `CodecSpec.wfPacket` — the explicit, decidable well-formedness predicate (Spec/CodecSpec.lean):
  lengths fit their 16-bit fields, derived fields are consistent (I-DATA: SSN = low 16 bits of MID,
  FSN = 0 on a B fragment, PPID = 0 otherwise; DATA: MID = FSN = 0), INIT/INIT-ACK flags 0, cause kind
  matches cause code, HMAC ids ∈ {1,3}, I-FORWARD-TSN streams normalised, HEARTBEAT(-ACK) exactly one
  Heartbeat-Info, and the LAST parameter of INIT / INIT-ACK longer than 4 bytes.
* `Codec.decChunks bs` — the chunk loop of `packet.unmarshal` on the chunk area `bs`.

Known and replayed on every run (known_findings.txt): F-codec-1 (an empty HEARTBEAT-ACK is accepted
but cannot be re-encoded), F-codec-2 (a trailing 4-byte INIT parameter is not decoded). Both are
stated below as witness theorems; they are why `C12_reencode_stable` is `_partial` (its hypothesis
`CodecSpec.reencodable` excludes exactly these two decoded shapes).
Chunk values may be up to 65535 bytes: for 65532…65535 the 16-bit chunk length wraps on both sides.
-/
namespace C12
open Codec CodecSpec

/-! ### framing layer -/

theorem C12_be16_roundtrip (v : BitVec 16) (x y : Byte) :
    (match be16 v with | [a, b] => u16 a b | _ => 0) = v ∧ be16 (u16 x y) = [x, y] :=
  ⟨by simp [be16], be16_u16 x y⟩

theorem C12_be32_roundtrip (v : BitVec 32) :
    (match be32 v with | [a, b, c, d] => u32 a b c d | _ => 0) = v ∧
    (match le32 v with | [a, b, c, d] => u32 d c b a | _ => 0) = v :=
  ⟨by simp [be32], by simp [le32]⟩

/-- `getPadding` (the translator-generated function): pads to the next multiple of 4 with 0–3 bytes -/
theorem C12_padding (n : Nat) : (n + pad4 n) % 4 = 0 ∧ pad4 n < 4 ∧ (n % 4 = 0 → pad4 n = 0) :=
  ⟨add_pad4_mod n, pad4_lt n, pad4_of_mod⟩

/-- `chunkHeader.unmarshal ∘ chunkHeader.marshal = id` for every value shorter than 2^16 bytes (also
the 65532…65535-byte values whose length field wraps), followed by at least 4 more bytes or by zero
bytes only -/
theorem C12_chunkHeader_roundtrip (t f : Byte) (v tail : Bytes) (hv : v.length < 65536)
    (ht : 4 ≤ tail.length ∨ allZero tail = true) :
    chunkHeaderUnmarshal (chunkHeaderMarshal t f v ++ tail) = .ok (t, f, v) :=
  chunkHeader_roundtrip t f v tail hv ht

/-- A CHUNK'S DECODING IS A FUNCTION OF ITS OWN `length` BYTES: for any chunk `hdr ++ v` whose length
field frames exactly itself, followed by ANY bytes (at least 4 of them, or only zeros), the result
is computed from (type, flags, v) alone. No hypothesis on `v`: it holds for malformed bodies too. -/
theorem C12_chunk_own_bytes (t f b1 b2 : Byte) (v tail tail' : Bytes)
    (hl : (u16 b1 b2 - 4#16).toNat = v.length)
    (ht : 4 ≤ tail.length ∨ allZero tail = true) (ht' : 4 ≤ tail'.length ∨ allZero tail' = true) :
    decChunk (t :: f :: b1 :: b2 :: (v ++ tail)) = decChunk (t :: f :: b1 :: b2 :: (v ++ tail')) := by
  rw [decChunk_framed t f b1 b2 v tail hl ht, decChunk_framed t f b1 b2 v tail' hl ht']

/-- LOCALITY of bundling: decoding `chunk ++ padding ++ rest` = decoding the chunk from its own
(type, flags, value), then decoding `rest`; `rest` is empty (then the padding must be zero) or holds
at least one more chunk header. Neither chunk influences how the other is decoded. -/
theorem C12_locality (t f b1 b2 : Byte) (v pad rest : Bytes)
    (hl : (u16 b1 b2 - 4#16).toNat = v.length) (hpad : pad.length = pad4 v.length)
    (hrest : (rest = [] ∧ allZero pad = true) ∨ 4 ≤ rest.length) :
    decChunks (t :: f :: b1 :: b2 :: (v ++ (pad ++ rest))) =
      ((if knownChunkType t then decBody t f v else .err .ErrUnmarshalUnknownChunkType) >>= fun c =>
        decChunks rest >>= fun cs => .ok (c :: cs)) :=
  decChunks_cons t f b1 b2 v pad rest hl hpad hrest

/-- `packet.unmarshal` applies exactly that chunk loop to everything after the 12-byte header -/
theorem C12_packet_chunks (raw : Bytes) (h : 12 ≤ raw.length) :
    decAfter raw = decChunks (raw.drop 12) >>= fun cs =>
      .ok { sport := g16 raw 0, dport := g16 raw 2, vtag := g32 raw 4, chunks := cs } := by
  unfold decAfter
  have := chunksLoop_shift raw (raw.length / 4 + 1) 12 0 h
  rw [Nat.add_zero] at this
  rw [this, chunksLoop_eq_decChunks _ _ (by simp only [List.length_drop]; omega)]

/-! ### round trips -/

/-- every parameter struct: `buildParam ∘ marshal = id`, whatever follows it -/
theorem C12_roundtrip_param (p : Param) (tail : Bytes) (h : CodecSpec.wfParam p = true) :
    buildParam (ptOf p) (encParam p ++ tail) = .ok (p, (encParam p).length) :=
  buildParam_roundtrip p tail h

/-- every error-cause struct: `buildErrorCause ∘ marshal = id`, whatever follows it -/
theorem C12_roundtrip_cause (c : Cause) (tail : Bytes) (h : wfCause c = true) :
    ∃ bs, encCause c = .ok bs ∧ buildErrorCause (bs ++ tail) = .ok (c, bs.length) :=
  ⟨causeBytes c, encCause_ok c h, by rw [buildErrorCause_roundtrip c tail h, causeBytes_length]⟩

/-- every chunk type (all 17: DATA, I-DATA, INIT, INIT-ACK, SACK, HEARTBEAT, HEARTBEAT-ACK, ABORT,
ERROR, SHUTDOWN, SHUTDOWN-ACK, SHUTDOWN-COMPLETE, COOKIE-ECHO, COOKIE-ACK, RECONFIG, FORWARD-TSN,
I-FORWARD-TSN): the chunk's `marshal` yields `header(t, f, v)` and its `unmarshal` on (t, f, v) yields
the chunk back -/
theorem C12_roundtrip_chunk (c : Chunk) (h : wfChunk c = true) :
    ∃ t f v, encChunk c = .ok (chunkHeaderMarshal t f v) ∧ knownChunkType t = true ∧ v.length < 65536 ∧
      decBody t f v = .ok c :=
  chunk_roundtrip c h

/-- ROUND TRIP: a well-formed packet (any bundle of the 17 chunk types) is marshalled successfully and
the result unmarshals to exactly the packet it was built from, for both values of the receiver's
`doChecksum` flag. -/
theorem C12_roundtrip_packet (crc : Bytes → BitVec 32) (p : Packet) (h : wfPacket p = true) :
    ∃ raw, encWith crc true p = .ok raw ∧ ∀ doChecksum, decWith crc doChecksum raw = .ok p :=
  packet_roundtrip crc p h

/-- the same for the functions the driver runs (real CRC32c) -/
theorem C12_roundtrip_packet_crc32c (p : Packet) (h : wfPacket p = true) :
    ∃ raw, enc true p = .ok raw ∧ ∀ doChecksum, dec doChecksum raw = .ok p :=
  packet_roundtrip Crc.crc32c p h

/-- every emitted chunk area is 4-byte aligned and each chunk sits at its own length field -/
theorem C12_emitted_aligned (pre : Bytes) (hpre : pre.length % 4 = 0) (cs : List Chunk)
    (hwf : ∀ c ∈ cs, wfChunk c = true) :
    ∃ body, encChunks pre cs = .ok (pre ++ body) ∧ decChunks body = .ok cs ∧ body.length % 4 = 0 := by
  obtain ⟨body, h1, h2, h3, _⟩ := encChunks_roundtrip pre hpre cs hwf
  exact ⟨body, h1, h2, h3⟩

/-! ### type dispatch (against the tables the translator reads off the Go source) -/

/-- the model accepts exactly the chunk types `packet.unmarshal` has a `case` for, and each of them is
decoded into the struct that case instantiates -/
theorem C12_dispatch_chunks :
    (∀ t : Byte, knownChunkType t = (Gen.packetUnmarshalDispatch.map (·.1)).contains t.toNat) ∧
    (∀ e ∈ Gen.packetUnmarshalDispatch,
      (match decBody (byteOf e.1) 0 (probeValue e.1) with | .ok c => c.goStruct | _ => "rejected") = e.2) := by
  constructor
  · decide
  · decide

/-- `buildParam`: exactly the parameter types of the Go switch, each built into the struct of its case;
every other type is `ErrParamTypeUnhandled` whatever the bytes -/
theorem C12_dispatch_params :
    (∀ e ∈ Gen.buildParamDispatch,
      (match buildParam (trunc16 e.1) (probeParam e.1) with | .ok (p, _) => p.goStruct | _ => "rejected") = e.2) ∧
    (∀ (typ : BitVec 16) (raw : Bytes), (Gen.buildParamDispatch.map (·.1)).contains typ.toNat = false →
      buildParam typ raw = .err .ErrParamTypeUnhandled) := by
  constructor
  · decide
  · intro typ raw h
    have hne : ∀ n : Nat, n < 65536 → n ∈ Gen.buildParamDispatch.map (·.1) → typ ≠ BitVec.ofNat 16 n := by
      intro n hn hmem he
      subst he
      have : (Gen.buildParamDispatch.map (·.1)).contains (BitVec.ofNat 16 n).toNat = true := by
        simp only [BitVec.toNat_ofNat, Nat.mod_eq_of_lt hn]
        exact List.contains_iff_mem.mpr hmem
      rw [this] at h; cases h
    unfold buildParam
    simp only [pt_fwdtsn, pt_supext, pt_ecn, pt_random, pt_hmac, pt_chunklist, pt_cookie, pt_hb, pt_outreset,
      pt_reconfresp, pt_zerock]
    rw [if_neg (hne 49152 (by omega) (by decide)), if_neg (hne 32776 (by omega) (by decide)),
      if_neg (hne 32768 (by omega) (by decide)), if_neg (hne 32770 (by omega) (by decide)),
      if_neg (hne 32772 (by omega) (by decide)), if_neg (hne 32771 (by omega) (by decide)),
      if_neg (hne 7 (by omega) (by decide)), if_neg (hne 1 (by omega) (by decide)),
      if_neg (hne 13 (by omega) (by decide)), if_neg (hne 16 (by omega) (by decide)),
      if_neg (hne 32769 (by omega) (by decide))]

/-- `buildErrorCause`: the cause codes of the Go switch select the struct of their case, every other code
the plain header struct -/
theorem C12_dispatch_causes :
    (∀ e ∈ Gen.buildErrorCauseDispatch,
      (match buildErrorCause [byteOf (e.1 / 256), byteOf e.1, 0, 4] with | .ok (c, _) => c.kind.goStruct | _ => "rejected") = e.2) ∧
    (∀ (a b : Byte), (Gen.buildErrorCauseDispatch.map (·.1)).contains (u16 a b).toNat = false →
      (match buildErrorCause [a, b, 0, 4] with | .ok (c, _) => c.kind.goStruct | _ => "rejected") = "errorCauseHeader") := by
  constructor
  · decide
  · intro a b h
    have hne : ∀ n : Nat, n < 65536 → n ∈ Gen.buildErrorCauseDispatch.map (·.1) → u16 a b ≠ BitVec.ofNat 16 n := by
      intro n hn hmem he
      rw [he] at h
      have : (Gen.buildErrorCauseDispatch.map (·.1)).contains (BitVec.ofNat 16 n).toNat = true := by
        simp only [BitVec.toNat_ofNat, Nat.mod_eq_of_lt hn]
        exact List.contains_iff_mem.mpr hmem
      rw [this] at h; cases h
    have h7 := hne 7 (by omega) (by decide); have h6 := hne 6 (by omega) (by decide)
    have h13 := hne 13 (by omega) (by decide); have h12 := hne 12 (by omega) (by decide)
    have hcu := causeHeaderUnmarshal_cons a b 0 4 [] [] (by decide)
    simp only [List.append_nil, List.length_nil, Nat.add_zero] at hcu
    unfold buildErrorCause
    simp only [u16At_zero, ok_bind, hcu, cc_invparam, cc_unrec, cc_pviol, cc_uabort, h7, h6, h13, h12, ↓reduceIte]
    rfl

/-! ### re-encode stability -/

/-- RE-ENCODE STABILITY, PARTIAL. Full strength would be: for EVERY accepted packet. That is false in
the code as it is (the two witness theorems below), so the hypothesis `reencodable` excludes exactly
those two decoded shapes: a HEARTBEAT-ACK without parameter, and an INIT / INIT-ACK whose last
recognised parameter encodes to 4 bytes. For every other accepted byte string — any flag, any chunk
types, malformed-but-accepted bodies, trailing junk inside chunks, 65532…65535-byte values included —
the decoded packet `p` re-encodes successfully, the re-encoding decodes (for every receiver flag) to
`norm p` (= `p` without the never-marshalled list of unrecognised INIT parameters), and `norm p`
re-encodes to the same bytes: a fixpoint after one round. -/
theorem C12_reencode_stable_partial (crc : Bytes → BitVec 32) (doChecksum : Bool) (raw : Bytes) (p : Packet)
    (h : decWith crc doChecksum raw = .ok p) (hr : p.chunks.all reencodable = true) :
    ∃ raw', encWith crc true p = .ok raw' ∧ (∀ dc', decWith crc dc' raw' = .ok (norm p)) ∧
      encWith crc true (norm p) = .ok raw' :=
  reencode_stable crc doChecksum raw p h hr

/-- every chunk the decoder returns is well formed after `normChunk`, unless it is one of the two
shapes — in particular its re-encoding fits its length fields -/
theorem C12_decoded_wf (t f : Byte) (v : Bytes) (c : Chunk) (h : decBody t f v = .ok c) (hv : v.length < 65536)
    (hr : reencodable c = true) : wfChunk (normChunk c) = true :=
  decBody_wf h hv hr

/-- WITNESS (F-codec-1) that full-strength re-encode stability is false in the code as it is: the
16-byte packet with an empty HEARTBEAT-ACK is accepted and decodes to a structure the encoder refuses. -/
theorem C12_reencode_witness_heartbeatAck :
    ∃ raw p, decWith (fun _ => 0#32) true raw = .ok p ∧ encWith (fun _ => 0#32) true p = .err .ErrHeartbeatAckParams :=
  ⟨[0x13,0x88, 0x13,0x88, 0,0,0,1, 0,0,0,0, 5,0,0,4].map (BitVec.ofNat 8),
   ⟨5000, 5000, 1, [.heartbeatAck 0 []]⟩, by decide, by decide⟩

/-- WITNESS (F-codec-2): an INIT whose last parameter is 4 bytes long (here ECN-capable) is encoded with
it but decoded without it — the parameter loop stops at `remaining ≤ 4`. -/
theorem C12_roundtrip_witness_initTail :
    ∃ p raw p', encWith (fun _ => 0#32) true p = .ok raw ∧ decWith (fun _ => 0#32) true raw = .ok p' ∧ p' ≠ p :=
  ⟨⟨5000, 5000, 1, [.init 0 ⟨1, 1500, 1, 1, 1, [.ecnCapable], []⟩]⟩,
   [0x13,0x88, 0x13,0x88, 0,0,0,1, 0,0,0,0, 1,0,0,0x18, 0,0,0,1, 0,0,5,0xdc, 0,1, 0,1, 0,0,0,1, 0x80,0,0,4].map (BitVec.ofNat 8),
   ⟨5000, 5000, 1, [.init 0 ⟨1, 1500, 1, 1, 1, [], []⟩]⟩, by decide, by decide, by decide⟩

/-! ### non-vacuity -/
example : wfPacket ⟨5000, 5000, 1, [.sack 0 7 1500 [(2, 3)] [9], .data false true true true false 1 2 3 0 0 51 [0x41#8],
    .init 0 ⟨1, 1500, 1, 1, 1, [.stateCookie [1#8, 2#8], .supportedExt [130#8, 192#8]], []⟩,
    .abort [⟨.userAbort, 12#16, [0x62#8]⟩], .reconfig 0 (.outReset 1 2 3 [4]) (some (.reconfigResp 5 1)),
    .iForwardTsn 0 9 [(1, true, 5), (1, false, 6)], .heartbeat [.heartbeatInfo [1#8]]]⟩ = true := by decide
example : (u16 0#8 5#8 - 4#16).toNat = ([0x41#8] : Bytes).length := by decide
example : wfPacket ⟨0, 0, 0, [.init 0 ⟨1, 1500, 1, 1, 1, [.ecnCapable], []⟩]⟩ = false := by decide
/-- the hypothesis of `C12_reencode_stable_partial` holds for a decoded packet with unrecognised INIT
parameters (where `norm p ≠ p`) and fails for exactly the witnesses -/
example : (Packet.mk 1 2 3 [.init 0 ⟨1, 1500, 1, 1, 1, [.stateCookie [1#8]], [(9#16, [])]⟩, .heartbeatAck 0 [.heartbeatInfo []]]).chunks.all
    reencodable = true := by decide
example : reencodable (.heartbeatAck 0 []) = false ∧ reencodable (.init 0 ⟨1, 1500, 1, 1, 1, [.ecnCapable], []⟩) = false := by
  decide

end C12
