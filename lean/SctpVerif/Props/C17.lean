import SctpVerif.Proofs.Handshake
import SctpVerif.Proofs.PendQWfqLag
import Mathlib.Tactic.NormNum
/-!
# C17 — scheduler half: fragment order, contiguity without interleaving, round robin, WFQ, accounting

Property theorems only. They are about the L0 model `PendQ` of pending_queue.go (tied to the Go code
by the correspondence run `TestVerifPendQ`). An *operation list* is any list of
`push c | peek | pop | setil b` (`pop` = what the association does: `c := peek(); if c != nil { pop(c) }`);
`PQ.run` executes it and records `(op, result)`; `pushesOf` / `popsOf` are the chunks pushed /
successfully popped, in order. Theorems without a number type hold for every `Num α`
(in particular for the `Float` instance the driver runs and for `Rat`).
-/
namespace C17
open PendQ

variable {α : Type} [Num α]

/-- `ops` contains only operations the association performs (no raw pop of an arbitrary chunk, no `pop(nil)`). -/
def Proper (ops : List Op) : Prop := ∀ o ∈ ops, o.proper = true

/-- **Fragment order under every policy.** For every scheduler factory, every operation list
(including `setInterleaving` calls at any point) and every stream `s` and ordering class `u`:
the chunks of `(s, u)` pushed so far are exactly the chunks of `(s, u)` popped so far, in the same
order, followed by the chunks of `(s, u)` still queued, in queue order. Hence the pops of one stream
and class come out in push order, each chunk exactly once — in particular the fragments of every
message (same stream, same U flag) are sent in fragment order. -/
theorem C17_fragment_order (f : Factory) (ops : List Op) (hops : Proper ops) (s : Nat) (u : Bool) :
    let r := (PQ.new f : PQ α).run ops
    (pushesOf r.2).filter (key s u) = (popsOf r.2).filter (key s u) ++ r.1.policy.queued s u ∧
    ((popsOf r.2).filter (key s u)) <+: ((pushesOf r.2).filter (key s u)) := by
  have h := inv_run (inv_new f : Inv (PQ.new f : PQ α) [] []) ops hops
  simp only [List.nil_append] at h
  exact ⟨h.fifo s u, ⟨_, (h.fifo s u).symm⟩⟩

/-- **Accounting is exact** for all operation lists: `size()` is the number of chunks the policy
holds, `getNumBytes()` the sum of their payload lengths (the `< 0` clamp in `pop` never fires), and
both equal pushed minus popped. -/
theorem C17_accounting_exact (f : Factory) (ops : List Op) (hops : Proper ops) :
    let r := (PQ.new f : PQ α).run ops
    r.1.nChunks = r.1.policy.count ∧ r.1.nBytes = r.1.policy.bytes := by
  have h := inv_run (inv_new f : Inv (PQ.new f : PQ α) [] []) ops hops
  exact ⟨h.cnt, h.byt⟩

/-- **The policy is switched only when nothing is queued.** In any reachable state,
`setInterleaving(b)` with chunks queued leaves policy, counters and flag untouched (and, when it
would have to switch, reports `ErrPendingQueueModeChangeNonEmpty`). Together with
`C17_accounting_exact` "nChunks ≠ 0" means "some chunk is really queued". -/
theorem C17_mode_switch_only_empty (q : PQ α) (b : Bool) (hne : q.nChunks ≠ 0) :
    (q.setInterleaving b).1 = q ∧
    (q.interleaving ≠ b → (q.setInterleaving b).2 = some .modeChangeNonEmpty) := by
  unfold PQ.setInterleaving
  by_cases h1 : q.interleaving = b
  · simp [h1]
  · simp [h1, hne]

/-- **Without interleaving a message's fragments stay adjacent.** Take any scheduler factory and any
list of push / peek / pop operations on a fresh queue (no `setInterleaving`: the message policy).
Assume the push list keeps fragments together — every non-final fragment (`e = false`) is immediately
followed, in the push list, by a chunk of the same ordering class, which is what `sendPayloadData`
guarantees by pushing all fragments of a message under one lock hold. Then whenever a non-final
fragment `x` is popped, the very next chunk popped is the chunk that was pushed right after `x`,
i.e. the next fragment of the same message: pushes of other messages, on other streams or of the
other class, never get in between. Since TSNs are assigned in pop order, the fragments of one
message occupy consecutive TSNs. -/
theorem C17_contiguous (f : Factory) (ops : List Op) (hops : ∀ o ∈ ops, o.basic = true)
    (hkeep : KeepsTogether (pushesOf ((PQ.new f : PQ α).run ops).2)) (x y : Chunk)
    (hadj : AdjIn x y (popsOf ((PQ.new f : PQ α).run ops).2)) (hx : x.e = false) :
    AdjIn x y (pushesOf ((PQ.new f : PQ α).run ops).2) := by
  obtain ⟨m', _, hc⟩ := cinv_run (q := (PQ.new f : PQ α)) (m := {}) rfl MsgPol.cinv_empty ops hops
  simp only [List.nil_append] at hc
  exact adj_of_filter x.unordered _ hkeep (hc.good x y hadj hx) hx rfl

/-- only push / peek / pop (no `setInterleaving`, so the installed scheduler stays) -/
def Basic (ops : List Op) : Prop := ∀ o ∈ ops, o.basic = true

/-- **Round robin serves backlogged streams one chunk each per round.** Start from
`newPendingQueue(rr)`, `setInterleaving(true)`, then any operation list `pre` (any reachable state).
Suppose the next pop serves stream `s` (chunk `c1`), then an arbitrary operation list `mid` runs
without serving `s`, then the next pop serves `s` again (chunk `c2`). If `s` and another stream `t`
have queued data in every state from just after the first service to just before the second, then
`t` was served exactly once in between. -/
theorem C17_rr_round (pre mid : List Op) (hpre : Basic pre) (hmid : Basic mid) (s t : Nat) (hst : t ≠ s)
    (c1 c2 : Chunk) :
    let q1 := ((rrFresh : PQ α).run pre).1
    let e1 := q1.step .pop
    let r2 := e1.1.run mid
    let e2 := r2.1.step .pop
    e1.2 = .popped (some c1) .ok → c1.sid = s → e2.2 = .popped (some c2) .ok → c2.sid = s →
    (∀ c ∈ popsOf r2.2, c.sid ≠ s) →
    PQ.AllStates (fun q => q.backlogged s ∧ q.backlogged t) e1.1 mid →
    ((popsOf r2.2).filter (·.sid == t)).length = 1 := by
  intro q1 e1 r2 e2 h1 hc1 h2 hc2 hnos hall
  obtain ⟨r1, hq1, hwf1⟩ := rr_reach (α := α) pre hpre
  exact rr_round hq1 hwf1 mid hmid s t hst c1 c2 h1 hc1 h2 hc2 hnos hall

/-- **Round robin starves nobody.** In any reachable round-robin state, let chunk `c` sit at depth
`d` of its stream's queue (`d` chunks ahead of it) and let `N` bound the stream identifiers in use
(all pushes, before and after, have `sid < N`, so at most `N` streams take turns). Then whatever is
pushed or peeked meanwhile, `c` has been popped once `(d + 1) · N` pops have been done. -/
theorem C17_rr_no_starvation (N : Nat) (pre ops : List Op) (hpre : Basic pre) (hops : Basic ops)
    (c : Chunk) (s d : Nat) (l1 l2 : List Chunk) :
    let q1 := ((rrFresh : PQ α).run pre).1
    let r := q1.run ops
    (∀ c' ∈ pushesOf ((rrFresh : PQ α).run pre).2, c'.sid < N) → (∀ c' ∈ pushesOf r.2, c'.sid < N) →
    q1.policy.streamQ s = l1 ++ c :: l2 → l1.length = d →
    (d + 1) * N ≤ (popsOf r.2).length → c ∈ popsOf r.2 := by
  intro q1 r hNpre hNops hq hd hmany
  exact rr_no_starvation N pre ops hpre hops hNpre hNops c s d l1 l2 hq hd hmany

/-- **Under the interleaving schedulers every stream is FIFO as a whole** (ordered and unordered
chunks together): with round robin (any number type) or WFQ (rationals), after any basic operation
list the chunks pushed on stream `s` are the chunks of `s` popped so far followed by its queue. -/
theorem C17_stream_fifo_interleaved (ops : List Op) (hops : Basic ops) (s : Nat) :
    (let r := (rrFresh : PQ α).run ops
     (pushesOf r.2).filter (·.sid == s) = (popsOf r.2).filter (·.sid == s) ++ r.1.policy.streamQ s) ∧
    (∀ ws : AMap Nat, let r := (wfqFresh ws).run ops
     (pushesOf r.2).filter (·.sid == s) = (popsOf r.2).filter (·.sid == s) ++ r.1.policy.streamQ s) := by
  constructor
  · have := rr_stream_fifo ops (rrFresh : PQ α) {} [] [] rrFresh_policy RR.wf_empty hops (by simp [RR.sq]) s
    simpa using this
  · intro ws
    have := wfq_stream_fifo ops (wfqFresh ws) _ [] [] (wfqFresh_policy ws) (WFQ.wf_new ws) hops
      (by simp [WFQ.sq, WFQ.new]) s
    simpa using this

/-! ### weighted fair queueing (finish tags over exact rationals)

`wfqFresh ws` is `newPendingQueue` with the WFQ factory for weights `ws` followed by
`setInterleaving(true)`. `w.sq s` is the queue of stream `s` as `(chunk, finish tag)` pairs, `w.fin s`
is `streamFinish[s]`, `w.vtime` the virtual time, `WFQ.wt w s` the weight of `s` (1 if none or 0 is
configured). -/

/-- **WFQ tags are monotone.** After any list of push / peek / pop operations (stale peeks included):
along every stream queue the finish tags are non-decreasing, `streamFinish[s]` is the tag of the
newest chunk of `s` and bounds all its queued tags, the virtual time is non-negative and the start
tag (finish − len/weight) of every head chunk is at most the virtual time. -/
theorem C17_wfq_tags_monotone (ws : AMap Nat) (ops : List Op) (hops : Basic ops) (w : WFQ Rat)
    (hq : ((wfqFresh ws).run ops).1.policy = .wfq w) (s : Nat) :
    (w.sq s).Pairwise (fun x y => x.2 ≤ y.2) ∧ (∀ x ∈ w.sq s, x.2 ≤ w.fin s) ∧
    (∀ l x, w.sq s = l ++ [x] → w.fin s = x.2) ∧ 0 ≤ w.vtime ∧
    (∀ c f tl, w.sq s = (c, f) :: tl → f - (c.len : Rat) / WFQ.wt w s ≤ w.vtime) := by
  obtain ⟨w', hq', hg, _, _⟩ := wfq_run_g ops (wfqFresh ws) _ (wfqFresh_policy ws) (WFQ.ginv_new ws) (WFQ.wf_new ws) hops
  rw [hq] at hq'; cases hq'
  exact ⟨hg.t1 s, hg.t2 s, hg.t2l s, hg.v0, hg.a s⟩

/-- **With atomic peek-pop every queued tag is at least the virtual time.** If no push happens
between a `peek` and the `pop` of the chunk it selected (`PQ.Atomic`), then in every reachable state
all head tags — hence all queued tags — are `≥ vtime`, and inside a backlogged stream the start tag of
each chunk is the finish tag of its predecessor. -/
theorem C17_wfq_heads_ge_V (ws : AMap Nat) (ops : List Op) (hops : Basic ops) (hat : PQ.Atomic (wfqFresh ws) ops)
    (w : WFQ Rat) (hq : ((wfqFresh ws).run ops).1.policy = .wfq w) (s : Nat) :
    (∀ c f tl, w.sq s = (c, f) :: tl → w.vtime ≤ f) ∧
    (∀ l1 c1 f1 c2 f2 l2, w.sq s = l1 ++ (c1, f1) :: (c2, f2) :: l2 → f2 - (c2.len : Rat) / WFQ.wt w s = f1) := by
  obtain ⟨w', hq', ha, _, _, _⟩ := wfq_run ops (wfqFresh ws) _ (wfqFresh_policy ws) (WFQ.ainv_new ws) (WFQ.wf_new ws) hops hat
  rw [hq] at hq'; cases hq'
  exact ⟨ha.b s, ha.ce s⟩

/-- **WFQ serves the least finish tag, ties by stream id.** In any reachable state `w` (any basic
operation list): if the next `pop` hands out chunk `c`, then `c` is the head of its stream's queue
and (i) when no selection is cached its `(finish tag, stream id)` is lexicographically least among all
heads — so Go's random map iteration order cannot show; (ii) when a selection is cached it is the
head of the cached stream. Along atomic operation lists the tag of the served chunk is in both cases
`≤` every head tag. -/
theorem C17_wfq_serves_min (ws : AMap Nat) (ops : List Op) (hops : Basic ops) (w : WFQ Rat)
    (hq : ((wfqFresh ws).run ops).1.policy = .wfq w) (c : Chunk)
    (hpop : (((wfqFresh ws).run ops).1.step .pop).2 = .popped (some c) .ok) :
    ∃ f tl, w.sq c.sid = (c, f) :: tl ∧ (w.sel = false → WFQ.IsMin w c.sid f) ∧
      (w.sel = true → c.sid = w.selStream) ∧
      (PQ.Atomic (wfqFresh ws) ops → ∀ s' c' f' tl', w.sq s' = (c', f') :: tl' → f ≤ f') := by
  obtain ⟨w0, hq0, _, hwf, _⟩ := wfq_run_g ops (wfqFresh ws) _ (wfqFresh_policy ws) (WFQ.ginv_new ws) (WFQ.wf_new ws) hops
  rw [hq] at hq0; cases hq0
  obtain ⟨w', _, _, hstep, _⟩ := wfq_step_obs hq hwf .pop rfl
  rw [evPop_eq_of_popped hpop] at hstep
  rcases hstep.2 with ⟨hpo, _⟩ | ⟨s0, c0, f, tl, hq0, hpo, hcs, hselT, hselF, _⟩
  · simp at hpo
  · simp at hpo; subst hpo; subst hcs
    refine ⟨f, tl, hq0, hselF, hselT, ?_⟩
    intro hat
    obtain ⟨wa, hqa, ha, _, _, _⟩ := wfq_run ops (wfqFresh ws) _ (wfqFresh_policy ws) (WFQ.ainv_new ws) (WFQ.wf_new ws) hops hat
    rw [hq] at hqa; cases hqa
    cases hsel : w.sel with
    | true =>
      obtain ⟨c1, f1, tl1, hq1, hm⟩ := ha.m hsel
      rw [← hselT hsel, hq0] at hq1
      simp only [List.cons.injEq, Prod.mk.injEq] at hq1
      obtain ⟨⟨_, rfl⟩, _⟩ := hq1
      exact hm
    | false => exact fun s' c' f' tl' hq' => (hselF hsel s' c' f' tl' hq').1

/-- **WFQ fairness, the statement's bound — holds when peek and pop are atomic.** Build the scheduler
with any weights, run any basic operation list `pre` (reachable state), then any basic operation list
`mid` such that streams `i` and `j` have queued data in every state along `mid`, and such that over
`pre ++ mid` no push happens between a `peek` and the `pop` of the chunk it selected (`PQ.Atomic`).
Let `S_i`, `S_j` be the payload bytes of `i`, `j` popped during `mid`, `w_i`, `w_j` their weights and
`L_i`, `L_j` bounds on the chunk sizes pushed on `i`, `j`. Then
`|S_i/w_i − S_j/w_j| ≤ L_i/w_i + L_j/w_j` — one maximum-size chunk per stream, weight-normalised.

*Partial*: the hypothesis `PQ.Atomic` cannot be dropped — the association does push between a `peek`
that found cwnd full and the later `pop` — see `C17_wfq_stated_bound_fails_with_stale_peek`; what
holds for all operation lists is `C17_wfq_fair_partial`. -/
theorem C17_wfq_fair_atomic_partial (ws : AMap Nat) (pre mid : List Op) (hpre : Basic pre) (hmid : Basic mid)
    (hat : PQ.Atomic (wfqFresh ws) (pre ++ mid)) (i j : Nat) (Li Lj : Nat)
    (hLi : ∀ c ∈ pushesOf ((wfqFresh ws).run (pre ++ mid)).2, c.sid = i → c.len ≤ Li)
    (hLj : ∀ c ∈ pushesOf ((wfqFresh ws).run (pre ++ mid)).2, c.sid = j → c.len ≤ Lj)
    (hall : PQ.AllStates (fun q => q.backlogged i ∧ q.backlogged j) ((wfqFresh ws).run pre).1 mid) :
    let tr := (((wfqFresh ws).run pre).1.run mid).2
    let wi := WFQ.wt (WFQ.new ws : WFQ Rat) i
    let wj := WFQ.wt (WFQ.new ws : WFQ Rat) j
    |(served tr i : Rat) / wi - (served tr j : Rat) / wj| ≤ (Li : Rat) / wi + (Lj : Rat) / wj := by
  intro tr wi wj
  obtain ⟨hat1, hat2⟩ := (atomic_append _ pre mid).mp hat
  obtain ⟨w1, hq1, ha1, hwf1, hwt1, _⟩ := wfq_run pre (wfqFresh ws) _ (wfqFresh_policy ws) (WFQ.ainv_new ws) (WFQ.wf_new ws) hpre hat1
  obtain ⟨w2, hq2, hwf2, hcore⟩ := wfq_fair_core hq1 ha1 hwf1 mid hmid hat2 i j hall
  have hwi : WFQ.wt w1 i = wi := WFQ.wt_congr hwt1 i
  have hwj : WFQ.wt w1 j = wj := WFQ.wt_congr hwt1 j
  rw [hwi, hwj] at hcore
  have pi : 0 < wi := WFQ.wt_pos _ i
  have pj : 0 < wj := WFQ.wt_pos _ j
  obtain ⟨hr1, hr2⟩ := run_append (wfqFresh ws) pre mid
  have hsub : ∀ c ∈ pushesOf ((wfqFresh ws).run pre).2, c ∈ pushesOf ((wfqFresh ws).run (pre ++ mid)).2 := by
    intro c hc; rw [hr2, pushesOf_append]; exact List.mem_append_left _ hc
  have hq2' : ((wfqFresh ws).run (pre ++ mid)).1.policy = .wfq w2 := by rw [hr1]; exact hq2
  have bi1 := wfq_headLen_le ws pre hpre hq1 hwf1 i Li (fun c hc => hLi c (hsub c hc))
  have bj1 := wfq_headLen_le ws pre hpre hq1 hwf1 j Lj (fun c hc => hLj c (hsub c hc))
  have bi2 := wfq_headLen_le ws (pre ++ mid) (basic_append hpre hmid) hq2' hwf2 i Li hLi
  have bj2 := wfq_headLen_le ws (pre ++ mid) (basic_append hpre hmid) hq2' hwf2 j Lj hLj
  have mi : (max (WFQ.headLen w1 i) (WFQ.headLen w2 i) : Rat) / wi ≤ (Li : Rat) / wi :=
    div_le_div_of_nonneg_right (max_le (by exact_mod_cast bi1) (by exact_mod_cast bi2)) (le_of_lt pi)
  have mj : (max (WFQ.headLen w1 j) (WFQ.headLen w2 j) : Rat) / wj ≤ (Lj : Rat) / wj :=
    div_le_div_of_nonneg_right (max_le (by exact_mod_cast bj1) (by exact_mod_cast bj2)) (le_of_lt pj)
  linarith

/-- **WFQ fairness for every operation list — the bound the code really achieves.** As above, but
`pre` and `mid` are arbitrary lists of push / peek / pop: pushes may slip in between a `peek` and the
`pop` of the chunk it selected, as happens whenever `popPendingDataChunksToSend` stops on a full
window. If `D` bounds the weight-normalised size `len/weight` of every chunk pushed (on any stream),
then `|S_i/w_i − S_j/w_j| ≤ L_i/w_i + L_j/w_j + D`: the statement's bound plus one maximum-size chunk of
an arbitrary third stream, normalised by THAT stream's weight.

*Partial*: weaker than the property statement by the term `D`. The term is needed
(`C17_wfq_stated_bound_fails_with_stale_peek`); it is the lateness `WFQ.lam` the two streams carry
into the interval (`wfq_fair_lag_core` proves the bound with `max (lam i) (lam j)` in place of `D`),
which is 0 along atomic runs. -/
theorem C17_wfq_fair_partial (ws : AMap Nat) (pre mid : List Op) (hpre : Basic pre) (hmid : Basic mid)
    (i j : Nat) (Li Lj : Nat) (D : Rat)
    (hLi : ∀ c ∈ pushesOf ((wfqFresh ws).run (pre ++ mid)).2, c.sid = i → c.len ≤ Li)
    (hLj : ∀ c ∈ pushesOf ((wfqFresh ws).run (pre ++ mid)).2, c.sid = j → c.len ≤ Lj)
    (hD : ∀ c ∈ pushesOf ((wfqFresh ws).run (pre ++ mid)).2, (c.len : Rat) / WFQ.wt (WFQ.new ws : WFQ Rat) c.sid ≤ D)
    (hall : PQ.AllStates (fun q => q.backlogged i ∧ q.backlogged j) ((wfqFresh ws).run pre).1 mid) :
    let tr := (((wfqFresh ws).run pre).1.run mid).2
    let wi := WFQ.wt (WFQ.new ws : WFQ Rat) i
    let wj := WFQ.wt (WFQ.new ws : WFQ Rat) j
    |(served tr i : Rat) / wi - (served tr j : Rat) / wj| ≤ (Li : Rat) / wi + (Lj : Rat) / wj + D := by
  intro tr wi wj
  obtain ⟨hr1, hr2⟩ := run_append (wfqFresh ws) pre mid
  have hsub : ∀ c ∈ pushesOf ((wfqFresh ws).run pre).2, c ∈ pushesOf ((wfqFresh ws).run (pre ++ mid)).2 := by
    intro c hc; rw [hr2, pushesOf_append]; exact List.mem_append_left _ hc
  -- `i` is backlogged at the start of `mid`, so something was pushed and `D ≥ 0`
  obtain ⟨w0, hq0, _, hwf0, _⟩ := wfq_run_g pre (wfqFresh ws) _ (wfqFresh_policy ws) (WFQ.ginv_new ws) (WFQ.wf_new ws) hpre
  have hD0 : 0 ≤ D := by
    have hb := (PQ.AllStates.head hall).1
    have hne : w0.sq i ≠ [] := (backlogged_wfq hq0 i).mp hb
    cases hh : w0.sq i with
    | nil => exact absurd hh hne
    | cons x tl =>
      have hm := wfq_queued_mem_pushes ws pre hpre hq0 (s := i) (x := x) (by rw [hh]; simp)
      exact le_trans (WFQ.div_wt_nonneg _ _ _) (hD x.1 (hsub _ hm))
  obtain ⟨w1, hq1, hg1, hwf1, hl1, hwt1⟩ := wfq_run_linv D hD0 pre (wfqFresh ws) _ (wfqFresh_policy ws)
    (WFQ.ginv_new ws) (WFQ.wf_new ws) (WFQ.linv_new ws D) hpre (fun c hc => hD c (hsub c hc))
  obtain ⟨w2, hq2, hwf2, hcore⟩ := wfq_fair_lag_core hq1 hg1 hwf1 mid hmid i j hall
  have hwi : WFQ.wt w1 i = wi := WFQ.wt_congr hwt1 i
  have hwj : WFQ.wt w1 j = wj := WFQ.wt_congr hwt1 j
  rw [hwi, hwj] at hcore
  have pi : 0 < wi := WFQ.wt_pos _ i
  have pj : 0 < wj := WFQ.wt_pos _ j
  have hb := PQ.AllStates.head hall
  have li := WFQ.lam_le_of_linv hD0 hl1 ((backlogged_wfq hq1 i).mp hb.1)
  have lj := WFQ.lam_le_of_linv hD0 hl1 ((backlogged_wfq hq1 j).mp hb.2)
  have hq2' : ((wfqFresh ws).run (pre ++ mid)).1.policy = .wfq w2 := by rw [hr1]; exact hq2
  have bi1 := wfq_headLen_le ws pre hpre hq1 hwf1 i Li (fun c hc => hLi c (hsub c hc))
  have bj1 := wfq_headLen_le ws pre hpre hq1 hwf1 j Lj (fun c hc => hLj c (hsub c hc))
  have bi2 := wfq_headLen_le ws (pre ++ mid) (basic_append hpre hmid) hq2' hwf2 i Li hLi
  have bj2 := wfq_headLen_le ws (pre ++ mid) (basic_append hpre hmid) hq2' hwf2 j Lj hLj
  have mi : (max (WFQ.headLen w1 i) (WFQ.headLen w2 i) : Rat) / wi ≤ (Li : Rat) / wi :=
    div_le_div_of_nonneg_right (max_le (by exact_mod_cast bi1) (by exact_mod_cast bi2)) (le_of_lt pi)
  have mj : (max (WFQ.headLen w1 j) (WFQ.headLen w2 j) : Rat) / wj ≤ (Lj : Rat) / wj :=
    div_le_div_of_nonneg_right (max_le (by exact_mod_cast bj1) (by exact_mod_cast bj2)) (le_of_lt pj)
  have := max_le li lj
  linarith

/-! The statement's bound does NOT hold for all operation lists. Witness (three streams; weights
1, 3, 3; all chunks 3 bytes): stream 0 pushes one chunk (tag 3) and `peek` selects it; nothing is
popped (as when cwnd is full). Stream 1 now pushes four chunks: tags 1, 2, 3, 4 — below the selected
tag. The pop serves the stale selection, the virtual time jumps to 3. Stream 2 becomes backlogged
(tag 4). Streams 1 and 2 have equal weights and are both backlogged from here on, yet the next three
pops all serve stream 1: `|S_1/w_1 − S_2/w_2| = 3 > 2 = L/w_1 + L/w_2`. The same run with larger
numbers is `corpus/C17/known/wfq_stale_peek_three_streams.ops`, replayed on the Go code by the check. -/

private def ch (id sid len : Nat) : Chunk := ⟨id, sid, false, true, true, len⟩
private def wW : AMap Nat := [(0, 1), (1, 3), (2, 3)]
private def preW : List Op :=
  [.push (ch 0 0 3), .peek, .push (ch 1 1 3), .push (ch 2 1 3), .push (ch 3 1 3), .push (ch 4 1 3), .pop,
   .push (ch 5 2 3)]
private def midW : List Op := [.pop, .pop, .pop]

/-- evaluation of a concrete run over `Rat` by `norm_num` (kernel-checked; `decide` cannot reduce `Rat`) -/
macro "eval_run" : tactic => `(tactic|
  norm_num [wfqFresh, wW, preW, midW, ch, PQ.new, PQ.setInterleaving, PQ.run, PQ.step, PQ.push, PQ.peek, PQ.pop,
    PQ.policyPush, PQ.policyPeek, PQ.policyPop, WFQ.new, WFQ.push, WFQ.peek, WFQ.pop, WFQ.select, WFQ.selStep,
    WFQ.weightOf, WFQ.weightNat, WFQ.headOfSel, WFQ.wt, WFQ.sq, AMap.get, AMap.set, AMap.replace, AMap.insertSorted,
    AMap.erase, AMap.keys, gmax, Num.add, Num.div, Num.lt, Num.beq, Num.ofNat, Num.finite, popsOf, pushesOf, served,
    lenSum, PQ.AllStates, PQ.backlogged, Policy.streamQ, PQ.Atomic])

theorem C17_wfq_stated_bound_fails_with_stale_peek :
    ∃ (ws : AMap Nat) (pre mid : List Op) (i j Li Lj : Nat), Basic pre ∧ Basic mid ∧
      (∀ c ∈ pushesOf ((wfqFresh ws).run (pre ++ mid)).2, c.sid = i → c.len ≤ Li) ∧
      (∀ c ∈ pushesOf ((wfqFresh ws).run (pre ++ mid)).2, c.sid = j → c.len ≤ Lj) ∧
      PQ.AllStates (fun q => q.backlogged i ∧ q.backlogged j) ((wfqFresh ws).run pre).1 mid ∧
      ¬ (|(served (((wfqFresh ws).run pre).1.run mid).2 i : Rat) / WFQ.wt (WFQ.new ws : WFQ Rat) i -
          (served (((wfqFresh ws).run pre).1.run mid).2 j : Rat) / WFQ.wt (WFQ.new ws : WFQ Rat) j| ≤
        (Li : Rat) / WFQ.wt (WFQ.new ws : WFQ Rat) i + (Lj : Rat) / WFQ.wt (WFQ.new ws : WFQ Rat) j) := by
  refine ⟨wW, preW, midW, 1, 2, 3, 3, by unfold Basic; decide, by unfold Basic; decide, ?_, ?_, ?_, ?_⟩
  · eval_run
  · eval_run
  · eval_run; decide
  · have h1 : served (((wfqFresh wW).run preW).1.run midW).2 1 = 9 := by eval_run
    have h2 : served (((wfqFresh wW).run preW).1.run midW).2 2 = 0 := by eval_run
    have h3 : WFQ.wt (WFQ.new wW : WFQ Rat) 1 = 3 := by eval_run
    have h4 : WFQ.wt (WFQ.new wW : WFQ Rat) 2 = 3 := by eval_run
    rw [h1, h2, h3, h4]; norm_num

-- `C17_wfq_fair_atomic_partial` is not vacuous: the same pushes without the stale `peek` are an atomic
-- run in which streams 1 and 2 stay backlogged
private def preA : List Op :=
  [.push (ch 0 0 3), .push (ch 1 1 3), .push (ch 2 1 3), .push (ch 3 1 3), .push (ch 4 1 3), .pop,
   .push (ch 5 2 3), .push (ch 6 2 3)]
example : PQ.Atomic (wfqFresh wW) (preA ++ [.pop, .pop]) := by
  norm_num [preA]; eval_run
example : PQ.AllStates (fun q => q.backlogged 1 ∧ q.backlogged 2) ((wfqFresh wW).run preA).1 [.pop, .pop] := by
  norm_num [preA]; eval_run; decide

-- the theorems above are not vacuous: a run that fragments, switches mode and interleaves
private def exOps : List Op :=
  [.push ⟨0, 1, false, true, false, 5⟩, .push ⟨1, 1, false, false, true, 3⟩, .pop, .setil true, .pop, .setil true,
   .push ⟨2, 7, true, true, true, 4⟩, .peek, .pop]
example : popsOf ((PQ.new .rr : PQ Rat).run exOps).2 =
      [⟨0, 1, false, true, false, 5⟩, ⟨1, 1, false, false, true, 3⟩, ⟨2, 7, true, true, true, 4⟩] ∧
    ((PQ.new .rr : PQ Rat).run exOps).1.nChunks = 0 ∧ ((PQ.new .rr : PQ Rat).run exOps).1.interleaving = true := by
  decide


-- `C17_contiguous` is not vacuous: two fragmented messages (ordered on stream 1, unordered on stream 2)
-- pushed one after the other, pops in between: the unordered one overtakes, neither is split
private def exMsgOps : List Op :=
  [.push ⟨0, 1, false, true, false, 5⟩, .push ⟨1, 1, false, false, true, 3⟩, .pop,
   .push ⟨2, 2, true, true, false, 4⟩, .push ⟨3, 2, true, false, true, 4⟩, .pop, .pop, .pop]
example : popsOf ((PQ.new .none : PQ Rat).run exMsgOps).2 =
    [⟨0, 1, false, true, false, 5⟩, ⟨1, 1, false, false, true, 3⟩, ⟨2, 2, true, true, false, 4⟩, ⟨3, 2, true, false, true, 4⟩] := by
  decide

-- `C17_rr_round` / `C17_rr_no_starvation` are not vacuous: streams 1, 2, 3 backlogged; between two
-- services of stream 1 streams 2 and 3 are served once each; chunk 5 (depth 1 of stream 3, N = 4) is
-- popped within (1+1)·4 pops
private def exRRPre : List Op :=
  [.push ⟨0, 1, false, true, true, 1⟩, .push ⟨1, 1, false, true, true, 1⟩, .push ⟨2, 1, false, true, true, 1⟩,
   .push ⟨3, 2, false, true, true, 1⟩, .push ⟨4, 2, false, true, true, 1⟩,
   .push ⟨6, 3, false, true, true, 1⟩, .push ⟨5, 3, false, true, true, 1⟩, .push ⟨7, 3, false, true, true, 1⟩]
example : popsOf ((((rrFresh : PQ Rat).run exRRPre).1.step .pop).1.run [.pop, .peek, .pop, .pop]).2 =
      [⟨3, 2, false, true, true, 1⟩, ⟨6, 3, false, true, true, 1⟩, ⟨1, 1, false, true, true, 1⟩] ∧
    PQ.AllStates (fun q => q.backlogged 1 ∧ q.backlogged 2) (((rrFresh : PQ Rat).run exRRPre).1.step .pop).1 [.pop, .peek, .pop] := by
  decide

/-- Negotiation half: in every run of the handshake model (any loss, duplication, reordering, timer expiry,
all option combinations) an established endpoint uses I-DATA / I-FORWARD-TSN framing exactly when BOTH sides
enabled interleaving, and DATA / FORWARD-TSN otherwise — so both ends use the same kind. -/
theorem C17_kind_as_negotiated (ilA zcA ilB zcB : Bool) (ops : List Hs.Op) :
    let s := (Hs.Sys.init ilA zcA ilB zcB).run ops
    (s.a.st = Hs.stEstablished → s.a.uil = (ilA && ilB) ∧ s.a.uifwd = (ilA && ilB) ∧ s.a.ufwd = !(ilA && ilB)) ∧
    (s.b.st = Hs.stEstablished → s.b.uil = (ilA && ilB) ∧ s.b.uifwd = (ilA && ilB) ∧ s.b.ufwd = !(ilA && ilB)) := by
  intro s
  have h := Hs.run_inv ilA zcA ilB zcB ops
  constructor
  · intro he
    have := Hs.established_flags _ _ _ _ _ _ h.a he
    exact ⟨this.1, this.2.1, this.2.2.1⟩
  · intro he
    have := Hs.established_flags _ _ _ _ _ _ h.b he
    rw [Bool.and_comm ilB ilA] at this
    exact ⟨this.1, this.2.1, this.2.2.1⟩

end C17
