import SctpVerif.Proofs.Teardown.Results
import SctpVerif.Model.ConcFacts
/-!
# C09 — Close, Abort or transport failure at any moment unblocks callers, leaks nothing

Property theorems only. **What they are about.** `Conc.step` (`Model/Teardown.lean`) is a hand-written transition system of
the goroutines of one association — `readLoop`, `writeLoop`, `timerLoop`, a timer callback, the constructor call and a
LIST of API callers of ARBITRARY length (reads per stream, blocking writes, `AcceptStream`, `Shutdown`, `Close`, `Abort`) —
over the channels, the once-guards, the condition variables and `a.lock`. Its choreography is a parameter; the one used
here, `Conc.choreoOfFacts`, is READ OFF the translator's facts, which are regenerated from /repo on every run: the ordered
statements of `readLoop`'s deferred block, of `close()`, `Close()` and `Abort()`, the arms of the selects of
`completeHandshake`, `writeLoop`, `timerLoop`, `Shutdown`, the constructors and the blocking-write wait, Broadcast vs
Signal in `unregisterStream` / `onInboundStreamReset`, the write-error path. `C09_choreography_matches_code` decides that it
is the choreography the proofs were made for; drop `close(a.acceptCh)` from the defer, an arm from a select, or turn a
Broadcast into a Signal and that theorem — hence every theorem below — no longer holds (the `example`s at the end show the
model really gets stuck then).

All theorems quantify over every reachable state: any number of callers, any interleaving of the processes, any behaviour
of the environment (packets, timer expiries, new calls, normal completions, transport read / write failure, context
cancellation — each spending one unit of an arbitrary finite `fuel`).

**What this is not.** Real goroutine interleavings, `sync.Mutex/Cond`, channel and `sync.Once` semantics are ASSUMED as
modelled; the harness samples them (teardown scenarios under `testing/synctest`: every goroutine must be gone when the
bubble ends). "Promptly" is "without any further help from the environment". Model assumptions: one constructor call per
association, API calls only after it returned, `completeHandshake` attempted at most once, stream identifiers not reused
after a reset. A critical section without a blocking operation is one atomic step (`C20_interleaving_refines_sequence`).
-/
namespace C09
open Conc

/-- **The model's choreography is the code's.** -/
theorem C09_choreography_matches_code : choreoOfFacts = Choreo.expected := by decide

/-- states reachable from a fresh association with any list of not-yet-issued calls -/
def Reachable (s : St) : Prop :=
  ∃ (cs : List Caller) (fuel : Nat) (client : Bool) (as : List Act),
    (∀ c ∈ cs, ∃ k, c = .idle k) ∧ run choreoOfFacts { callers := cs, fuel := fuel, cn := .sel client } as = some s

theorem reachable_inv {s : St} (h : Reachable s) : Inv s := by
  obtain ⟨cs, fuel, client, as, hcs, hrun⟩ := h
  rw [C09_choreography_matches_code] at hrun
  exact inv_run _ s as (inv_init cs fuel client hcs) hrun

/-- **(a) No stuck state.** In every reachable state in which a teardown has been set off (the transport fails or has been
closed, a `Close`/`Abort` call or the context-cancelled constructor is under way, an inbound ABORT or SHUTDOWN-COMPLETE is
being handled, `writeLoop` hit a write error or sent its last packet): either no goroutine of the package is left and no
call is pending, or some process of the package can take a step by itself. -/
theorem C09_no_stuck_state (s : St) (hr : Reachable s) (ht : s.triggered = true) : s.stuck choreoOfFacts = false := by
  rw [C09_choreography_matches_code]
  exact no_stuck s (reachable_inv hr) ht

/-- **(b) Termination.** `mu` (weighted program counters + 40 × fuel) strictly decreases with EVERY step, so a run from `s`
has at most `mu s` steps; and a teardown stays set off. With (a): every maximal run from a triggered state ends, after at
most `mu s` steps, in a state where all goroutines have stopped and every call has returned — under any scheduler, in
particular every weakly fair one. -/
theorem C09_terminates (s s' : St) (as : List Act) (hr : Reachable s) (ht : s.triggered = true)
    (hrun : run choreoOfFacts s as = some s') :
    as.length + mu s' ≤ mu s ∧ s'.triggered = true ∧ s'.stuck choreoOfFacts = false ∧
    ((∀ a ∈ procActs s', step choreoOfFacts s' a = none) → s'.done = true) := by
  have hi := reachable_inv hr
  rw [C09_choreography_matches_code] at hrun ⊢
  have hi' := inv_run s s' as hi hrun
  have ht' := trig_run s s' as hi ht hrun
  refine ⟨run_length_le s s' as hi hrun, ht', no_stuck s' hi' ht', ?_⟩
  intro hall
  have := no_stuck s' hi' ht'
  simp only [St.stuck, Bool.and_eq_false_imp, Bool.not_eq_eq_eq_not, Bool.not_true] at this
  cases hd : s'.done
  · have h2 := this hd
    have : ((procActs s').all fun a => (step E s' a).isNone) = true := by
      simp only [List.all_eq_true, Option.isNone_iff_eq_none]; exact hall
    rw [this] at h2; cases h2
  · rfl

/-- **(c) Results.** When the package lets a pending call return, the result is: a blocked read — the stream's read error
(the close error `readLoop` left with, or EOF if the peer had reset the stream), never success; a write — the
not-established error once the association is closed or shutting down; a blocked blocking-write that is released —
re-tests the state (and then fails as before) or hits its deadline; `AcceptStream` — EOF; `Shutdown` begun after the
end — its non-established error; a `Shutdown` that is already waiting — `nil` ONLY if the peer's SHUTDOWN-ACK or
SHUTDOWN-COMPLETE had been handled (`sdAcked`), otherwise the shutdown-incomplete error (or the context's error).
See `C09_shutdown_interrupted`. -/
theorem C09_results (s s' : St) (i arm : Nat) (c : Caller) (k : Kind) (r : Res)
    (hc : s.callers[i]? = some c) (h : step choreoOfFacts s (.call i arm) = some s') (hf : s'.callers[i]? = some (.fin k r)) :
    match c with
    | .rdWait sid _ => r = readRes s sid ∧ r.isFailure = true
    | .wrBegin => (r = .ok ∧ s.notEst = false) ∨ (r = .err .notEstablished ∧ s.notEst = true)
    | .wrWait => r = .err .ctx
    | .accWait => r = .eof
    | .shBegin => r = .err .shutdownNonEstablished
    | .shWait => (r = .nil ∧ s.cw = true ∧ s.sdAcked = true) ∨ (r = .err .shutdownIncomplete ∧ s.cw = true ∧ s.sdAcked = false) ∨ r = .err .ctx
    | .cl _ => r = .ok
    | .ab _ _ => r = .ok
    | _ => False := by
  rw [C09_choreography_matches_code] at h
  exact call_result s s' i arm c k r hc h hf

/-- **A Shutdown that a teardown cuts short returns an error.** The completion flag is raised by nothing but the handling
of the peer's SHUTDOWN-ACK or SHUTDOWN-COMPLETE; a waiting `Shutdown` that returns while the flag is down — i.e. whenever
Close, Abort, an inbound ABORT or a transport failure ended the association before the peer acknowledged the SHUTDOWN —
returns an error (shutdown-incomplete, or the context's), never `nil`. -/
theorem C09_shutdown_interrupted :
    (∀ s s' a, step choreoOfFacts s a = some s' → s'.sdAcked = true →
      s.sdAcked = true ∨ (a = .rlHandle ∧ (s.rl = .handling .shutdownAck ∨ s.rl = .handling .shutdownComplete))) ∧
    (∀ s s' i arm r, s.callers[i]? = some .shWait → s.sdAcked = false → step choreoOfFacts s (.call i arm) = some s' →
      s'.callers[i]? = some (.fin .sh r) → r.isFailure = true) := by
  rw [C09_choreography_matches_code]
  refine ⟨fun s s' a h hs => sdAcked_only_by_peer s s' a h hs, ?_⟩
  intro s s' i arm r hc hsa h hf
  have := call_result s s' i arm _ .sh r hc h hf
  simp only at this
  rcases this with ⟨_, _, h1⟩ | ⟨rfl, _⟩ | rfl
  · rw [hsa] at h1; cases h1
  · rfl
  · rfl

/-- the constructor: once a teardown has closed `readLoopCloseCh` it returns "closed before connected", a cancelled
context makes it run `Close()` and return the context's error; only the hand-over from `completeHandshake` yields success
or the handshake error -/
theorem C09_results_constructor (s : St) (hr : Reachable s) (r : Res) (h : s.cn = .fin r) :
    (hsRes r = true ∧ s.hsTried = true) ∨ (s.rc = true ∧ (r = .err .closedBeforeConn ∨ (r = .err .ctx ∧ s.conn = true))) := by
  have hi := reachable_inv hr
  cases hh : hsRes r
  · exact Or.inr (hi.cnRc r h hh)
  · exact Or.inl ⟨rfl, (hi.cnHs r h hh).1⟩

/-- regression for the former finding K09-shutdown-nil (fixed in /repo 52b27be): two callers — a reader and a `Shutdown` —
on an established association, the transport fails; the reader gets the transport error and `Shutdown`, whose sequence
never ran, now gets the shutdown-incomplete error instead of nil … -/
theorem C09_shutdown_error_regression :
    (run choreoOfFacts { fuel := 9, callers := [.idle (.rd 1), .idle .sh] }
      [.envPacket (.hsFinal false), .rlHandle, .rlCH 0, .envStart 0, .envStart 1, .call 1 0, .envReadFail,
       .rlReadErr, .rlDefer, .call 1 0, .rlDefer, .rlDefer, .rlDefer, .call 0 0]).map (·.callers) =
    some [.fin (.rd 1) (.err .transport), .fin .sh (.err .shutdownIncomplete)] := by
  rw [C09_choreography_matches_code]; decide

/-- … while a shutdown the peer has acknowledged still ends with nil (non-vacuity of the nil branch) -/
example :
    (run Choreo.expected { fuel := 9, callers := [.idle .sh] }
      [.envPacket (.hsFinal false), .rlHandle, .rlCH 0, .envStart 0, .call 0 0, .envPacket .shutdownAck, .rlHandle,
       .envPacket .shutdownComplete, .rlHandle, .call 0 0]).map (·.callers) = some [.fin .sh .nil] := by decide

/-- **(d) No write after close.** In every reachable state at most ONE `netConn.Write` has been issued after
`netConn.Close()` (the one that was in flight or next in `writeLoop`'s batch), and after it `writeLoop` is on its exit
path; that write fails (the transport is closed), sends nothing and ends the loop. -/
theorem C09_no_write_after_close (s : St) (hr : Reachable s) :
    s.lateWrites ≤ 1 ∧ (s.lateWrites = 1 → s.wl = .exit ∨ s.wl = .done) ∧
    (∀ n ok ab s', s.wl = .write (n+1) ok ab → s.conn = true → step choreoOfFacts s .wlWrite = some s' → s'.wl = .exit) := by
  have hi := reachable_inv hr
  refine ⟨?_, ?_, ?_⟩
  · rcases hi.lw with h | h <;> omega
  · intro h1; rcases hi.lw with h | h
    · omega
    · exact h.2
  · intro n ok ab s' hw hc hs
    rw [C09_choreography_matches_code] at hs
    exact (write_after_close_fails s s' n ok ab hw hc hs).1

/-- **(e) Close is idempotent.** However many `Close` / `Abort` calls, context cancellations, inbound ABORTs and write
errors race, `netConn.Close()` is called at most once (exactly once iff the transport counts as closed), and a `Close`
call on an association that is already closed runs through its statements without waiting, returns, and leaves the shared
state exactly as it was. -/
theorem C09_close_idempotent (s : St) (hr : Reachable s) :
    s.connCloses = (if s.conn then 1 else 0) ∧
    (∀ i, Closed s → s.callers[i]? = some (.cl 0) →
      run choreoOfFacts s (List.replicate 6 (.call i 0)) = some (setCaller s i (.fin .cl .ok))) := by
  refine ⟨(reachable_inv hr).cc, ?_⟩
  intro i hc hi
  rw [C09_choreography_matches_code]
  exact close_again s i hc hi

/-- **(f) An ABORT carries its cause to the peer's readers.** Sender: after `Abort(cause)` has stored the cause, the next
gather of `writeLoop` puts exactly that cause on the wire as a lone terminal packet. Receiver: handling an inbound ABORT
with cause `c` closes the association and makes `abort c` the close error `readLoop` leaves with; that error never
changes afterwards; and every read that the teardown releases on a stream the peer had not reset before returns exactly
it. (That the cause string survives encoding and decoding is C12's round trip.) -/
theorem C09_abort_carries_cause :
    (∀ s s' n f c, s.willAbort = some c → step choreoOfFacts s (.wlGather n f) = some s' →
      s'.wireAbort = some c ∧ s'.wl = .write 1 false true) ∧
    (∀ s s' c, s.rl = .handling (.abort c) → step choreoOfFacts s .rlHandle = some s' →
      s'.closeErr = some (.abort c) ∧ s'.rl = .defer 0) ∧
    (∀ s s' a, leaving s = true → step choreoOfFacts s a = some s' → s'.closeErr = s.closeErr) ∧
    (∀ s s' i arm sid w c r, s.callers[i]? = some (.rdWait sid w) → s.closeErr = some (.abort c) → s.gone.contains sid = false →
      step choreoOfFacts s (.call i arm) = some s' → s'.callers[i]? = some (.fin (.rd sid) r) → r = .err (.abort c)) := by
  rw [C09_choreography_matches_code]
  refine ⟨?_, ?_, ?_, ?_⟩
  · intro s s' n f c h1 h2
    have := gather_abort s s' n f c h1 h2
    exact ⟨this.1, this.2.1⟩
  · intro s s' c h1 h2
    have := handle_abort s s' c h1 h2
    exact ⟨this.1, this.2.1⟩
  · intro s s' a h1 h2
    exact closeErr_stable s s' a h1 h2
  · intro s s' i arm sid w c r h1 h2 h3 h4 h5
    have := (call_result s s' i arm _ (.rd sid) r h1 h4 h5).1
    have h3' : sid ∉ s.gone := by simpa using h3
    simp [readRes, h2, h3'] at this
    exact this

/-- **(g) The terminal read error is sticky.** Once `readLoop` has unregistered the streams with its close error, no step
of any process and no event of the environment — in particular no read deadline that was armed earlier and expires only
now (`envDeadline`), while no read is blocked — changes what a read on any stream returns (the close error, or EOF for a
stream the peer had reset), and no stream ever loses its terminal error (`lost = []`); so a reader that comes back later,
whatever deadline it sets first, gets that error at once (`C09_no_stuck_state`). Tie: the helper goroutine of
`SetReadDeadline` stores the deadline error only `if s.readErr == nil` (`Choreo.dlKeepsTerminal`, read off `Gen.lockEvents`). -/
theorem C09_terminal_error_sticky (s s' : St) (a : Act) (hr : Reachable s) (hu : s.unreg = true)
    (h : step choreoOfFacts s a = some s') :
    s'.unreg = true ∧ s'.lost = [] ∧ ∀ sid, readRes s' sid = readRes s sid := by
  rw [C09_choreography_matches_code] at h
  obtain ⟨h1, h2, h3, h4⟩ := terminal_sticky s s' a (reachable_inv hr) hu h
  exact ⟨h1, h4, fun sid => by simp [readRes, h2, h3]⟩

def idleDeadlineRun (ch : Choreo) : Option St :=
  (run ch { fuel := 9, callers := [.idle (.rd 1)] }
    [.envPacket (.hsFinal false), .rlHandle, .rlCH 0, .envPacket (.abort "why"), .rlHandle]).map fun s =>
  let t := runGreedy ch 40 s                        -- the teardown runs to its end; nobody is reading
  match run ch t [.envDeadline 1, .envStart 0] with -- the old deadline expires; the application reads again
  | some u => runGreedy ch 5 u
  | none => t

/-- a deadline armed while nobody reads, peer ABORT, late expiry, then a read: it returns the abort cause … -/
example : ((idleDeadlineRun Choreo.expected).map fun t => (t.done, t.callers)) =
    some (true, [.fin (.rd 1) (.err (.abort "why"))]) := by decide

/-- … and if the helper stored the deadline error unconditionally, the reader would be parked for ever -/
example : ((idleDeadlineRun { Choreo.expected with dlKeepsTerminal := false }).map fun t =>
    (t.stuck { Choreo.expected with dlKeepsTerminal := false }, t.callers)) = some (true, [.rdWait 1 true]) := by decide

/-! ## non-vacuity, and what the tie buys -/

/-- the context-cancel scenario: the client's context is cancelled while the COOKIE-ACK is being processed (the handler
sits in `completeHandshake` holding `a.lock`, nobody receives). With the code's choreography everything ends. -/
example :
    ((run Choreo.expected { fuel := 10 } [.envCtxCancel, .cn 1, .envPacket (.hsFinal false), .rlHandle]).map fun s =>
      let t := runGreedy Choreo.expected 60 s
      (s.triggered, s.lock, t.done, t.cn)) = some (true, some .rlCH, true, .fin (.err .ctx)) := by decide

/-- … without the `closeWriteLoopCh` arm in `completeHandshake` the same schedule deadlocks: the handler keeps `a.lock`
forever, `Close()` waits for `readLoop` forever -/
example :
    ((run { Choreo.expected with chCw := false } { fuel := 10 } [.envCtxCancel, .cn 1, .envPacket (.hsFinal false), .rlHandle]).map fun s =>
      let t := runGreedy { Choreo.expected with chCw := false } 60 s
      (t.done, t.stuck { Choreo.expected with chCw := false }, t.rl, t.cn)) = some (false, true, .inCH false, .closing 4) := by decide

def twoReaders : Option St :=
  run Choreo.expected { fuel := 20, callers := [.idle (.rd 1), .idle (.rd 1), .idle .acc] }
    [.envPacket (.hsFinal false), .rlHandle, .rlCH 0, .envStart 0, .envStart 1, .envStart 2, .envReadFail]

/-- two readers on one stream and an `AcceptStream`; transport failure: all three return -/
example : (twoReaders.map fun s => let t := runGreedy Choreo.expected 60 s; (t.done, t.callers)) =
    some (true, [.fin (.rd 1) (.err .transport), .fin (.rd 1) (.err .transport), .fin .acc .eof]) := by decide

/-- … with Signal instead of Broadcast in `unregisterStream` the second reader sleeps forever -/
example : (twoReaders.map fun s => let t := runGreedy { Choreo.expected with unregWake := .one } 60 s
    (t.stuck { Choreo.expected with unregWake := .one }, t.callers[1]?)) = some (true, some (.rdWait 1 false)) := by decide

/-- … and without `close(a.acceptCh)` in the deferred block `AcceptStream` never returns -/
example : (twoReaders.map fun s =>
    let m := { Choreo.expected with deferProg := [.closeCw, .lockA, .setClosed, .unregAll, .unblockWrites, .unlockA, .closeRc] }
    let t := runGreedy m 60 s
    (t.stuck m, t.callers[2]?)) = some (true, some .accWait) := by decide

end C09
