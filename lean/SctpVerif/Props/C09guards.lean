import SctpVerif.Gen.Facts
/-!
# C09 — state guards of the code, pinned

`Gen.stateTests` is REGENERATED from /repo on every run by the translator (`go/extract/facts_state.go`): per function,
every comparison of the association state with a state constant, every `case` over state constants and every `setState`
call, in source order. This file pins that list for the places that move the association to `closed`.
The hand-written L0 models mirror exactly these guards; the correspondence harnesses compare behaviour. A change of a guard
in the code breaks this obligation at once (a syntactic tie: a harmless rewrite breaks it too — then the expectation here is
to be updated after checking the models), and the harness jobs of C09 look for a concrete failing input.
-/
namespace C09

theorem C09_state_guards_pinned :
    Gen.stateTests.filter (fun p => ["Association.close", "Association.readLoop", "Association.writeLoop"].contains p.1) =
    [("Association.close", ["setState closed"]),
     ("Association.readLoop", ["setState closed"]),
     ("Association.writeLoop", ["setState closed"])] := by decide

end C09
