import SctpVerif.Proofs.Handshake
/-!
# C04 — handshake reaches agreement under packet faults; stale handshake packets are harmless

Property theorems only, about the L0 model `Hs` (Model/Handshake.lean), which the direct-drive
correspondence `TestVerifHandshake` replays line by line against two real associations.
`ops : List Op` is an arbitrary interleaving of: either side starting, delivering ANY packet
ever sent by either side (so loss, duplication, reordering and arbitrary delay are all
included), and T1-init / T1-cookie expiries.
-/
namespace C04
open Hs

/-- the model's state numbers are the code's (translator-generated constants) -/
theorem C04_state_constants :
    stClosed = Gen.closed ∧ stCookieWait = Gen.cookieWait ∧ stCookieEchoed = Gen.cookieEchoed ∧
    stEstablished = Gen.established := by decide

/-- Agreement (safety, every fault schedule, both start orders, all 16 option combinations):
whenever an endpoint is established it uses interleaving exactly when both sides enabled it, the
forward-TSN variant matches, and it sends zero checksums only if the peer declared them acceptable. -/
theorem C04_agreement (ilA zcA ilB zcB : Bool) (ops : List Op) :
    let s := (Sys.init ilA zcA ilB zcB).run ops
    (s.a.st = stEstablished →
      s.a.uil = (ilA && ilB) ∧ s.a.uifwd = (ilA && ilB) ∧ s.a.ufwd = !(ilA && ilB) ∧ (s.a.sendZero = true → zcB = true)) ∧
    (s.b.st = stEstablished →
      s.b.uil = (ilA && ilB) ∧ s.b.uifwd = (ilA && ilB) ∧ s.b.ufwd = !(ilA && ilB) ∧ (s.b.sendZero = true → zcA = true)) := by
  intro s
  have h := run_inv ilA zcA ilB zcB ops
  refine ⟨fun he => established_flags _ _ _ _ _ _ h.a he, fun he => ?_⟩
  have := established_flags _ _ _ _ _ _ h.b he
  rwa [Bool.and_comm ilB ilA] at this

/-- both established ⇒ both use the same framing -/
theorem C04_same_framing (ilA zcA ilB zcB : Bool) (ops : List Op) :
    let s := (Sys.init ilA zcA ilB zcB).run ops
    s.a.st = stEstablished → s.b.st = stEstablished → s.a.uil = s.b.uil ∧ s.a.uifwd = s.b.uifwd ∧ s.a.ufwd = s.b.ufwd := by
  intro s ha hb
  have h := C04_agreement ilA zcA ilB zcB ops
  obtain ⟨a1, a2, a3, -⟩ := h.1 ha
  obtain ⟨b1, b2, b3, -⟩ := h.2 hb
  exact ⟨a1.trans b1.symm, a2.trans b2.symm, a3.trans b3.symm⟩

/-- what negotiation and data transfer depend on -/
def core (e : Ep) : Nat × Bool × Bool × Bool × Bool × Bool × Bool × Bool × Bool :=
  (e.st, e.pil, e.pfwd, e.pifwd, e.sendZero, e.uil, e.ufwd, e.uifwd, e.hasCookie)

/-- Stale or duplicated handshake packets never disturb an established endpoint: ANY INIT, INIT-ACK,
COOKIE-ECHO or COOKIE-ACK (arbitrary field values, with or without checksum) leaves it unchanged;
the only possible reply is a COOKIE-ACK to a COOKIE-ECHO carrying its own cookie. -/
theorem C04_stale_harmless (e : Ep) (p : Pkt) (he : e.st = stEstablished) :
    (handle e p).1 = e ∧
    ((handle e p).2 = [] ∨ (∃ c, p.msg = .cookieEcho c ∧ c = e.id ∧ (handle e p).2 = [.cookieAck])) := by
  unfold handle
  split
  · exact ⟨rfl, Or.inl rfl⟩
  · split
    · simp [handleInit, he, stEstablished, stClosed, stCookieWait, stCookieEchoed]
    · simp [handleInitAck, he, stEstablished, stCookieWait]
    · rename_i c hm
      unfold handleCookieEcho
      split
      · exact ⟨rfl, Or.inl rfl⟩
      · simp only [he, beq_self_eq_true, ↓reduceIte]
        split
        · exact ⟨rfl, Or.inl rfl⟩
        · rename_i hc
          exact ⟨rfl, Or.inr ⟨c, hm, by simpa using hc, rfl⟩⟩
    · simp [handleCookieAck, he, stEstablished, stCookieEchoed]

/-- established is absorbing for the handshake machinery: no further handshake event (delivery of any old
packet, timer expiry, queued retransmission, write-loop pass, a second start) takes an endpoint out of it or
changes anything it negotiated. -/
theorem C04_established_stable (s : Sys) (op : Op) :
    (s.a.st = stEstablished → core (s.step op).a = core s.a) ∧
    (s.b.st = stEstablished → core (s.step op).b = core s.b) := by
  have hflush : ∀ (e : Ep) (m : List Msg), core (flush e m).1 = core e := by intro e m; rfl
  have ht1i : ∀ e : Ep, (t1Init e).1 = e := by intro e; unfold t1Init; split <;> rfl
  have ht1c : ∀ e : Ep, (t1Cookie e).1 = e := by intro e; unfold t1Cookie; split <;> rfl
  constructor
  · intro he
    cases op with
    | start x =>
      cases x
      · simp [Sys.step, Sys.ep, he, stEstablished, stClosed]
      · by_cases hb : (s.b.st == stClosed) = true <;> simp [Sys.step, Sys.ep, Sys.put, hb]
    | deliver x i =>
      cases x
      · simp only [Sys.step, Sys.hist, Sys.ep, Sys.put]; split <;> rfl
      · simp only [Sys.step, Sys.hist, Sys.ep, Sys.put, Bool.not_true, Bool.false_eq_true, ↓reduceIte]
        split
        · rfl
        · rw [hflush, (C04_stale_harmless s.a _ he).1]
    | t1Init x =>
      cases x
      · simp only [Sys.step, Sys.ep, Sys.put, Bool.false_eq_true, ↓reduceIte]; rw [hflush, ht1i]
      · rfl
    | t1Cookie x =>
      cases x
      · simp only [Sys.step, Sys.ep, Sys.put, Bool.false_eq_true, ↓reduceIte]; rw [hflush, ht1c]
      · rfl
    | t1Queue x c =>
      cases x
      · cases c
        · have := ht1i s.a; simp [Sys.step, Sys.ep, Sys.put, core, this]
        · have := ht1c s.a; simp [Sys.step, Sys.ep, Sys.put, core, this]
      · rfl
    | gather x => cases x <;> rfl
  · intro he
    cases op with
    | start x =>
      cases x
      · by_cases ha : (s.a.st == stClosed) = true <;> simp [Sys.step, Sys.ep, Sys.put, ha]
      · simp [Sys.step, Sys.ep, he, stEstablished, stClosed]
    | deliver x i =>
      cases x
      · simp only [Sys.step, Sys.hist, Sys.ep, Sys.put, Bool.not_false, ↓reduceIte, Bool.false_eq_true]
        split
        · rfl
        · rw [hflush, (C04_stale_harmless s.b _ he).1]
      · simp only [Sys.step, Sys.hist, Sys.ep, Sys.put]; split <;> rfl
    | t1Init x =>
      cases x
      · rfl
      · simp only [Sys.step, Sys.ep, Sys.put, ↓reduceIte]; rw [hflush, ht1i]
    | t1Cookie x =>
      cases x
      · rfl
      · simp only [Sys.step, Sys.ep, Sys.put, ↓reduceIte]; rw [hflush, ht1c]
    | t1Queue x c =>
      cases x
      · rfl
      · cases c
        · have := ht1i s.b; simp [Sys.step, Sys.ep, Sys.put, core, this]
        · have := ht1c s.b; simp [Sys.step, Sys.ep, Sys.put, core, this]
    | gather x => cases x <;> rfl

/-- Reachability (non-vacuity and the fault-free liveness case): with no faults the four-packet
exchange establishes both sides, for every option combination, client/server … -/
theorem C04_fault_free_establishes (ilA zcA ilB zcB : Bool) :
    let s := (Sys.init ilA zcA ilB zcB).run [.start false, .deliver false 0, .deliver true 0, .deliver false 1, .deliver true 1]
    s.a.st = stEstablished ∧ s.b.st = stEstablished := by
  cases ilA <;> cases zcA <;> cases ilB <;> cases zcB <;> decide

/-- … and when both sides start as clients (crossed INITs). -/
theorem C04_both_clients_establish (ilA zcA ilB zcB : Bool) :
    let s := (Sys.init ilA zcA ilB zcB).run
      [.start false, .start true, .deliver false 0, .deliver true 0, .deliver false 1, .deliver true 1,
       .deliver false 2, .deliver true 2, .deliver false 3, .deliver true 3]
    s.a.st = stEstablished ∧ s.b.st = stEstablished := by
  cases ilA <;> cases zcA <;> cases ilB <;> cases zcB <;> decide

/-- A lost packet is recovered by the retransmission timers: INIT lost once, INIT-ACK lost once,
COOKIE-ECHO lost once, COOKIE-ACK lost once — still established on both sides. -/
theorem C04_recovers_from_single_losses (ilA zcA ilB zcB : Bool) :
    let s := (Sys.init ilA zcA ilB zcB).run
      [.start false, .t1Init false, .deliver false 1, .t1Init false, .deliver false 2, .deliver true 1,
       .t1Cookie false, .deliver false 4, .t1Cookie false, .deliver false 5, .deliver true 3]
    s.a.st = stEstablished ∧ s.b.st = stEstablished := by
  cases ilA <;> cases zcA <;> cases ilB <;> cases zcB <;> decide

/-- **No handshake timer survives the handshake.** For every run (any interleaving of starts, deliveries of any packet ever
sent, T1 expiries, delayed write-loop passes) and both endpoints: T1-init runs only in COOKIE-WAIT and T1-cookie only in
COOKIE-ECHOED; in particular an ESTABLISHED endpoint has neither running — also when it was established directly from
COOKIE-WAIT by the peer's COOKIE-ECHO (crossed INITs). A T1 timer left running would exhaust its retry budget minutes later
and fail the "connect" of an association that is in use. The harness logs `isRunning()` of both timers after every step. -/
theorem C04_established_no_t1 (ilA zcA ilB zcB : Bool) (ops : List Op) :
    let s := (Sys.init ilA zcA ilB zcB).run ops
    (∀ x, ((s.ep x).t1i = true → (s.ep x).st = stCookieWait) ∧ ((s.ep x).t1c = true → (s.ep x).st = stCookieEchoed)) ∧
    (∀ x, (s.ep x).st = stEstablished → (s.ep x).t1i = false ∧ (s.ep x).t1c = false) := by
  intro s
  have h := run_tinv _ ops (init_tinv ilA zcA ilB zcB)
  refine ⟨fun x => ep_tinv h x, fun x hx => ?_⟩
  obtain ⟨h1, h2⟩ := ep_tinv h x
  constructor
  · cases ht : (s.ep x).t1i with
    | false => rfl
    | true => have := h1 ht; rw [hx] at this; exact absurd this (by decide)
  · cases ht : (s.ep x).t1c with
    | false => rfl
    | true => have := h2 ht; rw [hx] at this; exact absurd this (by decide)

-- non-vacuity (test): crossed INITs, B's INIT-ACK never reaches A: A is established directly from COOKIE-WAIT (T1-init running)
-- by B's COOKIE-ECHO, and its T1-init is stopped
example :
    let s := (Sys.init true false true false).run [.start false, .start true, .deliver false 0, .deliver true 0, .deliver false 1, .deliver true 2]
    (s.a.st, s.a.t1i, s.a.t1c, s.b.st, s.b.t1i, s.b.t1c) = (stEstablished, false, false, stCookieEchoed, false, true) := by decide

end C04
