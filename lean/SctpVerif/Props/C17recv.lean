import SctpVerif.Proofs.Receiver.Total
/-!
# C17 (negotiation half, receive side) — a chunk of the wrong kind is answered with a protocol-violation ABORT

Property theorems only, about the L0 model `Model/Receiver.lean` (tied by `TestVerifAssocReceiver`; the
executable predicate on the real association checks the ABORT flag after every wrong-kind chunk and cause
code 13 in the ABORT that `gatherOutbound` then produces). The decision logic of the heads of `handleData`,
`handleForwardTSN`, `handleIForwardTSN` is the translator-generated `Gen.data_wrongKind` plus the model's
literal copies of the two FORWARD-TSN guards.
-/
namespace C17
open Gen Receiver

/-- ✱ In a state that receives data, a DATA chunk while interleaving was negotiated, or an I-DATA chunk while
it was not, sets the ABORT flag and does nothing else: no TSN is accepted, nothing reaches a stream, no
acknowledgement is scheduled. Likewise FORWARD-TSN under interleaving and I-FORWARD-TSN without negotiated
support, in every state. -/
theorem C17_wrong_kind_abort (s : St) :
    (∀ (c : Reasm.Chunk) (imm : Bool), c.userData ≠ [] → data_canHandle s.scp s.state = true → c.iData ≠ s.il →
        handleChunk s (.data c imm) = { s with willSendAbort := true }) ∧
    (∀ newCum es, s.il = true → handleChunk s (.fwd newCum es) = { s with willSendAbort := true }) ∧
    (∀ newCum es, s.useIFwd = false → handleChunk s (.ifwd newCum es) = { s with willSendAbort := true }) := by
  refine ⟨?_, ?_, ?_⟩
  · intro c imm hne hst hk
    have : data_wrongKind c.iData s.il = true := by simpa [data_wrongKind] using hk
    simp [handleChunk, hne, handleData, hst, this, abortPV]
  · intro newCum es hil
    simp [handleChunk, handleFwd, hil, abortPV]
  · intro newCum es hf
    simp [handleChunk, handleIFwd, hf, abortPV]

/-- the ABORT flag survives the rest of the packet, and the next `gather` emits exactly one packet — the ABORT
with the protocol-violation cause — and tells the writer to close the association (`ok = false`). -/
theorem C17_abort_is_sent (s : St) (h : s.willSendAbort = true) :
    (chunksEnd s).willSendAbort = true ∧ (gather s).2 = ([.abort], false) ∧ (gather s).1.willSendAbort = false := by
  refine ⟨?_, ?_, ?_⟩
  · unfold chunksEnd; repeat' split
    all_goals exact h
  · simp [gather, h]
  · simp [gather, h]

-- non-vacuity: a fresh association with interleaving and a DATA chunk
example : data_canHandle false 3#32 = true ∧ (false ≠ true) := by decide

end C17
