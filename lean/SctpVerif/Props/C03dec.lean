import SctpVerif.Proofs.Codec
/-!
# C03 (decoder part) — no byte string makes the decoder panic or loop

Property theorems only. `Codec.dec` is the L0 model of `packet.unmarshal` (Model/Codec.lean): every Go
index / slice expression is a checked read whose failure is the outcome `Res.panic`, every Go loop
runs on explicit fuel whose exhaustion is the outcome `Res.loop`. The theorems say neither outcome
is reachable, for ALL byte strings and both flag values — also with any checksum function.

What this does not cover: Go's own memory safety and the correspondence of the model with the code
(tied by the differential runs of `TestVerifCodec`, where every decode also runs under `recover()`
and a time box). The state-machine part of C03 lives elsewhere.
-/
namespace C03
open Codec

/-- decoding is total: never a panic outcome, whatever the bytes, the flag and the CRC function -/
theorem C03_decode_total (crc : Bytes → BitVec 32) (doChecksum : Bool) (raw : Bytes) :
    decWith crc doChecksum raw ≠ .panic :=
  ((safe_iff _).1 (decWith_safe crc doChecksum raw)).1

/-- the same for the decoder the driver runs (real CRC32c) -/
theorem C03_decode_total_crc32c (doChecksum : Bool) (raw : Bytes) : dec doChecksum raw ≠ .panic :=
  C03_decode_total _ _ _

/-- bounded work. (1) The chunk loop is given `len/4 + 1` units of fuel (one per loop-condition test)
and never runs out: at most `len/4` chunks are decoded from a packet of `len` bytes. The same holds
for the inner loops with the fuel they are given in the model (`len(value)/4 + 1` for parameters,
error causes and FORWARD-TSN streams, `len/2 + 1` for HMAC identifiers).
(2)–(4) Every iteration of the chunk, parameter and cause loops advances by at least 4 bytes and
stays inside the buffer. -/
theorem C03_decode_work (crc : Bytes → BitVec 32) (doChecksum : Bool) (raw : Bytes) :
    decWith crc doChecksum raw ≠ .loop ∧
    (∀ (rem : Bytes) (c : Chunk) (vl : Nat), 4 ≤ rem.length → decChunk rem = .ok (c, vl) →
        4 ≤ 4 + vl + pad4 vl ∧ 4 + vl ≤ rem.length) ∧
    (∀ (r : Bytes) (t : BitVec 16) (v : Bytes) (n : Nat), paramHeaderUnmarshal r = .ok (t, v, n) → 4 ≤ n ∧ n ≤ r.length) ∧
    (∀ (r : Bytes) (c : Cause) (l : Nat), 4 ≤ r.length → buildErrorCause r = .ok (c, l) → 4 ≤ l ∧ l ≤ r.length) := by
  refine ⟨((safe_iff _).1 (decWith_safe crc doChecksum raw)).2, ?_, ?_, ?_⟩
  · intro rem c vl h4 h
    exact ⟨by omega, decChunk_ok h4 h⟩
  · intro r t v n h
    have := paramHeaderUnmarshal_ok h
    exact ⟨this.1, this.2.1⟩
  · intro r c l h4 h
    exact buildErrorCause_ok h4 h

/-- each decoder of a chunk body, parameter and error cause on its own is total as well (they are
also called by the association on stored bytes) -/
theorem C03_decode_parts_total (t f : Byte) (v : Bytes) (pt : BitVec 16) :
    decBody t f v ≠ .panic ∧ decBody t f v ≠ .loop ∧ buildParam pt v ≠ .panic ∧ buildParam pt v ≠ .loop :=
  ⟨((safe_iff _).1 (decBody_safe t f v)).1, ((safe_iff _).1 (decBody_safe t f v)).2,
   ((safe_iff _).1 (buildParam_safe pt v)).1, ((safe_iff _).1 (buildParam_safe pt v)).2⟩

/-- non-vacuity / sanity: the model does have panic outcomes — an unguarded read panics — so the
theorems above are not true by construction of `Res`. -/
example : u16At [0x01#8] 0 = .panic := by decide
example : initCommonUnmarshal [] = .panic := by decide
/-- test (not a theorem about all inputs): a truncated INIT is rejected, not a panic -/
example : decWith (fun _ => 0#32) true ([0,0,0,0, 0,0,0,0, 0,0,0,0, 1,0,0,8, 0,0,0,0].map (BitVec.ofNat 8))
    = .err .ErrChunkValueNotLongEnough := by decide

end C03
