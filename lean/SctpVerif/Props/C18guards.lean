import SctpVerif.Gen.Facts
/-!
# C18 — state guards of the code, pinned

`Gen.stateTests` is REGENERATED from /repo on every run by the translator (`go/extract/facts_state.go`): per function,
every comparison of the association state with a state constant, every `case` over state constants and every `setState`
call, in source order. This file pins that list for the state gates of the write path (`Sender.write`: `notEstablished` branch) and of stream opening / closing.
The hand-written L0 models mirror exactly these guards; the correspondence harnesses compare behaviour. A change of a guard
in the code breaks this obligation at once (a syntactic tie: a harmless rewrite breaks it too — then the expectation here is
to be updated after checking the models), and the harness jobs of C18 look for a concrete failing input.
-/
namespace C18

theorem C18_state_guards_pinned :
    Gen.stateTests.filter (fun p => ["Association.OpenStream", "Association.sendPayloadData", "Association.sendResetRequest"].contains p.1) =
    [("Association.OpenStream", ["case shutdownAckSent,shutdownPending,shutdownReceived,shutdownSent,closed"]),
     ("Association.sendPayloadData", ["state != established", "state != established"]),
     ("Association.sendResetRequest", ["state != established"])] := by decide

end C18
