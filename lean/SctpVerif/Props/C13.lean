import SctpVerif.Proofs.Codec
/-!
# C13 — checksum rules (packet-level decision logic)

Property theorems only, about the L0 model of `packet.unmarshal` / `packet.marshal` and of the two
association wrappers that choose the flag (`unmarshalPacket`: `doChecksum = !recvZeroChecksum`,
`marshalPacket`: `doChecksum = !sendZeroChecksum || chunkMandatoryChecksum`). The CRC is
UNINTERPRETED: every theorem holds for any function `crc : Bytes → BitVec 32`.

* `field raw`     — the 32-bit little-endian checksum field, bytes 8..11
* `cksum crc raw` — `generatePacketChecksum`: `crc` of the packet with that field taken as zero
* `decAfter raw`  — everything `packet.unmarshal` does after the checksum stage (independent of the
  flag and of `crc`)

Not here (association level, other components): that `sendZeroChecksum` is only set after the peer
advertised acceptance with the DTLS method, that `recvZeroChecksum` is the configured constant, and
that a rejected packet leaves the association state untouched beyond `unmarshal` returning an error.
-/
namespace C13
open Codec

/-- INBOUND, the exact rule as a case equation. A packet of at least 12 bytes passes the checksum
stage iff its field equals the CRC, or the field is zero and the caller did not ask for
verification and the packet does not start (within its first chunk header) with INIT or
COOKIE-ECHO. If it passes, the result is `decAfter raw`, which mentions neither the flag nor the CRC;
if it does not, the result is the checksum error: nothing is decoded. -/
theorem C13_inbound_accept_iff (crc : Bytes → BitVec 32) (doChecksum : Bool) (raw : Bytes) (h : 12 ≤ raw.length) :
    ((field raw = cksum crc raw ∨ (field raw = 0#32 ∧ doChecksum = false ∧ firstIsInitOrCookieEcho raw = false))
        → decWith crc doChecksum raw = decAfter raw) ∧
    (¬ (field raw = cksum crc raw ∨ (field raw = 0#32 ∧ doChecksum = false ∧ firstIsInitOrCookieEcho raw = false))
        → decWith crc doChecksum raw = .err .ErrChecksumMismatch) := by
  rw [decWith_eq crc doChecksum raw h]
  constructor
  · intro ha; exact if_pos (show accept crc doChecksum raw from ha)
  · intro ha; exact if_neg (show ¬ accept crc doChecksum raw from ha)

/-- a packet shorter than the common header is rejected before any checksum is looked at -/
theorem C13_inbound_short (crc : Bytes → BitVec 32) (doChecksum : Bool) (raw : Bytes) (h : raw.length < 12) :
    decWith crc doChecksum raw = .err .ErrPacketRawTooSmall := by
  unfold decWith
  rw [if_pos (by rw [c_packetHeaderSize]; exact h)]

/-- a non-zero wrong checksum is never accepted, whatever the flag -/
theorem C13_inbound_wrong_rejected (crc : Bytes → BitVec 32) (doChecksum : Bool) (raw : Bytes) (h : 12 ≤ raw.length)
    (hne : field raw ≠ 0#32) (hwrong : field raw ≠ cksum crc raw) :
    decWith crc doChecksum raw = .err .ErrChecksumMismatch :=
  (C13_inbound_accept_iff crc doChecksum raw h).2 (by rintro (h1 | ⟨h1, _⟩) <;> contradiction)

/-- a zero checksum (that is not the correct CRC) is accepted only through
`Association.unmarshalPacket` of an endpoint with `recvZeroChecksum = true` … -/
theorem C13_inbound_zero_needs_option (crc : Bytes → BitVec 32) (raw : Bytes) (h : 12 ≤ raw.length)
    (hz : field raw = 0#32) (hwrong : cksum crc raw ≠ 0#32) :
    unmarshalPacketWith crc false raw = .err .ErrChecksumMismatch := by
  unfold unmarshalPacketWith
  refine (C13_inbound_accept_iff crc (!false) raw h).2 ?_
  rintro (h1 | ⟨_, h2, _⟩)
  · rw [hz] at h1; exact hwrong h1.symm
  · simp at h2

/-- … and never for a packet whose first byte after the common header is INIT or COOKIE-ECHO:
such a packet with a zero (incorrect) checksum is rejected for every flag value. -/
theorem C13_inbound_zero_never_for_init (crc : Bytes → BitVec 32) (doChecksum : Bool) (raw : Bytes)
    (h : 12 < raw.length) (hz : field raw = 0#32) (hwrong : cksum crc raw ≠ 0#32)
    (hfirst : g8 raw 12 = ctInit ∨ g8 raw 12 = ctCookieEcho) :
    ∃ e, decWith crc doChecksum raw = .err e := by
  by_cases h16 : 16 ≤ raw.length
  · refine ⟨_, (C13_inbound_accept_iff crc doChecksum raw (by omega)).2 ?_⟩
    rintro (h1 | ⟨_, _, h3⟩)
    · rw [hz] at h1; exact hwrong h1.symm
    · have : firstIsInitOrCookieEcho raw = true := by
        unfold firstIsInitOrCookieEcho
        rcases hfirst with hf | hf <;> simp [hf, h16]
      rw [this] at h3; cases h3
  · rw [decWith_eq crc doChecksum raw (by omega)]
    split
    · exact ⟨_, decAfter_short raw h (by omega)⟩
    · exact ⟨_, rfl⟩

/-- OUTBOUND: `packet.marshal(doChecksum)` writes the correct CRC when asked and leaves the field zero
otherwise. -/
theorem C13_marshal_field (crc : Bytes → BitVec 32) (doChecksum : Bool) (p : Packet) (raw : Bytes)
    (h : encWith crc doChecksum p = .ok raw) :
    field raw = if doChecksum then cksum crc raw else 0#32 :=
  (encWith_field crc doChecksum p raw h).2

/-- OUTBOUND rule of `Association.marshalPacket`: the emitted field is the correct CRC, or it is zero
and `sendZeroChecksum` is set and the packet carries no INIT / COOKIE-ECHO chunk. -/
theorem C13_outbound_rule (crc : Bytes → BitVec 32) (sendZeroChecksum : Bool) (p : Packet) (raw : Bytes)
    (h : marshalPacketWith crc sendZeroChecksum p = .ok raw) :
    field raw = cksum crc raw ∨
      (field raw = 0#32 ∧ sendZeroChecksum = true ∧ chunkMandatoryChecksum p.chunks = false) := by
  unfold marshalPacketWith at h
  have := (encWith_field crc _ p raw h).2
  cases hs : sendZeroChecksum <;> cases hm : chunkMandatoryChecksum p.chunks <;> simp [hs, hm] at this <;> simp [this]

/-- in particular a packet with an INIT or COOKIE-ECHO chunk, and every packet of an endpoint whose
peer did not advertise acceptance, carries the correct CRC -/
theorem C13_outbound_mandatory (crc : Bytes → BitVec 32) (sendZeroChecksum : Bool) (p : Packet) (raw : Bytes)
    (h : marshalPacketWith crc sendZeroChecksum p = .ok raw)
    (hm : sendZeroChecksum = false ∨ chunkMandatoryChecksum p.chunks = true) :
    field raw = cksum crc raw := by
  rcases C13_outbound_rule crc sendZeroChecksum p raw h with h1 | ⟨_, h2, h3⟩
  · exact h1
  · rcases hm with hm | hm
    · rw [hm] at h2; cases h2
    · rw [hm] at h3; cases h3

/-- what is emitted with a correct CRC is accepted by every receiver configuration (for well-formed
packets this is `C12_roundtrip_packet`; here only the checksum stage, for any packet) -/
theorem C13_emitted_crc_accepted (crc : Bytes → BitVec 32) (p : Packet) (raw : Bytes) (doChecksum : Bool)
    (h : encWith crc true p = .ok raw) : decWith crc doChecksum raw = decAfter raw := by
  obtain ⟨hl, hf⟩ := encWith_field crc true p raw h
  exact (C13_inbound_accept_iff crc doChecksum raw hl).1 (Or.inl (by simpa using hf))

/-! non-vacuity: the hypotheses are satisfiable and both outcomes of the rule occur (`crc := fun _ => 7`) -/
example : ∃ raw : Bytes, 12 ≤ raw.length ∧ field raw = 0#32 ∧ cksum (fun _ => 7#32) raw ≠ 0#32 ∧
    firstIsInitOrCookieEcho raw = false ∧
    decWith (fun _ => 7#32) false raw = decAfter raw ∧ decWith (fun _ => 7#32) true raw = .err .ErrChecksumMismatch :=
  ⟨[0,0,0,0, 0,0,0,0, 0,0,0,0, 11,0,0,4].map (BitVec.ofNat 8), by decide, by decide, by decide, by decide,
    by decide, by decide⟩
example : marshalPacketWith (fun _ => 7#32) true ⟨1, 2, 3, [.cookieAck 0 []]⟩ =
    .ok ([0,1, 0,2, 0,0,0,3, 0,0,0,0, 11,0,0,4].map (BitVec.ofNat 8)) := by decide
example : marshalPacketWith (fun _ => 7#32) true ⟨1, 2, 3, [.cookieEcho 0 []]⟩ =
    .ok ([0,1, 0,2, 0,0,0,3, 7,0,0,0, 10,0,0,4].map (BitVec.ofNat 8)) := by decide

end C13
