import SctpVerif.Proofs.Sna
import SctpVerif.Gen.Facts
/-!
# C16 — sequence-number wrap-around is invisible (algebra part)

Property theorems only. All are about the translator-generated definitions `Gen.sna32*`,
`Gen.sna16*`, so they are re-checked against util.go on every run.
`dist a b := (b - a).toNat` is the modular distance from `a` forward to `b`.
-/
namespace C16
open Gen Sna

/-- before ⇔ forward distance strictly between 0 and half the space (32 bit). -/
theorem C16_lt32_iff (a b : BitVec 32) :
    sna32LT a b = true ↔ (0 < (b - a).toNat ∧ (b - a).toNat < 2^31) := lt32_iff a b

theorem C16_lt16_iff (a b : BitVec 16) :
    sna16LT a b = true ↔ (0 < (b - a).toNat ∧ (b - a).toNat < 2^15) := lt16_iff a b

/-- for two distinct values not exactly half the space apart exactly one of before / after holds. -/
theorem C16_trichotomy32 (a b : BitVec 32) (hne : a ≠ b) (hanti : (b - a).toNat ≠ 2^31) :
    (sna32LT a b = true ∧ sna32LT b a = false) ∨ (sna32LT a b = false ∧ sna32LT b a = true) := by
  have h1 := lt32_iff a b; have h2 := lt32_iff b a
  cases hab : sna32LT a b <;> cases hba : sna32LT b a <;> simp_all <;> bv_omega

theorem C16_trichotomy16 (a b : BitVec 16) (hne : a ≠ b) (hanti : (b - a).toNat ≠ 2^15) :
    (sna16LT a b = true ∧ sna16LT b a = false) ∨ (sna16LT a b = false ∧ sna16LT b a = true) := by
  have h1 := lt16_iff a b; have h2 := lt16_iff b a
  cases hab : sna16LT a b <;> cases hba : sna16LT b a <;> simp_all <;> bv_omega

/-- equal values: neither before nor after, and EQ/LTE/GTE hold. -/
theorem C16_refl32 (a : BitVec 32) :
    sna32LT a a = false ∧ sna32GT a a = false ∧ sna32LTE a a = true ∧ sna32GTE a a = true ∧ sna32EQ a a = true := by
  simp [sna32LT, sna32GT, sna32LTE, sna32GTE, sna32EQ]

theorem C16_refl16 (a : BitVec 16) :
    sna16LT a a = false ∧ sna16GT a a = false ∧ sna16LTE a a = true ∧ sna16GTE a a = true ∧ sna16EQ a a = true := by
  simp [sna16LT, sna16GT, sna16LTE, sna16GTE, sna16EQ]

/-- all five comparisons are unchanged when both operands are shifted by the same amount. -/
theorem C16_shift32 (a b k : BitVec 32) :
    sna32LT (a + k) (b + k) = sna32LT a b ∧ sna32LTE (a + k) (b + k) = sna32LTE a b ∧
    sna32GT (a + k) (b + k) = sna32GT a b ∧ sna32GTE (a + k) (b + k) = sna32GTE a b ∧
    sna32EQ (a + k) (b + k) = sna32EQ a b := by
  refine ⟨?_, ?_, ?_, ?_, ?_⟩
  · rw [Bool.eq_iff_iff, lt32_iff, lt32_iff, sub_shift32]
  · rw [Bool.eq_iff_iff, lte32_iff, lte32_iff, sub_shift32]
  · rw [Bool.eq_iff_iff, gt32_iff, gt32_iff, sub_shift32]
  · rw [Bool.eq_iff_iff, gte32_iff, gte32_iff, sub_shift32]
  · simp only [sna32EQ]; rw [Bool.eq_iff_iff]; simp only [beq_iff_eq]; constructor <;> intro h <;> bv_omega

theorem C16_shift16 (a b k : BitVec 16) :
    sna16LT (a + k) (b + k) = sna16LT a b ∧ sna16LTE (a + k) (b + k) = sna16LTE a b ∧
    sna16GT (a + k) (b + k) = sna16GT a b ∧ sna16GTE (a + k) (b + k) = sna16GTE a b ∧
    sna16EQ (a + k) (b + k) = sna16EQ a b := by
  refine ⟨?_, ?_, ?_, ?_, ?_⟩
  · rw [Bool.eq_iff_iff, lt16_iff, lt16_iff, sub_shift16]
  · rw [Bool.eq_iff_iff, lte16_iff, lte16_iff, sub_shift16]
  · rw [Bool.eq_iff_iff, gt16_iff, gt16_iff, sub_shift16]
  · rw [Bool.eq_iff_iff, gte16_iff, gte16_iff, sub_shift16]
  · simp only [sna16EQ]; rw [Bool.eq_iff_iff]; simp only [beq_iff_eq]; constructor <;> intro h <;> bv_omega

/-- after is the converse of before away from the antipode (where the code makes both GT hold). -/
theorem C16_gt_converse32 (a b : BitVec 32) (hanti : (b - a).toNat ≠ 2^31) :
    sna32GT a b = sna32LT b a := by
  rw [Bool.eq_iff_iff, gt32_iff, lt32_iff]; bv_omega

theorem C16_gt_converse16 (a b : BitVec 16) (hanti : (b - a).toNat ≠ 2^15) :
    sna16GT a b = sna16LT b a := by
  rw [Bool.eq_iff_iff, gt16_iff, lt16_iff]; bv_omega

/-- LTE is exactly "not after": the five predicates are one order. -/
theorem C16_lte_not_gt32 (a b : BitVec 32) :
    sna32LTE a b = !sna32GT a b := by
  rw [Bool.eq_iff_iff]; simp only [Bool.not_eq_true', ← Bool.not_eq_true]
  rw [lte32_iff, gt32_iff]; bv_omega

theorem C16_lte_not_gt16 (a b : BitVec 16) :
    sna16LTE a b = !sna16GT a b := by
  rw [Bool.eq_iff_iff]; simp only [Bool.not_eq_true', ← Bool.not_eq_true]
  rw [lte16_iff, gt16_iff]; bv_omega

/-- transitivity inside a half-space window. -/
theorem C16_trans32 (a b c : BitVec 32) (h1 : sna32LT a b = true) (h2 : sna32LT b c = true)
    (hw : (c - a).toNat < 2^31) : sna32LT a c = true := by
  rw [lt32_iff] at *; bv_omega

theorem C16_trans16 (a b c : BitVec 16) (h1 : sna16LT a b = true) (h2 : sna16LT b c = true)
    (hw : (c - a).toNat < 2^15) : sna16LT a c = true := by
  rw [lt16_iff] at *; bv_omega

/-- the order agrees with plain `<` when no wrap is involved … -/
theorem C16_nowrap32 (a b : BitVec 32) (h : b.toNat - a.toNat < 2^31) (hab : a.toNat < b.toNat) :
    sna32LT a b = true := by
  rw [lt32_iff]; bv_omega

/-- … and across the wrap: the successor of 2^32-1 is 0 and comes after it. -/
theorem C16_wrap_succ32 (a : BitVec 32) : sna32LT a (a + 1) = true ∧ sna32GT (a + 1) a = true := by
  rw [lt32_iff, gt32_iff]; bv_omega

theorem C16_wrap_succ16 (a : BitVec 16) : sna16LT a (a + 1) = true ∧ sna16GT (a + 1) a = true := by
  rw [lt16_iff, gt16_iff]; bv_omega

/-- Every ordered comparison of protocol sequence numbers in the code goes through the serial-number
helpers proved above: the translator lists every `< <= > >=` between uint16/uint32 operands named like
a sequence number outside util.go (regenerated from the source on every run); the list must be empty.
(On the pinned tree it was not: `a.peerLastTSN() < par.senderLastTSN`, fixed in /repo.) -/
theorem C16_all_compares_serial : Gen.rawSeqCompares = [] := by decide

-- non-vacuity: the hypotheses are satisfiable at the wrap itself
example : sna32LT 0xFFFFFFFF#32 0#32 = true ∧ sna32LT 0#32 0xFFFFFFFF#32 = false := by decide
example : sna16LT 0xFFFF#16 5#16 = true := by decide

end C16
