import SctpVerif.Proofs.Conc
import SctpVerif.Gen.Facts
/-!
# C20 — the public API is safe for concurrent use

Property theorems only. **What they are about.** `Gen.lockOrderEdges`, `Gen.callbackSites`, `Gen.observerSites`,
`Gen.entryPointsLocked`, `Gen.blockingUnderLock`, … are REGENERATED from /repo by the translator on every run
(`go/extract/facts_conc.go`): event trees of every function, an abstract interpretation of the lock state along every
path, entry contexts propagated over the call graph (interface calls resolved by method set), with the two
drop-and-reacquire idioms handled precisely. The theorems below are decided on that data, so a change of the locking
structure of the package changes what they say — and breaks them if it breaks the discipline.

**What this is not.** The analysis is syntactic and intra-package: mutexes are identified by (receiver type, field), so all
streams share one node; `sync/atomic` accesses and plain unsynchronised accesses are invisible to it. *Data-race freedom
is a property of the Go memory model and cannot be expressed by an executable Lean model*: it is sampled by the race
detector runs of the thorough tier and reported as supporting evidence only. Real goroutine interleavings are sampled by
the storm scenarios (`TestVerifE2EStorm`), not enumerated. Liveness of the one place that blocks while holding the
association lock (`completeHandshake`) is the subject of C09's teardown model.
-/
namespace C20
open Conc

/-! ## (a) lock order -/

/-- **The lock-acquisition graph of the package has no cycle.** Nodes: `Association.lock`, `Stream.lock`,
`Stream.writeLock`, `Association.timerMu`, `rtxTimer.mutex`, `ackTimer.mutex`, `rtoManager.mutex`; edge `x → y` when some
path through the package acquires `y` while `x` is held (a mutex released for a while inside a callee is not held in that
window). No vertex reaches itself; in particular there is no self edge (no path re-locks a mutex of the same kind while
holding one) and — since `Association.lock → Stream.lock` exists (`unregisterStream`, `checkPartialReliabilityStatus`) —
no `Stream.lock → Association.lock` edge. -/
theorem C20_lock_graph_acyclic :
    (∀ v, ¬ Reach (edgesOf Gen.lockOrderEdges) v v) ∧
    ("Association.lock", "Stream.lock") ∈ edgesOf Gen.lockOrderEdges ∧
    ("Stream.lock", "Association.lock") ∉ edgesOf Gen.lockOrderEdges := by
  have h : acyclic (edgesOf Gen.lockOrderEdges) = true := by decide
  exact ⟨acyclic_sound h, by decide, acyclic_no_inversion h (by decide)⟩

/-- the translator's own consistency facts: no path returns with a mutex it took (or without one of its caller's), no
path unlocks a mutex that is not held, no function re-locks a mutex it holds — with ONE documented exception, the
conditional `if s.association.isBlockWrite() { s.writeLock.Lock() } … if s.association.isBlockWrite() { s.writeLock.Unlock() }`
in `Stream.WriteSCTP`: both tests read the same immutable configuration flag, which a path-insensitive analysis cannot
know. The mutex is dropped and re-acquired around a call in exactly the two documented places. -/
theorem C20_lock_discipline :
    Gen.unbalancedFuncs = ["Stream.WriteSCTP returns with +[Stream.writeLock] -[]", "Stream.WriteSCTP returns with +[] -[Stream.writeLock]"] ∧
    Gen.unlockUnheld = [("Stream.WriteSCTP", "Unlock Stream.writeLock", [])] ∧
    Gen.relockedLocally = [] ∧
    Gen.lockDropSites = ["Association.processAcknowledgement: Association.lock", "Association.resetStreamsIfAny: Association.lock"] := by
  decide

/-! ## (b) callbacks -/

/-- the scheduler factory supplied through `WithInterleavingStreamSchedulerFactory`: by design a plug-in that is built and
then driven (`Push/Peek/Pop/Reset`, see `Gen.pluginSites`) INSIDE the association's critical section; it is created while
the handshake completes, before the application holds the association. Not a notification callback. -/
def schedulerFactorySite : String × String × List String :=
  ("pendingQueue.setInterleaving", "pendingQueue.newStreamScheduler", ["Association.lock"])

/-- **Callbacks run without internal locks.** Every call of a function VALUE in the package (user callbacks, option
functions, factories) is made with an empty lock set in every calling context — the buffered-amount-low handler among
them (`Stream.onBufferReleased` copies it under `s.lock`, unlocks, then calls; its caller has dropped `a.lock`) —
except the one plug-in site above, which is listed so that a second one cannot appear unnoticed. -/
theorem C20_callbacks_unlocked :
    (Gen.callbackSites.all fun s => s.2.2 == [] || s == schedulerFactorySite) = true ∧
    ("Stream.onBufferReleased", "f", []) ∈ Gen.callbackSites ∧
    (Gen.callbackSites.filter fun s => s.1 == "Stream.onBufferReleased").length = 1 := by
  decide

/-! ## (c) steps are critical sections -/

/-- entry points that are made of more than one critical section on a mutex, with the sections they consist of -/
def multiSection : List (String × String × List String) := [
  -- Shutdown: the state change under the lock; then, after closeWriteLoopCh is closed, a read-only section that tests
  -- whether the peer acknowledged the SHUTDOWN (52b27be)
  ("Association.Shutdown", "Association.lock", ["Association.Shutdown:sections:2"]),
  -- blocking-write gate: lock, test, (unlock, wait, lock, re-test)*, enqueue, unlock — the state test is repeated in
  -- every section and the enqueue happens in the last one
  ("Stream.Write", "Association.lock", ["Association.sendPayloadData:sections:2"]),
  ("Stream.WriteSCTP", "Association.lock", ["Association.sendPayloadData:sections:2"]),
  -- state test; sequence-number assignment + buffered amount (packetize); roll-back after a failed enqueue
  ("Stream.Write", "Stream.lock", ["Stream.State:whole", "Stream.WriteSCTP:sections:1", "Stream.packetize:whole"]),
  ("Stream.WriteSCTP", "Stream.lock", ["Stream.State:whole", "Stream.WriteSCTP:sections:1", "Stream.packetize:whole"])]

/-- `x` ends with `s` (on character lists: reducible by the kernel) -/
def hasSuffix (x s : String) : Bool := (x.toList.drop (x.length - s.length)) == s.toList

def isSingle (acq : List String) : Bool :=
  match acq with
  | [] => true           -- does not take the mutex at all (atomics only)
  | [x] => hasSuffix x ":whole" || hasSuffix x ":sections:1"   -- exactly one function with exactly one critical section
  | _ => false

def rowOk (r : String × String × String × String × String × List String × List String) : Bool :=
  let (name, cls, m, shape, holds, acq, drops) := r
  if cls == "handler" then
    shape == "none" && holds == "always" && acq == [] &&
      drops.all (fun d => d == "Association.processAcknowledgement" || d == "Association.resetStreamsIfAny")
  else if cls == "dispatch" then
    shape == "whole" && holds == "never" && acq == [name ++ ":whole"] &&
      drops.all (fun d => d == "Association.processAcknowledgement" || d == "Association.resetStreamsIfAny")
  else if cls == "timer" then
    shape == "whole" && holds == "never" && acq == [name ++ ":whole"] && drops == []
  else
    drops == [] && (isSingle acq || multiSection.contains (name, m, acq))

/-- **Every step is one critical section.** Read off the regenerated entry-point table:
* every chunk handler called from `handleChunk`'s type switch never touches `a.lock` itself and is entered with it held
  in every calling context; `handleChunk`, `handleChunksStart/End` and `gatherOutbound` lock in their first statement,
  `defer` the unlock in the second and never release in between — so one inbound chunk / one writer iteration is one
  critical section, split only at the two documented drop sites (around the buffered-amount callback and the inbound-reset
  notification: the handler is then two or more consecutive sections, each under the lock);
* every timer callback (`onRetransmissionTimeout`, `onRetransmissionFailure`, `onAckTimeout`, `onRackTimeout`,
  `onPTOTimer`) is one whole-body section with no drop site;
* every exported method of `Association` / `Stream` takes each mutex in at most ONE section — whole-body or explicit —
  except the write path listed in `multiSection`.
The association STATE word is additionally written outside `a.lock` only as `closed` (`Gen.stateWriteSites`: `close()`
from `Close`/`writeLoop`): an atomic store of the terminal value. -/
theorem C20_steps_atomic :
    Gen.entryPointsLocked.all rowOk = true ∧
    15 ≤ (Gen.entryPointsLocked.filter fun r => r.2.1 == "handler").length ∧
    5 ≤ (Gen.entryPointsLocked.filter fun r => r.2.1 == "timer").length ∧
    (Gen.stateWriteSites.all fun s => s.2.2.contains "Association.lock" || s.2.1 == "Association.setState(closed)") = true := by
  decide

/-! ## (d) timers -/

def timerMutexes : List String := ["rtxTimer.mutex", "ackTimer.mutex"]

/-- **No re-entrant timer.** The observer (`onRetransmissionTimeout / onRetransmissionFailure / onAckTimeout`) is called with
NO mutex held — `timeout()` defers the call and releases the timer's mutex first — and nothing at all is ever acquired
while a timer mutex is held (they are sinks of the lock graph; in particular not `a.lock`, which the observers take, and
not a timer mutex again). `start/stop/close` hold the mutex for their whole body and return without it
(`C20_lock_discipline`), so no observer path can call them on the calling timer while that timer's mutex is held. -/
theorem C20_no_reentrant_timer :
    (Gen.observerSites.all fun s => s.2.2 == []) = true ∧ 3 ≤ Gen.observerSites.length ∧
    (Gen.lockOrderEdges.all fun e => !timerMutexes.contains e.1) = true ∧
    (Gen.entryPointsLocked.filter fun r => r.2.1 == "timer").all (fun r => r.2.2.2.2.2.2 == []) = true := by
  decide

/-- the operations that can block while a mutex is held are exactly three: the handshake hand-over inside a handler /
T1-failure callback (`completeHandshake`: released by `closeWriteLoopCh` / `readLoopCloseCh` — liveness is C09's model),
the transport's `Close` when the peer's ABORT / SHUTDOWN-COMPLETE is handled, and the blocking-write wait, which holds only
the per-stream `writeLock` that serialises blocking writers (bounded by the write deadline and by teardown). -/
theorem C20_blocking_under_lock :
    Gen.blockingUnderLock = [
      ("Association.closeNetConn", "net.Conn.Close", ["Association.lock"]),
      ("Association.completeHandshake",
        "select send Association.handshakeCompletedCh / recv Association.closeWriteLoopCh / recv Association.readLoopCloseCh", ["Association.lock"]),
      ("Association.sendPayloadData", "select recv ctx.Done() / recv writeNotify", ["Stream.writeLock"])] := by
  decide

/-! ## linearisation -/

/-- **Interleaved critical sections are a sequence of steps.** Threads that touch the shared state only inside sections
guarded by one mutex (which is what `C20_steps_atomic` establishes for `a.lock`): for EVERY interleaving of acquisitions,
micro-operations and releases that starts and ends with the mutex free, the final state — shared state, every thread's
local state, every thread's remaining program — is exactly the state reached by running the sections one after the other
as atomic steps, in the order in which they were entered. Hence the theorems of the other properties, which quantify
over all SEQUENCES of steps (operation lists), apply to concurrent callers. -/
theorem C20_interleaving_refines_sequence {S L : Type} (y y' : Sys S L) (es : List Ev)
    (h0 : y.holder = none) (hrun : frun y es = some y') (h1 : y'.holder = none) :
    crun y (acqs es) = some y' := by
  have := frun_abs es y y' hrun
  rwa [absSys_free y h0, absSys_free y' h1] at this

/-- non-vacuity: two threads, each incrementing a shared counter in two micro-operations (read into the local, write
back + 1); interleaved at the finest grain the mutex allows, the result is the sequential one (2), not a lost update -/
example :
    let inc : Section Nat Nat := [fun (s, _) => (s, s), fun (_, l) => (l + 1, l)]
    let y0 : Sys Nat Nat := { shared := 0, locals := fun _ => 0, progs := fun t => if t < 2 then [inc] else [], holder := none }
    (frun y0 [.acq 1, .op 1, .op 1, .rel 1, .acq 0, .op 0, .op 0, .rel 0]).map (·.shared) = some 2 ∧
    (frun y0 [.acq 1, .op 1, .acq 0]).isNone = true := by
  decide

end C20
