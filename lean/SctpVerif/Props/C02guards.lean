import SctpVerif.Gen.Facts
import SctpVerif.Gen.Consts
/-!
# C02 — facts of the code the "no permanent stall" argument rests on, pinned

Regenerated from /repo on every run (`Gen.rtxTimerSites`: the retry budget each retransmission timer is created with).
-/
namespace C02

/-- **T3-rtx never gives up**: the data retransmission timer is created without a retry limit (`noMaxRetrans = 0`), so the
T3 expiries that `C02_t3_marks_all` / `C02_recovers_after_blackout` quantify over keep coming for as long as data is outstanding. -/
theorem C02_t3_never_gives_up :
    ("timerT3RTX", "noMaxRetrans") ∈ Gen.rtxTimerSites ∧ Gen.noMaxRetrans = 0 := by decide

end C02
