import SctpVerif.Proofs.ReasmFwdMidRun
/-!
# C07, receiver reassembly — what the reassembly queue does with a skip

Property theorems only, about the L0 model `Model/Reasm.lean` of `reassemblyQueue` (tied to reassembly_queue.go by
the correspondence run `TestVerifReasm`: every op — the four forward handlers included — is replayed and compared).
The sender side (`Props/C07.lean`) proves that the FORWARD-TSN names exactly the abandoned messages; `Props/C07recv.lean`
that the association takes a FORWARD-TSN completely or not at all. Here: what the per-stream queue removes, keeps and
still delivers.

**Part 1 — the four handlers, exactly** (any queue state, any argument; `purgedO` / `purgedOM` / `purgedUM` are the tests
of the code):
* `forwardTSNForOrdered lastSSN` removes exactly the sets that are INCOMPLETE and whose SSN is serially ≤ `lastSSN`;
  every complete set (also one at or below the skip point that the application has not read yet) and every set with a
  later SSN stays, same chunks, same order; the cursor moves to `lastSSN + 1` iff it was serially ≤ `lastSSN`, never
  backwards, and ends up past `lastSSN`; the byte counter drops by exactly the bytes removed; no other container changes.
* likewise `forwardTSNForOrderedMID` (I-DATA, ordered), `forwardTSNForUnorderedMID` (I-DATA, unordered: every set still
  in the MID map — those are the incomplete ones — at or below `lastMID`; completed unordered messages waiting in
  `unorderedMID` are untouched) and `forwardTSNForUnordered` (DATA, unordered: the LEADING run of fragments with TSN
  serially ≤ `newCumulativeTSN`; with the slice TSN-sorted inside a half-space window that is every such fragment;
  completed unordered messages in `unordered` are untouched).

**Part 2 — honest runs with skips** (vocabulary of `Proofs/ReasmOrd.lean` + `Proofs/ReasmFwdOrd.lean`):
`Sender` = stream id, initial TSN, the messages written (`Msg` = PPI + the pieces `packetize` cut); `K k` = message `k`
is abandoned. `SOp`: `push k i` hands fragment `i` of message `k` to `pushWithError`, `read n` calls `read` with an
`n`-byte buffer, `skip L` calls the forward handler with `L` mod 2^16 (the stream's entry of a FORWARD-TSN).
`S.AdmissibleS K F q f c P ops` — the honest-sender premise, a decidable predicate on the run:
* pushes: valid indices, no fragment twice (TSN filter, C05), the message fewer than `W` = 2^15 ahead of the floor `f`
  (oldest message the queue holds or waits for — the hypothesis the 16-bit SSN forces, D15) and, for late fragments of
  messages the cursor has passed, fewer than `W` behind the cursor; the push does not hit `maxEntries`;
* reads: any buffer size, at any time;
* `skip L`: `L` a message of the stream inside the window and EVERY MESSAGE UP TO `L` THAT IS NOT ABANDONED HAS BEEN
  HANDED OVER COMPLETELY (`allPushed`) — a FORWARD-TSN moves the cumulative point only over abandoned chunks
  (`C07_skip_only_abandoned`), so everything else below it has been received. Abandoned messages may have had any
  subset of their fragments pushed, before or after the skip; skips may be repeated or stale; `K L` is not required.
Arrival order, interleaving of pushes, reads and skips are otherwise arbitrary, so "first message of the stream
abandoned", "abandoned message partially received" and "skip before / after fragments of later messages" are instances.
NOT in the run theorems: unordered messages, i.e. streams that mix ordered and unordered messages (Part 1 gives the frame: the
handler of one class touches no container of the other class), and the composition with sender and network.
-/
namespace C07
open Reasm Gen

/-! ## Part 1: the handlers, exactly -/

/-- ✱ DATA, ordered (SSN). -/
theorem C07_reasm_purge_exact_ordered (q : Q) (lastSSN : BitVec 16)
    (hc : bytesOfSets q.ordered ≤ q.nBytes.toNat) (hb : q.nBytes.toNat < 2^63) :
    let q' := q.forwardTSNForOrdered lastSSN
    -- removed: exactly the incomplete sets at or below the skip point; kept: the others, in order
    q'.ordered = q.ordered.filter (fun s => !(sna16LTE s.ssn lastSSN && !s.isComplete)) ∧
    q'.ordered.Sublist q.ordered ∧
    (∀ s ∈ q.ordered, s.isComplete = true → s ∈ q'.ordered) ∧
    (∀ s ∈ q.ordered, sna16LTE s.ssn lastSSN = false → s ∈ q'.ordered) ∧
    (∀ s ∈ q.ordered, s ∉ q'.ordered → s.isComplete = false ∧ sna16LTE s.ssn lastSSN = true) ∧
    -- cursor
    q'.nextSSN = (if sna16LTE q.nextSSN lastSSN then lastSSN + 1 else q.nextSSN) ∧
    (q'.nextSSN - q.nextSSN).toNat ≤ 2^15 ∧ sna16LTE q'.nextSSN lastSSN = false ∧
    -- bytes
    q'.nBytes.toNat + bytesOfSets (q.ordered.filter (fun s => sna16LTE s.ssn lastSSN && !s.isComplete)) = q.nBytes.toNat ∧
    -- frame
    q'.unordered = q.unordered ∧ q'.unorderedChunks = q.unorderedChunks ∧ q'.orderedMID = q.orderedMID ∧
    q'.unorderedMID = q.unorderedMID ∧ q'.unorderedMIDMap = q.unorderedMIDMap ∧ q'.nextMID = q.nextMID := by
  intro q'
  have hord : q'.ordered = q.ordered.filter (fun s => !(sna16LTE s.ssn lastSSN && !s.isComplete)) :=
    fwdO_ordered q lastSSN
  have hcur : q'.nextSSN = (if sna16LTE q.nextSSN lastSSN then lastSSN + 1 else q.nextSSN) := fwdO_nextSSN q lastSSN
  obtain ⟨_, _, r3, r4, r5, r6, r7, r8, _⟩ := fwdO_rest q lastSSN
  refine ⟨hord, by rw [hord]; exact List.filter_sublist, ?_, ?_, ?_, hcur, ?_, ?_, ?_, r3, r4, r5, r6, r7, r8⟩
  · intro s hs hcomp; rw [hord, List.mem_filter]; exact ⟨hs, by simp [hcomp]⟩
  · intro s hs hle; rw [hord, List.mem_filter]; exact ⟨hs, by simp [hle]⟩
  · intro s hs hnot
    rw [hord, List.mem_filter] at hnot
    cases h1 : s.isComplete <;> cases h2 : sna16LTE s.ssn lastSSN <;> simp_all
  · rw [hcur]
    split
    · rename_i hle
      have := (Sna.lte16_iff _ _).1 hle
      have e : lastSSN + 1 - q.nextSSN = (lastSSN - q.nextSSN) + 1 := by bv_omega
      rw [e]; bv_omega
    · simp
  · rw [hcur]
    split
    · cases hx : sna16LTE (lastSSN + 1) lastSSN with
      | false => rfl
      | true => have := (Sna.lte16_iff _ _).1 hx; bv_omega
    · rename_i h; simpa using h
  · show (q.forwardTSNForOrdered lastSSN).nBytes.toNat + _ = _
    rw [fwdO_nBytes]
    exact fwdOrderedLoop_bytes lastSSN q.ordered q.nBytes hc hb

/-- ✱ I-DATA, ordered (MID). -/
theorem C07_reasm_purge_exact_ordered_mid (q : Q) (lastMID : BitVec 32)
    (hc : bytesOfMIDSets q.orderedMID ≤ q.nBytes.toNat) (hb : q.nBytes.toNat < 2^63) :
    let q' := q.forwardTSNForOrderedMID lastMID
    q'.orderedMID = q.orderedMID.filter (fun s => !(sna32LTE s.mid lastMID && !s.isComplete)) ∧
    q'.orderedMID.Sublist q.orderedMID ∧
    (∀ s ∈ q.orderedMID, s.isComplete = true → s ∈ q'.orderedMID) ∧
    (∀ s ∈ q.orderedMID, sna32LTE s.mid lastMID = false → s ∈ q'.orderedMID) ∧
    (∀ s ∈ q.orderedMID, s ∉ q'.orderedMID → s.isComplete = false ∧ sna32LTE s.mid lastMID = true) ∧
    q'.nextMID = (if sna32LTE q.nextMID lastMID then lastMID + 1 else q.nextMID) ∧
    (q'.nextMID - q.nextMID).toNat ≤ 2^31 ∧ sna32LTE q'.nextMID lastMID = false ∧
    q'.nBytes.toNat + bytesOfMIDSets (q.orderedMID.filter (fun s => sna32LTE s.mid lastMID && !s.isComplete))
      = q.nBytes.toNat ∧
    q'.ordered = q.ordered ∧ q'.unordered = q.unordered ∧ q'.unorderedChunks = q.unorderedChunks ∧
    q'.unorderedMID = q.unorderedMID ∧ q'.unorderedMIDMap = q.unorderedMIDMap ∧ q'.nextSSN = q.nextSSN := by
  intro q'
  have hord : q'.orderedMID = q.orderedMID.filter (fun s => !(sna32LTE s.mid lastMID && !s.isComplete)) := by
    show (q.forwardTSNForOrderedMID lastMID).orderedMID = _
    simp only [Q.forwardTSNForOrderedMID]; exact fwdOrderedMIDLoop_keep ..
  have hcur : q'.nextMID = (if sna32LTE q.nextMID lastMID then lastMID + 1 else q.nextMID) := by
    show (q.forwardTSNForOrderedMID lastMID).nextMID = _
    simp only [Q.forwardTSNForOrderedMID]
  refine ⟨hord, by rw [hord]; exact List.filter_sublist, ?_, ?_, ?_, hcur, ?_, ?_, ?_, rfl, rfl, rfl, rfl, rfl, rfl⟩
  · intro s hs hcomp; rw [hord, List.mem_filter]; exact ⟨hs, by simp [hcomp]⟩
  · intro s hs hle; rw [hord, List.mem_filter]; exact ⟨hs, by simp [hle]⟩
  · intro s hs hnot
    rw [hord, List.mem_filter] at hnot
    cases h1 : s.isComplete <;> cases h2 : sna32LTE s.mid lastMID <;> simp_all
  · rw [hcur]
    split
    · rename_i hle
      have := (Sna.lte32_iff _ _).1 hle
      have e : lastMID + 1 - q.nextMID = (lastMID - q.nextMID) + 1 := by bv_omega
      rw [e]; bv_omega
    · simp
  · rw [hcur]
    split
    · cases hx : sna32LTE (lastMID + 1) lastMID with
      | false => rfl
      | true => have := (Sna.lte32_iff _ _).1 hx; bv_omega
    · rename_i h; simpa using h
  · show (q.forwardTSNForOrderedMID lastMID).nBytes.toNat + _ = _
    have : (q.forwardTSNForOrderedMID lastMID).nBytes = (fwdOrderedMIDLoop lastMID q.orderedMID q.nBytes).1 := by
      simp only [Q.forwardTSNForOrderedMID]
    rw [this]
    exact fwdOrderedMIDLoop_bytes lastMID q.orderedMID q.nBytes hc hb

/-- ✱ I-DATA, unordered (MID): every set still in the MID map at or below the skip point is removed — the map holds
only sets that are not complete yet (`pushUnorderedIData` moves a set to `unorderedMID` the moment it completes);
complete unordered messages waiting to be read, the ordered containers and both cursors are untouched. -/
theorem C07_reasm_purge_exact_unordered_mid (q : Q) (lastMID : BitVec 32)
    (hc : bytesOfMIDSets q.unorderedMIDMap ≤ q.nBytes.toNat) (hb : q.nBytes.toNat < 2^63) :
    let q' := q.forwardTSNForUnorderedMID lastMID
    q'.unorderedMIDMap = q.unorderedMIDMap.filter (fun s => !sna32LTE s.mid lastMID) ∧
    q'.unorderedMIDMap.Sublist q.unorderedMIDMap ∧
    (∀ s ∈ q.unorderedMIDMap, sna32LTE s.mid lastMID = false → s ∈ q'.unorderedMIDMap) ∧
    (∀ s ∈ q.unorderedMIDMap, s ∉ q'.unorderedMIDMap → sna32LTE s.mid lastMID = true) ∧
    q'.nBytes.toNat + bytesOfMIDSets (q.unorderedMIDMap.filter (fun s => sna32LTE s.mid lastMID)) = q.nBytes.toNat ∧
    q'.unorderedMID = q.unorderedMID ∧ q'.orderedMID = q.orderedMID ∧ q'.nextMID = q.nextMID ∧
    q'.ordered = q.ordered ∧ q'.unordered = q.unordered ∧ q'.unorderedChunks = q.unorderedChunks ∧
    q'.nextSSN = q.nextSSN := by
  intro q'
  have hord : q'.unorderedMIDMap = q.unorderedMIDMap.filter (fun s => !sna32LTE s.mid lastMID) := by
    show (q.forwardTSNForUnorderedMID lastMID).unorderedMIDMap = _
    simp only [Q.forwardTSNForUnorderedMID]; exact fwdUnorderedMIDLoop_keep ..
  refine ⟨hord, by rw [hord]; exact List.filter_sublist, ?_, ?_, ?_, rfl, rfl, rfl, rfl, rfl, rfl, rfl⟩
  · intro s hs hle; rw [hord, List.mem_filter]; exact ⟨hs, by simp [hle]⟩
  · intro s hs hnot
    rw [hord, List.mem_filter] at hnot
    cases h2 : sna32LTE s.mid lastMID <;> simp_all
  · show (q.forwardTSNForUnorderedMID lastMID).nBytes.toNat + _ = _
    have : (q.forwardTSNForUnorderedMID lastMID).nBytes = (fwdUnorderedMIDLoop lastMID q.unorderedMIDMap q.nBytes).1 := by
      simp only [Q.forwardTSNForUnorderedMID]
    rw [this]
    exact fwdUnorderedMIDLoop_bytes lastMID q.unorderedMIDMap q.nBytes hc hb

/-- ✱ DATA, unordered (TSN): the code removes the LEADING run of fragments whose TSN is not serially after
`newCumulativeTSN` (it stops at the first later one). `unorderedChunks` holds only fragments of messages that are not
complete yet; completed unordered messages (`unordered`), the ordered containers and both cursors are untouched.
When "later than the new cumulative TSN" is monotone along the slice — it is for a TSN-sorted slice inside a
half-space window, which `pushWithError` maintains — that leading run is EVERY fragment at or below the point, and
every later fragment is kept. -/
theorem C07_reasm_purge_exact_unordered (q : Q) (t : BitVec 32)
    (hc : bytesOf q.unorderedChunks ≤ q.nBytes.toNat) (hb : q.nBytes.toNat < 2^63) :
    let q' := q.forwardTSNForUnordered t
    q'.unorderedChunks = q.unorderedChunks.dropWhile (fun c => !sna32GT c.tsn t) ∧
    q'.nBytes.toNat + bytesOf (q.unorderedChunks.takeWhile (fun c => !sna32GT c.tsn t)) = q.nBytes.toNat ∧
    (q.unorderedChunks.Pairwise (fun a b => sna32GT a.tsn t = true → sna32GT b.tsn t = true) →
      q'.unorderedChunks = q.unorderedChunks.filter (fun c => sna32GT c.tsn t) ∧
      q'.nBytes.toNat + bytesOf (q.unorderedChunks.filter (fun c => !sna32GT c.tsn t)) = q.nBytes.toNat) ∧
    q'.unordered = q.unordered ∧ q'.ordered = q.ordered ∧ q'.nextSSN = q.nextSSN ∧
    q'.orderedMID = q.orderedMID ∧ q'.unorderedMID = q.unorderedMID ∧ q'.unorderedMIDMap = q.unorderedMIDMap ∧
    q'.nextMID = q.nextMID := by
  intro q'
  have hq' : q' = _ := forwardTSNForUnordered_eq q t
  have hbytes : q'.nBytes.toNat + bytesOf (q.unorderedChunks.takeWhile (fun c => !sna32GT c.tsn t)) = q.nBytes.toNat := by
    rw [hq']
    have hle : bytesOf (q.unorderedChunks.takeWhile (fun c => !sna32GT c.tsn t)) ≤ q.nBytes.toNat := by
      have := bytesOf_take_drop q.unorderedChunks (fwdUnorderedPrefix t q.unorderedChunks)
      rw [take_fwdUnorderedPrefix] at this
      omega
    have := subChunks_exact _ q.nBytes hle hb
    simp only
    omega
  refine ⟨by rw [hq'], hbytes, ?_, by rw [hq'], by rw [hq'], by rw [hq'], by rw [hq'], by rw [hq'], by rw [hq'],
    by rw [hq']⟩
  intro hmono
  refine ⟨?_, ?_⟩
  · rw [hq']; exact dropWhile_not_eq_filter _ _ hmono
  · rw [← takeWhile_not_eq_filter _ _ hmono]; exact hbytes

/-- the premise of the third clause of `C07_reasm_purge_exact_unordered` is what an honest peer gives: fragments with TSNs
`t0 + o`, offsets strictly increasing and below 2^31 (the slice is TSN-sorted by `pushWithError`, the association's window),
new cumulative TSN `t0 + τ` with `τ < 2^31`. Then EXACTLY the fragments at or below the point are removed and their bytes given
back, every later fragment is kept in order. -/
theorem C07_reasm_purge_exact_unordered_window (q : Q) (t0 : BitVec 32) (τ : Nat) (hτ : τ < 2^31) (offs : List Nat)
    (hmap : q.unorderedChunks.map (·.tsn) = offs.map (fun o => t0 + BitVec.ofNat 32 o))
    (hs : offs.Pairwise (· < ·)) (hlt : ∀ o ∈ offs, o < 2^31)
    (hc : bytesOf q.unorderedChunks ≤ q.nBytes.toNat) (hb : q.nBytes.toNat < 2^63) :
    let t := t0 + BitVec.ofNat 32 τ
    let q' := q.forwardTSNForUnordered t
    q'.unorderedChunks = q.unorderedChunks.filter (fun c => sna32GT c.tsn t) ∧
    q'.nBytes.toNat + bytesOf (q.unorderedChunks.filter (fun c => !sna32GT c.tsn t)) = q.nBytes.toNat :=
  (C07_reasm_purge_exact_unordered q (t0 + BitVec.ofNat 32 τ) hc hb).2.2.1
    (unordered_window_mono t0 τ hτ q.unorderedChunks offs hmap hs hlt)

/-! ## Part 2: honest runs with skips — ordered DATA (SSN, window 2^15) and ordered I-DATA (MID, window 2^31) -/

/-- ✱ **headline.** For every admissible run (pushes in any order, reads of any size, skips) from the empty queue there
is a list `D` of message indices such that
1. the successful reads returned exactly the messages `D`, in this order, each with its PPI and its whole payload;
2. `D` is strictly increasing and inside the stream — so the reads are a SUBSEQUENCE of the written messages in write
   order: nothing twice, nothing out of order, nothing truncated or spliced;
3. nothing that was not abandoned is lost because of a skip: a message that is not abandoned and whose fragments were
   all handed over is in `D` or sits complete in `ordered` (where a later read finds it);
4. and it IS in `D` once the application has drained the queue (`isReadable = false`), provided every earlier message
   was either handed over completely (and is not abandoned) or is covered by a skip of the run. -/
theorem C07_reasm_skip_then_deliver (S : Sender) (hS : S.WF) (K : Nat → Bool) (maxEntries : BitVec 32)
    (ops : List SOp)
    (hadm : S.AdmissibleS K S.dataFr (new S.si maxEntries) 0 0 [] ops) :
    ∃ D : List Nat,
      S.dataFr.deliveries (new S.si maxEntries) ops = D.map (fun k => (S.msg k).out) ∧
      D.Pairwise (· < ·) ∧ (∀ k ∈ D, k < S.msgs.length) ∧
      (S.dataFr.deliveries (new S.si maxEntries) ops).Sublist (S.msgs.map Msg.out) ∧
      (∀ k, k < S.msgs.length → K k = false → (∀ i, i < S.nf k → (k, i) ∈ pushedS ops) →
        k ∈ D ∨ S.concSet (k, List.range (S.nf k)) ∈ (S.dataFr.run (new S.si maxEntries) ops).ordered) ∧
      ((S.dataFr.run (new S.si maxEntries) ops).isReadable = false →
        ∀ k, k < S.msgs.length → K k = false → (∀ i, i < S.nf k → (k, i) ∈ pushedS ops) →
          (∀ k', k' < k → (K k' = false ∧ ∀ i, i < S.nf k' → (k', i) ∈ pushedS ops) ∨ (∃ L ∈ skipsS ops, k' ≤ L)) →
          k ∈ D) := by
  obtain ⟨f', c', A', P', D, hinv, hdel, hP', _, hsk⟩ := SkipInv.run hS K ops (SkipInv_new S K maxEntries) hadm
  simp only [List.nil_append, List.not_mem_nil, false_or] at hinv hP'
  have hlen : ∀ k ∈ D, k < S.msgs.length := fun k hk => (hinv.dlt k hk).2.1
  have hdel' : S.dataFr.deliveries (new S.si maxEntries) ops = D.map (fun k => (S.msg k).out) := hdel
  have hall : ∀ k, (∀ i, i < S.nf k → (k, i) ∈ pushedS ops) → ∀ i, i < S.nf k → (k, i) ∈ P' :=
    fun k h i hi => (hP' _).2 (h i hi)
  refine ⟨D, hdel', hinv.dsorted, hlen, ?_, ?_, ?_⟩
  · rw [hdel']
    have := map_getD_sublist (S.msgs.map Msg.out) (default : Msg).out D 0 hinv.dsorted
      (fun k hk => ⟨Nat.zero_le _, by simpa using hlen k hk⟩)
    simp only [List.drop_zero] at this
    have e : D.map (fun k => (S.msg k).out) = D.map (fun k => (S.msgs.map Msg.out).getD k (default : Msg).out) := by
      apply List.map_congr_left
      intro k hk
      have := hlen k hk
      simp [Sender.msg, List.getD_eq_getElem?_getD, List.getElem?_eq_getElem this]
    rw [e]; exact this
  · intro k hk hK hpush
    rcases hinv.kept hS hk hK (hall k hpush) with h | h
    · exact .inl h
    · right; rw [hinv.tab.ord]; exact List.mem_map_of_mem h
  · intro hnr k hk hK hpush hpred
    have hkc : k ≤ c' := by
      rcases Nat.lt_or_ge c' k with hlt | hge
      · exfalso
        rcases hpred c' hlt with ⟨hK', hp'⟩ | ⟨L, hL, hle⟩
        · have := hinv.drained hS hnr (by omega) (Nat.le_refl _) hK' (hall c' hp')
          have := (hinv.dlt c' this).1
          omega
        · have := hsk L hL; omega
      · exact hge
    exact hinv.drained hS hnr hk hkc hK (hall k hpush)

/-- ✱ **headline, I-DATA** (MID / FSN reassembly, `forwardTSNForOrderedMID`, window 2^31; the TSNs `τ` are arbitrary — I-DATA
reassembly never looks at them). Same statement: for every admissible run (pushes in any order, reads of any size, skips) from the empty queue there
is a list `D` of message indices such that
1. the successful reads returned exactly the messages `D`, in this order, each with its PPI and its whole payload;
2. `D` is strictly increasing and inside the stream — so the reads are a SUBSEQUENCE of the written messages in write
   order: nothing twice, nothing out of order, nothing truncated or spliced;
3. nothing that was not abandoned is lost because of a skip: a message that is not abandoned and whose fragments were
   all handed over is in `D` or sits complete in `orderedMID` (where a later read finds it);
4. and it IS in `D` once the application has drained the queue (`isReadable = false`), provided every earlier message
   was either handed over completely (and is not abandoned) or is covered by a skip of the run. -/
theorem C07_reasm_skip_then_deliver_idata (S : Sender) (hS : S.WF) (τ : Nat → Nat → BitVec 32) (K : Nat → Bool)
    (maxEntries : BitVec 32)
    (ops : List SOp)
    (hadm : S.AdmissibleS K (S.idataFr τ) (new S.si maxEntries) 0 0 [] ops) :
    ∃ D : List Nat,
      (S.idataFr τ).deliveries (new S.si maxEntries) ops = D.map (fun k => (S.msg k).out) ∧
      D.Pairwise (· < ·) ∧ (∀ k ∈ D, k < S.msgs.length) ∧
      ((S.idataFr τ).deliveries (new S.si maxEntries) ops).Sublist (S.msgs.map Msg.out) ∧
      (∀ k, k < S.msgs.length → K k = false → (∀ i, i < S.nf k → (k, i) ∈ pushedS ops) →
        k ∈ D ∨ S.concSetMID τ (k, List.range (S.nf k)) ∈ ((S.idataFr τ).run (new S.si maxEntries) ops).orderedMID) ∧
      (((S.idataFr τ).run (new S.si maxEntries) ops).isReadable = false →
        ∀ k, k < S.msgs.length → K k = false → (∀ i, i < S.nf k → (k, i) ∈ pushedS ops) →
          (∀ k', k' < k → (K k' = false ∧ ∀ i, i < S.nf k' → (k', i) ∈ pushedS ops) ∨ (∃ L ∈ skipsS ops, k' ≤ L)) →
          k ∈ D) := by
  obtain ⟨f', c', A', P', D, hinv, hdel, hP', _, hsk⟩ := SkipInvM.run hS K ops (SkipInvM_new S τ K maxEntries) hadm
  simp only [List.nil_append, List.not_mem_nil, false_or] at hinv hP'
  have hlen : ∀ k ∈ D, k < S.msgs.length := fun k hk => (hinv.dlt k hk).2.1
  have hdel' : (S.idataFr τ).deliveries (new S.si maxEntries) ops = D.map (fun k => (S.msg k).out) := hdel
  have hall : ∀ k, (∀ i, i < S.nf k → (k, i) ∈ pushedS ops) → ∀ i, i < S.nf k → (k, i) ∈ P' :=
    fun k h i hi => (hP' _).2 (h i hi)
  refine ⟨D, hdel', hinv.dsorted, hlen, ?_, ?_, ?_⟩
  · rw [hdel']
    have := map_getD_sublist (S.msgs.map Msg.out) (default : Msg).out D 0 hinv.dsorted
      (fun k hk => ⟨Nat.zero_le _, by simpa using hlen k hk⟩)
    simp only [List.drop_zero] at this
    have e : D.map (fun k => (S.msg k).out) = D.map (fun k => (S.msgs.map Msg.out).getD k (default : Msg).out) := by
      apply List.map_congr_left
      intro k hk
      have := hlen k hk
      simp [Sender.msg, List.getD_eq_getElem?_getD, List.getElem?_eq_getElem this]
    rw [e]; exact this
  · intro k hk hK hpush
    rcases hinv.kept hS hk hK (hall k hpush) with h | h
    · exact .inl h
    · right; rw [hinv.tab.ord]; exact List.mem_map_of_mem h
  · intro hnr k hk hK hpush hpred
    have hkc : k ≤ c' := by
      rcases Nat.lt_or_ge c' k with hlt | hge
      · exfalso
        rcases hpred c' hlt with ⟨hK', hp'⟩ | ⟨L, hL, hle⟩
        · have := hinv.drained hS hnr (by omega) (Nat.le_refl _) hK' (hall c' hp')
          have := (hinv.dlt c' this).1
          omega
        · have := hsk L hL; omega
      · exact hge
    exact hinv.drained hS hnr hk hkc hK (hall k hpush)

/-- one-step form (any state the invariant describes is reachable only through it, so this is stated on the
handler itself): a COMPLETE set at or below the skip point is not removed by `forwardTSNForOrdered`, and if it is the
first set held it is readable right after the skip — "complete but not yet read" messages survive a skip and are
still delivered. -/
theorem C07_reasm_complete_survives_skip (q : Q) (lastSSN : BitVec 16) (s : ChunkSet) (rest : List ChunkSet)
    (hq : q.ordered = s :: rest) (hcomp : s.isComplete = true)
    (hil : q.useInterleaving = false) :
    ∃ rest', (q.forwardTSNForOrdered lastSSN).ordered = s :: rest' ∧
      ((q.forwardTSNForOrdered lastSSN).unordered = [] →
        (sna16LTE s.ssn (q.forwardTSNForOrdered lastSSN).nextSSN = true →
          (q.forwardTSNForOrdered lastSSN).isReadable = true)) := by
  refine ⟨rest.filter (fun s => !purgedO lastSSN s), ?_, ?_⟩
  · rw [fwdO_ordered, hq, List.filter_cons]
    simp [purgedO, hcomp]
  · intro hun hcur
    have ho : (q.forwardTSNForOrdered lastSSN).ordered = s :: rest.filter (fun s => !purgedO lastSSN s) := by
      rw [fwdO_ordered, hq, List.filter_cons]; simp [purgedO, hcomp]
    unfold Q.isReadable
    rw [(fwdO_rest q lastSSN).2.1, hil, hun, ho]
    simp [hcomp, hcur]

/-! ## non-vacuity (tests, by evaluation)

Four messages on stream 3, starting at the TSN wrap: message 0 (2 fragments) ABANDONED, nothing of it ever arrives —
the first message of the stream; message 1 (1 fragment) reliable; message 2 (3 fragments) ABANDONED after one fragment
arrived; message 3 (2 fragments) reliable, one fragment arrives before the skips and one after. A late fragment of
message 2 arrives after its skip. -/
private def S1 : Sender :=
  { si := 3, t0 := 0xFFFFFFFE#32,
    msgs := [{ ppi := 50, frags := [[1], [2]] }, { ppi := 51, frags := [[3, 4]] },
             { ppi := 52, frags := [[5], [6], [7]] }, { ppi := 53, frags := [[8], [9]] }] }
private def K1 : Nat → Bool := fun k => k == 0 || k == 2
private def ops1 : List SOp :=
  [.push 1 0, .push 2 1, .push 3 1, .read 100, .skip 0, .read 100, .skip 2, .push 3 0, .push 2 0, .read 1, .read 100,
   .read 100]
example : S1.WF := by unfold Sender.WF; decide
example : S1.AdmissibleS K1 S1.dataFr (new S1.si 0) 0 0 [] ops1 := by decide
example : S1.dataFr.deliveries (new S1.si 0) ops1 = [(51, [3, 4]), (53, [8, 9])] := by decide
example : (S1.dataFr.run (new S1.si 0) ops1).isReadable = false := by decide
example : (S1.dataFr.run (new S1.si 0) ops1).nBytes = 0 := by decide
-- a skip that passes a complete, unread, reliable message: it is kept and still delivered
private def ops2 : List SOp := [.push 1 0, .skip 0, .skip 2, .read 100, .push 3 0, .push 3 1, .read 100]
example : S1.AdmissibleS K1 S1.dataFr (new S1.si 0) 0 0 [] ops2 := by decide
example : S1.dataFr.deliveries (new S1.si 0) ops2 = [(51, [3, 4]), (53, [8, 9])] := by decide
-- the premise is needed: a skip over a reliable message that has NOT arrived completely is not admissible
example : ¬ S1.AdmissibleS K1 S1.dataFr (new S1.si 0) 0 0 [] [.skip 2] := by decide

-- ... and what it protects from (component-level shadow of known finding D24, where the entry stems from another stream
-- incarnation): a skip that passes the reliable message 1 before it has arrived makes the queue drop it at the door
private def opsBad : List SOp := [.skip 2, .push 1 0, .read 100, .push 3 0, .push 3 1, .read 100]
example : ¬ S1.AdmissibleS K1 S1.dataFr (new S1.si 0) 0 0 [] opsBad := by decide
example : S1.dataFr.deliveries (new S1.si 0) opsBad = [(53, [8, 9])] := by decide

-- I-DATA: first message abandoned (nothing received), message 2 abandoned after one fragment, 1 and 3 reliable
private def ops3 : List SOp := [.push 1 0, .push 2 1, .skip 0, .read 100, .skip 2, .push 3 1, .push 3 0, .read 100]
example : S1.AdmissibleS K1 (S1.idataFr fun _ _ => 7) (new S1.si 0) 0 0 [] ops3 := by decide
example : (S1.idataFr fun _ _ => 7).deliveries (new S1.si 0) ops3 = [(51, [3, 4]), (53, [8, 9])] := by decide

end C07
