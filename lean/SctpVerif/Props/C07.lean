import SctpVerif.Proofs.Sender
/-!
# C07 — abandoned messages never block or destroy anything else (SENDER SIDE: what the peer is told to skip)

Property theorems only, about the L0 model `Sender` (`Model/Sender.lean`: hand-written mirror of the send / acknowledgement
paths of association.go, tied to the code by the direct-drive correspondence runs — every `as` line of the real
`Association`, including the FORWARD-TSN / I-FORWARD-TSN chunk a gather emits, is replayed through it and compared).

What is covered here: the sender half of the statement — *the peer is told to skip exactly the abandoned messages*:
which TSNs the advanced peer ack point (the "new cumulative TSN" of FORWARD-TSN / I-FORWARD-TSN) walks over, that it
walks as far as it can, that the chunk is (re)sent until the peer confirms it, what its stream list contains, that
abandonment is permanent and touches only messages whose stream policy allows it, and that no retransmission path flags
or sends an abandoned chunk.

What is NOT covered here (still exploration level: the e2e `pr` scenarios and their predicates): the RECEIVER half
(`handleForwardTSN` / `forwardTSNFor*`: nothing that was not abandoned is discarded, later messages are delivered) and
the composition of the two halves over a faulty network.

Quantification: ALL configurations with `MTU < 2^30` (`CfgOk`) and partial reliability negotiated (`prEnabled`), ALL
operation lists from `init` (`openS / unreg / setEstablished / write / gather / sack / t3 / tick` with arbitrary SACK
contents), ALL oracle values (burst budget machine, pending-queue selection, RACK/PTO marks, T3 expiries per tick).
`TsnOk` is the run premise serial-number arithmetic needs: fewer than 2^31 TSNs outstanding in every state of the run
(decidable; examples show real runs satisfy it).

`s.abandoned c` is `chunkPayloadData.abandoned()`: the head fragment of the chunk's message is flagged abandoned AND all
fragments of the message are in flight.
-/
namespace C07
open Gen Sender SenderProofs

private theorem reach (cfg : Cfg) (tsn peerRwnd : BitVec 32) (hc : CfgOk cfg) (hpr : cfg.prEnabled = true) (ops : List Op)
    (hok : TsnOk (init cfg tsn peerRwnd) ops) :
    Seq (run (init cfg tsn peerRwnd) ops) ∧ WinInv (run (init cfg tsn peerRwnd) ops) ∧ AdvInv (run (init cfg tsn peerRwnd) ops) ∧
    (run (init cfg tsn peerRwnd) ops).cfg = cfg ∧ (run (init cfg tsn peerRwnd) ops).inflight.length < 2^31 :=
  ⟨run_seq _ ops (init_seq cfg tsn peerRwnd) (init_win cfg tsn peerRwnd hc),
   (run_win _ ops (init_win cfg tsn peerRwnd hc)).1,
   run_adv _ ops (init_seq cfg tsn peerRwnd) (init_win cfg tsn peerRwnd hc) hpr (init_adv cfg tsn peerRwnd) hok,
   run_cfg _ ops hc, hok.last⟩

/-- **The skip covers abandoned chunks only.** In every reachable state the advanced peer ack point — what FORWARD-TSN /
I-FORWARD-TSN carry as new cumulative TSN — lies inside the in-flight queue, not behind the cumulative ack point, and
every in-flight chunk whose TSN lies in (cumAck, advPeerAck] is abandoned: the point never walks over a chunk that is
merely gap-acked, nor over a chunk of a message that is still being (re)transmitted. -/
theorem C07_skip_only_abandoned (cfg : Cfg) (tsn peerRwnd : BitVec 32) (hc : CfgOk cfg) (hpr : cfg.prEnabled = true) (ops : List Op)
    (hok : TsnOk (init cfg tsn peerRwnd) ops) :
    ((run (init cfg tsn peerRwnd) ops).advPeerAck - (run (init cfg tsn peerRwnd) ops).cumAck).toNat ≤ (run (init cfg tsn peerRwnd) ops).inflight.length ∧
    ∀ c ∈ (run (init cfg tsn peerRwnd) ops).inflight,
      sna32LT (run (init cfg tsn peerRwnd) ops).cumAck c.tsn = true → sna32LTE c.tsn (run (init cfg tsn peerRwnd) ops).advPeerAck = true →
      (run (init cfg tsn peerRwnd) ops).abandoned c = true := by
  obtain ⟨hs, _, ha, _, hsm⟩ := reach cfg tsn peerRwnd hc hpr ops hok
  refine ⟨ha.le, ?_⟩
  intro c hmem h1 h2
  obtain ⟨i, hi, hget⟩ := List.getElem_of_mem hmem
  have hq : (run (init cfg tsn peerRwnd) ops).inflight[i]? = some c := by rw [List.getElem?_eq_getElem hi, hget]
  have ht := contig_getElem hs.1 hq
  apply ha.ab i c ?_ hq
  have hle := ha.le
  have e : (BitVec.ofNat 32 i).toNat = i := by simp [BitVec.toNat_ofNat]; omega
  simp only [sna32LTE, sna32LT, Bool.or_eq_true, beq_iff_eq, Bool.and_eq_true, decide_eq_true_eq] at h2
  rw [ht] at h2
  rcases h2 with h2 | h2 <;> bv_omega

/-- non-vacuity: stream 2 allows no retransmission; its message (TSN 101) is abandoned when sent, the reliable messages
before and after it (TSN 100, 102) are not. The first SACK acknowledges 100 and gap-acks 102: the point advances over 101
only (not over the gap-acked 102); `TsnOk` holds. -/
example :
    let ops := [Op.openS 1 false 0 0 0, .openS 2 false 1 0 0, .write 1 53 10, .write 2 53 20, .write 1 53 30,
      .gather freeOracle [0, 0, 0], .sack 100 65536 [(2, 2)] []]
    let s := run (init { mtu := 1200, maxPayload := 1172 } 100 65536) ops
    TsnOk (init { mtu := 1200, maxPayload := 1172 } 100 65536) ops ∧
    (s.cumAck, s.advPeerAck, s.inflight.map (fun c => (c.tsn, s.abandoned c, c.acked)), s.willSendForwardTSN) =
      (100#32, 101#32, [(101#32, true, false), (102#32, false, true)], true) := by decide

/-- **The skip is maximal.** After an accepted SACK and after a T3 expiry the chunk right after the advanced peer ack
point, if in flight, is NOT abandoned: the peer is told about every abandoned chunk it can be told about. -/
theorem C07_skip_maximal (cfg : Cfg) (tsn peerRwnd : BitVec 32) (hc : CfgOk cfg) (hpr : cfg.prEnabled = true) (ops : List Op)
    (hok : TsnOk (init cfg tsn peerRwnd) ops) :
    (∀ cum arwnd gaps marks, (sack (run (init cfg tsn peerRwnd) ops) cum arwnd gaps marks).2 = .ok → ∀ off c,
      Sender.get (sack (run (init cfg tsn peerRwnd) ops) cum arwnd gaps marks).1.inflight
        ((sack (run (init cfg tsn peerRwnd) ops) cum arwnd gaps marks).1.advPeerAck + 1) = some (off, c) →
      (sack (run (init cfg tsn peerRwnd) ops) cum arwnd gaps marks).1.abandoned c = false) ∧
    (∀ off c, Sender.get (t3 (run (init cfg tsn peerRwnd) ops)).inflight ((t3 (run (init cfg tsn peerRwnd) ops)).advPeerAck + 1) = some (off, c) →
      (t3 (run (init cfg tsn peerRwnd) ops)).abandoned c = false) := by
  obtain ⟨hs, hw, ha, hcfg, hsm⟩ := reach cfg tsn peerRwnd hc hpr ops hok
  have hpr' : (run (init cfg tsn peerRwnd) ops).cfg.prEnabled = true := by rw [hcfg]; exact hpr
  exact ⟨fun cum arwnd gaps marks hok' => sack_stop _ cum arwnd gaps marks hs hsm hw.cfgOk hpr' ha hok',
    t3_stop _ hs (by omega) hpr' ha⟩

/-- non-vacuity: two abandoned messages in a row (TSN 100, 101), then a reliable one (102): T3 advances the point to 101 and
stops in front of 102, which is in flight and not abandoned -/
example :
    let s := t3 (run (init { mtu := 1200, maxPayload := 1172 } 100 65536)
      [.openS 1 false 0 0 0, .openS 2 true 1 0 0, .write 2 53 10, .write 2 53 20, .write 1 53 30, .gather freeOracle [0, 0, 0]])
    (s.advPeerAck, (Sender.get s.inflight (s.advPeerAck + 1)).map (fun oc => (oc.2.tsn, s.abandoned oc.2))) = (101#32, some (102#32, false)) := by
  decide

/-- **The FORWARD-TSN is (re)sent until the peer confirms it.** (1) After an accepted SACK and (2) after every T3 expiry:
advanced peer ack point ahead of the cumulative point ⇒ `willSendForwardTSN` is up. (3) A gather in state established
always leaves the flag down, and it emits a FORWARD-TSN / I-FORWARD-TSN exactly when the flag was up and the point was
ahead; the chunk carries the advanced peer ack point and the stream list of the state the gather leaves (see
`C07_forward_lists_exact`). So while the peer has not acknowledged the skip, every T3 expiry makes the next gather send
it again. -/
theorem C07_forward_flag (cfg : Cfg) (tsn peerRwnd : BitVec 32) (hc : CfgOk cfg) (hpr : cfg.prEnabled = true) (ops : List Op)
    (hok : TsnOk (init cfg tsn peerRwnd) ops) :
    (∀ cum arwnd gaps marks, (sack (run (init cfg tsn peerRwnd) ops) cum arwnd gaps marks).2 = .ok →
      sna32GT (sack (run (init cfg tsn peerRwnd) ops) cum arwnd gaps marks).1.advPeerAck (sack (run (init cfg tsn peerRwnd) ops) cum arwnd gaps marks).1.cumAck = true →
      (sack (run (init cfg tsn peerRwnd) ops) cum arwnd gaps marks).1.willSendForwardTSN = true) ∧
    (sna32GT (t3 (run (init cfg tsn peerRwnd) ops)).advPeerAck (t3 (run (init cfg tsn peerRwnd) ops)).cumAck = true →
      (t3 (run (init cfg tsn peerRwnd) ops)).willSendForwardTSN = true) ∧
    (∀ orc sel, (run (init cfg tsn peerRwnd) ops).established = true →
      (gather (run (init cfg tsn peerRwnd) ops) orc sel).1.willSendForwardTSN = false ∧
      ((gather (run (init cfg tsn peerRwnd) ops) orc sel).2.fwd.isSome = true ↔
        ((run (init cfg tsn peerRwnd) ops).willSendForwardTSN = true ∧
         sna32GT (run (init cfg tsn peerRwnd) ops).advPeerAck (run (init cfg tsn peerRwnd) ops).cumAck = true)) ∧
      (∀ f, (gather (run (init cfg tsn peerRwnd) ops) orc sel).2.fwd = some f →
        f = (if cfg.useIForwardTSN then Fwd.ifwd (run (init cfg tsn peerRwnd) ops).advPeerAck (iForwardTSN (gather (run (init cfg tsn peerRwnd) ops) orc sel).1).2
             else Fwd.fwd (run (init cfg tsn peerRwnd) ops).advPeerAck (forwardTSN (gather (run (init cfg tsn peerRwnd) ops) orc sel).1).2))) := by
  obtain ⟨hs, hw, ha, hcfg, hsm⟩ := reach cfg tsn peerRwnd hc hpr ops hok
  have hpr' : (run (init cfg tsn peerRwnd) ops).cfg.prEnabled = true := by rw [hcfg]; exact hpr
  refine ⟨fun cum arwnd gaps marks h1 h2 => sack_flag _ cum arwnd gaps marks hs hsm hw.cfgOk hpr' ha h1 h2, t3_flag _ hpr', ?_⟩
  intro orc sel he
  obtain ⟨g1, g2⟩ := gather_fwd _ orc sel he
  refine ⟨gather_flag _ orc sel he, ?_, ?_⟩
  · rw [g1, hcfg]
    constructor
    · intro h; exact ⟨h.1, h.2.1⟩
    · intro h; exact ⟨h.1, h.2, Or.inr hpr⟩
  · intro f hf
    have := g2 f hf
    rw [hcfg] at this
    exact this

/-- non-vacuity: the abandoned message (TSN 100) is skipped by a FORWARD-TSN after T3; the gather sends it and lowers the
flag; the peer stays silent, T3 expires again: the flag is up again and the next gather sends the same FORWARD-TSN -/
example :
    let s0 := run (init { mtu := 1200, maxPayload := 1172 } 100 65536)
      [.openS 1 false 0 0 0, .openS 2 false 1 0 0, .write 2 53 10, .write 1 53 30, .gather freeOracle [0, 0], .t3]
    let s1 := (gather s0 freeOracle []).1
    (s0.willSendForwardTSN, (gather s0 freeOracle []).2.fwd == some (.fwd 100 [(2, 0)]), s1.willSendForwardTSN,
     (t3 s1).willSendForwardTSN, (gather (t3 s1) freeOracle []).2.fwd == some (.fwd 100 [(2, 0)])) = (true, true, false, true, true) := by
  decide

/-- **Abandonment is permanent.** Whatever happens afterwards (any operations, any oracle values, no premise at all): a
message whose head is flagged abandoned stays flagged, a message all of whose fragments are in flight stays so; hence a
chunk that is `abandoned()` in some state is `abandoned()` in every later state. -/
theorem C07_abandonment_monotone (s : St) (ops : List Op) (c : Chunk) (h : s.abandoned c = true) : (run s ops).abandoned c = true :=
  (run_abLe s ops).abandoned rfl h

example :
    let s := run (init { mtu := 1200, maxPayload := 1172 } 100 65536) [.openS 2 false 1 0 0, .write 2 53 10, .gather freeOracle [0]]
    s.inflight.map (fun c => s.abandoned c) = [true] := by decide

/-- what "the lists are exact" says about a state: (1) both builders scan exactly the chunks in (cumAck, advPeerAck] — the
first `advPeerAck − cumAck` chunks of the queue — and all of them are abandoned; (2) FORWARD-TSN: new cumulative TSN =
advanced peer ack point; one entry per stream; every entry is (stream, SSN) of an abandoned ORDERED chunk in the range
(unordered ones are not listed: D5a fix); every stream with an ordered chunk in the range has an entry, and that entry is
the greatest SSN of those chunks whenever the SSNs of the stream in the range lie in one half-space window (fewer than
2^15 ordered messages of a stream skipped at once); (3) I-FORWARD-TSN: the same with keys (stream, unordered flag) and
message identifiers. -/
def FwdExact (s : St) : Prop :=
  fwdChunks s = s.inflight.take (s.advPeerAck - s.cumAck).toNat ∧
  (∀ c ∈ fwdChunks s, s.abandoned c = true) ∧
  ((forwardTSN s).1 = s.advPeerAck ∧ ((forwardTSN s).2.map (·.1)).Nodup ∧
   (∀ e ∈ (forwardTSN s).2, ∃ c ∈ fwdChunks s, s.abandoned c = true ∧ c.unordered = false ∧ c.si = e.1 ∧ c.ssn = e.2) ∧
   (∀ base : BitVec 16 → BitVec 16, (∀ c ∈ fwdChunks s, c.unordered = false → (c.ssn - base c.si).toNat < 2^15) →
     ∀ c ∈ fwdChunks s, c.unordered = false → ∃ ssn, (c.si, ssn) ∈ (forwardTSN s).2 ∧ sna16LTE c.ssn ssn = true)) ∧
  ((iForwardTSN s).1 = s.advPeerAck ∧ ((iForwardTSN s).2.map (·.1)).Nodup ∧
   (∀ e ∈ (iForwardTSN s).2, ∃ c ∈ fwdChunks s, s.abandoned c = true ∧ (c.si, c.unordered) = e.1 ∧ c.mid = e.2) ∧
   (∀ base : BitVec 16 × Bool → BitVec 32, (∀ c ∈ fwdChunks s, (c.mid - base (c.si, c.unordered)).toNat < 2^31) →
     ∀ c ∈ fwdChunks s, ∃ mid, ((c.si, c.unordered), mid) ∈ (iForwardTSN s).2 ∧ sna32LTE c.mid mid = true))

/-- **The stream lists are exact** in every reachable state (hence in the state a gather leaves, which is the one whose
lists go on the wire: `C07_forward_flag`): see `FwdExact`. Nothing of a message that is not abandoned is listed. -/
theorem C07_forward_lists_exact (cfg : Cfg) (tsn peerRwnd : BitVec 32) (hc : CfgOk cfg) (hpr : cfg.prEnabled = true) (ops : List Op)
    (hok : TsnOk (init cfg tsn peerRwnd) ops) : FwdExact (run (init cfg tsn peerRwnd) ops) := by
  obtain ⟨hs, _, ha, _, hsm⟩ := reach cfg tsn peerRwnd hc hpr ops hok
  generalize run (init cfg tsn peerRwnd) ops = s at hs ha hsm
  have hch := fwdChunks_eq s hs hsm ha
  have hab : ∀ c ∈ fwdChunks s, s.abandoned c = true := by
    intro c hmem
    rw [hch] at hmem
    obtain ⟨i, hi, hget⟩ := List.getElem_of_mem hmem
    rw [List.getElem_take] at hget
    have hi' : i < (s.advPeerAck - s.cumAck).toNat := by
      rw [List.length_take] at hi; omega
    have hil : i < s.inflight.length := by rw [List.length_take] at hi; omega
    exact ha.ab i c hi' (by rw [List.getElem?_eq_getElem hil, hget])
  obtain ⟨f1, f2, f3⟩ := fwdStreams_spec (fwdChunks s)
  obtain ⟨g1, g2, g3⟩ := ifwdStreams_spec (fwdChunks s)
  refine ⟨hch, hab, ⟨rfl, f1, ?_, f3⟩, ⟨rfl, g1, ?_, g3⟩⟩
  · intro e he
    obtain ⟨c, c1, c2, c3, c4⟩ := f2 e he
    exact ⟨c, c1, hab c c1, c2, c3, c4⟩
  · intro e he
    obtain ⟨c, c1, c2, c3⟩ := g2 e he
    exact ⟨c, c1, hab c c1, c2, c3⟩

/-- non-vacuity: ordered stream 2 and unordered stream 3 allow no retransmission, stream 1 is reliable. Written: two
ordered messages on 2 (SSN 0, 1), one unordered on 3, a reliable one on 1. After T3 the point covers TSN 100..102; the
FORWARD-TSN lists stream 2 with SSN 1 (the greater), not the unordered stream 3, not stream 1; the I-FORWARD-TSN of the
interleaving variant lists (2, ordered, MID 1) and (3, unordered, MID 0). -/
example :
    let ops := [Op.openS 1 false 0 0 0, .openS 2 false 1 0 0, .openS 3 true 1 0 0, .write 2 53 10, .write 2 53 20, .write 3 53 5, .write 1 53 30,
      .gather freeOracle [0, 0, 0, 0], .t3]
    let s := run (init { mtu := 1200, maxPayload := 1172 } 100 65536) ops
    let s' := run (init { mtu := 1200, maxPayload := 1168, useInterleaving := true, useIForwardTSN := true } 100 65536) ops
    TsnOk (init { mtu := 1200, maxPayload := 1172 } 100 65536) ops ∧
    (fwdChunks s).map (·.tsn) = [100#32, 101#32, 102#32] ∧ forwardTSN s = (102#32, [(2#16, 1#16)]) ∧
    iForwardTSN s' = (102#32, [((2#16, false), 1#32), ((3#16, true), 0#32)]) := by decide

/-- **Who can be abandoned.** In every reachable state, for every chunk the sender holds (in flight or pending):
(1) a chunk carrying the DCEP payload type belongs to no abandoned message, whatever the policy of its stream;
(2) for a stream `si` that no operation of the run gives a partially reliable policy (`KeepsRel si`: every
`openS si … relType …` of the run has a type other than "limited retransmissions" and "timed"), no chunk of `si` belongs
to an abandoned message — whatever happens to the messages of other streams sharing the association.
No premise on the configuration or on sequence numbers. (`checkPartialReliabilityStatus` is the only place that flags a
message; the fragments of a message share stream and payload type: `MsgInv`.) -/
theorem C07_reliable_never_abandoned (cfg : Cfg) (tsn peerRwnd : BitVec 32) (hc : CfgOk cfg) (ops : List Op) :
    (∀ c ∈ (run (init cfg tsn peerRwnd) ops).inflight ++ (run (init cfg tsn peerRwnd) ops).pending,
      c.ppi = BitVec.ofNat 32 PayloadTypeWebRTCDCEP →
      c.msg ∉ (run (init cfg tsn peerRwnd) ops).abandonedMsgs ∧ (run (init cfg tsn peerRwnd) ops).abandoned c = false) ∧
    (∀ si, (∀ op ∈ ops, KeepsRel si op) →
      ∀ c ∈ (run (init cfg tsn peerRwnd) ops).inflight ++ (run (init cfg tsn peerRwnd) ops).pending, c.si = si →
      c.msg ∉ (run (init cfg tsn peerRwnd) ops).abandonedMsgs ∧ (run (init cfg tsn peerRwnd) ops).abandoned c = false) := by
  have hm := init_msginv cfg tsn peerRwnd
  have h0 : ∀ Q, NoAb Q (init cfg tsn peerRwnd) := by intro Q c hcm; simp [chunksOf, init] at hcm
  refine ⟨?_, ?_⟩
  · intro c hmem hppi
    have h := run_noab_dcep _ ops hm (h0 _)
    exact ⟨h c hmem hppi, h.abandoned hmem hppi⟩
  · intro si hk c hmem hsi
    have h := (run_noab_stream si _ ops (init_win cfg tsn peerRwnd hc) hm (by intro st hst; simp [init] at hst) (h0 _) hk).1
    exact ⟨h c hmem hsi, h.abandoned hmem hsi⟩

/-- non-vacuity: stream 2 allows no retransmission, stream 1 is reliable; a DCEP message on stream 2 and a message on
stream 1 are sent between two abandoned messages of stream 2 and go through two T3 rounds: only the plain messages of
stream 2 are abandoned -/
example :
    let ops := [Op.openS 1 false 0 0 0, .openS 2 false 1 0 0, .write 2 53 10, .write 2 50 20, .write 1 53 30, .write 2 53 40,
      .gather freeOracle [0, 0, 0, 0], .t3, .gather freeOracle [], .t3]
    let s := run (init { mtu := 1200, maxPayload := 1172 } 100 65536) ops
    (∀ op ∈ ops, KeepsRel 1 op) ∧ s.inflight.map (fun c => (c.si, c.ppi, s.abandoned c)) =
      [(2#16, 53#32, true), (2#16, 50#32, false), (1#16, 53#32, false), (2#16, 53#32, true)] := by
  refine ⟨?_, by decide⟩
  intro op hop
  simp only [List.mem_cons, List.not_mem_nil, or_false] at hop
  rcases hop with h | h | h | h | h | h | h | h | h | h <;> subst h <;> simp [KeepsRel] <;> decide

/-- **No retransmission path flags or sends an abandoned chunk.** For EVERY state:
(1) a T3 expiry flags exactly the in-flight chunks that are neither acked nor abandoned and changes nothing else in the queue;
(2) RACK / PTO marks flag only chunks that are neither acked nor abandoned;
(3) the fast-retransmit gather puts on the wire only chunks that are neither acked nor abandoned;
(4) the T3 retransmission gather (`getDataPacketsToRetransmit`) puts on the wire only chunks that carry the `retransmit` flag
and are not abandoned — "abandoned" as the loop sees it, including abandonments made earlier in the same gather.
(Before the fix of finding D21 clause (4) was false: the loop did not test `abandoned()`, so a chunk flagged while its
message was not yet abandoned — tail fragment still pending — was retransmitted after the message had been abandoned, in the
very gather that emitted the FORWARD-TSN skipping it. The witness is now the regression theorem below and the op file
corpus/C06/d21_abandoned_chunk_retransmitted.ops.) -/
theorem C07_abandoned_not_retransmitted (s : St) :
    ((t3 s).inflight = s.inflight.map (fun c => if c.acked || s.abandoned c then c else { c with retransmit := true })) ∧
    (∀ marks, (applyMarks s marks).inflight =
      s.inflight.map fun c => if marks.contains c.tsn && !c.acked && !s.abandoned c then { c with retransmit := true } else c) ∧
    (∀ (B : Type) (allow : B → Int → Bool × B) (b : B), ∀ x ∈ (gatherFast s allow b).2,
      ∃ c ∈ s.inflight, x = fastUpd { s with willRetransmitFast := false } c ∧ c.acked = false ∧ s.abandoned c = false) ∧
    (∀ orc, ∀ x ∈ (gatherRtx s orc).2.1, ∃ c ∈ s.inflight, c.retransmit = true ∧ s.abandoned c = false ∧ x = rtxUpd s c) :=
  ⟨t3_inflight s, fun _ => rfl, fun _ allow b => gatherFast_skips_abandoned s allow b, gatherRtx_sends_flagged s⟩

/-- non-vacuity of (1) and (3): after T3 the abandoned chunk 100 is not flagged, the reliable chunk 101 is -/
example :
    let s := run (init { mtu := 1200, maxPayload := 1172 } 100 65536)
      [.openS 1 false 0 0 0, .openS 2 false 1 0 0, .write 2 53 10, .write 1 53 30, .gather freeOracle [0, 0]]
    (t3 s).inflight.map (fun c => (c.tsn, c.retransmit, s.abandoned c)) = [(100#32, false, true), (101#32, true, false)] := by decide

/-- **Regression for finding D21** (the run that used to retransmit an abandoned chunk). Stream 2 allows no retransmission;
its message has two fragments, the tail is held back by the peer's window. T3 flags the head (TSN 101) while the message is
not `abandoned()` yet; the next gather cannot retransmit it (window) but sends the tail, which makes the message
`abandoned()`. After the next SACK TSN 101 is abandoned AND still flagged, the advanced peer ack point is at 102 — and the
gather retransmits NOTHING, it only emits the FORWARD-TSN that skips 101 and 102. -/
theorem C07_d21_regression :
    let s := run (init { mtu := 1200, maxPayload := 1172, minCwnd := 20000 } 100 2200)
      [.openS 1 false 0 0 0, .openS 2 false 1 0 0, .write 1 53 1000, .write 2 53 1272,
       .gather freeOracle [0, 0, 0], .t3, .sack 99 2700 [] [], .gather freeOracle [0], .sack 100 65536 [] []]
    s.inflight.map (fun c => (c.tsn, c.retransmit, s.abandoned c)) = [(101#32, true, true), (102#32, false, true)] ∧
    s.advPeerAck = 102#32 ∧
    (gatherRtx s freeOracle).2.1 = [] ∧ (gather s freeOracle []).2.packets = [] ∧
    ((gather s freeOracle []).2.fwd == some (.fwd 102 [(2, 0)])) = true := by decide

end C07
