import SctpVerif.Proofs.Sender
/-!
# C07 — abandoned messages never block or destroy anything else (SENDER SIDE: what the peer is told to skip)

Property theorems only, about the L0 model `Sender` (`Model/Sender.lean`: hand-written mirror of the send / acknowledgement
paths of association.go, tied to the code by the direct-drive correspondence runs — every `as` line of the real
`Association`, including the FORWARD-TSN / I-FORWARD-TSN chunk a gather emits, is replayed through it and compared).

What is covered here: the sender half of the statement — *the peer is told to skip exactly the abandoned messages*:
which TSNs the advanced peer ack point (the "new cumulative TSN" of FORWARD-TSN / I-FORWARD-TSN) walks over, that it
walks as far as it can, that the chunk is (re)sent until the peer confirms it, what its stream list contains, that
abandonment is permanent and touches only messages whose stream policy allows it, and which retransmission paths can
still put an abandoned chunk on the wire.

What is NOT covered here (still exploration level: the e2e `pr` scenarios and their predicates): the RECEIVER half
(`handleForwardTSN` / `forwardTSNFor*`: nothing that was not abandoned is discarded, later messages are delivered) and
the composition of the two halves over a faulty network.

Quantification: ALL configurations with `MTU < 2^30` (`CfgOk`) and partial reliability negotiated (`prEnabled`), ALL
operation lists from `init` (`openS / unreg / setEstablished / write / gather / sack / t3 / tick` with arbitrary SACK
contents), ALL oracle values (burst budget machine, pending-queue selection, RACK/PTO marks, T3 expiries per tick).
`TsnOk` is the run premise serial-number arithmetic needs: fewer than 2^31 TSNs outstanding in every state of the run
(decidable; examples show real runs satisfy it).

`s.abandoned c` is `chunkPayloadData.abandoned()`: the head fragment of the chunk's message is flagged abandoned AND all
fragments of the message are in flight.
-/
namespace C07
open Gen Sender SenderProofs

private theorem reach (cfg : Cfg) (tsn peerRwnd : BitVec 32) (hc : CfgOk cfg) (hpr : cfg.prEnabled = true) (ops : List Op)
    (hok : TsnOk (init cfg tsn peerRwnd) ops) :
    Seq (run (init cfg tsn peerRwnd) ops) ∧ WinInv (run (init cfg tsn peerRwnd) ops) ∧ AdvInv (run (init cfg tsn peerRwnd) ops) ∧
    (run (init cfg tsn peerRwnd) ops).cfg = cfg ∧ (run (init cfg tsn peerRwnd) ops).inflight.length < 2^31 :=
  ⟨run_seq _ ops (init_seq cfg tsn peerRwnd) (init_win cfg tsn peerRwnd hc),
   (run_win _ ops (init_win cfg tsn peerRwnd hc)).1,
   run_adv _ ops (init_seq cfg tsn peerRwnd) (init_win cfg tsn peerRwnd hc) hpr (init_adv cfg tsn peerRwnd) hok,
   run_cfg _ ops hc, hok.last⟩

/-- **The skip covers abandoned chunks only.** In every reachable state the advanced peer ack point — what FORWARD-TSN /
I-FORWARD-TSN carry as new cumulative TSN — lies inside the in-flight queue, not behind the cumulative ack point, and
every in-flight chunk whose TSN lies in (cumAck, advPeerAck] is abandoned: the point never walks over a chunk that is
merely gap-acked, nor over a chunk of a message that is still being (re)transmitted. -/
theorem C07_skip_only_abandoned (cfg : Cfg) (tsn peerRwnd : BitVec 32) (hc : CfgOk cfg) (hpr : cfg.prEnabled = true) (ops : List Op)
    (hok : TsnOk (init cfg tsn peerRwnd) ops) :
    ((run (init cfg tsn peerRwnd) ops).advPeerAck - (run (init cfg tsn peerRwnd) ops).cumAck).toNat ≤ (run (init cfg tsn peerRwnd) ops).inflight.length ∧
    ∀ c ∈ (run (init cfg tsn peerRwnd) ops).inflight,
      sna32LT (run (init cfg tsn peerRwnd) ops).cumAck c.tsn = true → sna32LTE c.tsn (run (init cfg tsn peerRwnd) ops).advPeerAck = true →
      (run (init cfg tsn peerRwnd) ops).abandoned c = true := by
  obtain ⟨hs, _, ha, _, hsm⟩ := reach cfg tsn peerRwnd hc hpr ops hok
  refine ⟨ha.le, ?_⟩
  intro c hmem h1 h2
  obtain ⟨i, hi, hget⟩ := List.getElem_of_mem hmem
  have hq : (run (init cfg tsn peerRwnd) ops).inflight[i]? = some c := by rw [List.getElem?_eq_getElem hi, hget]
  have ht := contig_getElem hs.1 hq
  apply ha.ab i c ?_ hq
  have hle := ha.le
  have e : (BitVec.ofNat 32 i).toNat = i := by simp [BitVec.toNat_ofNat]; omega
  simp only [sna32LTE, sna32LT, Bool.or_eq_true, beq_iff_eq, Bool.and_eq_true, decide_eq_true_eq] at h2
  rw [ht] at h2
  rcases h2 with h2 | h2 <;> bv_omega

/-- non-vacuity: stream 2 allows no retransmission; its message (TSN 101) is abandoned when sent, the reliable messages
before and after it (TSN 100, 102) are not. The first SACK acknowledges 100 and gap-acks 102: the point advances over 101
only (not over the gap-acked 102); `TsnOk` holds. -/
example :
    let ops := [Op.openS 1 false 0 0 0, .openS 2 false 1 0 0, .write 1 53 10, .write 2 53 20, .write 1 53 30,
      .gather freeOracle [0, 0, 0], .sack 100 65536 [(2, 2)] []]
    let s := run (init { mtu := 1200, maxPayload := 1172 } 100 65536) ops
    TsnOk (init { mtu := 1200, maxPayload := 1172 } 100 65536) ops ∧
    (s.cumAck, s.advPeerAck, s.inflight.map (fun c => (c.tsn, s.abandoned c, c.acked)), s.willSendForwardTSN) =
      (100#32, 101#32, [(101#32, true, false), (102#32, false, true)], true) := by decide

/-- **The skip is maximal.** After an accepted SACK and after a T3 expiry the chunk right after the advanced peer ack
point, if in flight, is NOT abandoned: the peer is told about every abandoned chunk it can be told about. -/
theorem C07_skip_maximal (cfg : Cfg) (tsn peerRwnd : BitVec 32) (hc : CfgOk cfg) (hpr : cfg.prEnabled = true) (ops : List Op)
    (hok : TsnOk (init cfg tsn peerRwnd) ops) :
    (∀ cum arwnd gaps marks, (sack (run (init cfg tsn peerRwnd) ops) cum arwnd gaps marks).2 = .ok → ∀ off c,
      Sender.get (sack (run (init cfg tsn peerRwnd) ops) cum arwnd gaps marks).1.inflight
        ((sack (run (init cfg tsn peerRwnd) ops) cum arwnd gaps marks).1.advPeerAck + 1) = some (off, c) →
      (sack (run (init cfg tsn peerRwnd) ops) cum arwnd gaps marks).1.abandoned c = false) ∧
    (∀ off c, Sender.get (t3 (run (init cfg tsn peerRwnd) ops)).inflight ((t3 (run (init cfg tsn peerRwnd) ops)).advPeerAck + 1) = some (off, c) →
      (t3 (run (init cfg tsn peerRwnd) ops)).abandoned c = false) := by
  obtain ⟨hs, hw, ha, hcfg, hsm⟩ := reach cfg tsn peerRwnd hc hpr ops hok
  have hpr' : (run (init cfg tsn peerRwnd) ops).cfg.prEnabled = true := by rw [hcfg]; exact hpr
  exact ⟨fun cum arwnd gaps marks hok' => sack_stop _ cum arwnd gaps marks hs hsm hw.cfgOk hpr' ha hok',
    t3_stop _ hs (by omega) hpr' ha⟩

/-- non-vacuity: two abandoned messages in a row (TSN 100, 101), then a reliable one (102): T3 advances the point to 101 and
stops in front of 102, which is in flight and not abandoned -/
example :
    let s := t3 (run (init { mtu := 1200, maxPayload := 1172 } 100 65536)
      [.openS 1 false 0 0 0, .openS 2 true 1 0 0, .write 2 53 10, .write 2 53 20, .write 1 53 30, .gather freeOracle [0, 0, 0]])
    (s.advPeerAck, (Sender.get s.inflight (s.advPeerAck + 1)).map (fun oc => (oc.2.tsn, s.abandoned oc.2))) = (101#32, some (102#32, false)) := by
  decide

/-- **The FORWARD-TSN is (re)sent until the peer confirms it.** (1) After an accepted SACK and (2) after every T3 expiry:
advanced peer ack point ahead of the cumulative point ⇒ `willSendForwardTSN` is up. (3) A gather in state established
always leaves the flag down, and it emits a FORWARD-TSN / I-FORWARD-TSN exactly when the flag was up and the point was
ahead; the chunk carries the advanced peer ack point and the stream list of the state the gather leaves (see
`C07_forward_lists_exact`). So while the peer has not acknowledged the skip, every T3 expiry makes the next gather send
it again. -/
theorem C07_forward_flag (cfg : Cfg) (tsn peerRwnd : BitVec 32) (hc : CfgOk cfg) (hpr : cfg.prEnabled = true) (ops : List Op)
    (hok : TsnOk (init cfg tsn peerRwnd) ops) :
    (∀ cum arwnd gaps marks, (sack (run (init cfg tsn peerRwnd) ops) cum arwnd gaps marks).2 = .ok →
      sna32GT (sack (run (init cfg tsn peerRwnd) ops) cum arwnd gaps marks).1.advPeerAck (sack (run (init cfg tsn peerRwnd) ops) cum arwnd gaps marks).1.cumAck = true →
      (sack (run (init cfg tsn peerRwnd) ops) cum arwnd gaps marks).1.willSendForwardTSN = true) ∧
    (sna32GT (t3 (run (init cfg tsn peerRwnd) ops)).advPeerAck (t3 (run (init cfg tsn peerRwnd) ops)).cumAck = true →
      (t3 (run (init cfg tsn peerRwnd) ops)).willSendForwardTSN = true) ∧
    (∀ orc sel, (run (init cfg tsn peerRwnd) ops).established = true →
      (gather (run (init cfg tsn peerRwnd) ops) orc sel).1.willSendForwardTSN = false ∧
      ((gather (run (init cfg tsn peerRwnd) ops) orc sel).2.fwd.isSome = true ↔
        ((run (init cfg tsn peerRwnd) ops).willSendForwardTSN = true ∧
         sna32GT (run (init cfg tsn peerRwnd) ops).advPeerAck (run (init cfg tsn peerRwnd) ops).cumAck = true)) ∧
      (∀ f, (gather (run (init cfg tsn peerRwnd) ops) orc sel).2.fwd = some f →
        f = (if cfg.useIForwardTSN then Fwd.ifwd (run (init cfg tsn peerRwnd) ops).advPeerAck (iForwardTSN (gather (run (init cfg tsn peerRwnd) ops) orc sel).1).2
             else Fwd.fwd (run (init cfg tsn peerRwnd) ops).advPeerAck (forwardTSN (gather (run (init cfg tsn peerRwnd) ops) orc sel).1).2))) := by
  obtain ⟨hs, hw, ha, hcfg, hsm⟩ := reach cfg tsn peerRwnd hc hpr ops hok
  have hpr' : (run (init cfg tsn peerRwnd) ops).cfg.prEnabled = true := by rw [hcfg]; exact hpr
  refine ⟨fun cum arwnd gaps marks h1 h2 => sack_flag _ cum arwnd gaps marks hs hsm hw.cfgOk hpr' ha h1 h2, t3_flag _ hpr', ?_⟩
  intro orc sel he
  obtain ⟨g1, g2⟩ := gather_fwd _ orc sel he
  refine ⟨gather_flag _ orc sel he, ?_, ?_⟩
  · rw [g1, hcfg]
    constructor
    · intro h; exact ⟨h.1, h.2.1⟩
    · intro h; exact ⟨h.1, h.2, Or.inr hpr⟩
  · intro f hf
    have := g2 f hf
    rw [hcfg] at this
    exact this

/-- non-vacuity: the abandoned message (TSN 100) is skipped by a FORWARD-TSN after T3; the gather sends it and lowers the
flag; the peer stays silent, T3 expires again: the flag is up again and the next gather sends the same FORWARD-TSN -/
example :
    let s0 := run (init { mtu := 1200, maxPayload := 1172 } 100 65536)
      [.openS 1 false 0 0 0, .openS 2 false 1 0 0, .write 2 53 10, .write 1 53 30, .gather freeOracle [0, 0], .t3]
    let s1 := (gather s0 freeOracle []).1
    (s0.willSendForwardTSN, (gather s0 freeOracle []).2.fwd == some (.fwd 100 [(2, 0)]), s1.willSendForwardTSN,
     (t3 s1).willSendForwardTSN, (gather (t3 s1) freeOracle []).2.fwd == some (.fwd 100 [(2, 0)])) = (true, true, false, true, true) := by
  decide

/-- **Abandonment is permanent.** Whatever happens afterwards (any operations, any oracle values, no premise at all): a
message whose head is flagged abandoned stays flagged, a message all of whose fragments are in flight stays so; hence a
chunk that is `abandoned()` in some state is `abandoned()` in every later state. -/
theorem C07_abandonment_monotone (s : St) (ops : List Op) (c : Chunk) (h : s.abandoned c = true) : (run s ops).abandoned c = true :=
  (run_abLe s ops).abandoned rfl h

example :
    let s := run (init { mtu := 1200, maxPayload := 1172 } 100 65536) [.openS 2 false 1 0 0, .write 2 53 10, .gather freeOracle [0]]
    s.inflight.map (fun c => s.abandoned c) = [true] := by decide

end C07
