import SctpVerif.Proofs.StreamApi
/-!
# C18 — write/read API contract: rejected or failed calls have no side effects

Property theorems only. They are about the L0 model `Sapi` (`Model/StreamApi.lean`: `Stream.WriteSCTP` + `packetize` +
`Association.sendPayloadData` incl. the blocking-write gate, `Stream.Close`, `Stream.ReadSCTP` / `SetReadDeadline`), which
sits on the existing models `Sender` (send half) and `Reasm` (reassembly queue) and is tied to the code by the
direct-drive correspondence `TestVerifStreamAPI` (every `sa` line replayed, state line compared after every op) and by
the expression sites the translator regenerates on every run: `Gen.write_tooLarge`, `Gen.write_notOpen`, `Gen.write_empty`,
`Gen.send_notEstablished[AfterWait]`, `Gen.send_gated`, `Gen.send_waits`, `Gen.popPending_notifyWritable`,
`Gen.packetize_*` (see `C18_packetize_sites`).

Quantification: ALL states / arguments for the single-call theorems; ALL operation lists (`Sapi.Op`: state changes,
stream open / policy change / close, writes with and without deadline, gathers with arbitrary oracles, SACKs with
arbitrary contents, T3, clock ticks, and the read-side operations) for the run theorems, from any state satisfying the
stated invariant (`WInv`, `GInv`: both hold in the initial state of every configuration with MTU < 2^30).

Single-threaded abstraction of the model (DESIGN §4): one call at a time, everything that became runnable has run before
the next operation; goroutine interleavings of concurrent writers are sampled by the e2e `api` mode, not proved.
-/
namespace C18
open Gen Sapi SapiProofs SenderProofs

/-- **Rejected or failed writes have no side effects** (full strength). Whatever the state: a `write` that neither queues
data nor is parked — payload larger than the maximum message size, stream not open, empty payload, association not
established, blocking mode with `writePending` up and the deadline already passed, the stream's write lock held by a
parked call, no Stream object — returns EXACTLY the state it was given: stream sequence number, both message-identifier
counters, buffered amount, pending queue, `writePending`, everything. (The model runs `packetize` and then the failure
branch of `WriteSCTP` on the state-gate and deadline paths, as the code does; the theorem says the roll-back is exact.) -/
theorem C18_rejected_write_no_effect (s : St) (si : BitVec 16) (ppi : BitVec 32) (len : Nat) (dl : Option Nat)
    (h : accepted (write s si ppi len dl).2 = false) : (write s si ppi len dl).1 = s :=
  write_rejected_unchanged s si ppi len dl h

/-- every error result, and the empty write, are such calls -/
theorem C18_errors_are_rejected (s : St) (si : BitVec 16) (ppi : BitVec 32) (len : Nat) (dl : Option Nat) :
    ((write s si ppi len dl).2.isErr = true → (write s si ppi len dl).1 = s) ∧
    (len = 0 → (write s si ppi len dl).1 = s) ∧
    (len > s.snd.cfg.maxMessageSize.toNat → (write s si ppi len dl).1 = s) := by
  refine ⟨?_, ?_, ?_⟩
  · intro h; apply write_rejected_unchanged
    cases hr : (write s si ppi len dl).2 <;> rw [hr] at h <;> simp [WRes.isErr] at h <;> rfl
  · intro h0; subst h0
    rcases write_cases s si ppi 0 dl with h1 | ⟨_, _, hl, _⟩ | ⟨_, _, hl, _⟩
    · exact h1.1
    · exact absurd rfl hl
    · exact absurd rfl hl
  · intro hl
    rcases write_cases s si ppi len dl with h1 | ⟨_, _, _, ht, _⟩ | ⟨_, _, _, ht, _⟩
    · exact h1.1
    · simp [write_tooLarge] at ht; omega
    · simp [write_tooLarge] at ht; omega

/-- non-vacuity: oversize by one, closed stream, not established (interleaving, unordered: the MID roll-back), deadline passed -/
example :
    let s0 := run (init { mtu := 1200, maxPayload := 1168, maxMessageSize := 1200, useInterleaving := true } true 100 0)
      [.openS 1 true 0 0, .openS 2 false 1 0, .write 1 53 1200 none, .close 2]
    ((write s0 1 53 1201 none).2, (write s0 2 53 10 none).2, (write (setState s0 2) 1 53 10 none).2, (write s0 1 53 10 (some 0)).2,
     (write s0 1 53 0 none).2, s0.writePending) =
    (.err .tooLarge, .err .streamClosed, .err .notEstablished, .err .deadline, .ok 0, true) := by decide

/-- **A parked write that fails is rolled back exactly.** Blocking mode: the call that had to wait (its SSN / MID and its
bytes are taken while it waits) and then gives up — deadline, or the association no longer established when it is woken —
leaves the state it found, apart from the model's two identity allocators (`nextWid`, `nextMsg`: ghost names of calls and
messages, no behaviour depends on them). What the state looks like when other operations ran in between is
`C18_ids_consecutive` (the counters) — the buffered amount is then `found − released by SACKs`, as for any write. -/
theorem C18_parked_write_rollback (s : St) (hw : WInv s) (si : BitVec 16) (ppi : BitVec 32) (len : Nat) (dl : Option Nat)
    (wid : Nat) (h : (write s si ppi len dl).2 = .blocked wid) :
    ∃ w, (write s si ppi len dl).1.waiters = s.waiters ++ [w] ∧ w.wid = wid ∧
      failWaiter (write s si ppi len dl).1 w = { s with snd := { s.snd with nextMsg := s.snd.nextMsg + 1 }, nextWid := s.nextWid + 1 } := by
  rcases write_cases s si ppi len dl with ⟨_, e2⟩ | ⟨st, _, _, _, _, _, _, _, _, e⟩ | ⟨st, hst, _, _, _, _, _, _, _, _, e⟩
  · rw [h] at e2; simp [accepted] at e2
  · rw [e] at h; cases h
  · rw [e] at h ⊢
    simp only [WRes.blocked.injEq] at h
    exact ⟨parkedCall s si st ppi len dl, rfl, h, park_then_fail s hw.fresh si st ppi len dl hst⟩

example :
    let s0 := run (init { mtu := 1200, maxPayload := 1168 } true 100 0) [.openS 1 false 0 0, .openS 2 false 0 0, .write 1 53 2000 none]
    let s1 := (write s0 2 53 700 (some 50)).1
    ((write s0 2 53 700 (some 50)).2, (s1.snd.streams 2).map (fun st => (st.ssn, st.buffered)),
     ((step s1 (.tick 50 0 [])).snd.streams 2).map (fun st => (st.ssn, st.buffered)), (step s1 (.tick 50 0 [])).waiters.length) =
    (.blocked 0, some (1, 700), some (0, 0), 0) := by decide

/-- **An accepted write consumes exactly one identifier and queues exactly its fragments.** For every state and every
`write` that returns `(n, nil)` with n > 0: n = len; the pending queue is the old one followed by ⌈len/maxPayloadSize⌉
chunks; the i-th of them has FSN i, the B flag iff i = 0, the E flag iff it is the last, between 1 and maxPayloadSize
bytes, the stream id and PPI of the call, the U flag of the message (stream unordered ∧ PPI ≠ DCEP), and carries the
identifier the stream's counters held (`carries`: SSN for DATA; the ordered or unordered MID, and SSN = low 16 bits of
it, for I-DATA); the lengths add up to len; afterwards exactly one counter of that stream has advanced by one (`adv`: the
SSN for an ordered DATA message, the ordered / unordered MID under interleaving, none for an unordered DATA message), the
buffered amount grew by len, and no other stream changed. -/
theorem C18_write_consumes_one_id (s : St) (si : BitVec 16) (ppi : BitVec 32) (len : Nat) (dl : Option Nat) (n : Nat)
    (hr : (write s si ppi len dl).2 = .ok n) (hn : n ≠ 0) :
    ∃ st cs u, s.snd.streams si = some st ∧ n = len ∧
      (write s si ppi len dl).1.snd.pending = s.snd.pending ++ cs ∧
      cs.length = (len + s.snd.cfg.maxPayload.toNat - 1) / s.snd.cfg.maxPayload.toNat ∧
      Sender.sumLen cs = len ∧
      (∀ i c, cs[i]? = some c →
        c.si = si ∧ c.ppi = ppi ∧ c.unordered = u ∧ c.fsn = BitVec.ofNat 32 i ∧ c.bfrag = (i == 0) ∧ c.efrag = (i + 1 == cs.length) ∧
        0 < c.len ∧ c.len ≤ s.snd.cfg.maxPayload.toNat ∧ carries s.snd.cfg.useInterleaving (ids st) c) ∧
      u = (ppi != BitVec.ofNat 32 PayloadTypeWebRTCDCEP && st.unordered) ∧
      ((write s si ppi len dl).1.snd.streams si).map ids = some (adv s.snd.cfg.useInterleaving u (ids st)) ∧
      ((write s si ppi len dl).1.snd.streams si).map (·.buffered) = some (st.buffered + BitVec.ofNat 64 len) ∧
      (∀ j, j ≠ si → (write s si ppi len dl).1.snd.streams j = s.snd.streams j) :=
  write_ok_shape s si ppi len dl n hr hn

example :
    let s0 := run (init { mtu := 1200, maxPayload := 1168 } false 100 65536) [.openS 1 false 0 0, .write 1 53 5 none]
    let s1 := (write s0 1 53 2500 none).1
    (write s0 1 53 2500 none).2 = .ok 2500 ∧
    (s1.snd.pending.drop 1).map (fun c => (c.fsn.toNat, c.bfrag, c.efrag, c.len, c.ssn.toNat)) =
      [(0, true, false, 1168, 1), (1, false, false, 1168, 1), (2, false, true, 164, 1)] ∧
    (s1.snd.streams 1).map (fun st => (st.ssn.toNat, st.buffered.toNat)) = some (2, 2505) := by decide

/-- **Consecutive identifiers, whatever happens in between** (the D7 property as a theorem, all operation lists).
Take any state satisfying the invariant of parked calls and any operation list. `logOn si` lists the DATA messages handed
to the pending queue for stream `si` along the run (writes accepted at once, parked writes released by a gather), in order.
Then the first of them carries the identifier the stream's counters hold at the start (`settled`: for a stream with a
parked call, the counters as they are once that call has been rolled back or accepted), and each later one carries the
next identifier of its class: `Consecutive` threads the counters through `adv`. Oversize, empty, closed-stream,
not-established, deadline-passed writes, parked writes that time out or are refused on wake-up, SACKs, T3, ticks, reads,
policy changes in between move nothing. In particular consecutive accepted ordered writes get consecutive SSNs. -/
theorem C18_ids_consecutive (s : St) (h : WInv s) (ops : List Op) (si : BitVec 16) (x : Ids) (hx : settled s si = some x) :
    Consecutive s.snd.cfg.useInterleaving x (logOn si s ops) :=
  run_consecutive s h ops si x hx

/-- the invariant holds initially and along every run -/
theorem C18_invariant_reachable (cfg : Sender.Cfg) (bw : Bool) (tsn rw : BitVec 32) (hc : CfgOk cfg) (ops : List Op) :
    WInv (run (init cfg bw tsn rw) ops) ∧ GInv (run (init cfg bw tsn rw) ops) :=
  ⟨run_winv _ (init_winv cfg bw tsn rw hc) ops, run_ginv _ (init_ginv cfg bw tsn rw hc) ops⟩

/-- non-vacuity (the D7 scenario and more): empty, oversize and not-established writes between three ordered writes, the
three messages carry SSN 0, 1, 2 -/
example :
    let s0 := run (init { mtu := 1200, maxPayload := 1168 } false 100 65536) [.openS 1 false 0 0]
    let ops := [Op.write 1 53 10 none, .write 1 53 0 none, .write 1 53 70000 none, .write 1 53 20 none, .setState 1, .write 1 53 30 none,
                .setState 3, .write 1 53 40 none]
    (settled s0 1, (logOn 1 s0 ops).map (fun m => m.map (fun c => (c.ssn.toNat, c.len)))) =
      (some (0, 0, 0), [[(0, 10)], [(1, 20)], [(2, 40)]]) := by decide

/-- **Short buffer keeps the message** (on the existing `Reasm` model, all queue states, all buffer sizes): a `read` that
reports a short buffer returns the queue unchanged and reports the size of the message at its head; every later `read`
of that queue with a buffer of at least that size returns exactly that message — its bytes in order, its PPI. -/
theorem C18_short_read_keeps_message (q : Reasm.Q) (n : Nat) (h : (q.read n).2.err = .shortBuffer) :
    (q.read n).1 = q ∧
    ∃ ppi cs, headSet q = some (ppi, cs) ∧ (q.read n).2.n = (Reasm.bytesOf cs : Int) ∧ n < Reasm.bytesOf cs ∧
      ∀ m, Reasm.bytesOf cs ≤ m →
        (q.read m).2 = { n := (Reasm.bytesOf cs : Int), ppi := ppi, err := .ok, data := bytesCat cs } := by
  obtain ⟨e1, ppi, cs, e2, e3, e4⟩ := Q_read_short q n h
  exact ⟨e1, ppi, cs, e2, e3, e4, fun m hm => Q_read_fits q ppi cs e2 m hm⟩

/-- the same one level up: one pass of the loop of `ReadSCTP` -/
theorem C18_short_ReadSCTP_keeps_stream (r : RStream) (n : Nat) (k : Int) (h : (tryRead r n).2 = some (.short k)) :
    (tryRead r n).1 = r ∧ ∃ ppi cs, k = (Reasm.bytesOf cs : Int) ∧ n < Reasm.bytesOf cs ∧
      ∀ m, Reasm.bytesOf cs ≤ m → (tryRead r m).2 = some (.data k ppi (bytesCat cs)) := by
  obtain ⟨e1, ppi, cs, e2, e3, e4⟩ := tryRead_short r n k h
  exact ⟨e1, ppi, cs, e3, e4, fun m hm => by rw [e3]; exact tryRead_fits r ppi cs e2 m hm⟩

example :
    let c1 : Reasm.Chunk := { tsn := 5, ssn := 0, bf := true, ef := false, ppi := 77, userData := [1, 2, 3] }
    let c2 : Reasm.Chunk := { tsn := 6, ssn := 0, bf := false, ef := true, ppi := 77, userData := [4, 5] }
    let q := ((Reasm.new 0 0).push c1).1.push c2 |>.1
    ((q.read 4).2.err, (q.read 4).2.n, (q.read 4).1.nBytes, (q.read 5).2.data, (q.read 5).2.ppi) = (.shortBuffer, 5, 5, [1, 2, 3, 4, 5], 77) := by decide

/-- **A read deadline loses nothing.** When the read-deadline timer of a stream fires, a parked reader that gets the
deadline error leaves the reassembly queue exactly as it was (and a reader that finds a message gets that message:
`tryRead` is the ordinary read). With `C18_short_read_keeps_message`: no message is lost or duplicated by deadlines. -/
theorem C18_read_deadline_keeps_messages (r : RStream) (rid : Nat) (e : RdErr) (h : (rid, RRes.err e) ∈ (fireTimer r).2) :
    (fireTimer r).1.q = r.q := by
  unfold fireTimer at h ⊢
  exact wakeReader_err_keeps _ rid e h

example :
    let s0 := run (init { mtu := 1200, maxPayload := 1168 } false 100 65536) [.openS 1 false 0 0, .rdeadline 1 (some 50), .read 1 100]
    ((s0.rd 1).map (fun r => (r.reader, r.timer)), ((tick s0 49 0 []).2.2).length,
     ((tick s0 50 0 []).2.2).map (fun x => (x.1, x.2 == RRes.err .deadline))) = (some (some (0, 100), some 50), 0, [(0, true)]) := by decide

/-- **The blocking-write gate.** In every state satisfying the gate invariant (all reachable states: `C18_invariant_reachable`),
in blocking mode:
(1) a write that returns `(n, nil)`, n > 0, at once found `writePending` down and NO DATA chunk of any earlier write in
    the pending queue (only end-of-stream markers may be there): everything written before had been handed to the
    transmission (in-flight) queue;
(2) a parked write is released only by a gather that left the pending queue EMPTY and ran `notifyBlockWritable`;
(3) (D18) a gather of an established association that leaves the pending queue empty and wakes nobody leaves
    `writePending` down — whether or not it sent anything — so the next write does not wait.
When a write waits: exactly when `Gen.send_gated blockWrite ∧ Gen.send_waits writePending` (`mustWait`, by definition of
`write`); what releases it: `Gen.popPending_notifyWritable` at the end of `popPendingDataChunksToSend`, or its deadline. -/
theorem C18_blocking_write_gate (s : St) (h : GInv s) (hb : s.blockWrite = true) :
    (∀ si ppi len dl n, n ≠ 0 → (write s si ppi len dl).2 = .ok n →
      s.writePending = false ∧ ∀ c ∈ s.snd.pending, c.len = 0) ∧
    (∀ orc sel woke wid n, (wid, WRes.ok n) ∈ (gather s orc sel woke).2.woken →
      (Sender.gather s.snd orc sel).1.pending = [] ∧ (gather s orc sel woke).2.notified = true) ∧
    (∀ orc sel woke, s.snd.established = true → (gather s orc sel woke).2.woken = [] →
      (gather s orc sel woke).1.snd.pending = [] → (gather s orc sel woke).1.writePending = false) :=
  ⟨fun si ppi len dl n hn hr => write_ok_gate s h hb si ppi len dl n hn hr,
   fun orc sel woke wid n hw => gather_wake_gate s h orc sel woke wid n hw,
   fun orc sel woke he hw hp => gather_clears_flag s h.core hb he orc sel woke hw hp⟩

/-- non-vacuity: the D18 scenario (zero window: the only chunk leaves as a probe, the end-of-stream marker stays queued;
the next gather only drops the marker) — `writePending` is down afterwards; and a parked write released by a drain -/
example :
    let s0 := run (init { mtu := 1200, maxPayload := 1168 } true 100 0) [.openS 1 false 0 0, .openS 2 false 0 0, .write 1 53 100 none, .close 1]
    let s1 := step s0 (.gather Sender.freeOracle [0] none)
    let s2 := step s1 (.gather Sender.freeOracle [0] none)
    (s0.writePending, s1.writePending, s1.snd.pending.length, s2.writePending, s2.snd.pending.length, (write s2 2 53 5 none).2) =
      (true, true, 1, false, 0, .ok 5) := by decide

/-- the conditions of `packetize` in the model are the code's (regenerated sites): U flag, fragment size, B / E flags,
which counter advances -/
theorem C18_packetize_sites (cfg : Sender.Cfg) (st : Sender.Stream) (si : BitVec 16) (msg : Nat) (ppi : BitVec 32) (len : Nat) :
    (Sender.packetize cfg st si msg ppi len).unordered = packetize_unordered ppi st.unordered ∧
    (∀ remaining : BitVec 32, (packetize_fragmentSize cfg.maxPayload remaining).toNat = min cfg.maxPayload.toNat remaining.toNat) ∧
    (∀ offset : BitVec 32, packetize_beginning offset = (offset == 0)) ∧
    (∀ remaining fragmentSize : BitVec 32, packetize_ending remaining fragmentSize = (remaining - fragmentSize == 0)) ∧
    ((ids (Sender.packetize cfg st si msg ppi len).st).1 =
        if packetize_ssnAdvances cfg.useInterleaving (Sender.packetize cfg st si msg ppi len).unordered then st.ssn + 1 else st.ssn) := by
  refine ⟨rfl, ?_, fun _ => rfl, fun _ _ => rfl, ?_⟩
  · intro r
    simp only [packetize_fragmentSize, min32]
    split <;> rename_i h <;> simp only [decide_eq_true_eq, BitVec.lt_def] at h <;> omega
  · rw [ids_packetize]
    simp only [adv, ids, packetize_ssnAdvances]
    cases cfg.useInterleaving <;> cases (Sender.packetize cfg st si msg ppi len).unordered <;> simp

end C18
