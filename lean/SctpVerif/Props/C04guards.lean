import SctpVerif.Gen.Facts
import SctpVerif.Gen.Consts
/-!
# C04 — state guards of the code, pinned

`Gen.stateTests` is REGENERATED from /repo on every run by the translator (`go/extract/facts_state.go`): per function,
every comparison of the association state with a state constant, every `case` over state constants and every `setState`
call, in source order. This file pins that list for the handshake handlers modelled by `Hs` (`Model/Handshake.lean`: `handleInit`, `handleInitAck`, `handleCookieEcho`, `handleCookieAck`, `establish`, `start`).
The hand-written L0 models mirror exactly these guards; the correspondence harnesses compare behaviour. A change of a guard
in the code breaks this obligation at once (a syntactic tie: a harmless rewrite breaks it too — then the expectation here is
to be updated after checking the models), and the harness jobs of C04 look for a concrete failing input.
-/
namespace C04

theorem C04_state_guards_pinned :
    Gen.stateTests.filter (fun p => ["Association.establish", "Association.handleCookieAck", "Association.handleCookieEcho", "Association.handleInit", "Association.handleInitAck", "Association.initClient"].contains p.1) =
    [("Association.establish", ["setState established"]),
     ("Association.handleCookieAck", ["state != cookieEchoed"]),
     ("Association.handleCookieEcho", ["case established", "case closed,cookieWait,cookieEchoed"]),
     ("Association.handleInit", ["state == shutdownAckSent", "state != closed", "state != cookieWait", "state != cookieEchoed"]),
     ("Association.handleInitAck", ["state != cookieWait", "setState cookieEchoed"]),
     ("Association.initClient", ["setState cookieWait"])] := by decide

/-- **T1 retry budget**: INIT and COOKIE-ECHO are retransmitted `maxInitRetrans = 8` times before the connect attempt fails (the schedules of `C04_recovers_from_single_losses` stay far below it). -/
theorem C04_t1_budget :
    ("timerT1Init", "maxInitRetrans") ∈ Gen.rtxTimerSites ∧ ("timerT1Cookie", "maxInitRetrans") ∈ Gen.rtxTimerSites ∧ Gen.maxInitRetrans = 8 := by decide

end C04
