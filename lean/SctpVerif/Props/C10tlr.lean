import SctpVerif.Proofs.Rack.Tlr
import SctpVerif.Proofs.Rack.Units
/-!
# C10 — the TLR burst budget (`tlr*Locked` in association.go), on `Model/Rack.lean`

Property theorems only. `Rack.tlrAllow` is `tlrAllowSendLocked` assembled from the generated expression sites
`Gen.tlrAllow_*`; `Rack.admitted active (budget, consumed) ests` are the positive estimates among the requests `ests`
of ONE `gatherOutbound` (in the order its three loops make them) that were answered `true`.

What the code gives — and what it does not: the budget is handed out per GATHER (`gatherOutbound` starts every call
with a fresh `tlrCurrentBurstBudgetScaledLocked()` and `consumed = false`), not per RTT phase. The bound below is
therefore per gather; two gathers in the same phase each get the full budget (`C10_tlr_budget_is_per_gather`).
-/
namespace C10
open Rack Gen

/-- ✱ One gather during a TLR episode: four times the admitted estimated bytes stay within the scaled burst budget
(`units * MTU`, i.e. `units/4` MTUs), except that the FIRST admitted request is let through whatever it costs — then it
is the only one (nothing else fits a budget that was clamped to 0). The exact bound of the code:
`4 * Σ admitted ≤ max budget (4 * first admitted)`. -/
theorem C10_tlr_budget_bound (budget : Int) (hb : 0 ≤ budget) (ests : List Int) :
    4 * (admitted true (budget, false) ests).sum ≤ max budget (4 * (admitted true (budget, false) ests).headD 0) :=
  admitted_fresh ests budget hb

/-- the same in bytes when no single request exceeds one MTU (every call site tests `addBytes <= MTU` before asking):
at most `max (units/4) 1` MTUs per gather, `units` being the burst units of the current phase -/
theorem C10_tlr_budget_bound_mtu (units mtu : Int) (hu : 0 ≤ units) (hm : 0 ≤ mtu) (ests : List Int)
    (hreq : ∀ e ∈ ests, e ≤ mtu) :
    4 * (admitted true (units * mtu, false) ests).sum ≤ max units 4 * mtu := by
  have h := admitted_fresh ests (units * mtu) (Int.mul_nonneg hu hm)
  have hsub : ∀ (b : Int × Bool) (l : List Int), (∀ e ∈ l, e ≤ mtu) → (admitted true b l).headD 0 ≤ mtu := by
    intro b l
    induction l generalizing b with
    | nil => intro _; simpa [admitted] using hm
    | cons e es ih =>
      intro hl
      simp only [admitted]
      split
      · simpa using hl e List.mem_cons_self
      · exact ih _ (fun x hx => hl x (List.mem_cons_of_mem _ hx))
  have h2 := hsub (units * mtu, false) ests hreq
  have h3 : units * mtu ≤ max units 4 * mtu := Int.mul_le_mul_of_nonneg_right (Int.le_max_left _ _) hm
  have h4 : 4 * mtu ≤ max units 4 * mtu := Int.mul_le_mul_of_nonneg_right (Int.le_max_right _ _) hm
  have h5 : 4 * (admitted true (units * mtu, false) ests).headD 0 ≤ 4 * mtu := by omega
  omega

/-- outside an episode, and for requests that cost nothing, the gate is open and the budget untouched -/
theorem C10_tlr_inactive_free (active : Bool) (b : Int × Bool) (est : Int) (h : active = false ∨ est ≤ 0) :
    tlrAllow active b est = (true, b) := tlrAllow_free_cases active b est h

/-- the budget is per gather, not per RTT phase: two gathers at the same instant of an episode (budget of 2 MTUs of
1200 bytes, scaled by 4) each admit two full packets -/
theorem C10_tlr_budget_is_per_gather :
    admitted true (8 * 1200, false) [1200, 1200, 1200] = [1200, 1200] ∧
    admitted true (8 * 1200, false) [1200, 1200, 1200] ++ admitted true (8 * 1200, false) [1200, 1200, 1200] = [1200, 1200, 1200, 1200] := by
  decide

/-- the gate the sender model of C10/C15 is replayed with (`Sender.tlrAllow`) is this function: the theorems of
`Props/C10.lean`, stated for any oracle, and the ones here are about the same code -/
theorem C10_tlr_allow_is_senders (active : Bool) (bud : Int) (con : Bool) (est : Int) :
    Sender.tlrAllow (active, bud, con) est =
      ((tlrAllow active (bud, con) est).1, (active, (tlrAllow active (bud, con) est).2.1, (tlrAllow active (bud, con) est).2.2)) :=
  tlrAllow_sender active bud con est

/-- ✱ `tlrMaybeFinishLocked` ends the episode exactly when the cumulative ack point has reached the TSN recorded at its
start (serial-number comparison), whatever else is going on … -/
theorem C10_tlr_finish (s : St) (p : Bool) (ha : s.tlrActive = true) :
    (tlrMaybeFinish s p).tlrActive = !sna32GTE s.cumAck s.tlrEndTSN := by
  unfold tlrMaybeFinish tlrEnd tlrScore tlrLeaveFirst tlrFinish_leavesFirst tlrFinish_done tlrFinish_clean tlrFinish_resetsBurst
  simp only [ha, Bool.not_true, Bool.false_eq_true, ↓reduceIte]
  split <;> split <;> simp_all

/-- … and that TSN is the highest one in the in-flight queue when the episode began (`cumAck` if the queue was empty):
the episode ends when everything outstanding at its start has been cumulatively acknowledged -/
theorem C10_tlr_begin_end (s : St) :
    (tlrBegin s).tlrActive = true ∧
    (tlrBegin s).tlrEndTSN = s.cumAck + BitVec.ofNat 32 (scanFrom s.q (s.cumAck + 1)).length := by
  refine ⟨rfl, ?_⟩
  have h0 : tlr_scanTSN (a_cumulativeTSNAckPoint := s.cumAck) (i := 0) = s.cumAck + 1 := by
    unfold tlr_scanTSN; bv_omega
  simp only [tlrBegin, tlrHighestOutstanding, h0]
  generalize (scanFrom s.q (s.cumAck + 1)).length = n
  by_cases hn : n = 0
  · simp [hn]
  · simp only [hn, ↓reduceIte, tlr_scanTSN]
    have : n - 1 + 1 = n := by omega
    rw [show BitVec.ofNat 32 n = BitVec.ofNat 32 (n - 1 + 1) by rw [this]]
    simp only [BitVec.ofNat_add]
    bv_omega

/-- the burst units never leave the range the code intends — first-RTT burst in [8, 16] quarter-MTUs (2 … 4 MTU),
later-RTT burst in [5, 8] (1.25 … 2 MTU) — in every state reachable by any operation list; so the budget of a gather
(`units * MTU`, scaled by 4) is between 1.25 and 4 MTUs during an episode -/
theorem C10_tlr_units_bounded (cfg : Cfg) (tsn : BitVec 32) (now : Int) (ops : List Op) :
    let s := run (init cfg tsn now) ops
    8 ≤ s.tlrBurstFirst ∧ s.tlrBurstFirst ≤ 16 ∧ 5 ≤ s.tlrBurstLater ∧ s.tlrBurstLater ≤ 8 :=
  UnitsOK.run ops (UnitsOK.init cfg tsn now)

-- non-vacuity: an episode over TSNs 11..13 ends at cumAck = 13, not at 12
example : (tlrMaybeFinish { (default : St) with tlrActive := true, tlrEndTSN := 13, cumAck := 12 } true).tlrActive = true := by decide
example : (tlrMaybeFinish { (default : St) with tlrActive := true, tlrEndTSN := 13, cumAck := 13 } true).tlrActive = false := by decide
example : 4 * (admitted true (9600, false) [1200, 1200, 1200]).sum ≤ 9600 := by decide
example : admitted true (0, false) [1500, 100] = [1500] := by decide
-- C10_tlr_budget_bound_mtu: 8 units, MTU 1200, requests of at most one MTU: two MTUs pass
example : 4 * (admitted true (8 * 1200, false) [1200, 1200, 600]).sum ≤ max 8 4 * 1200 := by decide

end C10
