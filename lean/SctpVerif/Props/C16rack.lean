import SctpVerif.Proofs.Rack.Shift
/-!
# C16 — RACK / PTO / TLR do not depend on absolute TSN values (`Model/Rack.lean`)

Property theorems only. `Rack.shSt k s` adds `k` (mod 2^32) to every TSN of the state: the chunks of the in-flight
queue, the RACK list, `cumulativeTSNAckPoint`, `myNextTSN`, `minTSN2MeasureRTT`, `rackHighestDeliveredOrigTSN`, and
`tlrEndTSN` while a TLR episode is active (outside an episode the code leaves the literal 0 there). `Rack.shOp k`
does the same to the TSNs an operation carries. Every serial-number comparison in these functions is one of the
generated `Gen.sna32*` (`Props/C16.lean`).
-/
namespace C16
open Rack Gen

/-- ✱ Every function of the loss-recovery machinery commutes with shifting all TSNs by any constant, and the TSNs it
reports as marked are shifted by the same constant: `onRackAfterSACK`, the RACK timer callback, the PTO callback, the
timer loop, the SACK as a whole, `tlrBegin`, `tlrMaybeFinish`, the burst budget, sending and retransmitting — hence
every operation, hence every run. No behaviour depends on where in the TSN space an association lives. -/
theorem C16_rack_shift_invariant (k : BitVec 32) (s : St) (env : Env) :
    (∀ (found : Bool) (nt : Int) (t : BitVec 32) (nd : Int),
      onRackAfterSACK (shSt k s) env found nt (t + k) nd =
        (shSt k (onRackAfterSACK s env found nt t nd).1, (onRackAfterSACK s env found nt t nd).2.map (· + k))) ∧
    onRackTimeout (shSt k s) env = (shSt k (onRackTimeout s env).1, (onRackTimeout s env).2.map (· + k)) ∧
    onPTOTimer (shSt k s) env = (shSt k (onPTOTimer s env).1, (onPTOTimer s env).2.map (· + k)) ∧
    timerFire (shSt k s) env = (shSt k (timerFire s env).1, (timerFire s env).2.map (· + k)) ∧
    (∀ (cum : BitVec 32) (gaps : List (BitVec 32)) (nd : Int) (nm : Nat),
      sack (shSt k s) env (cum + k) (gaps.map (· + k)) nd nm =
        (sack s env cum gaps nd nm).map fun r => (shSt k r.1, r.2.map (· + k))) ∧
    tlrBegin (shSt k s) = shSt k (tlrBegin s) ∧
    (∀ p, tlrMaybeFinish (shSt k s) p = shSt k (tlrMaybeFinish s p)) ∧
    tlrBudgetScaled (shSt k s) env = (shSt k (tlrBudgetScaled s env).1, (tlrBudgetScaled s env).2) ∧
    schedulePTOAfterSend (shSt k s) env = shSt k (schedulePTOAfterSend s env) ∧
    (∀ op, step (shSt k s) (shOp k op) = shSt k (step s op)) :=
  ⟨fun _ _ _ _ => onRackAfterSACK_shift _ _ _ _ _ _ _, onRackTimeout_shift _ _ _, onPTOTimer_shift _ _ _, timerFire_shift _ _ _,
   fun _ _ _ _ => sack_shift _ _ _ _ _ _ _, tlrBegin_shift _ _, fun _ => tlrMaybeFinish_shift _ _ _, tlrBudgetScaled_shift _ _ _,
   schedulePTOAfterSend_shift _ _ _, fun _ => step_shift _ _ _⟩

/-- whole runs: the same operations from a shifted state end in the shifted state -/
theorem C16_rack_run_shift (k : BitVec 32) (s : St) (ops : List Op) :
    run (shSt k s) (ops.map (shOp k)) = shSt k (run s ops) := run_shift k ops s

/-- ✱ The initial state shifts with the initial TSN — in particular the RACK high-watermark starts just below the
first TSN (`init_rackHighWatermark`, regenerated from `createAssociationFromConfigWithTsn`), not at 0. This is the
defect D20, fixed in /repo (436b310): with `rackHighestDeliveredOrigTSN = 0` this theorem is false, and every
association whose initial TSN lies in the upper half of the number space reported reordering on its first SACK. -/
theorem C16_rack_init_shift (k : BitVec 32) (cfg : Cfg) (tsn : BitVec 32) (now : Int) :
    init cfg (tsn + k) now = shSt k (init cfg tsn now) := init_shift k cfg tsn now

/-- so two associations that differ only in their initial TSN go through the same RACK / PTO / TLR states, TSN for TSN -/
theorem C16_rack_runs_from_any_tsn (k : BitVec 32) (cfg : Cfg) (tsn : BitVec 32) (now : Int) (ops : List Op) :
    run (init cfg (tsn + k) now) (ops.map (shOp k)) = shSt k (run (init cfg tsn now) ops) := by
  rw [init_shift, run_shift]

-- non-vacuity / the D20 situation: the first delivered TSN is above the high-watermark wherever the TSN space starts
example : rack_hwAdvances (init {} 0xFFFFFFF0#32 1).hw 0xFFFFFFF0#32 = true := by decide
example : rack_hwAdvances (init {} 5#32 1).hw 5#32 = true := by decide
example : rack_hwAdvances 0#32 0xFFFFFFF0#32 = false := by decide   -- what a high-watermark of 0 did

end C16
