import SctpVerif.Proofs.ReasmUnordMidRun
import SctpVerif.Proofs.ReasmUnordMix
/-!
# C06, receive half at the reassembly queue — unordered messages: at most once, intact, never a fragment or a splice

Property theorems only, about the L0 model `Model/Reasm.lean` of `reassemblyQueue` (tied to reassembly_queue.go by the
correspondence run `TestVerifReasm`, job REASM of this property). Ordered traffic is `C01_reasm_ordered` /
`C07_reasm_skip_then_deliver`; here the UNORDERED class: DATA (`unorderedChunks` sorted by TSN,
`findCompleteUnorderedChunkSet` cuts out a B…E run of consecutive TSNs) and I-DATA (`unorderedMIDMap` keyed by MID,
FSN contiguity), complete messages waiting in `unordered` / `unorderedMID`, `read` serving them BEFORE ordered ones.

Vocabulary (`Proofs/ReasmOrd.lean`, `Proofs/ReasmUnord*.lean`):
* `Sender` = stream id, initial TSN `t0` (any value, the 2^32 wrap included), the messages written (`Msg` = PPI + the
  pieces `packetize` cut) and `skip k` = TSNs of other traffic before message `k`.
* `S.udataFrag σ k i`: unordered DATA fragment `i` of message `k`: U flag, TSN `t0 + base k + i` (consecutive inside a
  message), B on the first, E on the last, the PPI on every fragment; the SSN field is `σ k` (arbitrary, never read).
* `S.UWF`: messages well formed (1 … 2^31-1 fragments), `skip` monotone (the TSN ranges of the messages are disjoint, in
  message order, not necessarily adjacent) and the whole universe spans at most 2^31 TSNs — the hypothesis serial-number
  comparison of TSNs forces (there is no cursor an unordered window could be anchored at).
* `S.uidataFrag τ k i`: unordered I-DATA fragment: U flag, MID `k` (mod 2^32, unordered MID space), FSN `i`, B / E at the
  ends, the PPI on the first fragment only, TSN `τ k i` ARBITRARY. `S.UMWF`: messages well formed and at most 2^31 messages
  (one half-space window of MIDs). `S.usetFull τ k` = the complete set of message `k` as it waits in `unorderedMID`.
* `HOp`: `push k i` hands that fragment to `pushWithError`, `read n` calls `read` with an `n`-byte buffer.
* `S.AdmissibleU P ops`: indices valid and no fragment pushed twice (the association filters duplicate TSNs, C05).
  Arrival order, interleaving with reads, buffer sizes, loss (fragments never pushed) and `maxEntries` are arbitrary.
* `S.deliveries frag q ops`: `(PPI, bytes)` of every read that returned no error, in order; `finalQ frag q ops`: the queue
  after the run; `accepted frag q ops`: the fragments `pushWithError` took without an error (a queue with an entry limit
  refuses fragments with `ErrReassemblyQueueDataLimit…`; a refused fragment is not in the queue, the association does not
  acknowledge it). `S.out k` = `(PPI, payload)` of message `k`; `S.uset σ k` = the complete set of message `k` as it
  waits in `unordered`.
* mixed classes (`Proofs/ReasmUnordMix.lean`): `MOp` = `pushO k i` (fragment of ordered message `k` of universe `SO`, as in
  C01) | `pushU k i` (fragment of unordered message `k` of universe `SU`, same stream id) | `read n`;
  `mixDeliveries` tags every successful read with the class that served it (`true`: a complete unordered message was
  waiting — `read` serves it first); `ordPart` / `unordPart` split the history by that tag; `AdmissibleM` = `Admissible`
  (window 2^15 relative to the number of ORDERED messages read) for `pushO` and `AdmissibleU` for `pushU`.
-/
namespace C06
open Reasm

/-- ✱ the characterisation behind "never a fragment, never a splice": whatever `findCompleteUnorderedChunkSet` cuts out
of a slice is a `BERun` (`Proofs/ReasmUnordScan.lean`: B first, E last and nowhere before, each TSN the previous + 1),
for ANY slice; and a `BERun` made of universe fragments — of whatever messages, adjacent TSN ranges included — is
exactly ALL fragments of ONE message. (`chunkSet.isComplete` alone would accept B…E B…E with consecutive TSNs.) -/
theorem C06_reasm_unordered_run_is_message (S : Sender) (hS : S.UWF) (σ : Nat → BitVec 16) :
    (∀ uc set rest, findCompleteUnorderedChunkSet uc = .found set rest →
      ∃ a b, uc = a ++ set.chunks ++ b ∧ rest = a ++ b ∧ BERun set.chunks) ∧
    (∀ uc, findCompleteUnorderedChunkSet uc ≠ .panic) ∧
    (∀ ps : List (Nat × Nat), (∀ p ∈ ps, S.Valid p) → BERun (ps.map (S.ufrag σ)) →
      ∃ k, k < S.msgs.length ∧ ps = msgIdx k (S.nf k)) := by
  refine ⟨?_, ?_, ?_⟩
  · intro uc set rest h
    rcases findCompleteUnordered_cases uc with ⟨hnf, _⟩ | ⟨a, r, b, c0, tl, huc, hrun, hr, hf⟩
    · rw [hnf] at h; cases h
    · rw [hf] at h; cases h
      exact ⟨a, b, huc, rfl, hrun⟩
  · intro uc h
    rcases findCompleteUnordered_cases uc with ⟨hnf, _⟩ | ⟨a, r, b, c0, tl, huc, hrun, hr, hf⟩
    · rw [hnf] at h; cases h
    · rw [hf] at h; cases h
  · intro ps hv h
    exact beRun_universe S hS σ h ps rfl hv

/-- ✱ unordered DATA. For ANY admissible run the successful reads are messages of the universe, each with its PPI and
its whole payload, each message AT MOST ONCE (`D.Nodup`; the order of `D` is not constrained), only messages all of
whose fragments were pushed; and every message whose fragments were all taken has been read or waits complete in
`unordered` — so nothing taken completely is ever lost, duplicated, truncated or merged. -/
theorem C06_reasm_unordered_data (S : Sender) (hS : S.UWF) (σ : Nat → BitVec 16) (maxEntries : BitVec 32)
    (ops : List HOp) (hadm : S.AdmissibleU [] ops) :
    ∃ D : List Nat, D.Nodup ∧ (∀ k ∈ D, k < S.msgs.length) ∧
      S.deliveries (S.udataFrag σ) (new S.si maxEntries) ops = D.map S.out ∧
      (∀ k ∈ D, ∀ i, i < S.nf k → HOp.push k i ∈ ops) ∧
      (∀ k, k < S.msgs.length →
        (∀ i, i < S.nf k → (k, i) ∈ accepted (S.udataFrag σ) (new S.si maxEntries) ops) →
        k ∈ D ∨ S.uset σ k ∈ (finalQ (S.udataFrag σ) (new S.si maxEntries) ops).unordered) := by
  obtain ⟨D, W, U, P, G, h, hdel, hG, hP, _⟩ := UInv.run hS ops (UInv_new S hS σ maxEntries) rfl hadm
  simp only [List.nil_append] at h
  have hnd := h.nodup
  rw [List.nodup_append] at hnd
  refine ⟨D, hnd.1, fun k hk => h.dwlen k (by simp [hk]), hdel, ?_, ?_⟩
  · intro k hk i hi
    rcases hP _ (h.dwpush k (by simp [hk]) i hi) with hin | hin
    · simp at hin
    · exact hin
  · intro k hk hall
    by_cases hin : k ∈ D ++ W
    · rcases List.mem_append.1 hin with hd | hw
      · exact .inl hd
      · right; rw [h.un]; exact List.mem_map.2 ⟨k, hw, rfl⟩
    · exfalso
      apply h.nocomp k hk
      intro j hj
      rcases h.track (k, j) ((hG _).2 (.inr (hall j hj))) with hu | hdw
      · exact hu
      · exact absurd hdw hin

/-- reliable unordered streams: when every fragment of every message has been taken and the reader has drained the
queue, the reads are the written messages EXACTLY once each (a permutation of the write history). -/
theorem C06_reasm_unordered_data_exactly_once (S : Sender) (hS : S.UWF) (σ : Nat → BitVec 16) (maxEntries : BitVec 32)
    (ops : List HOp) (hadm : S.AdmissibleU [] ops)
    (hall : ∀ k, k < S.msgs.length → ∀ i, i < S.nf k → (k, i) ∈ accepted (S.udataFrag σ) (new S.si maxEntries) ops)
    (hdrained : (finalQ (S.udataFrag σ) (new S.si maxEntries) ops).unordered = []) :
    (S.deliveries (S.udataFrag σ) (new S.si maxEntries) ops).Perm (S.msgs.map Msg.out) := by
  obtain ⟨D, hnd, hlen, hdel, _, hcomp⟩ := C06_reasm_unordered_data S hS σ maxEntries ops hadm
  rw [hdel, ← map_out_range]
  apply List.Perm.map
  rw [List.perm_ext_iff_of_nodup hnd List.nodup_range]
  intro k
  rw [List.mem_range]
  constructor
  · exact hlen k
  · intro hk
    rcases hcomp k hk (hall k hk) with h | h
    · exact h
    · rw [hdrained] at h; simp at h

/-- ✱ unordered I-DATA (MID / FSN reassembly through `unorderedMIDMap`): the same statement; TSNs arbitrary, window
2^31 on MIDs. -/
theorem C06_reasm_unordered_idata (S : Sender) (hS : S.UMWF) (τ : Nat → Nat → BitVec 32) (maxEntries : BitVec 32)
    (ops : List HOp) (hadm : S.AdmissibleU [] ops) :
    ∃ D : List Nat, D.Nodup ∧ (∀ k ∈ D, k < S.msgs.length) ∧
      S.deliveries (S.uidataFrag τ) (new S.si maxEntries) ops = D.map S.out ∧
      (∀ k ∈ D, ∀ i, i < S.nf k → HOp.push k i ∈ ops) ∧
      (∀ k, k < S.msgs.length →
        (∀ i, i < S.nf k → (k, i) ∈ accepted (S.uidataFrag τ) (new S.si maxEntries) ops) →
        k ∈ D ∨ S.usetFull τ k ∈ (finalQ (S.uidataFrag τ) (new S.si maxEntries) ops).unorderedMID) := by
  obtain ⟨D, W, A, P, G, h, hdel, hG, hP⟩ :=
    UMInv.run hS ops (UMInv_new S τ maxEntries) ⟨rfl, rfl, rfl⟩ hadm
  simp only [List.nil_append] at h
  have hnd := h.nodup
  rw [List.nodup_append] at hnd
  refine ⟨D, hnd.1, fun k hk => h.dwlen k (by simp [hk]), hdel, ?_, ?_⟩
  · intro k hk i hi
    rcases hP _ (h.dwpush k (by simp [hk]) i hi) with hin | hin
    · simp at hin
    · exact hin
  · intro k hk hall
    by_cases hin : k ∈ D ++ W
    · rcases List.mem_append.1 hin with hd | hw
      · exact .inl hd
      · right; rw [h.um]; exact List.mem_map.2 ⟨k, hw, rfl⟩
    · exfalso
      have hnf := S.nf_pos hS.wf hk
      -- every fragment sits in the map entry of `k`, which is incomplete
      have hent : ∀ j, j < S.nf k → ∃ js, (k, js) ∈ A ∧ j ∈ js := by
        intro j hj
        rcases h.track (k, j) ((hG _).2 (.inr (hall j hj))) with hdw | hex
        · exact absurd hdw hin
        · exact hex
      obtain ⟨js, hjs, _⟩ := hent 0 (by omega)
      have hwf := h.awf _ hjs
      apply hwf.2.2.2
      apply sorted_eq_range _ _ hwf.2.1 hwf.2.2.1
      intro j hj
      obtain ⟨js', hjs', hj'⟩ := hent j hj
      rw [pairwise_ne_unique h.keys hjs hjs']; exact hj'

theorem C06_reasm_unordered_idata_exactly_once (S : Sender) (hS : S.UMWF) (τ : Nat → Nat → BitVec 32)
    (maxEntries : BitVec 32) (ops : List HOp) (hadm : S.AdmissibleU [] ops)
    (hall : ∀ k, k < S.msgs.length → ∀ i, i < S.nf k → (k, i) ∈ accepted (S.uidataFrag τ) (new S.si maxEntries) ops)
    (hdrained : (finalQ (S.uidataFrag τ) (new S.si maxEntries) ops).unorderedMID = []) :
    (S.deliveries (S.uidataFrag τ) (new S.si maxEntries) ops).Perm (S.msgs.map Msg.out) := by
  obtain ⟨D, hnd, hlen, hdel, _, hcomp⟩ := C06_reasm_unordered_idata S hS τ maxEntries ops hadm
  rw [hdel, ← map_out_range]
  apply List.Perm.map
  rw [List.perm_ext_iff_of_nodup hnd List.nodup_range]
  intro k
  rw [List.mem_range]
  constructor
  · exact hlen k
  · intro hk
    rcases hcomp k hk (hall k hk) with h | h
    · exact h
    · rw [hdrained] at h; simp at h

/-- frame lemmas, universe free (ANY queue state, DATA framing): (1) a push of an ordered DATA chunk commutes with
masking `unordered` and leaves `unordered` / `unorderedChunks` untouched; (2) a push of an unordered DATA chunk of this
stream leaves the ordered containers and both cursors untouched; (3) with a complete unordered message waiting, `read`
serves THAT one, before any ordered message, and leaves the ordered container and cursor untouched. -/
theorem C06_reasm_class_frames (q : Q) (c : Chunk) (hd : c.iData = false) :
    (c.unordered = false →
      (({ q with unordered := [] } : Q).pushWithError c).1 = { (q.pushWithError c).1 with unordered := [] } ∧
      (q.pushWithError c).1.unordered = q.unordered ∧ (q.pushWithError c).1.unorderedChunks = q.unorderedChunks) ∧
    (c.unordered = true → c.si = q.si →
      (q.pushWithError c).1.ordered = q.ordered ∧ (q.pushWithError c).1.nextSSN = q.nextSSN ∧
      (q.pushWithError c).1.orderedMID = q.orderedMID ∧ (q.pushWithError c).1.nextMID = q.nextMID) ∧
    (∀ cset rest n, q.useInterleaving = false → q.unordered = cset :: rest →
      (q.read n).1.ordered = q.ordered ∧ (q.read n).1.nextSSN = q.nextSSN ∧
      ((q.read n).2.err = .ok → (q.read n).1.unordered = rest ∧ (q.read n).2.ppi = cset.ppi ∧
        (q.read n).2.data = (cset.chunks.map (·.userData)).flatten)) := by
  refine ⟨?_, ?_, ?_⟩
  · intro hu
    obtain ⟨a, b, c', _, _⟩ := pushO_frame q c hd hu
    exact ⟨a, b, c'⟩
  · intro hu hsi
    rcases pushU_cases q c hd hsi hu with h | ⟨_, _, h⟩ | ⟨_, _, _, _, _, _, _, _, h⟩ <;> rw [h] <;>
      exact ⟨rfl, rfl, rfl, rfl⟩
  · intro cset rest n hil hun
    unfold Q.read
    simp only [hil, Bool.false_eq_true, ↓reduceIte, hun]
    cases herr : (copyLoop (n : Int) cset.chunks 0 false []).2.1 with
    | true => simp [hun]
    | false =>
      have := copyLoop_ok _ _ _ _ herr
      simp [Q.subtractNumBytes, this]

/-- ✱ ordered and unordered messages on the SAME stream (DATA framing) do not disturb each other: on every admissible
mixed run the reads served from the ordered container are a PREFIX of the ordered writes (the statement of
`C01_reasm_ordered_data`) and, side by side, the reads served from `unordered` satisfy the statement of
`C06_reasm_unordered_data` (each unordered message at most once, whole, with its PPI; everything taken completely is
read or waits complete). DATA framing; the I-DATA analogue (`orderedMID` next to `unorderedMIDMap` / `unorderedMID`) is NOT
proved here — `MidInv` of C01 fixes `unorderedMID = []`; the same masking argument would apply. -/
theorem C06_reasm_mixed_classes (SO SU : Sender) (hSO : SO.WF) (hSU : SU.UWF) (hsi : SU.si = SO.si)
    (σ : Nat → BitVec 16) (maxEntries : BitVec 32) (ops : List MOp)
    (hadm : AdmissibleM SO SU SO.dataFrag (SU.udataFrag σ) (new SO.si maxEntries) 0 [] [] ops) :
    ordPart (mixDeliveries SO.dataFrag (SU.udataFrag σ) (new SO.si maxEntries) ops) <+: SO.msgs.map Msg.out ∧
    ∃ D : List Nat, D.Nodup ∧ (∀ k ∈ D, k < SU.msgs.length) ∧
      unordPart (mixDeliveries SO.dataFrag (SU.udataFrag σ) (new SO.si maxEntries) ops) = D.map SU.out ∧
      (∀ k, k < SU.msgs.length →
        (∀ i, i < SU.nf k → (k, i) ∈ mixAccepted SO.dataFrag (SU.udataFrag σ) (new SO.si maxEntries) ops) →
        k ∈ D ∨ SU.uset σ k ∈ (mixFinal SO.dataFrag (SU.udataFrag σ) (new SO.si maxEntries) ops).unordered) := by
  have hu0 : UInv SU σ (new SO.si maxEntries) [] [] [] [] [] := hsi ▸ UInv_new SU hSU σ maxEntries
  obtain ⟨hpre, D, W, U, P, G, h, hdel, hG⟩ :=
    mix_run hSO hSU hsi ops (q := new SO.si maxEntries) (OrdInv_new SO maxEntries) hu0 hadm
  simp only [List.nil_append] at h
  have hnd := h.nodup
  rw [List.nodup_append] at hnd
  refine ⟨by simpa using hpre, D, hnd.1, fun k hk => h.dwlen k (by simp [hk]), hdel, ?_⟩
  intro k hk hall
  by_cases hin : k ∈ D ++ W
  · rcases List.mem_append.1 hin with hd | hw
    · exact .inl hd
    · right; rw [h.un]; exact List.mem_map.2 ⟨k, hw, rfl⟩
  · exfalso
    apply h.nocomp k hk
    intro j hj
    rcases h.track (k, j) ((hG _).2 (.inr (hall j hj))) with hu | hdw
    · exact hu
    · exact absurd hdw hin

-- non-vacuity (tests, by evaluation): two unordered messages (2 + 2 fragments) whose TSN ranges straddle the 2^32 wrap
-- and are ADJACENT (…FFFE, …FFFF | 0, 1), so that E of the first and B of the second carry consecutive TSNs; fragments
-- interleaved, the second message completes first; reads in between, one with a short buffer.
private def S0 : Sender :=
  { si := 3, t0 := 0xFFFFFFFE#32, msgs := [{ ppi := 51, frags := [[1, 2], [3]] }, { ppi := 53, frags := [[9], [8]] }] }
private def ops0 : List HOp :=
  [.push 1 0, .push 0 1, .read 100, .push 1 1, .push 0 0, .read 1, .read 100, .read 100, .read 100]
example : S0.UWF := ⟨by unfold Sender.WF; decide, fun _ => Nat.le_refl _, by decide⟩
example : S0.AdmissibleU [] ops0 := by decide
example : S0.deliveries (S0.udataFrag fun _ => 7) (new S0.si 0) ops0 = [(53, [9, 8]), (51, [1, 2, 3])] := by decide
example : accepted (S0.udataFrag fun _ => 7) (new S0.si 0) ops0 = [(1, 0), (0, 1), (1, 1), (0, 0)] := by decide
example : (finalQ (S0.udataFrag fun _ => 7) (new S0.si 0) ops0).unordered = [] := by decide
-- the four chunks with consecutive TSNs B E B E are never spliced: after three pushes the slice holds E(0) B(1) E(1)
example : ((finalQ (S0.udataFrag fun _ => 7) (new S0.si 0) [.push 1 0, .push 0 1, .push 1 1]).unordered.map (·.ppi),
           (finalQ (S0.udataFrag fun _ => 7) (new S0.si 0) [.push 1 0, .push 0 1, .push 1 1]).unorderedChunks.length)
          = ([53], 1) := by decide

-- `chunkSet.isComplete` alone WOULD accept the splice B E B E of the two adjacent messages (consecutive TSNs across the wrap)
example : chunksComplete ((msgIdx 0 2 ++ msgIdx 1 2).map (S0.ufrag fun _ => 7)) = true := by decide
-- the same run as I-DATA (MID / FSN; all TSNs equal — never looked at)
example : S0.UMWF := ⟨by unfold Sender.WF; decide, by decide⟩
example : S0.deliveries (S0.uidataFrag fun _ _ => 7) (new S0.si 0) ops0 = [(53, [9, 8]), (51, [1, 2, 3])] := by decide
example : accepted (S0.uidataFrag fun _ _ => 7) (new S0.si 0) ops0 = [(1, 0), (0, 1), (1, 1), (0, 0)] := by decide
example : (finalQ (S0.uidataFrag fun _ _ => 7) (new S0.si 0) ops0).unorderedMID = [] := by decide

-- mixed: the ordered universe of C01's example and the unordered one above on stream 3; an ordered message (SSN 0) is
-- complete and readable, yet the unordered message that completes later is served first by the next read
private def SO0 : Sender :=
  { si := 3, t0 := 0x10#32, msgs := [{ ppi := 61, frags := [[4], [5]] }, { ppi := 63, frags := [[6]] }] }
private def mops0 : List MOp :=
  [.pushO 1 0, .pushU 1 0, .pushO 0 0, .pushO 0 1, .pushU 1 1, .read 100, .read 100, .pushU 0 0, .read 100, .pushU 0 1,
   .read 1, .read 100, .read 100]
example : SO0.WF := by unfold Sender.WF; decide
example : AdmissibleM SO0 S0 SO0.dataFrag (S0.udataFrag fun _ => 7) (new SO0.si 0) 0 [] [] mops0 := by decide
example : mixDeliveries SO0.dataFrag (S0.udataFrag fun _ => 7) (new SO0.si 0) mops0 =
    [(true, 53, [9, 8]), (false, 61, [4, 5]), (false, 63, [6]), (true, 51, [1, 2, 3])] := by decide

end C06
