import SctpVerif.Proofs.Receiver.Ack
import SctpVerif.Proofs.Receiver.Sack
/-!
# C19 at association level — acknowledgements are prompt; heartbeats are echoed

Property theorems only, about the ack state machine of the L0 model `Model/Receiver.lean`
(`handlePeerLastTSNAndAcknowledgement`, `handleChunksStart/End`, `onAckTimeout`, the SACK part of
`gatherOutbound`), which embeds the proved ack-timer automaton `Timer.AckSys` of `Props/C19.lean` as its
timer. Tied to association.go by `TestVerifAssocReceiver` (ack state, timer running, virtual time after every
op; the executable predicate checks on the real association that a running ack timer expires within 200 ms
of being armed, immediacy on gap / duplicate, and the HEARTBEAT echo).

`reach cfg ops` below is any state reachable from a fresh association by any op list. A packet takes no time
in the model (`timer.now` is the arrival instant); time passes in `tick`.
-/
namespace C19
open Gen Receiver Timer

/-- the chunk is not ignored, not answered with an ABORT, and not silently discarded for want of a stream
object or because a reassembly limit was hit: `handleData` runs to its acknowledgement step -/
def Handled (s : St) (c : Reasm.Chunk) : Prop :=
  c.userData ≠ [] ∧ data_canHandle s.scp s.state = true ∧ c.iData = s.il ∧
  (RecvQ.canPush s.pq c.tsn = true → (acceptPayloadData (chunksStart s) c).2 = true)

instance (s : St) (c : Reasm.Chunk) : Decidable (Handled s c) := by unfold Handled; infer_instance

theorem packet_now (s : St) (cs : List InChunk) (h : AckInv s) : (packet s cs).timer.now = s.timer.now := by
  have hp := foldl_pktAck cs (chunksStart_pktAck s) h.range
  unfold packet
  generalize cs.foldl handleChunk (chunksStart s) = x at hp ⊢
  have hx : x.timer.now = s.timer.now := by
    rcases hp.timer with ⟨ht, _⟩ | ⟨ht, _⟩
    · rw [ht]
    · rw [ht, stop_now]
  unfold chunksEnd
  split
  · show x.timer.stop.now = _; rw [stop_now, hx]
  · split
    · show x.timer.start.1.now = _
      unfold AckSys.start; split <;> simpa using hx
    · exact hx

/-- ✱ the 200 ms bound. In every reachable state, for every inbound packet arriving at instant `now`:
* if afterwards the acknowledgement is being delayed (`ackState = delay`), the ack timer is started and armed
  with a deadline `≤ now + 200 ms` (`ackInterval` is the translator-generated constant);
* an already running ack timer is never pushed back: if the acknowledgement was being delayed before the packet
  and still is after it, the timer — armed deadline included — is untouched;
* when the clock reaches that deadline (`tick`), the ack state becomes `immediate` and the timer is stopped
  (one shot), so the next `gather` sends the SACK. -/
theorem C19_ack_delay_bound (maxBuf maxEntries : BitVec 32) (il f g : Bool) (am : Int) (t : BitVec 32)
    (ops : List Receiver.Op) (cs : List InChunk) :
    let s := run (init maxBuf maxEntries il f g am t) ops
    let s' := packet s cs
    ackInterval = 200000000 ∧ s'.timer.now = s.timer.now ∧
    (s'.ackState = 2 → s'.timer.t.state = .started ∧
        ∃ dl tag, s'.timer.g.armed = some (dl, tag) ∧ dl ≤ s.timer.now + ackInterval ∧
          ∀ d, dl ≤ s'.timer.now + d → (tick s' d).ackState = 1 ∧ (tick s' d).timer.t.state = .stopped) ∧
    (s.ackState = 2 → s'.ackState = 2 → s'.timer = s.timer) := by
  intro s s'
  have hs : AckInv s := run_ackInv ops (init_ackInv maxBuf maxEntries il f g am t)
  have hs' : AckInv s' := packet_ackInv hs cs
  have hnow := packet_now s cs hs
  refine ⟨by decide, hnow, ?_, ?_⟩
  · intro h2
    have hst := hs'.delay_iff.mpr h2
    obtain ⟨tag, harm, hsince, hpend⟩ := hs'.started hst
    have hnow' : s'.timer.now = s.timer.now := hnow
    refine ⟨hst, _, tag, harm, by omega, ?_⟩
    intro d hd
    unfold tick
    simp only [harm]
    rw [if_pos hd]
    have hrun : (({ s'.timer with now := s'.timer.since + ackInterval } : AckSys).fire.run 0) =
        ({ s'.timer with now := s'.timer.since + ackInterval, g := { armed := none, spawned := [] },
                          t := { pending := 0, state := .stopped } }, some .ack) := by
      simp [AckSys.fire, AckSys.run, AckSys.timeout, GoTimer.fire, harm, hs'.nospawn, hst, hpend]
    rw [hrun]
    simp [ackTimeout, ackStateImmediate]
  · intro h2 h2'
    have hp := foldl_pktAck cs (chunksStart_pktAck s) hs.range
    show (chunksEnd (cs.foldl handleChunk (chunksStart s))).timer = s.timer
    have hae : (chunksEnd (cs.foldl handleChunk (chunksStart s))).ackState = 2 := h2'
    generalize cs.foldl handleChunk (chunksStart s) = x at hp hae
    have hnd : x.delTrig = false := by
      cases hd : x.delTrig with
      | false => rfl
      | true => have := hp.delWhy hd; omega
    unfold chunksEnd at hae ⊢
    cases hi : x.immTrig with
    | true => simp [hi, ackStateImmediate] at hae
    | false =>
      simp only [hi, hnd, Bool.false_eq_true, if_false] at hae ⊢
      rcases hp.timer with ⟨ht, _⟩ | ⟨_, ha⟩
      · exact ht
      · omega

/-- after a packet whose (single) DATA chunk was handled, an acknowledgement is on its way: the ack state is
`immediate` (SACK at the next `gather`) or `delay` (timer armed, previous theorem) — never `idle`. -/
theorem C19_ack_scheduled (maxBuf maxEntries : BitVec 32) (il f g : Bool) (am : Int) (t : BitVec 32)
    (ops : List Receiver.Op) (c : Reasm.Chunk) (imm : Bool) :
    let s := run (init maxBuf maxEntries il f g am t) ops
    Handled s c → (packet s [.data c imm]).ackState = 1 ∨ (packet s [.data c imm]).ackState = 2 := by
  intro s hh
  obtain ⟨hne, hst, hk, hacc⟩ := hh
  have htr : (handleData (chunksStart s) c imm).immTrig = true ∨ (handleData (chunksStart s) c imm).delTrig = true := by
    have hwk : data_wrongKind c.iData (chunksStart s).il = false := by simp [data_wrongKind, chunksStart, hk]
    have hst' : data_canHandle (chunksStart s).scp (chunksStart s).state = true := hst
    unfold handleData
    dsimp only
    simp only [hst', Bool.not_true, Bool.false_eq_true, if_false, hwk]
    by_cases hcp : RecvQ.canPush (chunksStart s).pq c.tsn = true
    · have := hacc hcp
      simp only [if_pos hcp, this, Bool.not_true, Bool.false_eq_true, if_false]
      exact (ackStep_triggers _ _).1
    · simp only [if_neg hcp, Bool.not_true, Bool.false_eq_true, if_false]
      exact (ackStep_triggers _ _).1
  have hpk : packet s [.data c imm] = chunksEnd (handleData (chunksStart s) c imm) := by
    simp [packet, handleChunk, hne]
  rw [hpk]
  unfold chunksEnd
  split
  · left; rfl
  · rename_i hi
    rcases htr with h | h
    · exact absurd h hi
    · rw [if_pos h]; right; rfl

/-- ✱ a handled DATA chunk whose TSN leaves a gap above the cumulative point (serially after `cum + 1`), or after
which gap blocks remain, is acknowledged at once: the ack state after the packet is `immediate`. -/
theorem C19_ack_immediate_on_gap (s : St) (c : Reasm.Chunk) (imm : Bool) (hh : Handled s c)
    (hcp : RecvQ.canPush s.pq c.tsn = true) (hgap : sna32GT c.tsn (s.pq.cum + 1#32) = true) :
    (packet s [.data c imm]).ackState = 1 := by
  obtain ⟨hne, hst, hk, hacc⟩ := hh
  have hcp' : RecvQ.canPush (chunksStart s).pq c.tsn = true := hcp
  have hwk : data_wrongKind c.iData (chunksStart s).il = false := by simp [data_wrongKind, chunksStart, hk]
  have hst' : data_canHandle (chunksStart s).scp (chunksStart s).state = true := hst
  have hcum : (acceptPayloadData (chunksStart s) c).1.pq.cum = s.pq.cum := by
    rw [acceptPayloadData_pq]; split
    · rw [RecvQ.push_cum]; rfl
    · rfl
  have hi : (handleData (chunksStart s) c imm).immTrig = true := by
    unfold handleData
    dsimp only
    simp only [hst', Bool.not_true, Bool.false_eq_true, if_false, hwk, if_pos hcp', hacc hcp]
    apply (ackStep_triggers _ _).2.2.2.2
    left
    split
    · rfl
    · simp only [data_sackNow, data_gapDetected, data_expectedTSN, hcum, hgap, Bool.or_true, Bool.true_or]
  have hpk : packet s [.data c imm] = chunksEnd (handleData (chunksStart s) c imm) := by
    simp [packet, handleChunk, hne]
  rw [hpk]
  unfold chunksEnd
  rw [if_pos hi]; rfl

/-- ✱ a DATA chunk that carries nothing new — a duplicate (at or below the cumulative point, or already held) or
a TSN beyond the tracking window: exactly the chunks `canPush` refuses — is acknowledged at once. -/
theorem C19_ack_immediate_on_dup (s : St) (c : Reasm.Chunk) (imm : Bool) (hne : c.userData ≠ [])
    (hst : data_canHandle s.scp s.state = true) (hk : c.iData = s.il) (hcp : RecvQ.canPush s.pq c.tsn = false) :
    (packet s [.data c imm]).ackState = 1 := by
  have hcp' : RecvQ.canPush (chunksStart s).pq c.tsn = false := hcp
  have hwk : data_wrongKind c.iData (chunksStart s).il = false := by simp [data_wrongKind, chunksStart, hk]
  have hst' : data_canHandle (chunksStart s).scp (chunksStart s).state = true := hst
  have hi : (handleData (chunksStart s) c imm).immTrig = true := by
    unfold handleData
    dsimp only
    simp only [hst', Bool.not_true, Bool.false_eq_true, if_false, hwk, hcp']
    apply (ackStep_triggers _ _).2.2.2.2
    left
    split
    · rfl
    · simp [data_sackNow]
  have hpk : packet s [.data c imm] = chunksEnd (handleData (chunksStart s) c imm) := by
    simp [packet, handleChunk, hne]
  rw [hpk]
  unfold chunksEnd
  rw [if_pos hi]; rfl

/-- what `canPush` refuses, in terms of the abstract receive set (from the C05 refinement): a TSN is refused iff
it is not strictly inside the window `(cum, cum + maxTSNOffset]` or is already held. -/
theorem C19_dup_meaning (q : RecvQ.Q) (I : RecvQ.Inv q) (hm : q.maxOff.toNat < 2^31) (t : BitVec 32) :
    RecvQ.canPush q t = false ↔
      ¬ (1 ≤ (t - q.cum).toNat ∧ (t - q.cum).toNat ≤ q.maxOff.toNat) ∨ RecvQ.heldAt q (t - q.cum).toNat := by
  have h1 := RecvQ.canPush_eq_push (q := q) t
  have h2 := RecvQ.push_accept_iff I t
  have h3 := RecvQ.admissible_small (q := q) hm t
  rw [h1, Bool.eq_false_iff, Ne, h2, RecvQ.held_iff_heldAt, h3]
  constructor
  · intro h
    by_cases ha : 1 ≤ (t - q.cum).toNat ∧ (t - q.cum).toNat ≤ q.maxOff.toNat
    · right
      by_cases hh : RecvQ.heldAt q (t - q.cum).toNat
      · exact hh
      · exact absurd ⟨ha, hh⟩ h
    · left; exact ha
  · rintro (h | h) ⟨ha, hh⟩
    · exact h ha
    · exact hh h

/-- an immediate acknowledgement is sent by the next `gather` (state sends SACKs, no ABORT pending): one SACK
with the current cumulative TSN, and the ack state returns to `idle`. -/
theorem C19_immediate_ack_is_sent (s : St) (h1 : s.ackState = 1) (hab : s.willSendAbort = false)
    (hst : s.state = 3#32 ∨ s.state = 5#32 ∨ s.state = 6#32 ∨ s.state = 7#32) :
    (∃ arw, (gather s).2.1 = s.control.map Out.ctl ++ [Out.sack s.pq.cum arw (RecvQ.gaps s.pq) s.pq.dups]) ∧
    (gather s).1.ackState = 0 := by
  have hs : (s.state == 3#32 || s.state == 5#32 || s.state == 6#32 || s.state == 7#32) = true := by
    rcases hst with h | h | h | h <;> simp [h]
  constructor
  · refine ⟨credit s, ?_⟩
    simp [gather, hab, hs, sack_pending, h1, createSack, credit, RecvQ.popDuplicates]
  · simp [gather, hab, hs, sack_pending, h1, createSack, ackStateIdle]

/-- ✱ a HEARTBEAT is answered with a HEARTBEAT-ACK that carries the same information, in every association
state: the handler queues it and the next `gather` (no ABORT pending) sends it. -/
theorem C19_heartbeat_echo (s : St) (info : String) (hab : s.willSendAbort = false) :
    (handleChunk s (.hb info)).control = s.control ++ [.hback info] ∧
    Out.ctl (.hback info) ∈ (gather (packet s [.hb info])).2.1 := by
  refine ⟨rfl, ?_⟩
  have hc : (packet s [.hb info]).control = s.control ++ [.hback info] := by
    unfold packet chunksEnd
    simp only [List.foldl_cons, List.foldl_nil, handleChunk]
    repeat' split
    all_goals rfl
  have hw : (packet s [.hb info]).willSendAbort = false := by
    unfold packet chunksEnd
    simp only [List.foldl_cons, List.foldl_nil, handleChunk]
    repeat' split
    all_goals exact hab
  unfold gather
  rw [if_neg (by simp [hw])]
  dsimp only
  split <;> simp [hc]

-- non-vacuity (tests, by evaluation): in-order DATA on an idle association is delayed with the timer armed for
-- +200 ms; a second in-order DATA packet makes the ack immediate; a duplicate is acknowledged at once
private def d0 (t : Nat) : Reasm.Chunk :=
  { tsn := BitVec.ofNat 32 t, si := 1, ssn := BitVec.ofNat 16 (t - 10), bf := true, ef := true, ppi := 51, userData := [7] }
private def a0 : St := init 65536 0 false true false 0 10#32
set_option maxRecDepth 100000 in
example : Handled a0 (d0 10) := by decide
set_option maxRecDepth 100000 in
example : (packet a0 [.data (d0 10) false]).ackState = 2 ∧
    (packet a0 [.data (d0 10) false]).timer.g.armed = some (200000000, 1) := by decide
set_option maxRecDepth 100000 in
example : (packet (packet a0 [.data (d0 10) false]) [.data (d0 11) false]).ackState = 1 := by decide
set_option maxRecDepth 100000 in
example : RecvQ.canPush (packet a0 [.data (d0 10) false]).pq (d0 10).tsn = false := by decide

end C19
