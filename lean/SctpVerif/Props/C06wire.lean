import SctpVerif.Props.C01wire
/-!
# C06 (sender half) — "byte-for-byte one of the messages written … never a fragment or a splice of several messages"

The statement of C06 holds "whatever ordering and reliability policy a stream uses". The sender-side content of that clause
is policy-independent and is proved in `Props/C01wire.lean` for ALL runs, which include every policy (`openS` with any
reliability type / value, ordered or unordered), abandonment and FORWARD-TSN episodes. This file states it under the C06
name for the PARTIALLY RELIABLE case explicitly, so that the obligation is counted and audited with C06.
-/
namespace C06
open Gen Sender SenderProofs

/-- Whatever the reliability policy of the streams (the op list may open streams with any `relType` / `relVal`, ordered or
not, and abandon messages at will), every chunk on the wire is an un-acknowledged faithful copy of a written fragment, and
all written chunks with one message identity come from one write. -/
theorem C06_wire_never_splices (cfg : Cfg) (tsn peerRwnd : BitVec 32) (ops : List Op) :
    (∀ e ∈ wire (init cfg tsn peerRwnd) ops,
      e.acked = false ∧ ∃ w ∈ written (init cfg tsn peerRwnd) ops, Chunk.frag e = Chunk.frag w ∧ e.len = w.len) ∧
    (∀ a ∈ written (init cfg tsn peerRwnd) ops, ∀ b ∈ written (init cfg tsn peerRwnd) ops, a.msg = b.msg →
      a.si = b.si ∧ a.ppi = b.ppi ∧ a.unordered = b.unordered ∧ a.ssn = b.ssn ∧ a.mid = b.mid ∧ (a.fsn = b.fsn → a = b)) :=
  ⟨C01.C01_wire_faithful cfg tsn peerRwnd ops, C01.C01_message_identity cfg tsn peerRwnd ops⟩

/-- **DCEP is always ordered** (sender side): a write with the data-channel control PPI creates ordered chunks whatever
the stream's ordering flag says. -/
theorem C06_dcep_chunks_ordered (s : St) (si : BitVec 16) (len : Nat) :
    ∀ c ∈ writeChunks s si (BitVec.ofNat 32 PayloadTypeWebRTCDCEP) len, c.unordered = false := by
  intro c hc
  cases hs : s.streams si with
  | none => simp [writeChunks, hs] at hc
  | some st =>
    have hne : writeChunks s si (BitVec.ofNat 32 PayloadTypeWebRTCDCEP) len ≠ [] := List.ne_nil_of_mem hc
    obtain ⟨hw, _, _, hget⟩ := C01.C01_write_fragments s si _ len st hs hne
    rw [hw] at hc
    obtain ⟨i, hi⟩ := List.getElem?_of_mem hc
    have := (hget i c hi).2.2.2.1
    simpa using this

-- non-vacuity (test, by evaluation): an unordered, rexmit-0 stream; a DCEP write and a data write
example :
    let s := run (init { mtu := 1200, maxPayload := 1168 } 100 65536) [.openS 1 true 1 0 0]
    ((writeChunks s 1 (BitVec.ofNat 32 PayloadTypeWebRTCDCEP) 10).map (·.unordered), (writeChunks s 1 53 10).map (·.unordered)) =
      ([false], [true]) := by decide

end C06
