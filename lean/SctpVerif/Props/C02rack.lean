import SctpVerif.Proofs.Rack.Reo
import SctpVerif.Proofs.Rack.Tlr
import SctpVerif.Proofs.Rack.Inv
/-!
# C02 — loss recovery (RACK, RACK timer, PTO, TLR) makes progress and is sound, on `Model/Rack.lean`

Property theorems only. They hold for EVERY state of the component, every environment reading (`Rack.Env`) and every
SACK summary unless a hypothesis says otherwise; hypotheses are invariants of the reachable states (`Rack.Inv`,
proved for every admissible run in `C02_rack_invariant`) or facts about the environment (`Rack.EnvOK`: a valid SRTT reading is not negative — true of
the readings the code computes, `Rack.envOK_ofRat`).

What the code does, as the theorems state it:
* RACK marks a chunk on a SACK iff it is in the send-time list, not acked, not abandoned, not already flagged, an
  original transmission, and `since + reoWnd < deliveredTime` (strict), where `deliveredTime` is the latest send time
  among chunks delivered so far. Ties in send time are never marked; TSN plays no role in the test.
* The RACK timer is armed `max (now - deliveredTime) 0 + reoWnd` ahead whenever the list is non-empty.
* PTO with nothing pending flags the LAST outstanding chunk of the in-flight queue; with anything pending it flags
  nothing (see `C02_pto_no_probe_when_pending`).
-/
namespace C02
open Rack Gen

/-- the delivered time `onRackAfterSACK` works with -/
theorem C02_rack_delivered_time (s : St) (env : Env) (found : Bool) (nt : Int) (ntsn : BitVec 32) (nd : Int) :
    (onRackAfterSACK s env found nt ntsn nd).1.deliveredTime =
      if found = true ∧ s.deliveredTime < nt then nt else s.deliveredTime := by
  rw [onRackAfterSACK_deliveredTime]
  simp only [beforeMark, rackReoWnd_deliveredTime]
  unfold rackDelivered rackNewer rackHw rack_newerDelivered rack_hwAdvances
  cases found
  · simp
  · by_cases h : s.deliveredTime < nt
    · simp only [↓reduceIte, h, and_self]
      split <;> simp [h]
    · simp only [↓reduceIte, h, and_false]
      split <;> simp [h]

/-- ✱ RACK marks only chunks that are outstanding: in the send-time list, in the in-flight queue, not acknowledged,
not abandoned, not already flagged for retransmission and never retransmitted before -/
theorem C02_rack_marks_only_outstanding (s : St) (env : Env) (found : Bool) (nt : Int) (ntsn : BitVec 32) (nd : Int)
    (t : BitVec 32) (ht : t ∈ (onRackAfterSACK s env found nt ntsn nd).2) :
    t ∈ s.list ∧ ∃ c, find s.q t = some c ∧ c.acked = false ∧ c.abandoned = false ∧ c.retransmit = false ∧ c.nSent ≤ 1 := by
  obtain ⟨hl, ⟨c, hc, hd, hr, _⟩, _⟩ := onRackAfterSACK_marks s env found nt ntsn nd t ht
  rw [sackWalk_std.dead] at hd
  rw [sackWalk_std.resent] at hr
  simp only [Bool.or_eq_false_iff, decide_eq_false_iff_not] at hd hr
  exact ⟨hl, c, hc, hd.1, hd.2, hr.1, by bv_omega⟩

/-- ✱ Soundness of the loss decision: a chunk is marked only if some chunk sent LATER has been delivered and more than
the reordering window lies between the two send times: `since + reoWnd < deliveredTime`, strictly, with the window and
the delivered time this SACK left behind. -/
theorem C02_rack_loss_sound (s : St) (env : Env) (found : Bool) (nt : Int) (ntsn : BitVec 32) (nd : Int)
    (t : BitVec 32) (ht : t ∈ (onRackAfterSACK s env found nt ntsn nd).2) :
    ∃ c, find s.q t = some c ∧
      c.since + (onRackAfterSACK s env found nt ntsn nd).1.reoWnd < (onRackAfterSACK s env found nt ntsn nd).1.deliveredTime ∧
      (onRackAfterSACK s env found nt ntsn nd).1.deliveredTime ≠ 0 := by
  obtain ⟨_, ⟨c, hc, _, _, hn⟩, h0⟩ := onRackAfterSACK_marks s env found nt ntsn nd t ht
  rw [sackWalk_std.tooNew] at hn
  simp only [Bool.not_eq_eq_eq_not, Bool.not_false, decide_eq_true_eq] at hn
  exact ⟨c, hc, hn, h0⟩

/-- … hence RACK never marks the most recently sent chunk on its own: a chunk sent at or after every delivered chunk
(`deliveredTime ≤ since`) is not marked, whatever the reordering window (it is never negative) -/
theorem C02_rack_never_marks_newest (s : St) (env : Env) (found : Bool) (nt : Int) (ntsn : BitVec 32) (nd : Int)
    (he : EnvOK env) (hf : 0 ≤ s.cfg.reoWndFloor) (hw : 0 ≤ s.reoWnd)
    (c : Chunk) (t : BitVec 32) (hc : find s.q t = some c)
    (hnew : (onRackAfterSACK s env found nt ntsn nd).1.deliveredTime ≤ c.since) :
    t ∉ (onRackAfterSACK s env found nt ntsn nd).2 := by
  intro ht
  obtain ⟨c', hc', hlt, _⟩ := C02_rack_loss_sound s env found nt ntsn nd t ht
  rw [hc] at hc'; cases hc'
  have hb := (rackReoWnd_bounds (rackDelivered s found nt ntsn) env nd he (by simpa using hf) (by simpa using hw)).1
  rw [onRackAfterSACK_reoWnd] at hlt
  unfold beforeMark at hlt
  omega

/-- ✱ The reordering window a SACK leaves behind is never negative and never above a valid SRTT reading
("MUST be bounded by SRTT"); without an SRTT reading there is no upper bound other than the growth per SACK:
from `max old base` by one inflation step `max (minRTT/4) floor` -/
theorem C02_reownd_bounded (s : St) (env : Env) (found : Bool) (nt : Int) (ntsn : BitVec 32) (nd : Int)
    (he : EnvOK env) (hf : 0 ≤ s.cfg.reoWndFloor) (hw : 0 ≤ s.reoWnd) :
    0 ≤ (onRackAfterSACK s env found nt ntsn nd).1.reoWnd ∧
    (env.srtt.rackValid = true → (onRackAfterSACK s env found nt ntsn nd).1.reoWnd ≤ env.srtt.rackDur) ∧
    (onRackAfterSACK s env found nt ntsn nd).1.reoWnd ≤
      max s.reoWnd (reoBase (reoMinRTT s)) + Gen.gmax (Int.tdiv (reoMinRTT s).minRTT 4) s.cfg.reoWndFloor := by
  rw [onRackAfterSACK_reoWnd]
  unfold beforeMark
  have hb := rackReoWnd_bounds (rackDelivered s found nt ntsn) env nd he (by simpa using hf) (by simpa using hw)
  have hg := rackReoWnd_growth (rackDelivered s found nt ntsn) env nd (by simpa using hf) (by simpa using hw)
  refine ⟨hb.1, hb.2, ?_⟩
  have e1 : (reoMinRTT (rackDelivered s found nt ntsn)).minRTT = (reoMinRTT s).minRTT := by simp [reoMinRTT]
  have e2 : reoBase (reoMinRTT (rackDelivered s found nt ntsn)) = reoBase (reoMinRTT s) := by
    unfold reoBase reoMinRTT
    simp only [rackDelivered_cfg, rackDelivered_minWnd, rackDelivered_now, rackDelivered_minRTT]
  rw [e1, e2] at hg
  simpa using hg

/-- ✱ The RACK timer after a SACK, exactly: with chunks left in the send-time list and a delivered time on record it is
armed `max (now - deliveredTime) 0 + reoWnd` from now (disarmed only when that is not positive, i.e. the newest delivered
chunk was sent at this very instant and the window is 0); otherwise it is stopped. So whenever RACK is still waiting
for chunks, a wake-up is pending. (What the wake-up then does: `C02_rack_timer_inert`.) -/
theorem C02_rack_timer_armed (s : St) (env : Env) (found : Bool) (nt : Int) (ntsn : BitVec 32) (nd : Int) :
    let r := (onRackAfterSACK s env found nt ntsn nd).1
    r.rackDeadline =
      if r.list ≠ [] ∧ r.deliveredTime ≠ 0 then
        (if max (r.now - r.deliveredTime) 0 + r.reoWnd ≤ 0 then 0 else r.now + (max (r.now - r.deliveredTime) 0 + r.reoWnd))
      else 0 := by
  intro r
  have hr : r = schedulePTOAfterSack (rackArm (rackMark (beforeMark s env found nt ntsn nd) env).1) env := rfl
  rw [hr]
  simp only [schedulePTOAfterSack_rackDeadline, schedulePTOAfterSack_list, schedulePTOAfterSack_deliveredTime,
    schedulePTOAfterSack_now, schedulePTOAfterSack_reoWnd, rackArm_list, rackArm_deliveredTime, rackArm_now, rackArm_reoWnd]
  exact rackArm_deadline _

set_option linter.unusedSimpArgs false in
/-- ✱ The probe timeout, as RFC 8985 §7.2 states it and exactly as both copies of the computation in the code give it
(after new data was sent, and after a SACK): with data in flight the PTO is armed at `now + 2·SRTT + 2 ms`, at
`now + 2·SRTT + WCDelAckT` when a single chunk is in flight, at `now + 1 s` without an RTT sample (disarmed if that
duration is not positive); with nothing in flight it is stopped. -/
theorem C02_pto_deadline (s : St) (env : Env) :
    (schedulePTOAfterSend s env).ptoDeadline =
      (if s.q.length = 0 then 0 else
        let pto := if env.srtt.sendValid then 2 * env.srtt.sendDur + (if s.q.length = 1 then s.cfg.wcDelAck else 2000000) else 1000000000
        if pto ≤ 0 then 0 else s.now + pto) ∧
    (schedulePTOAfterSack s env).ptoDeadline =
      (if s.q.length = 0 then 0 else
        let pto := if env.srtt.ptoValid then 2 * env.srtt.ptoDur + (if s.q.length = 1 then s.cfg.wcDelAck else 2000000) else 1000000000
        if pto ≤ 0 then 0 else s.now + pto) := by
  constructor
  · unfold schedulePTOAfterSend ptoSend_idle ptoSend_single ptoSend_pto ptoSend_extra ptoSend_noRTT startPTOTimer stopPTOTimer
      ptoTimer_disarms ptoTimer_deadline
    by_cases h0 : s.q.length = 0
    · simp [h0]
    · have h0' : ¬ ((s.q.length : Int) = 0) := by omega
      by_cases h1 : s.q.length = 1
      · have h1' : ((s.q.length : Int) = 1) := by omega
        cases env.srtt.sendValid <;> simp [h0, h0', h1, h1']
      · have h1' : ¬ ((s.q.length : Int) = 1) := by omega
        cases env.srtt.sendValid <;> simp [h0, h0', h1, h1']
  · unfold schedulePTOAfterSack rack_ptoIdle rack_ptoSingle rack_pto rack_ptoExtra rack_ptoNoRTT startPTOTimer stopPTOTimer
      ptoTimer_disarms ptoTimer_deadline
    by_cases h0 : s.q.length = 0
    · simp [h0]
    · have h0' : ¬ ((s.q.length : Int) = 0) := by omega
      by_cases h1 : s.q.length = 1
      · have h1' : ((s.q.length : Int) = 1) := by omega
        cases env.srtt.ptoValid <;> simp [h0, h0', h1, h1']
      · have h1' : ¬ ((s.q.length : Int) = 1) := by omega
        cases env.srtt.ptoValid <;> simp [h0, h0', h1, h1']

/-- ✱ PTO makes progress when nothing is pending: with data in flight and an empty pending queue, the LAST chunk of the
in-flight queue that is neither acknowledged nor abandoned carries the retransmit flag afterwards (it is flagged now or
was already) and is still neither acked nor abandoned; if there is no such chunk, everything in flight from the
cumulative point on is acked or abandoned. -/
theorem C02_pto_probe_progress_partial (s : St) (env : Env) (hq : s.q ≠ []) (hp : env.pendingSize ≤ 0) :
    (∃ c, ptoLatest s = some c ∧ c ∈ s.q ∧ c.acked = false ∧ c.abandoned = false ∧
        ∃ x ∈ (onPTOTimer s env).1.q, x.tsn = c.tsn ∧ x.retransmit = true ∧ x.acked = false ∧ x.abandoned = false) ∨
    (ptoLatest s = none ∧ ∀ c ∈ scanFrom s.q (s.cumAck + 1), c.acked = true ∨ c.abandoned = true) := by
  cases hl : ptoLatest s with
  | none => right; exact ⟨rfl, ptoLatest_none s hl⟩
  | some c =>
    left
    have hs := ptoLatest_spec s c hl
    refine ⟨c, rfl, hs.1, hs.2.1, hs.2.2, ?_⟩
    rw [onPTOTimer_eq s env hq]
    have hp' : ¬ 0 < env.pendingSize := by omega
    simp only [hp', ↓reduceIte, hl]
    cases hr : c.retransmit
    · simp only [Bool.false_eq_true, ↓reduceIte]
      refine ⟨setRtx c, ?_, rfl, rfl, hs.2.1, hs.2.2⟩
      simp only [Rack.modify, List.mem_map]
      exact ⟨c, hs.1, by simp⟩
    · simp only [↓reduceIte, ptoTlr_q]
      exact ⟨c, hs.1, rfl, hr, hs.2.1, hs.2.2⟩

/-- ✗ The full statement ("whenever the PTO fires with data outstanding, a chunk is flagged or new data goes out") is
FALSE: with anything in the pending queue the PTO flags nothing and only wakes the writer, which sends new data only if
cwnd and rwnd allow — the code does not look. Witness: one chunk in flight (TSN 11, unacknowledged, sent at 1 s), one
chunk pending, PTO due: no mark, store unchanged, and the PTO timer is left disarmed (`timerLoop` cleared it; it is
re-armed only by the next send or SACK). What then recovers the chunk is T3. -/
theorem C02_pto_no_probe_when_pending :
    let s : St := { (default : St) with now := 2000000000, cumAck := 10, myNextTSN := 12, list := [11], ptoDeadline := 2000000000, q := [({ tsn := 11, since := 1000000000 } : Chunk)] }
    let env : Env := { pendingSize := 1 }
    (timerFire s env).2 = [] ∧ (timerFire s env).1.q = s.q ∧ (timerFire s env).1.ptoDeadline = 0 ∧ (timerFire s env).1.rackDeadline = 0 := by
  decide

/-- ✱ TLR can never refuse forever: whatever the episode's state and budget, the FIRST request of every gather is
admitted (so each `gatherOutbound` lets at least one chunk through the gate); and once the cumulative ack point has
reached the episode's end TSN the next SACK ends the episode, after which every request is admitted. -/
theorem C02_tlr_not_forever (s : St) (budget est : Int) (b : Int × Bool) (p : Bool) :
    (tlrAllow s.tlrActive (budget, false) est).1 = true ∧
    (s.tlrActive = true → sna32GTE s.cumAck s.tlrEndTSN = true → tlrAllow (tlrMaybeFinish s p).tlrActive b est = (true, b)) := by
  refine ⟨tlrAllow_first _ _ _, fun ha hd => ?_⟩
  have : (tlrMaybeFinish s p).tlrActive = false := by
    unfold tlrMaybeFinish tlrEnd tlrScore tlrLeaveFirst tlrFinish_leavesFirst tlrFinish_done tlrFinish_clean tlrFinish_resetsBurst
    simp only [ha, Bool.not_true, Bool.false_eq_true, ↓reduceIte]
    split <;> simp_all
  exact tlrAllow_free_cases _ _ _ (Or.inl this)

/-- ✱ The invariant of the component, for every run: starting from `createAssociation…` at a non-negative clock reading
with a non-negative window floor (the option rejects negative values), after ANY list of operations that the
environment can produce (`RunOK`: fresh TSNs for new chunks, retransmissions only of chunks in flight, SRTT readings
that are not negative when valid) the RACK list is in send-time order and names only chunks in flight, no send time and
no delivered time is ahead of the clock, the reordering window is not negative, and no list entry satisfies the loss
test (`Quiet`). -/
theorem C02_rack_invariant (cfg : Cfg) (tsn : BitVec 32) (now : Int) (hn : 0 ≤ now) (hf : 0 ≤ cfg.reoWndFloor)
    (ops : List Op) (hok : RunOK (init cfg tsn now) ops) : Inv (run (init cfg tsn now) ops) :=
  (Inv.init cfg tsn now hn hf).run ops hok

/-- ✗ FINDING (the full-strength form of "the RACK timer saves a wake-up" is false): in EVERY reachable state the RACK
timer callback `onRackTimeoutLocked` marks NOTHING. It evaluates `since + reoWnd < deliveredTime` — the same test, with
the same window and the same delivered time, that `onRackAfterSACK` applied to the same list when it armed the timer; the
test does not mention the clock, everything sent since is newer than `deliveredTime`, so nothing can have become
"overdue" in between. RFC 8985 §7.2 declares a segment lost once `now ≥ xmit_ts + RACK.rtt + reo_wnd`; the code has no
such clause. The timer is armed (`C02_rack_timer_armed`), fires, cleans the list of acked / abandoned entries, and the
chunk inside the reordering window waits for the next SACK, the PTO or T3 (`C02_rack_timer_overdue_witness`). -/
theorem C02_rack_timer_inert (cfg : Cfg) (tsn : BitVec 32) (now : Int) (hn : 0 ≤ now) (hf : 0 ≤ cfg.reoWndFloor)
    (ops : List Op) (hok : RunOK (init cfg tsn now) ops) (env : Env) :
    (onRackTimeout (run (init cfg tsn now) ops) env).2 = [] ∧
    (onRackTimeout (run (init cfg tsn now) ops) env).1.q = (run (init cfg tsn now) ops).q := by
  have h := (C02_rack_invariant cfg tsn now hn hf ops hok).onRackTimeout env
  refine ⟨h.1, ?_⟩
  rw [onRackTimeout_q, h.1, flagged_nil]

/-- the witness, as a run of the model that the implementation reproduces line by line (corpus/C02/rack_timer_inert.ops):
RTT 100 ms, reordering seen, TSN 1002 sent at 1.100 s, TSN 1003 sent at 1.105 s and delivered; the SACK at 1.205 s leaves
1002 unmarked (inside the 25 ms window) and arms the timer for 1.330 s. By RFC 8985 TSN 1002 is lost at
1.100 + 0.100 + 0.025 = 1.225 s. At 1.330 s the timer fires: nothing is marked, 1002 is still unflagged. -/
theorem C02_rack_timer_overdue_witness :
    let envW : Env := { srtt := { rackValid := true, rackDur := 100000000, ptoValid := true, ptoDur := 100000000, sendValid := true, sendDur := 100000000, tlrValid := true, tlrDur := 100000000 }, t3Running := true }
    let ops : List Op := [.send false, .send false, .ptoAfterSend {}, .advance 100000000, .sack envW 999 [1001] 0 0, .sack envW 1001 [] 0 0, .send false, .ptoAfterSend envW, .advance 5000000, .send false, .ptoAfterSend envW, .advance 100000000, .sack envW 1001 [1003] 0 0, .advance 125000000]
    let s := run (init {} 1000 1000000000) ops
    s.now = 1330000000 ∧ s.rackDeadline = s.now ∧ s.reoWnd = 25000000 ∧ s.deliveredTime = 1105000000 ∧ s.list = [1002] ∧
    (s.q.map fun c => (c.tsn, c.since, c.acked, c.retransmit)) = [(1002, 1100000000, false, false), (1003, 1105000000, true, false)] ∧
    (1100000000 : Int) + 100000000 + s.reoWnd ≤ s.now ∧
    (timerFire s envW).2 = [] ∧ (timerFire s envW).1.rackDeadline = 0 ∧
    ((timerFire s envW).1.q.map fun c => (c.tsn, c.retransmit)) = [(1002, false), (1003, false)] := by
  decide

-- non-vacuity
example : RunOK (init {} 1000 1) [.send false, .advance 5, .resend 1000 true false, .sack {} 1000 [] 0 0] := by
  refine ⟨?_, trivial, ?_, ?_, trivial⟩
  · intro c hc; cases hc
  · exact ⟨_, List.mem_cons_self, rfl⟩
  · intro h; cases h
example : (onRackAfterSACK { (default : St) with now := 100, deliveredTime := 50, list := [1, 2], q := [({ tsn := 1, since := 10 } : Chunk), ({ tsn := 2, since := 50 } : Chunk)] } {} false 0 0 0).2 = [1] := by decide
example : EnvOK {} := by intro h; cases h
-- the hypotheses of C02_rack_never_marks_newest / C02_reownd_bounded hold in the initial state and for a positive SRTT
example : EnvOK { srtt := SrttView.ofRat 80, inFastRecovery := false, t3Running := true, pendingSize := 0 } := envOK_ofRat 80 false true 0
example : (0 : Int) ≤ (init {} 7 1).cfg.reoWndFloor ∧ (0 : Int) ≤ (init {} 7 1).reoWnd := by decide
-- C02_pto_probe_progress_partial: a state with data in flight, nothing pending, an outstanding chunk
example : (onPTOTimer { (default : St) with now := 9, cumAck := 10, q := [({ tsn := 11, since := 1 } : Chunk), ({ tsn := 12, since := 1, acked := true } : Chunk)] } {}).2 = [11] := by decide

end C02
