import SctpVerif.Proofs.NetSys.Data
/-!
# C01 — the composition: sender half + adversarial network + receiver half (`NetSys`)

Property theorems only. `Model/NetSys.lean` composes the two L0 models that are tied to the code by the direct-drive
correspondence runs (`Sender`: `TestVerifAssocSender`, `Receiver`: `TestVerifAssocReceiver`):

* a sending endpoint (`Sender.St`), a receiving endpoint (`Receiver.St`), the HISTORY of every DATA / I-DATA chunk any
  gather of the sender put on the wire;
* `deliver is` hands the receiver one packet made of the history chunks with indices `is` — any indices, any number of
  times, in any order, in any bundling; an index never chosen is a lost chunk;
* the sender's other inputs are ARBITRARY: the SACKs it processes (`Op.snd (.sack cum arwnd gaps marks)`) need not be the
  receiver's, nor truthful; the burst budget, RACK / PTO marks, T3 expiries and clock ticks are oracle values. Safety does
  not depend on any of them;
* the application's bytes are the ghost `pay` (message identity ↦ bytes); the sender model sees their length only;
  `toWire` cuts the slice `[i·mp, i·mp + len)` of `pay msg` for fragment `i` (what `packetize` copies — the copy
  itself is not modelled) and decodes the header as `chunkPayloadData.unmarshal` does.

The theorems below are the statement of C01 (safety part) for EVERY run of NetSys over reliable ordered streams:
on every stream, what the receiving application has read is a PREFIX of what the sending application wrote —
(PPI, bytes), in write order: nothing lost before something delivered, duplicated, reordered, truncated, merged, altered.

Hypotheses (each decidable on the run, each shown satisfiable by the `example`s at the end):
* `Reliable ops`: every `openS` is ordered with `relType = 0`, no `unreg` (the SSN / MID counters of a stream object are
  never restarted; no FORWARD-TSN is ever due, and NetSys delivers none);
* `chunksWritten P ops < 2^31`: fewer than 2^31 DATA chunks are created in all (each gets at most one TSN —
  `SenderTsn.run_tsn`, `moved_le_written`), so that a 32-bit TSN names one chunk;
* `SelContig P ops` (DATA only): the order in which the pending queue hands out chunks — the `sel` ORACLE of the Sender model;
  it is the order of the TSNs — keeps the fragments of a message together and serves each stream first-in-first-out.
  Stated on the run's `moved` list in the terms of `Props/C17.lean`, which proves exactly this of the real pending queue
  (model `PendQ`, tied by `TestVerifPendQ`): `C17_contiguous` (once a non-final fragment is popped, the next pop is the
  next fragment of that message) and `C17_fragment_order` (the pops of a stream are a prefix of its pushes). It is needed
  because the receiver theorem describes the peer by a universe in which the fragments of a message have consecutive TSNs
  and the messages of a stream ascending ones; an arbitrary oracle (message 1 of a stream sent before message 0, fragments
  of two messages mixed) produces chunk sets outside that universe. (For such selections the theorem is silent: delivery
  would stall — `isComplete` never sees consecutive TSNs — whether safety could still fail is not decided here.)
* `WinOk P si W`: deviation D15 — at every step the messages written on the stream are at most `W` ahead of the messages
  read on it (`W = 2^31` for the 32-bit MID, `2^15` for the 16-bit SSN). It implies the `hwin` hypothesis of the receiver
  theorem (inside the proof: a chunk on the wire at some moment belongs to a message written before that moment).
-/
namespace C01
open NetSys SenderProofs SenderTsn

/-- ✱ **NetSys, I-DATA (message interleaving negotiated).** For every run of NetSys from the initial state, with ANY
selection oracle of the pending queue (fragments of different messages may interleave in the TSN space in any way: I-DATA
reassembly is by MID / FSN), any SACKs, any losses / duplications / reorderings / bundlings: on every stream `si` the
`(PPI, bytes)` read by the receiving application are a prefix of the `(PPI, bytes)` of the accepted writes on `si`. -/
theorem C01_netsys_prefix_idata (P : Params) (ops : List Op) (si : BitVec 16)
    (hil : P.cfg.useInterleaving = true) (hrel : Reliable ops = true)
    (htsn : chunksWritten P ops < 2^31) (hwin : WinOk P si (2^31) (init P) ops = true) :
    readsOn P si (init P) ops <+: writesOn P si (init P) ops :=
  netsys_prefix_idata P ops si hil hrel htsn hwin

/-- ✱ **NetSys, DATA (no interleaving).** For every run of NetSys from the initial state whose selection oracle is
message-contiguous and per-stream FIFO (`SelContig`, what `Props/C17.lean` proves of the real pending queue), with any
SACKs, any losses / duplications / reorderings / bundlings: on every stream `si` the `(PPI, bytes)` read by the receiving
application are a prefix of the `(PPI, bytes)` of the accepted writes on `si`.
Fragments that were written but never got a TSN are given, in the receiver theorem's universe, TSN offsets that no
moved chunk uses and that stay below the number of chunks written (counting: `Proofs/NetSys/Count.lean`). -/
theorem C01_netsys_prefix (P : Params) (ops : List Op) (si : BitVec 16)
    (hil : P.cfg.useInterleaving = false) (hrel : Reliable ops = true) (hsel : SelContig P ops = true)
    (htsn : chunksWritten P ops < 2^31) (hwin : WinOk P si (2^15) (init P) ops = true) :
    readsOn P si (init P) ops <+: writesOn P si (init P) ops :=
  netsys_prefix_data P ops si hil hrel hsel htsn hwin

/-- **One fragment, one TSN** (sender half, all runs, any configuration, any SACKs / oracles). Along every run from
`init`: the `j`-th chunk moved from the pending queue to in flight carries TSN `tsn + j`; every chunk ANY gather puts on
the wire — first transmission or T3 / RACK / PTO / fast retransmission — carries the TSN and the fragment identity of a
moved chunk; and fragment identities are pairwise distinct among the moved chunks. Hence two chunks on the wire with the
same TSN (fewer than 2^32 chunks moved) are copies of the same fragment, and a fragment never travels under two TSNs. -/
theorem C01_wire_tsn_stable (cfg : Sender.Cfg) (tsn peerRwnd : BitVec 32) (ops : List Sender.Op) :
    let mv := moved (Sender.init cfg tsn peerRwnd) ops
    (∀ j m, mv[j]? = some m → m.tsn = tsn + BitVec.ofNat 32 j) ∧
    (∀ e ∈ wire (Sender.init cfg tsn peerRwnd) ops, ∃ m ∈ mv, m.tsn = e.tsn ∧ Chunk.frag m = Chunk.frag e) ∧
    (mv.map Chunk.frag).Nodup ∧ mv.length ≤ (written (Sender.init cfg tsn peerRwnd) ops).length :=
  ⟨(run_tsn cfg tsn peerRwnd ops).2.2.1, (run_tsn cfg tsn peerRwnd ops).2.2.2.1, moved_frag_nodup cfg tsn peerRwnd ops,
   moved_le_written cfg tsn peerRwnd ops⟩

/-- **SSN / MID assignment** (sender half). In every run in which the streams are opened ordered and never unregistered,
the chunks created by the writes are exactly `gen` of the accepted writes: the `k`-th accepted write on a stream
(from 0) creates fragments with SSN `k mod 2^16` (DATA) resp. MID `k mod 2^32` (I-DATA), FSN `0, 1, …`, `B` first,
`E` last, lengths `fragSizes`. Rejected writes consume no sequence number (the not-established one rolls back). -/
theorem C01_ssn_assignment (cfg : Sender.Cfg) (tsn peerRwnd : BitVec 32) (lenOf : Nat → Nat) (ops : List Sender.Op)
    (ho : ∀ op ∈ ops, OrdOp op) (hl : LenOk lenOf (Sender.init cfg tsn peerRwnd) ops) :
    written (Sender.init cfg tsn peerRwnd) ops =
      gen cfg.useInterleaving cfg.maxPayload.toNat lenOf [] (accepted (Sender.init cfg tsn peerRwnd) ops) :=
  (run_gen cfg.useInterleaving lenOf [] (Sender.init cfg tsn peerRwnd) ops (init_cinv _ cfg tsn peerRwnd) rfl ho hl).1

/-! ## tests by evaluation and non-vacuity (`decide` on concrete runs — these are tests, not theorems) -/

private def bytes (m : Nat) : List UInt8 :=
  match m with
  | 0 => [1, 2, 3, 4, 5]
  | 1 => [7]
  | 2 => [9, 8, 7]
  | _ => []

-- two streams, three messages (3 + 1 + 2 fragments at 2 bytes per fragment), initial TSN 2^32 − 2: the TSNs wrap.
-- I-DATA with an INTERLEAVING selection (fragments of message 0 and 2 of stream 1 and message 1 of stream 2 mixed),
-- deliveries out of order, duplicated, with a lost-then-retransmitted first fragment (an arbitrary SACK, T3, second gather),
-- indices beyond the history, a short read.
private def PI : Params :=
  { cfg := { mtu := 1200, maxPayload := 2, useInterleaving := true }, tsn := 4294967294#32, pay := bytes }
private def opsI : List Op :=
  [.snd (.openS 1 false 0 0 0), .snd (.openS 2 false 0 0 0), .write 1 51, .write 2 61, .write 1 52,
   .snd (.gather Sender.freeOracle [0, 2, 3, 0, 0, 0]),
   .deliver [(5, false), (4, true)], .rcv (.read (1, 0) 100),
   .deliver [(2, false), (1, false), (1, false)], .deliver [(3, false)], .rcv (.read (2, 0) 100),
   .snd (.sack 77 65536 [] []), .snd .t3, .snd (.gather Sender.freeOracle []),
   .deliver [(0, false), (9, false), (100, false)], .rcv (.read (1, 0) 1), .rcv (.read (1, 0) 100), .rcv (.read (1, 0) 100),
   .rcv (.read (1, 0) 100)]

-- test: the TSNs and MIDs the run assigned (wire history, first gather)
set_option maxRecDepth 1000000 in
example : ((run PI (init PI) opsI).wire.take 6).map (fun c => (c.tsn, c.si, c.msg, c.mid, c.fsn, c.len)) =
    [(4294967294#32, 1#16, 0, 0#32, 0#32, 2), (4294967295#32, 2#16, 1, 0#32, 0#32, 1), (0#32, 1#16, 2, 1#32, 1#32, 1),
     (1#32, 1#16, 0, 0#32, 1#32, 2), (2#32, 1#16, 0, 0#32, 2#32, 1), (3#32, 1#16, 2, 1#32, 0#32, 2)] := by decide

-- test: both messages of stream 1 arrive intact and in order, the message of stream 2 too
set_option maxRecDepth 1000000 in
example : readsOn PI 1 (init PI) opsI = [(51, [1, 2, 3, 4, 5]), (52, [9, 8, 7])] ∧ readsOn PI 2 (init PI) opsI = [(61, [7])] ∧
    writesOn PI 1 (init PI) opsI = [(51, [1, 2, 3, 4, 5]), (52, [9, 8, 7])] := by decide

-- non-vacuity: the hypotheses of the theorem hold for this run
set_option maxRecDepth 1000000 in
example : readsOn PI 1 (init PI) opsI <+: writesOn PI 1 (init PI) opsI :=
  C01_netsys_prefix_idata PI opsI 1 rfl (by decide) (by decide) (by decide)


-- DATA: the same workload with a message-contiguous, per-stream FIFO selection (the pending queue's message policy)
private def PD : Params := { cfg := { mtu := 1200, maxPayload := 2 }, tsn := 4294967294#32, pay := bytes }
private def opsD : List Op :=
  [.snd (.openS 1 false 0 0 0), .snd (.openS 2 false 0 0 0), .write 1 51, .write 2 61, .write 1 52,
   .snd (.gather Sender.freeOracle [0, 0, 0, 0, 0, 0]),
   .deliver [(5, false), (4, true)], .rcv (.read (1, 0) 100),
   .deliver [(2, false), (1, false), (1, false)], .deliver [(3, false)], .rcv (.read (2, 0) 100),
   .snd (.sack 77 65536 [] []), .snd .t3, .snd (.gather Sender.freeOracle []),
   .deliver [(0, false), (9, false), (100, false)], .rcv (.read (1, 0) 1), .rcv (.read (1, 0) 100), .rcv (.read (1, 0) 100),
   .rcv (.read (1, 0) 100)]

-- test: TSNs 2^32−2, 2^32−1, 0 for message 0 (SSN 0), 1 for stream 2, 2, 3 for message 2 (SSN 1)
set_option maxRecDepth 1000000 in
example : ((run PD (init PD) opsD).wire.take 6).map (fun c => (c.tsn, c.si, c.msg, c.ssn, c.fsn, c.len)) =
    [(4294967294#32, 1#16, 0, 0#16, 0#32, 2), (4294967295#32, 1#16, 0, 0#16, 1#32, 2), (0#32, 1#16, 0, 0#16, 2#32, 1),
     (1#32, 2#16, 1, 0#16, 0#32, 1), (2#32, 1#16, 2, 1#16, 0#32, 2), (3#32, 1#16, 2, 1#16, 1#32, 1)] := by decide

set_option maxRecDepth 1000000 in
example : readsOn PD 1 (init PD) opsD = [(51, [1, 2, 3, 4, 5]), (52, [9, 8, 7])] ∧ readsOn PD 2 (init PD) opsD = [(61, [7])] := by decide

-- non-vacuity: the run satisfies `SelContig` and the other hypotheses
set_option maxRecDepth 1000000 in
example : readsOn PD 1 (init PD) opsD <+: writesOn PD 1 (init PD) opsD :=
  C01_netsys_prefix PD opsD 1 rfl (by decide) (by decide) (by decide) (by decide)

-- test: the interleaving selection of `opsI` is NOT message-contiguous
set_option maxRecDepth 1000000 in
example : SelContig PD opsI = false := by decide

end C01
