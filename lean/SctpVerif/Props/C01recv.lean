import SctpVerif.Proofs.Receiver.Prefix
import SctpVerif.Props.C05recv
/-!
# C01 at association level — the receive-side system theorem

Property theorems only, about the L0 model `Model/Receiver.lean` of the receive half of the association
(tied to association.go / stream.go by `TestVerifAssocReceiver`, whose honest generator plays a fragmenting,
retransmitting, reordering, duplicating peer and whose executable predicate compares every successful read of
the real association with the generator's ground-truth messages). The theorems COMPOSE

* the receive-queue refinement (`Props/C05.lean`): a TSN is accepted iff it lies in the tracking window and was
  not accepted before — here `C01_dedup`;
* the reassembly-queue refinements `OrdInv` (DATA: SSN, consecutive TSNs) and `MidInv` (I-DATA: MID/FSN) of
  `Props/C01.lean` (`C01_reasm_ordered`), whose hypothesis "no fragment is pushed twice" `C01_dedup` discharges.

Vocabulary: `Reasm.Sender` = stream id, the peer's initial TSN `t0`, the messages written on the stream, each
cut into fragments as `packetize` does, and `skip k` = how many TSNs other streams used before message `k`
(streams share the TSN space). `S.dataFrag k i` / `S.idataFrag τ k i` = fragment `i` of message `k` as it
arrives. `delivs si s ops` = the `(PPI, payload)` of every successful read on stream `si` along the run.
`pushes s c` = `handleData` hands chunk `c` to `pushPayloadDataToStream` in state `s`.
-/
namespace C01
open Gen Receiver

/-- ✱ duplicate suppression. In every reachable association state `s` (ANY op list: packets with any chunks,
FORWARD-TSNs and resets included), if `handleData` hands a DATA chunk to its stream, then the chunk's TSN lies in
the tracking window `(cum, cum + maxTSNOffset]`, its absolute index `A + (tsn − cum)` — the TSN counted from
the peer's initial TSN without wrap-around — was NEVER accepted before, and it counts as accepted in every
later state. Hence a TSN reaches a stream's `pushWithError` at most once per association. -/
theorem C01_dedup (maxBuf maxEntries : BitVec 32) (il f g : Bool) (am : Int) (t : BitVec 32)
    (ops : List Op) (c : Reasm.Chunk) (imm : Bool) (ops' : List Op) :
    let s0 := init maxBuf maxEntries il f g am t
    let s := run s0 ops
    let R := RecvQ.run (RecvQ.start (getMaxTSNOffset maxBuf) (t - 1)) (runTrace s0 ops)
    let R' := RecvQ.run (RecvQ.start (getMaxTSNOffset maxBuf) (t - 1)) (runTrace s0 (ops ++ Op.pkt [.data c imm] :: ops'))
    pushes s c = true →
      1 ≤ (c.tsn - s.pq.cum).toNat ∧ (c.tsn - s.pq.cum).toNat ≤ s.pq.maxOff.toNat ∧
      ¬ R.h.acc (R.h.A + (c.tsn - s.pq.cum).toNat) ∧ R'.h.acc (R.h.A + (c.tsn - s.pq.cum).toNat) := by
  intro s0 s R R' hp
  have hpq : s.pq = R.q := (C05.C05_assoc_sack_sound maxBuf maxEntries il f g am t ops).1
  have hg : RecvQ.GInv R := RecvQ.run_ginv (RecvQ.start_ginv _ _) _
  have hne : c.userData ≠ [] := by
    intro he; simp [pushes, he] at hp
  have hcp : RecvQ.canPush s.pq c.tsn = true := by
    simp only [pushes, Bool.and_eq_true] at hp; exact hp.1.2
  have hmo : s.pq.maxOff.toNat ≤ 40000 := (run_pq_inv maxBuf maxEntries il f g am t ops).2
  have hcpR : RecvQ.canPush R.q c.tsn = true := by rw [← hpq]; exact hcp
  obtain ⟨hadm, hnh⟩ := (RecvQ.canPush_iff hg.inv c.tsn).mp hcpR
  have hsm := (RecvQ.admissible_small (q := R.q) (by rw [← hpq]; omega) c.tsn).mp hadm
  rw [← hpq] at hsm
  refine ⟨hsm.1, hsm.2, ?_, ?_⟩
  · intro hacc
    have := (hg.hacc _ hsm.1).mp hacc
    rw [hpq] at this
    exact hnh ((RecvQ.held_iff_heldAt c.tsn).mpr this)
  · -- the operation this chunk performs on the queue accepts the index; later operations keep it
    have htr : runTrace s0 (ops ++ Op.pkt [.data c imm] :: ops') =
        runTrace s0 ops ++ (dataTrace (chunksStart s) c ++ runTrace (step s (.pkt [.data c imm])) ops') := by
      rw [runTrace_append]
      have hemp : c.userData.isEmpty = false := by simpa using hne
      simp only [runTrace, opTrace, chunksTrace, chunkTrace, hemp, List.append_nil]
      rfl
    have hps : pushes (chunksStart s) c = true := by rw [pushes_chunksStart]; exact hp
    have hpqs : (chunksStart s).pq = R.q := hpq
    show (RecvQ.run _ (runTrace s0 (ops ++ Op.pkt [.data c imm] :: ops'))).h.acc _
    rw [htr, RecvQ.run_append, RecvQ.run_append]
    have hmono : ∀ (l : List RecvQ.Op) (Rx : RecvQ.St) (k : Nat), (∀ op ∈ l, noInit op) → Rx.h.acc k → (RecvQ.run Rx l).h.acc k := by
      intro l
      induction l with
      | nil => intro Rx k _ h; exact h
      | cons op l ih =>
        intro Rx k hn h
        have hop : ∀ c', op ≠ .init c' := by
          intro c' hc; have := hn op List.mem_cons_self; rw [hc] at this; exact this
        exact ih _ k (fun o ho => hn o (List.mem_cons_of_mem _ ho)) ((RecvQ.step_sets_mono Rx op hop).1 k h)
    apply hmono _ _ _ (runTrace_noInit _ _)
    rcases dataTrace_cases (chunksStart s) c hne with ⟨hf, _⟩ | ⟨_, _, htrc | htrc⟩
    · rw [hps] at hf; cases hf
    · rw [htrc]
      obtain ⟨_, _, hacc⟩ := sData_ghost R c.tsn true
      show (RecvQ.sData R c.tsn true).h.acc _
      rw [hacc]; right
      exact ⟨by simp [hcpR], by rw [hpq]⟩
    · rw [htrc]
      obtain ⟨_, _, hacc⟩ := sPush_ghost R c.tsn hcpR
      show (RecvQ.sPush R c.tsn).h.acc _
      rw [hacc]; right; rw [hpq]


/-! ## the receive-side system theorem -/

/-- the per-stream refinement bundle for ordered DATA -/
def specData (S : Reasm.Sender) (hS : S.WF) : SSpec where
  S := S
  frag := S.dataFrag
  idx := fun k i => S.base k + i
  W := 2^15
  Inv := Reasm.OrdInv S
  inv_new := Reasm.OrdInv_new S
  inv_push := fun h hk hi hP hw => h.push hS hk hi hP hw
  inv_read := fun n h => h.read hS n
  frag_si := fun _ _ => rfl

/-- the per-stream refinement bundle for ordered I-DATA; fragment `(k, i)` travels with TSN `t + ν k i` -/
def specIData (S : Reasm.Sender) (hS : S.WF) (t : BitVec 32) (ν : Nat → Nat → Nat) : SSpec where
  S := S
  frag := S.idataFrag (fun k i => t + BitVec.ofNat 32 (ν k i))
  idx := ν
  W := 2^31
  Inv := Reasm.MidInv S (fun k i => t + BitVec.ofNat 32 (ν k i))
  inv_new := Reasm.MidInv_new S _
  inv_push := fun h hk hi hP hw => h.push hS hk hi hP hw
  inv_read := fun n h => h.read hS n
  frag_si := fun _ _ => rfl

/-- ✱ **Receive side, ordered DATA.** Let the peer's streams be described by `senders` (pairwise distinct
stream ids, all starting from the peer's initial TSN `t`, fewer than 2^31 TSNs in all — so that a 32-bit TSN
names one chunk). Take ANY op list in which every inbound chunk is a HEARTBEAT or a DATA fragment
`S.dataFrag k i` of some stream of the universe — in any order, any number of times, with any loss (fragments
never delivered), bundled into packets in any way — interleaved with reads of any buffer size on any stream
object, `accept`, `open`, `gather`, clock ticks and association-state changes. Then for every stream `S` of
the universe the successful reads on stream `S.si` form a PREFIX of the messages written on it (PPI and bytes):
nothing is delivered twice, out of order, truncated, merged or altered, whatever the network did.
Hypothesis `hwin` is the 16-bit SSN window (deviation D15): whenever a fragment of message `k` of this stream
is handed to its reassembly queue, `k` is fewer than 2^15 messages ahead of what the application has read. -/
theorem C01_receiver_prefix (senders : List Reasm.Sender) (t : BitVec 32) (N : Nat) (hN : N < 2^31)
    (hWF : ∀ S ∈ senders, S.WF) (ht0 : ∀ S ∈ senders, S.t0 = t)
    (hidx : ∀ S ∈ senders, ∀ k i, k < S.msgs.length → i < S.nf k → S.base k + i < N)
    (hsi : ∀ S ∈ senders, ∀ S' ∈ senders, S'.si = S.si → S' = S)
    (maxBuf maxEntries : BitVec 32) (il f g : Bool) (am : Int) (ops : List Op)
    (hgood : ∀ cs, Op.pkt cs ∈ ops → ∀ ch ∈ cs, (∃ info, ch = .hb info) ∨
      ∃ S ∈ senders, ∃ k i imm, k < S.msgs.length ∧ i < S.nf k ∧ ch = .data (S.dataFrag k i) imm)
    (S : Reasm.Sender) (hS : S ∈ senders)
    (hwin : ∀ ops1 cs1 k i imm cs2 ops2, ops = ops1 ++ Op.pkt (cs1 ++ InChunk.data (S.dataFrag k i) imm :: cs2) :: ops2 →
      k < S.msgs.length → i < S.nf k →
      pushes (cs1.foldl handleChunk (chunksStart (run (init maxBuf maxEntries il f g am t) ops1))) (S.dataFrag k i) = true →
      k < (delivs S.si (init maxBuf maxEntries il f g am t) ops1).length + 2^15) :
    delivs S.si (init maxBuf maxEntries il f g am t) ops <+: S.msgs.map Reasm.Msg.out := by
  let U : Univ :=
    { t := t, N := N, hN := hN,
      specs := senders.pmap (fun S h => specData S h) hWF,
      tsn := by
        intro T hT k i hk hi
        obtain ⟨S', hS', rfl⟩ := List.mem_pmap.mp hT
        refine ⟨?_, hidx S' hS' k i hk hi⟩
        show (S'.dataFrag k i).tsn = t + BitVec.ofNat 32 (S'.base k + i)
        simp only [Reasm.Sender.dataFrag, ht0 S' hS']
      distinct := by
        intro T hT T' hT' he
        obtain ⟨S1, hS1, rfl⟩ := List.mem_pmap.mp hT
        obtain ⟨S2, hS2, rfl⟩ := List.mem_pmap.mp hT'
        have : S2 = S1 := hsi S1 hS1 S2 hS2 he
        subst this; rfl }
  have hT : specData S (hWF S hS) ∈ U.specs := List.mem_pmap.mpr ⟨S, hS, rfl⟩
  have hg : ∀ op ∈ ops, GoodOp U op := by
    intro op hop
    cases op with
    | pkt cs =>
      intro ch hch
      rcases hgood cs hop ch hch with h | ⟨S', hS', k, i, imm, hk, hi, rfl⟩
      · exact Or.inl h
      · exact Or.inr ⟨specData S' (hWF S' hS'), List.mem_pmap.mpr ⟨S', hS', rfl⟩, k, i, imm, hk, hi, rfl⟩
    | _ => trivial
  have hw : Win (specData S (hWF S hS)) (init maxBuf maxEntries il f g am t) 0 ops := by
    intro ops1 cs1 k i imm cs2 ops2 he hk hi hp
    have := hwin ops1 cs1 k i imm cs2 ops2 he hk hi hp
    show k < 0 + (delivs S.si _ ops1).length + 2^15
    omega
  have := prefix_main hT ops (init_pinv U (specData S (hWF S hS)) maxBuf maxEntries il f g am) hg hw
  rw [List.drop_zero] at this
  exact this

/-- ✱ **Receive side, ordered I-DATA** (message interleaving): the same statement for fragments
`S.idataFrag τ k i`, whose TSNs `τ k i = t + ν S k i` are ARBITRARY (any interleaving of the streams' fragments
in the TSN space; fewer than 2^31 TSNs in all), with the 32-bit MID window 2^31. -/
theorem C01_receiver_prefix_idata (senders : List Reasm.Sender) (t : BitVec 32) (N : Nat) (hN : N < 2^31)
    (ν : Reasm.Sender → Nat → Nat → Nat)
    (hWF : ∀ S ∈ senders, S.WF)
    (hidx : ∀ S ∈ senders, ∀ k i, k < S.msgs.length → i < S.nf k → ν S k i < N)
    (hsi : ∀ S ∈ senders, ∀ S' ∈ senders, S'.si = S.si → S' = S)
    (maxBuf maxEntries : BitVec 32) (il f g : Bool) (am : Int) (ops : List Op)
    (hgood : ∀ cs, Op.pkt cs ∈ ops → ∀ ch ∈ cs, (∃ info, ch = .hb info) ∨
      ∃ S ∈ senders, ∃ k i imm, k < S.msgs.length ∧ i < S.nf k ∧
        ch = .data (S.idataFrag (fun k i => t + BitVec.ofNat 32 (ν S k i)) k i) imm)
    (S : Reasm.Sender) (hS : S ∈ senders)
    (hwin : ∀ ops1 cs1 k i imm cs2 ops2,
      ops = ops1 ++ Op.pkt (cs1 ++ InChunk.data (S.idataFrag (fun k i => t + BitVec.ofNat 32 (ν S k i)) k i) imm :: cs2) :: ops2 →
      k < S.msgs.length → i < S.nf k →
      pushes (cs1.foldl handleChunk (chunksStart (run (init maxBuf maxEntries il f g am t) ops1)))
        (S.idataFrag (fun k i => t + BitVec.ofNat 32 (ν S k i)) k i) = true →
      k < (delivs S.si (init maxBuf maxEntries il f g am t) ops1).length + 2^31) :
    delivs S.si (init maxBuf maxEntries il f g am t) ops <+: S.msgs.map Reasm.Msg.out := by
  let U : Univ :=
    { t := t, N := N, hN := hN,
      specs := senders.pmap (fun S h => specIData S h t (ν S)) hWF,
      tsn := by
        intro T hT k i hk hi
        obtain ⟨S', hS', rfl⟩ := List.mem_pmap.mp hT
        exact ⟨rfl, hidx S' hS' k i hk hi⟩
      distinct := by
        intro T hT T' hT' he
        obtain ⟨S1, hS1, rfl⟩ := List.mem_pmap.mp hT
        obtain ⟨S2, hS2, rfl⟩ := List.mem_pmap.mp hT'
        have : S2 = S1 := hsi S1 hS1 S2 hS2 he
        subst this; rfl }
  have hT : specIData S (hWF S hS) t (ν S) ∈ U.specs := List.mem_pmap.mpr ⟨S, hS, rfl⟩
  have hg : ∀ op ∈ ops, GoodOp U op := by
    intro op hop
    cases op with
    | pkt cs =>
      intro ch hch
      rcases hgood cs hop ch hch with h | ⟨S', hS', k, i, imm, hk, hi, rfl⟩
      · exact Or.inl h
      · exact Or.inr ⟨specIData S' (hWF S' hS') t (ν S'), List.mem_pmap.mpr ⟨S', hS', rfl⟩, k, i, imm, hk, hi, rfl⟩
    | _ => trivial
  have hw : Win (specIData S (hWF S hS) t (ν S)) (init maxBuf maxEntries il f g am t) 0 ops := by
    intro ops1 cs1 k i imm cs2 ops2 he hk hi hp
    have := hwin ops1 cs1 k i imm cs2 ops2 he hk hi hp
    show k < 0 + (delivs S.si _ ops1).length + 2^31
    omega
  have := prefix_main hT ops (init_pinv U (specIData S (hWF S hS) t (ν S)) maxBuf maxEntries il f g am) hg hw
  rw [List.drop_zero] at this
  exact this


/-! ### non-vacuity: a two-stream universe across the TSN wrap -/

-- stream 1 writes two messages (2 + 1 fragments), stream 2 one; the peer's initial TSN is 2^32−2, stream 2's
-- message takes the TSN between the two messages of stream 1 (`skip`): TSNs 2^32−2, 2^32−1 | 0 | 1.
private def S1 : Reasm.Sender :=
  { si := 1, t0 := 4294967294#32, msgs := [{ ppi := 51, frags := [[1, 2], [3]] }, { ppi := 52, frags := [[9]] }],
    skip := fun k => if k == 0 then 0 else 1 }
private def S2 : Reasm.Sender :=
  { si := 2, t0 := 4294967294#32, msgs := [{ ppi := 61, frags := [[7]] }], skip := fun _ => 2 }
private def opsX : List Op :=
  [.data (S1.dataFrag 1 0), .read (1, 0) 100, .data (S1.dataFrag 0 1), .data (S1.dataFrag 0 1), .data (S2.dataFrag 0 0),
   .read (2, 0) 100, .gather, .data (S1.dataFrag 0 0), .read (1, 0) 1, .read (1, 0) 100, .data (S1.dataFrag 1 0), .read (1, 0) 100]
private def sX : St := init 65536 0 false true false 0 4294967294#32

-- test by evaluation: out of order, duplicated, across the wrap — both messages of stream 1, in order, once
set_option maxRecDepth 1000000 in
example : delivs 1 sX opsX = [(51, [1, 2, 3]), (52, [9])] ∧ delivs 2 sX opsX = [(61, [7])] := by decide

-- the theorem applies to this run (all hypotheses hold)
example : delivs 1 sX opsX <+: S1.msgs.map Reasm.Msg.out := by
  refine C01_receiver_prefix [S1, S2] 4294967294#32 10 (by decide) ?_ ?_ ?_ ?_ 65536 0 false true false 0 opsX ?_ S1 (by simp) ?_
  · intro S hS; simp at hS; rcases hS with rfl | rfl <;> (unfold Reasm.Sender.WF; decide)
  · intro S hS; simp at hS; rcases hS with rfl | rfl <;> rfl
  · intro S hS k i hk hi
    simp at hS
    rcases hS with rfl | rfl
    · have : k < 2 := hk
      have hk2 : k = 0 ∨ k = 1 := by omega
      rcases hk2 with rfl | rfl
      · have : i < 2 := hi
        have : Reasm.Sender.base S1 0 = 0 := by decide
        omega
      · have : i < 1 := hi
        have : Reasm.Sender.base S1 1 = 3 := by decide
        omega
    · have : k < 1 := hk
      have hk0 : k = 0 := by omega
      subst hk0
      have : i < 1 := hi
      have : Reasm.Sender.base S2 0 = 2 := by decide
      omega
  · intro S hS S' hS' he
    simp at hS hS'
    rcases hS with rfl | rfl <;> rcases hS' with rfl | rfl <;> first | rfl | (exact absurd he (by decide))
  · intro cs hcs ch hch
    simp only [opsX, Op.data, List.mem_cons, Op.pkt.injEq, reduceCtorEq, List.mem_nil_iff, or_false, false_or] at hcs
    right
    rcases hcs with rfl | rfl | rfl | rfl | rfl | rfl <;> simp only [List.mem_singleton] at hch <;> subst hch
    · exact ⟨S1, by simp, 1, 0, false, by decide, by decide, rfl⟩
    · exact ⟨S1, by simp, 0, 1, false, by decide, by decide, rfl⟩
    · exact ⟨S1, by simp, 0, 1, false, by decide, by decide, rfl⟩
    · exact ⟨S2, by simp, 0, 0, false, by decide, by decide, rfl⟩
    · exact ⟨S1, by simp, 0, 0, false, by decide, by decide, rfl⟩
    · exact ⟨S1, by simp, 1, 0, false, by decide, by decide, rfl⟩
  · intro ops1 cs1 k i imm cs2 ops2 _ hk _ _
    have : k < 2 := hk
    omega

end C01
