import SctpVerif.Gen.Facts
import SctpVerif.Gen.Consts
/-!
# C14 — facts of the code the stream-reset argument rests on, pinned
-/
namespace C14

/-- **The reconfiguration timer never gives up**: an unanswered reset request is retransmitted without limit. -/
theorem C14_treconfig_never_gives_up :
    ("timerReconfig", "noMaxRetrans") ∈ Gen.rtxTimerSites ∧ Gen.noMaxRetrans = 0 := by decide

end C14
