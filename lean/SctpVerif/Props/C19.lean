import SctpVerif.Proofs.Timer
import SctpVerif.Proofs.AckAuto
import SctpVerif.Gen.Facts
/-!
# C19 — timer laws

Property theorems only. What they are about:

* `Gen.calculateNextTimeout_Rat`, `Gen.rtoManager_*_Rat`, the `Gen.*` constants and the
  `Gen.*Sites` facts are REGENERATED from /repo by the translator on every run;
* `Rto.R.*` (`Model/Rto.lean`) only wires the generated arithmetic to a record;
* `Timer.RtxSys` / `Timer.AckSys` (`Model/Timer.lean`) are hand-written models of
  rtx_timer.go / ack_timer.go with the Go runtime timer as environment; they are tied to the
  code by the synctest correspondence runs, not verified.

`float64` is `Rat` here (rounding is outside the theorems; the `Float` instance is compared with
the Go code bit for bit by the harness). `Tame` = at every step fewer than 255 fired callbacks
are waiting for the timer's mutex (`pending` is a `uint8`).

Not in this file (tied elsewhere / pending): the association-level parts of the property —
immediate SACK on gap / duplicate, SACK within 200 ms of every DATA packet (needs the `Receiver`
model; here only the ack-timer law it rests on), heartbeat echo and the round-trip sample it
yields (known deviations D1/D2/D11 of DESIGN §6 live there).
-/
namespace C19
open Gen Rto Timer TimerProofs

/-! ## retransmission timeout value -/

/-- Whatever round-trip samples (and resets) arrive, the manager's RTO stays between RTO.Min and
the configured maximum, provided the configured maximum is not below RTO.Min. -/
theorem C19_rto_clamped (rtoMax : Rat) (ops : List R.Op) (h : Gen.rtoMin ≤ (R.new rtoMax).rtoMax) :
    Gen.rtoMin ≤ R.getRTO (R.run (R.new rtoMax) ops) ∧
    R.getRTO (R.run (R.new rtoMax) ops) ≤ (R.new rtoMax).rtoMax := by
  obtain ⟨hi, hm⟩ := minv_run (R.new rtoMax) ops (minv_new rtoMax h)
  have : R.getRTO (R.run (R.new rtoMax) ops) = (R.run (R.new rtoMax) ops).rto := rfl
  rw [this]
  exact ⟨hi.lo, by rw [← hm]; exact hi.hi⟩

/-- non-vacuity: the default configuration (`RTOMax = 0` ↦ 60 s) and any maximum ≥ 1 s qualify;
RTO.Min is one second. -/
example : Gen.rtoMin ≤ (R.new 0).rtoMax := by decide
example : Gen.rtoMin ≤ (R.new 3000).rtoMax := by decide
example : Gen.rtoMin = 1000 ∧ (R.new 0).rtoMax = 60000 := by decide

/-- Back-off of the generated `calculateNextTimeout`: each further expiry doubles the interval up
to the maximum, the sequence never decreases, and from the 31st expiry on it is the maximum.
(`hbig` concerns expiry 31 only, where the code stops shifting: it holds whenever `rto ≥ RTO.Min`
and the maximum is below 2^31 s, see `C19_backoff_protocol_range`.) -/
theorem C19_backoff (rto rtoMax : Rat) (n : Nat) (hrto : 0 ≤ rto) (hmax : 0 ≤ rtoMax)
    (hbig : 30 ≤ n → rtoMax ≤ rto * 2^31) :
    calculateNextTimeout_Rat rto (n+1) rtoMax = min (2 * calculateNextTimeout_Rat rto n rtoMax) rtoMax ∧
    calculateNextTimeout_Rat rto n rtoMax ≤ calculateNextTimeout_Rat rto (n+1) rtoMax ∧
    (31 ≤ n → calculateNextTimeout_Rat rto n rtoMax = rtoMax) ∧
    calculateNextTimeout_Rat rto 0 rtoMax = min rto rtoMax :=
  ⟨backoff_step rto rtoMax n hmax hbig, backoff_mono rto rtoMax n hrto, next_ge rto rtoMax n,
   by rw [next_lt _ _ 0 (by omega)]; simp⟩

example : (0 : Rat) ≤ 1000 ∧ (0 : Rat) ≤ 60000 ∧ ((30 : Nat) ≤ 30 → (60000 : Rat) ≤ 1000 * 2^31) := by
  refine ⟨by decide, by decide, fun _ => by norm_num⟩

/-- In the protocol's range (RTO from the manager, maximum below 2^31 s) doubling holds for
every expiry number. -/
theorem C19_backoff_protocol_range (rto rtoMax : Rat) (n : Nat) (hlo : Gen.rtoMin ≤ rto)
    (hmm : Gen.rtoMin ≤ rtoMax) (hcap : rtoMax ≤ 1000 * 2^31) :
    calculateNextTimeout_Rat rto (n+1) rtoMax = min (2 * calculateNextTimeout_Rat rto n rtoMax) rtoMax := by
  rw [rtoMin_val] at hlo hmm
  refine backoff_step rto rtoMax n (by linarith) (fun _ => ?_)
  have : (1000:Rat) * 2^31 ≤ rto * 2^31 := by nlinarith [show (0:Rat) < 2^31 by positivity]
  linarith

example : Gen.rtoMin ≤ (1000 : Rat) ∧ Gen.rtoMin ≤ (60000 : Rat) ∧ (60000 : Rat) ≤ 1000 * 2^31 := by
  refine ⟨by decide, by decide, by norm_num⟩

/-- Every expiry interval of a timer started with the manager's RTO lies in [RTO.Min, max]. -/
theorem C19_interval_bounds (rto rtoMax : Rat) (n : Nat) (hlo : Gen.rtoMin ≤ rto) (hmm : Gen.rtoMin ≤ rtoMax) :
    Gen.rtoMin ≤ calculateNextTimeout_Rat rto n rtoMax ∧ calculateNextTimeout_Rat rto n rtoMax ≤ rtoMax :=
  interval_bounds rto rtoMax n hlo hmm

example : Gen.rtoMin ≤ (1000 : Rat) ∧ Gen.rtoMin ≤ (60000 : Rat) := ⟨by decide, by decide⟩

/-- FACT (decide over the generated call-site list): every retransmission timer in non-test code
is started with the manager's current RTO, the manager and all five timers get the same configured
maximum expression, and the `setRTO` test hook (which could bypass the clamp) has no non-test caller. -/
theorem C19_start_uses_manager_rto :
    (Gen.rtxTimerStartSites.all fun p => p.2.2 == "a.rtoMgr.getRTO()") = true ∧
    Gen.rtxTimerStartSites.length = 9 ∧ Gen.setRTOSites = [] ∧
    Gen.rtoMaxArgSites = [("newRTOManager", "rtoMax"), ("newRTXTimer", "rtoMax"), ("newRTXTimer", "rtoMax"),
      ("newRTXTimer", "rtoMax"), ("newRTXTimer", "rtoMax"), ("newRTXTimer", "rtoMax")] := by decide

/-! ## the rtxTimer automaton -/

/-- For every interleaving of `start/stop/close` with the environment (`fire`, callbacks running
in any order, time passing) that is `Tame`:
the `pending` counter equals [runtime timer armed] + #callbacks fired and not yet run; the runtime
timer is armed only while started and only by (or after) the latest `start`; `nRtos` counts the
real expiries since the latest start; a started timer always has an expiry on its way; and a
callback reaches the observer iff the timer is started, nothing is armed and it is the LAST
outstanding callback — in which case an expiry since the latest start is really due and not yet
accounted for (so stale callbacks are absorbed, and nothing fires after stop/close). -/
theorem C19_timer_automaton (tid k : Nat) (ops : List Op) (i : Nat)
    (ht : RtxSys.Tame (RtxSys.new tid k) ops) :
    let s := ((RtxSys.new tid k).exec ops).1
    s.t.pending.toNat = (if s.g.armed.isSome then 1 else 0) + s.g.spawned.length ∧
    (∀ d tag, s.g.armed = some (d, tag) → s.t.state = .started ∧ tag = s.epoch) ∧
    (s.t.state = .started → s.t.nRtos + (if s.g.armed.isSome then 0 else 1) = s.fires) ∧
    (s.t.state = .started → s.g.armed.isSome ∨ s.g.spawned ≠ []) ∧
    (i < s.g.spawned.length →
      ((s.run i).2.isSome ↔ (s.t.state = .started ∧ s.g.armed = none ∧ s.g.spawned.length = 1)) ∧
      ((s.run i).2.isSome → s.fires = s.t.nRtos + 1)) := by
  intro s
  have hinv : RInv tid k s := rinv_exec _ ops (rinv_new tid k) ht
  have hal : Alive s := alive_exec _ ops (rinv_new tid k) (by intro h; simp [RtxSys.new] at h) ht
  refine ⟨hinv.cnt, ?_, hinv.acct, ?_, ?_⟩
  · intro d tag hx
    exact ⟨hinv.armedStarted (by rw [hx]; rfl), hinv.armedTag d tag hx⟩
  · intro hst
    have := hal hst
    unfold live at this
    by_cases ha : s.g.armed.isSome = true
    · exact Or.inl ha
    · right; rw [if_neg ha] at this; intro hnil; rw [hnil] at this; simp at this
  · intro hi
    have hd := run_delivers_iff s i hinv hi
    refine ⟨hd, fun hdel => ?_⟩
    obtain ⟨hst, hna, _⟩ := hd.mp hdel
    have := hinv.acct hst
    simp only [hna, Option.isSome_none, Bool.false_eq_true, if_false] at this
    omega

/-- non-vacuity and a replayed scenario (TEST by `decide` on one trace): start, fire, the callback
runs → observer gets (3, 1) and the timer is re-armed. -/
example : RtxSys.Tame (RtxSys.new 3 0) [.start (fun _ => 1), .fire, .run 0] := by decide
example : ((RtxSys.new 3 0).exec [.start (fun _ => 1), .fire, .run 0]).2 = [.timeout 3 1] := by decide

/-- When callbacks run in the order they were spawned, the oldest one reaches the observer iff
the timer is started and that callback stems from an arming made by (or after) the latest
`start` — the identity form of stale-expiry suppression. -/
theorem C19_timer_automaton_fifo (tid k : Nat) (ops : List Op)
    (ht : RtxSys.Tame (RtxSys.new tid k) ops) (hf : Fifo ops) :
    let s := ((RtxSys.new tid k).exec ops).1
    0 < s.g.spawned.length →
    ((s.run 0).2.isSome ↔ (s.t.state = .started ∧ s.g.spawned.head? = some s.epoch)) := by
  intro s hi
  exact fifo_delivers_iff s (rinv_exec _ ops (rinv_new tid k) ht)
    (finv_exec _ ops (rinv_new tid k) (finv_new tid k) ht hf) hi

example : Fifo [.start (fun _ => 1), .fire, .run 0] ∧ RtxSys.Tame (RtxSys.new 3 0) [.start (fun _ => 1), .fire, .run 0] := by
  refine ⟨?_, by decide⟩
  intro o ho i hi
  simp only [List.mem_cons, List.mem_nil_iff, or_false] at ho
  rcases ho with rfl | rfl | rfl <;> cases hi
  rfl

/-- WITNESS (decide on one trace) that the identity form needs in-order execution: when the fresh
callback (tag 2) happens to run before the stale one (tag 1), the code swallows the fresh one and
reports the expiry when the stale one runs. The count-based statement of `C19_timer_automaton`
still holds: one report, after the real expiry. -/
theorem C19_out_of_order_witness :
    let pre : List Op := [.start (fun _ => 1), .fire, .stop, .start (fun _ => 1), .fire]
    ((RtxSys.new 3 0).exec pre).1.g.spawned = [1, 2] ∧ ((RtxSys.new 3 0).exec pre).1.epoch = 2 ∧
    ((RtxSys.new 3 0).exec (pre ++ [.run 1])).2 = [] ∧
    ((RtxSys.new 3 0).exec (pre ++ [.run 1, .run 0])).2 = [.timeout 3 1] := by decide

set_option maxRecDepth 100000 in
/-- WITNESS (decide on one trace; replayed on the implementation as known finding K19-pending-uint8)
that `Tame` cannot be dropped: `pending` is a `uint8`. After 256 rounds of start / fire / stop with
none of the 256 callbacks having run yet, the counter has wrapped to 0; the timer is started
afresh (armed, nothing fired since: `fires = 0`), and the first stale callback that runs is taken
for its expiry. Needs 256 goroutines stalled in front of the timer's mutex. -/
theorem C19_pending_wrap_witness :
    let ops : List Op := (List.replicate 256 [Op.start (fun _ => 1), Op.fire, Op.stop]).flatten ++ [Op.start (fun _ => 1)]
    let s := ((RtxSys.new 3 0).exec ops).1
    s.g.spawned.length = 256 ∧ s.t.pending = 1 ∧ s.fires = 0 ∧ s.g.armed.isSome = true ∧
    (s.run 0).2 = some (.timeout 3 1) := by
  decide

/-! ## retry budget -/

/-- Whatever a callback reports is determined by the budget: with `maxRetrans = k` the report is
`failure` iff `k ≠ 0` and this is expiry number `k+1` since the latest start (exactly: never
earlier, never later), otherwise it is `timeout(id, n)` with `n` = the number of real expiries
since the latest start. FACTS from the generated call sites: T1-init and T1-cookie are created
with `maxInitRetrans` = 8, T2-shutdown, T3-rtx and the reconfig timer with `noMaxRetrans` = 0. -/
theorem C19_retry_budget :
    (∀ (tid k : Nat) (ops : List Op) (i : Nat) (e : Ev),
      RtxSys.Tame (RtxSys.new tid k) ops →
      let s := ((RtxSys.new tid k).exec ops).1
      (s.run i).2 = some e →
        s.fires = s.t.nRtos + 1 ∧
        ((e = .failure tid ∧ k ≠ 0 ∧ s.fires = k + 1) ∨
         (e = .timeout tid s.fires ∧ (k = 0 ∨ s.fires ≤ k)))) ∧
    Gen.rtxTimerSites = [("timerT1Init", "maxInitRetrans"), ("timerT1Cookie", "maxInitRetrans"),
      ("timerT2Shutdown", "noMaxRetrans"), ("timerT3RTX", "noMaxRetrans"), ("timerReconfig", "noMaxRetrans")] ∧
    Gen.maxInitRetrans = 8 ∧ Gen.noMaxRetrans = 0 := by
  refine ⟨?_, by decide, by decide, by decide⟩
  intro tid k ops i e ht s he
  have hinv : RInv tid k s := rinv_exec _ ops (rinv_new tid k) ht
  have hbud : Budget s := budget_exec _ ops (budget_new tid k)
  have hi : i < s.g.spawned.length := by
    by_cases hi : i < s.g.spawned.length
    · exact hi
    · simp [RtxSys.run, hi] at he
  obtain ⟨hst, hna, _⟩ := (run_delivers_iff s i hinv hi).mp (by rw [he]; rfl)
  have hacct := hinv.acct hst
  simp only [hna, Option.isSome_none, Bool.false_eq_true, if_false] at hacct
  refine ⟨by omega, ?_⟩
  rcases run_event s i e he with ⟨h1, h2⟩ | ⟨h1, h2, h3⟩
  · right
    rw [hinv.cid, hacct] at h1
    rw [hinv.ck, hacct] at h2
    exact ⟨h1, h2⟩
  · left
    rw [hinv.cid] at h1
    rw [hinv.ck] at h2 h3
    have := hbud (by rw [hinv.ck]; exact h2) hst
    rw [hinv.ck] at this
    exact ⟨h1, h2, by omega⟩

/-- TEST by `decide`: with a budget of 2 the third expiry is the failure report. -/
example : ((RtxSys.new 0 2).exec [.start (fun _ => 1), .fire, .run 0, .fire, .run 0, .fire, .run 0]).2
    = [.timeout 0 1, .timeout 0 2, .failure 0] := by decide

/-- A timer created with `maxRetrans = 0` (data, shutdown, reconfig) never reports failure, in any
interleaving at all; and as long as it is started an expiry is always on its way. -/
theorem C19_never_gives_up (tid : Nat) (ops : List Op) :
    (∀ e ∈ ((RtxSys.new tid 0).exec ops).2, ∀ x, e ≠ .failure x) ∧
    (RtxSys.Tame (RtxSys.new tid 0) ops →
      let s := ((RtxSys.new tid 0).exec ops).1
      s.t.state = .started → s.g.armed.isSome ∨ s.g.spawned ≠ []) := by
  refine ⟨no_failure_of_zero _ ops rfl, fun ht => ?_⟩
  exact (C19_timer_automaton tid 0 ops 0 ht).2.2.2.1

/-! ## Karn's rule -/

/-- FACT (decide over the generated call-site list): `setNewRTT` is called at exactly three places;
the two in SACK processing (cumulative-ack path and gap-ack path) are both guarded by
`chunkPayload.nSent == 1` (chunks that were not retransmitted), the third is the HEARTBEAT-ACK
handler. -/
theorem C19_karn :
    (Gen.setNewRTTSites.all fun p =>
      p.1 == "Association.handleHeartbeatAck" || p.2.contains "chunkPayload.nSent == 1") = true ∧
    Gen.setNewRTTSites.map (·.1) =
      ["Association.handleHeartbeatAck", "Association.processSelectiveAck", "Association.processSelectiveAck"] := by
  decide

/-! ## ack timer -/

/-- PARTIAL: the ack-timer law the 200 ms bound rests on (the association-level statement — after
every DATA packet the ack state is immediate or this timer is armed — needs the `Receiver`
model). For every `Tame` interleaving: while the timer is started, either the runtime timer is
armed for exactly `since + 200 ms` (`since` = instant of the `start` that armed it, `≤ now`), or
it has already fired and its callback is outstanding; a `start` on a started timer reports
`false` and changes nothing (the deadline is not pushed back); the callback reaches the observer
iff the timer is started, nothing is armed and it is the last outstanding one, and that stops the
timer (one shot). FACT: the only `start` site is `handleChunksEnd` under
`!immediateAckTriggered && delayedAckTriggered`; with `immediateAckTriggered` the timer is stopped. -/
theorem C19_ack_delay_bound_partial (ops : List Op) (i : Nat) (ht : AckSys.Tame {} ops) :
    let s := (AckSys.exec {} ops).1
    Gen.ackInterval = 200000000 ∧ s.since ≤ s.now ∧
    (s.t.state = .started →
      (∃ tag, s.g.armed = some (s.since + Gen.ackInterval, tag)) ∨ (s.g.armed = none ∧ s.g.spawned ≠ [])) ∧
    (s.t.state = .started → s.start = (s, false)) ∧
    (i < s.g.spawned.length →
      ((s.run i).2.isSome ↔ (s.t.state = .started ∧ s.g.armed = none ∧ s.g.spawned.length = 1)) ∧
      ((s.run i).2.isSome → (s.run i).2 = some .ack ∧ (s.run i).1.t.state = .stopped)) ∧
    Gen.ackTimerStartSites = [("Association.handleChunksEnd", ["!(a.immediateAckTriggered)", "a.delayedAckTriggered"])] ∧
    ("Association.handleChunksEnd", ["a.immediateAckTriggered"]) ∈ Gen.ackTimerStopSites := by
  intro s
  have hinv : AInv s := ainv_exec _ ops ainv_new ht
  refine ⟨by decide, hinv.since_le, ?_, ?_, ?_, by decide, by decide⟩
  · intro hst
    have hl := hinv.alive hst
    unfold live at hl
    cases ha : s.g.armed with
    | none =>
      right; refine ⟨rfl, ?_⟩
      intro hnil; rw [ha, hnil] at hl; simp at hl
    | some x =>
      obtain ⟨d, tag⟩ := x
      left; exact ⟨tag, by rw [hinv.dl d tag ha]⟩
  · intro hst; simp [AckSys.start, hst]
  · intro hi
    refine ⟨ack_run_delivers_iff s i hinv hi, fun hdel => ?_⟩
    obtain ⟨_, _, _, _, _, _, hsome, _⟩ := ack_run_frame s i hi
    exact ⟨(hsome hdel).2, (hsome hdel).1⟩

/-- TEST by `decide`: start at 0, a second start at 150 ms is refused, the runtime timer stays
armed for 200 ms. -/
example : (AckSys.exec {} [.start (fun _ => 0), .tick 150000000, .start (fun _ => 0)]).1.g.armed
    = some (200000000, 1) := by decide
example : AckSys.Tame {} [.start (fun _ => 0), .tick 150000000, .start (fun _ => 0)] := by decide

end C19
