import SctpVerif.Proofs.Reset
/-!
# C14 — stream close is ordered after the stream's data; identifiers can be reused

Property theorems only; helper lemmas are in `Proofs/Reset/*.lean`. The model is `Rs` (`Model/Reset.lean`), replayed
line by line against two real associations by `TestVerifReset` (`go/harness/rs_test.go`).
-/
namespace C14
open Rs Gen

/-! ## stream close is ordered after the stream's data — the two-endpoint model `Rs`

`s := (Sys.init il tsnA tsnB).run ops` is ANY reachable state: `ops` is an arbitrary list of application calls at
either endpoint (open / write / close / read / accept, on any handle, in any order), write-loop passes with ANY
admissible choice of what leaves the pending queue and ANY retransmissions, deliveries of ANY packet ever sent to the
other side (never = loss, twice = duplication, any order = reordering, old = stale replay), and timer expiries.
`0 < tsnA`, `0 < tsnB`: initial TSNs are not 0 (TSNs are natural numbers in the model, see the header of the model).
An identifier is judged as long as the applications re-open it only after both directions were reset
(`sid ∉ s.taint`, where `taint` collects the identifiers for which `openS` created an object while `Sys.quiet` was
false). -/

/-- ✱ EOF only after all data. If the reader of a stream object `o` (at endpoint `x`) has been given EOF, then the peer
has a stream object `w` with the same identifier and incarnation — the partner —, `w` was closed by its application, and
EVERY message written on `w` has been handed to the reader of `o`: the ordered ones in the order they were written
(`Sublist` of what Read returned), the unordered ones each at least once. Under any loss / duplication / reordering /
stale replay of DATA, SACK and RE-CONFIG packets and any retransmission pattern. -/
theorem C14_eof_after_data (il : Bool) (tsnA tsnB : Nat) (ha : 0 < tsnA) (hb : 0 < tsnB) (ops : List Op)
    (x : Bool) (ho : Nat) (o : Obj)
    (hobj : (((Sys.init il tsnA tsnB).run ops).ep x).objs[ho]? = some o) (heof : o.eofSeen = true)
    (ht : o.sid ∉ ((Sys.init il tsnA tsnB).run ops).taint) :
    ∃ (hw : Nat) (w : Obj), (((Sys.init il tsnA tsnB).run ops).ep (!x)).objs[hw]? = some w ∧ w.sid = o.sid ∧ w.gen = o.gen ∧
      ¬ isOpen w ∧ (wroteCls w false).Sublist (ordGot o) ∧ ∀ m, (m, true) ∈ w.wrote → (m, true) ∈ o.got := by
  obtain ⟨inv, g⟩ := run_all il tsnA tsnB ha hb ops
  have hil := run_il il tsnA tsnB ops
  have d := inv (!x)
  have dx := d.xi
  have gx := g x
  have gy := g (!x)
  simp only [Bool.not_not] at dx gy
  refine eof_after_data_core d.si d.wi dx (inv x).ri gx gy ?_ ho o hobj heof ht
  cases x
  · exact hil
  · exact hil.symm

/-- non-vacuity (a test): A opens stream 1, writes messages 7 and 8, closes; everything is delivered in order; B accepts,
reads — and is given EOF after both messages -/
example :
    let s := (Sys.init false 10 20).run [.openS false 1, .write false 0 8 false 7, .write false 0 8 false 8, .close false 0,
      .gather false [0, 0, 0] [[10, 11]] [] false, .deliver false 0, .deliver false 1, .accept true, .read true 0]
    (s.ep true).objs[0]?.map (fun o => (o.eofSeen, o.got)) = some (true, [(7, false), (8, false)]) ∧ s.taint = [] := by
  decide

/-- the marker sits behind the data: whenever a reset request exists, every chunk of every object it closes was sent
with a TSN not above the request's last TSN, nothing of those objects is pending, and the objects are closed -/
theorem C14_marker_after_data (il : Bool) (tsnA tsnB : Nat) (ha : 0 < tsnA) (hb : 0 < tsnB) (ops : List Op) (x : Bool)
    (rq : ReqRec) (hrq : rq ∈ (((Sys.init il tsnA tsnB).run ops).ep x).reqLog) (h : Nat) (hh : h ∈ rq.wobjs) :
    (∃ o, (((Sys.init il tsnA tsnB).run ops).ep x).objs[h]? = some o ∧ ¬ isOpen o) ∧
    (∀ d, Item.data d ∈ (((Sys.init il tsnA tsnB).run ops).ep x).pend → d.wobj ≠ h) ∧
    ∀ c ∈ (((Sys.init il tsnA tsnB).run ops).ep x).sent, c.d.wobj = h → c.tsn ≤ rq.last := by
  obtain ⟨inv, _⟩ := run_all il tsnA tsnB ha hb ops
  obtain ⟨hlen, _, hall⟩ := (inv x).si.recOK rq hrq
  obtain ⟨sd, hz⟩ := mem_wobjs_zip rq hlen h hh
  obtain ⟨o, ho, _, hc, _, h4, h5⟩ := hall _ hz
  exact ⟨⟨o, ho, hc⟩, h4, h5⟩

/-- a request is only performed once the cumulative point has reached its last TSN (deferral): every performed request
sequence number belongs to a request of the peer whose last TSN is at or below the cumulative point -/
theorem C14_deferred_until_cum (il : Bool) (tsnA tsnB : Nat) (ha : 0 < tsnA) (hb : 0 < tsnB) (ops : List Op) (x : Bool)
    (rsn : Nat) (hp : rsn ∈ (((Sys.init il tsnA tsnB).run ops).ep x).perf) :
    ∃ rq ∈ (((Sys.init il tsnA tsnB).run ops).ep (!x)).reqLog, rq.rsn = rsn ∧ rq.last ≤ (((Sys.init il tsnA tsnB).run ops).ep x).cum := by
  obtain ⟨inv, _⟩ := run_all il tsnA tsnB ha hb ops
  have dx := (inv (!x)).xi
  simp only [Bool.not_not] at dx
  exact dx.perf rsn hp

/-! ## messages already received stay readable -/

/-- No inbound packet — in particular no reset request, performed at once, deferred or performed later when the data
arrives — removes a message from a receive queue or alters what the reader was given: for EVERY endpoint state and
EVERY packet, each stream object keeps everything it had queued (`QueueKeeps`); only `read` consumes. -/
theorem C14_received_stay_readable (s : Sys) (x : Bool) (i : Nat) (h : Nat) (o : Obj) (ho : (s.ep (!x)).objs[h]? = some o) :
    ∃ o', ((s.step (.deliver x i)).ep (!x)).objs[h]? = some o' ∧ QueueKeeps o o' := by
  simp only [Sys.step]
  split
  · exact ⟨o, ho, QueueKeeps.refl o⟩
  · rename_i p _
    obtain ⟨o', ho', k⟩ := handle_keeps (s.ep (!x)) p h o ho
    exact ⟨o', by simpa using ho', k⟩

/-- and a reset request in particular leaves the queues of every object exactly as they were -/
theorem C14_reset_keeps_queues (e : Ep) (rsn last : Nat) (sids : List Nat) (h : Nat) (o : Obj) (ho : e.objs[h]? = some o) :
    ∃ o', (handleReq e rsn last sids).1.objs[h]? = some o' ∧ o'.ord = o.ord ∧ o'.unord = o.unord ∧ o'.got = o.got ∧ o'.nextSeq = o.nextSeq := by
  obtain ⟨o', ho', q⟩ := (handleReq_objs e rsn last sids).2 h o ho
  exact ⟨o', ho', q.ord, q.unord, q.got, q.nextSeq⟩

/-- Read serves the queue before the read error: after `read` nothing readable is left on the object (whatever was
readable has been returned), and only then can EOF have been reported -/
theorem C14_read_before_error (il : Bool) (tsnA tsnB : Nat) (ha : 0 < tsnA) (hb : 0 < tsnB) (ops : List Op) (x : Bool)
    (h : Nat) (o : Obj) (ho : (((Sys.init il tsnA tsnB).run ops).ep x).objs[h]? = some o) (heof : o.eofSeen = true) :
    o.readErr = true ∧ readOne o = none := by
  obtain ⟨inv, _⟩ := run_all il tsnA tsnB ha hb ops
  exact (inv x).ri.eofErr h o ho heof

/-! ## a repeated request, a late response -/

/-- D10 as a theorem. A reset request whose sequence number was performed — a retransmission after a lost response, a
network duplicate, a stale replay into a later incarnation — is answered ("performed") and changes NOTHING else at the
endpoint: no stream object is touched (no second EOF, no counter reset), no table entry, no bookkeeping. For every
state and every such packet. -/
theorem C14_duplicate_request_harmless (s : Sys) (x : Bool) (i rsn last : Nat) (sids : List Nat)
    (hp : (s.hist x)[i]? = some (Msg.req rsn last sids)) (hdone : rsn ∈ (s.ep (!x)).perf) :
    s.step (.deliver x i) = s.setEp (!x) { s.ep (!x) with ctl := (s.ep (!x)).ctl ++ [Msg.resp rsn Gen.reconfigResultSuccessPerformed] } := by
  simp only [Sys.step, hp, handle, handleReq_performed _ rsn last sids hdone]

/-- non-vacuity (a test): the request of the example above is delivered a second time — only a response is queued -/
example :
    let s := (Sys.init false 10 20).run [.openS false 1, .write false 0 8 false 7, .close false 0,
      .gather false [0, 0] [[10]] [] false, .deliver false 0, .deliver false 1]
    (s.hist false)[1]? = some (Msg.req 10 10 [1]) ∧ 10 ∈ (s.ep true).perf := by decide

/-- D16 as a theorem. A re-configuration response — for whatever request, however late — never changes a stream object
that is open for writing (its SSN / MID counters in particular): for every endpoint state, response and handle. -/
theorem C14_late_response_harmless (e : Ep) (rsn result : Nat) (h : Nat) (o : Obj) (ho : e.objs[h]? = some o) (hopen : isOpen o) :
    (handleResp e rsn result).objs[h]? = some o := by
  obtain ⟨o', ho', r⟩ := (handleResp_objs e rsn result).2 h o ho
  rcases r with rfl | ⟨hc, _⟩
  · exact ho'
  · exact absurd hopen hc

/-- the same at system level: delivering any response leaves every open stream object of the receiving endpoint as it was -/
theorem C14_late_response_harmless_sys (s : Sys) (x : Bool) (i rsn result : Nat) (hp : (s.hist x)[i]? = some (Msg.resp rsn result))
    (h : Nat) (o : Obj) (ho : (s.ep (!x)).objs[h]? = some o) (hopen : isOpen o) :
    ((s.step (.deliver x i)).ep (!x)).objs[h]? = some o := by
  simp only [Sys.step, hp, handle]
  simpa using C14_late_response_harmless (s.ep (!x)) rsn result h o ho hopen

/-! ## identifiers can be reused -/

/-- After both directions were reset (`quiet`), OpenStream creates a NEW stream object: next sequence number and both
message-identifier counters 0, receive cursor 0, empty queues, no read error, open; it belongs to the next incarnation
and the identifier stays judged (it is not added to `taint`). -/
theorem C14_reopen_fresh (s : Sys) (x : Bool) (sid : Nat) (hq : s.quiet sid = true) :
    ∃ o, ((s.step (.openS x sid)).ep x).objs[(s.ep x).objs.length]? = some o ∧
      o.sid = sid ∧ o.ssn = 0 ∧ o.omid = 0 ∧ o.umid = 0 ∧ o.nextSeq = 0 ∧ o.ord = [] ∧ o.unord = [] ∧ o.readErr = false ∧
      isOpen o ∧ o.gen = s.gen sid + 1 ∧ lookup sid ((s.step (.openS x sid)).ep x).reg = some (s.ep x).objs.length ∧
      (s.step (.openS x sid)).taint = s.taint := by
  have hnone : lookup sid (s.ep x).reg = none := by
    unfold Sys.quiet sideQuiet at hq
    simp only [Bool.and_eq_true, Option.isNone_iff_eq_none] at hq
    cases x
    · exact hq.1.1.1.1
    · exact hq.2.1.1.1
  simp only [Sys.step, openStream_none _ _ _ hnone, hq, ↓reduceIte]
  refine ⟨{ sid := sid, gen := s.gen sid + 1 }, ?_, rfl, rfl, rfl, rfl, rfl, rfl, rfl, rfl, rfl, rfl, ?_, ?_⟩
  · cases x <;> simp [Sys.ep, Sys.setEp, addObjEp]
  · cases x <;> simp [Sys.ep, Sys.setEp, addObjEp, lookup_insert_self]
  · cases x <;> rfl

/-- The explicit schedule, for ALL message counts (by induction over the message lists) and both framings: A opens stream 1
and sends the messages `v1 :: ms1` one at a time (write, write loop, delivery, read at B); both applications close
(A first) and every RE-CONFIG packet arrives; A opens stream 1 again and sends `v2 :: ms2`. At the end B holds exactly two
stream objects: the first has handed its reader `v1 :: ms1` in order and then EOF, the second — of incarnation 2, not
reset — has handed its reader `v2 :: ms2` in order; A's second object has written exactly `v2 :: ms2`; the identifier
was never re-opened early (`taint = []`). -/
theorem C14_reopen_schedule (il : Bool) (tsnA tsnB : Nat) (ha : 0 < tsnA) (v1 : Nat) (ms1 : List Nat) (v2 : Nat) (ms2 : List Nat) :
    ∃ (o1 o2 w2 : Obj), (((Sys.init il tsnA tsnB).run (scheduleOps tsnA v1 ms1 v2 ms2)).ep true).objs = [o1, o2] ∧
      o1.eofSeen = true ∧ o1.got = (v1 :: ms1).map (fun m => (m, false)) ∧
      o2.got = (v2 :: ms2).map (fun m => (m, false)) ∧ o2.gen = 2 ∧ o2.readErr = false ∧ o2.nextSeq = ms2.length + 1 ∧
      (((Sys.init il tsnA tsnB).run (scheduleOps tsnA v1 ms1 v2 ms2)).ep false).objs[1]? = some w2 ∧
      w2.wrote = (v2 :: ms2).map (fun m => (m, false)) ∧ w2.gen = 2 ∧
      ((Sys.init il tsnA tsnB).run (scheduleOps tsnA v1 ms1 v2 ms2)).taint = [] :=
  reopen_schedule il tsnA tsnB ha v1 ms1 v2 ms2

/-- sample (a test): the schedule for 2 + 1 messages, as an operation list -/
example : scheduleOps 10 7 [8] 9 [] =
    [.openS false 1,
     .write false 0 8 false 7, .gather false [0] [[10]] [] false, .deliver false 0, .read true 0,
     .write false 0 8 false 8, .gather false [0] [[11]] [] false, .deliver false 1, .read true 0,
     .close false 0, .gather false [0] [] [] false, .deliver false 2, .read true 0, .close true 0, .gather true [0] [] [] false,
     .deliver true 0, .deliver true 1, .read false 0, .gather false [] [] [] false, .deliver false 3,
     .openS false 1,
     .write false 1 8 false 9, .gather false [0] [[12]] [] false, .deliver false 4, .read true 1] := by decide

/-- … and the first message written on it leaves with sequence number 0 (DATA: SSN, I-DATA: MID), whatever happened to
earlier incarnations: in every reachable state, a numbered chunk of an object carries the position of its message among
the messages of its kind written on that object. -/
theorem C14_numbering_from_zero (il : Bool) (tsnA tsnB : Nat) (ha : 0 < tsnA) (hb : 0 < tsnB) (ops : List Op) (x : Bool)
    (c : Chunk) (hc : c ∈ (((Sys.init il tsnA tsnB).run ops).ep x).sent)
    (hn : numbered (((Sys.init il tsnA tsnB).run ops).ep x).il c.d.unord = true) :
    ∃ o, (((Sys.init il tsnA tsnB).run ops).ep x).objs[c.d.wobj]? = some o ∧ o.sid = c.d.sid ∧
      (wroteCls o c.d.unord)[c.d.seq]? = some c.d.msg := by
  obtain ⟨inv, _⟩ := run_all il tsnA tsnB ha hb ops
  have hi : c.d ∈ (((Sys.init il tsnA tsnB).run ops).ep x).items := by
    unfold Ep.items; exact List.mem_append_left _ (List.mem_map_of_mem hc)
  obtain ⟨o, ho, hs, _, _, hnum⟩ := (inv x).wi.item c.d hi
  exact ⟨o, ho, hs, hnum hn⟩

/-- on the receiving side a stream object created by the first DATA on an identifier that is not in the stream table
starts with cursor 0 and empty queues (`handleData` appends `{ sid, gen }` with all defaults) — and every object,
however created, only ever receives chunks of its own incarnation -/
theorem C14_no_mixing (il : Bool) (tsnA tsnB : Nat) (ha : 0 < tsnA) (hb : 0 < tsnB) (ops : List Op) (x : Bool)
    (h : Nat) (o : Obj) (ho : (((Sys.init il tsnA tsnB).run ops).ep x).objs[h]? = some o)
    (ht : o.sid ∉ ((Sys.init il tsnA tsnB).run ops).taint) (c : Chunk) (hc : c ∈ o.rx) :
    c.d.gen = o.gen ∧ c.d.sid = o.sid ∧ c ∈ (((Sys.init il tsnA tsnB).run ops).ep (!x)).sent := by
  obtain ⟨inv, g⟩ := run_all il tsnA tsnB ha hb ops
  have dx := (inv (!x)).xi
  simp only [Bool.not_not] at dx
  obtain ⟨a, b, _⟩ := dx.rx h o ho c hc
  exact ⟨(g x).rxGen h o ho ht c hc, b, a⟩

/-! ## the performed-request bookkeeping (D10 fix), exact model `Rs.PerfSet` -/

/-- For ALL start values and ALL lengths: after the requests `start, start+1, …, start+n-1` were performed (the trim
at 2048 entries runs as often as it has to), every one of them that is at most 1024 behind the newest is still
remembered — a duplicate of it is answered, never performed again. -/
theorem C14_performed_recent_remembered (start : BitVec 32) (n k : Nat) (hk : k < n) (hw : n ≤ k + 1025) :
    (({} : PerfSet).run (consec start n)).has (start + BitVec.ofNat 32 k) = true := by
  have := (run_consec start n).win k hk hw
  simpa [PerfSet.has] using this

/-- `newestPerformedReset` is the serial-number maximum of what was remembered (for up to 2^31 consecutive numbers,
beyond which a maximum is not defined): it is the last number, it is in the set, and no remembered number is after it. -/
theorem C14_performed_newest_is_max (start : BitVec 32) (n : Nat) (hn : 0 < n) (h31 : n ≤ 2 ^ 31) :
    (({} : PerfSet).run (consec start n)).newest = start + BitVec.ofNat 32 (n - 1) ∧
    (({} : PerfSet).run (consec start n)).has (({} : PerfSet).run (consec start n)).newest = true ∧
    ∀ k, k < n → sna32LT (({} : PerfSet).run (consec start n)).newest (start + BitVec.ofNat 32 k) = false := by
  have inv := run_consec start n
  have hnew := inv.newest hn
  refine ⟨hnew, ?_, ?_⟩
  · rw [hnew]
    have := inv.win (n - 1) (by omega) (by omega)
    simpa [PerfSet.has] using this
  · intro k hk
    rw [hnew, Bool.eq_false_iff]
    intro h
    rw [Sna.lt32_iff] at h
    simp only [BitVec.toNat_sub, BitVec.toNat_add, BitVec.toNat_ofNat] at h
    omega

/-- nothing is reported as performed that never was -/
theorem C14_performed_only_remembered (start : BitVec 32) (n : Nat) (q : BitVec 32)
    (h : (({} : PerfSet).run (consec start n)).has q = true) : ∃ k, k < n ∧ q = start + BitVec.ofNat 32 k := by
  have : q ∈ (({} : PerfSet).run (consec start n)).set := by simpa [PerfSet.has] using h
  exact (run_consec start n).sub q this

/-- non-vacuity: 3000 requests from just below the wrap (the trim has run); the newest is still remembered -/
example : (({} : PerfSet).run (consec 0xFFFFFA00#32 3000)).has (0xFFFFFA00#32 + BitVec.ofNat 32 2999) = true :=
  C14_performed_recent_remembered _ 3000 2999 (by omega) (by omega)

/-- sample (a test, not the theorem): a duplicate of an older number does not move the watermark back -/
example : (({} : PerfSet).run [5#32, 6#32, 7#32, 5#32]).newest = 7#32 := by decide

end C14
