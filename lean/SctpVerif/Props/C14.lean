import SctpVerif.Proofs.Reset.Perf
/-!
# C14 — stream close is ordered after the stream's data; identifiers can be reused

Property theorems only; helper lemmas are in `Proofs/Reset/*.lean`. The model is `Rs` (`Model/Reset.lean`), replayed
line by line against two real associations by `TestVerifReset` (`go/harness/rs_test.go`).
-/
namespace C14
open Rs Gen

/-! ## the performed-request bookkeeping (D10 fix), exact model `Rs.PerfSet` -/

/-- For ALL start values and ALL lengths: after the requests `start, start+1, …, start+n-1` were performed (the trim
at 2048 entries runs as often as it has to), every one of them that is at most 1024 behind the newest is still
remembered — a duplicate of it is answered, never performed again. -/
theorem C14_performed_recent_remembered (start : BitVec 32) (n k : Nat) (hk : k < n) (hw : n ≤ k + 1025) :
    (({} : PerfSet).run (consec start n)).has (start + BitVec.ofNat 32 k) = true := by
  have := (run_consec start n).win k hk hw
  simpa [PerfSet.has] using this

/-- `newestPerformedReset` is the serial-number maximum of what was remembered (for up to 2^31 consecutive numbers,
beyond which a maximum is not defined): it is the last number, it is in the set, and no remembered number is after it. -/
theorem C14_performed_newest_is_max (start : BitVec 32) (n : Nat) (hn : 0 < n) (h31 : n ≤ 2 ^ 31) :
    (({} : PerfSet).run (consec start n)).newest = start + BitVec.ofNat 32 (n - 1) ∧
    (({} : PerfSet).run (consec start n)).has (({} : PerfSet).run (consec start n)).newest = true ∧
    ∀ k, k < n → sna32LT (({} : PerfSet).run (consec start n)).newest (start + BitVec.ofNat 32 k) = false := by
  have inv := run_consec start n
  have hnew := inv.newest hn
  refine ⟨hnew, ?_, ?_⟩
  · rw [hnew]
    have := inv.win (n - 1) (by omega) (by omega)
    simpa [PerfSet.has] using this
  · intro k hk
    rw [hnew, Bool.eq_false_iff]
    intro h
    rw [Sna.lt32_iff] at h
    simp only [BitVec.toNat_sub, BitVec.toNat_add, BitVec.toNat_ofNat] at h
    omega

/-- nothing is reported as performed that never was -/
theorem C14_performed_only_remembered (start : BitVec 32) (n : Nat) (q : BitVec 32)
    (h : (({} : PerfSet).run (consec start n)).has q = true) : ∃ k, k < n ∧ q = start + BitVec.ofNat 32 k := by
  have : q ∈ (({} : PerfSet).run (consec start n)).set := by simpa [PerfSet.has] using h
  exact (run_consec start n).sub q this

/-- non-vacuity: 3000 requests from just below the wrap (the trim has run); the newest is still remembered -/
example : (({} : PerfSet).run (consec 0xFFFFFA00#32 3000)).has (0xFFFFFA00#32 + BitVec.ofNat 32 2999) = true :=
  C14_performed_recent_remembered _ 3000 2999 (by omega) (by omega)

/-- sample (a test, not the theorem): a duplicate of an older number does not move the watermark back -/
example : (({} : PerfSet).run [5#32, 6#32, 7#32, 5#32]).newest = 7#32 := by decide

end C14
