import SctpVerif.Proofs.ReasmOrd
/-!
# C01 — reliable ordered streams deliver each message exactly once, in order, intact
(component level: the reassembly queue; DATA and I-DATA)

Property theorems only, about the L0 model `Model/Reasm.lean` of `reassemblyQueue` (tied to
reassembly_queue.go by the correspondence run `TestVerifReasm`; the same run evaluates the
executable form of this property on the implementation's own read results).

Vocabulary (defined in `Proofs/ReasmOrd.lean`):
* `Sender` = stream id, initial TSN (any value, the 2^32 wrap included) and the list of messages
  written; a `Msg` is a PPI and the list of pieces `Stream.packetize` cut the payload into
  (`Sender.WF`: at least one, fewer than 2^31 pieces). No bound on sizes or on the number of messages.
* `S.dataFrag k i` / `S.idataFrag τ k i`: fragment `i` of message `k` as it arrives: SSN = `k` mod 2^16
  and consecutive TSNs per message (DATA), MID = `k` mod 2^32 and FSN = `i` (I-DATA, whose TSNs `τ`
  are arbitrary), B/E flags at the ends, PPI on every DATA fragment / on the first I-DATA fragment only.
* `HOp`: `push k i` hands that fragment to `pushWithError`, `read n` calls `read` with an `n`-byte buffer.
* `S.Admissible frag W q d P ops`: indices valid; no fragment is pushed twice (the association filters
  duplicate TSNs, C05); and — the hypothesis the 16/32-bit sequence space forces — the fragment pushed
  belongs to a message fewer than `W` ahead of the number `d` of messages the application has read
  (`W = 2^15` for SSN, `2^31` for MID). Arrival order, interleaving with reads, buffer sizes, loss
  (fragments never pushed) and the entry limit `maxEntries` are otherwise arbitrary.
* `S.deliveries frag q ops`: the `(PPI, bytes)` of every read that returned no error, in order.
-/
namespace C01
open Reasm

/-- ✱ ordered DATA: the successful reads are a prefix of the written messages (PPI and bytes):
nothing lost before something delivered, duplicated, reordered, truncated, merged or altered. -/
theorem C01_reasm_ordered_data (S : Sender) (hS : S.WF) (maxEntries : BitVec 32) (ops : List HOp)
    (hadm : S.Admissible S.dataFrag (2^15) (new S.si maxEntries) 0 [] ops) :
    S.deliveries S.dataFrag (new S.si maxEntries) ops <+: S.msgs.map Msg.out := by
  have := OrdInv.prefix hS ops (OrdInv_new S maxEntries) hadm
  simpa using this

/-- ✱ ordered I-DATA (MID/FSN reassembly): same statement, window 2^31, TSNs arbitrary. -/
theorem C01_reasm_ordered_idata (S : Sender) (hS : S.WF) (τ : Nat → Nat → BitVec 32) (maxEntries : BitVec 32)
    (ops : List HOp)
    (hadm : S.Admissible (S.idataFrag τ) (2^31) (new S.si maxEntries) 0 [] ops) :
    S.deliveries (S.idataFrag τ) (new S.si maxEntries) ops <+: S.msgs.map Msg.out := by
  have := MidInv.prefix hS ops (MidInv_new S τ maxEntries) hadm
  simpa using this

/-- ✱ both framings. -/
theorem C01_reasm_ordered (S : Sender) (hS : S.WF) (τ : Nat → Nat → BitVec 32) (maxEntries : BitVec 32)
    (ops : List HOp) :
    (S.Admissible S.dataFrag (2^15) (new S.si maxEntries) 0 [] ops →
      S.deliveries S.dataFrag (new S.si maxEntries) ops <+: S.msgs.map Msg.out) ∧
    (S.Admissible (S.idataFrag τ) (2^31) (new S.si maxEntries) 0 [] ops →
      S.deliveries (S.idataFrag τ) (new S.si maxEntries) ops <+: S.msgs.map Msg.out) :=
  ⟨C01_reasm_ordered_data S hS maxEntries ops, C01_reasm_ordered_idata S hS τ maxEntries ops⟩

/-- `chunkSet.isComplete` characterised: a TSN-sorted set of distinct fragments of message `k`
is complete iff it holds exactly all fragments of that message. -/
theorem C01_complete_iff_data (S : Sender) (hS : S.WF) (k : Nat) (hk : k < S.msgs.length) (js : List Nat)
    (hjs : ∀ j ∈ js, j < S.nf k) :
    chunksComplete (js.map (S.dataFrag k)) = true ↔ js = List.range (S.nf k) := by
  have hnf := S.nf_pos hS hk
  constructor
  · exact complete_imp_all S k js hnf.2 hjs
  · intro h; rw [h]; exact all_imp_complete S k hnf.1

/-- `chunkSetMID.isComplete` characterised likewise (FSN 0 … n-1, B first, E last). -/
theorem C01_complete_iff_idata (S : Sender) (hS : S.WF) (τ : Nat → Nat → BitVec 32) (k : Nat)
    (hk : k < S.msgs.length) (js : List Nat) (hjs : ∀ j ∈ js, j < S.nf k) :
    chunksCompleteMID (js.map (S.idataFrag τ k)) = true ↔ js = List.range (S.nf k) := by
  have hnf := S.nf_pos hS hk
  constructor
  · exact completeMID_imp_all S τ k js hnf.2 hjs
  · intro h; rw [h]; exact all_imp_completeMID S τ k hnf.1

/-- a successful `read` returns the concatenation of the set's payloads in slice order and its
total length; a buffer that is too small changes nothing (`shortBuffer`, queue untouched). -/
theorem C01_read_copies_concat (buflen : Int) (cs : List Chunk)
    (h : (copyLoop buflen cs 0 false []).2.1 = false) :
    (copyLoop buflen cs 0 false []).2.2 = (cs.map (·.userData)).flatten ∧
    (copyLoop buflen cs 0 false []).1 = (bytesOf cs : Nat) := by
  refine ⟨by simpa using copyLoop_ok buflen cs 0 [] h, by simpa using copyLoop_total buflen cs 0 false []⟩

-- non-vacuity (tests, by evaluation): two messages (2 + 1 fragments) starting at the TSN wrap, delivered
-- out of order with reads in between, satisfy `Admissible` and deliver both messages, in both framings.
private def S0 : Sender :=
  { si := 3, t0 := 0xFFFFFFFF#32, msgs := [{ ppi := 51, frags := [[1, 2], [3]] }, { ppi := 53, frags := [[9]] }] }
private def ops0 : List HOp := [.push 1 0, .read 100, .push 0 1, .read 100, .push 0 0, .read 1, .read 100, .read 100]
example : S0.Admissible S0.dataFrag (2^15) (new S0.si 0) 0 [] ops0 := by decide
example : S0.deliveries S0.dataFrag (new S0.si 0) ops0 = [(51, [1, 2, 3]), (53, [9])] := by decide
example : S0.Admissible (S0.idataFrag fun _ _ => 7) (2^31) (new S0.si 0) 0 [] ops0 := by decide
example : S0.deliveries (S0.idataFrag fun _ _ => 7) (new S0.si 0) ops0 = [(51, [1, 2, 3]), (53, [9])] := by decide
example : S0.WF := by unfold Sender.WF; decide

end C01
