import SctpVerif.Props.C01net
import SctpVerif.Proofs.NetSys.SelFifo
import SctpVerif.Proofs.NetSys.SelQShape
/-!
# C01 — the selection hypothesis of the DATA composition, discharged for FIFO selection

Property theorems only. `C01_netsys_prefix` (`Props/C01net.lean`) has the hypothesis `SelContig P ops`: the order in
which the pending queue hands out chunks (the `sel` ORACLE of `Model/Sender.lean`, = the TSN order) keeps the fragments of
a message together and serves each stream first-in-first-out. Here it is DERIVED from what the code does:

* without interleaving `pendingQueue` runs `messagePendingQueuePolicy`: an ordered and an unordered FIFO queue; `peek`
  returns the head of the queue of the message being sent (`selected`, `unorderedIsSelected`), otherwise the head of the
  unordered queue if it is non-empty, else the head of the ordered queue (pending_queue.go; `PendQ.MsgPol.peek`);
* over RELIABLE ORDERED streams (`Reliable ops`) every chunk is ordered, so only the ordered queue is ever used and every
  `peek` returns the OLDEST queued chunk: `C17.C17_ordered_only_fifo` (`Props/C17fifo.lean`, PendQ model);
* in the Sender model the queue is the list `pending` in push order and `sel` are the indices `peek` returned, each taken
  after the earlier pops: the oldest queued chunk is index 0. `SelFifo ops` says exactly this: every `gather` of the run
  has a selection list of zeros.

`C01_selfifo_selcontig`: `SelFifo` and `Reliable` imply `SelContig`, because `write` fills the pending queue message by
message with the fragments adjacent and in order (`C01_write_fragments`, `C01_ssn_assignment`) and a FIFO queue hands them
out in that order (`C01_fifo_tsn_order`). `C01_netsys_prefix_fifo` is `C01_netsys_prefix` with `SelFifo` in the place of
`SelContig`.

`Model/NetSysQ.lean` COMPOSES the two models: next to the sender state runs the message policy `PendQ.MsgPol`, pushed every
chunk a write appends to `pending`; the selection list of a gather is what draining that queue hands out, each chunk
looked up by identity in the pending list (exactly how the `as` harness computes the `sel=` values it logs from the real
queue). `C01_netsysq_selfifo`: over reliable ordered streams every selection list NetSysQ computes is all zeros;
`C01_netsysq_prefix`: the prefix theorem for every run of NetSysQ, WITHOUT any hypothesis on the selection.

What remains outside Lean: that the real `pendingQueue` and the real `pending`-order bookkeeping behave as the composed
model says, i.e. `SelFifo` for real runs. It is tied by `TestVerifPendQ` (PendQ model vs pending_queue.go) and by the `as`
correspondence harness, which logs the indices of the chunks the real queue handed out (`sel=`), replays them through
`Sender.gather`, and whose predicate `[C01,C17]` (`Driver/Assoc.lean`) checks that they are all 0 in non-interleaved,
all-ordered sequences. (`C01_netsysq_no_queue_error`: in such runs of the composed model no `pendingQueue.pop` fails —
the `err` flag of NetSysQ, after which it hands out nothing, is never raised.)
-/
namespace C01
open NetSys SenderProofs SenderTsn

/-- **FIFO selection: TSNs are assigned in write order** (sender half; any configuration, any streams — ordered or not,
reliable or not —, any SACKs / budget / loss-mark / timer oracles). In every run of the Sender model from `init` whose
gathers all carry a selection list of zeros (`peek` = the oldest pending chunk), the fragment identities of the chunks
written so far are those of the chunks moved to in flight so far (= in TSN order, `C01_wire_tsn_stable`) followed by
those of the chunks still pending: nothing overtakes, nothing is dropped from the pending queue. -/
theorem C01_fifo_tsn_order (cfg : Sender.Cfg) (tsn peerRwnd : BitVec 32) (ops : List Sender.Op)
    (hsel : ∀ op ∈ ops, FifoOp op = true) :
    (written (Sender.init cfg tsn peerRwnd) ops).map Chunk.frag =
      (moved (Sender.init cfg tsn peerRwnd) ops).map Chunk.frag ++
        (Sender.run (Sender.init cfg tsn peerRwnd) ops).pending.map Chunk.frag :=
  moved_prefix_written cfg tsn peerRwnd ops hsel

/-- **Over reliable ordered streams only ordered chunks are queued** — the hypothesis of `C17.C17_ordered_only_fifo`.
In every NetSys run whose streams are all opened ordered (`Reliable`), every chunk any write pushes to the pending queue
has `unordered = false`. -/
theorem C01_reliable_pushes_ordered (P : Params) (ops : List Op) (hrel : Reliable ops = true) :
    ∀ c ∈ written (init P).snd (sndOps P (init P).snd ops), c.unordered = false :=
  reliable_written_ordered P ops hrel

/-- ✱ **`SelContig` holds for FIFO selection.** For every NetSys run over reliable ordered streams in which every
gather selects the oldest pending chunk every time (`SelFifo`), the move order (= TSN order) is message-contiguous and
per-stream first-in-first-out. Any configuration (interleaving on or off), any SACKs, any deliveries. -/
theorem C01_selfifo_selcontig (P : Params) (ops : List Op) (hsel : SelFifo ops = true) (hrel : Reliable ops = true) :
    SelContig P ops = true :=
  selFifo_selContig P ops hsel hrel

/-- ✱ **NetSys, DATA (no interleaving), FIFO selection.** The statement of `C01_netsys_prefix` with the hypothesis
`SelContig` replaced by `SelFifo` — what `messagePendingQueuePolicy` does when only ordered chunks are queued
(`C17.C17_ordered_only_fifo`): for every run of NetSys from the initial state over reliable ordered streams whose gathers
take the pending chunks oldest first, with any SACKs, any losses / duplications / reorderings / bundlings, on every stream
`si` the `(PPI, bytes)` read by the receiving application are a prefix of the `(PPI, bytes)` of the accepted writes on `si`. -/
theorem C01_netsys_prefix_fifo (P : Params) (ops : List Op) (si : BitVec 16)
    (hil : P.cfg.useInterleaving = false) (hrel : Reliable ops = true) (hsel : SelFifo ops = true)
    (htsn : chunksWritten P ops < 2^31) (hwin : WinOk P si (2^15) (init P) ops = true) :
    readsOn P si (init P) ops <+: writesOn P si (init P) ops :=
  C01_netsys_prefix P ops si hil hrel (C01_selfifo_selcontig P ops hsel hrel) htsn hwin

/-- **NetSysQ runs are NetSys runs**: the system state of a run of the composed model `NetSysQ` (NetSys + the message
policy of the pending-queue model in the place of the selection oracle) is the state of the NetSys run on the resolved
operation list, in which every gather carries the selection the queue model computed. -/
theorem C01_netsysq_run (P : Params) (ops : List Op) :
    (NetSysQ.run P (NetSysQ.init P) ops).sys = run P (init P) (NetSysQ.resolve P (NetSysQ.init P) ops) :=
  NetSysQ.run_sys P (NetSysQ.init P) ops

/-- ✱ **The pending-queue model selects FIFO over reliable ordered streams.** In every run of NetSysQ whose streams are
all opened ordered and reliable (whatever selection lists the operations carry — they are ignored), every selection list
the message policy produces is all zeros, and the resolved run is again over reliable ordered streams. -/
theorem C01_netsysq_selfifo (P : Params) (ops : List Op) (hrel : Reliable ops = true) :
    SelFifo (NetSysQ.resolve P (NetSysQ.init P) ops) = true ∧ Reliable (NetSysQ.resolve P (NetSysQ.init P) ops) = true :=
  NetSysQ.resolve_fifo P (NetSysQ.init P) ops (NetSysQ.init_rinv P) hrel

/-- ✱ **NetSysQ, DATA (no interleaving): no hypothesis on the selection.** For every run of NetSysQ — sender half, the
message policy of `pendingQueue` choosing the chunks, adversarial network, receiver half — over reliable ordered streams,
with any SACKs, budgets, loss marks, timer inputs, any losses / duplications / reorderings / bundlings: on every stream
`si` the `(PPI, bytes)` read by the receiving application are a prefix of the `(PPI, bytes)` of the accepted writes. -/
theorem C01_netsysq_prefix (P : Params) (ops : List Op) (si : BitVec 16)
    (hil : P.cfg.useInterleaving = false) (hrel : Reliable ops = true)
    (htsn : chunksWritten P (NetSysQ.resolve P (NetSysQ.init P) ops) < 2^31)
    (hwin : WinOk P si (2^15) (init P) (NetSysQ.resolve P (NetSysQ.init P) ops) = true) :
    readsOn P si (init P) (NetSysQ.resolve P (NetSysQ.init P) ops) <+:
      writesOn P si (init P) (NetSysQ.resolve P (NetSysQ.init P) ops) :=
  C01_netsys_prefix_fifo P _ si hil (C01_netsysq_selfifo P ops hrel).2 (C01_netsysq_selfifo P ops hrel).1 htsn hwin

/-- **No queue error over reliable ordered streams.** In every run of NetSysQ whose streams are all opened ordered and
reliable, no `pendingQueue.pop` fails (`ErrUnexpectedQState` needs a non-first fragment at the head while no message is
selected; writes queue whole messages, B first, E last, and the queue runs parallel to the sender's pending list) and
every chunk `peek` returns is found in the pending list: the flag `err` is never raised. -/
theorem C01_netsysq_no_queue_error (P : Params) (ops : List Op) (hrel : Reliable ops = true) :
    (NetSysQ.run P (NetSysQ.init P) ops).q.err = false :=
  NetSysQ.run_noerr P (NetSysQ.init P) ops (NetSysQ.init_rinv2 P) hrel

/-! ## tests by evaluation and non-vacuity (`decide` on concrete runs — these are tests, not theorems) -/

private def bytes (m : Nat) : List UInt8 :=
  match m with
  | 0 => [1, 2, 3, 4, 5]
  | 1 => [7]
  | 2 => [9, 8, 7]
  | _ => []

-- the DATA workload of `Props/C01net.lean`: two streams, three messages (3 + 1 + 2 fragments), TSNs wrap; the first
-- gather's selection list ends after two chunks, a later gather takes the rest
private def PD : Params := { cfg := { mtu := 1200, maxPayload := 2 }, tsn := 4294967294#32, pay := bytes }
private def opsD : List Op :=
  [.snd (.openS 1 false 0 0 0), .snd (.openS 2 false 0 0 0), .write 1 51, .write 2 61,
   .snd (.gather Sender.freeOracle [0, 0]), .write 1 52,
   .snd (.gather Sender.freeOracle [0, 0, 0, 0, 0, 0]),
   .deliver [(5, false), (4, true)], .rcv (.read (1, 0) 100),
   .deliver [(2, false), (1, false), (1, false)], .deliver [(3, false)], .rcv (.read (2, 0) 100),
   .snd (.sack 77 65536 [] []), .snd .t3, .snd (.gather Sender.freeOracle []),
   .deliver [(0, false), (9, false), (100, false)], .rcv (.read (1, 0) 1), .rcv (.read (1, 0) 100), .rcv (.read (1, 0) 100),
   .rcv (.read (1, 0) 100)]

-- test: write order = TSN order
set_option maxRecDepth 1000000 in
example : ((run PD (init PD) opsD).wire.take 6).map (fun c => (c.tsn, c.si, c.msg, c.ssn, c.fsn, c.len)) =
    [(4294967294#32, 1#16, 0, 0#16, 0#32, 2), (4294967295#32, 1#16, 0, 0#16, 1#32, 2), (0#32, 1#16, 0, 0#16, 2#32, 1),
     (1#32, 2#16, 1, 0#16, 0#32, 1), (2#32, 1#16, 2, 1#16, 0#32, 2), (3#32, 1#16, 2, 1#16, 1#32, 1)] := by decide

set_option maxRecDepth 1000000 in
example : readsOn PD 1 (init PD) opsD = [(51, [1, 2, 3, 4, 5]), (52, [9, 8, 7])] ∧ readsOn PD 2 (init PD) opsD = [(61, [7])] := by decide

-- non-vacuity: the run satisfies `SelFifo` and the other hypotheses
set_option maxRecDepth 1000000 in
example : readsOn PD 1 (init PD) opsD <+: writesOn PD 1 (init PD) opsD :=
  C01_netsys_prefix_fifo PD opsD 1 rfl (by decide) (by decide) (by decide) (by decide)

-- test: the derived `SelContig` agrees with its evaluation on the run
set_option maxRecDepth 1000000 in
example : SelContig PD opsD = true := by decide

-- test: a selection that is not FIFO (index 2 first) is rejected by `SelFifo`
example : SelFifo [.snd (.gather Sender.freeOracle [0, 2, 3, 0, 0, 0])] = false := by decide

-- NetSysQ: the same workload with ARBITRARY selection lists in the operations (ignored): the queue model resolves them
private def opsQ : List Op :=
  [.snd (.openS 1 false 0 0 0), .snd (.openS 2 false 0 0 0), .write 1 51, .write 2 61,
   .snd (.gather (Sender.tlrOracle true 0) [7, 7]), .write 1 52,
   .snd (.gather Sender.freeOracle [5, 4, 3, 2, 1, 0]),
   .deliver [(5, false), (4, true)], .rcv (.read (1, 0) 100),
   .deliver [(2, false), (1, false), (1, false)], .deliver [(3, false)], .rcv (.read (2, 0) 100),
   .snd (.sack 77 65536 [] []), .snd .t3, .snd (.gather Sender.freeOracle []),
   .deliver [(0, false), (9, false), (100, false)], .rcv (.read (1, 0) 1), .rcv (.read (1, 0) 100), .rcv (.read (1, 0) 100),
   .rcv (.read (1, 0) 100)]

-- test: the selection lists the queue model computed (4, then 6 - 1 chunks queued: the budget let one chunk through), no queue error
set_option maxRecDepth 1000000 in
example : ((NetSysQ.resolve PD (NetSysQ.init PD) opsQ).filterMap fun
      | .snd (.gather _ sel) => some sel
      | _ => none) = [[0, 0, 0, 0], [0, 0, 0, 0, 0], []] ∧
    (NetSysQ.run PD (NetSysQ.init PD) opsQ).q.err = false := by decide

set_option maxRecDepth 1000000 in
example : readsOn PD 1 (init PD) (NetSysQ.resolve PD (NetSysQ.init PD) opsQ) = [(51, [1, 2, 3, 4, 5]), (52, [9, 8, 7])] := by decide

-- non-vacuity of `C01_netsysq_prefix`
set_option maxRecDepth 1000000 in
example : readsOn PD 1 (init PD) (NetSysQ.resolve PD (NetSysQ.init PD) opsQ) <+:
    writesOn PD 1 (init PD) (NetSysQ.resolve PD (NetSysQ.init PD) opsQ) :=
  C01_netsysq_prefix PD opsQ 1 rfl (by decide) (by decide) (by decide)

end C01
