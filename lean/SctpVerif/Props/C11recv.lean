import SctpVerif.Proofs.Receiver.Credit
import SctpVerif.Proofs.Receiver.Bound
import SctpVerif.Props.C05
/-!
# C11 at association level — the advertised window is buffer minus bytes held; admission is window-bounded

Property theorems only, about the L0 model `Model/Receiver.lean` (tied to association.go / stream.go by
`TestVerifAssocReceiver`: the a_rwnd of every SACK the real association emits and `getMyReceiverWindowCredit()`
after every op are compared with the configured buffer minus the user bytes found by WALKING the real
reassembly structures of every Stream object — including objects already deleted from `a.streams` —, and
`acc=/stored=` of every DATA chunk are judged against the tracking window and the zero-window rule).

`heldRegistered s` = Σ over the streams in the association's table of `Reasm.Q.heldBytes` (Σ len(userData) over
all five containers); `heldAll s` additionally counts the stream objects an inbound reset deleted from the
table while the application still holds them. The credit formula is about `heldRegistered`: that the deleted
objects' unread bytes are NOT counted is deviation D13 (known finding, witness in corpus/C11/known).
-/
namespace C11
open Gen Receiver

/-- ✱ (b) `getMyReceiverWindowCredit()` — the a_rwnd of every SACK — is the configured receive buffer minus the
user bytes held by the registered streams, clamped at 0; in particular it is the full buffer whenever the
registered streams hold nothing. Every per-stream counter it sums is exact (`C11_counter_exact` lifted to
association runs). Hypotheses: the DATA chunks of the op list carry fewer than 2^63 user bytes in total (the
counter is a `uint64` read through `int(…)`), and the sum is below 2^32 (`bytesQueued` is a `uint32`; implied
by `C11_bytes_bound` for buffers below 2^31). -/
theorem C11_credit_formula (maxBuf maxEntries : BitVec 32) (il f g : Bool) (am : Int) (t : BitVec 32) (ops : List Op)
    (hb : (ops.map opBytes).sum < 2^63) :
    let s := run (init maxBuf maxEntries il f g am t) ops
    (∀ x ∈ s.streams ++ s.gone, x.q.getNumBytes = (x.q.heldBytes : Int)) ∧
    (heldRegistered s < 2^32 →
      (credit s).toNat = maxBuf.toNat - heldRegistered s ∧
      (heldRegistered s = 0 → credit s = maxBuf) ∧
      ∀ cum arw gaps dups, Out.sack cum arw gaps dups ∈ (gather s).2.1 → arw.toNat = maxBuf.toNat - heldRegistered s) := by
  intro s
  have hex : Exact s := run_exact maxBuf maxEntries il f g am t ops hb
  have hmb : s.maxBuf = maxBuf := by show (run _ ops).maxBuf = _; rw [run_maxBuf]; rfl
  refine ⟨?_, ?_⟩
  · intro x hx
    rcases List.mem_append.mp hx with hx | hx
    · exact getNumBytes_exact _ (hex.1 x hx)
    · exact getNumBytes_exact _ (hex.2 x hx)
  · intro hsum
    have hc := credit_eq s hex.1 hsum
    rw [hmb] at hc
    refine ⟨hc, ?_, ?_⟩
    · intro h0
      apply BitVec.eq_of_toNat_eq
      rw [hc, h0]; rfl
    · intro cum arw gaps dups hmem
      have : arw = credit s := by
        unfold gather at hmem
        dsimp only at hmem
        split at hmem
        · simp at hmem
        · split at hmem
          · simp only [createSack, List.mem_append, List.mem_map, List.mem_singleton] at hmem
            rcases hmem with ⟨_, _, hm⟩ | hm
            · cases hm
            · cases hm; rfl
          · simp only [List.mem_map] at hmem
            obtain ⟨_, _, hm⟩ := hmem
            cases hm
      rw [this, hc]

/-- ✱ (d, first half) nothing beyond the tracking window is ever stored. For every reachable state and every
DATA / I-DATA chunk: the user bytes held by all stream objects grow by at most the chunk's length, and they
grow ONLY IF the chunk's TSN lies in `(cum, cum + maxTSNOffset]` (serially, `maxTSNOffset ≤ 40000`), is not
already held, a stream object is available, and there is credit or the TSN is below the highest TSN received. -/
theorem C11_window_admission (maxBuf maxEntries : BitVec 32) (il f g : Bool) (am : Int) (t : BitVec 32) (ops : List Op)
    (c : Reasm.Chunk) (imm : Bool) :
    let s := run (init maxBuf maxEntries il f g am t) ops
    let s' := handleChunk s (.data c imm)
    heldAll s' ≤ heldAll s + c.len ∧
    (heldAll s < heldAll s' →
      1 ≤ (c.tsn - s.pq.cum).toNat ∧ (c.tsn - s.pq.cum).toNat ≤ s.pq.maxOff.toNat ∧ s.pq.maxOff.toNat ≤ 40000 ∧
      ¬ RecvQ.heldAt s.pq (c.tsn - s.pq.cum).toNat ∧ stores s c = true) := by
  intro s s'
  obtain ⟨hI, hm⟩ := run_pq_inv maxBuf maxEntries il f g am t ops
  have hd := handleData_heldAll s c imm
  have hle : heldAll s' ≤ heldAll s + (if RecvQ.canPush s.pq c.tsn && stores s c then c.len else 0) := by
    show heldAll (handleChunk s (.data c imm)) ≤ _
    simp only [handleChunk]
    split
    · simp only [abortPV, heldAll]; omega
    · exact hd
  constructor
  · split at hle <;> omega
  · intro hlt
    have hcs : (RecvQ.canPush s.pq c.tsn && stores s c) = true := by
      cases hb : (RecvQ.canPush s.pq c.tsn && stores s c) with
      | true => rfl
      | false => rw [hb] at hle; simp at hle; omega
    rw [Bool.and_eq_true] at hcs
    obtain ⟨h1, h2, h3, _⟩ := C05.C05_refines_set_ops hI
    have hp : (RecvQ.push s.pq c.tsn).2 = true := by rw [← h1]; exact hcs.1
    obtain ⟨ha, hnh⟩ := (h2 c.tsn).mp hp
    have := (h3 (by omega) c.tsn).mp ha
    exact ⟨this.1, this.2, hm, hnh, hcs.2⟩

/-- ✱ (d, second half) the zero-window rule: when the advertised credit is zero, a chunk adds to the bytes held
only if the receive queue is non-empty and the chunk's TSN is serially BELOW the highest TSN received — it
fills a gap; a peer that ignores the window cannot make the endpoint store data above what it already has. -/
theorem C11_zero_window_admission (maxBuf maxEntries : BitVec 32) (il f g : Bool) (am : Int) (t : BitVec 32)
    (ops : List Op) (c : Reasm.Chunk) (imm : Bool) :
    let s := run (init maxBuf maxEntries il f g am t) ops
    credit s = 0 → heldAll s < heldAll (handleChunk s (.data c imm)) →
      ∃ last, RecvQ.lastTSN s.pq = some last ∧ sna32LT c.tsn last = true := by
  intro s h0 hlt
  obtain ⟨_, h⟩ := C11_window_admission maxBuf maxEntries il f g am t ops c imm
  obtain ⟨_, _, _, _, hst⟩ := h hlt
  obtain ⟨_, hor⟩ := (stores_iff s c).mp hst
  rcases hor with hc | hl
  · rw [h0] at hc; simp at hc
  · exact hl

/-- ✱ **inbound memory is bounded against a peer that ignores the window.** For ANY op list — any chunks, any
TSNs, duplicates, FORWARD-TSNs, resets, streams never read — whose DATA chunks carry at most `M` user bytes each
(`M ≤ 65519` on the wire), the user bytes held by the streams registered in the association never exceed
`buffer + maxTSNOffset · M`, with `maxTSNOffset ≤ 40000` the tracking window of the receive queue.
Why: with credit left a stored chunk leaves the total below `buffer + M`; at zero credit a chunk is stored only
into an unset slot below the highest TSN received, there are fewer than `maxTSNOffset` such slots, and nothing but
storing above the highest TSN (impossible at zero credit) creates new ones (`RecvQ.unset`).
Side conditions: `buffer + 40000·M < 2^32` (the credit is computed in `uint32`) and fewer than 2^63 user bytes
in total. The bound is about the REGISTERED streams: bytes of streams the peer reset while unread are not
counted by the implementation either (D13), so a peer that resets and re-opens streams can exceed it. -/
theorem C11_bytes_bound (M : Nat) (maxBuf maxEntries : BitVec 32) (il f g : Bool) (am : Int) (t : BitVec 32) (ops : List Op)
    (hM : ∀ cs, Op.pkt cs ∈ ops → ∀ ch ∈ cs, chunkBytes ch ≤ M)
    (hsmall : maxBuf.toNat + 40000 * M < 2^32) (hb : (ops.map opBytes).sum < 2^63) :
    let s := run (init maxBuf maxEntries il f g am t) ops
    heldRegistered s ≤ maxBuf.toNat + s.pq.maxOff.toNat * M ∧ s.pq.maxOff.toNat ≤ 40000 ∧ heldRegistered s < 2^32 := by
  intro s
  have h0 := init_binv M maxBuf maxEntries il f g am t hsmall
  have h := run_binv ops h0 hM (by omega)
  have hmb : s.maxBuf = maxBuf := by show (run _ ops).maxBuf = _; rw [run_maxBuf]; rfl
  have hbd : heldRegistered s ≤ s.maxBuf.toNat + s.pq.maxOff.toNat * M := h.bound
  have hmo : s.pq.maxOff.toNat ≤ 40000 := (run_pq_inv maxBuf maxEntries il f g am t ops).2
  rw [hmb] at hbd
  refine ⟨hbd, hmo, ?_⟩
  have := Nat.mul_le_mul_right M hmo
  omega

/-- the credit formula without the separate no-wrap hypothesis: under the sizing condition of `C11_bytes_bound` the
a_rwnd of every SACK is the buffer minus the user bytes held by the registered streams, in every reachable state. -/
theorem C11_credit_formula_bounded (M : Nat) (maxBuf maxEntries : BitVec 32) (il f g : Bool) (am : Int) (t : BitVec 32)
    (ops : List Op) (hM : ∀ cs, Op.pkt cs ∈ ops → ∀ ch ∈ cs, chunkBytes ch ≤ M)
    (hsmall : maxBuf.toNat + 40000 * M < 2^32) (hb : (ops.map opBytes).sum < 2^63) :
    let s := run (init maxBuf maxEntries il f g am t) ops
    (credit s).toNat = maxBuf.toNat - heldRegistered s ∧
    ∀ cum arw gaps dups, Out.sack cum arw gaps dups ∈ (gather s).2.1 → arw.toNat = maxBuf.toNat - heldRegistered s := by
  intro s
  obtain ⟨_, _, hlt⟩ := C11_bytes_bound M maxBuf maxEntries il f g am t ops hM hsmall hb
  obtain ⟨_, h⟩ := C11_credit_formula maxBuf maxEntries il f g am t ops hb
  obtain ⟨h1, _, h3⟩ := h hlt
  exact ⟨h1, h3⟩

-- non-vacuity (tests, by evaluation): buffer 1500; TSN 12 (1200 bytes) leaves credit 300; TSN 14 (500 bytes) is
-- stored (credit > 0) and exhausts it; TSN 16 is refused at zero credit (not below the highest TSN, 14);
-- TSN 13 is stored at zero credit (fills a gap below 14).
private def dc (t n : Nat) : Reasm.Chunk :=
  { tsn := BitVec.ofNat 32 t, si := 1, ssn := BitVec.ofNat 16 (t - 10), bf := true, ef := true, ppi := 51,
    userData := List.replicate n 7 }
private def z0 : St := run (init 1500 0 false true false 0 10#32) [.data (dc 12 1200), .data (dc 14 500)]
-- the hypotheses of `C11_bytes_bound` are satisfiable: chunks of at most 1200 bytes, buffer 1500
example : (1500#32).toNat + 40000 * 1200 < 2^32 := by decide
set_option maxRecDepth 1000000 in
example : credit z0 = 0 ∧ heldAll z0 = 1700 := by decide
set_option maxRecDepth 1000000 in
example : heldAll (handleChunk z0 (.data (dc 16 10) false)) = 1700 ∧ heldAll (handleChunk z0 (.data (dc 13 10) false)) = 1710 := by
  decide

end C11
