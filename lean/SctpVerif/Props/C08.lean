import SctpVerif.Proofs.Shutdown
/-!
# C08 — graceful shutdown delivers everything first and completes on both sides

Property theorems only, about the L0 model `Sd` (Model/Shutdown.lean), which the direct-drive
correspondence `TestVerifShutdown` replays line by line against two real, established associations.
`ops : List Op` is an arbitrary interleaving of: writes on any stream, Shutdown calls, write-loop passes with
ANY choice of DATA chunks to (re)transmit, deliveries of ANY packet ever sent by either side (so loss,
duplication, reordering, arbitrary delay and stale replays of DATA, SACK, SHUTDOWN, SHUTDOWN-ACK and
SHUTDOWN-COMPLETE are all included), T2-shutdown / T3-rtx / delayed-ack expiries, reads, transport failures.
-/
namespace C08
open Sd

/-- the model's state numbers are the code's (translator-generated constants) -/
theorem C08_state_constants :
    stClosed = Gen.closed ∧ stCookieWait = Gen.cookieWait ∧ stCookieEchoed = Gen.cookieEchoed ∧
    stEstablished = Gen.established ∧ stShutdownAckSent = Gen.shutdownAckSent ∧
    stShutdownPending = Gen.shutdownPending ∧ stShutdownReceived = Gen.shutdownReceived ∧
    stShutdownSent = Gen.shutdownSent := by decide

/-- the model's state gates are the code's: `isDataReceiveState`, `isShutdownHandleState` and
`entersShutdownReceived` as translated from association.go agree with the conditions written in
`handleData`, `handleShutdown` and `enterReceived` of the model, on all eight states -/
theorem C08_gates_match_code (st : Nat) (h : st < 8) :
    (st == stEstablished || st == stShutdownPending || st == stShutdownSent) = Gen.isDataReceiveState (BitVec.ofNat 32 st) ∧
    (st == stShutdownSent || st == stEstablished || st == stShutdownPending || st == stShutdownReceived)
      = Gen.isShutdownHandleState (BitVec.ofNat 32 st) ∧
    (st == stEstablished || st == stShutdownPending) = Gen.entersShutdownReceived (BitVec.ofNat 32 st) := by
  have : st = 0 ∨ st = 1 ∨ st = 2 ∨ st = 3 ∨ st = 4 ∨ st = 5 ∨ st = 6 ∨ st = 7 := by omega
  rcases this with h | h | h | h | h | h | h | h <;> subst h <;> decide

/-- **Shutdown returned nil ⇒ everything was delivered first, in order, before closure.**
In every reachable state (every interleaving, every fault pattern, every choice of what the write loop sends):
if the Shutdown call of side `x` has returned nil and the transport under `x` did not fail, then
(1) no message was accepted after the call, (2) every message `x` ever accepted has been handed to the peer's
streams (it sits complete in a reassembly queue or has been read), (3) what the peer has read from each stream is
a prefix, in order, of what `x` wrote to that stream, and (4) every stream of the peer on which closure has been
reported had delivered ALL messages written to it before. -/
theorem C08_shutdown_ok_implies_delivered (ops : List Op) (x : Bool) :
    let s := Sys.init.run ops
    (s.ep x).sd = 2 → (s.ep x).connFailed = false →
      (s.ep x).snd.wlog.length = (s.ep x).callAt ∧
      (∀ w ∈ (s.ep x).snd.wlog, Got (s.ep (!x)).rcv w) ∧
      (∀ sid, (s.ep (!x)).rcv.readOn sid =
        ((onStream (s.ep x).snd.wlog sid).take ((s.ep (!x)).rcv.readOn sid).length).map (·.1)) ∧
      (∀ sid k, (sid, k) ∈ (s.ep (!x)).rcv.eofs →
        (s.ep (!x)).rcv.readOn sid = (onStream (s.ep x).snd.wlog sid).map (·.1)) :=
  delivered_of_inv _ (run_inv ops) x

/-- **Writes (and OpenStream) after Shutdown began are rejected.** In every reachable state in which a Shutdown
call of side `x` has passed its state gate: no message has been accepted since, a write on any stream is
rejected and queues nothing, and OpenStream is refused. -/
theorem C08_no_write_after_shutdown (ops : List Op) (x : Bool) (sid : Nat) :
    let s := Sys.init.run ops
    (s.ep x).sd ≠ 0 →
      (s.ep x).snd.wlog.length = (s.ep x).callAt ∧
      (write (s.ep x) sid).2 = false ∧
      (write (s.ep x) sid).1.snd.wlog = (s.ep x).snd.wlog ∧ (write (s.ep x) sid).1.snd.pend = (s.ep x).snd.pend ∧
      openOk (s.ep x) = false :=
  no_write_of_inv _ (run_inv ops) x sid (run_stRange ops x)

end C08
