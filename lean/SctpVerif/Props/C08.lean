import SctpVerif.Proofs.Shutdown
import SctpVerif.Proofs.Sna
/-!
# C08 — graceful shutdown delivers everything first and completes on both sides

Property theorems only, about the L0 model `Sd` (Model/Shutdown.lean), which the direct-drive
correspondence `TestVerifShutdown` replays line by line against two real, established associations.
`ops : List Op` is an arbitrary interleaving of: writes on any stream, Shutdown calls, write-loop passes with
ANY choice of DATA chunks to (re)transmit, deliveries of ANY packet ever sent by either side (so loss,
duplication, reordering, arbitrary delay and stale replays of DATA, SACK, SHUTDOWN, SHUTDOWN-ACK and
SHUTDOWN-COMPLETE are all included), T2-shutdown / T3-rtx / delayed-ack expiries, reads, transport failures.
-/
namespace C08
open Sd

/-- the model's state numbers are the code's (translator-generated constants) -/
theorem C08_state_constants :
    stClosed = Gen.closed ∧ stCookieWait = Gen.cookieWait ∧ stCookieEchoed = Gen.cookieEchoed ∧
    stEstablished = Gen.established ∧ stShutdownAckSent = Gen.shutdownAckSent ∧
    stShutdownPending = Gen.shutdownPending ∧ stShutdownReceived = Gen.shutdownReceived ∧
    stShutdownSent = Gen.shutdownSent := by decide

/-- the model's state gates are the code's: `isDataReceiveState`, `isShutdownHandleState` and
`entersShutdownReceived` as translated from association.go agree with the conditions written in
`handleData`, `handleShutdown` and `enterReceived` of the model, on all eight states -/
theorem C08_gates_match_code (st : Nat) (h : st < 8) :
    (st == stEstablished || st == stShutdownPending || st == stShutdownSent) = Gen.isDataReceiveState (BitVec.ofNat 32 st) ∧
    (st == stShutdownSent || st == stEstablished || st == stShutdownPending || st == stShutdownReceived)
      = Gen.isShutdownHandleState (BitVec.ofNat 32 st) ∧
    (st == stEstablished || st == stShutdownPending) = Gen.entersShutdownReceived (BitVec.ofNat 32 st) := by
  have : st = 0 ∨ st = 1 ∨ st = 2 ∨ st = 3 ∨ st = 4 ∨ st = 5 ∨ st = 6 ∨ st = 7 := by omega
  rcases this with h | h | h | h | h | h | h | h <;> subst h <;> decide

/-- the state tests and the SACK decision the model re-types are the expressions of the code: every `if` condition on
the association state in Shutdown, sendPayloadData, handleSack, handleShutdown, handleShutdownAck, handleShutdownComplete,
the two non-terminal cases of gatherOutboundPriorityPackets and the `sackNow` / `gapDetected` assignments of handleData,
as the translator reads them off association.go on this run (`Gen.sd_*`), agree with what `shutdownCall`, `write`,
`handleSack`, `handleShutdown`, `handleShutdownAck`, `handleShutdownComplete`, `gatherPrio` and `handleData` of the
model test — on all eight states and all flag values; the TSN comparison for every initial TSN and offsets below 2^31 -/
theorem C08_sites_match_code (st : Nat) (h : st < 8) (f g : Bool) :
    (st == stEstablished) = !Gen.sd_shutdownRefused (BitVec.ofNat 32 st) ∧
    (st == stEstablished) = !Gen.sd_writeRefused (BitVec.ofNat 32 st) ∧
    (!(st == stEstablished || st == stShutdownPending || st == stShutdownReceived)) = Gen.sd_sackIgnored (BitVec.ofNat 32 st) ∧
    (st == stShutdownAckSent) = Gen.sd_shutdownInAckSent (BitVec.ofNat 32 st) ∧
    (st == stShutdownSent) = Gen.sd_shutdownInSent (BitVec.ofNat 32 st) ∧
    (!(st == stShutdownSent || st == stEstablished || st == stShutdownPending || st == stShutdownReceived))
      = Gen.sd_shutdownNotHandled (BitVec.ofNat 32 st) ∧
    (st == stShutdownSent || st == stShutdownAckSent) = Gen.sd_shutdownAckHandled (BitVec.ofNat 32 st) ∧
    (st == stShutdownAckSent) = Gen.sd_shutdownCompleteHandled (BitVec.ofNat 32 st) ∧
    (st == stShutdownAckSent && f) = Gen.sd_prioShutdownAck (BitVec.ofNat 32 st) f ∧
    (st == stShutdownSent && f) = Gen.sd_prioShutdown (BitVec.ofNat 32 st) f ∧
    (f || !g) = Gen.sd_dataSackNow false f g := by
  have : st = 0 ∨ st = 1 ∨ st = 2 ∨ st = 3 ∨ st = 4 ∨ st = 5 ∨ st = 6 ∨ st = 7 := by omega
  rcases this with h | h | h | h | h | h | h | h <;> subst h <;> cases f <;> cases g <;> decide

/-- the gap test of handleData: `sna32GT(chunk.tsn, peerLastTSN + 1)` is the model's `pl < t` on offsets from ANY
initial TSN `base` (offsets below 2^31) -/
theorem C08_gap_test_matches_code (base : BitVec 32) (t pl : Nat) (ht : t < 2^31) (hp : pl < 2^31) :
    Gen.sd_dataGap (base + BitVec.ofNat 32 t) (base + BitVec.ofNat 32 pl) = decide (pl < t) := by
  have hiff := Sna.gt32_iff (base + BitVec.ofNat 32 t) (base + BitVec.ofNat 32 pl)
  have hsub : ((base + BitVec.ofNat 32 t) - (base + BitVec.ofNat 32 pl)).toNat = (t + 2^32 - pl) % 2^32 := by
    have h1 : (BitVec.ofNat 32 t).toNat = t := by simp [BitVec.toNat_ofNat]; omega
    have h2 : (BitVec.ofNat 32 pl).toNat = pl := by simp [BitVec.toNat_ofNat]; omega
    bv_omega
  unfold Gen.sd_dataGap
  by_cases hlt : pl < t
  · have : Gen.sna32GT (base + BitVec.ofNat 32 t) (base + BitVec.ofNat 32 pl) = true := by
      rw [hiff, hsub]; omega
    simp [this, hlt]
  · have : ¬ Gen.sna32GT (base + BitVec.ofNat 32 t) (base + BitVec.ofNat 32 pl) = true := by
      rw [hiff, hsub]; omega
    simp [this, hlt]

/-- **Shutdown returned nil ⇒ everything was delivered first, in order, before closure.**
In every reachable state (every interleaving, every fault pattern, every choice of what the write loop sends, Close /
Abort / transport failure at any moment): if the Shutdown call of side `x` has returned nil, then
(1) no message was accepted after the call, (2) every message `x` ever accepted has been handed to the peer's
streams (it sits complete in a reassembly queue or has been read), (3) what the peer has read from each stream is
a prefix, in order, of what `x` wrote to that stream, and (4) every stream of the peer on which closure has been
reported had delivered ALL messages written to it before.
Full strength since the fix of D22 (`Shutdown` returns ErrShutdownIncomplete unless SHUTDOWN-ACK or SHUTDOWN-COMPLETE was
received): before it this needed the hypothesis "the local transport did not fail". -/
theorem C08_shutdown_ok_implies_delivered (ops : List Op) (x : Bool) :
    let s := Sys.init.run ops
    (s.ep x).sd = 2 →
      (s.ep x).snd.wlog.length = (s.ep x).callAt ∧
      (∀ w ∈ (s.ep x).snd.wlog, Got (s.ep (!x)).rcv w) ∧
      (∀ sid, (s.ep (!x)).rcv.readOn sid =
        ((onStream (s.ep x).snd.wlog sid).take ((s.ep (!x)).rcv.readOn sid).length).map (·.1)) ∧
      (∀ sid k, (sid, k) ∈ (s.ep (!x)).rcv.eofs →
        (s.ep (!x)).rcv.readOn sid = (onStream (s.ep x).snd.wlog sid).map (·.1)) :=
  delivered_of_inv _ (run_inv ops) x

/-- regression statement for D22 (the former witness): one message queued, Shutdown called, the local transport fails —
the call now returns the error (sd = 3), not nil; the same for Close, and for Abort followed by the write-loop pass
that sends the ABORT. Replayed on the real code from corpus/C08/sd_d22_shutdown_nil_on_transport_failure.ops. -/
theorem C08_d22_transport_failure_reports_error :
    (Sys.init.run [.write false 0, .shutdown false, .closeConn false]).a.sd = 3 ∧
    (Sys.init.run [.write false 0, .shutdown false, .closeApi false]).a.sd = 3 ∧
    (Sys.init.run [.write false 0, .shutdown false, .abort false, .gather false []]).a.sd = 3 ∧
    (Sys.init.run [.write false 0, .shutdown false, .closeConn false]).b.rcv.store = [] := by decide

/-- **An interrupted Shutdown reports it.** In every reachable state in which a Shutdown call of `x` is waiting and the
peer's SHUTDOWN-ACK has not arrived: a transport failure, `Close`, or `Abort` (once the write loop has sent the ABORT,
whatever else that pass was asked to send) makes the call return the error, never nil. -/
theorem C08_interrupted_shutdown_reports_error (ops : List Op) (x : Bool) (d : List (List (Nat × Nat))) :
    let s := Sys.init.run ops
    (s.ep x).sd = 1 → (s.ep x).scp = false →
      ((s.step (.closeConn x)).ep x).sd = 3 ∧ ((s.step (.closeApi x)).ep x).sd = 3 ∧
      (((s.step (.abort x)).step (.gather x d)).ep x).sd = 3 ∧
      ((s.step (.abort x)).step (.gather x d)).hist x = s.hist x ++ #[[Chunk.abort]] :=
  fun h1 h2 => interrupted_of_inv _ (run_inv ops) x d h1 h2

example : let s := Sys.init.run [.write false 0, .shutdown false]; (s.ep false).sd = 1 ∧ (s.ep false).scp = false := by decide

/-- **Writes (and OpenStream) after Shutdown began are rejected.** In every reachable state in which a Shutdown
call of side `x` has passed its state gate: no message has been accepted since, a write on any stream is
rejected and queues nothing, and OpenStream is refused. -/
theorem C08_no_write_after_shutdown (ops : List Op) (x : Bool) (sid : Nat) :
    let s := Sys.init.run ops
    (s.ep x).sd ≠ 0 →
      (s.ep x).snd.wlog.length = (s.ep x).callAt ∧
      (write (s.ep x) sid).2 = false ∧
      (write (s.ep x) sid).1.snd.wlog = (s.ep x).snd.wlog ∧ (write (s.ep x) sid).1.snd.pend = (s.ep x).snd.pend ∧
      openOk (s.ep x) = false :=
  no_write_of_inv _ (run_inv ops) x sid (run_stRange ops x)

/-- non-vacuity of the two theorems above: a run in which Shutdown returns nil with two messages written on two
streams, no transport failure (so the hypotheses are satisfiable and the conclusion talks about real messages) -/
def demoOps : List Op :=
  [.write false 0, .write false 1, .gather false [[(0, 0), (1, 1)]], .deliver false 0, .ackt true, .gather true [],
   .deliver true 0, .shutdown false, .write false 0, .gather false [], .deliver false 1, .gather true [], .deliver true 1,
   .gather false [], .deliver false 2, .read true 0, .read true 1]
example : let s := Sys.init.run demoOps
    (s.ep false).sd = 2 ∧ (s.ep false).snd.wlog = [(0, 0, 0), (1, 1, 0)] ∧
    (s.ep false).snd.attempts = 3 ∧ (s.ep true).rcv.rlog = [(0, 0, 0), (1, 1, 0)] ∧ (s.ep true).rcv.eofs = [(0, 1), (1, 1)] := by
  decide

/-- SHUTDOWN and SHUTDOWN-ACK are only ever due or sent by a drained endpoint: in every reachable state an
endpoint in SHUTDOWN-SENT or SHUTDOWN-ACK-SENT has nothing queued and nothing in flight, and a Shutdown call
that has returned (nil or the error) means the association is closed -/
theorem C08_shutdown_states_drained (ops : List Op) (x : Bool) :
    let s := Sys.init.run ops
    ((s.ep x).st = stShutdownSent ∨ (s.ep x).st = stShutdownAckSent →
      (s.ep x).snd.pend = [] ∧ (s.ep x).inflight = 0 ∧ (s.ep x).hasData = false) ∧
    ((s.ep x).sd = 2 ∨ (s.ep x).sd = 3 → (s.ep x).st = stClosed ∧ (s.ep x).dead = true) := by
  have inv := (run_inv ops x).1
  refine ⟨fun h => ?_, fun h => ?_⟩
  · obtain ⟨h1, h2⟩ := inv.ctl.drained h
    refine ⟨h1, by simp [Ep.inflight, h2], by simp [Ep.hasData, h1, h2]⟩
  · have hd := inv.ctl.sdDead h
    exact ⟨inv.ctl.deadSt.1 hd, hd⟩

example : ((Sys.init.run [.write false 0, .gather false [[(0, 0)]], .deliver false 0, .ackt true, .gather true [], .deliver true 0,
    .shutdown false]).ep false).st = stShutdownSent := by decide
example : ((Sys.init.run demoOps).ep false).sd ≠ 0 := by decide

/-- **Closed is absorbing.** Once the loops of an endpoint are gone (state CLOSED), no operation whatsoever —
deliveries of any old packet, timer expiries, API calls — changes its state, its Shutdown result, what it accepted,
sent and acknowledged, or what it received; it puts nothing on the wire; what was delivered to its streams stays
available to its readers. -/
theorem C08_closed_absorbing (ops : List Op) (x : Bool) (op : Op) :
    let s := Sys.init.run ops
    (s.ep x).dead = true →
      let s' := s.step op
      (s'.ep x).dead = true ∧ (s'.ep x).st = stClosed ∧ (s'.ep x).sd = (s.ep x).sd ∧
      (s'.ep x).snd.wlog = (s.ep x).snd.wlog ∧ (s'.ep x).snd.sentq = (s.ep x).snd.sentq ∧ (s'.ep x).snd.cum = (s.ep x).snd.cum ∧
      (s'.ep x).rcv.pl = (s.ep x).rcv.pl ∧ s'.hist x = s.hist x ∧
      (∀ c, Got (s.ep x).rcv c → Got (s'.ep x).rcv c) :=
  fun hd => closed_of_inv _ (run_inv ops) x op hd

example : ((Sys.init.run demoOps).ep false).dead = true := by decide

/-- **Stale, duplicated and reordered packets are harmless.** Delivering ANY packet ever sent by `x` (any index:
old, duplicate, out of order) to the other side: never takes away a message already handed to its streams, changes
nothing its readers have seen (reads and closure reports), leaves the sender side and both histories untouched,
never moves an endpoint back to ESTABLISHED (no re-opening) nor out of CLOSED, and can make a Shutdown call
return nil only if everything that side accepted has been delivered (the main theorem holds after the delivery). -/
theorem C08_stale_harmless (ops : List Op) (x : Bool) (i : Nat) :
    let s := Sys.init.run ops
    let s' := s.step (.deliver x i)
    (∀ c, Got (s.ep (!x)).rcv c → Got (s'.ep (!x)).rcv c) ∧
    (s'.ep (!x)).rcv.rlog = (s.ep (!x)).rcv.rlog ∧ (s'.ep (!x)).rcv.eofs = (s.ep (!x)).rcv.eofs ∧
    s'.ep x = s.ep x ∧ s'.hist x = s.hist x ∧ s'.hist (!x) = s.hist (!x) ∧
    (∀ z, (s.ep z).st ≠ stEstablished → (s'.ep z).st ≠ stEstablished) ∧
    (∀ z, (s.ep z).st = stClosed → (s'.ep z).st = stClosed) ∧
    (∀ z, (s'.ep z).sd = 2 → ∀ w ∈ (s'.ep z).snd.wlog, Got (s'.ep (!z)).rcv w) :=
  stale_of_inv _ (run_inv ops) x i

/-! ## liveness on explicit schedules, for every message count -/

/-- **Fault-free shutdown completes, for every number of messages.** Side A writes `n` messages, calls Shutdown with
all of them still queued (SHUTDOWN-PENDING), the data drains under the shutdown one round trip per message, then
SHUTDOWN, SHUTDOWN-ACK and SHUTDOWN-COMPLETE are exchanged: both sides end CLOSED, A's Shutdown has returned nil, and all `n` messages sit, in order, in B's stream ready to be read. -/
theorem C08_fault_free_completes (n : Nat) :
    let s := Sys.init.run (schedule n ++ closingFaultFree n n)
    s.a.dead = true ∧ s.a.st = stClosed ∧ s.a.sd = 2 ∧ s.b.dead = true ∧ s.b.st = stClosed ∧
    s.a.snd.wlog = M n ∧ s.a.callAt = n ∧ s.b.rcv.store = M n := by
  intro s
  have h := closing_fault_free (formR n n) (formR_ready n)
  rw [(formR_sizes n).1, (formR_sizes n).2] at h
  have hs : s = (formR n n).run (closingFaultFree n n) := by
    show Sys.init.run (schedule n ++ closingFaultFree n n) = _
    rw [run_append, run_schedule]
  rw [hs]
  obtain ⟨d1, d2, d3, d4, d5, d6, d7, d8, d9⟩ := h
  exact ⟨d1, d2, d3, d5, d6, by rw [d7]; rfl, by rw [d9]; rfl,
    by rw [d8]; exact List.take_of_length_le (by rw [M_length]; exact Nat.le_refl _)⟩

/-- the same run for each single loss in the shutdown sequence, recovered by T2-shutdown, for every message count:
(1) the first SHUTDOWN lost — T2 at the caller, SHUTDOWN sent again; (2) the SHUTDOWN-ACK lost — T2 at the caller, the
retransmitted SHUTDOWN finds the peer in SHUTDOWN-ACK-SENT which answers again; (3) the SHUTDOWN-COMPLETE lost — the
caller is closed and its Shutdown has returned nil, the peer retransmits SHUTDOWN-ACK to nobody and ends CLOSED when its
transport closes. In all three: both sides CLOSED, Shutdown returned nil at the caller, and
all `n` messages are in the peer's stream. -/
theorem C08_recovers_from_single_losses (n : Nat) :
    (∀ tail ∈ [closingShutdownLost n n, closingAckLost n n, closingCompleteLost n n],
      let s := Sys.init.run (schedule n ++ tail)
      s.a.dead = true ∧ s.a.st = stClosed ∧ s.a.sd = 2 ∧ s.b.dead = true ∧ s.b.st = stClosed ∧
      s.a.snd.wlog = M n ∧ s.b.rcv.store = M n) := by
  have key : ∀ tail, Done (formR n n) ((formR n n).run tail) →
      (let s := Sys.init.run (schedule n ++ tail)
       s.a.dead = true ∧ s.a.st = stClosed ∧ s.a.sd = 2 ∧ s.b.dead = true ∧ s.b.st = stClosed ∧
       s.a.snd.wlog = M n ∧ s.b.rcv.store = M n) := by
    intro tail h
    show (let s := Sys.init.run (schedule n ++ tail); _)
    rw [run_append, run_schedule]
    obtain ⟨d1, d2, d3, d4, d5, d6, d7, d8, -⟩ := h
    exact ⟨d1, d2, d3, d5, d6, by rw [d7]; rfl,
      by rw [d8]; exact List.take_of_length_le (by rw [M_length]; exact Nat.le_refl _)⟩
  have h1 := closing_shutdown_lost (formR n n) (formR_ready n)
  have h2 := closing_ack_lost (formR n n) (formR_ready n)
  have h3 := closing_complete_lost (formR n n) (formR_ready n)
  rw [(formR_sizes n).1, (formR_sizes n).2] at h1 h2 h3
  intro tail ht
  simp only [List.mem_cons, List.mem_nil_iff, or_false] at ht
  rcases ht with rfl | rfl | rfl
  · exact key _ h1
  · exact key _ h2
  · exact key _ h3

/-- **Shutdowns started by both sides at once complete as well**, for every message count: after A's `n` messages have
drained under its Shutdown, B calls Shutdown too before A's SHUTDOWN is on the wire; the two SHUTDOWNs cross, each is
answered by SHUTDOWN-ACK, each of those by SHUTDOWN-COMPLETE: both sides CLOSED, BOTH Shutdown calls returned nil. -/
theorem C08_crossed_shutdown_completes (n : Nat) :
    let s := Sys.init.run (schedule n ++ [.shutdown true] ++ closingCrossed n n)
    s.a.dead = true ∧ s.a.st = stClosed ∧ s.a.sd = 2 ∧ s.b.dead = true ∧ s.b.st = stClosed ∧ s.b.sd = 2 := by
  intro s
  have hs : s = ((formR n n).step (.shutdown true)).run (closingCrossed n n) := by
    show Sys.init.run (schedule n ++ [.shutdown true] ++ closingCrossed n n) = _
    rw [List.append_assoc, schedule_then, List.singleton_append, run_cons]
  obtain ⟨hr, hsa, hsb, -, -⟩ := formR_readyBoth n
  have h := closing_crossed _ hr
  rw [hsa, hsb] at h
  obtain ⟨d1, d2, d3, -, d5, d6, d7, -⟩ := h
  rw [hs]
  exact ⟨d1, d2, d3, d5, d6, d7⟩

/-- an instance of the schedules evaluated by the kernel (a test, `n = 1`) -/
example : (Sys.init.run (schedule 1 ++ closingAckLost 1 1)).b.rcv.store = [(0, 0, 0)] := by decide

end C08
