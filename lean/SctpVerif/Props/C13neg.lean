import SctpVerif.Proofs.Handshake
/-!
# C13 — association level: a zero checksum is emitted only as negotiated

(The packet-level rules — what `packet.unmarshal` accepts, what `packet.marshal` writes — are in
`Props/C13.lean` on the byte-level codec model.) Here: over the handshake/negotiation model `Hs`,
for EVERY packet either endpoint ever emits in ANY run (any loss / duplication / reordering, any
timer expiries, retransmissions queued and marshalled later by the write loop).
-/
namespace C13
open Hs

/-- Every packet ever put on the wire with a zero checksum field was sent to a peer that declared
zero checksums acceptable, and is neither an INIT nor a COOKIE-ECHO packet. -/
theorem C13_send_zero_only_if_advertised (ilA zcA ilB zcB : Bool) (ops : List Op) :
    let s := (Sys.init ilA zcA ilB zcB).run ops
    (∀ p ∈ s.ha.toList, p.zeroCk = true →
        zcB = true ∧ (match p.msg with | .init .. => False | .cookieEcho .. => False | _ => True)) ∧
    (∀ p ∈ s.hb.toList, p.zeroCk = true →
        zcA = true ∧ (match p.msg with | .init .. => False | .cookieEcho .. => False | _ => True)) := by
  intro s
  have h := run_inv ilA zcA ilB zcB ops
  exact ⟨fun p hp hz => (h.ha p hp).2 hz, fun p hp hz => (h.hb p hp).2 hz⟩

/-- Direction: whether A sends zero checksums depends on B's option only (and vice versa) — the
endpoint's own option plays no role (the v1.8.12 regression as a theorem). -/
theorem C13_direction (ilA zcA ilB zcB : Bool) (ops : List Op) :
    let s := (Sys.init ilA zcA ilB zcB).run ops
    (s.a.sendZero = true → zcB = true) ∧ (s.b.sendZero = true → zcA = true) := by
  intro s
  have h := run_inv ilA zcA ilB zcB ops
  exact ⟨h.a.zero, h.b.zero⟩

/-- The marshalling rule of the association (`marshalPacket`), stated outright. -/
theorem C13_assoc_outbound_rule (e : Ep) (m : Msg) :
    (mkPkt e m).zeroCk = (e.sendZero && !(match m with | .init .. => true | .cookieEcho .. => true | _ => false)) := by
  cases m <;> rfl

/-- The acceptance rule of the association (`unmarshalPacket`), stated outright, and a rejected packet has
no effect whatsoever. -/
theorem C13_assoc_inbound_rule (e : Ep) (p : Pkt) :
    (accepts e p = (!p.zeroCk || (e.zc && !(match p.msg with | .init .. => true | .cookieEcho .. => true | _ => false)))) ∧
    (accepts e p = false → handle e p = (e, [])) := by
  constructor
  · unfold accepts; cases p.zeroCk <;> cases p.msg <;> simp
  · intro h; unfold handle; simp [h]

-- non-vacuity: with both options on, a COOKIE-ACK does leave with a zero checksum
example : ((Sys.init false true false true).run [.start false, .deliver false 0, .deliver true 0, .deliver false 1]).hb.toList.any (·.zeroCk) = true := by
  decide

end C13
