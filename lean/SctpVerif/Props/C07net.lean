import SctpVerif.Proofs.NetSys.PRTake
import SctpVerif.Proofs.NetSys.PRLost
import SctpVerif.Proofs.NetSys.PRLostDec
import SctpVerif.Proofs.NetSys.PRLostGood
import SctpVerif.Proofs.NetSys.PRLostFwd
import SctpVerif.Proofs.NetSys.PRFifo
import SctpVerif.Proofs.NetSys.Proj
/-!
# C07 — the composition with FORWARD-TSN: sender half + adversarial network + receiver half (`NetSysPR`)

Property theorems only. `Model/NetSysPR.lean` is `Model/NetSys.lean` (the two L0 models `Sender` and `Receiver`, tied to the
code by the direct-drive runs `as` / `ar`, and the HISTORY network between them) with streams of ANY reliability policy and a
history that also holds every FORWARD-TSN / I-FORWARD-TSN chunk a gather emitted (`GatherOut.fwd`); `deliver` hands the
receiver any history items — DATA or FORWARD-TSN — any number of times, in any order, in any bundling; never = loss.

**The question.** `C07_reasm_skip_then_deliver` (Props/C07reasm.lean) needs the honest-sender premise `allPushed`: when a skip
names SSN `L` of a stream, every message of that stream at or below `L` that is not abandoned has been handed to the reassembly
queue completely. Can loss and reordering break it in the composed system? **Answer (proved below): no, provided the SACKs the
sender processes are SOUND** — never acknowledge cumulatively more than the receiver's cumulative point (`SackSound`, decidable
on the run; `C05_assoc_sack_sound` proves every SACK of the real receive half carries exactly its own cumulative point).
Nothing is asked of gap blocks: `advLoop` stops at the first NON-ABANDONED chunk, gap-acked or not (`C07_skip_only_abandoned`),
so gap reports never move the advanced peer ack point over a chunk that is not abandoned.
**Soundness is necessary**: `C07_netsys_unsound_sack_witness` is a run with one SACK that acknowledges a TSN the receiver never
got — the FORWARD-TSN built afterwards makes the receiver skip a RELIABLE message that never arrived (decided by `decide`).
This is not a finding about pion/sctp (its receive half never builds such a SACK); it is why the hypothesis is there.

**Argument (Proofs/NetSys/PRSnd.lean, PRRcv.lean, PRSafe.lean, PRTake.lean).** One invariant of the composed state, with the
unwrapped counts `a` (TSNs cumulatively acked at the sender) and `A` (TSNs at or below the receiver's cumulative point):
`a ≤ A` (sound SACKs; `validate` keeps `a` inside the chunks sent); every TSN offset `< A` was accepted by the receive queue —
then `handleData` handed the chunk to `pushPayloadDataToStream` (`Receiver.pushes`) — or was skipped by a FORWARD-TSN, then it
is abandoned (ghost sets of `Proofs/RecvQ/History.lean`); every FORWARD-TSN in the history has new cumulative TSN `t0 + n` for a
chunk `n` that was sent, and every offset `≤ n` is abandoned or `< A` (when built: abandoned by `AdvInv`, or `< a ≤ A`;
abandonment is permanent, `A` only grows). No stream reset is needed for this part (TSNs are never reused); `NoReset` is what
makes "SSN `L` of stream `s`" name ONE message — D24 is the known counterexample otherwise.

Hypotheses (`RunOk`, each decidable on the run, satisfied by the examples): `CfgOk` (MTU < 2^30) and PR negotiated, as in
Props/C07.lean; `SackSound`; `InflightOk` (< 2^31 chunks in flight in every state: the premise `TsnOk` of Props/C07.lean);
fewer than 2^31 TSNs assigned in all.
-/
namespace C07
open NetSysPR
open NetSys (Params Op toWire)
open SenderProofs SenderTsn

/-- ✱ **A skip is safe (TSN level).** In every reachable state of NetSysPR, at any point inside a packet (`pre` = the history
items of the packet handled so far), for EVERY FORWARD-TSN / I-FORWARD-TSN `f` of the history — hence for the one the receiver
takes next, first copy or late duplicate —: every chunk the sender ever sent with a TSN serially at or below `f`'s new
cumulative TSN, on ANY stream, is abandoned by the sender or has been handed to the reassembly queue of its stream
(`pushed`: the TSNs for which `handleData` reached `pushPayloadDataToStream`; a TSN names one fragment: `C01_wire_tsn_stable`).
And every entry of `f` is (stream, SSN) of an abandoned ORDERED chunk (resp. (stream, U, MID) of an abandoned chunk) with a TSN
at or below that point. So nothing that is not abandoned is below a skip without having been received. -/
theorem C07_netsys_skip_is_safe (P : Params) (ops : List Op) (hok : RunOk P ops)
    (pre : List (Item × Bool)) (hpre : ∀ x ∈ pre, x.1 ∈ (run P (init P) ops).wire)
    (f : Sender.Fwd) (hf : Item.fwd f ∈ (run P (init P) ops).wire) :
    (∀ m ∈ moved P (init P) ops, Gen.sna32LTE m.tsn (fwdCum f) = true →
      (run P (init P) ops).snd.abandoned m = true ∨
      m.tsn ∈ pushed P (init P) ops ++ pushedIn P (Receiver.chunksStart (run P (init P) ops).rcv) pre) ∧
    Ent (run P (init P) ops).snd (moved P (init P) ops) f :=
  skip_safe P ops hok pre hpre f hf

/-- it holds in every state of a run, not only the last one -/
theorem C07_netsys_skip_is_safe_prefix (P : Params) (o1 o2 : List Op) (hok : RunOk P (o1 ++ o2))
    (f : Sender.Fwd) (hf : Item.fwd f ∈ (run P (init P) o1).wire) :
    ∀ m ∈ moved P (init P) o1, Gen.sna32LTE m.tsn (fwdCum f) = true →
      (run P (init P) o1).snd.abandoned m = true ∨ m.tsn ∈ pushed P (init P) o1 := by
  have := (skip_safe P o1 hok.take [] (by simp) f hf).1
  simpa [pushedIn] using this

/-- per-stream FIFO of the TSN assignment, on the run's moved list: a chunk of the same stream written in an EARLIER message
(`W` = the chunks the writes created; a fragment is identified by message identity and FSN) was moved to in flight — got its TSN — before. This is what `C17_fragment_order` /
`C17_ordered_only_fifo` prove of the pending queue (the `sel` oracle of the Sender model is arbitrary). Decidable. -/
def TsnFifo (mv W : List Sender.Chunk) : Bool :=
  mv.all fun (m : Sender.Chunk) => W.all fun (w : Sender.Chunk) => !(decide (w.si = m.si) && decide (w.msg < m.msg)) ||
    mv.any fun (m' : Sender.Chunk) => decide (m'.msg = w.msg ∧ m'.fsn = w.fsn) && Gen.sna32LT m'.tsn m.tsn

theorem TsnFifo.spec {mv W : List Sender.Chunk} (h : TsnFifo mv W = true) :
    ∀ m ∈ mv, ∀ w ∈ W, w.si = m.si → w.msg < m.msg → ∃ m' ∈ mv, (m'.msg = w.msg ∧ m'.fsn = w.fsn) ∧ Gen.sna32LT m'.tsn m.tsn = true := by
  intro m hm w hw hsi hlt
  have h1 := List.all_eq_true.1 (List.all_eq_true.1 h m hm) w hw
  rw [Bool.or_eq_true] at h1
  rcases h1 with h2 | h2
  · simp [hsi, hlt] at h2
  · obtain ⟨m', hm', h3⟩ := List.any_eq_true.1 h2
    simp only [Bool.and_eq_true, decide_eq_true_eq] at h3
    exact ⟨m', hm', h3.1, h3.2⟩

/-- ✱ **The `allPushed` premise holds in the composed system (stream level, FORWARD-TSN).** With per-stream FIFO TSN
assignment: for every entry `(s, L)` of a FORWARD-TSN of the history there is an abandoned ordered chunk `m` of stream `s` with
SSN `L` such that every fragment `w` written on `s` in a message BEFORE `m`'s (SSNs are assigned in write order:
`C01_ssn_assignment`; with `NoReset` that is "every message of the stream below `L`") has been sent, and is abandoned or has been
handed to the reassembly queue. The message of `m` itself is abandoned. -/
theorem C07_netsys_skip_all_pushed (P : Params) (ops : List Op) (hok : RunOk P ops)
    (hfifo : TsnFifo (moved P (init P) ops) (written (init P).snd (NetSys.sndOps P (init P).snd ops)) = true)
    (pre : List (Item × Bool)) (hpre : ∀ x ∈ pre, x.1 ∈ (run P (init P) ops).wire)
    (nc : BitVec 32) (es : List (BitVec 16 × BitVec 16)) (hf : Item.fwd (.fwd nc es) ∈ (run P (init P) ops).wire) :
    ∀ e ∈ es, ∃ m ∈ moved P (init P) ops, (run P (init P) ops).snd.abandoned m = true ∧ m.unordered = false ∧ m.si = e.1 ∧ m.ssn = e.2 ∧
      ∀ w ∈ written (init P).snd (NetSys.sndOps P (init P).snd ops), w.si = e.1 → w.msg < m.msg →
        ∃ m' ∈ moved P (init P) ops, (m'.msg = w.msg ∧ m'.fsn = w.fsn) ∧
          ((run P (init P) ops).snd.abandoned m' = true ∨
           m'.tsn ∈ pushed P (init P) ops ++ pushedIn P (Receiver.chunksStart (run P (init P) ops).rcv) pre) := by
  obtain ⟨h1, h2⟩ := skip_safe P ops hok pre hpre (.fwd nc es) hf
  intro e he
  obtain ⟨m, hm, a1, a2, a3, a4, a5⟩ := h2 e he
  refine ⟨m, hm, a1, a3, a4, a5, ?_⟩
  intro w hw hsi hlt
  obtain ⟨m', hm', hfr, hlt'⟩ := TsnFifo.spec hfifo m hm w hw (hsi.trans a4.symm) hlt
  refine ⟨m', hm', hfr, h1 m' hm' ?_⟩
  -- TSN(m') < TSN(m) ≤ nc, all inside one half-space
  obtain ⟨htsn, n, c1, c2, _, _⟩ := skip_safe_idx P ops hok pre hpre (.fwd nc es) hf
  obtain ⟨j, hj⟩ := List.getElem?_of_mem hm
  obtain ⟨i, hi⟩ := List.getElem?_of_mem hm'
  have hjl : j < (moved P (init P) ops).length := by
    rcases Nat.lt_or_ge j (moved P (init P) ops).length with h' | h'
    · exact h'
    · rw [List.getElem?_eq_none h'] at hj; cases hj
  have hil : i < (moved P (init P) ops).length := by
    rcases Nat.lt_or_ge i (moved P (init P) ops).length with h' | h'
    · exact h'
    · rw [List.getElem?_eq_none h'] at hi; cases hi
  have hsm := hok.small
  have d1 := (Sna.lte32_iff _ _).1 a2
  have d2 := (Sna.lt32_iff _ _).1 hlt'
  apply (Sna.lte32_iff _ _).2
  have c1' : nc = P.tsn + BitVec.ofNat 32 n := c1
  rw [htsn j m hj, c1'] at d1
  rw [htsn j m hj, htsn i m' hi] at d2
  show (nc - m'.tsn).toNat < 2^31
  rw [htsn i m' hi, c1']
  have e1 : (BitVec.ofNat 32 j).toNat = j := by simp; omega
  have e2 : (BitVec.ofNat 32 n).toNat = n := by simp; omega
  have e3 : (BitVec.ofNat 32 i).toNat = i := by simp; omega
  generalize BitVec.ofNat 32 j = x at e1 d1 d2
  generalize BitVec.ofNat 32 n = y at e2 d1 ⊢
  generalize BitVec.ofNat 32 i = z at e3 d2 ⊢
  bv_omega

/-! ## nothing that is not abandoned is lost: the receive half with skips, and its transport to NetSysPR -/

/-- ✱ **Receive half, ordered DATA, WITH FORWARD-TSN** (the association-level form of `C07_reasm_skip_then_deliver`; the
simulation of `Proofs/Receiver/Prefix.lean` redone with the skip step: `Proofs/Receiver/PrefixSkip*.lean`). Peer described by
the universe `U` (per stream a message list cut into fragments, all TSNs `t + offset`, fewer than 2^31 in all, as in
`C01_receiver_prefix`). Take ANY op list — packets bundling, in any order, any number of times, with any loss, DATA fragments
of the universe and FORWARD-TSN chunks (any stream lists), interleaved with reads of any size on any stream object, `accept`,
`open`, `gather`, clock ticks, state changes — such that
* `GoodChunkS`: the TSN of every DATA chunk names no other fragment of the stream under study (a TSN names one fragment:
  `C01_wire_tsn_stable`), the new cumulative TSN of every FORWARD-TSN is a TSN of the universe;
* `FwdOk`: every FORWARD-TSN the receiver TAKES (not stale, streams creatable) satisfies the honest-sender premise for the
  stream — each entry naming it is the SSN of a message `L` of the stream, and every message up to `L` that is not abandoned
  (`K`) has had ALL its fragments handed to the reassembly queue before (`pushedT`: `handleData` reached
  `pushPayloadDataToStream`) — this is what `C07_netsys_skip_all_pushed` proves of the composed system;
* fewer than 2^15 messages on the stream (D15, in its plain form) and no entry limit (`maxEntries = 0`, the default).
Then the successful reads on the stream are `D.map (message ·)` for a STRICTLY INCREASING list `D` of message indices: a
subsequence of the written messages, in write order, each at most once, each with its PPI and whole payload (the duplicate
filter of the receive queue is part of the model: duplicated, reordered, late DATA and stale / repeated FORWARD-TSN change
nothing); and every message that is not abandoned and all of whose fragments were handed over has been read or sits
complete in the queue, where the next reads find it. -/
theorem C07_receiver_skip_then_deliver (U : Receiver.UnivS) (S : Reasm.Sender) (hS : S ∈ U.senders) (hlen : S.msgs.length < 2^15)
    (K : Nat → Bool) (maxBuf : BitVec 32) (il f g : Bool) (am : Int) (ops : List Receiver.Op)
    (hgood : ∀ cs, Receiver.Op.pkt cs ∈ ops → ∀ ch ∈ cs, Receiver.GoodChunkS U S ch)
    (hfw : Receiver.FwdOk S K (Receiver.init maxBuf 0 il f g am U.t) [] ops) :
    ∃ D : List Nat,
      Receiver.delivs S.si (Receiver.init maxBuf 0 il f g am U.t) ops = D.map (fun k => Reasm.Msg.out (S.msg k)) ∧
      D.Pairwise (· < ·) ∧ (∀ k ∈ D, k < S.msgs.length) ∧
      (Receiver.delivs S.si (Receiver.init maxBuf 0 il f g am U.t) ops).Sublist (S.msgs.map Reasm.Msg.out) ∧
      (∀ k, k < S.msgs.length → K k = false →
        (∀ i, i < S.nf k → (S.dataFrag k i).tsn ∈ Receiver.pushedT (Receiver.init maxBuf 0 il f g am U.t) ops) →
        k ∈ D ∨ S.concSet (k, List.range (S.nf k)) ∈
          (Receiver.qOf (Receiver.run (Receiver.init maxBuf 0 il f g am U.t) ops) S.si).ordered) :=
  Receiver.skip_receiver U S hS hlen K maxBuf il f g am ops hgood hfw

/-- **NetSysPR, ordered DATA: reads are a subsequence of the writes, nothing that is not abandoned is lost — PARTIAL.**
FULL STATEMENT (not proved): for every run of NetSysPR with `RunOk`, `TsnFifo`, `NoReset`, the D15 window and a
message-contiguous selection, on every ordered stream `si` the reads `readsOn P si` are a subsequence of `writesOn P si` in
write order, each message at most once and intact, containing every message that is not abandoned and all of whose fragments
were handed over; a PREFIX on streams that are never given a partially reliable policy.
PROVED HERE: exactly that conclusion — for the message list of a universe `U` with `S.si = si` — for EVERY run of NetSysPR
(any SACKs, any loss / duplication / reordering of DATA and FORWARD-TSN items), from two premises on the run that are
stated, not derived:
* `hgood` — the universe link: every history item a `deliver` hands over decodes to a chunk that is `GoodChunkS U S`
  (for DATA: `toWire P c` is a fragment `S'.dataFrag k i` of the universe whose TSN names no other fragment of `S`). For
  reliable runs `Proofs/NetSys/Data.lean` derives this from `wire_ident` / `SelContig` with `U = sendersD`, `S.msgs.map out =
  writesOn`; that derivation (≈ 250 lines, incl. the TSN injectivity of moved fragments) has not been redone over `NetSysPR`
  with partially reliable streams — MISSING PIECE 1;
* `hfw` — the honest-sender premise for every FORWARD-TSN the receiver takes, in the receiver's vocabulary (`FwdOk` on the
  receiver projection `rcvOps`). `C07_netsys_skip_all_pushed` proves its content in the sender's vocabulary (message
  identities, TSNs in `pushed`; `pushed_eq`: `pushed` IS `pushedT` of the projection); translating an entry's SSN into the index
  `L` of the universe and "fragment written before" into `k ≤ L` needs the same universe link — MISSING PIECE 2.
Also restricted: fewer than 2^15 messages on the stream in all (instead of a sliding window), `maxEntries = 0`, DATA / FORWARD-TSN
(not I-DATA / I-FORWARD-TSN), kept-complete instead of read-after-drain. -/
theorem C07_netsys_nothing_lost_partial (P : Params) (ops : List Op) (hme : P.maxEntries = 0)
    (U : Receiver.UnivS) (hUt : U.t = P.tsn) (S : Reasm.Sender) (hS : S ∈ U.senders) (hlen : S.msgs.length < 2^15) (K : Nat → Bool)
    (hgood : ∀ o1 is o2, ops = o1 ++ Op.deliver is :: o2 →
      ∀ x ∈ pick (run P (init P) o1).wire is, Receiver.GoodChunkS U S (inChunk P x.1 x.2))
    (hfw : Receiver.FwdOk S K (init P).rcv [] (rcvOps P (init P) ops)) :
    ∃ D : List Nat,
      readsOn P S.si (init P) ops = D.map (fun k => Reasm.Msg.out (S.msg k)) ∧
      D.Pairwise (· < ·) ∧ (∀ k ∈ D, k < S.msgs.length) ∧
      (readsOn P S.si (init P) ops).Sublist (S.msgs.map Reasm.Msg.out) ∧
      (∀ k, k < S.msgs.length → K k = false →
        (∀ i, i < S.nf k → (S.dataFrag k i).tsn ∈ pushed P (init P) ops) →
        k ∈ D ∨ S.concSet (k, List.range (S.nf k)) ∈ (Receiver.qOf (run P (init P) ops).rcv S.si).ordered) := by
  have hinit : (init P).rcv = Receiver.init P.maxBuf 0 P.cfg.useInterleaving P.useFwd P.useIFwd P.ackMode U.t := by
    rw [hUt, ← hme]; rfl
  rw [hinit] at hfw
  have hg : ∀ cs, Receiver.Op.pkt cs ∈ rcvOps P (init P) ops → ∀ ch ∈ cs, Receiver.GoodChunkS U S ch := by
    intro cs hcs ch hch
    obtain ⟨o1, is, o2, e, rfl⟩ := rcvOps_pkt P (init P) ops cs hcs
    simp only [packetOf, List.mem_map] at hch
    obtain ⟨x, hx, rfl⟩ := hch
    exact hgood o1 is o2 e x hx
  obtain ⟨D, d1, d2, d3, d4, d5⟩ := Receiver.skip_receiver U S hS hlen K P.maxBuf P.cfg.useInterleaving P.useFwd P.useIFwd P.ackMode
    (rcvOps P (init P) ops) hg hfw
  rw [← hinit] at d1 d4 d5
  refine ⟨D, by rw [reads_eq]; exact d1, d2, d3, by rw [reads_eq]; exact d4, ?_⟩
  intro k hk hK hall
  rw [run_rcv]
  exact d5 k hk hK (fun i hi => by rw [← pushed_eq]; exact hall i hi)

/-! ## tests by evaluation and non-vacuity (`decide` on concrete runs — these are tests, not theorems) -/

private def bytes (m : Nat) : List UInt8 :=
  match m with
  | 0 => [1, 2, 3]
  | 1 => [7]
  | 2 => [9, 8]
  | _ => []

/-- stream 2 allows NO retransmission (rexmit 0), stream 1 is reliable; both ordered. Initial TSN 2^32 − 2: the TSNs wrap.
Message 0 (stream 2, the FIRST message of its stream, 2 fragments: TSN 2^32−2, 2^32−1), message 1 (stream 1: TSN 0), message 2
(stream 2: TSN 1) are sent in one gather, interleaved in the TSN space; the messages of stream 2 are abandoned at once. The network loses
the first fragment of message 0: the receiver gets its SECOND fragment (partially received abandoned message) and message 1. A
sound SACK (cumulative point unmoved, gap blocks for what arrived) makes the sender advance over message 0 only — it stops at
the reliable message 1 although that one is gap-acked — and the next gather emits FORWARD-TSN(2^32−1, [(2, 0)]). The receiver takes
it, purges the fragment, delivers message 1; message 2 arrives late and is delivered (SSN 1 after the skip of SSN 0); a late
duplicate of the FORWARD-TSN and a late copy of the lost fragment change nothing. -/
private def PX : Params := { cfg := { mtu := 1200, maxPayload := 2 }, tsn := 4294967294#32, pay := bytes }
private def opsX : List Op :=
  [.snd (.openS 1 false 0 0 0), .snd (.openS 2 false 1 0 0), .write 2 60, .write 1 61, .write 2 62,
   .snd (.gather Sender.freeOracle [0, 0, 0, 0]),
   .deliver [(1, false), (2, false)],
   .snd (.sack 4294967293#32 65536 [(2, 3)] []),
   .snd (.gather Sender.freeOracle []),
   .deliver [(4, false)], .rcv (.read (1, 0) 100),
   .deliver [(3, false)], .rcv (.read (2, 0) 100),
   .deliver [(4, false), (0, false)], .rcv (.read (2, 0) 100), .rcv (.read (1, 0) 100)]

-- test: what went on the wire: four DATA chunks (TSN, stream, message), then the FORWARD-TSN naming (stream 2, SSN 0) up to TSN 2^32 − 1
set_option maxRecDepth 1000000 in
example : (run PX (init PX) opsX).wire.map (fun it => match it with
      | .data c => (c.tsn, c.si, c.msg)
      | .fwd f => (fwdCum f, 0#16, 99)) =
    [(4294967294#32, 2#16, 0), (4294967295#32, 2#16, 0), (0#32, 1#16, 1), (1#32, 2#16, 2), (4294967295#32, 0#16, 99)] ∧
    (run PX (init PX) opsX).wire[4]? = some (Item.fwd (.fwd 4294967295#32 [(2, 0)])) := by decide

-- test: the reliable message and the later message of the rexmit-0 stream are delivered, the abandoned one is not; nothing is held
set_option maxRecDepth 1000000 in
example : readsOn PX 1 (init PX) opsX = [(61, [7])] ∧ readsOn PX 2 (init PX) opsX = [(62, [9, 8])] ∧
    (run PX (init PX) opsX).rcv.pq.cum = 1#32 ∧ Receiver.heldRegistered (run PX (init PX) opsX).rcv = 0 := by decide

-- non-vacuity: the run satisfies the hypotheses, the FORWARD-TSN is in the history, the TSN assignment is FIFO
set_option maxRecDepth 1000000 in
private theorem okX : RunOk PX opsX := ⟨by unfold CfgOk; decide, rfl, by decide, by decide, by decide⟩
set_option maxRecDepth 1000000 in
example : Item.fwd (.fwd 4294967295#32 [(2, 0)]) ∈ (run PX (init PX) opsX).wire := by decide
set_option maxRecDepth 1000000 in
example : TsnFifo (moved PX (init PX) opsX) (written (init PX).snd (NetSys.sndOps PX (init PX).snd opsX)) = true := by decide
-- test: the ghost `pushed` — TSN 2^32−1 (the partially received fragment), 0, 1, and the late copy of 2^32−2 is NOT pushed (below the point)
set_option maxRecDepth 1000000 in
example : pushed PX (init PX) opsX = [4294967295#32, 0#32, 1#32] := by decide

/-- the universe of a NetSysPR run: per stream the messages the application wrote on it, cut as `packetize` cuts them, at the
TSN offsets the run assigned (`senderD` of `Proofs/NetSys/UnivD.lean`) -/
def streamOf (P : Params) (ops : List Op) (si : BitVec 16) : Reasm.Sender :=
  NetSys.senderD P (accepted (init P).snd (NetSys.sndOps P (init P).snd ops)) (SenderTsn.moved (init P).snd (NetSys.sndOps P (init P).snd ops)) si

/-- **NetSysPR, ordered DATA — the universe link DERIVED; one stated premise left (`hfw`).** For every run of NetSysPR over
ordered streams of ANY reliability policy (`OrdOnly`: no unordered stream, no reset — `NoReset` included), DATA / FORWARD-TSN
(no interleaving), with `RunOk`, a message-contiguous per-stream FIFO selection (`SelContig`, what C17 proves of the pending
queue), fewer than 2^31 chunks written, no entry limit, fewer than 2^15 messages written on the stream: IF every FORWARD-TSN
the receiver takes satisfies the honest-sender premise in the receiver's vocabulary (`hfw`: `FwdOk` on the receiver
projection, `K` = any labelling) THEN the reads on the stream are `D.map message` for a strictly increasing `D` — a
subsequence of `writesOn P si`, the application's own writes — and every message with `K k = false` all of whose fragments
were handed over has been read or sits complete in the queue. The universe (`streamOf`: the run's writes, `S.msgs.map out =
writesOn`), `GoodChunkS` for every delivered item and the TSN injectivity of moved fragments are now theorems
(`Proofs/NetSys/PRUniv*.lean`, `PRLostGood.lean`). -/
theorem C07_netsys_nothing_lost_fwdok_partial (P : Params) (ops : List Op) (si : BitVec 16) (K : Nat → Bool)
    (hil : P.cfg.useInterleaving = false) (hifw : P.cfg.useIForwardTSN = false) (hme : P.maxEntries = 0)
    (hok : RunOk P ops) (hord : NetSys.OrdOnly ops = true) (hsel : NetSys.SelContig P ops = true)
    (hN : NetSys.chunksWritten P ops < 2^31) (hlen : (writesOn P si (init P) ops).length < 2^15)
    (hfw : Receiver.FwdOk (streamOf P ops si) K (init P).rcv [] (rcvOps P (init P) ops)) :
    (streamOf P ops si).msgs.map Reasm.Msg.out = writesOn P si (init P) ops ∧
    ∃ D : List Nat,
      readsOn P si (init P) ops = D.map (fun k => Reasm.Msg.out ((streamOf P ops si).msg k)) ∧
      D.Pairwise (· < ·) ∧ (∀ k ∈ D, k < (writesOn P si (init P) ops).length) ∧
      (readsOn P si (init P) ops).Sublist (writesOn P si (init P) ops) ∧
      (∀ k, k < (writesOn P si (init P) ops).length → K k = false →
        (∀ i, i < (streamOf P ops si).nf k → ((streamOf P ops si).dataFrag k i).tsn ∈ pushed P (init P) ops) →
        k ∈ D ∨ (streamOf P ops si).concSet (k, List.range ((streamOf P ops si).nf k)) ∈
          (Receiver.qOf (run P (init P) ops).rcv si).ordered) := by
  have hu := NetSys.ufacts P ops hil hord hsel hN
  have hw := univ_writes hu si
  have hl : (streamOf P ops si).msgs.length = (writesOn P si (init P) ops).length := by
    have := congrArg List.length hw
    simp only [List.length_map] at this
    exact this
  obtain ⟨D, d1, d2, d3, d4, d5⟩ := C07_netsys_nothing_lost_partial P ops hme (univOf hu si) rfl (streamOf P ops si)
    (univOf_mem hu si) (by rw [hl]; exact hlen) K (hgood_of_run P ops hifw hok hu si) hfw
  refine ⟨hw, D, d1, d2, fun k hk => by rw [← hl]; exact d3 k hk, by rw [← hw]; exact d4, fun k hk => d5 k (by rw [hl]; exact hk)⟩

/-- ✱ **NetSysPR, ordered DATA: nothing that is not abandoned is lost — premises are decidable RUN predicates only.**
For every run of NetSysPR (sender + history network carrying DATA and FORWARD-TSN with loss, duplication, reordering, late
copies + receiver; arbitrary gap blocks, a_rwnd, RACK marks, T3, burst budgets) such that
* `RunOk`: MTU < 2^30, PR negotiated, SOUND SACKs (`SackSound`), < 2^31 chunks in flight / TSNs assigned;
* `OrdOnly`: every stream ordered, ANY reliability policy, no stream reset (this is `NoReset` plus "no unordered stream");
* DATA / FORWARD-TSN (no interleaving, no I-FORWARD-TSN), no entry limit, < 2^31 chunks written;
* `SelContig` (message-contiguous per-stream FIFO selection: `C17_contiguous`, `C17_fragment_order`) and `FifoU` (the same FIFO
  read off the TSN offsets of the universe: a chunk of the stream with SSN `L` gets its TSN after every fragment of the stream's
  messages below `L`) — `FifoU` is implied by FIFO selection but is taken as a (decidable) premise, not derived from `SelContig`;
* fewer than 2^15 messages written on the stream (D15 in its plain form):
on the stream `si`, with `K k` = "message `k` of the stream is abandoned by the sender at the end of the run" (`KOf`), the reads
are `D.map message` for a STRICTLY INCREASING `D`: a subsequence of `writesOn P si` — the application's own writes, in write
order, each at most once, whole — and every message that is NOT abandoned and all of whose fragments were handed to the
reassembly queue has been read or sits complete in the queue where the next reads find it. Both premises of
`C07_netsys_nothing_lost_partial` are derived: the universe link (`hgood_of_run`) and the honest-sender premise of every
FORWARD-TSN the receiver takes (`fwdok_of_run`, from the composed invariant behind `C07_netsys_skip_is_safe`, `moved_ident`,
`C07_abandonment_monotone`, `pushed_eq`). -/
theorem C07_netsys_nothing_lost (P : Params) (ops : List Op) (si : BitVec 16)
    (hil : P.cfg.useInterleaving = false) (hifw : P.cfg.useIForwardTSN = false) (hme : P.maxEntries = 0)
    (hok : RunOk P ops) (hord : NetSys.OrdOnly ops = true) (hsel : NetSys.SelContig P ops = true)
    (hN : NetSys.chunksWritten P ops < 2^31) (hlen : (writesOn P si (init P) ops).length < 2^15)
    (hfifo : FifoU P ops si = true) :
    (streamOf P ops si).msgs.map Reasm.Msg.out = writesOn P si (init P) ops ∧
    ∃ D : List Nat,
      readsOn P si (init P) ops = D.map (fun k => Reasm.Msg.out ((streamOf P ops si).msg k)) ∧
      D.Pairwise (· < ·) ∧ (∀ k ∈ D, k < (writesOn P si (init P) ops).length) ∧
      (readsOn P si (init P) ops).Sublist (writesOn P si (init P) ops) ∧
      (∀ k, k < (writesOn P si (init P) ops).length → KOf P ops si k = false →
        (∀ i, i < (streamOf P ops si).nf k → ((streamOf P ops si).dataFrag k i).tsn ∈ pushed P (init P) ops) →
        k ∈ D ∨ (streamOf P ops si).concSet (k, List.range ((streamOf P ops si).nf k)) ∈
          (Receiver.qOf (run P (init P) ops).rcv si).ordered) := by
  have hu := NetSys.ufacts P ops hil hord hsel hN
  have hw := univ_writes hu si
  have hl : (streamOf P ops si).msgs.length = (writesOn P si (init P) ops).length := by
    have := congrArg List.length hw
    simp only [List.length_map] at this
    exact this
  exact C07_netsys_nothing_lost_fwdok_partial P ops si (KOf P ops si) hil hifw hme hok hord hsel hN hlen
    (fwdok_of_run P ops hok hu si (by rw [← hl] at hlen; exact hlen) hfifo)

/-- ✱ **`C07_netsys_nothing_lost` with FIFO selection.** The statement of `C07_netsys_nothing_lost` with the two selection
premises `SelContig` and `FifoU` replaced by `SelFifo` — every gather of the run takes the OLDEST pending chunk, every time —,
which is what `messagePendingQueuePolicy` does when only ordered chunks are queued (`C17.C17_ordered_only_fifo`; with partially
reliable ORDERED-only traffic the pending queue still holds ordered chunks only). Both are derived
(`Proofs/NetSys/PRFifo.lean`): `C01_fifo_tsn_order` — written = moved ++ pending as fragment identities, any policy — makes
the moves a prefix of the fragments listed message after message, hence message-contiguous, per-stream FIFO, and every fragment
of an earlier message of the stream sits at a smaller TSN offset. -/
theorem C07_netsys_nothing_lost_fifo (P : Params) (ops : List Op) (si : BitVec 16)
    (hil : P.cfg.useInterleaving = false) (hifw : P.cfg.useIForwardTSN = false) (hme : P.maxEntries = 0)
    (hok : RunOk P ops) (hord : NetSys.OrdOnly ops = true) (hsel : NetSys.SelFifo ops = true)
    (hN : NetSys.chunksWritten P ops < 2^31) (hlen : (writesOn P si (init P) ops).length < 2^15) :
    (streamOf P ops si).msgs.map Reasm.Msg.out = writesOn P si (init P) ops ∧
    ∃ D : List Nat,
      readsOn P si (init P) ops = D.map (fun k => Reasm.Msg.out ((streamOf P ops si).msg k)) ∧
      D.Pairwise (· < ·) ∧ (∀ k ∈ D, k < (writesOn P si (init P) ops).length) ∧
      (readsOn P si (init P) ops).Sublist (writesOn P si (init P) ops) ∧
      (∀ k, k < (writesOn P si (init P) ops).length → KOf P ops si k = false →
        (∀ i, i < (streamOf P ops si).nf k → ((streamOf P ops si).dataFrag k i).tsn ∈ pushed P (init P) ops) →
        k ∈ D ∨ (streamOf P ops si).concSet (k, List.range ((streamOf P ops si).nf k)) ∈
          (Receiver.qOf (run P (init P) ops).rcv si).ordered) :=
  C07_netsys_nothing_lost P ops si hil hifw hme hok hord (NetSys.selFifo_selContig_ord P ops hsel hord) hN hlen
    (NetSys.fifoU_of_selFifo P ops si hil hsel hord hN)

/-! ### non-vacuity of the two theorems above: concrete runs that MEET ALL their hypotheses

The premises `GoodChunkS` / `FwdOk` (incl. `EntOk`) / `hgood` quantify over decompositions of the run; they are exhibited through
their executable forms `goodOpsD` / `fwdOkR` / `goodRunD` (`Proofs/Receiver/PrefixSkipDec.lean`, `Proofs/NetSys/PRLostDec.lean`,
each with a soundness lemma), evaluated by `decide` on the concrete run. -/

-- receive half: stream 3, TSNs from 100: message 0 (TSN 100) ABANDONED, the first of the stream, nothing of it ever arrives;
-- message 1 (101) reliable; message 2 (102, 103) ABANDONED, partially received (second fragment only); message 3 (104, 105) reliable.
private def SN : Reasm.Sender :=
  { si := 3, t0 := 100, msgs := [{ ppi := 60, frags := [[1]] }, { ppi := 61, frags := [[2]] },
                                 { ppi := 62, frags := [[3], [4]] }, { ppi := 63, frags := [[5], [6]] }] }
private def KN : Nat → Bool := fun k => k == 0 || k == 2
private def UN : Receiver.UnivS :=
  { t := 100, N := 10, hN := by decide, senders := [SN],
    wf := by intro S hS; simp at hS; subst hS; unfold Reasm.Sender.WF; decide,
    t0 := by intro S hS; simp at hS; subst hS; rfl,
    idx := by
      intro S hS k i hk hi
      simp at hS; subst hS
      have h : ∀ k, k < SN.msgs.length → ∀ i, i < SN.nf k → SN.base k + i < 10 := by decide
      exact h k hk i hi,
    si := by intro S hS S' hS' _; simp at hS hS'; rw [hS, hS'] }
-- the FORWARD-TSN naming (3, SSN 0) arrives BEFORE any DATA of the stream (the stream does not exist yet); message 1; the second
-- fragment of the abandoned message 2; the last fragment of message 3 with a duplicate; the FORWARD-TSN naming (3, SSN 2) — taken:
-- message 1, the only non-abandoned message at or below it, was handed over before —; both FORWARD-TSNs again (stale); the first
-- fragment of message 3; reads.
private def opsN : List Receiver.Op :=
  [.pkt [.fwd 100 [(3, 0)]], .pkt [.data (SN.dataFrag 1 0) false], .pkt [.data (SN.dataFrag 2 1) false],
   .pkt [.data (SN.dataFrag 3 1) false, .data (SN.dataFrag 3 1) false], .pkt [.fwd 103 [(3, 2)]],
   .pkt [.fwd 103 [(3, 2)], .fwd 100 [(3, 0)]], .pkt [.data (SN.dataFrag 3 0) false],
   .read (3, 0) 100, .read (3, 0) 100, .read (3, 0) 100]
set_option maxRecDepth 1000000 in
private theorem goodN : Receiver.goodOpsD UN SN opsN = true := by decide
set_option maxRecDepth 1000000 in
private theorem fwdN : Receiver.fwdOkR SN KN (Receiver.init 65536 0 false true false 0 UN.t) [] opsN = true := by decide
-- all hypotheses hold (universe membership, < 2^15 messages, maxEntries = 0 is the literal 0, GoodChunkS, FwdOk incl. EntOk) …
example : ∃ D : List Nat,
    Receiver.delivs SN.si (Receiver.init 65536 0 false true false 0 UN.t) opsN = D.map (fun k => Reasm.Msg.out (SN.msg k)) ∧
    D.Pairwise (· < ·) ∧ (∀ k ∈ D, k < SN.msgs.length) ∧
    (Receiver.delivs SN.si (Receiver.init 65536 0 false true false 0 UN.t) opsN).Sublist (SN.msgs.map Reasm.Msg.out) ∧
    (∀ k, k < SN.msgs.length → KN k = false →
      (∀ i, i < SN.nf k → (SN.dataFrag k i).tsn ∈ Receiver.pushedT (Receiver.init 65536 0 false true false 0 UN.t) opsN) →
      k ∈ D ∨ SN.concSet (k, List.range (SN.nf k)) ∈
        (Receiver.qOf (Receiver.run (Receiver.init 65536 0 false true false 0 UN.t) opsN) SN.si).ordered) :=
  C07_receiver_skip_then_deliver UN SN (by simp [UN]) (by decide) KN 65536 false true false 0 opsN
    (Receiver.goodOpsD.sound (by simp [UN]) goodN) (Receiver.fwdOkR.sound _ _ _ fwdN)
-- … and the `D` of the conclusion is [1, 3]: the two reliable messages, whole, in order; the abandoned ones are not delivered; the
-- FORWARD-TSN that came first and the stale copies changed nothing else; what was handed over: TSN 101, 103, 105, 104
set_option maxRecDepth 1000000 in
example : Receiver.delivs SN.si (Receiver.init 65536 0 false true false 0 UN.t) opsN = [1, 3].map (fun k => Reasm.Msg.out (SN.msg k)) ∧
    [1, 3].map (fun k => Reasm.Msg.out (SN.msg k)) = [(61, [2]), (63, [5, 6])] ∧
    Receiver.pushedT (Receiver.init 65536 0 false true false 0 UN.t) opsN = [101#32, 103#32, 105#32, 104#32] := by decide

-- NetSysPR: the run `opsX` above (stream 2 rexmit 0: message 0 = two fragments, TSN 2^32−2, 2^32−1, and message 2, TSN 1, both abandoned;
-- stream 1 reliable: message 1, TSN 0). Universe: the two streams with the fragments `packetize` cut (payload limit 2) at the TSN
-- offsets the run assigned.
private def S2 : Reasm.Sender :=
  { si := 2, t0 := 4294967294#32, msgs := [{ ppi := 60, frags := [[1, 2], [3]] }, { ppi := 62, frags := [[9, 8]] }],
    skip := fun k => if k == 1 then 1 else 0 }
private def S1 : Reasm.Sender :=
  { si := 1, t0 := 4294967294#32, msgs := [{ ppi := 61, frags := [[7]] }], skip := fun _ => 2 }
private def UX : Receiver.UnivS :=
  { t := 4294967294#32, N := 4, hN := by decide, senders := [S2, S1],
    wf := by intro S hS; simp at hS; rcases hS with rfl | rfl <;> (unfold Reasm.Sender.WF; decide),
    t0 := by intro S hS; simp at hS; rcases hS with rfl | rfl <;> rfl,
    idx := by
      intro S hS k i hk hi
      simp at hS
      rcases hS with rfl | rfl
      · have h : ∀ k, k < S2.msgs.length → ∀ i, i < S2.nf k → S2.base k + i < 4 := by decide
        exact h k hk i hi
      · have h : ∀ k, k < S1.msgs.length → ∀ i, i < S1.nf k → S1.base k + i < 4 := by decide
        exact h k hk i hi,
    si := by
      intro S hS S' hS' h
      simp at hS hS'
      rcases hS with rfl | rfl <;> rcases hS' with rfl | rfl
      · rfl
      · exact absurd h (by decide)
      · exact absurd h (by decide)
      · rfl }
set_option maxRecDepth 1000000 in
private theorem goodX2 : goodRunD PX UX S2 (init PX) opsX = true := by decide
set_option maxRecDepth 1000000 in
private theorem goodX1 : goodRunD PX UX S1 (init PX) opsX = true := by decide
set_option maxRecDepth 1000000 in
private theorem fwdX2 : Receiver.fwdOkR S2 (fun _ => true) (init PX).rcv [] (rcvOps PX (init PX) opsX) = true := by decide
set_option maxRecDepth 1000000 in
private theorem fwdX1 : Receiver.fwdOkR S1 (fun _ => false) (init PX).rcv [] (rcvOps PX (init PX) opsX) = true := by decide
-- the rexmit-0 stream 2 (every message abandoned: `K ≡ true`): all premises hold; its reads are a subsequence of its writes
example : ∃ D : List Nat, readsOn PX S2.si (init PX) opsX = D.map (fun k => Reasm.Msg.out (S2.msg k)) ∧ D.Pairwise (· < ·) ∧
    (∀ k ∈ D, k < S2.msgs.length) ∧ (readsOn PX S2.si (init PX) opsX).Sublist (S2.msgs.map Reasm.Msg.out) ∧
    (∀ k, k < S2.msgs.length → (fun _ => true) k = false → (∀ i, i < S2.nf k → (S2.dataFrag k i).tsn ∈ pushed PX (init PX) opsX) →
      k ∈ D ∨ S2.concSet (k, List.range (S2.nf k)) ∈ (Receiver.qOf (run PX (init PX) opsX).rcv S2.si).ordered) :=
  C07_netsys_nothing_lost_partial PX opsX rfl UX rfl S2 (by simp [UX]) (by decide) (fun _ => true)
    (goodRunD.sound (by simp [UX]) opsX (init PX) goodX2) (Receiver.fwdOkR.sound _ _ _ fwdX2)
-- the reliable stream 1 sharing the association (`K ≡ false`): all premises hold; its message was handed over, hence read or kept
example : ∃ D : List Nat, readsOn PX S1.si (init PX) opsX = D.map (fun k => Reasm.Msg.out (S1.msg k)) ∧ D.Pairwise (· < ·) ∧
    (∀ k ∈ D, k < S1.msgs.length) ∧ (readsOn PX S1.si (init PX) opsX).Sublist (S1.msgs.map Reasm.Msg.out) ∧
    (∀ k, k < S1.msgs.length → (fun _ => false) k = false → (∀ i, i < S1.nf k → (S1.dataFrag k i).tsn ∈ pushed PX (init PX) opsX) →
      k ∈ D ∨ S1.concSet (k, List.range (S1.nf k)) ∈ (Receiver.qOf (run PX (init PX) opsX).rcv S1.si).ordered) :=
  C07_netsys_nothing_lost_partial PX opsX rfl UX rfl S1 (by simp [UX]) (by decide) (fun _ => false)
    (goodRunD.sound (by simp [UX]) opsX (init PX) goodX1) (Receiver.fwdOkR.sound _ _ _ fwdX1)
-- the universe describes the run: its message lists ARE the writes, and the `D`s are [1] (stream 2: the later message; the
-- abandoned first one is skipped) and [0] (stream 1)
set_option maxRecDepth 1000000 in
example : S2.msgs.map Reasm.Msg.out = writesOn PX 2 (init PX) opsX ∧ S1.msgs.map Reasm.Msg.out = writesOn PX 1 (init PX) opsX ∧
    readsOn PX 2 (init PX) opsX = [1].map (fun k => Reasm.Msg.out (S2.msg k)) ∧
    readsOn PX 1 (init PX) opsX = [0].map (fun k => Reasm.Msg.out (S1.msg k)) := by decide

-- `C07_netsys_nothing_lost` on the run `opsX`: every premise is a decidable predicate of the run and holds
set_option maxRecDepth 1000000 in
private theorem ordX : NetSys.OrdOnly opsX = true ∧ NetSys.SelContig PX opsX = true ∧ NetSys.chunksWritten PX opsX < 2^31 ∧
    (writesOn PX 2 (init PX) opsX).length < 2^15 ∧ (writesOn PX 1 (init PX) opsX).length < 2^15 ∧
    FifoU PX opsX 2 = true ∧ FifoU PX opsX 1 = true := by decide
-- stream 2 (rexmit 0; both messages end up abandoned) and the reliable stream 1 (not abandoned: `KOf … 0 = false`)
set_option maxRecDepth 1000000 in
example : KOf PX opsX 2 0 = true ∧ KOf PX opsX 2 1 = true ∧ KOf PX opsX 1 0 = false := by decide
example := C07_netsys_nothing_lost PX opsX 2 rfl rfl rfl okX ordX.1 ordX.2.1 ordX.2.2.1 ordX.2.2.2.1 ordX.2.2.2.2.2.1
example := C07_netsys_nothing_lost PX opsX 1 rfl rfl rfl okX ordX.1 ordX.2.1 ordX.2.2.1 ordX.2.2.2.2.1 ordX.2.2.2.2.2.2

-- `C07_netsys_nothing_lost_fifo` on `opsX`: its gathers select the oldest pending chunk (`SelFifo`), all other premises as above
example : NetSys.SelFifo opsX = true := by decide
example := C07_netsys_nothing_lost_fifo PX opsX 2 rfl rfl rfl okX ordX.1 (by decide) ordX.2.2.1 ordX.2.2.2.1
example := C07_netsys_nothing_lost_fifo PX opsX 1 rfl rfl rfl okX ordX.1 (by decide) ordX.2.2.1 ordX.2.2.2.2.1

-- test (receive half alone, by evaluation): stream 3, message 0 (one fragment) abandoned and never delivered, message 1 (two
-- fragments) reliable. The FORWARD-TSN naming (3, SSN 0) arrives FIRST (the stream does not exist yet), then the fragments
-- of message 1 in reverse order with a duplicate, then a stale copy of the FORWARD-TSN: message 1 is read, whole, once.
private def SR : Reasm.Sender := { si := 3, t0 := 100, msgs := [{ ppi := 60, frags := [[1]] }, { ppi := 61, frags := [[2], [3]] }] }
private def opsR : List Receiver.Op :=
  [.pkt [.fwd 100 [(3, 0)]], .pkt [.data (SR.dataFrag 1 1) false, .data (SR.dataFrag 1 1) false], .read (3, 0) 100,
   .pkt [.data (SR.dataFrag 1 0) false, .fwd 100 [(3, 0)]], .read (3, 0) 100, .read (3, 0) 100]
set_option maxRecDepth 1000000 in
example : Receiver.delivs 3 (Receiver.init 65536 0 false true false 0 100) opsR = [(61, [2, 3])] ∧
    Receiver.pushedT (Receiver.init 65536 0 false true false 0 100) opsR = [102#32, 101#32] := by decide

/-- **Soundness of the SACKs is necessary.** Same workload; nothing of the first gather reaches the receiver, yet a SACK
acknowledges TSN 0 cumulatively (NOT sound: the receiver's point is 2^32 − 3). The sender pops message 0 and the RELIABLE message 1,
advances over the abandoned message 2 and emits FORWARD-TSN(1, [(2, 1)]); the receiver takes it and its cumulative point passes
TSN 0 — the reliable message 1, which it never received; the late copy is dropped as a duplicate. -/
private def opsU : List Op :=
  [.snd (.openS 1 false 0 0 0), .snd (.openS 2 false 1 0 0), .write 2 60, .write 1 61, .write 2 62,
   .snd (.gather Sender.freeOracle [0, 0, 0, 0]),
   .snd (.sack 0#32 65536 [] []),
   .snd (.gather Sender.freeOracle []),
   .deliver [(4, false)], .deliver [(2, false)], .rcv (.read (1, 0) 100)]

set_option maxRecDepth 1000000 in
theorem C07_netsys_unsound_sack_witness :
    SackSound PX (init PX) opsU = false ∧
    Item.fwd (.fwd 1#32 [(2, 1)]) ∈ (run PX (init PX) opsU).wire ∧
    (run PX (init PX) opsU).rcv.pq.cum = 1#32 ∧
    -- the reliable message 1 (TSN 0) is not abandoned, was never handed over, and is never delivered
    ((moved PX (init PX) opsU).filter (fun m => m.tsn == 0#32)).map (fun m => (m.si, (run PX (init PX) opsU).snd.abandoned m)) = [(1#16, false)] ∧
    pushed PX (init PX) opsU = [] ∧ readsOn PX 1 (init PX) opsU = [] := by decide

end C07
