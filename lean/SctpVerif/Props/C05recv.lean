import SctpVerif.Proofs.Receiver.Sack
import SctpVerif.Props.C05
/-!
# C05 at association level — the SACKs the association builds tell the truth

Property theorems only. They are about the L0 model `Model/Receiver.lean` of the receive half of the
association (tied to association.go / stream.go by the correspondence run `TestVerifAssocReceiver`, which
replays every operation through the model and evaluates the ghost-set predicate S1–S4 on every SACK the
real association emits). The model COMPOSES the proved queue model `RecvQ`; the theorems below lift
`C05_sound`, `C05_complete` and `C05_monotone` to the SACK chunk built by `createSelectiveAckChunk`.

Vocabulary: `Receiver.Op` is the association's input alphabet (`pkt` = one inbound packet with any list of
DATA / I-DATA / FORWARD-TSN / I-FORWARD-TSN / HEARTBEAT / RE-CONFIG-reset chunks, `read`, `accept`, `open`,
`gather`, `tick`, `setState`); `Receiver.init` is the association after the handshake. `runTrace s ops` is
the list of association-level queue operations (`data t store`, `fwd c`, `sack`) the run performs on
`payloadQueue`; `RecvQ.run (RecvQ.start m c) …` instruments them with the ghost history `h`
(`acc k` / `skp k`: TSN `c0 + k` was accepted by `push` / explicitly skipped by the peer; `A`: how far the
cumulative point moved).
-/
namespace C05
open Gen RecvQ Receiver

/-- ✱ every SACK `gather` emits, after ANY op list, carries exactly the state of the receive queue, and that
state is the state of a ghost-instrumented run of association-level queue operations from
`newReceivePayloadQueue(getMaxTSNOffset(buf)); init(peerInitialTSN−1)`: so (S1) the cumulative TSN ack is
`c0 + A` and covers only accepted or skipped TSNs, (S2) every gap block names only accepted TSNs, and the
blocks are well-formed, sorted, disjoint and non-adjacent. -/
theorem C05_assoc_sack_sound (maxBuf maxEntries : BitVec 32) (il f g : Bool) (am : Int) (t : BitVec 32)
    (ops : List Receiver.Op) :
    let s0 := Receiver.init maxBuf maxEntries il f g am t
    let s := Receiver.run s0 ops
    let R := RecvQ.run (RecvQ.start (getMaxTSNOffset maxBuf) (t - 1)) (runTrace s0 ops)
    s.pq = R.q ∧
    (∀ cum arw gaps dups, Out.sack cum arw gaps dups ∈ (Receiver.gather s).2.1 →
      cum = R.q.cum ∧ gaps = RecvQ.gaps R.q ∧ dups = R.q.dups ∧
      cum = R.h.c0 + BitVec.ofNat 32 R.h.A ∧
      (∀ k, 1 ≤ k → k ≤ R.h.A → R.h.acc k ∨ R.h.skp k) ∧
      (∀ b ∈ gaps, 1 ≤ b.1.toNat ∧ b.1.toNat ≤ b.2.toNat ∧ ∀ j, b.1.toNat ≤ j → j ≤ b.2.toNat → R.h.acc (R.h.A + j)) ∧
      gaps.Pairwise (fun a b => a.2.toNat + 1 < b.1.toNat)) := by
  intro s0 s R
  have hpq : s.pq = R.q := by
    show (Receiver.run s0 ops).pq = _
    rw [run_pq, qrun_eq _ (RecvQ.start (getMaxTSNOffset maxBuf) (t - 1)).h]
    rfl
  refine ⟨hpq, ?_⟩
  intro cum arw gaps dups hmem
  obtain ⟨h1, h2, _, _, h5⟩ := C05_sound (getMaxTSNOffset maxBuf) (t - 1) (runTrace s0 ops) R rfl
  obtain ⟨_, hw⟩ := C05_assoc_window maxBuf
  obtain ⟨_, h6, h7⟩ := h5 hw
  have hs : cum = s.pq.cum ∧ gaps = RecvQ.gaps s.pq ∧ dups = s.pq.dups := by
    unfold Receiver.gather at hmem
    dsimp only at hmem
    split at hmem
    · simp at hmem
    · split at hmem
      · simp only [createSack, List.mem_append, List.mem_map, List.mem_singleton] at hmem
        rcases hmem with ⟨_, _, hm⟩ | hm
        · cases hm
        · cases hm; exact ⟨rfl, rfl, rfl⟩
      · simp only [List.mem_map] at hmem
        obtain ⟨_, _, hm⟩ := hmem
        cases hm
  obtain ⟨rfl, rfl, rfl⟩ := hs
  rw [hpq]
  exact ⟨rfl, rfl, rfl, h1, h2, h6, h7⟩

/-- ✱ completeness (S4) for the association's SACK: every TSN accepted so far is at or below the cumulative
TSN ack or lies inside one of the SACK's gap blocks, and the blocks are maximal. -/
theorem C05_assoc_sack_complete (maxBuf maxEntries : BitVec 32) (il f g : Bool) (am : Int) (t : BitVec 32)
    (ops : List Receiver.Op) :
    let s0 := Receiver.init maxBuf maxEntries il f g am t
    let s := Receiver.run s0 ops
    let R := RecvQ.run (RecvQ.start (getMaxTSNOffset maxBuf) (t - 1)) (runTrace s0 ops)
    ∀ cum arw gaps dups, Out.sack cum arw gaps dups ∈ (Receiver.gather s).2.1 →
      (∀ k, R.h.acc k → k ≤ R.h.A ∨ ∃ b ∈ gaps, b.1.toNat ≤ k - R.h.A ∧ k - R.h.A ≤ b.2.toNat) ∧
      (∀ b ∈ gaps, (2 ≤ b.1.toNat → ¬ R.h.acc (R.h.A + (b.1.toNat - 1))) ∧ ¬ R.h.acc (R.h.A + (b.2.toNat + 1))) := by
  intro s0 s R cum arw gaps dups hmem
  obtain ⟨_, hs⟩ := C05_assoc_sack_sound maxBuf maxEntries il f g am t ops
  obtain ⟨_, hg, _⟩ := hs cum arw gaps dups hmem
  obtain ⟨_, _, h3⟩ := C05_complete (getMaxTSNOffset maxBuf) (t - 1) (runTrace s0 ops) R rfl
  obtain ⟨_, hw⟩ := C05_assoc_window maxBuf
  rw [hg]
  exact h3 hw

/-- ✱ (S3) no inbound chunk moves the cumulative point backwards: for every reachable association state and
every chunk (handed over in a packet of its own), the cumulative TSN afterwards is serially at or after the
one before, never before it. Chunks other than DATA / FORWARD-TSN do not move it at all. (Per chunk, not per
packet: serial-number order is not transitive across jumps that add up to 2^31 or more.) -/
theorem C05_assoc_cum_monotone (maxBuf maxEntries : BitVec 32) (il f g : Bool) (am : Int) (t : BitVec 32)
    (ops : List Receiver.Op) (ch : InChunk) :
    let s0 := Receiver.init maxBuf maxEntries il f g am t
    let s := Receiver.run s0 ops
    let s' := Receiver.step s (.pkt [ch])
    sna32LTE s.pq.cum s'.pq.cum = true ∧ sna32LT s'.pq.cum s.pq.cum = false := by
  intro s0 s s'
  have hrun : s' = Receiver.run s0 (ops ++ [.pkt [ch]]) := by
    show _ = Receiver.run s0 _
    rw [Receiver.run_append]; rfl
  have htr : runTrace s0 (ops ++ [.pkt [ch]]) = runTrace s0 ops ++ chunkTrace (chunksStart s) ch := by
    rw [runTrace_append]
    simp only [runTrace, opTrace, chunksTrace, List.append_nil]
    rfl
  have hq : ∀ ops', (Receiver.run s0 ops').pq = (RecvQ.run (RecvQ.start (getMaxTSNOffset maxBuf) (t - 1)) (runTrace s0 ops')).q :=
    fun ops' => (C05_assoc_sack_sound maxBuf maxEntries il f g am t ops').1
  rcases chunkTrace_short (chunksStart s) ch with he | ⟨op, he, hno⟩
  · have : s'.pq = s.pq := by
      rw [hrun, hq, htr, he, List.append_nil, ← hq]
    rw [this]
    exact ⟨by simp [sna32LTE], by simp [sna32LT]⟩
  · have hop : ∀ c', op ≠ .init c' := by
      intro c' hc; rw [hc] at hno; exact hno
    obtain ⟨_, hw⟩ := C05_assoc_window maxBuf
    have hm := C05_monotone (getMaxTSNOffset maxBuf) (t - 1) (runTrace s0 ops) op hop _ _ rfl rfl
    obtain ⟨_, _, _, _, _, _, h7⟩ := hm
    obtain ⟨_, h8, h9⟩ := h7 (by omega)
    have e1 : s.pq = (RecvQ.run (RecvQ.start (getMaxTSNOffset maxBuf) (t - 1)) (runTrace s0 ops)).q := hq ops
    have e2 : s'.pq = (RecvQ.run (RecvQ.start (getMaxTSNOffset maxBuf) (t - 1)) (runTrace s0 ops ++ [op])).q := by
      rw [hrun, hq, htr, he]
    rw [e1, e2]
    exact ⟨h8, h9⟩

-- non-vacuity (tests, by evaluation): an association whose peer starts at TSN 2^32−2; DATA 2^32−2, then a gap
-- (TSN 1 before TSN 2^32−1 and 0), then `gather`: one SACK with cumulative TSN 2^32−2 and the block 3-3.
private def c0 (t : Nat) : Reasm.Chunk :=
  { tsn := BitVec.ofNat 32 t, si := 1, ssn := 0, bf := true, ef := true, ppi := 51, userData := [7] }
private def ops0 : List Receiver.Op := [.data (c0 4294967294), .data (c0 1)]
set_option maxRecDepth 100000 in
example : (Receiver.gather (Receiver.run (Receiver.init 65536 0 false true false 0 4294967294#32) ops0)).2.1
    = [.sack 4294967294#32 65534#32 [(3#16, 3#16)] []] := by decide

end C05
