import SctpVerif.Proofs.Reasm
/-!
# C11 — receive-window accounting is exact and inbound memory is bounded (reassembly-queue part)

Property theorems only; all are about the L0 model `Model/Reasm.lean` of `reassemblyQueue`
(tied to reassembly_queue.go by the correspondence run `TestVerifReasm`, which also compares the
real `getNumBytes()` with a white-box walk of the real containers after every operation).

`Reasm.Op` is the whole mutation alphabet of the component: `push` of an ARBITRARY chunk (any
kind DATA/I-DATA, flags, stream id, TSN/SSN/MID/FSN, payload), `read` with any buffer size, and the
four forward handlers with any argument. `Q.run` folds them from `newReassemblyQueue`.
`Q.heldBytes` is `Σ len(userData)` over every chunk in `ordered`, `unordered`, `unorderedChunks`,
`orderedMID` (= `orderedMIDMap`), `unorderedMID` and `unorderedMIDMap`.
-/
namespace C11
open Reasm

/-- ✱ (a) The per-stream counter is exact: after ANY sequence of operations `nBytes` equals the
user bytes actually held in the containers. Hypothesis: fewer than 2^63 user bytes were ever pushed
(`nBytes` is a `uint64` that `subtractNumBytes` reads through `int(...)`; the sum of `len` of
in-memory slices cannot reach 2^63). -/
theorem C11_counter_exact (si : BitVec 16) (maxEntries : BitVec 32) (ops : List Op)
    (h : pushedBytes ops < 2^63) :
    (((new si maxEntries).run ops).nBytes.toNat = ((new si maxEntries).run ops).heldBytes) ∧
    ((new si maxEntries).run ops).getNumBytes = (((new si maxEntries).run ops).heldBytes : Int) := by
  have hinv := CInv_run (CInv_new si maxEntries) ops (by omega)
  obtain ⟨h1, h2⟩ := hinv
  refine ⟨h1, ?_⟩
  unfold Q.getNumBytes
  rw [BitVec.toInt_eq_toNat_cond, if_pos (by omega), h1]

/-- the clamp in `subtractNumBytes` is dead code under the invariant: whenever the counter is the
truth (and below 2^63), subtracting the bytes of chunks that are held — which is all any call site
does — takes the exact branch. -/
theorem C11_clamp_never_fires (cur : BitVec 64) (n : Nat) (hle : n ≤ cur.toNat) (hlt : cur.toNat < 2^63) :
    (subBytes cur (n : Int)).toNat = cur.toNat - n := subBytes_exact cur n hle hlt

/-- every operation keeps the invariant "counter = held bytes ≤ B" (the inductive step of
`C11_counter_exact`, for an arbitrary state — not only states reachable from `new`). -/
theorem C11_counter_step (q : Q) (B : Nat) (op : Op) (hinv : q.nBytes.toNat = q.heldBytes ∧ q.heldBytes ≤ B)
    (hB : B + op.bytes < 2^63) :
    (q.step op).nBytes.toNat = (q.step op).heldBytes ∧ (q.step op).heldBytes ≤ B + op.bytes :=
  CInv_step hinv op hB

/-- ✱ With an entry limit `maxEntries > 0`, after ANY sequence of operations: queued ordered DATA
chunks, queued unordered DATA chunks (fragments + completed sets), ordered I-DATA MIDs and unordered
I-DATA MIDs each stay within `maxEntries`. (The code limits MIDs, not fragments per MID.) -/
theorem C11_entry_limit (si : BitVec 16) (maxEntries : BitVec 32) (hpos : maxEntries > 0#32) (ops : List Op) :
    let q := (new si maxEntries).run ops
    q.orderedDataEntryCount ≤ maxEntries.toNat ∧ q.unorderedDataEntryCount ≤ maxEntries.toNat ∧
    q.orderedMID.length ≤ maxEntries.toNat ∧ q.unorderedMIDEntryCount ≤ maxEntries.toNat := by
  have h := LInv_run (q := new si maxEntries) hpos (LInv_new si maxEntries) ops
  simpa [LInv, run_maxEntries, new] using h

/-- the limit is checked BEFORE insertion: a push can only grow one of the limited counts if that
count was below the limit, and then by exactly one. -/
theorem C11_limit_checked_before_insert (q : Q) (c : Chunk) (hpos : q.maxEntries > 0#32) :
    let q' := (q.pushWithError c).1
    (q'.orderedDataEntryCount = q.orderedDataEntryCount ∨
      (q'.orderedDataEntryCount = q.orderedDataEntryCount + 1 ∧ q.orderedDataEntryCount < q.maxEntries.toNat)) ∧
    (q'.unorderedDataEntryCount = q.unorderedDataEntryCount ∨
      (q'.unorderedDataEntryCount = q.unorderedDataEntryCount + 1 ∧ q.unorderedDataEntryCount < q.maxEntries.toNat)) ∧
    (q'.orderedMID.length = q.orderedMID.length ∨
      (q'.orderedMID.length = q.orderedMID.length + 1 ∧ q.orderedMID.length < q.maxEntries.toNat)) ∧
    (q'.unorderedMIDEntryCount = q.unorderedMIDEntryCount ∨
      (q'.unorderedMIDEntryCount = q.unorderedMIDEntryCount + 1 ∧ q.unorderedMIDEntryCount < q.maxEntries.toNat)) := by
  have e := pushWithError_effect q c
  refine ⟨?_, ?_, ?_, ?_⟩
  · rcases e.oe with h | ⟨h, l⟩
    · exact .inl h
    · exact .inr ⟨h, lt_of_limit_false hpos l⟩
  · rcases e.ue with h | ⟨h, l⟩
    · exact .inl h
    · exact .inr ⟨h, lt_of_limit_false hpos l⟩
  · rcases e.om with h | ⟨h, l⟩
    · exact .inl h
    · exact .inr ⟨h, lt_of_limit_false hpos l⟩
  · rcases e.um with h | ⟨h, l⟩
    · exact .inl h
    · exact .inr ⟨h, lt_of_limit_false hpos l⟩

/-- a push that reports one of the two limit errors has changed neither a container nor the counter
(rejected chunks are not counted). -/
theorem C11_limit_error_rejects (q : Q) (c : Chunk)
    (he : (q.pushWithError c).2.2 = .dataLimit ∨ (q.pushWithError c).2.2 = .midLimit) :
    (q.pushWithError c).1 = { q with useInterleaving := q.useInterleaving || c.iData } :=
  limit_error_no_change q c he

/-- the limit error IS reported: an unordered DATA chunk for this stream arriving when the unordered
count is at the limit is rejected with `errReassemblyQueueLimitExceeded`. -/
theorem C11_limit_reported_unordered (q : Q) (c : Chunk) (hpos : q.maxEntries > 0#32)
    (hd : c.iData = false) (hsi : c.si = q.si) (hu : c.unordered = true)
    (hfull : q.maxEntries.toNat ≤ q.unorderedDataEntryCount) :
    q.pushWithError c = (q, false, .dataLimit) := by
  have h1 : (q.hasDataLimit && q.isDataLimitReached q.unorderedDataEntryCount) = true := by
    simp only [Q.hasDataLimit, Q.isDataLimitReached, Gen.isReassemblyQueueLimitReached, Bool.and_eq_true,
      decide_eq_true_eq]
    exact ⟨hpos, hpos, by omega⟩
  unfold Q.pushWithError
  simp [hd, hsi, hu, h1]

-- non-vacuity / sanity (tests, by evaluation): a 3-fragment message pushed out of order, read, and a
-- forward purge keep the counter at the truth.
private def f (t : Nat) (b e : Bool) : Chunk :=
  { tsn := BitVec.ofNat 32 t, si := 1, ssn := 0, bf := b, ef := e, ppi := 51, userData := [1, 2, 3] }
example : ((new 1 0).run [.push (f 12 false true), .push (f 10 true false)]).nBytes.toNat = 6 := by decide
example : ((new 1 0).run [.push (f 12 false true), .push (f 10 true false), .fwdO 0]).heldBytes = 0 := by decide
example : ((new 1 2).run [.push (f 10 true false), .push (f 11 false false), .push (f 12 false true)]).orderedDataEntryCount = 2 := by
  decide

end C11
