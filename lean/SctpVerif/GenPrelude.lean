/-!
Hand-written helpers the generated `Gen/Funcs.lean` refers to: Go builtins and the two
`math/bits` functions the listed functions call. Core-only.
-/
namespace Gen

/-- Go builtin `min` / `math.Min` on NaN-free values. -/
def gmin {α : Type} [LE α] [DecidableLE α] (a b : α) : α := if a ≤ b then a else b
/-- Go builtin `max` / `math.Max` on NaN-free values. -/
def gmax {α : Type} [LE α] [DecidableLE α] (a b : α) : α := if a ≤ b then b else a
/-- `math.Abs`. -/
def gabs {α : Type} [LT α] [DecidableLT α] [Neg α] [OfNat α 0] (a : α) : α := if a < 0 then -a else a

/-! `float64` instances: Go's `math.Min/Max/Abs` exactly, including their documented special
cases (±Inf before NaN, NaN propagates, `Min(-0,+0) = -0`, `Max(-0,+0) = +0`, `Abs(-0) = +0`). -/
def fNaN : Float := 0.0 / 0.0
def fSignbit (x : Float) : Bool := x.toBits >>> 63 == 1
def gminF (x y : Float) : Float :=
  if (x.isInf && x < 0) || (y.isInf && y < 0) then -(1.0 / 0.0)
  else if x.isNaN || y.isNaN then fNaN
  else if x == 0 && x == y then (if fSignbit x then x else y)
  else if x < y then x else y
def gmaxF (x y : Float) : Float :=
  if (x.isInf && x > 0) || (y.isInf && y > 0) then 1.0 / 0.0
  else if x.isNaN || y.isNaN then fNaN
  else if x == 0 && x == y then (if fSignbit x then y else x)
  else if x > y then x else y
def gabsF (x : Float) : Float := x.abs

/-- `bits.TrailingZeros64`: index of the lowest set bit, 64 for 0 (bit-by-bit scan). -/
def tz64Aux (v : BitVec 64) : Nat → Nat → Nat
  | 0, i => i
  | fuel+1, i => if v.getLsbD i then i else tz64Aux v fuel (i+1)
def tz64 (v : BitVec 64) : Int := (tz64Aux v 64 0 : Nat)

/-- `bits.OnesCount64`. -/
def popcount64 (v : BitVec 64) : Int :=
  ((List.range 64).foldl (fun n i => if v.getLsbD i then n+1 else n) 0 : Nat)

/-- `bits.Len32`: minimum number of bits needed to represent `v`; 0 for 0. -/
def len32 (v : BitVec 32) : Int := (Nat.log2 v.toNat + (if v.toNat = 0 then 0 else 1) : Nat)

/-! `time` package (expression sites only, see go/extract/exprs.go): `time.Duration(f)` for a float64 `f` truncates
toward zero (Go leaves the result unspecified outside the int64 range; `Float.toInt64` saturates there and maps NaN to 0);
`Duration.Seconds()` is `float64(d / Second) + float64(d % Second) / 1e9`. -/
def truncR (x : Rat) : Int := Int.tdiv x.num x.den
def truncF (x : Float) : Int := x.toInt64.toInt
def durSeconds (d : Int) : Rat := (Int.tdiv d 1000000000 : Rat) + (Int.tmod d 1000000000 : Rat) / 1000000000
def durSecondsF (d : Int) : Float := Float.ofInt (Int.tdiv d 1000000000) + Float.ofInt (Int.tmod d 1000000000) / 1000000000.0

end Gen
