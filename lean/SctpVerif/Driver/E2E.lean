import SctpVerif.Spec.E2ESpec
import SctpVerif.Gen.Consts
import SctpVerif.Driver.Util
/-! line protocol for the `e2e …` logs: only predicates (no L0 model result) -/
namespace Drv.E2E
open Drv E2ESpec History

abbrev St := E2ESpec.Sc

def ackBoundUs : Nat := 200000 + 1000

/-- returns (state, violations) -/
def step (st : St) (op impl : List String) : St × List String :=
  match op with
  | "new" :: mode :: _seed :: _idx :: rest =>
    let kv := kvs rest
    -- `<mode>-native`: the same program run outside the bubble for the race detector
    let mode := (mode.splitOn "-native").head!
    ({ active := true, mode := mode, hdr := kv, streams := parseStreams (get kv "streams"), readers := max 1 (getN kv "readers") }, [])
  | ["connect", side] =>
    match impl with
    | r :: _ =>
      if r == "nil" then ({ st with connected := st.connected + 1 }, [])
      else ({ st with connFail := true },
        -- in handshake mode the fault pattern (≤ 3 faults on the first 8 packets) always leaves the retransmissions a chance
        if st.mode == "handshake" then [s!"[C04] side {side} did not reach established ({r}) although every handshake packet had a chance to arrive within the retry budget"] else [])
    | _ => (st, [])
  | ["connectsilent", side] =>
    let inits := st.pkts.fold (fun n (k : Nat × Nat) v => if k.1 == nat side && v.contains "INIT" then n + 1 else n) 0
    match impl with
    | [r, t] =>
      (st, (if r == "nil" || r == "timeout" || nat t > 300000 then
              [s!"[C04,C19] connect against a silent peer returned {r} after {t} ms instead of failing in bounded time"] else []) ++
           (if inits != Gen.maxInitRetrans + 1 then
              [s!"[C19,C04] INIT was transmitted {inits} times against a silent peer; the retry budget is 1 + {Gen.maxInitRetrans}"] else []))
    | _ => (st, [])
  | ["serverwait", side] =>
    match impl with
    | [r, t] => (st, if r == "nil" || r == "timeout" || nat t > 1000 then
        [s!"[C04,C09] server-side call on side {side} returned {r} {t} ms after its transport was closed"] else [])
    | _ => (st, [])
  | ["open", dir, si, u, rt, rv] =>
    let sp : StreamSpec := { id := nat si, unordered := u == "1", relType := nat rt, relVal := nat rv, dir := nat dir }
    if impl == ["nil"] && !(st.streams.any fun x => x.id == sp.id && x.dir == sp.dir) then ({ st with streams := st.streams ++ [sp] }, []) else (st, [])
  | ["rerr", side, si] =>
    let v := match st.aborter with
      | some x =>
        -- a stream the aborting side had already closed ends with EOF, as usual
        -- (a Close() racing with the Abort() on the same side may win: then no ABORT is sent; and an Abort() called on an
        -- association whose own Shutdown() had already completed finds it closed: nothing is sent either)
        if nat side == 1 - x && impl.head? != some "short" && impl.head? != some "deadline" && !st.abortLost && !st.closeCalled.contains x && !st.shutdownOk.contains (nat side) && !st.shutdownOk.contains x && !st.closes.contains (x, nat si) && !((" ".intercalate impl).splitOn "verif-abort-reason").length ≥ 2 then
          [s!"[C09] side {side} stream {si}: read failed with `{" ".intercalate impl}` after the peer's Abort; the error does not carry the abort cause"]
        else []
      | none => []
    (if impl == ["EOF"] then { st with eofs := (nat side, nat si) :: st.eofs } else st, v)
  | ["inject", kind, _side, _at] => ({ st with injected := kind }, [])
  | ["abortcall", side] => ({ st with aborter := some (nat side) }, [])
  | ["idleread", side, si] =>
    -- a reader that was idle (deadline armed, no Read blocked) during the teardown, came back after the deadline had
    -- expired, set a new deadline and read: it must get the stream's TERMINAL error at once
    match impl with
    | r :: t :: _ =>
      (st, (if r == "read-deadline-exceeded" then [s!"[C09] side {side} stream {si}: after the teardown a read keeps failing with the read-deadline error: the terminal (close / abort) error of the stream was replaced by a late deadline expiry"] else []) ++
           (if nat t > 6000 then [s!"[C09] side {side} stream {si}: a read issued after the teardown returned only after {t} ms"] else []))
    | _ => (st, [])
  | ["idleunblocked"] => (st, [s!"[C09] a read issued after the teardown (new deadline set after an old one expired) never returned: the terminal error of the stream is gone"])
  | ["readerspin", side, si] =>
    (st, [s!"[C18,C09] side {side} stream {si}: more than 5000 consecutive read-deadline errors on a stream that will never get data or an error ({" ".intercalate impl})"])
  | ["closecall", side] => ({ st with closeCalled := nat side :: st.closeCalled }, [])
  | ["stormopen", dir, si] => (st, [s!"[C20] OpenStream({si}) on side {dir} returned a different object while the stream was still open"])
  | ["unblocked"] =>
    match impl with
    | r :: t :: _ => (st, if r != "true" then [s!"[{if st.mode == "storm" then "C20," else ""}C09] API callers are still blocked {t} ms after {st.injected} was injected"] else [])
    | _ => (st, [])
  | ["reclose", side] =>
    (st, if impl.any (fun e => e.startsWith "PANIC") then [s!"[C09] repeated Close on side {side}: {" ".intercalate impl}"] else [])
  | ["close", dir, si] =>
    ({ st with closes := (nat dir, nat si) :: st.closes, closeAt := st.closeAt ++ [(nat dir, nat si, st.writes.size)] }, if impl != ["nil"] && st.mode == "reset" then [s!"[C14] Close of stream {si} on side {dir} returned {" ".intercalate impl}"] else [])
  | ["resetdone", c] =>
    match impl with
    | r :: t :: _ => (st, if r != "true" then [s!"[C14] cycle {c}: {t} ms after start the closed streams are still registered: the reset handshake never completed in both directions"] else [])
    | _ => (st, [])
  | ["meta", side] => ({ st with metas := st.metas ++ [(nat side, kvs impl)] }, [])
  | ["w", dir, si, _seq, ppi, len, hash] =>
    let (n, e, after) := match impl with
      | n :: e :: a :: _ => (n, e, nat a)
      | [n, e] => (n, e, 0)
      | _ => ("?", "?", 0)
    let ok := n == len && e == "nil"
    let bad := (e == "nil" && n != len) || (e != "nil" && n != "0")
    let gate := getB st.hdr "block" && ok && after > nat len
    ({ st with writes := st.writes.push (nat dir, nat si, { ppi := nat ppi, len := nat len, hash := nat hash }, ok) },
      (if bad then [s!"[C18] write of {len} bytes returned ({n}, {e})"] else []) ++
      (if gate then [s!"[C18] blocking write of {len} bytes returned while {after} bytes (more than its own) were still waiting in the pending queue"] else []))
  | ["wbad", kind, dir, si, len, hash] =>
    let v := match impl with
      | [n, e] =>
        if n != "0" then [s!"[C18] {kind} write on side {dir} stream {si} reported {n} bytes written"]
        else if kind != "empty" && e == "nil" then [s!"[C18] {kind} write on side {dir} stream {si} was not rejected"]
        else []
      | _ => []
    ({ st with lateHashes := if kind == "closedstream" then nat hash :: st.lateHashes else st.lateHashes,
               badLens := if kind == "closedstream" then nat len :: st.badLens else st.badLens }, v)
  | ["r", side, si, ppi, len, hash] =>
    ({ st with reads := st.reads.push (nat side, nat si, { ppi := nat ppi, len := nat len, hash := nat hash }) }, [])
  | ["tx", from_, idx, t, len, fate] =>
    let f := nat from_
    -- the ABORT must beat the transport close (100 ms later) for the peer to see the cause: only required when it was delivered at once
    let st := if fate != "pass" && impl.contains "ABORT" then { st with abortLost := true } else st
    let st := if impl.contains "SHUTDOWNCOMPLETE" then { st with sdDone := f :: st.sdDone } else st
    let st := noteTx { st with pkts := st.pkts.insert (f, nat idx) impl } f impl
    let v := (checkTx st f (nat len) impl).toList
    -- a SACK from this side acknowledges whatever it was waiting to acknowledge
    if impl.any (·.startsWith "SACK:") then
      match st.awaitingAck[f]! with
      | some t0 =>
        let v2 := if nat t > t0 + ackBoundUs then [s!"[C19] side {f} acknowledged data {(nat t - t0)} us after it arrived (limit 200 ms)"] else []
        ({ st with awaitingAck := st.awaitingAck.set! f none }, v ++ v2)
      | none => (st, v)
    else (st, v)
  | ["rx", to, idx, t] =>
    let to_ := nat to
    match st.pkts[((1 - to_), nat idx)]? with
    | some summary =>
      let st := if summary.contains "SHUTDOWNCOMPLETE" || summary.contains "SHUTDOWNACK" then { st with sdDone := to_ :: st.sdDone } else st
      if summary.any isDataTok && !st.ended && (st.awaitingAck[to_]!).isNone then
        ({ st with awaitingAck := st.awaitingAck.set! to_ (some (nat t)) }, [])
      else (st, [])
    | none => (st, [])
  | ["shutdown", side] =>
    match impl with
    | r :: _ =>
      if r == "nil" then
        -- C09 DEMANDS an error from a Shutdown that a teardown cut short (former finding D22 / K09-shutdown-nil, fixed in
        -- /repo 52b27be): nil is legitimate only if this side was handed the peer's SHUTDOWN-ACK or SHUTDOWN-COMPLETE
        -- (or already answered the SHUTDOWN-ACK with its SHUTDOWN-COMPLETE)
        let cut := (st.mode == "teardown" || st.mode == "storm") && !st.sdDone.contains (nat side)
        ({ st with shutdownOk := nat side :: st.shutdownOk },
          if cut then [s!"[C09,C08] Shutdown on side {side} returned nil although the peer never acknowledged the SHUTDOWN (no SHUTDOWN-ACK / SHUTDOWN-COMPLETE reached this side; the association was torn down: {st.injected})"] else [])
      else (st, [])
    | _ => (st, [])
  | ["wlate", dir, si, _len, hash] =>
    let v := match impl with
      | [n, e] => if n != "0" || e == "nil" then [s!"[C08,C18] side {dir} stream {si}: write after shutdown began returned ({n}, {e}) instead of being rejected"] else []
      | _ => []
    ({ st with lateHashes := nat hash :: st.lateHashes }, v)
  | ["openlate", side] =>
    (st, if impl == ["nil"] then [s!"[C08] OpenStream on side {side} succeeded after shutdown began"] else [])
  | ["sbuf", dir, si] =>
    match impl with
    | [n] => (st, if n != "0" then [s!"[C15,C02] stream {si} of side {dir} still reports {n} buffered bytes after everything was acknowledged or abandoned"] else [])
    | _ => (st, [])
  | ["end", side] =>
    let kv := kvs impl
    let v := if st.connFail || st.connected < 2 then [] else
      if st.mode == "teardown" then []
      else if st.mode == "handshake" && getN kv "state" != 3 then
        [s!"[C04] side {side} left the established state (state {getN kv "state"}) after stale handshake packets arrived"]
      else if st.mode == "shutdown" then
        (if getN kv "state" != 0 then [s!"[C08] side {side} is in state {getN kv "state"} (not closed) after the shutdown sequence and transport close"] else [])
      else
      (if getN kv "buffered" != 0 || getN kv "pending" != 0 || getN kv "inflight" != 0 then
        [s!"[C02,C15] side {side} not drained {getN kv "t"} ms after start: buffered={getN kv "buffered"} pending={getN kv "pending"} inflight={getN kv "inflight"}"] else [])
    ({ st with ended := true }, v)
  | ["fin"] =>
    let names := match impl with | _ :: _ :: n :: _ => n | _ => ""
    let v := checkFin st (kvs impl) names
    ({ active := false }, v)
  | _ => (st, [])

end Drv.E2E
