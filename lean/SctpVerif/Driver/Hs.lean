import SctpVerif.Model.Handshake
import SctpVerif.Driver.Util
/-! line protocol for the direct-drive handshake harness (`hs …`): L0 replay + agreement predicate -/
namespace Drv.HsD
open Drv Hs

structure St where
  s : Sys := Sys.init false false false false
  cfg : List Bool := [false, false, false, false]
  forged : Bool := false      -- a forged packet was injected: the two-honest-endpoints predicates no longer apply
  deriving Inhabited

def b (v : Bool) : String := if v then "1" else "0"

def dump (e : Ep) : String :=
  s!"st={e.st} pil={b e.pil} pfwd={b e.pfwd} pifwd={b e.pifwd} sz={b e.sendZero} uil={b e.uil} ufwd={b e.ufwd} uifwd={b e.uifwd} t1i={b e.t1i} t1c={b e.t1c}"

def extStr (types : List Nat) (zc : Option Nat) : String :=
  let e := if types.isEmpty then "none" else ",".intercalate (types.map toString)
  let z := match zc with | some v => toString v | none => "-"
  s!"[ext={e},zc={z}]"

def pktStr (p : Pkt) : String :=
  let ck := if p.zeroCk then "zero" else "ok"
  match p.msg with
  | .init t z => s!"{ck}_INIT_{extStr t z}"
  | .initAck t z _ => s!"{ck}_INITACK_{extStr t z}"
  | .cookieEcho _ => s!"{ck}_COOKIEECHO"
  | .cookieAck => s!"{ck}_COOKIEACK"

def outStr (o : List Pkt) : String := if o.isEmpty then "nothing" else ";".intercalate (o.map pktStr)

def side (x : String) : Bool := x == "1"

/-- P_C04/C13/C17 on the implementation's own dump lines: once established, the negotiated flags must
be the ones the two configurations determine. `cfg = [ilA, zcA, ilB, zcB]`, `x` = which side the dump is of. -/
def predDump (cfg : List Bool) (x : Bool) (dumpToks : List String) : Option String :=
  let kv := dumpToks.filterMap fun t => match t.splitOn "=" with
    | [k, v] => some (k, v)
    | _ => none
  let g (k : String) := (kv.lookup k).getD ""
  if g "st" != "3" then none else
  match cfg with
  | [ilA, zcA, ilB, zcB] =>
    let il := ilA && ilB
    let peerZc := if x then zcA else zcB
    if g "uil" != b il then some s!"[C04,C17] established with useInterleaving={g "uil"} although both-enabled={b il}"
    else if g "uifwd" != b il then some s!"[C04,C17] established with useIForwardTSN={g "uifwd"} although interleaving={b il}"
    else if g "ufwd" != b (!il) then some s!"[C04,C17] established with useForwardTSN={g "ufwd"} although interleaving={b il}"
    else if g "sz" == "1" && !peerZc then some "[C04,C13] established and sending zero checksums although the peer never declared them acceptable"
    else none
  | _ => none

/-- token segments between `|` separators -/
def segs : List String → List (List String)
  | [] => [[]]
  | t :: r => match segs r with
    | [] => [[t]]
    | h :: tl => if t == "|" then [] :: h :: tl else (t :: h) :: tl

/-- P_C13 on every line of implementation output: INIT and COOKIE-ECHO never leave with a zero checksum -/
def wirePred (impl : List String) : Option String :=
  if impl.any (fun t => (t.splitOn "zero_INIT_[").length > 1 || (t.splitOn "zero_COOKIEECHO").length > 1) then
    some "[C13,C04] an INIT or COOKIE-ECHO packet was emitted with a zero checksum field"
  -- P_C04 (timers): the state dumps on the line say `st=3` (established) together with a running T1 timer
  else if (segs impl).any (fun seg => seg.contains "st=3" && (seg.contains "t1i=1" || seg.contains "t1c=1")) then
    some "[C04] an endpoint is ESTABLISHED while a T1 handshake timer is still running (it will fail the connect when its retry budget runs out)"
  else none

def orElse (a b : Option String) : Option String := match a with | some x => some x | none => b

def step (st : St) (op impl : List String) : St × String × Option String :=
  match op with
  | ["new", ilA, zcA, ilB, zcB] =>
    let s := Sys.init (ilA == "1") (zcA == "1") (ilB == "1") (zcB == "1")
    ({ s := s, cfg := [ilA == "1", zcA == "1", ilB == "1", zcB == "1"], forged := false }, s!"{dump s.a} | {dump s.b}", none)
  | ["start", x] =>
    let x := side x
    let n := (st.s.hist x).size
    let s := st.s.step (.start x)
    ({ st with s := s }, s!"{outStr ((s.hist x).toList.drop n)} | {dump (s.ep x)}", wirePred impl)
  | ["deliver", x, i] =>
    let x := side x
    match (st.s.hist x)[parseNat! i]? with
    | none => (st, "nopacket", none)
    | some p =>
      let n := (st.s.hist (!x)).size
      let s := st.s.step (.deliver x (parseNat! i))
      let v := if impl == ["PANIC"] then some "[C03,C04] a handshake packet made the association panic"
               else if st.forged then none else predDump st.cfg (!x) ((impl.dropWhile (· != "|")).drop 1)
      ({ st with s := s }, s!"{pktStr p} => {outStr ((s.hist (!x)).toList.drop n)} | {dump (s.ep (!x))}", orElse v (wirePred ((impl.dropWhile (· != "=>")).drop 1)))
  | "forge" :: y :: kind :: args =>
    -- a packet from outside the honest run: the model's handler is applied directly (not an `Op` of `Sys`; the theorems of
    -- C04 / C13 / C17 are about honest pairs, the correspondence and the predicates below cover the hostile input)
    let y := side y
    let types (s : String) : List Nat := if s == "none" || s == "empty" then [] else (s.splitOn ",").filterMap (·.toNat?)
    let zc (s : String) : Option Nat := if s == "none" then none else s.toNat?
    let e0 := st.s.ep y
    let msg : Option Msg := match kind, args with
      | "init", [t, z] => some (.init (types t) (zc z))
      | "initack", [t, z] => some (.initAck (types t) (zc z) 7)
      | "cookieecho", [w] => some (.cookieEcho (if w == "own" && e0.hasCookie then e0.id else 999))
      | "cookieack", [] => some .cookieAck
      | _, _ => none
    match msg with
    | none => (st, "bad-op", none)
    | some m =>
      let (e1, ms) := handle e0 { msg := m, zeroCk := false }
      let (e2, o) := flush e1 ms
      let s := st.s.put y e2 o
      let toks := (impl.dropWhile (· != "|")).drop 1
      let has (k : String) := toks.contains k
      let v : Option String :=
        if impl == ["PANIC"] then some "[C03,C04] a handshake chunk that no honest peer sends made the association panic"
        else match kind, args with
          | "init", [t, _] =>
            if (t == "none" || t == "empty") && e0.st != stEstablished && (has "pil=1" || has "pfwd=1" || has "pifwd=1") then
              some "[C17,C04,C03] after an INIT that lists no supported extensions the endpoint still treats extensions as offered by the peer"
            else none
          | _, _ => none
      ({ st with s := s, forged := true }, s!"{outStr o} | {dump e2}", orElse v (wirePred impl))
  | ["t1", x, kind] =>
    let x := side x
    let n := (st.s.hist x).size
    let s := st.s.step (if kind == "cookie" then .t1Cookie x else .t1Init x)
    ({ st with s := s }, s!"{outStr ((s.hist x).toList.drop n)} | {dump (s.ep x)}", wirePred impl)
  | ["t1q", x, kind] =>
    let x := side x
    let s := st.s.step (.t1Queue x (kind == "cookie"))
    ({ st with s := s }, dump (s.ep x), none)
  | ["gather", x] =>
    let x := side x
    let n := (st.s.hist x).size
    let s := st.s.step (.gather x)
    ({ st with s := s }, s!"{outStr ((s.hist x).toList.drop n)} | {dump (s.ep x)}", wirePred impl)
  | _ => (st, "bad-op", none)

end Drv.HsD
