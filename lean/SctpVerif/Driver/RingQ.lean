import SctpVerif.Model.RingQ
import SctpVerif.Driver.Util
/-! line protocol for `ringq …` ops (queue.go): L0 step + FIFO-list predicate on the implementation's results.
Elements are positive integers, 0 is the zero value. -/
namespace Drv.RingQ
open Drv

structure St where
  q : _root_.RingQ.Q Nat := _root_.RingQ.new 0 0
  dead : Bool := false
  ghost : List Nat := []      -- what a FIFO list would hold (only while used properly)
  tainted : Bool := false
  deriving Inhabited

def parseInt! (s : String) : Int := s.toInt?.getD 0
def optS : Option Nat → String
  | none => "panic"
  | some v => toString v

def step (st : St) (op : List String) (impl : List String) : St × String × Option String :=
  match op with
  | ["new", c] =>
    let q := _root_.RingQ.new 0 (parseInt! c)
    ({ q := q, ghost := [], dead := false, tainted := false }, s!"{q.buf.size}", none)
  | _ =>
  if st.dead then (st, "dead", none) else
  let chk (g : List Nat) (t : Bool) (want : Option Nat) : Option String :=
    if t then none else
    match impl with
    | r :: _ => if some r == want.map toString then none else some s!"FIFO: implementation returned {r}, a FIFO list holding {g} gives {want.map toString}"
    | _ => none
  match op with
  | ["push", v] =>
    match _root_.RingQ.pushBack 0 st.q (parseNat! v) with
    | none => ({ st with dead := true }, "panic", none)
    | some q =>
      let g := st.ghost ++ [parseNat! v]
      let e := if st.tainted then none else
        match impl with
        | [n, _] => if n == toString g.length then none else some s!"FIFO: Len() = {n} after push, a list would hold {g.length}"
        | _ => none
      ({ st with q := q, ghost := g }, s!"{q.count} {q.buf.size}", e)
  | ["pop"] =>
    match _root_.RingQ.popFront 0 st.q with
    | none => ({ st with dead := true }, "panic", none)
    | some (q, x) =>
      let proper := !st.ghost.isEmpty
      let e := if proper then chk st.ghost st.tainted st.ghost.head? else none
      ({ st with q := q, ghost := st.ghost.drop 1, tainted := st.tainted || !proper }, s!"{x} {q.count}", e)
  | ["front"] => (st, optS (_root_.RingQ.front st.q),
      if st.ghost.isEmpty then none else chk st.ghost st.tainted st.ghost.head?)
  | ["back"] => (st, optS (_root_.RingQ.back st.q),
      if st.ghost.isEmpty then none else chk st.ghost st.tainted st.ghost.getLast?)
  | ["at", i] =>
    let i := parseInt! i
    let r := _root_.RingQ.atIdx st.q i
    (if r.isNone then { st with dead := true } else st, optS r,
      if 0 ≤ i && i.toNat < st.ghost.length then chk st.ghost st.tainted st.ghost[i.toNat]? else none)
  | ["len"] => (st, toString st.q.count, none)
  | _ => (st, "bad-op", none)

end Drv.RingQ
