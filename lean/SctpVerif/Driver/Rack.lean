import SctpVerif.Model.Rack
import SctpVerif.Model.Sender
import SctpVerif.Model.Rto
import SctpVerif.Driver.Util
/-!
Replay of the white-box `as rk` / `as rke` lines (go/harness/rack_test.go) through `Model/Rack.lean`.

The RACK model is not fed from the log: for every `as` op the driver derives the ENVIRONMENT operations of
`Model/Rack.lean` from what the SENDER MODEL did with that op (which chunks a gather retransmitted / sent new / fast
retransmitted and whether `checkPartialReliabilityStatus` abandoned them, which TSNs a SACK acknowledged, how many
chunks reached three miss indications, the fast-recovery flag, the pending-queue size), runs the RACK functions, and
compares the resulting state — reordering window, min-RTT and its window, delivered time, high-watermark, flags, both
timer deadlines, TLR phase and burst units, the RACK list in order, per-chunk send time / count / flags — with the
snapshot of the real Association. The clock is the only thing taken from the log (`now=`), and `t3=`
(`t3RTX.isRunning()`, owned by the timer model of C19). SRTT is computed by the `Float` instance of the RTO model
from the RTT samples the RACK model produced, through the generated conversion sites.

Thereby the former oracles of the sender replay are checked: `tlr=`/`bud=` (compared with `Rack.tlrBudgetScaled`
at every gather) and `rtx=` (the sender model applies the logged marks; its per-chunk `retransmit` flags are compared
with the RACK model's after every op).
-/
namespace Drv.RackD
open Drv

/-- the op whose effect is replayed when its `rk` line arrives -/
structure Pend where
  op : List String
  ora : List String
  mPre : Sender.St
  deriving Inhabited

structure St where
  r : Rack.St := default
  base : BitVec 32 := 0
  rto : Rto.Mgr Float := Rto.F.new 0
  srtt : Float := 0
  pend : Option Pend := none
  deriving Inhabited

def kv (toks : List String) (k : String) : Option String :=
  (toks.find? (·.startsWith (k ++ "="))).map fun t => (t.drop (k.length + 1)).toString

def kvInt (toks : List String) (k : String) : Int := ((kv toks k).bind (·.toInt?)).getD 0

def natList (s : Option String) : List Nat :=
  match s with
  | none => []
  | some "-" => []
  | some t => (t.splitOn ",").filterMap (·.toNat?)

def bv32 (s : String) : BitVec 32 := BitVec.ofNat 32 (parseNat! s)

/-! ### rendering like `vRackSnapshot` -/

def fnv (s : String) : UInt64 :=
  s.toUTF8.foldl (fun h b => (h ^^^ b.toUInt64) * 1099511628211) 14695981039346656037

def hexDigit (n : Nat) : Char := if n < 10 then Char.ofNat (48 + n) else Char.ofNat (87 + n)

def hex16 (x : UInt64) : String :=
  String.ofList ((List.range 16).map fun i => hexDigit ((x.toNat >>> (4 * (15 - i))) % 16))

def renderList (items : List String) (full : Bool) : String :=
  if items.isEmpty then "-"
  else
    let s := ",".intercalate items
    if items.length ≤ 12 || full then s else s!"#{items.length}:{hex16 (fnv s)}"

def rel (base t : BitVec 32) : Nat := (t - base).toNat

def render (st : St) (t3run : Bool) (full : Bool) : String :=
  let r := st.r
  let v := Rack.SrttView.ofFloat st.srtt
  let b := st.base
  let endS := if r.tlrActive then toString (rel b r.tlrEndTSN) else "-"
  let mw := r.minWnd.map fun e => s!"{e.1}:{e.2}"
  let rl := r.list.map fun t => toString (rel b t)
  let ch := r.q.map fun c =>
    let fl := (if c.acked then "a" else "") ++ (if c.abandoned then "b" else "") ++ (if c.retransmit then "r" else "") ++
              (if r.list.contains c.tsn then "l" else "")
    s!"{rel b c.tsn}:{c.since}:{c.nSent.toNat}:{if fl.isEmpty then "-" else fl}"
  s!"now={r.now} reo={r.reoWnd} minrtt={r.minRTT} dt={r.deliveredTime} hw={rel b r.hw} seen={b2s r.reorderingSeen} keep={r.keepInflated} " ++
  s!"rd={r.rackDeadline} pd={r.ptoDeadline} tlr={b2s r.tlrActive}{b2s r.tlrFirstRTT}{b2s r.tlrHadAdditionalLoss} end={endS} " ++
  s!"bf={r.tlrBurstFirst} bl={r.tlrBurstLater} good={r.tlrGoodOps.toNat} ts={r.tlrStartTime} " ++
  s!"srtt={b2s v.rackValid}:{v.rackDur} t3={b2s t3run} mt={rel b r.minTSN2MeasureRTT} mw={renderList mw true} " ++
  s!"rl={renderList rl full} ch={renderList ch full}"

/-- on a mismatch: only the tokens that differ, `model≠impl` -/
def diffTokens (model impl : List String) : String :=
  let pairs := model.zip impl
  let bad := pairs.filter fun (a, b) => a != b
  let shown := (bad.take 6).map fun (a, b) => s!"{a.take 160}≠{b.take 160}"
  " ".intercalate (if model.length != impl.length then s!"tokens {model.length}≠{impl.length}" :: shown else shown)

/-! ### environment -/

def mkEnv (st : St) (m : Sender.St) (t3run : Bool) : Rack.Env :=
  { srtt := Rack.SrttView.ofFloat st.srtt, inFastRecovery := m.inFastRecovery, t3Running := t3run, pendingSize := m.penChunks }

/-- did `checkPartialReliabilityStatus` abandon the message of this (already updated) chunk? -/
def prFires (m : Sender.St) (c : Sender.Chunk) : Bool := !(Sender.checkPR m [] c).isEmpty

def abandonedTsns (m : Sender.St) : List (BitVec 32) := (m.inflight.filter m.abandoned).map (·.tsn)

/-- the RTT samples of one SACK through `rtoMgr.setNewRTT` (Float instance), as `processSelectiveAck` does -/
def feedSamples (st : St) (samples : List Int) : St :=
  samples.foldl (fun st d =>
    let rtt := Gen.psa_cumRttMs_Float (now := d) (chunkPayload_since := 0)
    let r := Rto.F.setNewRTT st.rto rtt
    { st with rto := r.1, srtt := r.2 }) st

def expandGaps (cum : BitVec 32) (gaps : List (Nat × Nat)) : List (BitVec 32) :=
  gaps.flatMap fun (s, e) => (List.range' s (e + 1 - s)).map fun i => cum + BitVec.ofNat 32 i

def parseGaps (g : String) : List (Nat × Nat) :=
  if g == "none" then [] else (g.splitOn "+").filterMap fun b => match b.splitOn "-" with
    | [x, y] => some (parseNat! x, parseNat! y)
    | _ => none

def parseGapBlocks (g : String) : List (BitVec 16 × BitVec 16) :=
  (parseGaps g).map fun (x, y) => (BitVec.ofNat 16 x, BitVec.ofNat 16 y)

/-- chunks whose miss indication reached 3 in this SACK -/
def countMiss3 (pre post : Sender.St) : Nat :=
  (post.inflight.filter fun (c : Sender.Chunk) => c.missIndicator == 3#32 &&
    (match pre.inflight.find? (·.tsn == c.tsn) with
     | some c0 => c0.missIndicator != 3#32
     | none => false)).length

/-- the sender model's and the RACK model's views of the in-flight chunks must agree (TSN, transmission count, flags) -/
def viewsAgree (r : Rack.St) (m : Sender.St) : Option String :=
  if r.q.length != m.inflight.length then some s!"in-flight length: rack model {r.q.length}, sender model {m.inflight.length}"
  else
    let bad := (r.q.zip m.inflight).find? fun (c, d) =>
      !(c.tsn == d.tsn && c.nSent == d.nSent && c.acked == d.acked && c.retransmit == d.retransmit && c.abandoned == m.abandoned d)
    match bad with
    | none => if r.cumAck != m.cumAck || r.myNextTSN != m.myNextTSN then some "cumulative point / next TSN differ between the models" else none
    | some (c, d) => some (s!"chunk {c.tsn.toNat}: rack model nSent={c.nSent.toNat} acked={c.acked} rtx={c.retransmit} aband={c.abandoned}, " ++
        s!"sender model (with the logged marks) nSent={d.nSent.toNat} acked={d.acked} rtx={d.retransmit} aband={m.abandoned d}")

/-! ### replay of one op -/

/-- returns the new state and notes about checked oracles that did not match -/
def replayOp (st : St) (p : Pend) (mPost : Sender.St) (now : Int) (t3run : Bool) : St × List String :=
  match p.op with
  | "new" :: mtu :: _rcv :: _minCwnd :: _il :: tsn :: rest =>
    -- optional RACK settings sit between caStep and the pair token
    let extra := (rest.drop 3).dropLast
    let num := fun (i : Nat) => ((extra[i]?).bind (·.toInt?)).getD 0
    let cfg : Rack.Cfg := {
      mtu := bv32 mtu,
      reoWndFloor := num 0,
      wcDelAck := if Gen.init_wcDelAckUnset (assoc_rack_rackWCDelAck := num 1) then Gen.init_wcDelAckDefault else num 1,
      minRTTWindow := if num 2 ≤ 0 then 30000000000 else num 2 }
    ({ st with r := Rack.init cfg (bv32 tsn) now, base := bv32 tsn, rto := Rto.F.new 0, srtt := 0 }, [])
  | ["gather"] =>
    let oraTlr := kv p.ora "tlr" == some "1"
    let oraBud := kvInt p.ora "bud"
    let orc := Sender.tlrOracle oraTlr oraBud
    let sel := natList (kv p.ora "sel")
    let out := (Sender.gather p.mPre orc sel).2
    let env := mkEnv st mPost t3run
    -- the harness calls tlrCurrentBurstBudgetScaledLocked itself just before gatherOutbound (same instant: idempotent)
    let b := Rack.tlrBudgetScaled st.r env
    let notes := (if st.r.tlrActive != oraTlr then [s!"tlr oracle: model active={st.r.tlrActive}, implementation {oraTlr}"] else []) ++
                 (if b.2 != oraBud then [s!"burst budget oracle: model {b.2}, implementation {oraBud}"] else [])
    let r1 := out.rtx.flatten.foldl (fun r c => Rack.resend r c.tsn true (prFires mPost c)) b.1
    let fresh := out.admits.map (·.chunk)
    let (r2, n2) := fresh.foldl (fun (acc : Rack.St × List String) c =>
        let n := if acc.1.myNextTSN != c.tsn then acc.2 ++ [s!"new chunk TSN: model {acc.1.myNextTSN.toNat}, sender model {c.tsn.toNat}"] else acc.2
        (Rack.send acc.1 (prFires mPost c), n)) (r1, notes)
    let r3 := if fresh.isEmpty then r2 else Rack.schedulePTOAfterSend r2 env
    let r4 := out.fast.flatten.foldl (fun r c => Rack.resend r c.tsn false (prFires mPost c)) r3
    ({ st with r := r4 }, n2)
  | ["sack", cum, arw, gaps, dups] =>
    let marks := (natList (kv p.ora "rtx")).map (BitVec.ofNat 32)
    let res := (Sender.sack p.mPre (bv32 cum) (bv32 arw) (parseGapBlocks gaps) marks).2
    if res != .ok then (st, [])
    else match Rack.ackPhase st.r (bv32 cum) (expandGaps (bv32 cum) (parseGaps gaps)) with
      | none => (st, ["the RACK model's processSelectiveAck failed where the sender model's succeeded"])
      | some (r1, acc, adv) =>
        let st1 := feedSamples st acc.samples
        let env := mkEnv st1 mPost t3run
        let r2 := Rack.afterAck r1 env acc adv (parseNat! dups : Nat) (countMiss3 p.mPre mPost)
        ({ st1 with r := r2.1 }, [])
  | ["t3", _] => ({ st with r := Rack.t3 st.r }, [])
  | _ => (st, [])

def finish (st : St) (mPost : Sender.St) (impl : List String) (notes : List String) : St × String :=
  let t3run := kv impl "t3" == some "1"
  let st := { st with r := Rack.abandon st.r (abandonedTsns mPost) }
  -- lists the implementation logged in full are rendered in full
  let full := !((kv impl "ch").getD "").startsWith "#" && !((kv impl "rl").getD "").startsWith "#"
  let model := render st t3run full
  let notes := notes ++ (viewsAgree st.r mPost).toList
  let implS := " ".intercalate impl
  if model == implS && notes.isEmpty then (st, implS)
  else if model == implS then (st, "snapshot equal, but: " ++ "; ".intercalate notes)
  else (st, "differs (model≠impl): " ++ diffTokens (model.splitOn " ") impl ++ (if notes.isEmpty then "" else " ; " ++ "; ".intercalate notes))

/-- an `as rk` line: replay the pending op, compare the snapshot -/
def onRk (st : St) (mPost : Sender.St) (impl : List String) : St × String :=
  let now := kvInt impl "now"
  let t3run := kv impl "t3" == some "1"
  match st.pend with
  | none => finish st mPost impl []
  | some p =>
    let (st1, notes) := replayOp { st with pend := none } p mPost now t3run
    let notes := if st1.r.now != now then notes ++ [s!"clock: model {st1.r.now}, implementation {now}"] else notes
    finish st1 mPost impl notes

/-- an `as rke <elapsed ns> <T3 expiries>` line: the clock advanced inside a tick, T3 fired `k` times, then whatever
RACK / PTO deadline is due fires -/
def onRke (st : St) (m : Sender.St) (op impl : List String) : St × String :=
  match op with
  | [_, el, k] =>
    let t3run := kv impl "t3" == some "1"
    let r1 := Rack.step st.r (.advance (parseNat! el))
    let r2 := Rack.iter Rack.t3 (parseNat! k) r1
    let r3 := (Rack.timerFire r2 (mkEnv st m t3run)).1
    let st' := { st with r := r3 }
    let full := !((kv impl "ch").getD "").startsWith "#" && !((kv impl "rl").getD "").startsWith "#"
    let model := render st' t3run full
    let implS := " ".intercalate impl
    if model == implS then (st', implS) else (st', "differs (model≠impl): " ++ diffTokens (model.splitOn " ") impl)
  | _ => (st, "bad-rke")

end Drv.RackD
