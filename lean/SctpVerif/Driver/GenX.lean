import SctpVerif.Gen.Funcs
import SctpVerif.Driver.Util
/-! translator validation: evaluate the generated defs on the inputs the Go side logged -/
namespace Drv.GenX
open Drv Gen

def u16 (s : String) : BitVec 16 := BitVec.ofNat 16 (parseNat! s)
def u64 (s : String) : BitVec 64 := BitVec.ofNat 64 (parseNat! s)

/-- P_C16 (algebra): the five comparison results as the property states them, written from the
modular distance and NOT from the generated code. Order of bits: LT LTE GT GTE EQ. -/
def snaSpec (n : Nat) (a b : Nat) : String :=
  let m := 2^n
  let fwd := (b + m - a) % m      -- distance from a forward to b
  let bwd := (a + m - b) % m
  let lt := 0 < fwd && fwd < m/2
  let gt := 0 < bwd && bwd ≤ m/2
  b2s lt ++ b2s (lt || a == b) ++ b2s gt ++ b2s (gt || a == b) ++ b2s (a == b)

/-- predicate on the implementation's recorded result -/
def pred (op impl : List String) : Option String :=
  match op, impl with
  | ["sna32", a, b], [r] =>
    let want := snaSpec 32 (parseNat! a) (parseNat! b)
    if r == want then none else some s!"[C16] serial comparison of 32-bit values {a} {b}: implementation LT/LTE/GT/GTE/EQ={r}, serial-number arithmetic gives {want}"
  | ["sna16", a, b], [r] =>
    let want := snaSpec 16 (parseNat! a) (parseNat! b)
    if r == want then none else some s!"[C16] serial comparison of 16-bit values {a} {b}: implementation LT/LTE/GT/GTE/EQ={r}, serial-number arithmetic gives {want}"
  | ["sna16all"], [r] => if r == "0" then none else some s!"[C16] {r} of the 2^32 16-bit pairs disagree with serial-number arithmetic"
  | _, _ => none

def step (op : List String) : String :=
  match op with
  | ["new"] => ""
  | ["sna32", a, b] =>
    let a := tsn a; let b := tsn b
    b2s (sna32LT a b) ++ b2s (sna32LTE a b) ++ b2s (sna32GT a b) ++ b2s (sna32GTE a b) ++ b2s (sna32EQ a b)
  | ["sna16", a, b] =>
    let a := u16 a; let b := u16 b
    b2s (sna16LT a b) ++ b2s (sna16LTE a b) ++ b2s (sna16GT a b) ++ b2s (sna16GTE a b) ++ b2s (sna16EQ a b)
  | ["sna16all"] => "0"
  | ["getPadding", n] => toString (getPadding (parseNat! n))
  | ["maxPayloadSizeForMTU", m, il] => toString (maxPayloadSizeForMTU (tsn m) (il == "1")).toNat
  | ["getMaxTSNOffset", b] => toString (getMaxTSNOffset (tsn b)).toNat
  | ["tsnBitmaskWords", o] => toString (tsnBitmaskWords (tsn o))
  | ["states", s] => b2s (isDataReceiveState (tsn s)) ++ b2s (isShutdownHandleState (tsn s)) ++ b2s (entersShutdownReceived (tsn s))
  | ["minmax", x, y] => s!"{(min16 (u16 (toString ((parseNat! x) % 65536))) (u16 (toString ((parseNat! y) % 65536)))).toNat} {(max32 (tsn x) (tsn y)).toNat} {(min32 (tsn x) (tsn y)).toNat}"
  | ["firstbits", v, s] =>
    let (nz, ok1) := getFirstNonZeroBit (u64 v) (parseNat! s) 64
    let (z, ok2) := getFirstZeroBit (u64 v) (parseNat! s) 64
    s!"{nz} {b2s ok1} {z} {b2s ok2}"
  | ["nextTimeout", rto, n, mx] =>
    toString (calculateNextTimeout_Float (Float.ofNat (parseNat! rto)) (parseNat! n) (Float.ofNat (parseNat! mx))).toBits.toNat
  | _ => "bad-op"

end Drv.GenX
