import SctpVerif.Model.Shutdown
import SctpVerif.Driver.Util
/-!
line protocol of the direct-drive shutdown harness (`sd …`): L0 replay of every line (result and the
state line of both endpoints) + the predicate P_C08 evaluated on the IMPLEMENTATION's own outputs.

`sd <op> <args> -> <result> | <state A> | <state B>`
-/
namespace Drv.SdD
open Drv Sd

/-- what the predicate remembers about one side, from the implementation's results only -/
structure Side where
  writes : List (Nat × Nat) := []      -- accepted writes (id, stream) in order
  rejected : List Nat := []            -- ids of rejected writes
  gate : Bool := false                 -- a Shutdown call passed the state gate (result `called`)
  callAt : Nat := 0                    -- accepted writes at that moment
  sr : String := "-"
  reads : List (Nat × Nat) := []       -- (stream, id) in the order read
  eofs : List Nat := []                -- streams on which closure was reported
  deriving Inhabited

structure St where
  s : Sys := {}
  ns : Nat := 1
  forged : Bool := false   -- a packet nobody sent was injected: the network assumption of C08 is void for this sequence
  pa : Side := {}
  pb : Side := {}
  deriving Inhabited

def St.side (st : St) (x : Bool) : Side := if x then st.pb else st.pa
def St.setSide (st : St) (x : Bool) (p : Side) : St := if x then { st with pb := p } else { st with pa := p }

def bs (v : Bool) : String := if v then "1" else "0"
def nm (x : Bool) : String := if x then "B" else "A"

def natsStr (l : List Nat) : String := if l.isEmpty then "-" else ",".intercalate (l.map toString)

def dump (ns : Nat) (e : Ep) : String :=
  let sr := if e.sd == 0 then "-" else if e.sd == 1 then "w" else if e.sd == 2 then "ok" else "err"
  s!"st={e.st} ws={bs e.wS} wa={bs e.wSA} wc={bs e.wSC} scp={bs e.scp} scr={bs e.scr} ab={bs e.wAb} t2={e.t2} ack={e.ack} pn={e.snd.pend.length} if={e.inflight} cum={e.snd.cum} pl={e.rcv.pl} rq={natsStr (sortNat e.rcv.rq)} dead={bs e.dead} sr={sr} rx={e.rcv.store.length + e.rcv.rlog.length} re={if e.dead then ns else 0}"

def chunkStr : Chunk → String
  | .data t m s k => s!"D{t}.{m}.{s}.{k}"
  | .sack c g =>
    let gs := g.map fun (a, b) => s!"{a}-{b}"
    if gs.isEmpty then s!"S{c}" else s!"S{c}:{"+".intercalate gs}"
  | .shutdown c => s!"SD{c}"
  | .shutdownAck => "SA"
  | .shutdownComplete => "SC"
  | .abort => "AB"

def pktStr (p : Pkt) : String := ",".intercalate (p.map chunkStr)

/-- the DATA packets the implementation put on the wire in this pass, as (TSN, message id) lists: the input of `gather` -/
def oracleOf (out : String) : List (List (Nat × Nat)) :=
  (out.splitOn ";").filterMap fun p =>
    let ds := (p.splitOn ",").filterMap fun c =>
      if c.startsWith "D" then
        match (c.drop 1).toString.splitOn "." with
        | t :: m :: _ => some (parseNat! t, parseNat! m)
        | _ => none
      else none
    if ds.isEmpty then none else some ds

def kvOf (toks : List String) : List (String × String) :=
  toks.filterMap fun t => match t.splitOn "=" with
    | [k, v] => some (k, v)
    | _ => none

/-- the three `|`-separated parts of the implementation's result -/
def parts (impl : List String) : List (List String) :=
  let rec go (cur : List String) (acc : List (List String)) : List String → List (List String)
    | [] => (cur.reverse :: acc).reverse
    | "|" :: rest => go [] (cur.reverse :: acc) rest
    | t :: rest => go (t :: cur) acc rest
  go [] [] impl

def writesOn (p : Side) (s : Nat) : List Nat := (p.writes.filter (·.2 == s)).map (·.1)
def readsOn (p : Side) (s : Nat) : List Nat := (p.reads.filter (·.1 == s)).map (·.2)

def orElse (a b : Option String) : Option String := match a with | some x => some x | none => b

/-- P_C08, the part evaluated after EVERY line on the two state lines of the implementation:
the first time a side reports `sr=ok` (Shutdown returned nil — whatever else happened: transport failure, Close, Abort)
every message it accepted before the call must already be held for (or read by) the peer's application, the
side must be closed, and a stream of the peer that already reported closure must have delivered everything. -/
def predState (st : St) (x : Bool) (mine other : List (String × String)) : St × Option String :=
  let p := st.side x
  let q := st.side (!x)
  let g (kv : List (String × String)) (k : String) := (kv.lookup k).getD ""
  let sr := g mine "sr"
  let st' := st.setSide x { p with sr := sr }
  if sr == "ok" && p.sr != "ok" && !st.forged then
    let rx := parseNat! (g other "rx")
    if !p.gate then (st', some s!"[C08] side {nm x}: Shutdown returned nil although no call had passed the state gate")
    else if rx < p.callAt then
      (st', some s!"[C08] Shutdown returned nil on side {nm x} but only {rx} of the {p.callAt} messages written before the call had reached the peer's streams")
    else if g mine "st" != "0" then (st', some s!"[C08] Shutdown returned nil on side {nm x} in state {g mine "st"} (not closed)")
    else
      match q.eofs.find? (fun s => readsOn q s != writesOn p s) with
      | some s => (st', some s!"[C08] Shutdown returned nil on side {nm x} but stream {s} of the peer had reported closure after {(readsOn q s).length} of {(writesOn p s).length} messages")
      | none => (st', none)
  else (st', none)

def step (st : St) (op impl : List String) : St × String × Option String :=
  let ps := parts impl
  let res := ps.head?.getD []
  let kvA := kvOf (ps.getD 1 [])
  let kvB := kvOf (ps.getD 2 [])
  let fin (st : St) (r : String) (v : Option String) : St × String × Option String :=
    let (st, v1) := predState st false kvA kvB
    let (st, v2) := predState st true kvB kvA
    (st, s!"{r} | {dump st.ns st.s.a} | {dump st.ns st.s.b}", orElse v (orElse v1 v2))
  let side (x : String) : Bool := x == "1"
  match op with
  | ["new", _, ns, _, _] => fin { s := {}, ns := parseNat! ns } "ok" none
  | ["write", x, sid, _] =>
    let x := side x
    let r := write (st.s.ep x) (parseNat! sid)
    let id := (st.s.ep x).snd.attempts
    let st := { st with s := st.s.step (.write x (parseNat! sid)) }
    let p := st.side x
    -- predicate on the implementation's result
    let implOk := res.head? == some "ok"
    let implId := parseNat! (res.getD 1 "0")
    let v := if implOk && p.gate then some s!"[C08,C18] side {nm x}: write {implId} accepted after Shutdown had begun" else none
    let p := if implOk then { p with writes := p.writes ++ [(implId, parseNat! sid)] } else { p with rejected := p.rejected ++ [implId] }
    fin (st.setSide x p) (if r.2 then s!"ok {id}" else s!"rej {id} state") v
  | ["open", x] =>
    let x := side x
    let p := st.side x
    let v := if res.head? == some "ok" && p.gate then some s!"[C08] side {nm x}: OpenStream succeeded after Shutdown had begun" else none
    fin st (if openOk (st.s.ep x) then "ok" else "rej") v
  | ["shutdown", x] =>
    let x := side x
    let r := shutdownCall (st.s.ep x)
    let st := { st with s := st.s.step (.shutdown x) }
    let p := st.side x
    let p := if res.head? == some "called" && !p.gate then { p with gate := true, callAt := p.writes.length } else p
    fin (st.setSide x p) (if r.2 then "called" else "err") none
  | ["gather", x] =>
    let x := side x
    let e := st.s.ep x
    if e.dead then fin st "exited" none else
    let d := oracleOf (res.head?.getD "")
    let g := gather e d
    let st := { st with s := st.s.step (.gather x d) }
    let ps := g.2.1.map pktStr ++ (if g.2.2 then [] else ["!close"])
    fin st (if ps.isEmpty then "nothing" else ";".intercalate ps) none
  | ["deliver", x, i] =>
    let x := side x
    match (st.s.hist x)[parseNat! i]? with
    | none => fin st "nopacket" none
    | some p =>
      if (st.s.ep (!x)).dead then fin st s!"{pktStr p} dropped" none
      else fin { st with s := st.s.step (.deliver x (parseNat! i)) } (pktStr p) none
  | "forge" :: x :: kind :: args =>
    let x := side x
    let ch : Option Chunk := match kind, args with
      | "SD", [c] => some (.shutdown (parseNat! c))
      | "S", [c, g] =>
        let gaps := if g == "-" then [] else (g.splitOn "+").filterMap fun ab => match ab.splitOn "-" with
          | [a, b] => some (parseNat! a, parseNat! b)
          | _ => none
        some (.sack (parseNat! c) gaps)
      | "D", [t, m, sid, ssn] => some (.data (parseNat! t) (parseNat! m) (parseNat! sid) (parseNat! ssn))
      | _, _ => none
    match ch with
    | none => (st, "bad-op", none)
    | some ch =>
      let st := { st with forged := true }
      if (st.s.ep (!x)).dead then fin st s!"{pktStr [ch]} dropped" none
      else fin { st with s := st.s.put (!x) (handlePkt (st.s.ep (!x)) [ch]) [] } (pktStr [ch]) none
  | ["t2", x] =>
    let x := side x
    let fired := (st.s.ep x).t2 == 1
    fin { st with s := st.s.step (.t2 x) } (if fired then "fired" else "idle") none
  | ["t3", x] =>   -- whether T3-rtx is running is not modelled: its effect is an input of `gather`
    fin { st with s := st.s.step (.t3 (side x)) } (res.head?.getD "") none
  | ["ackt", x] =>
    let x := side x
    let e := st.s.ep x
    fin { st with s := st.s.step (.ackt x) } (if e.ack == ackDelay && !e.dead then "fired" else "idle") none
  | ["read", x, sid] =>
    let x := side x
    let sid := parseNat! sid
    let e := st.s.ep x
    let e' := read e sid
    let new := (e'.rcv.rlog.drop e.rcv.rlog.length).map (·.1)
    let st := { st with s := st.s.step (.read x sid) }
    -- predicate on the implementation's result: `r=<ids> <eof|err|->`
    let p := st.side x
    let q := st.side (!x)
    let ids := match res.head? with
      | some r => if r == "r=-" then [] else ((r.drop 2).toString.splitOn ",").map parseNat!
      | none => []
    let closed := res.getD 1 "-" != "-"
    let p := { p with reads := p.reads ++ ids.map (fun i => (sid, i)), eofs := if closed && !p.eofs.contains sid then p.eofs ++ [sid] else p.eofs }
    let got := readsOn p sid
    let want := writesOn q sid
    let v :=
      if st.forged then none
      else if ids.any (fun i => q.rejected.contains i && !(q.writes.any (·.1 == i))) then
        some s!"[C08,C18] side {nm x} stream {sid}: a message whose write was rejected was delivered"
      else if got != want.take got.length then
        some s!"[C08,C01] side {nm x} stream {sid}: messages read {got} are not a prefix of the messages written {want}"
      else if closed && q.sr == "ok" && got != want then
        some s!"[C08] side {nm x} stream {sid}: closure reported after {got.length} of {want.length} messages although Shutdown had returned nil on the other side"
      else none
    fin (st.setSide x p) s!"r={natsStr new} {if e'.dead then "eof" else "-"}" v
  | ["closeconn", x] =>
    let x := side x
    let was := (st.s.ep x).dead
    fin { st with s := st.s.step (.closeConn x) } (if was then "already" else "ok") none
  | ["close", x] =>
    let x := side x
    let was := (st.s.ep x).dead
    fin { st with s := st.s.step (.closeApi x) } (if was then "already" else "ok") none
  | ["abort", x] =>
    fin { st with s := st.s.step (.abort (side x)) } "called" none
  | ["fin", k] =>
    let g (kv : List (String × String)) (key : String) := (kv.lookup key).getD ""
    let v :=
      if k == "1" && (st.pa.gate || st.pb.gate) && !st.forged then
        if g kvA "st" != "0" || g kvA "dead" != "1" then some s!"[C08] fault-free tail after a Shutdown call, but side A ends in state {g kvA "st"} (dead={g kvA "dead"})"
        else if g kvB "st" != "0" || g kvB "dead" != "1" then some s!"[C08] fault-free tail after a Shutdown call, but side B ends in state {g kvB "st"} (dead={g kvB "dead"})"
        else none
      else none
    fin st "done" v
  | _ => (st, "bad-op", none)

end Drv.SdD
