import SctpVerif.Model.Reset
import SctpVerif.Spec.ResetSpec
import SctpVerif.Driver.Util
/-!
Line protocol of the direct-drive stream-reset harness (`rs …`).

Every line is (1) replayed through the L0 model `Rs` — the model's result and the state of both endpoints are
printed in the harness' format and compared by `Driver/Main` (DIFF on mismatch) — and (2) handed to the executable
predicate `ResetSpec` (P_C14), which looks at the implementation's results only.

`rs ora sel=… pre=… post=… sack=…` precedes the `gather` it belongs to and carries what the real code decided where
the model has an oracle; `rs st` lines carry sender-side figures the model does not have (not compared).
-/
namespace Drv.RsD
open Drv Rs

structure St where
  s : Sys := Sys.init false 1 1
  ora : List String := []
  spec : ResetSpec.St := {}
  pa : PerfSet := {}     -- the exact performed-request bookkeeping of A and B (what the dump shows as perf=)
  pb : PerfSet := {}
  deriving Inhabited

def joinSorted (xs : List Nat) : String :=
  if xs.isEmpty then "-" else "+".intercalate ((xs.mergeSort (· ≤ ·)).map toString)

def objStr (i : Nat) (o : Obj) : String :=
  let rd := !o.unord.isEmpty || (match o.ord with | q :: _ => q.seq ≤ o.nextSeq | [] => false)
  s!"{i}:{o.sid}:{o.state}:{o.ssn}:{o.omid}:{o.umid}:{if o.readErr then 1 else 0}:{o.unord.length}:{o.ord.length}:{o.nextSeq}:{b2s rd}"

def dump (e : Ep) (ps : PerfSet) : String :=
  let reg := (e.reg.mergeSort (fun p q => p.1 ≤ q.1)).map (fun p => s!"{p.1}:{p.2}")
  let objs := (List.range e.objs.length).zip e.objs |>.map (fun p => objStr p.1 p.2)
  let un := if e.unsup then " UNSUPPORTED" else ""
  s!"next={e.nextTSN} rsn={e.nextRSN} cum={e.cum} rcv={joinSorted e.rcv} pen={e.pend.length} ctl={e.ctl.length} " ++
  s!"rq={joinSorted (e.rreqs.map (·.1))} rc={joinSorted (e.reconfigs.map (·.1))} perf={joinSorted (ps.set.map BitVec.toNat)} wr={b2s e.wr} " ++
  s!"acq={e.acq.length} cr={credit e} reg={if reg.isEmpty then "-" else ",".intercalate reg} " ++
  s!"objs={if objs.isEmpty then "-" else ",".intercalate objs}{un}"

def both (s : Sys) (pa pb : PerfSet) : String := s!"{dump s.a pa} | {dump s.b pb}"

/-- request sequence numbers performed by this step, oldest first (`perf` grows at its head) -/
def newlyPerformed (before after : Ep) : List Nat := (after.perf.take (after.perf.length - before.perf.length)).reverse

def rsn32 (n : Nat) : BitVec 32 := BitVec.ofNat 32 n

def chunkStr (c : Chunk) : String := s!"D:{c.tsn}:{c.d.sid}:{b2s c.d.unord}:{c.d.seq}:{c.d.msg}:{c.d.len}"

def pktStr : Msg → String
  | .data cs => ",".intercalate (cs.map chunkStr)
  | .sack cum => s!"S:{cum}"
  | .req rsn last sids => s!"Q:{rsn}:0:{last}:{"+".intercalate (sids.map toString)}"
  | .resp rsn r => s!"P:{rsn}:{r}"

def outStr (o : List Msg) : String := if o.isEmpty then "nothing" else ";".intercalate (o.map pktStr)

def side (x : String) : Bool := x == "1"

def kvOf (toks : List String) (k : String) : String :=
  ((toks.filterMap fun t => match t.splitOn "=" with
    | [a, v] => if a == k then some v else none
    | _ => none).head?).getD ""

def natList (s : String) (sep : String) : List Nat := if s == "-" || s.isEmpty then [] else (s.splitOn sep).map parseNat!

def pktList (s : String) : List (List Nat) := if s == "-" || s.isEmpty then [] else (s.splitOn ";").map (natList · ",")

/-- returns (state, model result — `none` for lines that are not compared —, predicate violations) -/
def step (st : St) (op impl : List String) : St × Option String × List String :=
  let (spec, viol) := ResetSpec.step st.spec op impl
  let st := { st with spec := spec }
  let fin (s : Sys) (res : String) : St × Option String × List String :=
    let pa := (newlyPerformed st.s.a s.a).foldl (fun p r => p.remember (rsn32 r)) st.pa
    let pb := (newlyPerformed st.s.b s.b).foldl (fun p r => p.remember (rsn32 r)) st.pb
    ({ st with s := s, ora := [], pa := pa, pb := pb }, some s!"{res} | {both s pa pb}", viol)
  match op with
  | ["new", il, ta, tb] =>
    let s0 := Sys.init (il == "1") (parseNat! ta) (parseNat! tb)
    let mo := parseNat! (kvOf impl "maxoff")
    let bf := parseNat! (kvOf impl "buf")
    let s : Sys := { s0 with a := { s0.a with maxOff := mo, buf := bf }, b := { s0.b with maxOff := mo, buf := bf } }
    ({ st with s := s, ora := [], pa := {}, pb := {} }, some s!"maxoff={mo} acc={s.a.accCap} maxreq={s.a.maxReq} buf={bf} | {both s {} {}}", viol)
  | ["shift", _] => (st, none, viol)
  | ["remember", x, rsn, q] =>
    -- white-box bulk op on the exact bookkeeping (not an operation of the two-endpoint model)
    let x := side x
    let p := (if x then st.pb else st.pa).remember (rsn32 (parseNat! rsn))
    let e := st.s.ep x
    let s := st.s.setEp x { e with perf := if e.perf.contains (parseNat! rsn) then e.perf else parseNat! rsn :: e.perf }
    let st := if x then { st with pb := p, s := s } else { st with pa := p, s := s }
    (st, some s!"newest={p.newest.toNat} size={p.set.length} has={b2s (p.has (rsn32 (parseNat! q)))}", viol)
  | "ora" :: rest => ({ st with ora := rest }, none, viol)
  | "st" :: _ => (st, none, viol)
  | ["open", x, sid] =>
    let x := side x
    let sid := parseNat! sid
    let r := openStream (st.s.ep x) sid 0
    let q := st.s.quiet sid
    fin (st.s.step (.openS x sid)) s!"h={r.2.1} new={b2s r.2.2} q={b2s q}"
  | ["write", x, h, len, u, m] =>
    let x := side x
    let r := write (st.s.ep x) (parseNat! h) (parseNat! len) (u == "1") (parseNat! m)
    let res := match r.2 with
      | .ok n => s!"{n} nil"
      | .noHandle => "0 nohandle"
      | .closed => "0 streamclosed"
      | .unsupported => "0 unsupported"
    fin (st.s.step (.write x (parseNat! h) (parseNat! len) (u == "1") (parseNat! m))) res
  | ["close", x, h] =>
    let x := side x
    let r := close (st.s.ep x) (parseNat! h)
    fin (st.s.step (.close x (parseNat! h))) (if r.2 then "nil" else "nohandle")
  | ["read", x, h] =>
    let x := side x
    let r := read (st.s.ep x) (parseNat! h)
    let res := match r.2 with
      | none => "nohandle"
      | some (ids, eof) => ",".intercalate (ids.map toString ++ [if eof then "EOF" else "empty"])
    fin (st.s.step (.read x (parseNat! h))) res
  | ["accept", x] =>
    let x := side x
    let r := accept (st.s.ep x)
    let res := match r.2 with
      | none => "none"
      | some h => s!"h={h} sid={match (st.s.ep x).objs[h]? with | some o => o.sid | none => 0}"
    fin (st.s.step (.accept x)) res
  | ["gather", x] =>
    let x := side x
    let sel := natList (kvOf st.ora "sel") ","
    let pre := pktList (kvOf st.ora "pre")
    let post := pktList (kvOf st.ora "post")
    let sack := kvOf st.ora "sack" != "0" && kvOf st.ora "sack" != ""
    let n := (st.s.hist x).length
    match gather (st.s.ep x) sel pre post sack with
    | none => fin st.s "impossible-oracle"
    | some _ =>
      let s := st.s.step (.gather x sel pre post sack)
      fin s (outStr ((s.hist x).drop n))
  | ["deliver", x, i] =>
    let x := side x
    match (st.s.hist x)[parseNat! i]? with
    | none => fin st.s "nopacket"
    | some p =>
      -- the two-endpoint model keeps every performed RSN; the exact set may have trimmed it
      let exact := if x then st.pa else st.pb
      let mism := match p with
        | .req rsn _ _ => exact.has (rsn32 rsn) != (st.s.ep (!x)).perf.contains rsn
        | _ => false
      fin (st.s.step (.deliver x (parseNat! i))) (s!"{pktStr p} => nil" ++ (if mism then " PERFORMED-SET-ABSTRACTION-LEFT" else ""))
  | ["trc", x] => fin (st.s.step (.trc (side x))) "ok"
  | ["t3", x] => fin (st.s.step (.t3 (side x))) "ok"
  | _ => (st, some "bad-op", viol)

end Drv.RsD
