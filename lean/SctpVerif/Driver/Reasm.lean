import SctpVerif.Model.Reasm
import SctpVerif.Spec.ReasmSpec
import SctpVerif.Driver.Util
/-! line protocol for `reasm …` ops (see go/harness/reasm_test.go): L0 step + the predicates of
`Spec/ReasmSpec.lean` on the implementation's results -/
namespace Drv.Reasm
open Drv

structure St where
  q : _root_.Reasm.Q := _root_.Reasm.new 0 0
  g : ReasmSpec.Ghost := {}
  deriving Inhabited

/-- same bytes as `vPayload` in the Go harness. -/
def payload (seed : UInt32) (n : Nat) : List UInt8 :=
  (List.range n).map fun i => (((seed + i.toUInt32) * 2654435761) >>> 24).toUInt8

/-- FNV-1a/64, printed in hex like `strconv.FormatUint(h, 16)`. -/
def hash (bs : List UInt8) : String :=
  let h := bs.foldl (fun (h : UInt64) b => (h ^^^ b.toUInt64) * 0x100000001b3) 0xcbf29ce484222325
  String.ofList (Nat.toDigits 16 h.toNat)

def fmtState (q : _root_.Reasm.Q) : String :=
  s!"{q.getNumBytes} {q.heldBytes} {q.orderedDataEntryCount} {q.unorderedDataEntryCount} {q.orderedMID.length} {q.unorderedMIDEntryCount} 1"

def fmtErr : _root_.Reasm.Err → String
  | .none => "none" | .dataLimit => "datalimit" | .midLimit => "midlimit" | .panic => "panic"

def fmtRErr : _root_.Reasm.RErr → String
  | .ok => "ok" | .tryAgain => "again" | .shortBuffer => "short"

def bit (s : String) (i : Nat) : Bool := (s.toList.getD i '0') == '1'

def parseTag (s : String) : Option Nat :=
  if s.startsWith "m" then (s.drop 1).toNat? else none

/-- the last 7 tokens of every result are the state observation. -/
def stateToks (impl : List String) : List String := impl.drop (impl.length - 7)

def withState (g : ReasmSpec.Ghost) (impl : List String) (e : Option String) : Option String :=
  match e with
  | some m => some m
  | none => g.observeState (stateToks impl)

def step (st : St) (op : List String) (impl : List String) : St × String × Option String :=
  let fwd (q : _root_.Reasm.Q) (g : ReasmSpec.Ghost) : St × String × Option String :=
    ({ st with q := q, g := g }, s!"{b2s q.isReadable} {fmtState q}", withState g impl none)
  match op with
  | "new" :: si :: me :: rest =>
    let q := _root_.Reasm.new (BitVec.ofNat 16 (parseNat! si)) (tsn me)
    let g := ReasmSpec.Ghost.init (rest.head? == some "honest") (parseNat! me)
    ({ q := q, g := g }, fmtState q, withState g impl none)
  | ["msg", id, ou, key, ppi, len, h] =>
    ({ st with g := st.g.addMsg (parseNat! id) (ou == "o") (parseNat! key) (parseNat! ppi) (parseNat! len) h }, "", none)
  | ["abandon", id] => ({ st with g := st.g.noteAbandon (parseNat! id) }, "", none)
  | ["drained"] => (st, fmtState st.q, withState st.g impl st.g.observeDrained)
  | "push" :: kind :: t :: si :: ssn :: mid :: fsn :: fl :: ppi :: len :: seed :: rest =>
    let c : _root_.Reasm.Chunk :=
      { tsn := tsn t, si := BitVec.ofNat 16 (parseNat! si), ssn := BitVec.ofNat 16 (parseNat! ssn), mid := tsn mid,
        fsn := tsn fsn, unordered := bit fl 0, bf := bit fl 1, ef := bit fl 2, iData := kind == "i", ppi := tsn ppi,
        userData := payload (parseNat! seed).toUInt32 (parseNat! len) }
    let (q, complete, err) := st.q.pushWithError c
    let g := st.g.notePush (rest.head?.bind parseTag)
    ({ st with q := q, g := g }, s!"{b2s complete} {fmtErr err} {fmtState q}", withState g impl none)
  | ["read", n] =>
    let (q, r) := st.q.read (parseNat! n)
    let res := s!"{r.n} {r.ppi.toNat} {fmtRErr r.err} {if r.err == .ok then hash r.data else "-"} {fmtState q}"
    match impl with
    | in_ :: ippi :: ierr :: ih :: _ =>
      let (g, e) := st.g.observeRead (parseNat! in_) (parseNat! ippi) ierr ih
      ({ st with q := q, g := g }, res, withState g impl e)
    | _ => ({ st with q := q }, res, some "unparsable read result")
  | ["readable"] => (st, s!"{b2s st.q.isReadable} {fmtState st.q}", withState st.g impl none)
  | ["fwdO", s] => fwd (st.q.forwardTSNForOrdered (BitVec.ofNat 16 (parseNat! s))) st.g.noteOrderedForward
  | ["fwdU", t] => fwd (st.q.forwardTSNForUnordered (tsn t)) st.g
  | ["fwdOM", m] => fwd (st.q.forwardTSNForOrderedMID (tsn m)) st.g.noteOrderedForward
  | ["fwdUM", m] => fwd (st.q.forwardTSNForUnorderedMID (tsn m)) st.g
  | ["nbytes"] => (st, fmtState st.q, withState st.g impl none)
  | _ => (st, "bad-op", none)

end Drv.Reasm
