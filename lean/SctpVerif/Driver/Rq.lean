import SctpVerif.Model.RecvQ
import SctpVerif.Spec.SackSpec
import SctpVerif.Driver.Util
/-! line protocol for `rq …` ops: L0 step + ghost predicate P_C05 on the implementation's result -/
namespace Drv.Rq
open Drv

structure St where
  q : RecvQ.Q := RecvQ.new 64
  g : SackSpec.Ghost := SackSpec.Ghost.init 0
  deriving Inhabited

def fmtGaps (gs : List (BitVec 16 × BitVec 16)) : String :=
  orNone (joinWith "," (gs.map fun (a, b) => s!"{a.toNat}-{b.toNat}"))

def parseGaps (s : String) : List (Nat × Nat) :=
  if s == "none" then [] else
  (s.splitOn ",").filterMap fun b => match b.splitOn "-" with
    | [x, y] => some (parseNat! x, parseNat! y)
    | _ => none

/-- returns (new state, model result, property-violation message).
`impl` = the implementation's recorded result tokens. -/
def step (st : St) (op : List String) (impl : List String) : St × String × Option String :=
  match op with
  | ["new", m] =>
    let q := RecvQ.new (tsn m)
    ({ st with q := q, g := SackSpec.Ghost.init q.cum }, s!"{q.maxOff.toNat} {q.W}", none)
  | ["init", c] =>
    ({ st with q := RecvQ.init st.q (tsn c), g := SackSpec.Ghost.init (tsn c) }, "", none)
  | ["has", t] => (st, b2s (RecvQ.hasChunk st.q (tsn t)), none)
  | ["can", t] => (st, b2s (RecvQ.canPush st.q (tsn t)), none)
  | ["push", t] =>
    let (q, r) := RecvQ.push st.q (tsn t)
    let (g, e) := if impl == ["1"] then st.g.accept (tsn t) else (st.g, none)
    ({ st with q := q, g := g }, b2s r, e)
  | ["pop", f] =>
    let (q, r) := RecvQ.pop st.q (f == "1")
    let res := s!"{b2s r} {q.cum.toNat}"
    match impl with
    | [ir, ic] =>
      -- ghost: a forced pop that found nothing explicitly skips the TSN it stepped over
      let g := if f == "1" && ir == "0" then st.g.skip (tsn ic) else st.g
      let (g, e) := g.observeCum (tsn ic)
      ({ st with q := q, g := g }, res, e)
    | _ => ({ st with q := q }, res, some "unparsable pop result")
  | ["adv", c] =>
    let q := RecvQ.advance st.q (tsn c)
    -- ghost: FORWARD-TSN tells the receiver to skip everything up to c (when c is ahead)
    let g := if Gen.sna32LT st.g.cum (tsn c) then st.g.skip (tsn c) else st.g
    match impl with
    | [ic] => let (g, e) := g.observeCum (tsn ic); ({ st with q := q, g := g }, toString q.cum.toNat, e)
    | _ => ({ st with q := q }, toString q.cum.toNat, some "unparsable adv result")
  | ["gaps"] =>
    let r := s!"{st.q.cum.toNat} {fmtGaps (RecvQ.gaps st.q)}"
    match impl with
    | [c, bl] =>
      let (g, e) := st.g.observeSack (tsn c) (parseGaps bl)
      ({ st with g := g }, r, e)
    | _ => (st, r, some "unparsable gaps result")
  | ["dups"] =>
    let (q, d) := RecvQ.popDuplicates st.q
    ({ st with q := q }, orNone (joinWith "," (d.map fun t => toString t.toNat)), none)
  | ["last"] => (st, match RecvQ.lastTSN st.q with | none => "none" | some t => toString t.toNat, none)
  | ["st"] =>
    let r := s!"{st.q.cum.toNat} {st.q.size}"
    match impl with
    | [c, _] => let (g, e) := st.g.observeCum (tsn c); ({ st with g := g }, r, e)
    | _ => (st, r, none)
  | _ => (st, "bad-op", none)

end Drv.Rq
