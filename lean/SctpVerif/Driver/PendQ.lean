import SctpVerif.Model.PendQ
import SctpVerif.Spec.SchedSpec
import SctpVerif.Driver.Util
/-! line protocol for `pend …` ops: L0 step (Float instance) + ghost predicate P_C17 (scheduler half)
on the implementation's results -/
namespace Drv.Pend
open Drv PendQ

structure St where
  q : PQ Float := PQ.new .none
  g : SchedSpec.Ghost := {}
  dead : Bool := false
  strict : Bool := false
  deriving Inhabited

def errS : Err → String
  | .unexpectedUnordered => "eUnord"
  | .unexpectedOrdered => "eOrd"
  | .unexpectedStream => "eStream"
  | .qState => "eQState"
  | .modeChangeNonEmpty => "eNonEmpty"
  | .nilScheduler => "eNilSched"
  | .invalidWeight => "eWeight"

def popS : PopRes → String
  | .ok => "ok"
  | .err e => errS e
  | .panic => "panic"

def idS : Option Chunk → String
  | none => "nil"
  | some c => toString c.id

def counters (q : PQ Float) : String := s!"{q.nBytes} {q.nChunks}"

def mkChunk (id si u b e len : String) : Chunk :=
  { id := parseNat! id, sid := parseNat! si, unordered := u == "1", b := b == "1", e := e == "1", len := parseNat! len }

def gChunk (c : Chunk) : SchedSpec.GChunk :=
  { id := c.id, sid := c.sid, u := c.unordered, b := c.b, e := c.e, len := c.len }

/-- `pend new` tokens → (result of WithInterleavingOptions, factory handed to newPendingQueue) -/
def configure (toks : List String) : String × Factory := Id.run do
  let mut opts : List Opt := []
  let mut zeros : List Nat := []
  let mut defaults := false
  for t in toks do
    if t == "rr" then opts := opts ++ [.rr]
    else if t == "wfq" then opts := opts ++ [.wfq]
    else if t == "fnil" then opts := opts ++ [.factoryNil]
    else if t == "fnilsched" then opts := opts ++ [.factoryNilSched]
    else if t == "nilopt" then opts := opts ++ [.nilOpt]
    else if t == "defaults" then defaults := true
    else if t.startsWith "w:" then
      match t.splitOn ":" with
      | [_, s, w] => opts := opts ++ [.weight (parseNat! s) (parseNat! w)]
      | _ => pure ()
    else if t.startsWith "z:" then zeros := zeros ++ [parseNat! (t.drop 2).toString]
  let mut cur : Option Settings := none
  let mut res := "ok"
  if !opts.isEmpty then
    match withInterleavingOptions cur opts with
    | .ok s => cur := s
    | .error e => res := errS e
  if !zeros.isEmpty then
    let mut s := cur.getD {}
    for z in zeros do
      s := { s with wfqWeights := s.wfqWeights.set z 0 }
    cur := some (setWFQ s)
  if defaults then cur := applyDefaults cur
  return (res, factoryOfConfig cur)

/-- returns (new state, model result, property-violation message). -/
def step (st : St) (op : List String) (impl : List String) : St × String × Option String :=
  match op with
  | ["strict"] => ({ st with strict := true }, "", none)
  | "new" :: toks =>
    let (res, f) := configure toks
    let g := { SchedSpec.Ghost.configure toks with strict := st.strict }
    ({ st with q := PQ.new f, g := g, dead := false }, res, none)
  | _ =>
  if st.dead then (st, "dead", none) else
  match op with
  | ["push", id, si, u, b, e, len] =>
    let c := mkChunk id si u b e len
    let q := st.q.push c
    let g := st.g.push (gChunk c)
    let pe := match impl with
      | [nb, nc] => g.checkCounters nb nc
      | _ => some "unparsable push result"
    ({ st with q := q, g := g }, counters q, pe)
  | ["peek"] =>
    let (q, r) := st.q.peek
    let res := match r with
      | .panic => "panic"
      | .chunk c => idS c
    -- ghost: remember what the implementation selected (a later push makes the selection stale)
    let g := match impl with
      | [x] => match x.toNat? with
        | some id => if st.g.cached.isNone then { st.g with cached := some id, pushedSinceCached := false } else st.g
        | none => st.g
      | _ => st.g
    ({ st with q := q, g := g, dead := r == .panic }, res, none)
  | ["pop"] =>
    let (q, r) := st.q.step .pop
    let (res, dead) := match r with
      | .popped c pr => (s!"{idS c} {popS pr} {counters q}", pr == .panic)
      | _ => ("?", false)
    match impl with
    | [iid, ires, nb, nc] =>
      let (g, pe) :=
        if ires == "ok" then
          match iid.toNat? with
          | some id => st.g.pop id
          | none => (st.g, none)
        else ({ st.g with tainted := true }, none)   -- pop error / panic: only ACC from here on
      -- one report per sequence for the scheduling clauses: after a violation only ACC continues
      let g := if pe.isSome then { g with tainted := true } else g
      let pe := pe <|> g.checkCounters nb nc
      ({ st with q := q, g := g, dead := dead }, res, pe)
    | _ => ({ st with q := q, dead := dead }, res, some "unparsable pop result")
  | ["rawpop", id, si, u, b, e, len] =>
    let c := mkChunk id si u b e len
    let (q, r) := st.q.pop c
    let res := s!"{popS r} {counters q}"
    match impl with
    | [ires, nb, nc] =>
      -- ghost accounting: a raw pop that succeeded removed that chunk
      let g := { st.g with tainted := true }
      let g := if ires == "ok" then
          let q' := (g.queue c.sid).filter (·.id != c.id)
          { g with queues := SchedSpec.insert g.queues c.sid q', nBytes := g.nBytes - c.len, nChunks := g.nChunks - 1,
                   nzQueued := g.nzQueued - (if c.len != 0 then 1 else 0) }
        else g
      ({ st with q := q, g := g, dead := r == .panic }, res, g.checkCounters nb nc)
    | _ => ({ st with q := q, dead := r == .panic }, res, some "unparsable rawpop result")
  | ["popnil"] =>
    let (q, r) := st.q.popNil
    ({ st with q := q, g := { st.g with tainted := true }, dead := r == .panic }, s!"{popS r} {counters q}", none)
  | ["setil", b] =>
    let (q, e) := st.q.setInterleaving (b == "1")
    let res := match e with
      | none => "ok"
      | some e => errS e
    let (g, pe) := match impl with
      | [ires] => st.g.setil (b == "1") ires
      | _ => (st.g, some "unparsable setil result")
    ({ st with q := q, g := g }, res, pe)
  | ["size"] => (st, toString st.q.nChunks, match impl with
      | [n] => if n.toInt? == some (st.g.nChunks : Int) then none else some s!"ACC: size() = {n} but {st.g.nChunks} chunks are pushed and not popped"
      | _ => none)
  | ["nbytes"] => (st, toString st.q.nBytes, match impl with
      | [n] => if n.toInt? == some (st.g.nBytes : Int) then none else some s!"ACC: getNumBytes() = {n} but {st.g.nBytes} bytes are pushed and not popped"
      | _ => none)
  | _ => (st, "bad-op", none)

end Drv.Pend
