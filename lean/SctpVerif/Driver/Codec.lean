import SctpVerif.Model.Codec
import SctpVerif.Spec.CodecSpec
import SctpVerif.Driver.Util
/-!
Line protocol for `codec …` ops: canonical struct dump (parser + printer, the same grammar as
go/harness/codec_test.go), L0 step, and the predicates of Spec/CodecSpec.lean evaluated on the
implementation's recorded results.

Grammar (tokens separated by one space, numbers decimal, byte strings lowercase hex, `-` = empty):
```
P <sport> <dport> <vtag> <n> chunk*
chunk: DATA <i> <UBEI bits> <tsn> <si> <ssn> <mid> <fsn> <ppi> <hex>
     | INIT|INITACK <flags> <tag> <arwnd> <nout> <nin> <itsn> <np> param* <nu> (<typ> <hex>)*
     | SACK <flags> <cum> <arwnd> <ng> (<start> <end>)* <nd> <tsn>*
     | HB 0 <typ> <flags> <hex> | HB <np≥1> param*
     | HBACK <flags> <np> param*
     | ABORT|ERROR <nc> (<kind> <code> <hex>)*        kind: hdr invparam unrecchunk pviol uabort
     | SHUTDOWN <flags> <cum>
     | SHUTDOWNACK|SHUTDOWNCOMPLETE|COOKIEACK|COOKIEECHO <flags> <hex>
     | RECONFIG <flags> <np 1|2> param+
     | FWDTSN <flags> <cum> <n> (<si> <ssn>)*
     | IFWDTSN <flags> <cum> <n> (<si> <u> <mid>)*
param: hbinfo <hex> | cookie <hex> | outreset <req> <resp> <last> <n> <sid>* | reconfresp <sn> <result>
     | ecn | zerock <edmid> | random <hex> | chunklist <hex> | hmac <n> <algo>* | supext <hex> | fwdtsn
```
-/
namespace Drv.Cdc
open Drv _root_.Codec

/-! ### hex -/
def hexDigit (n : Nat) : Char := if n < 10 then Char.ofNat (48 + n) else Char.ofNat (87 + n)
def toHex (b : Bytes) : String :=
  if b.isEmpty then "-" else
  String.ofList (b.foldr (fun x acc => hexDigit (x.toNat / 16) :: hexDigit (x.toNat % 16) :: acc) [])
def hexVal (c : Char) : Option Nat :=
  if '0' ≤ c ∧ c ≤ '9' then some (c.toNat - 48)
  else if 'a' ≤ c ∧ c ≤ 'f' then some (c.toNat - 87)
  else if 'A' ≤ c ∧ c ≤ 'F' then some (c.toNat - 55)
  else none
def parseHexAux : List Char → List Byte → Option Bytes
  | [], acc => some acc.reverse
  | a :: b :: rest, acc =>
    match hexVal a, hexVal b with
    | some x, some y => parseHexAux rest (BitVec.ofNat 8 (x * 16 + y) :: acc)
    | _, _ => none
  | _, _ => none
def parseHex (s : String) : Option Bytes := if s == "-" then some [] else parseHexAux s.toList []

/-! ### printer -/
def n8 (v : BitVec 8) : String := toString v.toNat
def n16 (v : BitVec 16) : String := toString v.toNat
def n32 (v : BitVec 32) : String := toString v.toNat

def paramToks : Param → List String
  | .heartbeatInfo i => ["hbinfo", toHex i]
  | .stateCookie c => ["cookie", toHex c]
  | .outReset a b c s => ["outreset", n32 a, n32 b, n32 c, toString s.length] ++ s.map n16
  | .reconfigResp sn r => ["reconfresp", n32 sn, n32 r]
  | .ecnCapable => ["ecn"]
  | .zeroChecksum e => ["zerock", n32 e]
  | .random d => ["random", toHex d]
  | .chunkList t => ["chunklist", toHex t]
  | .reqHmac a => ["hmac", toString a.length] ++ a.map n16
  | .supportedExt t => ["supext", toHex t]
  | .fwdTsnSupported => ["fwdtsn"]

def kindTok : CauseKind → String
  | .hdr => "hdr" | .invalidMandatory => "invparam" | .unrecognizedChunk => "unrecchunk"
  | .protocolViolation => "pviol" | .userAbort => "uabort"
def causeToks (c : Cause) : List String := [kindTok c.kind, n16 c.code, toHex c.data]

def initToks (f : Byte) (c : InitCommon) : List String :=
  [n8 f, n32 c.tag, n32 c.arwnd, n16 c.nOut, n16 c.nIn, n32 c.itsn, toString c.params.length]
  ++ (c.params.map paramToks).flatten ++ [toString c.unrec.length]
  ++ (c.unrec.map fun u => [n16 u.1, toHex u.2]).flatten

def chunkToks : Chunk → List String
  | .data i u b e im tsn si ssn mid fsn ppi ud =>
    ["DATA", b2s i, b2s u ++ b2s b ++ b2s e ++ b2s im, n32 tsn, n16 si, n16 ssn, n32 mid, n32 fsn, n32 ppi, toHex ud]
  | .init f c => "INIT" :: initToks f c
  | .initAck f c => "INITACK" :: initToks f c
  | .sack f cum a gaps dups =>
    ["SACK", n8 f, n32 cum, n32 a, toString gaps.length] ++ (gaps.map fun g => [n16 g.1, n16 g.2]).flatten
    ++ [toString dups.length] ++ dups.map n32
  | .heartbeat ps => ["HB", toString ps.length] ++ (ps.map paramToks).flatten
  | .heartbeatEmpty t f raw => ["HB", "0", n8 t, n8 f, toHex raw]
  | .heartbeatAck f ps => ["HBACK", n8 f, toString ps.length] ++ (ps.map paramToks).flatten
  | .abort cs => ["ABORT", toString cs.length] ++ (cs.map causeToks).flatten
  | .error cs => ["ERROR", toString cs.length] ++ (cs.map causeToks).flatten
  | .shutdown f cum => ["SHUTDOWN", n8 f, n32 cum]
  | .shutdownAck f raw => ["SHUTDOWNACK", n8 f, toHex raw]
  | .shutdownComplete f raw => ["SHUTDOWNCOMPLETE", n8 f, toHex raw]
  | .cookieEcho f c => ["COOKIEECHO", n8 f, toHex c]
  | .cookieAck f raw => ["COOKIEACK", n8 f, toHex raw]
  | .reconfig f a b =>
    ["RECONFIG", n8 f, (match b with | some _ => "2" | none => "1")] ++ paramToks a
    ++ (match b with | some b => paramToks b | none => [])
  | .forwardTsn f cum ss => ["FWDTSN", n8 f, n32 cum, toString ss.length] ++ (ss.map fun s => [n16 s.1, n16 s.2]).flatten
  | .iForwardTsn f cum ss =>
    ["IFWDTSN", n8 f, n32 cum, toString ss.length] ++ (ss.map fun s => [n16 s.1, b2s s.2.1, n32 s.2.2]).flatten

def packetToks (p : Packet) : List String :=
  ["P", n16 p.sport, n16 p.dport, n32 p.vtag, toString p.chunks.length] ++ (p.chunks.map chunkToks).flatten
def packetStr (p : Packet) : String := " ".intercalate (packetToks p)

/-! ### parser -/
abbrev Prs := StateT (List String) Option

def tok : Prs String := fun s => match s with | t :: r => some (t, r) | [] => none
def pNat : Prs Nat := do let t ← tok; match t.toNat? with | some n => pure n | none => failure
def pBV (w : Nat) : Prs (BitVec w) := do
  let n ← pNat
  if n < 2 ^ w then pure (BitVec.ofNat w n) else failure
def pBool : Prs Bool := do let t ← tok; if t == "1" then pure true else if t == "0" then pure false else failure
def pHex : Prs Bytes := do let t ← tok; match parseHex t with | some b => pure b | none => failure
def pMany {α : Type} (p : Prs α) : Nat → Prs (List α)
  | 0 => pure []
  | n+1 => do let x ← p; let xs ← pMany p n; pure (x :: xs)

def pParam : Prs Param := do
  let k ← tok
  match k with
  | "hbinfo" => return .heartbeatInfo (← pHex)
  | "cookie" => return .stateCookie (← pHex)
  | "outreset" => do
    let a ← pBV 32; let b ← pBV 32; let c ← pBV 32; let n ← pNat
    return .outReset a b c (← pMany (pBV 16) n)
  | "reconfresp" => do let a ← pBV 32; let b ← pBV 32; return .reconfigResp a b
  | "ecn" => return .ecnCapable
  | "zerock" => return .zeroChecksum (← pBV 32)
  | "random" => return .random (← pHex)
  | "chunklist" => return .chunkList (← pHex)
  | "hmac" => do let n ← pNat; return .reqHmac (← pMany (pBV 16) n)
  | "supext" => return .supportedExt (← pHex)
  | "fwdtsn" => return .fwdTsnSupported
  | _ => failure

def pCause : Prs Cause := do
  let k ← tok
  let kind ← match k with
    | "hdr" => pure CauseKind.hdr | "invparam" => pure .invalidMandatory | "unrecchunk" => pure .unrecognizedChunk
    | "pviol" => pure .protocolViolation | "uabort" => pure .userAbort | _ => failure
  let code ← pBV 16
  let d ← pHex
  return { kind, code, data := d }

def pInit : Prs (Byte × InitCommon) := do
  let f ← pBV 8; let tag ← pBV 32; let arwnd ← pBV 32; let nOut ← pBV 16; let nIn ← pBV 16; let itsn ← pBV 32
  let np ← pNat
  let ps ← pMany pParam np
  let nu ← pNat
  let us ← pMany (do let t ← pBV 16; let h ← pHex; pure (t, h)) nu
  return (f, { tag, arwnd, nOut, nIn, itsn, params := ps, unrec := us })

def pFlags4 : Prs (Bool × Bool × Bool × Bool) := do
  let t ← tok
  match t.toList with
  | [a, b, c, d] =>
    let f (x : Char) : Option Bool := if x == '1' then some true else if x == '0' then some false else none
    match f a, f b, f c, f d with
    | some a, some b, some c, some d => pure (a, b, c, d)
    | _, _, _, _ => failure
  | _ => failure

def pChunk : Prs Chunk := do
  let k ← tok
  match k with
  | "DATA" => do
    let i ← pBool; let (u, b, e, im) ← pFlags4
    let tsn ← pBV 32; let si ← pBV 16; let ssn ← pBV 16; let mid ← pBV 32; let fsn ← pBV 32; let ppi ← pBV 32
    return .data i u b e im tsn si ssn mid fsn ppi (← pHex)
  | "INIT" => do let (f, c) ← pInit; return .init f c
  | "INITACK" => do let (f, c) ← pInit; return .initAck f c
  | "SACK" => do
    let f ← pBV 8; let cum ← pBV 32; let a ← pBV 32
    let ng ← pNat
    let gaps ← pMany (do let s ← pBV 16; let e ← pBV 16; pure (s, e)) ng
    let nd ← pNat
    return .sack f cum a gaps (← pMany (pBV 32) nd)
  | "HB" => do
    let n ← pNat
    if n = 0 then do let t ← pBV 8; let f ← pBV 8; return .heartbeatEmpty t f (← pHex)
    else return .heartbeat (← pMany pParam n)
  | "HBACK" => do let f ← pBV 8; let n ← pNat; return .heartbeatAck f (← pMany pParam n)
  | "ABORT" => do let n ← pNat; return .abort (← pMany pCause n)
  | "ERROR" => do let n ← pNat; return .error (← pMany pCause n)
  | "SHUTDOWN" => do let f ← pBV 8; return .shutdown f (← pBV 32)
  | "SHUTDOWNACK" => do let f ← pBV 8; return .shutdownAck f (← pHex)
  | "SHUTDOWNCOMPLETE" => do let f ← pBV 8; return .shutdownComplete f (← pHex)
  | "COOKIEECHO" => do let f ← pBV 8; return .cookieEcho f (← pHex)
  | "COOKIEACK" => do let f ← pBV 8; return .cookieAck f (← pHex)
  | "RECONFIG" => do
    let f ← pBV 8; let n ← pNat
    let a ← pParam
    if n = 2 then return .reconfig f a (some (← pParam))
    else if n = 1 then return .reconfig f a none else failure
  | "FWDTSN" => do
    let f ← pBV 8; let cum ← pBV 32; let n ← pNat
    return .forwardTsn f cum (← pMany (do let s ← pBV 16; let q ← pBV 16; pure (s, q)) n)
  | "IFWDTSN" => do
    let f ← pBV 8; let cum ← pBV 32; let n ← pNat
    return .iForwardTsn f cum (← pMany (do let s ← pBV 16; let u ← pBool; let m ← pBV 32; pure (s, u, m)) n)
  | _ => failure

def pPacket : Prs Packet := do
  let k ← tok
  if k != "P" then failure
  let sport ← pBV 16; let dport ← pBV 16; let vtag ← pBV 32; let n ← pNat
  return { sport, dport, vtag, chunks := (← pMany pChunk n) }

/-- all tokens must be consumed -/
def parsePacket (toks : List String) : Option Packet :=
  match pPacket.run toks with
  | some (p, []) => some p
  | _ => none

/-! ### results -/
def errName (e : Err) : String := (reprStr e).replace "Codec.Err." ""

def resStr {α : Type} (f : α → String) : Res α → String
  | .ok a => "ok " ++ f a
  | .err e => "err " ++ errName e
  | .panic => "PANIC"
  | .loop => "LOOP"

/-- the implementation's result tokens: `ok …` / `err <class>` / `PANIC …` / `TIMEOUT` -/
inductive Impl (α : Type) | ok (a : α) | err (cls : String) | bad (why : String)
def implPacket (impl : List String) : Impl Packet :=
  match impl with
  | "ok" :: rest => (match parsePacket rest with | some p => .ok p | none => .bad "unparsable struct")
  | ["err", c] => .err c
  | t :: _ => .bad t
  | [] => .bad "empty"
def implHex (impl : List String) : Impl Bytes :=
  match impl with
  | ["ok", h] => (match parseHex h with | some b => .ok b | none => .bad "unparsable hex")
  | ["err", c] => .err c
  | t :: _ => .bad t
  | [] => .bad "empty"

structure St where
  /-- last `enc`: the struct and the implementation's bytes -/
  lastEnc : Option (Packet × Bytes) := none
  /-- last `dec`: flag, bytes, the implementation's packet (if accepted) -/
  lastDec : Option (Bool × Bytes × Option Packet) := none
  /-- `part` results since the last `dec`: (bytes, implementation's packet) in order -/
  parts : List (Bytes × Option Packet) := []
  /-- last `reenc`: struct the implementation had decoded, and its re-encoding -/
  reenc : Option (Packet × Bytes) := none
  deriving Inhabited

def firstSome (xs : List (Option String)) : Option String := xs.findSome? id

/-- the decode-side monitors that need no model: no panic, no time-out (C03, decoder part) -/
def noCrash (impl : List String) : Option String :=
  match impl with
  | "PANIC" :: r => some ("C03-decode: the decoder panicked: " ++ " ".intercalate r)
  | "TIMEOUT" :: _ => some "C03-decode: the decoder did not return within its time box"
  | _ => none

def isChecksumErr (impl : List String) : Bool := impl == ["err", "ErrChecksumMismatch"]
def isRejected (impl : List String) : Bool := impl.head? == some "err"

/-- does the harness's set of `part` packets equal the split of the bundle? returns the expected
number of parts, or none if the bundle does not tile -/
def expectedParts (whole : Bytes) : Option (List Bytes × Bool) :=
  let hdr := whole.take 12
  match CodecSpec.splitChunks (whole.length / 4 + 1) (whole.drop 12) with
  | none => none
  | some cps =>
    let clean := cps.all fun (c, pd) => pd.length = pad4 c.length && allZero pd
    some (cps.map (fun (c, _) => hdr.take 8 ++ zeros 4 ++ c ++ zeros (pad4 c.length)), clean)

def sameModuloChecksum (a b : Bytes) : Bool := a.take 8 == b.take 8 && a.drop 12 == b.drop 12

def step (st : St) (op impl : List String) : St × String × Option String :=
  match op with
  | ["new"] => ({}, "", none)
  | "enc" :: dc :: toks =>
    match parsePacket toks with
    | none => (st, "bad-struct", none)
    | some p =>
      let r := resStr toHex (Codec.enc (dc == "1") p)
      match implHex impl with
      | .ok b => ({ st with lastEnc := some (p, b) }, r, CodecSpec.marshalFlagPred (dc == "1") b)
      | _ => ({ st with lastEnc := none }, r, none)
  | ["dec", dc, h] =>
    match parseHex h with
    | none => (st, "bad-hex", none)
    | some b =>
      let r := resStr packetStr (Codec.dec (dc == "1") b)
      let got : Option Packet := match implPacket impl with | .ok p => some p | _ => none
      let rt : Option String :=
        match st.lastEnc with
        | some (p, eb) =>
          if eb == b && CodecSpec.inboundVerdict (dc != "1") b then CodecSpec.roundTripPred p got else none
        | none => none
      let e := firstSome [noCrash impl, CodecSpec.inboundPred (dc != "1") b (isRejected impl) (isChecksumErr impl), rt]
      ({ st with lastDec := some (dc == "1", b, got), parts := [] }, r, e)
  | ["part", dc, h] =>
    match parseHex h with
    | none => (st, "bad-hex", none)
    | some b =>
      let r := resStr packetStr (Codec.dec (dc == "1") b)
      let got : Option Packet := match implPacket impl with | .ok p => some p | _ => none
      ({ st with parts := st.parts ++ [(b, got)] }, r, noCrash impl)
  | ["endparts"] =>
    match st.lastDec with
    | none => (st, "no-dec", none)
    | some (dcf, whole, got) =>
      match expectedParts whole with
      | none => ({ st with parts := [] }, "untiled", none)
      | some (exp, clean) =>
        let okSplit := exp.length == st.parts.length &&
          (exp.zip st.parts).all fun (e, (b, _)) => sameModuloChecksum e b
        let r := if okSplit then toString exp.length else "split-mismatch"
        let pv :=
          if okSplit && CodecSpec.inboundVerdict (!dcf) whole then
            CodecSpec.localityPred (got.map (·.chunks)) (st.parts.map fun (_, g) => g.map (·.chunks)) clean
          else none
        ({ st with parts := [] }, r, pv)
  | "reenc" :: dc :: toks =>
    match parsePacket toks with
    | none => (st, "bad-struct", none)
    | some p =>
      let r := resStr toHex (Codec.enc (dc == "1") p)
      -- only meaningful if `p` is what the implementation decoded last
      let isLast := match st.lastDec with | some (_, _, some q) => q == p | _ => false
      if !isLast then ({ st with reenc := none }, r, none) else
      match implHex impl with
      | .ok b => ({ st with reenc := some (p, b) }, r, none)
      | _ => ({ st with reenc := none }, r, CodecSpec.stablePred p false none)
  | ["redec", dc, h] =>
    match parseHex h with
    | none => (st, "bad-hex", none)
    | some b =>
      let r := resStr packetStr (Codec.dec (dc == "1") b)
      let got : Option Packet := match implPacket impl with | .ok p => some p | _ => none
      let pv := match st.reenc with
        | some (p, eb) => if eb == b then CodecSpec.stablePred p true got else none
        | none => none
      ({ st with reenc := none }, r, firstSome [noCrash impl, pv])
  | "out" :: sz :: toks =>
    match parsePacket toks with
    | none => (st, "bad-struct", none)
    | some p =>
      let r := resStr toHex (Codec.marshalPacketWith Crc.crc32c (sz == "1") p)
      match implHex impl with
      | .ok b => (st, r, CodecSpec.outboundPred (sz == "1") p.chunks b)
      | _ => (st, r, none)
  | ["in", rz, h] =>
    match parseHex h with
    | none => (st, "bad-hex", none)
    | some b =>
      let r := resStr packetStr (Codec.unmarshalPacketWith Crc.crc32c (rz == "1") b)
      (st, r, firstSome [noCrash impl, CodecSpec.inboundPred (rz == "1") b (isRejected impl) (isChecksumErr impl)])
  | ["crc", h] =>
    match parseHex h with
    | none => (st, "bad-hex", none)
    | some b => (st, toString (Crc.crc32c b).toNat, none)
  | _ => (st, "bad-op", none)

end Drv.Cdc
