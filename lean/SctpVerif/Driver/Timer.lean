import SctpVerif.Model.Rto
import SctpVerif.Model.Timer
import SctpVerif.Spec.TimerSpec
import SctpVerif.Driver.Util
/-!
Line protocol for the `rto …` and `timer …` components (C19).

`rto`: floats travel as 16 hex digits of their IEEE-754 bits (`nan` for every NaN); the `Float`
instance of the model must reproduce the Go results bit for bit.

`timer`: the driver plays the environment of `Model/Timer.lean` the way the synctest harness does:
`sleep d` fires the armed runtime timer at each deadline `≤ now+d`; unless the harness's gate is
shut (`hold 1`) the spawned callback runs at that same instant, otherwise it stays in `spawned`
until `run` executes the oldest one. All of it is expressed with the model's own `Op`s
(`tick/fire/run`), so every replayed script is one of the op lists the theorems quantify over.
-/
namespace Drv.Tm
open Drv

/-! ## floats on the wire -/

def hexDigit (c : Char) : Option Nat :=
  if '0' ≤ c ∧ c ≤ '9' then some (c.toNat - '0'.toNat)
  else if 'a' ≤ c ∧ c ≤ 'f' then some (c.toNat - 'a'.toNat + 10)
  else none

def parseF (s : String) : Float :=
  if s == "nan" then Gen.fNaN
  else Float.ofBits (UInt64.ofNat (s.toList.foldl (fun acc c => acc * 16 + (hexDigit c).getD 0) 0))

def hex16 (n : Nat) : String :=
  let ds := (List.range 16).reverse.map fun i => "0123456789abcdef".toList[(n >>> (4*i)) % 16]!
  String.ofList ds

def fmtF (x : Float) : String := if x.isNaN then "nan" else hex16 x.toBits.toNat

/-! ## rto -/

structure RtoSt where
  m : Rto.Mgr Float := Rto.F.new 0
  g : TimerSpec.RtoG := {}
  deriving Inhabited

def rtoStep (st : RtoSt) (op impl : List String) : RtoSt × String × Option String :=
  let vals := impl.map parseF
  let pred (args : List Float) : TimerSpec.RtoG × Option String := TimerSpec.rtoCheck st.g op args vals
  match op with
  | ["new", mx] =>
    let m := Rto.F.new (parseF mx)
    let (g, e) := pred []
    ({ m := m, g := g }, s!"{fmtF (Rto.F.getRTO m)} {fmtF m.rtoMax}", e)
  | ["rtt", x] =>
    let (m, ret) := Rto.F.setNewRTT st.m (parseF x)
    let (g, e) := pred [parseF x]
    ({ m := m, g := g }, s!"{fmtF ret} {fmtF (Rto.F.getRTO m)}", e)
  | ["get"] => let (g, e) := pred []; ({ st with g := g }, fmtF (Rto.F.getRTO st.m), e)
  | ["reset"] =>
    let m := Rto.F.reset st.m
    let (g, e) := pred []
    ({ m := m, g := g }, fmtF (Rto.F.getRTO m), e)
  | ["setrto", x, nu] =>
    let m := Rto.F.setRTO st.m (parseF x) (nu == "1")
    let (g, e) := pred []
    ({ m := m, g := g }, fmtF (Rto.F.getRTO m), e)
  | ["next", rto, n, mx] =>
    let (g, e) := pred [parseF rto, parseF mx]
    ({ st with g := g }, fmtF (Gen.calculateNextTimeout_Float (parseF rto) (parseNat! n) (parseF mx)), e)
  | _ => (st, "bad-op", none)

/-! ## timer -/

inductive Sys
  | rtx (s : Timer.RtxSys)
  | ack (s : Timer.AckSys)

instance : Inhabited Sys := ⟨.ack {}⟩

namespace Sys
def step : Sys → Timer.Op → Sys × List Timer.Ev
  | .rtx s, o => let (s', e) := s.step o; (.rtx s', e)
  | .ack s, o => let (s', e) := s.step o; (.ack s', e)
def now : Sys → Nat | .rtx s => s.now | .ack s => s.now
def g : Sys → Timer.GoTimer | .rtx s => s.g | .ack s => s.g
def isRunning : Sys → Bool | .rtx s => s.isRunning | .ack s => s.isRunning
end Sys

structure St where
  sys : Sys := default
  rtoMax : Float := 60000.0     -- rtxTimer.rtoMax after newRTXTimer's defaulting
  holding : Bool := false
  undef : Bool := false         -- a float→Duration conversion Go leaves to the architecture was needed
  spec : TimerSpec.G := {}
  deriving Inhabited

def fmtEv (at_ : Nat) : Timer.Ev → String
  | .timeout id n => s!"{at_}:T{id}.{n}"
  | .failure id => s!"{at_}:F{id}"
  | .ack => s!"{at_}:A"

/-- virtual time advances to `target`; deadlines on the way fire (and run unless held back) -/
def advance (holding : Bool) : Nat → Sys → Nat → Array String → Sys × Array String
  | 0, s, _, acc => (s, acc.push "model-fuel-exhausted")
  | fuel+1, s, target, acc =>
    match s.g.armed with
    | some (dl, _) =>
      if dl ≤ target then
        let s := if dl > s.now then (s.step (.tick (dl - s.now))).1 else s
        let s := (s.step .fire).1
        if holding then advance holding fuel s target acc
        else
          let (s, evs) := s.step (.run (s.g.spawned.length - 1))
          advance holding fuel s target (evs.foldl (fun a e => a.push (fmtEv s.now e)) acc)
      else ((s.step (.tick (target - s.now))).1, acc)
    | none => ((s.step (.tick (target - s.now))).1, acc)

/-- callbacks that became due at the current instant (zero-length intervals) -/
def settle (st : St) (acc : Array String) : Sys × Array String := advance st.holding 100000 st.sys st.sys.now acc

def parseEvs (s : String) : List (Nat × TimerSpec.Ev) :=
  if s == "none" then [] else
  (s.splitOn ",").filterMap fun tok =>
    match tok.splitOn ":" with
    | [t, e] =>
      let at_ := parseNat! t
      if e == "A" then some (at_, .ack)
      else if e.startsWith "T" then
        match (e.drop 1).toString.splitOn "." with
        | [id, n] => some (at_, .timeout (parseNat! id) (parseNat! n))
        | _ => none
      else if e.startsWith "F" then some (at_, .failure (parseNat! (e.drop 1).toString))
      else none
    | _ => none

def field (impl : List String) (key : String) : String :=
  match impl.find? (·.startsWith (key ++ "=")) with
  | some t => (t.drop (key.length + 1)).toString
  | none => ""

def step (st : St) (op impl : List String) : St × String × Option String :=
  -- model
  let (st, ret, evs) : St × String × Array String :=
    match op with
    | ["new", "rtx", id, mr, mx] =>
      let mxF := parseF mx
      ({ sys := .rtx (Timer.RtxSys.new (parseNat! id) (parseNat! mr)),
         rtoMax := if mxF == 0 then Gen.defaultRTOMax_F else mxF,
         spec := { isAck := false, id := parseNat! id, k := parseNat! mr, rtoMax := if mxF == 0 then Gen.defaultRTOMax_F else mxF } }, "-", #[])
    | ["new", "ack"] => ({ sys := .ack {}, spec := { isAck := true } }, "-", #[])
    | "start" :: rest =>
      let rto := match rest with | [r] => parseF r | _ => 0
      let undef := match st.sys with
        | .rtx _ => (List.range 32).any fun n => (Rto.intervalNsF rto n st.rtoMax).isNone
        | .ack _ => false
      let ivl : Nat → Int := fun n => (Rto.intervalNsF rto n st.rtoMax).getD 0
      let (sys, _) := st.sys.step (.start ivl)
      let ok := match st.sys, sys with
        | .rtx a, .rtx b => b.epoch != a.epoch
        | .ack a, .ack b => b.epoch != a.epoch
        | _, _ => false
      let st := { st with sys := sys, undef := st.undef || (ok && undef) }
      let (sys, evs) := settle st #[]
      ({ st with sys := sys }, b2s ok, evs)
    | ["stop"] => let (sys, evs) := settle { st with sys := (st.sys.step .stop).1 } #[]; ({ st with sys := sys }, "-", evs)
    | ["close"] => let (sys, evs) := settle { st with sys := (st.sys.step .close).1 } #[]; ({ st with sys := sys }, "-", evs)
    | ["sleep", d] =>
      let (sys, evs) := advance st.holding 100000 st.sys (st.sys.now + parseNat! d) #[]
      ({ st with sys := sys }, "-", evs)
    | ["hold", b] =>
      let st := { st with holding := b == "1" }
      (st, "-", #[])
    | ["run"] =>
      if st.sys.g.spawned.isEmpty then (st, "0", #[])
      else
        let (sys, evs) := st.sys.step (.run 0)
        let acc := evs.foldl (fun a e => a.push (fmtEv sys.now e)) #[]
        let (sys, acc) := settle { st with sys := sys } acc
        ({ st with sys := sys }, "1", acc)
    | _ => (st, "bad-op", #[])
  let evS := if evs.isEmpty then "none" else ",".intercalate evs.toList
  let res := if st.undef then "undefined-float-to-duration-conversion"
    else s!"now={st.sys.now} ret={ret} run={b2s st.sys.isRunning} held={st.sys.g.spawned.length} ev={evS}"
  -- predicate on the implementation's line
  let rtoArg := match op with | ["start", r] => parseF r | _ => 0
  let (spec, e) :=
    match op with
    | "new" :: _ => (st.spec, none)
    | _ => TimerSpec.timerCheck st.spec op rtoArg (parseNat! (field impl "now")) (field impl "ret")
             (parseNat! (field impl "held")) (parseEvs (field impl "ev"))
  ({ st with spec := spec }, res, e)

end Drv.Tm
