/-! helpers for the line protocol -/
namespace Drv

def parseNat! (s : String) : Nat := s.toNat?.getD 0
def tsn (s : String) : BitVec 32 := BitVec.ofNat 32 (parseNat! s)
def b2s (b : Bool) : String := if b then "1" else "0"
def joinWith (sep : String) (xs : List String) : String := sep.intercalate xs
def orNone (s : String) : String := if s.isEmpty then "none" else s

end Drv
