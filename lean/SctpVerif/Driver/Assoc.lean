import SctpVerif.Spec.SenderSpec
import SctpVerif.Spec.ShiftSpec
import SctpVerif.Driver.Util
/-! line protocol for the direct-drive sender harness (`as …`): predicates only for now -/
namespace Drv.Assoc
open Drv SenderSpec

structure St where
  s : SenderSpec.St := {}
  sh : ShiftSpec.St := {}
  deriving Inhabited

def stepSender (st : SenderSpec.St) (op impl : List String) : SenderSpec.St × List String :=
  match op with
  | "new" :: _mtu :: _rcv :: minCwnd :: _il :: _tsn :: peerRwnd :: _ =>
    match impl with
    | [m, mp] => ({ mtu := parseNat! m, maxPayload := parseNat! mp, minCwnd := parseNat! minCwnd, lastArwnd := parseNat! peerRwnd }, [])
    | _ => ({}, ["[C10] unparsable `as new` result"])
  | ["open", si, _u, _rt, _rv, th] =>
    ({ st with thresh := setKey st.thresh (parseNat! si) (parseNat! th), pendingCheck := some ("open", op) }, [])
  | ["st"] =>
    let post := parseObs impl
    match st.pendingCheck with
    | some (_, pop) =>
      let pre := if st.haveObs then st.obs else post
      -- the op's own result tokens were stashed behind a separator
      let (o, i) := (pop.takeWhile (· != "->"), (pop.dropWhile (· != "->")).drop 1)
      let (st', v) := checkStep st o i pre post
      ({ st' with obs := post, haveObs := true, pendingCheck := none }, v)
    | none => ({ st with obs := post, haveObs := true }, checkObs st post)
  | _ => ({ st with pendingCheck := some ("op", op ++ ["->"] ++ impl) }, [])

def step (st : St) (op impl : List String) : St × List String :=
  let (s, v) := stepSender st.s op impl
  let (sh, e) := ShiftSpec.step st.sh op impl
  ({ s := s, sh := sh }, v ++ e.toList)

end Drv.Assoc
