import SctpVerif.Spec.SenderSpec
import SctpVerif.Spec.ShiftSpec
import SctpVerif.Spec.PolicySpec
import SctpVerif.Model.Sender
import SctpVerif.Driver.Util
import SctpVerif.Driver.Rack
/-!
Line protocol for the direct-drive sender harness (`as …`).

Every line is (1) replayed through the L0 model `Sender` — the model's prediction is returned and compared
with the implementation's result by `Driver/Main` (DIFF on mismatch) — and (2) handed to the executable
predicates of `Spec/SenderSpec` (P_C10 / P_C15), which look at the implementation's results only.

`as ora k=v …` lines precede the op they belong to and carry what the real code decided where the model
has an oracle: `sel` (indices, in the harness' shadow of the pending queue, of the chunks `peek()` returned),
`tlr`/`bud` (burst budget state when the gather started), `rtx` (TSNs flagged for retransmission after the op:
RACK/PTO marks), `t3` (T3 expiries while the clock advanced).

`as rk` / `as rke` lines (white-box RACK / PTO / TLR snapshots) are replayed through `Model/Rack.lean` by
`Driver/Rack.lean`, which derives that model's inputs from the sender model's transition of the preceding op.
-/
namespace Drv.Assoc
open Drv SenderSpec

/-- retransmission-policy bookkeeping for P_C06 on the direct-drive log -/
structure PolSt where
  p : PolicySpec.St := {}
  policy : List (Nat × Nat × Nat) := []   -- si ↦ (relType, relVal)
  dcep : List Nat := []                  -- streams that carried DCEP (always sent reliably)
  nowUs : Nat := 0
  deriving Inhabited

def polStep (st : PolSt) (op impl : List String) : PolSt × List String :=
  match op with
  | "new" :: _ => ({}, [])
  | ["open", si, _u, rt, rv, _th] => ({ st with policy := (parseNat! si, parseNat! rt, parseNat! rv) :: st.policy.filter (·.1 != parseNat! si) }, [])
  | ["write", si, ppi, _len] => (if ppi == "50" then { st with dcep := parseNat! si :: st.dcep } else st, [])
  | ["tick", d] => ({ st with nowUs := st.nowUs + parseNat! d * 1000 }, [])
  | ["gather"] => Id.run do
    let mut st := st
    let mut out : List String := []
    for tok in impl do
      let f := tok.splitOn ":"
      let parsed : Option (Nat × Nat × String) := match f with
        | ["DATA", tsn, si, _, _, fl] => some (parseNat! tsn, parseNat! si, fl)
        | ["IDATA", tsn, si, _, _, _, fl] => some (parseNat! tsn, parseNat! si, fl)
        | _ => none
      if let some (tsn, si, fl) := parsed then
        let pol := match st.policy.find? (·.1 == si) with
          | some (_, rt, rv) => if st.dcep.contains si then (0, 0) else (rt, rv)
          | none => (0, 0)
        let (p, e) := PolicySpec.onData st.p 0 st.nowUs tsn si fl pol
        st := { st with p := p }
        out := out ++ e.toList
    return (st, out)
  | _ => (st, [])

structure St where
  spec : SenderSpec.St := {}
  m : Sender.St := default
  sis : List Nat := []                 -- streams the harness has a Stream object for (ascending)
  ora : List String := []
  sh : ShiftSpec.St := {}
  pol : PolSt := {}
  rk : RackD.St := {}                  -- RACK / PTO / TLR model (Driver/Rack.lean)
  selIl : Bool := false                -- [C01,C17] the sequence uses interleaving (`as new … il`)
  selUnord : Bool := false             -- [C01,C17] some stream of the sequence was opened unordered
  deriving Inhabited

def oraKey (ora : List String) (k : String) : Option String :=
  (ora.find? (·.startsWith (k ++ "="))).map fun t => (t.drop (k.length + 1)).toString

def natList (s : Option String) : List Nat :=
  match s with
  | none => []
  | some "-" => []
  | some t => (t.splitOn ",").filterMap (·.toNat?)

def bv32 (s : String) : BitVec 32 := BitVec.ofNat 32 (parseNat! s)

def parseGapBlocks (g : String) : List (BitVec 16 × BitVec 16) :=
  if g == "none" then [] else (g.splitOn "+").filterMap fun b => match b.splitOn "-" with
    | [x, y] => some (BitVec.ofNat 16 (parseNat! x), BitVec.ofNat 16 (parseNat! y))
    | _ => none

/-! ### rendering the model's observables like the harness does -/

def flagStr (c : Sender.Chunk) : String :=
  let f := (if c.unordered then "U" else "") ++ (if c.bfrag then "B" else "") ++ (if c.efrag then "E" else "")
  if f.isEmpty then "-" else f

def chunkStr (il : Bool) (c : Sender.Chunk) : String :=
  if il then s!"IDATA:{c.tsn.toNat}:{c.si.toNat}:{c.mid.toNat}:{c.fsn.toNat}:{c.len}:{flagStr c}"
  else s!"DATA:{c.tsn.toNat}:{c.si.toNat}:{c.ssn.toNat}:{c.len}:{flagStr c}"

/-- (marshalled length, chunk summaries) of one packet -/
def packetKey (il : Bool) (p : List Sender.Chunk) : String :=
  s!"{Sender.marshalLen il p} " ++ " ".intercalate (p.map (chunkStr il))

/-- the implementation's gather result reduced to its DATA packets: `len chunk chunk …` (checksum token dropped) -/
def implDataPackets (impl : List String) : List String :=
  let body := (impl.dropWhile (· != "|")).drop 1
  let pk := (" ".intercalate body).splitOn " ; "
  pk.filterMap fun p =>
    match (p.splitOn " ").filter (· != "") with
    | len :: _ck :: chunks =>
      if chunks.any (fun c => c.startsWith "DATA:" || c.startsWith "IDATA:") then some (" ".intercalate (len :: chunks)) else none
    | _ => none

/-- the FORWARD-TSN / I-FORWARD-TSN tokens of the implementation's gather result (as `vChunkSummary` prints them) -/
def implFwdTokens (impl : List String) : List String :=
  ((impl.dropWhile (· != "|")).drop 1).filter fun t => t.startsWith "FWD:" || t.startsWith "IFWD:"

def sortBy {α : Type} (lt : α → α → Bool) (l : List α) : List α := (l.toArray.qsort lt).toList

/-- the model's FORWARD-TSN rendered like the harness does (streams sorted by identifier; I-FORWARD-TSN: ordered before unordered) -/
def fwdStr : Sender.Fwd → String
  | .fwd cum ss =>
    let l := (sortBy (fun a b => a.1.toNat < b.1.toNat) ss).map fun e => s!"{e.1.toNat}/{e.2.toNat}"
    s!"FWD:{cum.toNat}:" ++ (if l.isEmpty then "none" else "+".intercalate l)
  | .ifwd cum ss =>
    let l := (sortBy (fun a b => a.1.1.toNat < b.1.1.toNat || (a.1.1 == b.1.1 && !a.1.2 && b.1.2)) ss).map fun e =>
      s!"{e.1.1.toNat}/{if e.1.2 then "u" else "o"}/{e.2.toNat}"
    s!"IFWD:{cum.toNat}:" ++ (if l.isEmpty then "none" else "+".intercalate l)

def stLine (st : St) : String :=
  let m := st.m
  let buf := m.penBytes + m.infBytes
  let strs := st.sis.map fun si => match m.streams (BitVec.ofNat 16 si) with
    | some s => s!" {si}:{s.buffered.toNat}:{s.cbCount}"
    | none => s!" {si}:?:?"
  s!"cwnd={m.cwnd.toNat} ssthresh={m.ssthresh.toNat} rwnd={m.rwnd.toNat} infB={m.infBytes} infN={m.inflight.length} " ++
  s!"penB={m.penBytes} penN={m.penChunks} buf={buf} cum={m.cumAck.toNat} next={m.myNextTSN.toNat} cblocked=0 fr={if m.inFastRecovery then 1 else 0} |" ++ "".intercalate strs

def insertSorted (l : List Nat) (x : Nat) : List Nat :=
  if l.contains x then l else (l.filter (· < x)) ++ [x] ++ (l.filter (· > x))

/-- model side: returns the new state and the model's result for this line (`none`: nothing to compare) -/
def modelStep (st : St) (op impl : List String) : St × Option String :=
  let implS := " ".intercalate impl
  match op with
  | "new" :: mtu :: _rcv :: minCwnd :: il :: tsn :: peerRwnd :: fastRtx :: caStep :: rest =>
    let il := il == "1"
    let mtuB := bv32 mtu
    -- optional token before the trailing pair number: 1 = the association uses I-FORWARD-TSN (useIForwardTSN) instead of FORWARD-TSN
    let ifwd := rest.length ≥ 2 && rest.head? == some "1"
    let cfg : Sender.Cfg := { mtu := mtuB, minCwnd := bv32 minCwnd, fastRtxWnd := bv32 fastRtx, cwndCAStep := bv32 caStep,
                              useInterleaving := il, maxPayload := Gen.maxPayloadSizeForMTU mtuB il, useIForwardTSN := ifwd }
    ({ st with m := Sender.init cfg (bv32 tsn) (bv32 peerRwnd), sis := [], ora := [] }, some s!"{mtuB.toNat} {cfg.maxPayload.toNat}")
  | ["open", si, u, rt, rv, th] =>
    let m := Sender.openStream st.m (BitVec.ofNat 16 (parseNat! si)) (u == "1") (BitVec.ofNat 8 (parseNat! rt)) (bv32 rv) (BitVec.ofNat 64 (parseNat! th))
    ({ st with m := m, sis := insertSorted st.sis (parseNat! si) }, some "ok")
  | ["unreg", si] => ({ st with m := Sender.unregister st.m (BitVec.ofNat 16 (parseNat! si)) }, some "ok")
  | ["setstate", b] => ({ st with m := { st.m with established := b == "1" } }, some "ok")
  | ["ora"] => (st, none)
  | "ora" :: kvs => ({ st with ora := kvs }, none)
  | ["write", si, ppi, len] =>
    let (m, n, e) := Sender.write st.m (BitVec.ofNat 16 (parseNat! si)) (bv32 ppi) (parseNat! len)
    let es := match e with
      | .none => "nil" | .tooLarge => "toolarge" | .notEstablished => "notestablished" | .noStream => "nostream" | .hang => "hang"
    ({ st with m := m }, some s!"{n} {es}")
  | ["gather"] =>
    let orc := Sender.tlrOracle (oraKey st.ora "tlr" == some "1") (((oraKey st.ora "bud").bind (·.toInt?)).getD 0)
    let (m, out) := Sender.gather st.m orc (natList (oraKey st.ora "sel"))
    let pred := out.packets.map (packetKey st.m.cfg.useInterleaving)
    let predFwd := (out.fwd.map fwdStr).toList
    let st' := { st with m := m, ora := [] }
    if pred != implDataPackets impl then
      (st', some ("DATA packets: " ++ (if pred.isEmpty then "nothing" else " ; ".intercalate pred)))
    else if predFwd != implFwdTokens impl then
      (st', some ("FORWARD-TSN: " ++ (if predFwd.isEmpty then "nothing" else " ".intercalate predFwd)))
    else (st', some implS)
  | ["sack", cum, arw, gaps, _dups] =>
    let marks := (natList (oraKey st.ora "rtx")).map (BitVec.ofNat 32)
    let (m, r) := Sender.sack st.m (bv32 cum) (bv32 arw) (parseGapBlocks gaps) marks
    let st' := { st with m := m, ora := [] }
    let accepted := r == .ok || r == .stale || r == .notEstablished
    if accepted == (impl == ["nil"]) then (st', some implS)
    else (st', some (if accepted then "nil" else s!"error ({repr r})"))
  | ["t3", _] => ({ st with m := Sender.t3 st.m }, some "")
  | ["tick", d] =>
    let marks := (natList (oraKey st.ora "rtx")).map (BitVec.ofNat 32)
    let k := ((oraKey st.ora "t3").bind (·.toNat?)).getD 0
    ({ st with m := Sender.step st.m (.tick (parseNat! d) k marks), ora := [] }, some "")
  | ["st"] => (st, some (stLine st))
  | _ => (st, some "bad-op")

/-- predicate side (unchanged protocol: the op is checked when its `st` line arrives) -/
def specStep (st : SenderSpec.St) (op impl : List String) : SenderSpec.St × List String :=
  match op with
  | "new" :: _mtu :: _rcv :: minCwnd :: _il :: _tsn :: peerRwnd :: _ =>
    match impl with
    | [m, mp] => ({ mtu := parseNat! m, maxPayload := parseNat! mp, minCwnd := parseNat! minCwnd, lastArwnd := parseNat! peerRwnd }, [])
    | _ => ({}, ["[C10] unparsable `as new` result"])
  | ["open", si, _u, _rt, _rv, th] =>
    let si := parseNat! si
    -- a stream the association no longer knew is a new object: its counters start again
    let fresh := st.unreg.contains si
    let st := if fresh then { st with expBuf := setKey st.expBuf si 0, expCb := setKey st.expCb si 0, unreg := st.unreg.filter (· != si) } else st
    ({ st with thresh := setKey st.thresh si (parseNat! th), pendingCheck := some ("open", op) }, [])
  | "ora" :: _ => (st, [])
  | ["st"] =>
    let post := parseObs impl
    match st.pendingCheck with
    | some (_, pop) =>
      let pre := if st.haveObs then st.obs else post
      let (o, i) := (pop.takeWhile (· != "->"), (pop.dropWhile (· != "->")).drop 1)
      let (st', v) := checkStep st o i pre post
      ({ st' with obs := post, haveObs := true, pendingCheck := none }, v)
    | none => ({ st with obs := post, haveObs := true }, checkObs st post)
  | _ => ({ st with pendingCheck := some ("op", op ++ ["->"] ++ impl) }, [])

/-- P_[C01,C17] — the tie between the `sel` oracle of the Sender model and the real pending queue, on the
implementation's own log: in a sequence without interleaving whose streams were all opened ORDERED, every index the
harness logged in `as ora … sel=` (position, in its push-order shadow of the real queue, of each chunk the real
`pendingQueue` handed out, then of the chunk at its head) is 0 — the queue hands out the OLDEST chunk every time
(`C17_ordered_only_fifo`), which is the hypothesis `SelFifo` of `C01_netsys_prefix_fifo`. -/
def selFifoStep (st : St) (op : List String) : St × List String :=
  match op with
  | "new" :: _mtu :: _rcv :: _minCwnd :: il :: _ => ({ st with selIl := il == "1", selUnord := false }, [])
  | ["open", _si, u, _rt, _rv, _th] => (if u == "1" then { st with selUnord := true } else st, [])
  | "ora" :: kvs =>
    let sel := natList (oraKey kvs "sel")
    if !st.selIl && !st.selUnord && sel.any (· != 0) then
      (st, [s!"[C01,C17] no interleaving, ordered streams only: the pending queue handed out the chunks at shadow indices {sel} — not the oldest queued chunk (index 0) every time"])
    else (st, [])
  | _ => (st, [])

def step (st : St) (op impl : List String) : St × Option String × List String :=
  match op with
  | ["rk"] =>
    let (sh, e) := ShiftSpec.step st.sh op impl
    let (rk, r) := RackD.onRk st.rk st.m impl
    ({ st with sh := sh, rk := rk }, some r, e.toList)
  | "rke" :: _ =>
    let (sh, e) := ShiftSpec.step st.sh op impl
    let (rk, r) := RackD.onRke st.rk st.m op impl
    ({ st with sh := sh, rk := rk }, some r, e.toList)
  | _ =>
    let (st, sv) := selFifoStep st op
    let (sp, v) := specStep st.spec op impl
    let (sh, e) := ShiftSpec.step st.sh op impl
    let (pol, pv) := polStep st.pol op impl
    let (st', r) := modelStep { st with spec := sp, sh := sh, pol := pol } op impl
    -- the op's effect on RACK / PTO / TLR is replayed when its `rk` line arrives
    let st' := match op with
      | "st" :: _ => st'
      | "ora" :: _ => st'
      | _ => { st' with rk := { st'.rk with pend := some { op := op, ora := st.ora, mPre := st.m } } }
    (st', r, v ++ e.toList ++ pv ++ sv)

end Drv.Assoc
