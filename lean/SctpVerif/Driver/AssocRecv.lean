import SctpVerif.Spec.ReceiverSpec
import SctpVerif.Spec.ShiftSpec
import SctpVerif.Driver.Util
/-!
Line protocol for the direct-drive RECEIVER harness (`ar …`, go/harness/recv_test.go).

Every line is handed to the executable predicates of `Spec/ReceiverSpec` (P_C05, P_C11, P_C19, P_C03/C17,
delivery) and to the shift-pair comparison of `Spec/ShiftSpec` (P_C16); both look at the implementation's
results only.
-/
namespace Drv.AssocRecv
open Drv

structure St where
  spec : ReceiverSpec.St := {}
  sh : ShiftSpec.St := {}
  deriving Inhabited

def step (st : St) (op impl : List String) : St × Option String × List String :=
  let (sp, v) := ReceiverSpec.step st.spec op impl
  let (sh, e) := ShiftSpec.arStep st.sh op impl
  ({ st with spec := sp, sh := sh }, none, v ++ e.toList)

end Drv.AssocRecv
