import SctpVerif.Spec.ReceiverSpec
import SctpVerif.Spec.ShiftSpec
import SctpVerif.Model.Receiver
import SctpVerif.Driver.Reasm
import SctpVerif.Driver.Util
/-!
Line protocol for the direct-drive RECEIVER harness (`ar …`, go/harness/recv_test.go).

Every line is (1) replayed through the L0 model `Receiver` — the model's prediction of the result and of
the whole white-box `st` line is compared with the implementation's by `Driver/Main` (DIFF on mismatch);
(2) handed to the executable predicates of `Spec/ReceiverSpec` (P_C05, P_C11, P_C19, P_C03/C17, delivery)
and to the shift-pair comparison of `Spec/ShiftSpec` (P_C16), which look at the implementation's results only.

`gather` emits control packets in Go map order when several deferred resets complete at once: the packets are
compared as a multiset. SHUTDOWN / SHUTDOWN-ACK chunks are outside the model and ignored. After a raw packet
that the decoder accepted (`ar raw … -> parsed:…`) the model no longer follows (`lost`) until the next `new`.
-/
namespace Drv.AssocRecv
open Drv

structure St where
  spec : ReceiverSpec.St := {}
  sh : ShiftSpec.St := {}
  m : Receiver.St := default
  lost : Bool := false
  fired : Nat := 0
  deriving Inhabited

def bv16 (s : String) : BitVec 16 := BitVec.ofNat 16 (parseNat! s)
def bv32 (s : String) : BitVec 32 := BitVec.ofNat 32 (parseNat! s)

def parseName (s : String) : Receiver.Name :=
  match s.splitOn ":" with
  | [a, b] => (bv16 a, parseNat! b)
  | _ => (0, 0)

/-- `data <tsn> <si> <ssn|mid> <fsn> <flags> <ppi> <len> <seed> [I|D]` as the decoder delivers it -/
def parseData (il : Bool) (t : List String) : Option Receiver.InChunk :=
  match t with
  | tsn :: si :: key :: fsn :: fl :: ppi :: len :: seed :: rest =>
    let iData := match rest with | k :: _ => k == "I" | [] => il
    let has (c : Char) := fl.toList.contains c
    let b := has 'B'
    let c : Reasm.Chunk :=
      if iData then
        { tsn := bv32 tsn, si := bv16 si, ssn := BitVec.ofNat 16 (parseNat! key), mid := bv32 key,
          fsn := if b then 0 else bv32 fsn, unordered := has 'U', bf := b, ef := has 'E', iData := true,
          ppi := if b then bv32 ppi else 0, userData := Drv.Reasm.payload (parseNat! seed).toUInt32 (parseNat! len) }
      else
        { tsn := bv32 tsn, si := bv16 si, ssn := bv16 key, unordered := has 'U', bf := b, ef := has 'E', iData := false,
          ppi := bv32 ppi, userData := Drv.Reasm.payload (parseNat! seed).toUInt32 (parseNat! len) }
    some (.data c (has 'S'))
  | _ => none

def parseChunk (il : Bool) (t : List String) : Option Receiver.InChunk :=
  match t with
  | "data" :: rest => parseData il rest
  | ["fwd", c, es] =>
    let ents := if es == "none" then [] else (es.splitOn ",").filterMap fun e => match e.splitOn "/" with
      | [a, b] => some (bv16 a, bv16 b)
      | _ => none
    some (.fwd (bv32 c) ents)
  | ["ifwd", c, es] =>
    let ents := if es == "none" then [] else (es.splitOn ",").filterMap fun e => match e.splitOn "/" with
      | [a, u, m] => some (bv16 a, u == "u", bv32 m)
      | _ => none
    some (.ifwd (bv32 c) ents)
  | ["hb", info] => some (.hb info)
  | ["reset", rsn, last, ids] =>
    some (.reset { rsn := bv32 rsn, lastTSN := bv32 last, ids := if ids == "none" then [] else (ids.splitOn ",").map bv16 })
  | _ => none

def splitBar (t : List String) : List (List String) :=
  let rec go (cur : List String) (out : List (List String)) : List String → List (List String)
    | [] => out ++ [cur.reverse]
    | "|" :: ts => go [] (out ++ [cur.reverse]) ts
    | x :: ts => go (x :: cur) out ts
  go [] [] t

/-! ### rendering the model's observables like the harness does -/

def allStreams (m : Receiver.St) : List Receiver.Stream := m.streams ++ m.gone

def chunksOf (q : Reasm.Q) : List Reasm.Chunk :=
  (q.ordered.map (·.chunks)).flatten ++ (q.unordered.map (·.chunks)).flatten ++ q.unorderedChunks ++
  (q.orderedMID.map (·.chunks)).flatten ++ (q.unorderedMID.map (·.chunks)).flatten ++ (q.unorderedMIDMap.map (·.chunks)).flatten

def tsnCount (m : Receiver.St) (t : BitVec 32) : Nat :=
  ((allStreams m).map fun x => ((chunksOf x.q).filter (fun c => c.tsn == t)).length).sum

def fmtGaps (gs : List (BitVec 16 × BitVec 16)) : String :=
  orNone (joinWith "+" (gs.map fun (a, b) => s!"{a.toNat}-{b.toNat}"))

def findObj (m : Receiver.St) (n : Receiver.Name) : Option (Receiver.Stream × Bool) :=
  match m.streams.find? (fun x => x.si == n.1 && x.inc == n.2) with
  | some x => some (x, true)
  | none => (m.gone.find? (fun x => x.si == n.1 && x.inc == n.2)).map fun x => (x, false)

def stLine (m : Receiver.St) : String :=
  let objs := m.objs.filterMap (findObj m)
  let held := objs.filterMap fun (x, reg) =>
    if x.q.heldBytes > 0 then some s!"{x.si.toNat}:{x.inc}:{x.q.heldBytes}:{b2s reg}" else none
  let ctr := if objs.all (fun (x, _) => x.q.getNumBytes == (x.q.heldBytes : Int)) then "ok" else "BAD"
  let ack := if m.ackState == 0 then "idle" else if m.ackState == 1 then "imm" else "delay"
  s!"cum={m.pq.cum.toNat} size={m.pq.size} gaps={fmtGaps (RecvQ.gaps m.pq)} dups={m.pq.dups.length} ack={ack} " ++
  s!"timer={b2s m.timer.isRunning} rwnd={(Receiver.credit m).toNat} held={if held.isEmpty then "-" else joinWith "," held} ctr={ctr} " ++
  s!"ns={m.streams.length} accq={m.acceptQ.length} abort={b2s m.willSendAbort} state={m.state.toNat} now={m.timer.now / 1000000}"

def fmtOut : Receiver.Out → String
  | .abort => s!"ABORT:{Gen.protocolViolation}"
  | .ctl (.hback info) => s!"HBACK:{info}"
  | .ctl (.resp rsn r) => s!"RECONFIG:resp/{rsn.toNat}/{r}"
  | .ctl .error => s!"ERROR:{Gen.unrecognizedChunkType}"
  | .sack cum arw gaps dups =>
    s!"SACK:{cum.toNat}:{arw.toNat}:{fmtGaps gaps}:{if dups.isEmpty then "-" else joinWith "," (dups.map fun t => toString t.toNat)}"

def sortStrs (l : List String) : List String := (l.toArray.qsort (· < ·)).toList

/-- the implementation's packets that the model speaks about -/
def implPackets (impl : List String) : List String :=
  (impl.drop 1).filter fun p => p != "nothing" && !(p.startsWith "SHUTDOWN")

def bits (bs : List Bool) : String := if bs.isEmpty then "-" else joinWith "," (bs.map b2s)

/-- one inbound packet: the model's `ok acc=… stored=…` computed like the harness computes it -/
def feed (m : Receiver.St) (cs : List Receiver.InChunk) : Receiver.St × String :=
  let datas := cs.filterMap fun c => match c with | .data d _ => some d | _ => none
  let before := datas.map fun d => (RecvQ.canPush m.pq d.tsn, tsnCount m d.tsn)
  let m' := Receiver.packet m cs
  let rec go (ds : List Reasm.Chunk) (bs : List (Bool × Nat)) (used : List (BitVec 32)) (acc sto : List Bool) : List Bool × List Bool :=
    match ds, bs with
    | d :: ds, (cb, nb) :: bs =>
      let first := !used.contains d.tsn
      let a := first && cb && !RecvQ.canPush m'.pq d.tsn
      let s := first && tsnCount m' d.tsn > nb
      go ds bs (if a || s then d.tsn :: used else used) (acc ++ [a]) (sto ++ [s])
    | _, _ => (acc, sto)
  let (acc, sto) := go datas before [] [] []
  (m', if datas.isEmpty then "ok" else s!"ok acc={bits acc} stored={bits sto}")

/-- model side: new state and the model's result for this line (`none`: nothing to compare) -/
def modelStep (st : St) (op impl : List String) : St × Option String :=
  let implS := " ".intercalate impl
  if st.lost && op.head? != some "new" then (st, none) else
  match op with
  | "new" :: rcv :: il :: tsn :: maxEnt :: ackMode :: pr :: _ =>
    let il := il == "1"
    let pr := pr == "1"
    let m := Receiver.init (bv32 rcv) (bv32 maxEnt) il (pr && !il) (pr && il) (parseNat! ackMode) (bv32 tsn)
    -- `createAssociationFromConfigWithTsn`: a zero MaxReceiveBufferSize means the default
    let m := if parseNat! rcv == 0 then Receiver.init (BitVec.ofNat 32 Gen.initialRecvBufSize) (bv32 maxEnt) il (pr && !il) (pr && il) (parseNat! ackMode) (bv32 tsn) else m
    ({ st with m := m, lost := false }, some s!"{m.pq.maxOff.toNat} {m.maxBuf.toNat}")
  | "msg" :: _ | "abandon" :: _ | ["drained"] => (st, none)
  | "data" :: _ | ["fwd", _, _] | ["ifwd", _, _] | ["hb", _] | ["reset", _, _, _] =>
    match parseChunk st.m.il op with
    | some c => let (m, r) := feed st.m [c]; ({ st with m := m }, some r)
    | none => (st, some "bad-op")
  | "pkt" :: rest =>
    let cs := (splitBar rest).filterMap (parseChunk st.m.il)
    let (m, r) := feed st.m cs
    ({ st with m := m }, some r)
  | ["hback", _] => (st, none)      -- the round-trip estimator is not part of the receive-half model
  | ["raw", _] =>
    if impl.head? == some "rejected" then (st, some implS) else ({ st with lost := true }, none)
  | ["read", name, buflen] =>
    let (m, r) := Receiver.read st.m (parseName name) (parseNat! buflen)
    let res := match r with
      | .ok n ppi data => s!"{n} {ppi.toNat} ok {Drv.Reasm.hash data}"
      | .short n => s!"{n} 0 short -"
      | .block => "0 0 block -"
      | .eof => "0 0 EOF -"
      | .nostream => "0 0 nostream -"
    ({ st with m := m }, some res)
  | ["accept"] =>
    let (m, r) := Receiver.accept st.m
    ({ st with m := m }, some (match r with | some n => s!"{n.1.toNat}:{n.2}" | none => "none"))
  | ["open", si] =>
    let (m, r) := Receiver.openStream st.m (bv16 si)
    ({ st with m := m }, some (match r with | some n => s!"{n.1.toNat}:{n.2}" | none => "err"))
  | ["gather"] =>
    let (m, outs, ok) := Receiver.gather st.m
    let pred := outs.map fmtOut
    let st' := { st with m := m }
    let okS := if ok then "true" else "false"
    if impl.head? == some okS && sortStrs pred == sortStrs (implPackets impl) then (st', some implS)
    else (st', some (okS ++ " " ++ (if pred.isEmpty then "nothing" else " ".intercalate pred)))
  | ["tick", d] =>
    let m := Receiver.tick st.m (parseNat! d * 1000000)
    let fired := if st.m.timer.t.state == .started && m.timer.t.state != .started then 1 else 0
    ({ st with m := m }, some s!"fired={fired}")
  | ["setstate", n] => ({ st with m := { st.m with state := bv32 n } }, some "ok")
  | ["st"] => (st, some (stLine st.m))
  | _ => (st, some "bad-op")

def step (st : St) (op impl : List String) : St × Option String × List String :=
  let (sp, v) := ReceiverSpec.step st.spec op impl
  let (sh, e) := ShiftSpec.arStep st.sh op impl
  let (st', r) := modelStep { st with spec := sp, sh := sh } op impl
  (st', r, v ++ e.toList)

end Drv.AssocRecv
