import SctpVerif.Model.StreamApi
import SctpVerif.Spec.ApiSpec
import SctpVerif.Driver.Assoc
import SctpVerif.Driver.Reasm
/-!
Line protocol of the direct-drive stream-API harness (`sa …`, go/harness/sapi_test.go).

Every line is (1) replayed through the L0 model `Sapi` (on top of `Sender` and `Reasm`): the model's prediction of the
implementation's result is returned and compared by `Driver/Main` (DIFF on mismatch) — results of calls, results of
parked calls when they return (`wret` / `rret`), the DATA packets and the FORWARD-TSN of every gather, the per-chunk
transmission counts (`tx`), and after every op the whole state line (`st`) and read-side state line (`rst`); and (2)
handed to the predicates of `Spec/ApiSpec` ([C18] / [C06]), which look at the implementation's results only.

`sa ora k=v …` lines carry what the real code decided where the model has an oracle: `tlr`/`bud`/`sel` as for `as`,
`woke` (which parked writer returned after the gather), `rtx` (RACK/PTO marks), `t3` (T3 expiries during a tick).
-/
namespace Drv.Sapi
open Drv

structure St where
  m : _root_.Sapi.St := default
  spec : ApiSpec.St := {}
  ora : List String := []
  wrets : List (Nat × _root_.Sapi.WRes) := []     -- parked writes the model says returned during the last op
  rrets : List (Nat × _root_.Sapi.RRes) := []
  lastTx : String := "-"
  deriving Inhabited

def bv16 (s : String) : BitVec 16 := BitVec.ofNat 16 (parseNat! s)

def wresStr : _root_.Sapi.WRes → String
  | .ok n => s!"{n} nil"
  | .err .tooLarge => "0 toolarge"
  | .err .streamClosed => "0 streamclosed"
  | .err .notEstablished => "0 notestablished"
  | .err .deadline => "0 deadline"
  | .blocked w => s!"blocked {w}"
  | .busy => "busy"
  | .noStream => "nostream"
  | .hang => "hang"

def rdErrStr : _root_.Sapi.RdErr → String
  | .eof => "EOF"
  | .deadline => "deadline"

def rresStr : _root_.Sapi.RRes → String
  | .data n ppi bytes => s!"{n} {ppi.toNat} nil {Drv.Reasm.hash bytes}"
  | .short n => s!"{n} 0 short -"
  | .err e => s!"0 0 {rdErrStr e} -"
  | .blocked r => s!"blocked {r}"
  | .busy => "busy"
  | .noStream => "nostream"

def sortNat (l : List Nat) : List Nat := l.foldl Drv.Assoc.insertSorted []

def pendStr (il : Bool) (c : Sender.Chunk) : String :=
  s!"{c.si.toNat}/{if il then c.mid.toNat else c.ssn.toNat}/{c.fsn.toNat}/{Drv.Assoc.flagStr c}/{c.len}/{c.ppi.toNat}"

def joinOrDash (sep : String) (l : List String) : String := if l.isEmpty then "-" else sep.intercalate l

def stLine (m : _root_.Sapi.St) : String :=
  let s := m.snd
  let il := s.cfg.useInterleaving
  let strs := (sortNat (m.sids.map (·.toNat))).map fun si => match s.streams (BitVec.ofNat 16 si) with
    | some x => s!"{si}:{x.ssn.toNat}:{x.nextOrderedMID.toNat}:{x.nextUnorderedMID.toNat}:{x.buffered.toNat}:{m.sstate (BitVec.ofNat 16 si)}"
    | none => s!"{si}:?"
  let ab := (s.inflight.filter (s.abandoned ·)).map fun c => toString c.tsn.toNat
  " ".intercalate ([s!"wp={b2s m.writePending}", s!"as={m.state.toNat}", s!"cwnd={s.cwnd.toNat}", s!"rwnd={s.rwnd.toNat}",
      s!"infN={s.inflight.length}", s!"penN={s.penChunks}", s!"next={s.myNextTSN.toNat}", s!"cum={s.cumAck.toNat}",
      s!"adv={s.advPeerAck.toNat}", "|"] ++ strs ++
    ["|", "pend=" ++ joinOrDash "," (s.pending.map (pendStr il)), "|", "ab=" ++ joinOrDash "," ab])

def rstLine (m : _root_.Sapi.St) : String :=
  joinOrDash " " ((sortNat (m.sids.map (·.toNat))).map fun si => match m.rd (BitVec.ofNat 16 si) with
    | some r =>
      let e := match r.readErr with | none => "nil" | some x => rdErrStr x
      s!"{si}:{e}:{b2s r.timer.isSome}:{b2s r.q.isReadable}:{(Drv.Reasm.fmtState r.q).replace " " "/"}"
    | none => s!"{si}:?")

def fwdStr : _root_.Sapi.Fwd → Option String
  | .none => none
  | .fwd cum l => some s!"FWD:{cum.toNat}:{if l.isEmpty then "none" else "+".intercalate (l.map fun (si, ssn) => s!"{si.toNat}/{ssn.toNat}")}"
  | .ifwd cum l => some s!"IFWD:{cum.toNat}:{if l.isEmpty then "none" else "+".intercalate (l.map fun (si, u, mid) => s!"{si.toNat}/{if u then "u" else "o"}/{mid.toNat}")}"

def implFwd (impl : List String) : Option String := impl.find? fun t => t.startsWith "FWD:" || t.startsWith "IFWD:"

def takeRet {α : Type} (l : List (Nat × α)) (id : Nat) : Option α × List (Nat × α) :=
  ((l.find? (·.1 == id)).map (·.2), l.filter (·.1 != id))

/-- model side: the new state and the model's result for this line (`none`: nothing to compare) -/
def modelStep (st : St) (op impl : List String) : St × Option String :=
  let implS := " ".intercalate impl
  let m := st.m
  let now := m.snd.now
  match op with
  | "new" :: il :: blocking :: mms :: mtu :: useFwd :: rest =>
    let il := il == "1"
    let mtuB := Drv.Assoc.bv32 mtu
    let mmsN := if parseNat! mms == 0 then 65536 else parseNat! mms
    let cfg : Sender.Cfg := { mtu := mtuB, useInterleaving := il, maxPayload := Gen.maxPayloadSizeForMTU mtuB il,
                              maxMessageSize := BitVec.ofNat 32 mmsN, prEnabled := useFwd == "1" }
    let (tsn, rw) := match rest with
      | [t, r] => (Drv.Assoc.bv32 t, Drv.Assoc.bv32 r)
      | _ => (1000#32, BitVec.ofNat 32 (2^20))
    ({ st with m := _root_.Sapi.init cfg (blocking == "1") tsn rw, ora := [], wrets := [], rrets := [] },
     some s!"{mtuB.toNat} {cfg.maxPayload.toNat} {mmsN}")
  | ["setstate", n] => ({ st with m := _root_.Sapi.setState m (Drv.Assoc.bv32 n) }, some "ok")
  | ["open", si, o, rt, rv] =>
    let (m', r) := _root_.Sapi.openStream m (bv16 si) (o != "1") (BitVec.ofNat 8 (parseNat! rt)) (Drv.Assoc.bv32 rv)
    ({ st with m := m' }, some (if r == .ok then "ok" else "closed"))
  | ["setrel", si, o, rt, rv] =>
    match m.snd.streams (bv16 si) with
    | none => (st, some "nostream")
    | some _ => ({ st with m := _root_.Sapi.setRel m (bv16 si) (o != "1") (BitVec.ofNat 8 (parseNat! rt)) (Drv.Assoc.bv32 rv) }, some "ok")
  | "write" :: si :: len :: ppi :: dl =>
    let d := match dl with
      | [x] => some (now + parseNat! x)
      | _ => none
    let (m', r) := _root_.Sapi.write m (bv16 si) (Drv.Assoc.bv32 ppi) (parseNat! len) d
    ({ st with m := m' }, some (wresStr r))
  | ["bytes", _] => (st, some "ok")    -- the byte copy of packetize is outside the model: the expected answer is always ok
  | ["wret", wid] =>
    let (r, rest) := takeRet st.wrets (parseNat! wid)
    ({ st with wrets := rest }, some (match r with | some x => wresStr x | none => "still-parked"))
  | ["rret", rid] =>
    let (r, rest) := takeRet st.rrets (parseNat! rid)
    ({ st with rrets := rest }, some (match r with | some x => rresStr x | none => "still-parked"))
  | ["ora"] => (st, none)
  | "ora" :: kvs => ({ st with ora := kvs }, none)
  | ["gather"] =>
    let orc := Sender.tlrOracle (Drv.Assoc.oraKey st.ora "tlr" == some "1") (((Drv.Assoc.oraKey st.ora "bud").bind (·.toInt?)).getD 0)
    let woke := (Drv.Assoc.natList (Drv.Assoc.oraKey st.ora "woke")).head?
    let (m', out) := _root_.Sapi.gather m orc (Drv.Assoc.natList (Drv.Assoc.oraKey st.ora "sel")) woke
    let il := m.snd.cfg.useInterleaving
    let pred := out.out.packets.map (Drv.Assoc.packetKey il)
    let tx := out.out.packets.flatten.map fun c => s!"{c.tsn.toNat}:{c.nSent.toNat}:{c.ppi.toNat}:{b2s (m'.snd.abandoned c)}"
    let st' := { st with m := m', ora := [], wrets := out.woken, lastTx := joinOrDash " " tx }
    let fwd := fwdStr out.fwd
    if pred == Drv.Assoc.implDataPackets impl && fwd == implFwd impl then (st', some implS)
    else (st', some ("DATA packets: " ++ (if pred.isEmpty then "nothing" else " ; ".intercalate pred) ++ " fwd: " ++ fwd.getD "none"))
  | ["tx"] => (st, some st.lastTx)
  | ["sack", cum, arw, gaps] =>
    let marks := (Drv.Assoc.natList (Drv.Assoc.oraKey st.ora "rtx")).map (BitVec.ofNat 32)
    let (s', r) := Sender.sack m.snd (Drv.Assoc.bv32 cum) (Drv.Assoc.bv32 arw) (Drv.Assoc.parseGapBlocks gaps) marks
    let st' := { st with m := { m with snd := s' }, ora := [] }
    let accepted := r == .ok || r == .stale || r == .notEstablished
    if accepted == (impl == ["nil"]) then (st', some implS)
    else (st', some (if accepted then "nil" else s!"error ({repr r})"))
  | ["t3"] => ({ st with m := { m with snd := Sender.t3 m.snd } }, some "")
  | ["tick", d] =>
    let marks := (Drv.Assoc.natList (Drv.Assoc.oraKey st.ora "rtx")).map (BitVec.ofNat 32)
    let k := ((Drv.Assoc.oraKey st.ora "t3").bind (·.toNat?)).getD 0
    let (m', w, r) := _root_.Sapi.tick m (parseNat! d) k marks
    ({ st with m := m', ora := [], wrets := w, rrets := r }, some "")
  | ["closestream", si] =>
    let (m', r) := _root_.Sapi.closeStream m (bv16 si)
    ({ st with m := m' }, some (match r with | .ok => "nil" | .notEstablished => "notestablished" | .noStream => "nostream"))
  | ["rpush", si, kind, t, ssn, mid, fsn, fl, ppi, len, seed] =>
    match m.rd (bv16 si) with
    | none => (st, some "nostream")
    | some _ =>
      let c : _root_.Reasm.Chunk :=
        { tsn := tsn t, si := bv16 si, ssn := bv16 ssn, mid := tsn mid, fsn := tsn fsn, unordered := Drv.Reasm.bit fl 0,
          bf := Drv.Reasm.bit fl 1, ef := Drv.Reasm.bit fl 2, iData := kind == "i", ppi := tsn ppi,
          userData := Drv.Reasm.payload (parseNat! seed).toUInt32 (parseNat! len) }
      let (m', e, r) := _root_.Sapi.rpush m (bv16 si) c
      ({ st with m := m', rrets := r }, some (match e with | .none => "nil" | .dataLimit => "datalimit" | .midLimit => "midlimit" | .panic => "panic"))
  | ["read", si, n] =>
    let (m', r) := _root_.Sapi.read m (bv16 si) (parseNat! n)
    ({ st with m := m' }, some (rresStr r))
  | ["rdeadline", si, ms] =>
    match m.rd (bv16 si) with
    | none => (st, some "nostream")
    | some _ =>
      let (m', r) := _root_.Sapi.rdeadline m (bv16 si) (if ms == "none" then none else some (now + parseNat! ms))
      ({ st with m := m', rrets := r }, some "ok")
  | ["reof", si] =>
    match m.rd (bv16 si) with
    | none => (st, some "nostream")
    | some _ =>
      let (m', r) := _root_.Sapi.reof m (bv16 si)
      ({ st with m := m', rrets := r }, some "ok")
  | ["st"] =>
    -- a parked call the model expected to return and the implementation did not report is a difference too
    if !st.wrets.isEmpty || !st.rrets.isEmpty then
      ({ st with wrets := [], rrets := [] }, some ("model: parked call(s) should have returned: " ++
        " ".intercalate (st.wrets.map (fun x => s!"w{x.1}") ++ st.rrets.map (fun x => s!"r{x.1}"))))
    else (st, some (stLine m))
  | ["rst"] => (st, some (rstLine m))
  | _ => (st, some "bad-op")

def step (st : St) (op impl : List String) : St × Option String × List String :=
  let (sp, v) := ApiSpec.step st.spec op impl
  let (st', r) := modelStep { st with spec := sp } op impl
  (st', r, v)

end Drv.Sapi
