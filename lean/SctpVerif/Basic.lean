def hello := "world"
