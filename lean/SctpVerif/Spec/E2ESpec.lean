import Std.Data.HashMap
import SctpVerif.Spec.History
/-!
Executable property predicates evaluated on the logs of whole association pairs (X-e2e).
They look only at what the IMPLEMENTATION did (API call/return history, wire log, final
counters); no L0 model is involved. Each violation message starts with the ids of the
properties it falsifies, e.g. `[C01,C02] …`.
-/
namespace E2ESpec
open History

structure StreamSpec where
  id : Nat
  unordered : Bool
  relType : Nat
  relVal : Nat
  dir : Nat
  deriving Repr, Inhabited

structure Sc where
  active    : Bool := false
  mode      : String := ""
  hdr       : List (String × String) := []
  streams   : List StreamSpec := []
  writes    : Array (Nat × Nat × Msg × Bool) := #[]   -- dir, si, message, accepted
  reads     : Array (Nat × Nat × Msg) := #[]          -- side, si, message
  connected : Nat := 0
  connFail  : Bool := false
  ended     : Bool := false
  pkts      : Std.HashMap (Nat × Nat) (List String) := {}
  awaitingAck : Array (Option Nat) := #[none, none]   -- per side: time a DATA packet arrived, unacknowledged
  metas     : List (Nat × List (String × String)) := []
  seenTSN   : Std.HashMap (Nat × Nat) Unit := {}                 -- (side, tsn) already transmitted once
  msgFirst  : Std.HashMap (Nat × Nat × Bool) (Array Nat) := {}    -- (side, si, U) ↦ first TSN of each message, in first-transmission order
  fwdSeq    : Std.HashMap (Nat × Nat × Bool) Nat := {}            -- (side, si, U) ↦ largest SSN/MID named in a (I-)FORWARD-TSN stream entry
  fwdMax    : Array (Option Nat) := #[none, none]                 -- per side: largest new cumulative TSN it put in a (I-)FORWARD-TSN
  eofs      : List (Nat × Nat) := []  -- (reader side, stream) that reported end-of-file
  closes    : List (Nat × Nat) := []  -- (writer side, stream) closed by its writer
  aborter   : Option Nat := none     -- side whose Abort() call has returned
  injected  : String := ""            -- teardown mode: what was injected
  abortLost : Bool := false           -- the network dropped an ABORT packet
  shutdownOk : List Nat := []        -- sides whose Shutdown() returned nil
  lateHashes : List Nat := []        -- payload hashes of writes that were rejected (after shutdown began, on a closed stream)
  badLens   : List Nat := []
  readers   : Nat := 1               -- goroutines reading one stream concurrently (teardown mode): the order in which their reads are LOGGED is not the delivery order
  closeCalled : List Nat := []       -- sides on which Close() was called by the scenario's injection
  sdDone    : List Nat := []         -- sides that sent or were handed a SHUTDOWN-COMPLETE
  closeAt   : List (Nat × Nat × Nat) := []  -- (writer side, stream, number of write lines logged when its Close returned)
  deriving Inhabited

def kvs (toks : List String) : List (String × String) :=
  toks.filterMap fun t => match t.splitOn "=" with
    | [k, v] => some (k, v)
    | _ => none

def get (kv : List (String × String)) (k : String) : String := (kv.lookup k).getD ""
def getN (kv : List (String × String)) (k : String) : Nat := (get kv k).toNat?.getD 0
def getB (kv : List (String × String)) (k : String) : Bool := get kv k == "1"

def parseStreams (s : String) : List StreamSpec :=
  (s.splitOn ",").filterMap fun x => match (x.splitOn "/").map (·.toNat?.getD 0) with
    | [id, u, rt, rv, d] => some { id := id, unordered := u == 1, relType := rt, relVal := rv, dir := d }
    | _ => none

def nat (s : String) : Nat := s.toNat?.getD 0

def isDataTok (t : String) : Bool := t.startsWith "DATA:" || t.startsWith "IDATA:"

/-- wire rules checked on every transmitted packet (C10 size, C13 checksum, C17 chunk kinds) -/
def checkTx (sc : Sc) (from_ len : Nat) (summary : List String) : Option String :=
  let il := getB sc.hdr "ilA" && getB sc.hdr "ilB"
  let peerAcceptsZero := if from_ == 0 then getB sc.hdr "zcB" else getB sc.hdr "zcA"
  match summary with
  | [] => some "[C12] empty packet summary"
  | ck :: chunks =>
    if chunks == ["UNPARSABLE"] then some "[C12] endpoint emitted a packet its own decoder rejects"
    else if ck == "bad" then some "[C13] emitted packet has a non-zero wrong checksum"
    else if ck == "zero" && !peerAcceptsZero then some "[C13] zero checksum sent although the peer did not advertise acceptance"
    else if ck == "zero" && chunks.any (fun c => c == "INIT" || c == "COOKIEECHO") then some "[C13] zero checksum on an INIT/COOKIE-ECHO packet"
    else if chunks.any (·.startsWith "IDATA:") && !il then some "[C17,C04] I-DATA sent although interleaving was not enabled on both sides"
    else if chunks.any (·.startsWith "DATA:") && il then some "[C17,C04] DATA sent although interleaving was enabled on both sides"
    else if chunks.any (·.startsWith "IFWD:") && !il then some "[C17,C04] I-FORWARD-TSN sent without interleaving"
    else if chunks.any (·.startsWith "FWD:") && il then some "[C17,C04] FORWARD-TSN sent with interleaving"
    else if chunks.any isDataTok && len > getN sc.hdr "mtu" then some s!"[C10] packet with user data is {len} bytes, MTU is {getN sc.hdr "mtu"}"
    else none

def serialLE (a b : Nat) : Bool := (b + 2^32 - a) % 2^32 < 2^31

/-- wire bookkeeping for P_C07: which TSN ends each message (by first transmission), and the
largest skip point each side announced. -/
def noteTx (sc : Sc) (side : Nat) (summary : List String) : Sc := Id.run do
  let mut sc := sc
  for tok in summary do
    let f := tok.splitOn ":"
    match f with
    | ["DATA", tsn, si, _ssn, _len, fl] | ["IDATA", tsn, si, _ssn, _, _len, fl] =>
      let t := tsn.toNat?.getD 0
      if !sc.seenTSN.contains (side, t) then
        sc := { sc with seenTSN := sc.seenTSN.insert (side, t) () }
        if fl.contains 'B' then
          let k := (side, si.toNat?.getD 0, fl.contains 'U')
          sc := { sc with msgFirst := sc.msgFirst.insert k ((sc.msgFirst.getD k #[]).push t) }
    | "FWD" :: c :: entries :: _ | "IFWD" :: c :: entries :: _ =>
      let c := c.toNat?.getD 0
      let cur := sc.fwdMax[side]!
      if cur.isNone || serialLE (cur.getD 0) c then sc := { sc with fwdMax := sc.fwdMax.set! side (some c) }
      if entries != "none" then
        for e in entries.splitOn "+" do
          match e.splitOn "/" with
          | [si, seq] =>   -- FORWARD-TSN: ordered stream sequence number (16 bit)
            let k := (side, si.toNat?.getD 0, false)
            let q := seq.toNat?.getD 0
            let old := sc.fwdSeq[k]?
            if old.isNone || (q + 65536 - old.getD 0) % 65536 < 32768 then sc := { sc with fwdSeq := sc.fwdSeq.insert k q }
          | [si, u, mid] =>  -- I-FORWARD-TSN: (stream, U, message identifier)
            let k := (side, si.toNat?.getD 0, u == "u")
            let q := mid.toNat?.getD 0
            let old := sc.fwdSeq[k]?
            if old.isNone || serialLE (old.getD 0) q then sc := { sc with fwdSeq := sc.fwdSeq.insert k q }
          | _ => pure ()
    | _ => pure ()
  return sc

def msgsOf (sc : Sc) (dir si : Nat) : List Msg :=
  (sc.writes.toList.filter fun (d, s, _, ok) => d == dir && s == si && ok).map fun (_, _, m, _) => m
/-- accepted writes on a stream, split at log position `cut` (storm mode: `cut` = where `Stream.Close`, called from ANOTHER
goroutine, returned; a write logged later was accepted although the stream had been closed) -/
def msgsSplit (sc : Sc) (dir si cut : Nat) : List Msg × List Msg :=
  let idx := (List.range sc.writes.size).zip sc.writes.toList
  let mine := idx.filter fun (_, d, s, _, ok) => d == dir && s == si && ok
  ((mine.filter fun (i, _) => i < cut).map (fun (_, _, _, m, _) => m), (mine.filter fun (i, _) => i ≥ cut).map (fun (_, _, _, m, _) => m))

def readsOf (sc : Sc) (side si : Nat) : List Msg :=
  (sc.reads.toList.filter fun (d, s, _) => d == side && s == si).map fun (_, _, m) => m

/-- history checks at the end of a scenario -/
def checkFin (sc : Sc) (fin : List (String × String)) (leakNames : String) : List String := Id.run do
  let mut out : List String := []
  let c20 := if sc.mode == "storm" then "C20," else ""
  let names := (leakNames.splitOn ",").filter (· != "")
  let dl := names.filter fun n => (n.splitOn "SetReadDeadline").length ≥ 2
  let other := names.filter fun n => (n.splitOn "SetReadDeadline").length < 2
  if getN fin "leaks" != 0 && (!other.isEmpty || dl.isEmpty) then
    out := out ++ [s!"[{c20}C09] goroutines of the package still alive after Close: {",".intercalate other}"]
  if !dl.isEmpty then
    out := out ++ [s!"[{c20}C09] read-deadline helper goroutine outlives its association (it only ends at the deadline): {dl.length} x {dl.head!}"]
  if getN fin "wrAfterClose" != 0 then out := out ++ [s!"[{c20}C09] write to the connection after it was closed"]
  if sc.connFail || sc.connected < 2 then return out
  -- metadata agreement (C04)
  let il := getB sc.hdr "ilA" && getB sc.hdr "ilB"
  for (side, m) in sc.metas do
    let peerZc := if side == 0 then getB sc.hdr "zcB" else getB sc.hdr "zcA"
    let ownZc := if side == 0 then getB sc.hdr "zcA" else getB sc.hdr "zcB"
    if getB m "il" != il then out := out ++ [s!"[C04,C17] side {side} negotiated interleaving={getB m "il"} but both-enabled={il}"]
    if (getN m "pr" == 2) != il then out := out ++ [s!"[C04,C17] side {side} forward-TSN variant {getN m "pr"} does not match interleaving={il}"]
    if getB m "zcsend" && !peerZc then out := out ++ [s!"[C04,C13] side {side} sends zero checksums although the peer did not declare them acceptable"]
    if getB m "zcrecv" != ownZc then out := out ++ [s!"[C04,C13] side {side} zero-checksum receive flag {getB m "zcrecv"} differs from its own option {ownZc}"]
  -- delivery histories (in partial-reliability scenarios a lost or misdelivered message on ANY stream is also a C07 violation:
  -- abandoned messages must not block or destroy anything else)
  let x07 := if sc.mode == "pr" then "C07," else if sc.mode == "api" then "C18," else if sc.mode == "storm" then "C20," else ""
  for st in sc.streams do
    let ws := msgsOf sc st.dir st.id
    let rs := readsOf sc (1 - st.dir) st.id
    let reliable := st.relType == 0
    -- storm mode: Stream.Close may come from another goroutine while a write is inside WriteSCTP. What was accepted before
    -- Close returned must arrive; a write accepted AFTER Close returned is judged separately (known finding K20-write-close-race)
    let cut := if sc.mode == "storm" then
        match sc.closeAt.find? (fun (d, s, _) => d == st.dir && s == st.id) with
        | some (_, _, n) => n
        | none => sc.writes.size
      else sc.writes.size
    let (wsB, wsLate) := msgsSplit sc st.dir st.id cut
    if reliable && !st.unordered && sc.readers ≤ 1 then
      if !isPrefixOf rs ws then
        out := out ++ [s!"[{x07}C01] ordered reliable stream {st.id}: reads are not a prefix of the accepted writes ({describeDiff rs ws})"]
      else if sc.ended && rs.length < wsB.length then
        out := out ++ [s!"[{x07}C02,C01] ordered reliable stream {st.id}: {rs.length} of {wsB.length} messages delivered after the network healed"]
    else if reliable then
      if !isSubMultiset rs ws then
        out := out ++ [s!"[{x07}C06] unordered reliable stream {st.id}: a read does not match a distinct written message ({describeDiff rs ws})"]
      else if sc.ended && !isSubMultiset wsB rs then
        out := out ++ [s!"[{x07}C02,C06] unordered reliable stream {st.id}: {rs.length} of {wsB.length} messages delivered after the network healed"]
    if reliable && sc.ended then
      for m in wsLate do
        if !rs.contains m then
          out := out ++ [s!"[C20,C14] stream {st.id}: a write of {m.len} bytes was accepted (no error) after Stream.Close, called from another goroutine, had returned, and was never delivered: the write passed its state test before the Close and was queued behind the reset request"]
    else if !st.unordered then
      if !isSubsequenceOf rs ws then
        out := out ++ [s!"[C06,C07] ordered partially reliable stream {st.id}: reads are not a subsequence of the writes ({describeDiff rs ws})"]
    else
      if !isSubMultiset rs ws then
        out := out ++ [s!"[C06] unordered partially reliable stream {st.id}: a read does not match a distinct written message"]
    -- C07: a message that was not delivered must be one the sender told the peer to skip
    if !reliable && sc.ended then
      for cls in [false, true] do
        let wsC := (sc.writes.toList.filter fun (d, s, m, ok) => d == st.dir && s == st.id && ok && ((st.unordered && m.ppi != 50) == cls)).map fun (_, _, m, _) => m
        let firsts := sc.msgFirst.getD (st.dir, st.id, cls) #[]
        let il := getB sc.hdr "ilA" && getB sc.hdr "ilB"
        let mut k := 0
        for m in wsC do
          if !rs.contains m then
            -- told to skip: named by a stream entry (sequence ≥ this message's), or the announced
            -- cumulative point reached into the message
            let bySeq := match sc.fwdSeq[(st.dir, st.id, cls)]? with
              | some q => if il then serialLE k q else !cls && (q + 65536 - k % 65536) % 65536 < 32768
              | none => false
            let byTsn := match firsts[k]?, sc.fwdMax[st.dir]! with
              | some first, some f => serialLE first f
              | _, _ => false
            if firsts[k]?.isNone then
              out := out ++ [s!"[C07,C02] stream {st.id}: message #{k} (len {m.len}) was accepted but never transmitted"]
            else if !(bySeq || byTsn) then
              out := out ++ [s!"[C07] stream {st.id}: message #{k} (len {m.len}, first TSN {firsts[k]?.getD 0}) was never delivered although the sender never told the peer to skip it (largest skip point {sc.fwdMax[st.dir]!})"]
          k := k + 1
    -- DCEP messages are always reliable and ordered
    let dcepW := ws.filter (·.ppi == 50)
    let dcepR := rs.filter (·.ppi == 50)
    if sc.ended && dcepW != dcepR then
      out := out ++ [s!"[C06] stream {st.id}: DCEP messages not all delivered in order ({dcepR.length} of {dcepW.length})"]
  -- stream close (C14): every message written before Close is read, then end-of-file
  if sc.mode == "reset" then
    for st in sc.streams do
      if sc.closes.contains (st.dir, st.id) && st.relType == 0 then
        let ws := msgsOf sc st.dir st.id
        let rs := readsOf sc (1 - st.dir) st.id
        let ok := if st.unordered then isSubMultiset rs ws && rs.length == ws.length else rs == ws
        if !ok then
          out := out ++ [s!"[C14] stream {st.id % 1000} (incarnation {st.id / 1000}) closed by its writer: the reader got {rs.length} of {ws.length} messages ({describeDiff rs ws})"]
        else if sc.ended && ws.length > 0 && !sc.eofs.contains (1 - st.dir, st.id) then
          out := out ++ [s!"[C14] stream {st.id % 1000} (incarnation {st.id / 1000}): the reader never saw end-of-file after the writer closed"]
  -- graceful shutdown (C08): everything the caller wrote before the call was delivered, in order
  if sc.mode == "shutdown" then
    for st in sc.streams do
      if sc.shutdownOk.contains st.dir && st.relType == 0 then
        let ws := msgsOf sc st.dir st.id
        let rs := readsOf sc (1 - st.dir) st.id
        let ok := if st.unordered then isSubMultiset rs ws && rs.length == ws.length else rs == ws
        if !ok then
          out := out ++ [s!"[C08] Shutdown returned nil on side {st.dir} but stream {st.id} delivered {rs.length} of {ws.length} messages written before the call ({describeDiff rs ws})"]
    for (side, si, m) in sc.reads.toList do
      if sc.lateHashes.contains m.hash && m.len == 33 then
        out := out ++ [s!"[C08,C18] side {side} stream {si}: a write rejected after shutdown began was delivered"]
  -- rejected writes must stay invisible (C18)
  if sc.mode == "api" then
    for (side, si, m) in sc.reads.toList do
      if sc.lateHashes.contains m.hash && sc.badLens.contains m.len then
        out := out ++ [s!"[C18] side {side} stream {si}: a rejected write ({m.len} bytes) was delivered"]
  -- reads on streams nobody wrote to
  for (side, si, _) in sc.reads.toList do
    if !(sc.streams.any fun st => st.id == si && st.dir == 1 - side) then
      out := out ++ [s!"[C01,C06] side {side} read a message on stream {si} that the peer never wrote to"]
  return out

end E2ESpec
