import Std.Data.HashMap
/-!
Executable predicates P_C10 / P_C15 (and the "rejected SACK changes nothing" clause of C03),
evaluated on the implementation's own outputs of the direct-drive sender harness (X-assoc):
after EVERY operation (write, gather, SACK with arbitrary contents, T3 expiry).
Independent of the L0 sender model.
-/
namespace SenderSpec

structure Obs where
  cwnd : Nat := 0
  ssthresh : Nat := 0
  rwnd : Nat := 0
  infB : Nat := 0
  infN : Nat := 0
  penB : Nat := 0
  penN : Nat := 0
  buf : Nat := 0
  cum : Nat := 0
  next : Nat := 0
  cblocked : Nat := 0
  fr : Nat := 0
  streams : List (Nat × Nat × Nat) := []   -- si, bufferedAmount, callback count
  raw : String := ""
  deriving Inhabited

structure Sent where
  si : Nat
  len : Nat
  acked : Bool
  deriving Inhabited

structure St where
  mtu : Nat := 0
  maxPayload : Nat := 0
  minCwnd : Nat := 0
  obs : Obs := {}
  haveObs : Bool := false
  sent : Std.HashMap Nat Sent := {}
  lastArwnd : Nat := 0
  expBuf : List (Nat × Nat) := []          -- si ↦ expected buffered amount
  expCb : List (Nat × Nat) := []           -- si ↦ expected callback count
  thresh : List (Nat × Nat) := []
  unreg : List Nat := []                    -- streams the association dropped (peer reset) and not re-opened since
  estab : Bool := true                      -- harness put the association into the established state
  pendingCheck : Option (String × List String) := none   -- op waiting for its state line
  deriving Inhabited

def serialLE (a b : Nat) : Bool := (b + 2^32 - a) % 2^32 < 2^31
def serialLT (a b : Nat) : Bool := a != b && serialLE a b

def kv (toks : List String) (k : String) : Nat :=
  match toks.find? (·.startsWith (k ++ "=")) with
  | some t => ((t.drop (k.length + 1)).toString.toNat?).getD 0
  | none => 0

def parseObs (toks : List String) : Obs :=
  let strs := (toks.dropWhile (· != "|")).drop 1
  { cwnd := kv toks "cwnd", ssthresh := kv toks "ssthresh", rwnd := kv toks "rwnd", infB := kv toks "infB", infN := kv toks "infN",
    penB := kv toks "penB", penN := kv toks "penN", buf := kv toks "buf", cum := kv toks "cum", next := kv toks "next",
    cblocked := kv toks "cblocked", fr := kv toks "fr",
    streams := strs.filterMap fun s => match (s.splitOn ":").map (·.toNat?.getD 0) with
      | [a, b, c] => some (a, b, c)
      | _ => none,
    raw := " ".intercalate toks }

def lookupD (l : List (Nat × Nat)) (k : Nat) : Nat := (l.lookup k).getD 0
def setKey (l : List (Nat × Nat)) (k v : Nat) : List (Nat × Nat) := (k, v) :: l.filter (·.1 != k)

/-- DATA tokens of a gather result: (packet length, [(tsn, si, len)]) per packet -/
def parsePackets (impl : List String) : List (Nat × List (Nat × Nat × Nat)) :=
  let body := (impl.dropWhile (· != "|")).drop 1
  let pk := (" ".intercalate body).splitOn " ; "
  pk.filterMap fun p =>
    match (p.splitOn " ").filter (· != "") with
    | len :: _ck :: chunks =>
      some (len.toNat?.getD 0, chunks.filterMap fun c => match c.splitOn ":" with
        | ["DATA", tsn, si, _, l, _] => some (tsn.toNat?.getD 0, si.toNat?.getD 0, l.toNat?.getD 0)
        | ["IDATA", tsn, si, _, _, l, _] => some (tsn.toNat?.getD 0, si.toNat?.getD 0, l.toNat?.getD 0)
        | _ => none)
    | _ => none

/-- checks that apply to every observation -/
def checkObs (st : St) (o : Obs) : List String := Id.run do
  let mut out : List String := []
  if o.cwnd < st.mtu then out := out ++ [s!"[C10] congestion window {o.cwnd} fell below one MTU ({st.mtu})"]
  if o.buf != o.penB + o.infB then out := out ++ [s!"[C15] association buffered amount {o.buf} ≠ pending {o.penB} + in-flight {o.infB} user bytes"]
  if o.cblocked != 0 then out := out ++ ["[C15,C20] the low-threshold callback ran while an internal lock was held"]
  for (si, b, cb) in o.streams do
    if b != lookupD st.expBuf si then
      out := out ++ [s!"[C15] stream {si} reports {b} buffered bytes; accepted writes minus acknowledged bytes is {lookupD st.expBuf si}"]
    if cb != lookupD st.expCb si then
      out := out ++ [s!"[C15] stream {si}: low-threshold callback fired {cb} times, downward crossings so far: {lookupD st.expCb si}"]
  let total := o.streams.foldl (fun n (_, b, _) => n + b) 0
  if total != o.buf then out := out ++ [s!"[C15] per-stream buffered amounts add up to {total}, the association reports {o.buf}"]
  return out

/-- `op` was executed from observation `pre`, leading to `post`. -/
def checkStep (st : St) (op impl : List String) (pre post : Obs) : St × List String := Id.run do
  let mut st := st
  let mut out : List String := []
  match op with
  | ["write", si, _ppi, len] =>
    let si := si.toNat?.getD 0
    match impl with
    | [n, e] =>
      if e == "nil" && n == len then st := { st with expBuf := setKey st.expBuf si (lookupD st.expBuf si + (len.toNat?.getD 0)) }
      else if n != "0" then out := out ++ [s!"[C18] failed write reported {n} bytes"]
    | _ => pure ()
  | ["gather"] =>
    let pkts := parsePackets impl
    let mut o := pre.infB
    let mut rw := pre.rwnd
    let newCount := pkts.foldl (fun n (_, cs) => n + (cs.filter fun (t, _, _) => !st.sent.contains t).length) 0
    for (plen, chunks) in pkts do
      if !chunks.isEmpty && plen > st.mtu then out := out ++ [s!"[C10] packet with user data is {plen} bytes, MTU is {st.mtu}"]
      for (tsn, si, len) in chunks do
        if len > st.maxPayload then out := out ++ [s!"[C10] DATA fragment of {len} bytes exceeds the maximum payload {st.maxPayload}"]
        if !st.sent.contains tsn then
          -- new user data: within cwnd and within the peer's window, or a lone window probe
          let fits := o + len ≤ pre.cwnd && len ≤ rw
          let probe := pre.infB == 0 && newCount == 1
          if !fits && !probe then
            out := out ++ [s!"[C10] new DATA tsn={tsn} len={len} sent with {o} bytes outstanding: cwnd={pre.cwnd} rwnd={rw} (not a lone window probe)"]
          if fits && o + len > st.lastArwnd then
            out := out ++ [s!"[C10] after sending tsn={tsn} {o + len} bytes are outstanding but the peer last advertised a window of {st.lastArwnd}"]
          o := o + len
          rw := rw - len
          st := { st with sent := st.sent.insert tsn { si := si, len := len, acked := false } }
  | ["unreg", si] => st := { st with unreg := (si.toNat?.getD 0) :: st.unreg }
  | ["setstate", b] => st := { st with estab := b == "1" }
  | ["sack", cum, arw, gaps, _dups] =>
    let cum := cum.toNat?.getD 0
    let rejected := impl != ["nil"]
    let stale := serialLT cum pre.cum
    if rejected || stale || !st.estab then
      if post.raw != pre.raw then
        out := out ++ [s!"[C03] a {if rejected then "rejected" else if stale then "stale" else "not expected (association not established)"} SACK changed the sender state: before `{pre.raw}` after `{post.raw}`"]
    else
      st := { st with lastArwnd := arw.toNat?.getD 0 }
      -- which TSNs does it newly acknowledge?
      let blocks := if gaps == "none" then [] else (gaps.splitOn "+").filterMap fun g => match g.splitOn "-" with
        | [a, b] => some (a.toNat?.getD 0, b.toNat?.getD 0)
        | _ => none
      let mut released : List (Nat × Nat) := []
      for (t, s) in st.sent.toList do
        if !s.acked then
          let d := (t + 2^32 - cum) % 2^32
          let covered := serialLE t cum || blocks.any fun (a, b) => a ≤ d && d ≤ b
          if covered then
            st := { st with sent := st.sent.insert t { s with acked := true } }
            released := setKey released s.si (lookupD released s.si + s.len)
      for (si, n) in released do
        let before := lookupD st.expBuf si
        let after := before - n
        st := { st with expBuf := setKey st.expBuf si after }
        let th := lookupD st.thresh si
        if before > th && after ≤ th then st := { st with expCb := setKey st.expCb si (lookupD st.expCb si + 1) }
      if serialLT post.cum pre.cum then out := out ++ [s!"[C03,C05] cumulative ack point moved backwards {pre.cum} -> {post.cum}"]
      -- entering fast recovery is a loss signal: the window is cut to ssthresh = max(cwnd/2, 4·MTU) (RFC 4960 §7.2.3/7.2.4)
      if pre.fr == 0 && post.fr == 1 then
        if post.ssthresh < 4 * st.mtu then out := out ++ [s!"[C10] fast recovery entered with ssthresh {post.ssthresh} below 4·MTU"]
        if post.cwnd != max post.ssthresh st.minCwnd then out := out ++ [s!"[C10] fast recovery entered but cwnd is {post.cwnd}, expected ssthresh = {post.ssthresh} (or the configured minimum)"]
  | ["t3", _] =>
    if true then
      let wantSs := max (pre.cwnd / 2) (4 * st.mtu)
      let wantCw := max st.mtu st.minCwnd
      if post.cwnd != wantCw then out := out ++ [s!"[C10] after a T3 expiry cwnd is {post.cwnd}, expected max(MTU, min-cwnd) = {wantCw}"]
      if post.ssthresh != wantSs then out := out ++ [s!"[C10] after a T3 expiry ssthresh is {post.ssthresh}, expected max(cwnd/2, 4·MTU) = {wantSs}"]
  | _ => pure ()
  return (st, out ++ checkObs st post)

end SenderSpec
