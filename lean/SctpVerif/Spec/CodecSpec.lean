import SctpVerif.Model.Codec
/-!
Specification side of the wire codec (C12, C13, decoder part of C03). Core-only.

* `wfPacket` — the explicit, decidable well-formedness predicate under which `dec (enc p) = p`
  is claimed (`C12_roundtrip_packet`) and checked on the implementation by the driver.
* `norm` — the projection of a decoded packet onto what `marshal` looks at (drops the INIT
  `unrecognizedParams`, which are decoded but never marshalled).
* executable predicates evaluated by the driver on the IMPLEMENTATION's recorded outputs
  (independent of the L0 model; the only model-side ingredient is the bitwise CRC32c).
-/
namespace CodecSpec
open Codec

/-! ### well-formedness -/

/-- a parameter / cause value fits a 16-bit length field together with its 4-byte header -/
def fits (n : Nat) : Bool := n + 4 < 65536
/-- a chunk value is shorter than 2^16 bytes. (Values of 65532…65535 bytes make the 16-bit chunk length
wrap; `chunkHeader.unmarshal` computes the value length with the same wrap, so they still round-trip.) -/
def fitsV (n : Nat) : Bool := n < 65536

def wfParam : Param → Bool
  | .heartbeatInfo i => fits i.length
  | .stateCookie c => fits c.length
  | .outReset _ _ _ sids => fits (12 + 2 * sids.length)
  | .reconfigResp _ _ => true
  | .ecnCapable => true
  | .zeroChecksum _ => true
  | .random d => fits d.length
  | .chunkList t => fits t.length
  | .reqHmac as => fits (2 * as.length) && as.all (fun a => a = 1#16 || a = 3#16)
  | .supportedExt t => fits t.length
  | .fwdTsnSupported => true

/-- the Go struct kind is the one `buildErrorCause` picks for the code that goes on the wire -/
def wfCause (c : Cause) : Bool :=
  fits c.data.length &&
  match c.kind with
  | .hdr => c.code ≠ ccInvalidMandatory && c.code ≠ ccUnrecognizedChunk && c.code ≠ ccProtocolViolation && c.code ≠ ccUserAbort
  | .invalidMandatory => c.code = ccInvalidMandatory
  | .unrecognizedChunk => c.code = ccUnrecognizedChunk
  | .protocolViolation => c.code = ccProtocolViolation
  | .userAbort => c.code = ccUserAbort

/-- encoded length of a parameter -/
def paramLen (p : Param) : Nat := (encParam p).length

/-- INIT / INIT-ACK body: every parameter well formed, nothing in the (never marshalled)
unrecognised list, and the LAST parameter carries a non-empty value — the decoder's parameter
loop stops at `remaining ≤ 4`, so a trailing ECN-capable / Forward-TSN-supported is not decoded. -/
def wfInit (c : InitCommon) : Bool :=
  c.params.all wfParam && c.unrec.isEmpty &&
  (match c.params.getLast? with | none => true | some p => paramLen p > 4) &&
  fitsV (initCommonMarshal c).length

def wfChunk : Chunk → Bool
  | .data iData _ b _ _ _ _ ssn mid fsn ppi ud =>
    (if iData then ssn = mid.setWidth 16 && (if b then fsn = 0#32 else ppi = 0#32)
     else mid = 0#32 && fsn = 0#32) && fitsV ((if iData then 16 else 12) + ud.length)
  | .init flags c => flags = 0#8 && wfInit c
  | .initAck flags c => flags = 0#8 && wfInit c
  | .sack _ _ _ gaps dups => fitsV (12 + 4 * gaps.length + 4 * dups.length)
  | .heartbeat ps => (match ps with | [.heartbeatInfo i] => fits i.length | _ => false)
  | .heartbeatEmpty typ _ raw => typ = ctHeartbeat && raw.isEmpty
  | .heartbeatAck _ ps => (match ps with | [.heartbeatInfo i] => fits i.length | _ => false)
  | .abort cs => cs.all wfCause && fitsV (cs.map fun c => 4 + c.data.length).sum
  | .error cs => cs.all wfCause && fitsV (cs.map fun c => 4 + c.data.length).sum
  | .shutdown _ _ => true
  | .shutdownAck _ raw => fitsV raw.length
  | .shutdownComplete _ raw => fitsV raw.length
  | .cookieEcho _ c => fitsV c.length
  | .cookieAck _ raw => fitsV raw.length
  | .reconfig _ a b =>
    wfParam a && (match b with | none => true | some b => wfParam b) &&
    fitsV (match b with | none => paramLen a | some b => paramLen a + pad4 (paramLen a) + paramLen b)
  | .forwardTsn _ _ ss => fitsV (4 + 4 * ss.length)
  | .iForwardTsn _ _ ss => normalizeStreams ss = ss && ss.length ≤ Gen.maxIForwardTSNStreams

def wfPacket (p : Packet) : Bool := p.chunks.all wfChunk

/-- `false` exactly for the two decoded shapes that are known not to survive re-encoding
(known_findings.txt F-codec-1, F-codec-2): a HEARTBEAT-ACK without parameter (the encoder refuses
it), and an INIT / INIT-ACK whose last recognised parameter encodes to 4 bytes (the decoder's
parameter loop would not read it back). -/
def reencodable : Chunk → Bool
  | .heartbeatAck _ [] => false
  | .init _ c => (match c.params.getLast? with | none => true | some p => paramLen p > 4)
  | .initAck _ c => (match c.params.getLast? with | none => true | some p => paramLen p > 4)
  | _ => true

/-! ### what `marshal` looks at -/

def normChunk : Chunk → Chunk
  | .init f c => .init f { c with unrec := [] }
  | .initAck f c => .initAck f { c with unrec := [] }
  | c => c
def norm (p : Packet) : Packet := { p with chunks := p.chunks.map normChunk }

/-! ### C13 truth table (computed with the Lean CRC) -/

/-- `generatePacketChecksum` as the specification states it: CRC32c of the packet with the
checksum field taken as zero -/
def checksumOf (raw : Bytes) : BitVec 32 := Crc.crc32c (raw.take 8 ++ zeros 4 ++ raw.drop 12)
def checksumField (raw : Bytes) : BitVec 32 :=
  match raw.drop 8 with
  | a :: b :: c :: d :: _ => u32 d c b a
  | _ => 0
/-- the packet starts with an INIT or COOKIE-ECHO chunk -/
def startsWithInitOrCookieEcho (raw : Bytes) : Bool :=
  match raw.drop 12 with
  | t :: _ => t = ctInit || t = ctCookieEcho
  | [] => false

/-- Inbound rule of C13 for a packet of at least 12 bytes, `acceptZero` = this endpoint advertised
zero-checksum acceptance. `some true`: the checksum rule lets it through (it must not be dropped
for its checksum); `some false`: it must be discarded. -/
def inboundVerdict (acceptZero : Bool) (raw : Bytes) : Bool :=
  let field := checksumField raw
  field = checksumOf raw || (field = 0#32 && acceptZero && !startsWithInitOrCookieEcho raw)

/-- P_C13 inbound, on the implementation's result of `packet.unmarshal(doChecksum, raw)`
(`doChecksum = !acceptZero`): `rejected` = it returned an error, `checksumErr` = that error was the
checksum mismatch. -/
def inboundPred (acceptZero : Bool) (raw : Bytes) (rejected checksumErr : Bool) : Option String :=
  if raw.length < 12 then (if rejected then none else some "C13-in: a packet shorter than the common header was accepted")
  else if inboundVerdict acceptZero raw then
    (if checksumErr then some s!"C13-in: checksum field {(checksumField raw).toNat} is acceptable (crc {(checksumOf raw).toNat}, acceptZero={acceptZero}) but the packet was dropped for its checksum" else none)
  else
    (if rejected then none else some s!"C13-in: checksum field {(checksumField raw).toNat} ≠ crc {(checksumOf raw).toNat} (acceptZero={acceptZero}, init/cookie-echo first={startsWithInitOrCookieEcho raw}) but the packet was accepted")

/-- Outbound rule of C13: the emitted field is the correct CRC, or it is zero and the peer
advertised acceptance (`sendZero`) and the packet has no INIT / COOKIE-ECHO chunk. -/
def outboundPred (sendZero : Bool) (chunks : List Chunk) (raw : Bytes) : Option String :=
  let field := checksumField raw
  if field = checksumOf raw || (field = 0#32 && sendZero && !chunkMandatoryChecksum chunks) then none
  else some s!"C13-out: emitted checksum field {field.toNat}, crc {(checksumOf raw).toNat}, sendZero={sendZero}, init/cookie-echo chunk={chunkMandatoryChecksum chunks}"

/-- `packet.marshal(doChecksum)` itself: field = CRC when asked, 0 otherwise -/
def marshalFlagPred (doChecksum : Bool) (raw : Bytes) : Option String :=
  let field := checksumField raw
  if doChecksum then (if field = checksumOf raw then none else some s!"C13-out: marshal(true) wrote {field.toNat}, crc is {(checksumOf raw).toNat}")
  else (if field = 0#32 then none else some s!"C13-out: marshal(false) wrote a non-zero checksum {field.toNat}")

/-! ### C12 predicates on implementation results -/

/-- (a) round trip: `built` was well formed, the implementation encoded it to `raw` and decoded
`raw` to `got` -/
def roundTripPred (built : Packet) (got : Option Packet) : Option String :=
  if !wfPacket built then none else
  match got with
  | none => some "C12-roundtrip: a well-formed packet was encoded but its encoding was rejected by the decoder"
  | some g => if g = built then none else some "C12-roundtrip: decode(encode(p)) ≠ p for a well-formed packet"

/-- is the difference between a decoded INIT body `c` and its re-decoding `d` exactly the loss of
one trailing parameter whose encoding is 4 bytes long (ECN-capable, Forward-TSN-supported, empty
list parameters)? — the known behaviour of the INIT parameter loop (`remaining > 4`). -/
def initTailLost (c d : InitCommon) : Bool :=
  match c.params.getLast? with
  | some x => paramLen x = 4 && d.params = c.params.dropLast &&
      d.tag = c.tag && d.arwnd = c.arwnd && d.nOut = c.nOut && d.nIn = c.nIn && d.itsn = c.itsn
  | none => false

def chunkSameOrInitTail (a b : Chunk) : Bool :=
  normChunk a = normChunk b ||
  match a, b with
  | .init f c, .init g d => f = g && initTailLost c d
  | .initAck f c, .initAck g d => f = g && initTailLost c d
  | _, _ => false

def hasEmptyHeartbeatAck (p : Packet) : Bool :=
  p.chunks.any fun c => match c with | .heartbeatAck _ [] => true | _ => false

/-- (b) re-encode stability: the implementation decoded some bytes to `p`; `reencOk` = its encoder
accepted `p`, `redec` = what it decoded from that re-encoding. The two behaviours listed in
known_findings.txt get their own message so that only exactly they are recognised. -/
def stablePred (p : Packet) (reencOk : Bool) (redec : Option Packet) : Option String :=
  if !reencOk then
    (if hasEmptyHeartbeatAck p then some "C12-stable/heartbeat-ack-empty: an accepted HEARTBEAT-ACK without parameter cannot be re-encoded (encoder error)"
     else some "C12-stable: an accepted packet cannot be re-encoded (encoder error)")
  else match redec with
    | none => some "C12-stable: the re-encoding of an accepted packet is rejected by the decoder"
    | some q =>
      if norm q = norm p then none
      else if q.sport = p.sport && q.dport = p.dport && q.vtag = p.vtag && q.chunks.length = p.chunks.length &&
              (p.chunks.zip q.chunks).all (fun (a, b) => chunkSameOrInitTail a b) then
        some "C12-stable/init-trailing-empty-param: an INIT/INIT-ACK whose last parameter is 4 bytes long loses it when re-encoded and decoded again"
      else some "C12-stable: decode(encode(decode(b))) ≠ decode(b)"

/-- split `raw[12:]` at the chunk length fields: (chunk bytes, padding bytes that follow) list, or
none if the length fields do not tile the packet exactly (a missing final padding is tolerated) -/
def splitChunks : Nat → Bytes → Option (List (Bytes × Bytes))
  | 0, _ => none
  | _, [] => some []
  | fuel+1, rem =>
    match rem with
    | _ :: _ :: a :: b :: _ =>
      let l := (u16 a b).toNat
      if l < 4 || l > rem.length then none else
      let c := rem.take l
      let rest := rem.drop l
      let pd := rest.take (pad4 l)
      if pd.length < pad4 l && rest.length > pd.length then none else
      (splitChunks fuel (rest.drop (pad4 l))).map ((c, pd) :: ·)
    | _ => none

/-- (c) locality: `whole` = the implementation's decoding of a bundle, `parts` = its decodings of
each chunk alone (own header, own zero padding). `paddingClean` = every padding in the bundle
is complete and zero. -/
def localityPred (whole : Option (List Chunk)) (parts : List (Option (List Chunk))) (paddingClean : Bool) : Option String :=
  match whole with
  | some cs =>
    if parts.all (fun p => match p with | some [_] => true | _ => false) then
      (if parts.filterMap (fun p => match p with | some [c] => some c | _ => none) = cs then none
       else some "C12-locality: the chunks decoded from the bundle differ from the chunks decoded one by one")
    else some "C12-locality: the bundle is accepted but one of its chunks alone is rejected"
  | none =>
    if paddingClean && parts.all (fun p => match p with | some [_] => true | _ => false) then
      some "C12-locality: every chunk alone is accepted but the bundle is rejected"
    else none

end CodecSpec
