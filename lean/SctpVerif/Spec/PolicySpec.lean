import Std.Data.HashMap
import Std.Data.HashSet
/-!
P_C06 (policy part), evaluated on the implementation's wire output: retransmission stops when the
stream's partial-reliability policy is exhausted.
* retransmission limit N: a chunk is put on the wire at most N+1 times;
* lifetime L: once L has expired (counted from the chunk's first transmission) at most one further
  transmission of it occurs.
Messages carrying DCEP are exempt (always reliable); the caller skips streams that carried DCEP.
A violation that happens while not all fragments of the message have been transmitted yet is the
known behaviour D14 (`abandoned()` needs all fragments in flight) and is reported under its own
signature so that it never hides a violation of another kind.
-/
namespace PolicySpec

structure Tx where
  si : Nat
  first : Nat      -- time of the first transmission (µs)
  count : Nat
  late : Nat       -- transmissions after the lifetime expired
  deriving Inhabited

structure St where
  tx : Std.HashMap (Nat × Nat) Tx := {}                    -- (side, tsn)
  openMsg : Std.HashMap (Nat × Nat × Bool) (List Nat) := {}  -- (side, si, U) ↦ fragments of the message being sent
  allInFlight : Std.HashSet (Nat × Nat) := {}              -- (side, tsn) whose whole message has been transmitted
  deriving Inhabited

/-- one DATA / I-DATA chunk seen on the wire at time `now` (µs); `pol = (relType, relVal)` of its stream -/
def onData (st : St) (side now tsn si : Nat) (flags : String) (pol : Nat × Nat) : St × Option String :=
  let u := flags.contains 'U'
  match st.tx[(side, tsn)]? with
  | none =>
    -- first transmission
    let st := { st with tx := st.tx.insert (side, tsn) { si := si, first := now, count := 1, late := 0 } }
    let k := (side, si, u)
    let frags := (if flags.contains 'B' then [] else st.openMsg.getD k []) ++ [tsn]
    if flags.contains 'E' then
      ({ st with openMsg := st.openMsg.erase k, allInFlight := frags.foldl (fun s t => s.insert (side, t)) st.allInFlight }, none)
    else ({ st with openMsg := st.openMsg.insert k frags }, none)
  | some x =>
    let count := x.count + 1
    let expired := pol.1 == 2 && now > x.first + pol.2 * 1000
    let late := if expired then x.late + 1 else x.late
    let st := { st with tx := st.tx.insert (side, tsn) { x with count := count, late := late } }
    let whole := st.allInFlight.contains (side, tsn)
    let cls := if whole then "" else " [D14: not all fragments of its message had been transmitted yet]"
    if pol.1 == 1 && count > pol.2 + 1 then
      (st, some s!"[C06] stream {si}: chunk tsn={tsn} was put on the wire {count} times under a retransmission limit of {pol.2}{cls}")
    else if pol.1 == 2 && late > 1 then
      (st, some s!"[C06] stream {si}: chunk tsn={tsn} was transmitted {late} times after its lifetime of {pol.2} ms had expired (first sent at {x.first / 1000} ms, now {now / 1000} ms){cls}")
    else (st, none)

end PolicySpec
