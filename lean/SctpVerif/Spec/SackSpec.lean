import SctpVerif.Gen.Funcs
import Std.Data.HashSet
/-!
Executable property predicate `P_C05`, evaluated on the IMPLEMENTATION's recorded outputs
(independent of the L0 model): ghost history of what the receive queue accepted and what it
was told to skip, against every (cumulative point, gap blocks) pair it reports.
  S1  the cumulative point only covers TSNs accepted or skipped
  S2  every TSN in a gap block was accepted (blocks sorted, disjoint, non-adjacent)
  S3  the cumulative point never moves backwards (serial order)
  S4  every accepted TSN above the cumulative point is inside a block
-/
namespace SackSpec
open Gen

abbrev TSN := BitVec 32

structure Ghost where
  cum      : TSN                      -- last reported / initial cumulative point
  skipTo   : TSN                      -- everything ≤ skipTo (serially) was skipped or covered before
  accepted : Std.HashSet Nat := {}    -- accepted TSNs still above `cum`
  deriving Inhabited

def Ghost.init (c : TSN) : Ghost := { cum := c, skipTo := c }

def Ghost.accept (g : Ghost) (t : TSN) : Ghost × Option String :=
  if sna32LTE t g.cum then (g, some s!"[C05,C16,C01] S1/accept: implementation accepted TSN {t.toNat} at or below its cumulative point {g.cum.toNat}")
  else if g.accepted.contains t.toNat then (g, some s!"[C05,C16,C01] dup-accept: TSN {t.toNat} accepted twice")
  else ({ g with accepted := g.accepted.insert t.toNat }, none)

def Ghost.skip (g : Ghost) (c : TSN) : Ghost :=
  if sna32LT g.skipTo c then { g with skipTo := c } else g

/-- the implementation now reports cumulative point `c`. -/
def Ghost.observeCum (g : Ghost) (c : TSN) : Ghost × Option String := Id.run do
  if c == g.cum then return (g, none)
  if sna32LT c g.cum then
    return (g, some s!"[C05,C16,C01] S3: cumulative point moved backwards {g.cum.toNat} -> {c.toNat}")
  -- every t in (max cum skipTo, c] must have been accepted
  let mut acc := g.accepted
  let mut err : Option String := none
  let lo := if sna32LT g.cum g.skipTo then g.skipTo else g.cum
  if sna32LT lo c then
    let n := (c - lo).toNat
    for d in [1:n+1] do
      let t := lo + BitVec.ofNat 32 d
      if !acc.contains t.toNat then
        if err.isNone then
          err := some s!"[C05,C16,C01] S1: cumulative point {c.toNat} covers TSN {t.toNat} which was neither accepted nor skipped"
  -- drop everything now covered
  let keep := acc.fold (fun s t => if sna32LTE (BitVec.ofNat 32 t) c then s else s.insert t) ({} : Std.HashSet Nat)
  acc := keep
  let skipTo := if sna32LT g.skipTo c then c else g.skipTo
  return ({ g with cum := c, skipTo := skipTo, accepted := acc }, err)

/-- check one reported SACK content. -/
def Ghost.observeSack (g : Ghost) (c : TSN) (blocks : List (Nat × Nat)) : Ghost × Option String := Id.run do
  let (g, e) := g.observeCum c
  if e.isSome then return (g, e)
  let mut prevEnd : Nat := 0
  let mut total : Nat := 0
  for (s, e) in blocks do
    if s < 1 || e < s then return (g, some s!"[C05,C16,C01] S2: malformed block {s}-{e}")
    if prevEnd != 0 && s ≤ prevEnd + 1 then return (g, some s!"[C05,C16,C01] S2: blocks not sorted/disjoint/non-adjacent at {s}-{e}")
    for d in [s:e+1] do
      let t := c + BitVec.ofNat 32 d
      if !g.accepted.contains t.toNat then
        return (g, some s!"[C05,C16,C01] S2: gap block {s}-{e} names TSN {t.toNat} which was never accepted")
    total := total + (e - s + 1)
    prevEnd := e
  if total != g.accepted.size then
    return (g, some s!"[C05,C16,C01] S4: {g.accepted.size} accepted TSNs above the cumulative point but blocks cover {total}")
  return (g, none)

end SackSpec
