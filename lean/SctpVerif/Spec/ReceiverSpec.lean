import SctpVerif.Spec.SackSpec
/-!
Executable predicates for the RECEIVE half of the association, evaluated on the IMPLEMENTATION's own
outputs of the direct-drive receiver harness (`ar …` lines of `TestVerifAssocReceiver`), after every
operation. Independent of the L0 model `Model/Receiver.lean`.

An op line is remembered until its `ar st` line arrives; then the op is judged against the observables
before (`pre`) and after (`post`) it. Messages are tagged with the properties they falsify.

* P_C05 (association level): ghost sets of accepted / skipped TSNs (`Spec/SackSpec`) against the cumulative
  point and gap blocks after every op and against every emitted SACK; a SACK reports exactly the queue state.
* P_C11: `a_rwnd` of every SACK and the advertised credit after every op = configured buffer ∸ user bytes
  held (white-box walk over EVERY stream object, also those already deleted from the stream table); nothing
  stored beyond `cum + maxTSNOffset`; at zero credit only TSNs serially below the highest TSN received are
  stored; held bytes of registered streams ≤ buffer + maxTSNOffset · (largest chunk seen); full buffer at a
  `drained` marker.
* P_C19: after a handled DATA chunk the ack state is immediate or the ack timer runs; immediate on gap and
  on duplicate / unacceptable TSN; a running timer expires within 200 ms of being armed (so it is never
  pushed back); `delay` implies the timer runs; HEARTBEAT answered with the same info; first RTT sample.
* P_C03 / C17: no panic; rejected packets and packets in non-receiving states change nothing; zero-length
  DATA and wrong-kind chunks set the ABORT flag and the ABORT carries cause 13 (protocol violation); a stale
  FORWARD-TSN changes nothing but forces an acknowledgement.
* delivery (C01/C06/C07): successful reads against the generator's ground-truth messages.
-/
namespace ReceiverSpec
open Gen

def serialLE (a b : Nat) : Bool := (b + 2^32 - a) % 2^32 < 2^31
def serialLT (a b : Nat) : Bool := a != b && serialLE a b
def dist (a b : Nat) : Nat := (b + 2^32 - a) % 2^32   -- b − a mod 2^32

structure Held where
  si : Nat
  inc : Nat
  bytes : Nat
  reg : Bool
  deriving Inhabited, BEq

structure Obs where
  cum : Nat := 0
  size : Nat := 0
  gaps : List (Nat × Nat) := []
  dups : Nat := 0
  ack : String := "idle"
  timer : Bool := false
  rwnd : Nat := 0
  held : List Held := []
  ctr : String := "ok"
  ns : Nat := 0
  accq : Nat := 0
  abort : Bool := false
  state : Nat := 0
  now : Nat := 0
  noNow : String := ""      -- the line without its `now=` token
  deriving Inhabited

def kvs (toks : List String) (k : String) : String :=
  match toks.find? (·.startsWith (k ++ "=")) with
  | some t => (t.drop (k.length + 1)).toString
  | none => ""

def kvn (toks : List String) (k : String) : Nat := (kvs toks k).toNat?.getD 0

def parseGaps (s : String) : List (Nat × Nat) :=
  if s == "none" || s == "" then [] else
  (s.splitOn "+").filterMap fun b => match b.splitOn "-" with
    | [x, y] => some (x.toNat?.getD 0, y.toNat?.getD 0)
    | _ => none

def parseHeld (s : String) : List Held :=
  if s == "-" || s == "" then [] else
  (s.splitOn ",").filterMap fun e => match e.splitOn ":" with
    | [a, b, c, d] => some { si := a.toNat?.getD 0, inc := b.toNat?.getD 0, bytes := c.toNat?.getD 0, reg := d == "1" }
    | _ => none

def parseObs (toks : List String) : Obs :=
  { cum := kvn toks "cum", size := kvn toks "size", gaps := parseGaps (kvs toks "gaps"), dups := kvn toks "dups",
    ack := kvs toks "ack", timer := kvs toks "timer" == "1", rwnd := kvn toks "rwnd", held := parseHeld (kvs toks "held"),
    ctr := kvs toks "ctr", ns := kvn toks "ns", accq := kvn toks "accq", abort := kvs toks "abort" == "1",
    state := kvn toks "state", now := kvn toks "now",
    noNow := " ".intercalate (toks.filter (fun t => !t.startsWith "now=")) }

def Obs.heldAll (o : Obs) : Nat := (o.held.map (·.bytes)).sum
def Obs.heldReg (o : Obs) : Nat := ((o.held.filter (·.reg)).map (·.bytes)).sum
def Obs.heldOf (o : Obs) (si inc : Nat) : Nat := ((o.held.filter (fun h => h.si == si && h.inc == inc)).map (·.bytes)).sum

/-- ground truth of the honest generator -/
structure GMsg where
  id : Nat
  si : Nat
  inc : Nat
  ordered : Bool
  key : Nat
  ppi : Nat
  len : Nat
  hash : String
  pos : Nat            -- position among the ordered messages of its (si, inc)
  wasRead : Bool := false
  abandoned : Bool := false
  deriving Inhabited

/-- one DATA chunk of an op line -/
structure DChunk where
  tsn : Nat
  si : Nat
  ppi : Nat
  len : Nat
  iData : Bool
  deriving Inhabited

structure St where
  buf : Nat := 0
  maxOff : Nat := 0
  il : Bool := false
  pr : Bool := false
  obs : Obs := {}
  haveObs : Bool := false
  pending : Option (List String × List String) := none
  g : SackSpec.Ghost := SackSpec.Ghost.init 0
  hi : Nat := 0                 -- serially highest TSN accepted or skipped to so far
  maxChunk : Nat := 1
  armedAt : Option Nat := none
  msgs : Array GMsg := #[]
  nOrd : List ((Nat × Nat) × Nat) := []       -- (si, inc) ↦ number of ordered messages written
  nextPos : List ((Nat × Nat) × Nat) := []    -- (si, inc) ↦ every later ordered read has pos ≥ this
  hbs : List String := []                     -- heartbeat infos not yet echoed
  lastSrtt : String := "0"
  d13Reported : Bool := false                 -- the D13 form of the credit mismatch is reported once per sequence
  lost : Bool := false                        -- a packet the predicates cannot interpret was processed (raw, parsed)
  deriving Inhabited

def lookupP (l : List ((Nat × Nat) × Nat)) (k : Nat × Nat) : Nat := (l.lookup k).getD 0
def setP (l : List ((Nat × Nat) × Nat)) (k : Nat × Nat) (v : Nat) : List ((Nat × Nat) × Nat) := (k, v) :: l.filter (·.1 != k)

def isRecvState (s : Nat) : Bool := s == 3 || s == 5 || s == 7

/-- the DATA chunks of a `data …` / `pkt …` op (tokens after `ar`) -/
def dataChunks (il : Bool) (op : List String) : List DChunk :=
  let one (c : List String) : Option DChunk := match c with
    | "data" :: tsn :: si :: _ :: _ :: _ :: ppi :: len :: _ :: rest =>
      some { tsn := tsn.toNat?.getD 0, si := si.toNat?.getD 0, ppi := ppi.toNat?.getD 0, len := len.toNat?.getD 0,
             iData := match rest with | k :: _ => k == "I" | [] => il }
    | _ => none
  match op with
  | "data" :: _ => (one op).toList
  | "pkt" :: rest =>
    let rec split (acc cur : List String) (out : List (List String)) : List String → List (List String)
      | [] => (out ++ [cur.reverse])
      | "|" :: ts => split acc [] (out ++ [cur.reverse]) ts
      | t :: ts => split acc (t :: cur) out ts
    (split [] [] [] rest).filterMap one
  | _ => []

def bitsOf (impl : List String) (k : String) : List Bool :=
  let v := kvs impl k
  if v == "-" || v == "" then [] else (v.splitOn ",").map (· == "1")

/-- the credit formula on one observation; `what` names the observed number -/
def creditCheck (st : St) (o : Obs) (credit : Nat) (what : String) : List String :=
  let want := st.buf - o.heldAll
  if credit == want then []
  else if credit == st.buf - o.heldReg then
    if st.d13Reported then [] else
    [s!"[C11] D13: {what} is {credit} but {o.heldAll - o.heldReg} unread bytes of a reset stream (deleted from the stream table) are still held: buffer {st.buf} minus held {o.heldAll} is {want}"]
  else [s!"[C11] {what} is {credit} but buffer {st.buf} minus user bytes held {o.heldAll} is {want}"]

/-- checks that need only one observation -/
def checkObs (st : St) (o : Obs) : List String := Id.run do
  let mut out : List String := []
  if o.ctr != "ok" then out := out ++ ["[C11] a stream's byte counter differs from the user bytes found by walking its reassembly structures"]
  out := out ++ creditCheck st o o.rwnd "the advertised receiver window"
  if o.heldReg > st.buf + st.maxOff * st.maxChunk then
    out := out ++ [s!"[C11] {o.heldReg} user bytes held by registered streams exceed buffer {st.buf} + tracking window {st.maxOff} x largest chunk {st.maxChunk}"]
  if o.ack == "delay" && !o.timer then out := out ++ ["[C19] acknowledgement is being delayed but the ack timer is not running: it would never be sent"]
  return out

def sackToks (impl : List String) : List (List String) :=
  (impl.foldr (fun pk acc => (pk.splitOn "&") ++ acc) []).filterMap fun c =>
    match c.splitOn ":" with
    | "SACK" :: rest => some rest
    | _ => none

def chunkToks (impl : List String) : List String := impl.foldr (fun pk acc => (pk.splitOn "&") ++ acc) []

/-- judge op `(op, impl)` with the observables before and after it -/
def checkStep (st : St) (op impl : List String) (pre post : Obs) : St × List String := Id.run do
  let mut st := st
  let mut out : List String := []
  let unchanged := pre.noNow == post.noNow
  if impl.contains "PANIC" then
    return (st, [s!"[C03] the implementation panicked while processing `{" ".intercalate (op.take 4)}`"])
  if st.lost then
    -- after a raw packet that was parsed the ghost state is no longer the truth: only what needs no history
    if op.head? == some "raw" && impl.head? == some "rejected" && !unchanged then
      return (st, ["[C03] a packet rejected by the decoder / packet checks changed the receive state"])
    return (st, [])
  match op with
  | "data" :: _ | "pkt" :: _ =>
    let ds := dataChunks st.il op
    let accs := bitsOf impl "acc"
    let stos := bitsOf impl "stored"
    let single := ds.length == 1 && (op.head? == some "data")
    let mut storedBytes := 0
    let mut anyHandled := false
    let mut needImm : Option String := none
    let mut idx := 0
    let hi0 := st.hi
    for d in ds do
      let acc := accs.getD idx false
      let sto := stos.getD idx false
      idx := idx + 1
      if d.len > st.maxChunk then st := { st with maxChunk := d.len }
      let wrongKind := d.iData != st.il
      let off := dist pre.cum d.tsn
      if sto then storedBytes := storedBytes + d.len
      if sto && !acc then out := out ++ [s!"[C01,C05] chunk with TSN {d.tsn} was handed to its stream although the receive queue did not newly accept that TSN"]
      -- a chunk of a message the sender has not given up must be kept once its TSN is going to be acknowledged
      -- (stale chunks of skipped messages and a hostile peer's duplicates inside a message may be dropped)
      if acc && !sto && !post.abort then
        if let some m := st.msgs.find? (fun m => m.ppi == d.ppi) then
          if !m.abandoned && !m.wasRead then
            out := out ++ [s!"[C05,C01] TSN {d.tsn} (message {m.id}) was accepted for acknowledgement but its chunk was not stored: data acknowledged and lost"]
      if acc || sto then
        if !isRecvState pre.state then out := out ++ [s!"[C03] DATA accepted in association state {pre.state}"]
        if wrongKind then out := out ++ ["[C17,C03] a DATA/I-DATA chunk of the kind that was not negotiated was accepted"]
        if d.len == 0 then out := out ++ ["[C03,C11] a DATA chunk without user data was accepted"]
      if d.len == 0 && !post.abort then out := out ++ ["[C03,C11] DATA chunk without user data was not answered with an ABORT"]
      if single && wrongKind && d.len > 0 && isRecvState pre.state && !post.abort then
        out := out ++ ["[C17,C03] a chunk of the wrong kind for the negotiated mode was not answered with a protocol-violation ABORT"]
      if single && sto then
        if !(1 ≤ off && off ≤ st.maxOff) then
          out := out ++ [s!"[C11,C05] chunk with TSN {d.tsn} stored although it lies {off} above the cumulative point {pre.cum} (tracking window {st.maxOff})"]
        if pre.rwnd == 0 && !serialLT d.tsn hi0 then
          out := out ++ [s!"[C11] advertised window was zero but the chunk with TSN {d.tsn}, not below the highest TSN received ({hi0}), was stored"]
      if acc then
        let (g, e) := st.g.accept (BitVec.ofNat 32 d.tsn)
        st := { st with g := g }
        out := out ++ e.toList
        if serialLT st.hi d.tsn then st := { st with hi := d.tsn }
      -- acknowledgement duties (only judged for single-chunk packets: `pre` is then the state the chunk met)
      if single && isRecvState pre.state && !wrongKind && d.len > 0 && !post.abort then
        let dupOrBad := serialLE d.tsn pre.cum || st.g.accepted.contains d.tsn && !acc || off > st.maxOff
        if acc then anyHandled := true
        if dupOrBad then
          anyHandled := true
          needImm := some s!"duplicate or unacceptable TSN {d.tsn}"
        if acc && off > 1 then needImm := some s!"TSN {d.tsn} leaves a gap above the cumulative point {pre.cum}"
        if acc && post.size > 0 then needImm := some s!"gap blocks remain after TSN {d.tsn}"
        if pre.state == 7 && acc then needImm := some "DATA in SHUTDOWN-SENT"
    -- held bytes move by exactly what was stored
    if single && post.heldAll != pre.heldAll + storedBytes then
      out := out ++ [s!"[C11] user bytes held went from {pre.heldAll} to {post.heldAll} although {storedBytes} bytes were stored"]
    if let some why := needImm then
      if post.ack != "imm" then out := out ++ [s!"[C19] no immediate acknowledgement pending after {why} (ack state {post.ack})"]
    else if anyHandled then
      if !(post.ack == "imm" || (post.ack == "delay" && post.timer)) then
        out := out ++ [s!"[C19] after a packet with new DATA neither an immediate acknowledgement is pending nor is the ack timer running (ack state {post.ack})"]
    if single then
      if let some d := ds.head? then
        if !isRecvState pre.state && d.len > 0 && !unchanged then
          out := out ++ [s!"[C03] DATA in association state {pre.state} must be ignored but the receive state changed"]
  | ["fwd", c, _] | ["ifwd", c, _] =>
    let isI := op.head? == some "ifwd"
    let c := c.toNat?.getD 0
    let enabled := if isI then st.il && st.pr else !st.il && st.pr
    if isI && !(st.il && st.pr) then
      if !post.abort then out := out ++ ["[C17,C03] I-FORWARD-TSN without negotiated support was not answered with a protocol-violation ABORT"]
    else if !isI && st.il then
      if !post.abort then out := out ++ ["[C17,C03] FORWARD-TSN with interleaving negotiated was not answered with a protocol-violation ABORT"]
    else if enabled then
      if serialLE c pre.cum then
        -- stale: nothing changes, but an acknowledgement is forced
        if !(pre.cum == post.cum && pre.size == post.size && pre.gaps == post.gaps && pre.held == post.held
             && pre.rwnd == post.rwnd && pre.ns == post.ns && pre.accq == post.accq && pre.abort == post.abort) then
          out := out ++ [s!"[C03,C05] a FORWARD-TSN at or behind the cumulative point ({c} vs {pre.cum}) changed the receive state"]
        if post.ack != "imm" then out := out ++ ["[C03,C19] a stale FORWARD-TSN did not force an immediate acknowledgement"]
      else
        st := { st with g := st.g.skip (BitVec.ofNat 32 c) }
        if serialLT st.hi c then st := { st with hi := c }
        if serialLT post.cum c then out := out ++ [s!"[C07,C05] after FORWARD-TSN {c} the cumulative point is still {post.cum}"]
        if !(post.ack == "imm" || (post.ack == "delay" && post.timer)) then
          out := out ++ ["[C19] a FORWARD-TSN that moved the cumulative point is not going to be acknowledged"]
  | ["hb", info] => st := { st with hbs := st.hbs ++ [info] }
  | ["hback", arg] =>
    let srtt := kvs impl "srtt"
    if let some age := arg.toNat? then
      if st.lastSrtt == "0" && srtt != toString age then
        out := out ++ [s!"[C19] the first HEARTBEAT-ACK, echoing a timestamp {age} ms old, gave the round-trip estimate {srtt} ms"]
    st := { st with lastSrtt := srtt }
  | ["raw", _] =>
    if impl.head? == some "rejected" then
      if !unchanged then out := out ++ ["[C03] a packet rejected by the decoder / packet checks changed the receive state"]
    else st := { st with lost := true }
  | ["gather"] =>
    let toks := chunkToks (impl.drop 1)
    let sacks := sackToks (impl.drop 1)
    let aborts := toks.filter (·.startsWith "ABORT")
    if pre.abort then
      if aborts != ["ABORT:13"] then out := out ++ [s!"[C03,C17] an ABORT with a protocol-violation cause was due but gather produced {aborts}"]
      if impl.head? != some "false" then out := out ++ ["[C03] after sending ABORT the association must be closed down (gatherOutbound reported true)"]
    else
      if !aborts.isEmpty then out := out ++ ["[C03] ABORT sent although none was pending"]
      let sends := pre.state == 3 || pre.state == 5 || pre.state == 6 || pre.state == 7
      if pre.ack == "imm" && sends && sacks.isEmpty then out := out ++ ["[C19,C05] an immediate acknowledgement was pending but gather sent no SACK"]
      if pre.ack != "imm" && !sacks.isEmpty then out := out ++ ["[C19] SACK sent although no acknowledgement was due"]
      -- heartbeats are echoed in order with their information unchanged
      let echoed := toks.filterMap fun t => if t.startsWith "HBACK:" then some (t.drop 6).toString else none
      if echoed != st.hbs then out := out ++ [s!"[C19] HEARTBEATs with info {st.hbs} were answered with {echoed}"]
      st := { st with hbs := [] }
    for s in sacks do
      match s with
      | [cum, arw, gaps, dups] =>
        let cumN := cum.toNat?.getD 0
        if cumN != pre.cum || parseGaps gaps != pre.gaps then
          out := out ++ [s!"[C05] SACK reports cum={cum} gaps={gaps} but the receive queue holds cum={pre.cum} with other blocks"]
        let (g, e) := st.g.observeSack (BitVec.ofNat 32 cumN) (parseGaps gaps)
        st := { st with g := g }
        out := out ++ e.toList
        let cv := creditCheck st pre (arw.toNat?.getD 0) "a_rwnd of the emitted SACK"
        if cv.any (·.startsWith "[C11] D13:") then st := { st with d13Reported := true }
        out := out ++ cv
        if dups != "-" then
          for d in dups.splitOn "," do
            let t := d.toNat?.getD 0
            if !(serialLE t pre.cum || st.g.accepted.contains t) then
              out := out ++ [s!"[C05] SACK reports TSN {t} as duplicate but it was never received"]
      | _ => out := out ++ ["[C05] unparsable SACK summary"]
  | ["tick", _] =>
    if kvn impl "fired" > 0 && post.ack != "imm" then out := out ++ ["[C19] the ack timer expired but no immediate acknowledgement is pending"]
  | _ => pure ()
  return (st, out)

/-- every observation: ghost S1/S3/S2/S4 on the queue state, timer deadline -/
def checkAlways (st : St) (post : Obs) : St × List String := Id.run do
  let mut st := st
  let mut out := checkObs st post
  if out.any (·.startsWith "[C11] D13:") then st := { st with d13Reported := true }
  if st.lost then return (st, out)
  let (g, e) := st.g.observeSack (BitVec.ofNat 32 post.cum) post.gaps
  st := { st with g := g }
  out := out ++ e.toList
  if serialLT st.hi post.cum then st := { st with hi := post.cum }
  -- ack timer: armed at `armedAt`, must have expired before 200 ms have passed
  if post.timer then
    match st.armedAt with
    | none => st := { st with armedAt := some post.now }
    | some t0 =>
      if post.now ≥ t0 + 200 then
        out := out ++ [s!"[C19] the ack timer armed at {t0} ms is still running at {post.now} ms: an acknowledgement is delayed by more than 200 ms (deadline pushed back?)"]
  else st := { st with armedAt := none }
  return (st, out)

def readCheck (st : St) (name : String) (impl : List String) (pre post : Obs) : St × List String := Id.run do
  let mut st := st
  let mut out : List String := []
  let (si, inc) := match name.splitOn ":" with
    | [a, b] => (a.toNat?.getD 0, b.toNat?.getD 0)
    | _ => (0, 0)
  match impl with
  | [n, ppi, cls, hash] =>
    let n := n.toNat?.getD 0
    let ppi := ppi.toNat?.getD 0
    if cls == "ok" then
      if post.heldOf si inc + n != pre.heldOf si inc then
        out := out ++ [s!"[C11] a read of {n} bytes changed the bytes held for stream {si}:{inc} from {pre.heldOf si inc} to {post.heldOf si inc}"]
      if st.msgs.size > 0 && !st.lost then
        match st.msgs.findIdx? (fun m => m.ppi == ppi) with
        | none => out := out ++ [s!"[C01,C06] read returned {n} bytes with PPI {ppi}: no written message has that PPI"]
        | some i =>
          let m := st.msgs[i]!
          if m.len != n || m.hash != hash then
            out := out ++ [s!"[C01,C06] read returned {n} bytes (hash {hash}) for message {m.id} written with {m.len} bytes (hash {m.hash}): fragment, splice or corruption"]
          else if m.si != si || m.inc != inc then
            out := out ++ [s!"[C01,C14] message {m.id} of stream {m.si} incarnation {m.inc} was delivered on {si}:{inc}"]
          else if m.wasRead then out := out ++ [s!"[C01,C06] message {m.id} delivered twice"]
          else
            st := { st with msgs := st.msgs.set! i { m with wasRead := true } }
            if m.ordered then
              let np := lookupP st.nextPos (si, inc)
              if m.pos < np then
                out := out ++ [s!"[C01,C06] ordered message {m.id} delivered after a later ordered message of its stream"]
              else
                -- everything skipped must have been abandoned by the sender
                for k in st.msgs do
                  if k.si == si && k.inc == inc && k.ordered && np ≤ k.pos && k.pos < m.pos && !k.abandoned then
                    out := out ++ [s!"[C01] ordered message {m.id} delivered while the earlier message {k.id} was neither delivered nor abandoned"]
                st := { st with nextPos := setP st.nextPos (si, inc) (m.pos + 1) }
    else if !(pre.noNow == post.noNow) then
      out := out ++ [s!"[C18,C11] a read that returned `{cls}` changed the receive state"]
  | _ => out := out ++ ["unparsable read result"]
  return (st, out)

def drainedCheck (st : St) (o : Obs) : List String := Id.run do
  let mut out : List String := []
  if st.lost then return out
  for m in st.msgs do
    if !m.abandoned && !m.wasRead then
      out := out ++ [s!"[C01,C02] message {m.id} (stream {m.si}:{m.inc}) was delivered completely, never abandoned, and no read returned it"]
      break
  if o.heldAll == 0 && o.rwnd != st.buf then
    out := out ++ [s!"[C11] everything was read and nothing is pending, but the advertised window is {o.rwnd}, not the buffer {st.buf}"]
  if o.heldAll != 0 then
    out := out ++ [s!"[C11,C07] everything readable was read and every incomplete message was abandoned and skipped, but {o.heldAll} user bytes are still held"]
  return out

/-- feed one `ar` line (tokens after `ar`) -/
def step (st : St) (op impl : List String) : St × List String :=
  match op with
  | "new" :: rcv :: il :: tsn :: _maxEnt :: _ackMode :: pr :: _ =>
    let c := (tsn.toNat?.getD 0 + 2^32 - 1) % 2^32
    let buf := match impl with | [_, b] => b.toNat?.getD 0 | _ => rcv.toNat?.getD 0
    let mo := match impl with | [m, _] => m.toNat?.getD 0 | _ => 0
    ({ buf := buf, maxOff := mo, il := il == "1", pr := pr == "1", g := SackSpec.Ghost.init (BitVec.ofNat 32 c), hi := c }, [])
  | ["msg", id, si, inc, ou, key, ppi, len, hash] =>
    let k := (si.toNat?.getD 0, inc.toNat?.getD 0)
    let pos := lookupP st.nOrd k
    let m : GMsg := { id := id.toNat?.getD 0, si := k.1, inc := k.2, ordered := ou == "o", key := key.toNat?.getD 0, ppi := ppi.toNat?.getD 0,
                      len := len.toNat?.getD 0, hash := hash, pos := pos }
    ({ st with msgs := st.msgs.push m, nOrd := if m.ordered then setP st.nOrd k (pos + 1) else st.nOrd }, [])
  | ["abandon", id] =>
    let id := id.toNat?.getD 0
    ({ st with msgs := st.msgs.map fun m => if m.id == id then { m with abandoned := true } else m }, [])
  | ["drained"] => (st, if st.haveObs then drainedCheck st st.obs else [])
  | ["st"] =>
    let post := parseObs impl
    let pre := if st.haveObs then st.obs else post
    let (st1, v1) := match st.pending with
      | some (pop, pimpl) =>
        match pop with
        | ["read", name, _] => readCheck st name pimpl pre post
        | _ => checkStep st pop pimpl pre post
      | none => (st, [])
    let (st2, v2) := checkAlways st1 post
    ({ st2 with obs := post, haveObs := true, pending := none }, v1 ++ v2)
  | _ => ({ st with pending := some (op, impl) }, [])

end ReceiverSpec
